module verif/trans

go 1.22.0

toolchain go1.23.5

require (
	github.com/openacid/low v0.0.0
	golang.org/x/tools v0.29.0
)

require (
	golang.org/x/mod v0.22.0 // indirect
	golang.org/x/sync v0.10.0 // indirect
)

replace github.com/openacid/low => /repo
