// Command trans is the second translator of the framework (docs/translator.md): for a configured list of
// loop-free integer functions of github.com/openacid/low it regenerates, from the SSA form of the Go source
// of the tree named by this module's replace directive, Gallina definitions over Z (coq/gen/Trans.v) in the
// vocabulary of Lib/MachInt.v, Lib/Bits.v, Lib/BitSeq.v and Lib/TransLib.v.  Proofs/TransEq*.v prove each
// generated definition equal to the hand-written model function; a change of the Go source changes the
// generated definition and breaks the equality proof whether or not any test input hits the difference.
//
// Principles:
//   - every SSA value of integer type is a Z inside the range of its Go type; after every arithmetic
//     operation the wrap of the value's Go type is written out (u8..u64, i8..i64), shifts use Go's count
//     semantics (shl64/shr64/sar32...), conversions are the wrap of the target type;
//   - a panic (index out of range, explicit panic, negative shift count) is None in the option monad; a
//     function that cannot panic gets a plain (non-option) type;
//   - control flow: only CFGs without back edge; the dominator tree is translated, a join block becomes a
//     local continuation whose parameters are the block's Phi nodes;
//   - anything else (loops, stores to memory other than the fields of a configured state record, allocation,
//     interfaces, maps, defer, unlisted callees ...) makes the FUNCTION unsupported: no definition is
//     emitted, the reason is recorded.  Nothing is ever approximated.
package main

import (
	"crypto/sha256"
	"encoding/json"
	"flag"
	"fmt"
	"go/constant"
	"go/token"
	"go/types"
	"os"
	"regexp"
	"sort"
	"strings"

	"golang.org/x/tools/go/packages"
	"golang.org/x/tools/go/ssa"
	"golang.org/x/tools/go/ssa/ssautil"
)

var modPath = "github.com/openacid/low"

var noLoops = false

// -hashall: an internal error of the translator on some function of the module makes that function unsupported
var lenient = false

// ------------------------------------------------------------------------------------------ configuration

// packages loaded (module-internal dependencies and github.com/openacid/must are followed)
var pkgNames = []string{"bitmap", "bmtree", "bitstr", "bitword", "iohelper"}

// the functions to translate (short names: module prefix stripped, methods as pkg.T.M)
var targets = []string{
	"bmtree.PathLen", "bmtree.PathHeight", "bmtree.PathBits", "bmtree.PathMask", "bmtree.NewPath", "bmtree.Height",
	"bitmap.Get", "bitmap.Get1", "bitmap.SafeGet", "bitmap.SafeGet1", "bitmap.Getw",
	"bitmap.Rank64", "bitmap.Rank128",
	"bitstr.Len",
	"bmtree.PathToIndex", "bmtree.PathToIndexLoose",
	"bitmap.FromStr32", "bmtree.PathOf",
	"bitmap.TailBitmap.Get", "bitmap.TailBitmap.Get1", "bitword.bitWord.Get", "bitword.bitWord.FirstDiff",
	// translated for change detection only (lib/trans_changed.py): no equality proof yet
	"bitmap.Select32", "bitmap.Select32R64", "bitmap.select32single", "bitmap.selectU64Indexed", "bitmap.indexSelectU64", "bitword.newBW",
	"iohelper.NewSectionWriter", "iohelper.AtToWriter",
	"iohelper.SectionWriter.Seek", "iohelper.SectionWriter.Size",
	// loops: recursion on explicit fuel
	"bmtree.shiftMulti", "bmtree.IndexToPath", "bitmap.NextOne", "bitmap.PrevOne",
	// expected to be unsupported (stores into a fresh slice): documents the bail-out
	"bitmap.IndexRank64",
}

// callees that are NOT translated but mapped to a model function (their own tie to the code is the
// correspondence check of the owning property); partial = the model function returns option
type opaqueFn struct {
	coq     string
	partial bool
}

var opaque = map[string]opaqueFn{
	"bmtree.shiftMulti": {"BmtreeIndex.shiftMulti", true},
}

// math/bits -> Lib/Bits.v (result type int: the values are far inside the range, no wrap is written)
var mathBits = map[string]string{
	"math/bits.OnesCount": "popcount", "math/bits.OnesCount8": "popcount", "math/bits.OnesCount16": "popcount",
	"math/bits.OnesCount32": "popcount", "math/bits.OnesCount64": "popcount",
	"math/bits.LeadingZeros32": "lz32", "math/bits.LeadingZeros64": "lz64",
	"math/bits.TrailingZeros64": "tz64", "math/bits.TrailingZeros8": "tz8", "math/bits.TrailingZeros32": "tz 32",
	"math/bits.Len32": "bitlen", "math/bits.Len64": "bitlen", "math/bits.Len": "bitlen", "math/bits.Len8": "bitlen", "math/bits.Len16": "bitlen",
}

// package-level tables -> the model's table constants (Lib/Bits.v); the array length is taken from the Go
// type on every run, the contents are pinned by the correspondence runs (DESIGN 4.2)
var tables = map[string]string{
	"bitmap.Mask": "Mask", "bitmap.RMask": "RMask", "bitmap.MaskUpto": "MaskUpto", "bitmap.RMaskUpto": "RMaskUpto",
	"bitmap.Bit": "Bit", "bitmap.RBit": "RBit",
}

// package-level arrays whose model constant is a list (read with nthZ; the length is the model's, pinned by DESIGN 4.2)
var listTables = map[string]string{
	"bitmap.select8Lookup": "Select.select8Lookup",
}

// package-level slice variables (read-only tables) -> the model's constants
var sliceTables = map[string]string{
	"bmtree.idxToPath": "BmtreeIndexToPath.idxToPath",
}

// package-level error values -> the model's error codes
var errGlobals = map[string]string{
	"iohelper.errWhence": "SectionWriter.E_whence",
	"iohelper.errOffset": "SectionWriter.E_offset",
}

const nilError = "SectionWriter.E_nil"

// Go structs translated as a state record of the model
type recordCfg struct {
	coqType string
	ctor    string
	fields  []string          // Go field names, in constructor order
	getter  map[string]string // Go field name -> Coq projection
	ignore  map[string]bool   // Go fields the model does not have: a store is dropped, a load is unsupported
}

// Go types that are carried around but never looked into (the io.WriterAt a SectionWriter writes to)
var opaqueTypes = map[string]string{"io.WriterAt": "unit"}

var records = map[string]*recordCfg{
	"iohelper.SectionWriter": {
		coqType: "SectionWriter.sw", ctor: "SectionWriter.mkSW", fields: []string{"base", "off", "limit"},
		getter: map[string]string{"base": "SectionWriter.base", "off": "SectionWriter.off", "limit": "SectionWriter.limit"},
		ignore: map[string]bool{"w": true},
	},
	"bitmap.TailBitmap": {
		coqType: "TailBitmap.tb", ctor: "TailBitmap.mkTB", fields: []string{"Offset", "Words", "reclaimed"},
		getter: map[string]string{"Offset": "TailBitmap.Offset", "Words": "TailBitmap.Words", "reclaimed": "TailBitmap.reclaimed"},
	},
	// harness/trans/testdata/tx (the translator's own tests)
	"tx.Counter": {
		coqType: "TxCounter.t", ctor: "TxCounter.mk", fields: []string{"n", "lim"},
		getter: map[string]string{"n": "TxCounter.n", "lim": "TxCounter.lim"},
	},
	"bitword.bitWord": {
		coqType: "Bitword.bitWord", ctor: "Bitword.Build_bitWord", fields: []string{"width", "byteCap", "wordMask"},
		getter: map[string]string{"width": "Bitword.width", "byteCap": "Bitword.byteCap", "wordMask": "Bitword.wordMask"},
	},
}

const preamble = `From Coq Require Import ZArith List Bool String.
From Low Require Import Lib.MachInt Lib.Bits Lib.BitSeq Lib.TransLib.
From Low Require Model.BmtreeIndex Model.BmtreeIndexToPath Model.SectionWriter Model.TailBitmap Model.Bitword Model.Select.
Import ListNotations.
Open Scope Z_scope.
`

// identifiers the generated text uses: a Go parameter of the same name gets a trailing underscore
var reserved = map[string]bool{}

func init() {
	for _, s := range strings.Fields(`u8 u16 u32 u64 i8 i16 i32 i64 shl8 shl16 shl32 shl64 sshl8 sshl16 sshl32 sshl64
	 shr8 shr16 shr32 shr64 sar8 sar16 sar32 sar64 not8 not16 not32 not64 popcount lz32 lz64 tz tz64 tz8 bitlen Mask RMask
	 MaskUpto RMaskUpto Bit RBit nthZ zlen tblZ fst snd negb Some None true false Z list bool option tt unit eqb
	 if then else let in fun match with end forall exists fix cofix return as at using where Type Prop Set by do of struct
	 SProp for mod land lor lxor fuel nat O S`) {
		reserved[s] = true
	}
}

// ------------------------------------------------------------------------------------------ names

var recvRe = regexp.MustCompile(`\(\*?([A-Za-z0-9_./-]+)\)\.`)

func short(s string) string {
	s = strings.ReplaceAll(s, modPath+"/", "")
	return recvRe.ReplaceAllString(s, "$1.")
}

func coqIdent(shortName string) string {
	return strings.NewReplacer(".", "_", "/", "_", "-", "_").Replace(shortName)
}

type unsupported struct{ why string }

func bail(f string, a ...interface{}) { panic(unsupported{fmt.Sprintf(f, a...)}) }

// ------------------------------------------------------------------------------------------ IR

type node interface{}
type nLet struct {
	name, expr, cmt string
	body            node
}
type nBind struct { // match expr with None => None | Some name => body end
	name, expr, cmt string
	body            node
}
type nGuard struct { // if cond then None else body
	cond, cmt string
	body      node
}
type nIf struct {
	cond string
	a, b node
}
type nRet struct{ expr string }
type nFail struct{ cmt string }
type nKDef struct {
	name   string
	params []string
	body   node
	rest   node
	fix    string // non-empty: a loop header; the name of the fuel binder ("fuel5"), the body sees "f5"
	rt     string // the result type (loops only)
}
type nKCall struct {
	name string
	args []string
}

func isPartial(n node) bool {
	switch n := n.(type) {
	case *nLet:
		return isPartial(n.body)
	case *nBind, *nGuard, *nFail:
		return true
	case *nIf:
		return isPartial(n.a) || isPartial(n.b)
	case *nKDef:
		return n.fix != "" || isPartial(n.body) || isPartial(n.rest)
	}
	return false
}

func cmt(s string) string {
	if s == "" {
		return ""
	}
	s = strings.ReplaceAll(s, "(*", "( *")
	s = strings.ReplaceAll(s, "*)", "* )")
	return "  (* " + s + " *)"
}

func pr(b *strings.Builder, n node, ind string, partial bool) {
	switch n := n.(type) {
	case *nLet:
		fmt.Fprintf(b, "%slet %s := %s in%s\n", ind, n.name, n.expr, cmt(n.cmt))
		pr(b, n.body, ind, partial)
	case *nBind:
		fmt.Fprintf(b, "%smatch %s with None => None | Some %s =>%s\n", ind, n.expr, n.name, cmt(n.cmt))
		pr(b, n.body, ind, partial)
		fmt.Fprintf(b, "%send\n", ind)
	case *nGuard:
		fmt.Fprintf(b, "%sif %s then None else%s\n", ind, n.cond, cmt(n.cmt))
		pr(b, n.body, ind, partial)
	case *nIf:
		fmt.Fprintf(b, "%sif %s then (\n", ind, n.cond)
		pr(b, n.a, ind+"  ", partial)
		fmt.Fprintf(b, "%s) else (\n", ind)
		pr(b, n.b, ind+"  ", partial)
		fmt.Fprintf(b, "%s)\n", ind)
	case *nRet:
		if partial {
			fmt.Fprintf(b, "%sSome %s\n", ind, paren(n.expr))
		} else {
			fmt.Fprintf(b, "%s%s\n", ind, n.expr)
		}
	case *nFail:
		fmt.Fprintf(b, "%sNone%s\n", ind, cmt(n.cmt))
	case *nKDef:
		if n.fix != "" {
			// a loop: recursion on explicit fuel, None when it runs out
			fmt.Fprintf(b, "%slet fix %s (%s : nat) %s {struct %s} : %s :=\n", ind, n.name, n.fix, strings.Join(n.params, " "), n.fix, n.rt)
			fmt.Fprintf(b, "%s  match %s with O => None | S f%s =>\n", ind, n.fix, strings.TrimPrefix(n.fix, "fuel"))
			pr(b, n.body, ind+"  ", partial)
			fmt.Fprintf(b, "%s  end in\n", ind)
			pr(b, n.rest, ind, partial)
			return
		}
		if len(n.params) == 0 {
			fmt.Fprintf(b, "%slet %s := (\n", ind, n.name)
		} else {
			fmt.Fprintf(b, "%slet %s := (fun %s =>\n", ind, n.name, strings.Join(n.params, " "))
		}
		pr(b, n.body, ind+"  ", partial)
		fmt.Fprintf(b, "%s) in\n", ind)
		pr(b, n.rest, ind, partial)
	case *nKCall:
		fmt.Fprintf(b, "%s%s\n", ind, strings.Join(append([]string{n.name}, n.args...), " "))
	default:
		panic("pr: unknown node")
	}
}

func paren(s string) string {
	if strings.ContainsAny(s, " ") && !(strings.HasPrefix(s, "(") && matchingParen(s)) {
		return "(" + s + ")"
	}
	return s
}

// does the "(" at position 0 close at the last character?
func matchingParen(s string) bool {
	d := 0
	for i, c := range s {
		if c == '(' {
			d++
		} else if c == ')' {
			d--
			if d == 0 {
				return i == len(s)-1
			}
		}
	}
	return false
}

// ------------------------------------------------------------------------------------------ types

func basicOf(t types.Type) *types.Basic {
	b, _ := t.Underlying().(*types.Basic)
	return b
}

func isInt(t types.Type) bool {
	b := basicOf(t)
	return b != nil && b.Info()&types.IsInteger != 0
}

func isBool(t types.Type) bool {
	b := basicOf(t)
	return b != nil && b.Info()&types.IsBoolean != 0
}

func isErr(t types.Type) bool {
	return types.Identical(t, types.Universe.Lookup("error").Type())
}

// bit width and signedness of a Go integer type (amd64: int, uint, uintptr are 64 bit)
func intKind(t types.Type) (bits int, signed bool) {
	switch basicOf(t).Kind() {
	case types.Int8:
		return 8, true
	case types.Int16:
		return 16, true
	case types.Int32:
		return 32, true
	case types.Int64, types.Int, types.UntypedInt, types.UntypedRune:
		return 64, true
	case types.Uint8:
		return 8, false
	case types.Uint16:
		return 16, false
	case types.Uint32:
		return 32, false
	case types.Uint64, types.Uint, types.Uintptr:
		return 64, false
	}
	bail("integer kind %s", t)
	return
}

func wrapOf(t types.Type) string {
	n, s := intKind(t)
	if s {
		return fmt.Sprintf("i%d", n)
	}
	return fmt.Sprintf("u%d", n)
}

func coqType(t types.Type) string {
	switch {
	case isInt(t):
		return "Z"
	case isBool(t):
		return "bool"
	case isErr(t):
		return "Z"
	}
	if o, ok := opaqueTypes[t.String()]; ok {
		return o
	}
	switch u := t.Underlying().(type) {
	case *types.Slice:
		if isInt(u.Elem()) {
			return "list Z"
		}
		if _, ok := u.Elem().Underlying().(*types.Slice); ok {
			return "list (" + coqType(u.Elem()) + ")"
		}
	case *types.Basic:
		if u.Kind() == types.String {
			return "list Z"
		}
	case *types.Pointer:
		if r := recordOf(t); r != nil {
			return r.coqType
		}
	case *types.Tuple:
		var ps []string
		for i := 0; i < u.Len(); i++ {
			ps = append(ps, coqType(u.At(i).Type()))
		}
		if len(ps) == 0 {
			return "unit"
		}
		return "(" + strings.Join(ps, " * ") + ")"
	}
	bail("type %s has no translation", t)
	return ""
}

func recordOf(t types.Type) *recordCfg {
	p, ok := t.Underlying().(*types.Pointer)
	if !ok {
		return nil
	}
	n, ok := p.Elem().(*types.Named)
	if !ok || n.Obj().Pkg() == nil {
		return nil
	}
	return records[short(n.Obj().Pkg().Path()+"."+n.Obj().Name())]
}

// ------------------------------------------------------------------------------------------ translation of one function

type result struct {
	Name    string `json:"name"`
	Coq     string `json:"coq"`
	Status  string `json:"status"` // translated | unsupported
	Reason  string `json:"reason,omitempty"`
	Pos     string `json:"pos,omitempty"`
	Sig     string `json:"signature,omitempty"`
	Def     string `json:"def,omitempty"`
	Hash    string `json:"hash"`
	Partial bool   `json:"partial"`
	Mutates bool   `json:"mutates"`
	Fuel    bool   `json:"fuel"` // the definition takes the loop fuel as its first argument
	Calls   []string `json:"calls,omitempty"`
	File    string   `json:"file,omitempty"`    // source file relative to the module root
	SSAHash string   `json:"ssa_hash,omitempty"` // hash of the SSA form (change detection for functions without a definition)
}

type freshRec struct {
	rec *recordCfg
	cur string
}

type ftr struct {
	fn      *ssa.Function
	done    map[string]*result // callees already processed
	byName  map[string]*ssa.Function
	name    map[ssa.Value]string // the Coq expression that stands for an SSA value
	ignored map[ssa.Value]bool   // closures / receivers of no-op calls
	field   map[ssa.Value]string // FieldAddr of the state record -> Go field name
	cell    map[*ssa.Alloc]string // local cells -> the expression currently stored
	fresh   map[ssa.Value]*freshRec // records allocated by this (single-block) function
	owner   map[ssa.Value]ssa.Value // FieldAddr -> the fresh allocation it points into (absent: the receiver)
	curp    *string                  // the name of the current state of the receiver record
	header  map[*ssa.BasicBlock]bool // loop headers
	fuel    bool                     // the function has a loop or calls a function that has one
	rt      string                   // Coq type of the (option) result, for the loop fixpoints
	rec     *recordCfg
	recv    ssa.Value
	mutates bool
	nstate  int
	calls   map[string]bool
}

func (t *ftr) val(v ssa.Value) string {
	if fr, ok := t.fresh[v]; ok {
		return fr.cur
	}
	if t.rec != nil && v == t.recv && t.curp != nil {
		return *t.curp // the receiver handed on to another method: its current state
	}
	if t.ignored[v] {
		bail("the value %s (%s) is used in a way that is not translated", v.Name(), v)
	}
	switch c := v.(type) {
	case *ssa.Const:
		switch {
		case c.Value == nil:
			if isErr(c.Type()) {
				return nilError
			}
			bail("nil/zero constant of type %s", c.Type())
		case isBool(c.Type()):
			if constant.BoolVal(c.Value) {
				return "true"
			}
			return "false"
		case isInt(c.Type()):
			iv := constant.ToInt(c.Value)
			if iv.Kind() != constant.Int {
				bail("constant %s", c)
			}
			s := iv.ExactString()
			if strings.HasPrefix(s, "-") {
				return "(" + s + ")"
			}
			if len(s) > 4 {
				if u, ok := constant.Uint64Val(iv); ok {
					return fmt.Sprintf("0x%x", u)
				}
			}
			return s
		}
		bail("constant %s of type %s", c, c.Type())
	}
	if s, ok := t.name[v]; ok {
		return s
	}
	bail("the value %s (%T) is used before it is translated", v.Name(), v)
	return ""
}

func onlyLoads(v ssa.Value) bool {
	for _, r := range *v.Referrers() {
		u, ok := r.(*ssa.UnOp)
		if !ok || u.Op != token.MUL {
			return false
		}
	}
	return true
}

// is the callee a function without effect and result (the release build of must.Be.OK)?
func isNoop(fn *ssa.Function) bool {
	if fn == nil || len(fn.Blocks) != 1 || fn.Signature.Results().Len() != 0 {
		return false
	}
	ins := fn.Blocks[0].Instrs
	if len(ins) != 1 {
		return false
	}
	_, ok := ins[0].(*ssa.Return)
	return ok
}

type wrapper func(node) node

// instr returns the wrapper for one non-terminator, non-phi instruction; cur is the name of the current state
func (t *ftr) instr(in ssa.Instruction, cur *string) wrapper {
	t.curp = cur
	id := func(n node) node { return n }
	let := func(v ssa.Value, expr string) wrapper {
		t.name[v] = v.Name()
		return func(n node) node { return &nLet{v.Name(), expr, fmt.Sprint(in), n} }
	}
	bind := func(v ssa.Value, expr string) wrapper {
		t.name[v] = v.Name()
		return func(n node) node { return &nBind{v.Name(), expr, fmt.Sprint(in), n} }
	}
	switch in := in.(type) {
	case *ssa.DebugRef:
		return id
	case *ssa.BinOp:
		return t.binop(in, let)
	case *ssa.UnOp:
		switch in.Op {
		case token.MUL: // load
			switch x := in.X.(type) {
			case *ssa.IndexAddr:
				return let(in, t.val(x)) // the element was bound (and the bounds checked) at the IndexAddr
			case *ssa.Alloc:
				if v, ok := t.cell[x]; ok {
					return let(in, v)
				}
				bail("load %s", in)
			case *ssa.FieldAddr:
				f, ok := t.field[x]
				if !ok {
					bail("load through %s", x)
				}
				if fr, ok := t.fresh[t.owner[x]]; ok {
					return let(in, fmt.Sprintf("%s %s", fr.rec.getter[f], fr.cur))
				}
				return let(in, fmt.Sprintf("%s %s", t.rec.getter[f], *cur))
			case *ssa.Global:
				g := short(x.Pkg.Pkg.Path() + "." + x.Name())
				if e, ok := errGlobals[g]; ok && isErr(in.Type()) {
					t.name[in] = e
					return id
				}
				if e, ok := sliceTables[g]; ok {
					coqType(in.Type()) // must be a slice (of slices) of integers
					return let(in, e)
				}
				// a pointer read from a package variable: only allowed as the receiver of a no-op call
				t.name[in] = "tt"
				t.ignored[in] = true
				for _, r := range *in.Referrers() {
					c, ok := r.(*ssa.Call)
					if !ok || !isNoop(c.Call.StaticCallee()) {
						bail("read of package variable %s", g)
					}
				}
				return id
			}
			bail("load %s", in)
		case token.SUB:
			if !isInt(in.Type()) {
				bail("negation of %s", in.Type())
			}
			return let(in, fmt.Sprintf("%s (- %s)", wrapOf(in.Type()), t.val(in.X)))
		case token.XOR:
			if !isInt(in.Type()) {
				bail("complement of %s", in.Type())
			}
			n, s := intKind(in.Type())
			if s {
				return let(in, fmt.Sprintf("Z.lnot %s", t.val(in.X)))
			}
			return let(in, fmt.Sprintf("not%d %s", n, t.val(in.X)))
		case token.NOT:
			return let(in, fmt.Sprintf("negb %s", t.val(in.X)))
		}
		bail("unary operation %s", in)
	case *ssa.Convert:
		if isInt(in.Type()) && isInt(in.X.Type()) {
			return let(in, fmt.Sprintf("%s %s", wrapOf(in.Type()), t.val(in.X)))
		}
		bail("conversion %s -> %s", in.X.Type(), in.Type())
	case *ssa.ChangeType:
		if isInt(in.Type()) && isInt(in.X.Type()) {
			a, b := intKind(in.Type())
			c, d := intKind(in.X.Type())
			if a == c && b == d {
				return let(in, t.val(in.X))
			}
		}
		bail("change of type %s -> %s", in.X.Type(), in.Type())
	case *ssa.IndexAddr:
		if !onlyLoads(in) {
			bail("the address %s is not only loaded from", in)
		}
		if !isInt(in.Index.Type()) {
			bail("index type %s", in.Index.Type())
		}
		switch xt := in.X.Type().Underlying().(type) {
		case *types.Slice:
			if !isInt(xt.Elem()) {
				coqType(xt.Elem()) // a slice of slices of integers, or refuse
			}
			return bind(in, fmt.Sprintf("nthZ %s %s", t.val(in.X), t.val(in.Index)))
		case *types.Pointer:
			g, ok := in.X.(*ssa.Global)
			arr, ok2 := xt.Elem().Underlying().(*types.Array)
			if ok && ok2 {
				gn := short(g.Pkg.Pkg.Path() + "." + g.Name())
				if tab, ok := tables[gn]; ok && isInt(arr.Elem()) {
					return bind(in, fmt.Sprintf("tblZ %d %s %s", arr.Len(), tab, t.val(in.Index)))
				}
				if tab, ok := listTables[gn]; ok && isInt(arr.Elem()) {
					// the Go array length is part of the definition: an index beyond it panics whatever the list holds
					return bind(in, fmt.Sprintf("(if %s <? %d then nthZ %s %s else None)", t.val(in.Index), arr.Len(), tab, t.val(in.Index)))
				}
				bail("table %s is not mapped to a model constant", gn)
			}
		}
		bail("indexing of %s", in.X.Type())
	case *ssa.Index:
		if b := basicOf(in.X.Type()); b != nil && b.Kind() == types.String {
			return bind(in, fmt.Sprintf("nthZ %s %s", t.val(in.X), t.val(in.Index)))
		}
		bail("indexing of a value of type %s", in.X.Type())
	case *ssa.FieldAddr:
		rec := t.rec
		if fr, ok := t.fresh[in.X]; ok {
			rec = fr.rec
			t.owner[in] = in.X
		} else if t.rec == nil || in.X != t.recv {
			bail("field address %s", in)
		}
		st := in.X.Type().Underlying().(*types.Pointer).Elem().Underlying().(*types.Struct)
		f := st.Field(in.Field).Name()
		if _, ok := rec.getter[f]; !ok && !rec.ignore[f] {
			bail("field %s of the state record is not modelled", f)
		}
		for _, r := range *in.Referrers() {
			switch r := r.(type) {
			case *ssa.UnOp:
				if r.Op != token.MUL {
					bail("use of %s", in)
				}
				if rec.ignore[f] {
					bail("read of the field %s, which the model does not have", f)
				}
			case *ssa.Store:
				if r.Addr != ssa.Value(in) {
					bail("the address %s escapes", in)
				}
			default:
				bail("the address %s escapes", in)
			}
		}
		t.field[in] = f
		t.ignored[in] = true
		return id
	case *ssa.Alloc:
		if rec := recordOf(in.Type()); rec != nil {
			// a fresh state record (&SectionWriter{...}): only in a function without control flow; the address is used
			// for field stores / loads and as a result, nothing else
			if len(t.fn.Blocks) != 1 {
				bail("allocation of a record in a function with control flow")
			}
			for _, r := range *in.Referrers() {
				switch r.(type) {
				case *ssa.FieldAddr, *ssa.Return, *ssa.MakeInterface, *ssa.DebugRef:
				default:
					bail("the fresh record %s escapes (%s)", in.Name(), r)
				}
			}
			t.nstate++
			nm := fmt.Sprintf("r_%d", t.nstate)
			var zs []string
			st := in.Type().Underlying().(*types.Pointer).Elem().Underlying().(*types.Struct)
			for _, f := range rec.fields {
				z := ""
				for k := 0; k < st.NumFields(); k++ {
					if st.Field(k).Name() == f {
						switch {
						case isInt(st.Field(k).Type()):
							z = "0"
						case coqType(st.Field(k).Type()) == "list Z":
							z = "[]"
						}
					}
				}
				if z == "" {
					bail("zero value of field %s", f)
				}
				zs = append(zs, z)
			}
			t.fresh[in] = &freshRec{rec, nm}
			expr := rec.ctor + " " + strings.Join(zs, " ")
			c := fmt.Sprint(in)
			return func(n node) node { return &nLet{nm, expr, c, n} }
		}
		// a local cell (a parameter or variable captured by a closure that is handed to a no-op callee only):
		// written only in the block that allocates it, before anything can branch, read anywhere below
		if !isInt(in.Type().Underlying().(*types.Pointer).Elem()) && !isBool(in.Type().Underlying().(*types.Pointer).Elem()) {
			bail("allocation %s", in)
		}
		for _, r := range *in.Referrers() {
			switch r := r.(type) {
			case *ssa.Store:
				if r.Addr != ssa.Value(in) || r.Val == ssa.Value(in) || r.Block() != in.Block() {
					bail("the cell %s is written outside the block that allocates it", in.Name())
				}
			case *ssa.UnOp:
				if r.Op != token.MUL {
					bail("use of the cell %s", in.Name())
				}
			case *ssa.MakeClosure, *ssa.DebugRef:
				// the closure itself is only accepted as the argument of a no-op callee
			default:
				bail("the address of the cell %s escapes (%s)", in.Name(), r)
			}
		}
		if isBool(in.Type().Underlying().(*types.Pointer).Elem()) {
			t.cell[in] = "false"
		} else {
			t.cell[in] = "0"
		}
		t.ignored[in] = true
		return id
	case *ssa.Store:
		if a, ok := in.Addr.(*ssa.Alloc); ok {
			if _, ok := t.cell[a]; ok {
				t.cell[a] = t.val(in.Val)
				return id
			}
		}
		fa, ok := in.Addr.(*ssa.FieldAddr)
		if !ok {
			bail("store %s", in)
		}
		f, ok := t.field[fa]
		if !ok {
			bail("store %s", in)
		}
		if fr, ok := t.fresh[t.owner[fa]]; ok {
			if fr.rec.ignore[f] {
				return id // the model has no such field
			}
			var args []string
			for _, g := range fr.rec.fields {
				if g == f {
					args = append(args, paren(t.val(in.Val)))
				} else {
					args = append(args, fmt.Sprintf("(%s %s)", fr.rec.getter[g], fr.cur))
				}
			}
			t.nstate++
			nm := fmt.Sprintf("r_%d", t.nstate)
			expr := fr.rec.ctor + " " + strings.Join(args, " ")
			fr.cur = nm
			c := fmt.Sprint(in)
			return func(n node) node { return &nLet{nm, expr, c, n} }
		}
		if t.rec.ignore[f] {
			bail("store to the field %s of the receiver, which the model does not have", f)
		}
		t.mutates = true
		var args []string
		for _, g := range t.rec.fields {
			if g == f {
				args = append(args, paren(t.val(in.Val)))
			} else {
				args = append(args, fmt.Sprintf("(%s %s)", t.rec.getter[g], *cur))
			}
		}
		t.nstate++
		nm := fmt.Sprintf("%s_%d", t.name[t.recv], t.nstate)
		expr := t.rec.ctor + " " + strings.Join(args, " ")
		*cur = nm
		c := fmt.Sprint(in)
		return func(n node) node { return &nLet{nm, expr, c, n} }
	case *ssa.MakeClosure:
		for _, r := range *in.Referrers() {
			c, ok := r.(*ssa.Call)
			if !ok || !isNoop(c.Call.StaticCallee()) {
				bail("closure %s", in)
			}
		}
		t.ignored[in] = true
		return id
	case *ssa.MakeInterface:
		// an interface value made from a state record is modelled by the record (io.Writer <- *SectionWriter)
		if recordOf(in.X.Type()) != nil {
			t.name[in] = t.val(in.X)
			return id
		}
		// the argument of panic(...): the value is irrelevant, the panic is None
		onlyPanic := len(*in.Referrers()) > 0
		for _, r := range *in.Referrers() {
			if _, ok := r.(*ssa.Panic); !ok {
				onlyPanic = false
			}
		}
		if onlyPanic {
			t.ignored[in] = true
			return id
		}
		bail("interface value %s", in)
	case *ssa.Extract:
		tup := in.Tuple.Type().(*types.Tuple)
		e := t.val(in.Tuple)
		// (a, b, c) is ((a, b), c)
		n := tup.Len()
		for k := n - 1; k > in.Index; k-- {
			e = "fst " + paren(e)
		}
		if in.Index > 0 {
			e = "snd " + paren(e)
		}
		return let(in, e)
	case *ssa.Call:
		return t.call(in, let, bind)
	}
	bail("instruction %T: %s", in, in)
	return nil
}

func (t *ftr) binop(in *ssa.BinOp, let func(ssa.Value, string) wrapper) wrapper {
	x, y := t.val(in.X), t.val(in.Y)
	switch in.Op {
	case token.EQL, token.NEQ, token.LSS, token.LEQ, token.GTR, token.GEQ:
		var e string
		switch {
		case isInt(in.X.Type()) || (isErr(in.X.Type()) && (in.Op == token.EQL || in.Op == token.NEQ)):
			op := map[token.Token]string{token.EQL: "=?", token.NEQ: "=?", token.LSS: "<?", token.LEQ: "<=?", token.GTR: ">?", token.GEQ: ">=?"}[in.Op]
			e = fmt.Sprintf("%s %s %s", x, op, y)
		case isBool(in.X.Type()) && (in.Op == token.EQL || in.Op == token.NEQ):
			e = fmt.Sprintf("Bool.eqb %s %s", x, y)
		default:
			bail("comparison of %s", in.X.Type())
		}
		if in.Op == token.NEQ {
			e = "negb (" + e + ")"
		}
		return let(in, e)
	}
	if !isInt(in.Type()) {
		bail("operation %s on %s", in.Op, in.Type())
	}
	w := wrapOf(in.Type())
	n, s := intKind(in.Type())
	switch in.Op {
	case token.ADD:
		return let(in, fmt.Sprintf("%s (%s + %s)", w, x, y))
	case token.SUB:
		return let(in, fmt.Sprintf("%s (%s - %s)", w, x, y))
	case token.MUL:
		return let(in, fmt.Sprintf("%s (%s * %s)", w, x, y))
	case token.QUO, token.REM:
		// Go: truncated division; a zero divisor panics; MinInt / -1 wraps
		f := map[bool]map[token.Token]string{true: {token.QUO: "Z.quot", token.REM: "Z.rem"}, false: {token.QUO: "Z.div", token.REM: "Z.modulo"}}[s][in.Op]
		e := fmt.Sprintf("%s %s %s", f, x, y)
		if s && in.Op == token.QUO {
			e = fmt.Sprintf("%s (%s)", w, e)
		}
		inner := let(in, e)
		if c, ok := in.Y.(*ssa.Const); ok && c.Value != nil && constant.Sign(constant.ToInt(c.Value)) != 0 {
			return inner
		}
		c := fmt.Sprint(in)
		return func(nn node) node { return &nGuard{fmt.Sprintf("%s =? 0", y), "division by zero: " + c, inner(nn)} }
	case token.AND:
		return let(in, fmt.Sprintf("Z.land %s %s", x, y))
	case token.OR:
		return let(in, fmt.Sprintf("Z.lor %s %s", x, y))
	case token.XOR:
		return let(in, fmt.Sprintf("Z.lxor %s %s", x, y))
	case token.AND_NOT:
		return let(in, fmt.Sprintf("Z.ldiff %s %s", x, y))
	case token.SHL, token.SHR:
		var f string
		switch {
		case in.Op == token.SHL && !s:
			f = fmt.Sprintf("shl%d", n)
		case in.Op == token.SHL && s:
			f = fmt.Sprintf("sshl%d", n)
		case in.Op == token.SHR && !s:
			f = fmt.Sprintf("shr%d", n)
		default:
			f = fmt.Sprintf("sar%d", n)
		}
		e := fmt.Sprintf("%s %s %s", f, x, y)
		_, cs := intKind(in.Y.Type())
		if _, isConst := in.Y.(*ssa.Const); cs && !isConst {
			// a negative count of a signed type panics
			inner := let(in, e)
			c := fmt.Sprint(in)
			return func(nn node) node { return &nGuard{fmt.Sprintf("%s <? 0", y), "negative shift count: " + c, inner(nn)} }
		}
		return let(in, e)
	}
	bail("operation %s", in.Op)
	return nil
}

func (t *ftr) call(in *ssa.Call, let, bind func(ssa.Value, string) wrapper) wrapper {
	id := func(n node) node { return n }
	c := in.Call
	if c.IsInvoke() {
		bail("dynamic call %s", in)
	}
	if b, ok := c.Value.(*ssa.Builtin); ok {
		if b.Name() == "len" && len(c.Args) == 1 {
			switch u := c.Args[0].Type().Underlying().(type) {
			case *types.Slice:
				if isInt(u.Elem()) {
					return let(in, "zlen "+t.val(c.Args[0]))
				}
			case *types.Basic:
				if u.Kind() == types.String {
					return let(in, "zlen "+t.val(c.Args[0]))
				}
			}
		}
		bail("builtin %s", in)
	}
	callee := c.StaticCallee()
	if callee == nil {
		bail("call of a function value %s", in)
	}
	if isNoop(callee) {
		t.ignored[in] = true
		return id
	}
	full := callee.String()
	var args []string
	argv := func() string {
		for _, a := range c.Args {
			args = append(args, paren(t.val(a)))
		}
		return strings.Join(args, " ")
	}
	if f, ok := mathBits[full]; ok {
		return let(in, f+" "+argv())
	}
	sn := short(full)
	if o, ok := opaque[sn]; ok {
		t.calls[sn+" (opaque: "+o.coq+")"] = true
		if o.partial {
			return bind(in, o.coq+" "+argv())
		}
		return let(in, o.coq+" "+argv())
	}
	if r, ok := t.done[sn]; ok {
		if r.Status != "translated" {
			bail("callee %s is unsupported (%s)", sn, r.Reason)
		}
		if r.Mutates {
			bail("call of the mutating method %s", sn)
		}
		t.calls[sn] = true
		f := r.Coq
		if r.Fuel {
			t.fuel = true
			f += " fuel"
		}
		if r.Partial {
			return bind(in, f+" "+argv())
		}
		return let(in, f+" "+argv())
	}
	if callee == t.fn {
		bail("recursion")
	}
	bail("call of %s, which is neither listed nor mapped", sn)
	return nil
}

// ----- control flow

// loops: only reducible ones (every retreating edge goes to a block that dominates its source); the targets of
// the back edges are the loop headers
func (t *ftr) findLoops() {
	t.header = map[*ssa.BasicBlock]bool{}
	state := map[*ssa.BasicBlock]int{}
	var dfs func(b *ssa.BasicBlock)
	dfs = func(b *ssa.BasicBlock) {
		state[b] = 1
		for _, s := range b.Succs {
			switch state[s] {
			case 1:
				if !s.Dominates(b) {
					bail("irreducible control flow (block %d -> block %d)", b.Index, s.Index)
				}
				t.header[s] = true
			case 0:
				dfs(s)
			}
		}
		state[b] = 2
	}
	dfs(t.fn.Blocks[0])
	if t.header[t.fn.Blocks[0]] {
		bail("the entry block is a loop header")
	}
	if len(t.header) > 0 {
		if noLoops {
			for h := range t.header {
				bail("the control flow graph has a back edge (into block %d): loops are not translated (-noloops)", h.Index)
			}
		}
		t.fuel = true
	}
}

func phis(b *ssa.BasicBlock) []*ssa.Phi {
	var out []*ssa.Phi
	for _, in := range b.Instrs {
		if p, ok := in.(*ssa.Phi); ok {
			out = append(out, p)
		} else {
			break
		}
	}
	return out
}

// the index in s.Preds of the k-th edge b -> s, where k counts the occurrences of s in b.Succs[:si]
func predIndex(b *ssa.BasicBlock, si int) int {
	s := b.Succs[si]
	k := 0
	for i := 0; i < si; i++ {
		if b.Succs[i] == s {
			k++
		}
	}
	for i, p := range s.Preds {
		if p == b {
			if k == 0 {
				return i
			}
			k--
		}
	}
	panic("predIndex")
}

func isJoin(b *ssa.BasicBlock) bool { return len(b.Preds) > 1 }

func kname(b *ssa.BasicBlock) string { return fmt.Sprintf("k%d", b.Index) }

func (t *ftr) edge(b *ssa.BasicBlock, si int, cur string) node {
	s := b.Succs[si]
	pi := predIndex(b, si)
	if isJoin(s) {
		var args []string
		if t.header[s] {
			if s.Dominates(b) {
				args = append(args, fmt.Sprintf("f%d", s.Index)) // back edge: one unit of fuel less
			} else {
				args = append(args, "fuel") // entry into the loop
			}
		}
		if t.rec != nil && t.mutates {
			args = append(args, cur)
		}
		for _, p := range phis(s) {
			args = append(args, paren(t.val(p.Edges[pi])))
		}
		if len(args) == 0 {
			return &nKCall{kname(s), nil}
		}
		return &nKCall{kname(s), args}
	}
	// single predecessor: inline, degenerate phis are lets
	ps := phis(s)
	var ws []wrapper
	for _, p := range ps {
		p := p
		e := t.val(p.Edges[pi])
		t.name[p] = p.Name()
		ws = append(ws, func(n node) node { return &nLet{p.Name(), e, fmt.Sprint(p), n} })
	}
	n := t.block(s, cur)
	for i := len(ws) - 1; i >= 0; i-- {
		n = ws[i](n)
	}
	return n
}

func (t *ftr) block(b *ssa.BasicBlock, cur string) node {
	if p, ok := b.Instrs[len(b.Instrs)-1].(*ssa.Panic); ok {
		// the instructions of a block that ends in panic(...) only build the panic value (fmt.Sprintf, boxing):
		// the block is None whatever they compute; they must not write memory we model or leave the block
		for _, in := range b.Instrs {
			switch in := in.(type) {
			case *ssa.Store:
				if _, fresh := in.Addr.(*ssa.IndexAddr); !fresh {
					bail("store in a block that ends in panic: %s", in)
				} else if _, ok := in.Addr.(*ssa.IndexAddr).X.(*ssa.Alloc); !ok {
					bail("store in a block that ends in panic: %s", in)
				}
			case *ssa.Go, *ssa.Defer, *ssa.Send, *ssa.MapUpdate, *ssa.RunDefers:
				bail("%s in a block that ends in panic", in)
			}
		}
		return &nFail{fmt.Sprint(p)}
	}
	var ws []wrapper
	var term ssa.Instruction
	for _, in := range b.Instrs {
		switch in.(type) {
		case *ssa.Phi:
			continue
		case *ssa.Return, *ssa.If, *ssa.Jump, *ssa.Panic:
			term = in
			continue
		}
		ws = append(ws, t.instr(in, &cur))
	}
	// continuations of the join blocks this block immediately dominates: a join that jumps to another join of
	// the same dominator must be defined after it, so emit in reverse topological (= decreasing post-order) order
	var joins []*ssa.BasicBlock
	for _, d := range b.Dominees() {
		if isJoin(d) {
			joins = append(joins, d)
		}
	}
	order := t.topo()
	sort.Slice(joins, func(i, j int) bool { return order[joins[i]] > order[joins[j]] })
	type kd struct {
		name   string
		params []string
		body   node
		fix    string
	}
	var kds []kd
	for _, j := range joins {
		var params []string
		jc := cur
		if t.rec != nil && t.mutates { // a read-only receiver is never rebound: no need to thread it
			t.nstate++
			jc = fmt.Sprintf("%s_%d", t.name[t.recv], t.nstate)
			params = append(params, fmt.Sprintf("(%s : %s)", jc, t.rec.coqType))
		}
		for _, p := range phis(j) {
			t.name[p] = p.Name()
			params = append(params, fmt.Sprintf("(%s : %s)", p.Name(), coqType(p.Type())))
		}
		fix := ""
		if t.header[j] {
			fix = fmt.Sprintf("fuel%d", j.Index)
		}
		kds = append(kds, kd{kname(j), params, t.block(j, jc), fix})
	}
	var n node
	switch term := term.(type) {
	case *ssa.Return:
		var rs []string
		for _, r := range term.Results {
			rs = append(rs, t.val(r))
		}
		var e string
		switch len(rs) {
		case 0:
			e = "tt"
		case 1:
			e = rs[0]
		default:
			e = "(" + strings.Join(rs, ", ") + ")"
		}
		if t.rec != nil {
			// whether the state is returned is decided at the end (mutates); both forms are kept
			n = &nRet{"\x00" + cur + "\x01" + e}
		} else {
			n = &nRet{e}
		}
	case *ssa.Jump:
		n = t.edge(b, 0, cur)
	case *ssa.If:
		n = &nIf{t.val(term.Cond), t.edge(b, 0, cur), t.edge(b, 1, cur)}
	case *ssa.Panic:
		n = &nFail{fmt.Sprint(term)}
	default:
		bail("block %d has no terminator that is translated", b.Index)
	}
	for i := len(kds) - 1; i >= 0; i-- {
		n = &nKDef{kds[i].name, kds[i].params, kds[i].body, n, kds[i].fix, t.rt}
	}
	for i := len(ws) - 1; i >= 0; i-- {
		n = ws[i](n)
	}
	return n
}

// topological numbering of the (acyclic) CFG: order[a] < order[b] whenever a -> b
func (t *ftr) topo() map[*ssa.BasicBlock]int {
	seen := map[*ssa.BasicBlock]bool{}
	var post []*ssa.BasicBlock
	var dfs func(b *ssa.BasicBlock)
	dfs = func(b *ssa.BasicBlock) {
		seen[b] = true
		for _, s := range b.Succs {
			if !seen[s] {
				dfs(s)
			}
		}
		post = append(post, b)
	}
	dfs(t.fn.Blocks[0])
	o := map[*ssa.BasicBlock]int{}
	for i, b := range post {
		o[b] = len(post) - i
	}
	return o
}

// the Coq type of the results; an interface result is the state record it is made from at every return
func resultType(fn *ssa.Function) string {
	res := fn.Signature.Results()
	var ts []string
	for k := 0; k < res.Len(); k++ {
		ty := res.At(k).Type()
		if _, isIface := ty.Underlying().(*types.Interface); isIface && !isErr(ty) {
			var rec *recordCfg
			for _, b := range fn.Blocks {
				if r, ok := b.Instrs[len(b.Instrs)-1].(*ssa.Return); ok {
					mi, ok := r.Results[k].(*ssa.MakeInterface)
					if !ok || recordOf(mi.X.Type()) == nil || (rec != nil && rec != recordOf(mi.X.Type())) {
						bail("result of interface type %s", ty)
					}
					rec = recordOf(mi.X.Type())
				}
			}
			if rec == nil {
				bail("result of interface type %s", ty)
			}
			ts = append(ts, rec.coqType)
			continue
		}
		ts = append(ts, coqType(ty))
	}
	switch len(ts) {
	case 0:
		return "unit"
	case 1:
		return ts[0]
	}
	return "(" + strings.Join(ts, " * ") + ")"
}

// rewrite the state-carrying returns once it is known whether the function mutates its receiver
func fixRets(n node, mutates bool) {
	switch n := n.(type) {
	case *nLet:
		fixRets(n.body, mutates)
	case *nBind:
		fixRets(n.body, mutates)
	case *nGuard:
		fixRets(n.body, mutates)
	case *nIf:
		fixRets(n.a, mutates)
		fixRets(n.b, mutates)
	case *nKDef:
		fixRets(n.body, mutates)
		fixRets(n.rest, mutates)
	case *nRet:
		if strings.HasPrefix(n.expr, "\x00") {
			p := strings.SplitN(n.expr[1:], "\x01", 2)
			if mutates {
				n.expr = "(" + p[0] + ", " + p[1] + ")"
			} else {
				n.expr = p[1]
			}
		}
	}
}

// drop the state parameter of continuations when the function never writes the state (cosmetic, keeps the
// non-mutating methods free of an unused binder): not done - the binder is harmless.

var ssaHdrRe = regexp.MustCompile(`(?m)^# .*\n|\s#[A-Za-z_]\w*`) // header lines (path, position) and the source names of Phi nodes

func translate(fn *ssa.Function, name string, done map[string]*result, byName map[string]*ssa.Function) (res *result) {
	res = &result{Name: name, Coq: coqIdent(name)}
	if fn == nil {
		res.Status, res.Reason = "unsupported", "no such function in this tree"
		return
	}
	{
		var sb strings.Builder
		fn.WriteTo(&sb)
		res.SSAHash = fmt.Sprintf("%x", sha256.Sum256([]byte(ssaHdrRe.ReplaceAllString(sb.String(), ""))))[:16]
		if f := fn.Prog.Fset.Position(fn.Pos()).Filename; f != "" && fn.Pkg != nil {
			res.File = strings.TrimPrefix(fn.Pkg.Pkg.Path(), modPath+"/") + "/" + f[strings.LastIndex(f, "/")+1:]
		}
	}
	res.Pos = strings.TrimPrefix(fn.Prog.Fset.Position(fn.Pos()).String(), "")
	res.Sig = fn.Signature.String()
	defer func() {
		if r := recover(); r != nil {
			u, ok := r.(unsupported)
			if !ok {
				if !lenient {
					panic(r)
				}
				u = unsupported{fmt.Sprintf("translator error: %v", r)}
			}
			res.Status, res.Reason, res.Def = "unsupported", u.why, ""
		}
	}()
	if len(fn.Blocks) == 0 {
		bail("no body")
	}
	if fn.Recover != nil {
		bail("defer/recover")
	}
	if len(fn.FreeVars) > 0 {
		bail("closure")
	}
	t := &ftr{fn: fn, done: done, byName: byName, name: map[ssa.Value]string{}, ignored: map[ssa.Value]bool{},
		field: map[ssa.Value]string{}, calls: map[string]bool{}, cell: map[*ssa.Alloc]string{},
		fresh: map[ssa.Value]*freshRec{}, owner: map[ssa.Value]ssa.Value{}}
	t.findLoops()
	if fn.Signature.Variadic() {
		bail("variadic function")
	}
	var binders []string
	used := map[string]bool{}
	cur := ""
	for i, p := range fn.Params {
		nm := p.Name()
		if nm == "" || nm == "_" {
			nm = fmt.Sprintf("arg%d", i)
		}
		for reserved[nm] || used[nm] || regexp.MustCompile(`^(t|k)[0-9]+$`).MatchString(nm) {
			nm += "_"
		}
		used[nm] = true
		t.name[p] = nm
		if r := recordOf(p.Type()); r != nil {
			if t.rec != nil {
				bail("two state records")
			}
			t.rec, t.recv, cur = r, p, nm
			// the Go struct must still have the configured fields
			st := p.Type().Underlying().(*types.Pointer).Elem().Underlying().(*types.Struct)
			have := map[string]bool{}
			for k := 0; k < st.NumFields(); k++ {
				have[st.Field(k).Name()] = true
			}
			for _, f := range r.fields {
				if !have[f] {
					bail("the struct has no field %s any more", f)
				}
			}
		}
		binders = append(binders, fmt.Sprintf("(%s : %s)", nm, coqType(p.Type())))
	}
	if t.rec != nil {
		// does the method write a field of its receiver?  (known before the body is translated: the loop fixpoints
		// need the result type)
		for _, b := range fn.Blocks {
			for _, in := range b.Instrs {
				if st, ok := in.(*ssa.Store); ok {
					if fa, ok := st.Addr.(*ssa.FieldAddr); ok && fa.X == t.recv {
						t.mutates = true
					}
				}
			}
		}
	}
	t.rt = resultType(fn)
	if t.mutates {
		t.rt = "(" + t.rec.coqType + " * " + t.rt + ")"
	}
	t.rt = "option " + paren(t.rt)
	body := t.block(fn.Blocks[0], cur)
	fixRets(body, t.mutates)
	partial := isPartial(body)
	rt := resultType(fn)
	if t.fuel {
		binders = append([]string{"(fuel : nat)"}, binders...)
	}
	if t.mutates {
		rt = "(" + t.rec.coqType + " * " + rt + ")"
	}
	if partial {
		rt = "option " + paren(rt)
	}
	var b strings.Builder
	fmt.Fprintf(&b, "Definition %s %s : %s :=\n", res.Coq, strings.Join(binders, " "), rt)
	pr(&b, body, "  ", partial)
	def := strings.TrimRight(b.String(), "\n") + "."
	res.Status, res.Def, res.Partial, res.Mutates, res.Fuel = "translated", def, partial, t.mutates, t.fuel
	for c := range t.calls {
		res.Calls = append(res.Calls, c)
	}
	sort.Strings(res.Calls)
	return
}

// the hash ignores comments and layout
var cmtRe = regexp.MustCompile(`\(\*.*?\*\)`)
var wsRe = regexp.MustCompile(`\s+`)

func hashOf(r *result) string {
	s := r.Def
	if r.Status != "translated" {
		if r.SSAHash != "" {
			return r.SSAHash // no definition: the SSA form stands in (any change of it counts)
		}
		s = "unsupported"
	}
	s = cmtRe.ReplaceAllString(s, "")
	s = strings.TrimSpace(wsRe.ReplaceAllString(s, " "))
	return fmt.Sprintf("%x", sha256.Sum256([]byte(s)))[:16]
}

// ------------------------------------------------------------------------------------------ main

func splitList(s string) []string {
	var out []string
	for _, x := range strings.Split(s, ",") {
		if x = strings.TrimSpace(x); x != "" {
			out = append(out, x)
		}
	}
	return out
}

func main() { os.Exit(run(os.Args[1:])) }

func run(args []string) int {
	flag := flag.NewFlagSet("trans", flag.ContinueOnError)
	out := flag.String("o", "", "Coq file to write (default: stdout)")
	js := flag.String("json", "", "per-function results (definition text, hash, status) as JSON")
	dump := flag.Bool("dump", false, "print the SSA form of the targets to stderr")
	dir := flag.String("dir", "", "directory in which the packages are resolved (default: the current directory)")
	tags := flag.String("tags", "", "build tags")
	mod := flag.String("mod", "", "module path (tests)")
	pk := flag.String("pkgs", "", "packages (tests)")
	tg := flag.String("targets", "", "targets (tests)")
	flag.BoolVar(&noLoops, "noloops", false, "refuse every function whose control flow graph has a back edge")
	hashall := flag.Bool("hashall", false, "change detection (lib/trans_changed.py): every function of every package of the module; the hash of the generated definition where one exists, otherwise the hash of the SSA form")
	all := flag.Bool("all", false, "try every function of the loaded packages (exploration: which functions are translatable?)")
	if err := flag.Parse(args); err != nil {
		return 2
	}
	if *mod != "" {
		modPath = *mod
	}
	if *pk != "" {
		pkgNames = splitList(*pk)
	}
	if *tg != "" {
		targets = splitList(*tg)
	}
	cfg := &packages.Config{
		Mode: packages.NeedName | packages.NeedFiles | packages.NeedCompiledGoFiles | packages.NeedImports |
			packages.NeedDeps | packages.NeedTypes | packages.NeedSyntax | packages.NeedTypesInfo | packages.NeedTypesSizes | packages.NeedModule,
		BuildFlags: []string{"-tags=" + *tags},
		Env:        os.Environ(),
		Dir:        *dir,
	}
	var pats []string
	for _, p := range pkgNames {
		pats = append(pats, modPath+"/"+p)
	}
	if *hashall {
		pats = []string{modPath + "/..."}
		*all = true
		lenient = true
	}
	pkgs, err := packages.Load(cfg, pats...)
	if err != nil {
		fmt.Fprintln(os.Stderr, "trans: load:", err)
		return 2
	}
	if packages.PrintErrors(pkgs) > 0 {
		return 2
	}
	initial := map[string]*packages.Package{}
	var walk func(p *packages.Package)
	walk = func(p *packages.Package) {
		if _, ok := initial[p.PkgPath]; ok {
			return
		}
		if p.PkgPath == modPath || strings.HasPrefix(p.PkgPath, modPath+"/") || strings.HasPrefix(p.PkgPath, "github.com/openacid/must") {
			initial[p.PkgPath] = p
			for _, q := range p.Imports {
				walk(q)
			}
		}
	}
	for _, p := range pkgs {
		walk(p)
	}
	var paths []string
	for k := range initial {
		paths = append(paths, k)
	}
	sort.Strings(paths)
	var init0 []*packages.Package
	for _, k := range paths {
		init0 = append(init0, initial[k])
	}
	prog, _ := ssautil.Packages(init0, ssa.InstantiateGenerics)
	prog.Build()

	byName := map[string]*ssa.Function{}
	for fn := range ssautil.AllFunctions(prog) {
		byName[short(fn.String())] = fn
	}
	for _, p := range prog.AllPackages() {
		for _, m := range p.Members {
			if tn, ok := m.(*ssa.Type); ok {
				for _, T := range []types.Type{tn.Type(), types.NewPointer(tn.Type())} {
					ms := prog.MethodSets.MethodSet(T)
					for i := 0; i < ms.Len(); i++ {
						if f := prog.MethodValue(ms.At(i)); f != nil {
							byName[short(f.String())] = f
						}
					}
				}
			}
		}
	}

	if *all {
		var ns []string
		for n, fn := range byName {
			if fn.Pkg != nil && strings.HasPrefix(fn.Pkg.Pkg.Path(), modPath+"/") && fn.Synthetic == "" && !strings.HasSuffix(n, ".init") &&
				(*hashall || !strings.Contains(n, "$")) {
				ns = append(ns, n)
			}
		}
		sort.Strings(ns)
		targets = ns
	}
	// callees first
	isTarget := map[string]bool{}
	for _, n := range targets {
		isTarget[n] = true
	}
	done := map[string]*result{}
	var order []string
	visiting := map[string]bool{}
	var visit func(n string)
	visit = func(n string) {
		if done[n] != nil {
			return
		}
		if visiting[n] {
			done[n] = &result{Name: n, Coq: coqIdent(n), Status: "unsupported", Reason: "recursion"}
			order = append(order, n)
			return
		}
		visiting[n] = true
		fn := byName[n]
		if fn != nil {
			for _, b := range fn.Blocks {
				for _, in := range b.Instrs {
					if c, ok := in.(*ssa.Call); ok {
						if cal := c.Call.StaticCallee(); cal != nil {
							cn := short(cal.String())
							if _, isOpaque := opaque[cn]; isTarget[cn] && !isOpaque && cn != n {
								visit(cn)
							}
						}
					}
				}
			}
		}
		if done[n] == nil {
			if *dump && fn != nil {
				fn.WriteTo(os.Stderr)
			}
			done[n] = translate(fn, n, done, byName)
			order = append(order, n)
		}
		visiting[n] = false
	}
	for _, n := range targets {
		visit(n)
	}

	var b strings.Builder
	b.WriteString("(** GENERATED by harness/trans (go/packages + go/ssa) from the Go source of the tree under test - do not edit.\n")
	b.WriteString("    One Gallina definition per translated function; Proofs/TransEq*.v prove each equal to the model. *)\n")
	b.WriteString(preamble)
	b.WriteString("\n")
	var rs []*result
	for _, n := range order {
		r := done[n]
		r.Hash = hashOf(r)
		rs = append(rs, r)
		if r.Status == "translated" {
			fmt.Fprintf(&b, "(** %s%s  [%s]\n    hash %s *)\n%s\n\n", n, strings.TrimPrefix(r.Sig, "func"), relPos(r.Pos), r.Hash, r.Def)
		} else {
			fmt.Fprintf(&b, "(** UNSUPPORTED %s: %s *)\n\n", n, strings.NewReplacer("(*", "( *", "*)", "* )").Replace(r.Reason))
		}
	}
	b.WriteString("Open Scope string_scope.\n")
	b.WriteString("Definition translated : list string := [")
	first := true
	for _, r := range rs {
		if r.Status == "translated" {
			if !first {
				b.WriteString("; ")
			}
			first = false
			fmt.Fprintf(&b, "%q", r.Name)
		}
	}
	b.WriteString("].\n")
	b.WriteString("Definition unsupported : list (string * string) := [")
	first = true
	for _, r := range rs {
		if r.Status != "translated" {
			if !first {
				b.WriteString(";\n  ")
			}
			first = false
			fmt.Fprintf(&b, "(%q, %q)", r.Name, strings.ReplaceAll(r.Reason, `"`, "'"))
		}
	}
	b.WriteString("].\n")
	if *out == "" {
		fmt.Print(b.String())
	} else if err := os.WriteFile(*out, []byte(b.String()), 0o644); err != nil {
		fmt.Fprintln(os.Stderr, "trans:", err)
		return 2
	}
	if *js != "" {
		j, _ := json.MarshalIndent(rs, "", " ")
		if err := os.WriteFile(*js, append(j, '\n'), 0o644); err != nil {
			fmt.Fprintln(os.Stderr, "trans:", err)
			return 2
		}
	}
	return 0
}

// position relative to the module root (the generated file must not depend on where the tree lives)
func relPos(p string) string {
	for _, pk := range pkgNames {
		if i := strings.LastIndex(p, "/"+pk+"/"); i >= 0 {
			return p[i+1:]
		}
	}
	return p
}
