package main

// Tests of the translator itself (harness/trans/test.sh runs them in a private copy):
//   - TestDifferential: every function of testdata/tx (one per translation rule: wraps, shifts, conversions, bit
//     operations, Phi/join handling, slice reads, panics, calls, math/bits, state records) is translated; the
//     generated Gallina definition is evaluated by coqc (vm_compute) on a grid of edge values and must give what Go
//     computes for the same arguments (testdata/tx/cmd/txrun): the translation rules are checked against the Go
//     compiler, not against a model.
//   - TestRefused: the constructs the translator must refuse are refused, with the reason.

import (
	"encoding/json"
	"fmt"
	"os"
	"os/exec"
	"path/filepath"
	"strings"
	"testing"
)

func translateTx(t *testing.T) (map[string]*result, []*result) {
	t.Helper()
	tmp := t.TempDir()
	js := filepath.Join(tmp, "defs.json")
	if rc := run([]string{"-mod", "example.com/tx", "-dir", "testdata/tx", "-pkgs", "tx", "-all", "-json", js, "-o", filepath.Join(tmp, "Trans.v")}); rc != 0 {
		t.Fatalf("translator exit %d", rc)
	}
	b, err := os.ReadFile(js)
	if err != nil {
		t.Fatal(err)
	}
	var rs []*result
	if err := json.Unmarshal(b, &rs); err != nil {
		t.Fatal(err)
	}
	m := map[string]*result{}
	for _, r := range rs {
		m[r.Name] = r
	}
	return m, rs
}

func TestRefused(t *testing.T) {
	m, _ := translateTx(t)
	want := map[string]string{
		"tx.Float": "has no translation", "tx.MapGet": "has no translation", "tx.boxed": "variadic", "tx.StoreParam": "not only loaded from", "tx.Alloc": "MakeSlice",
		"tx.Sub": "Slice", "tx.Dyn": "has no translation", "tx.Recursive": "recursion", "tx.CallsRefused": "callee tx.MapGet is unsupported",
		"tx.FillLoop": "not only loaded from",
	}
	for n, why := range want {
		r := m[n]
		if r == nil {
			t.Errorf("%s: not reported", n)
		} else if r.Status != "unsupported" || !strings.Contains(r.Reason, why) {
			t.Errorf("%s: status %s, reason %q; want unsupported, reason containing %q", n, r.Status, r.Reason, why)
		}
	}
	for n, r := range m {
		if _, refused := want[n]; !refused && r.Status != "translated" {
			t.Errorf("%s: unexpectedly unsupported: %s", n, r.Reason)
		}
	}
}

func TestDifferential(t *testing.T) {
	root := os.Getenv("TRANS_ROOT")
	if root == "" {
		root, _ = filepath.Abs("../..")
	}
	theories := filepath.Join(root, "coq", "theories")
	if _, err := os.Stat(filepath.Join(theories, "Lib", "TransLib.vo")); err != nil {
		t.Skip("coq/theories is not built (Lib/TransLib.vo missing)")
	}
	if _, err := exec.LookPath("coqc"); err != nil {
		t.Skip("no coqc")
	}
	m, rs := translateTx(t)
	cmd := exec.Command("go", "run", "./cmd/txrun")
	cmd.Dir = "testdata/tx"
	cmd.Env = append(os.Environ(), "GOFLAGS=-mod=mod", "GOPROXY=off", "GOSUMDB=off", "GOTOOLCHAIN=local")
	out, err := cmd.Output()
	if err != nil {
		t.Fatalf("txrun: %v", err)
	}
	var b strings.Builder
	b.WriteString(preamble)
	b.WriteString("Module TxCounter. Record t := mk { n : Z; lim : Z }. End TxCounter.\n")
	for _, r := range rs {
		if r.Status == "translated" {
			b.WriteString(r.Def + "\n")
		}
	}
	ncase := 0
	seen := map[string]int{}
	var goals []string
	for _, line := range strings.Split(strings.TrimSpace(string(out)), "\n") {
		f := strings.Split(line, "\t")
		if len(f) != 4 {
			t.Fatalf("txrun line %q", line)
		}
		r := m["tx."+f[0]]
		if r == nil || r.Status != "translated" {
			t.Fatalf("%s is not translated: %+v", f[0], r)
		}
		var exp string
		switch {
		case f[2] == "P" && !r.Partial:
			t.Fatalf("%s %s panics in Go but the generated definition is total", f[0], f[1])
		case f[2] == "P":
			exp = "None"
		default:
			exp = f[2]
			if r.Mutates {
				exp = "(" + f[3] + ", " + exp + ")"
			}
			if r.Partial {
				exp = "Some " + paren(exp)
			}
		}
		fuel := ""
		if r.Fuel {
			fuel = " 1200%nat" // more than any loop of testdata/tx runs on the grid
		}
		goals = append(goals, fmt.Sprintf("Goal %s%s %s = %s. Proof. vm_compute. reflexivity. Qed.", r.Coq, fuel, f[1], exp))
		seen[f[0]]++
		ncase++
	}
	headLines := strings.Count(b.String(), "\n")
	b.WriteString(strings.Join(goals, "\n") + "\n")
	tmp := t.TempDir()
	vf := filepath.Join(tmp, "TxCheck.v")
	if err := os.WriteFile(vf, []byte(b.String()), 0o644); err != nil {
		t.Fatal(err)
	}
	c := exec.Command("coqc", "-Q", theories, "Low", vf)
	co, err := c.CombinedOutput()
	if err != nil {
		msg := string(co)
		// name the failing case
		var ln int
		if i := strings.Index(msg, "line "); i >= 0 {
			fmt.Sscanf(msg[i:], "line %d", &ln)
		}
		which := ""
		if k := ln - headLines - 1; k >= 0 && k < len(goals) {
			which = goals[k]
		}
		t.Fatalf("Go and the generated definition disagree (or the generated file does not compile):\n%s\n%s", which, msg)
	}
	if len(seen) < 60 || ncase < 3000 {
		t.Errorf("only %d functions / %d cases checked", len(seen), ncase)
	}
	t.Logf("%d cases of %d functions: the generated definitions compute what Go computes", ncase, len(seen))
}
