#!/bin/sh
# Regenerates coq/gen/Trans.v (git-ignored) from the Go source of the tree under test.
#   usage: harness/trans/regen.sh [repo-dir]      (default: $VERIF_REPO, else /repo)
# Called by ./check T01 on every run (lib/props.d/T01.py), by lib/trans_changed.py, by setup.sh, and by
# coq/gen_project.sh when the file is missing (fresh clone).  The translator module is copied to
# build/trans/src[-scratch] with its replace directive pointed at the tree (the tree itself is never written to).
# TRANS_OUT=<file> redirects the Coq output, TRANS_SFX=<suffix> the work directory.
# Per-function results (definition text, hash, status, reason) go to build/trans/defs[-scratch].json.
# Exit 3 = the translator itself does not build (tool error); other non-zero = the tree does not load.
set -e
here=$(cd "$(dirname "$0")" && pwd)
root=$(cd "$here/../.." && pwd)
repo=${1:-${VERIF_REPO:-/repo}}
out=${TRANS_OUT:-$root/coq/gen/Trans.v}
export GOFLAGS=-mod=mod GOPROXY=off GOSUMDB=off GOTOOLCHAIN=local CGO_ENABLED=0
sfx=""
[ "$repo" = "/repo" ] || sfx="-scratch"
sfx=${TRANS_SFX:-$sfx}     # lib/trans_changed.py works in its own directory (-changed) and writes no coq/gen/Trans.v
src=$root/build/trans/src$sfx
mkdir -p "$src" "$(dirname "$out")"
cp "$here/main.go" "$src/main.go"
sed "s#=> /repo#=> $repo#" "$here/go.mod" > "$src/go.mod"
cp "$repo/go.sum" "$src/go.sum"
rm -f "$root/build/trans/defs$sfx.json"
( cd "$src" && go build -o "$root/build/trans/trans$sfx" . ) || exit 3
( cd "$src" && "$root/build/trans/trans$sfx" -o "$out.tmp" -json "$root/build/trans/defs$sfx.json" $TRANS_FLAGS )
# keep the time stamp when nothing changed, so that make does not rebuild the proofs
if cmp -s "$out.tmp" "$out" 2>/dev/null; then rm -f "$out.tmp"; else mv "$out.tmp" "$out"; fi
