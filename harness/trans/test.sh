#!/bin/sh
# Runs the translator's own tests (main_test.go over testdata/tx) in a private copy under build/trans/src-test,
# so that no go.sum appears in the source tree.  Needs coq/theories built (Lib/*.vo) for the differential test.
set -e
here=$(cd "$(dirname "$0")" && pwd)
root=$(cd "$here/../.." && pwd)
export GOFLAGS=-mod=mod GOPROXY=off GOSUMDB=off GOTOOLCHAIN=local CGO_ENABLED=0
src=$root/build/trans/src-test
rm -rf "$src"; mkdir -p "$src"
cp "$here/main.go" "$here/main_test.go" "$here/go.mod" "$src/"
cp -r "$here/testdata" "$src/testdata"
cp /repo/go.sum "$src/go.sum"
cd "$src" && TRANS_ROOT=$root go test -count=1 "$@" .
