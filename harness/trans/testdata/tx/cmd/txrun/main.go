// Command txrun runs the functions of package tx on a grid of edge values and prints, per case,
//   name <TAB> arguments as Coq terms <TAB> results as a Coq term (P = the call panicked) <TAB> receiver state after (or -)
package main

import (
	"fmt"
	"math"
	"os"
	"reflect"
	"strings"

	"example.com/tx/tx"
)

var fns = map[string]interface{}{
	"AddU8": tx.AddU8, "AddI8": tx.AddI8, "SubU16": tx.SubU16, "MulI16": tx.MulI16, "MulI32": tx.MulI32, "SubU64": tx.SubU64,
	"AddI64": tx.AddI64, "NegI32": tx.NegI32, "NegU8": tx.NegU8, "Mixed": tx.Mixed,
	"DivU32": tx.DivU32, "RemU8": tx.RemU8, "DivI32": tx.DivI32, "RemI32": tx.RemI32, "DivI8": tx.DivI8, "RemI64": tx.RemI64,
	"DivConst": tx.DivConst, "DivU64Const": tx.DivU64Const, "PanicBoxed": tx.PanicBoxed,
	"AndNotU32": tx.AndNotU32, "XorI32": tx.XorI32, "OrI8": tx.OrI8, "AndI64": tx.AndI64, "ComplU8": tx.ComplU8,
	"ComplU64": tx.ComplU64, "ComplI32": tx.ComplI32, "AndNotI32": tx.AndNotI32,
	"ShlU8": tx.ShlU8, "ShlU32": tx.ShlU32, "ShlU64": tx.ShlU64, "ShlI32": tx.ShlI32, "ShlI64": tx.ShlI64, "ShrU8": tx.ShrU8,
	"ShrU64": tx.ShrU64, "SarI8": tx.SarI8, "SarI32": tx.SarI32, "SarI64": tx.SarI64, "ShlSigned": tx.ShlSigned,
	"SarSigned": tx.SarSigned, "ShiftByDiff": tx.ShiftByDiff,
	"I32FromU64": tx.I32FromU64, "U64FromI32": tx.U64FromI32, "U8FromI32": tx.U8FromI32, "I16FromU32": tx.I16FromU32,
	"I64FromU64": tx.I64FromU64, "U32FromI8": tx.U32FromI8, "IntFromI8": tx.IntFromI8,
	"MaxI32": tx.MaxI32, "Clamp": tx.Clamp, "ShortCircuit": tx.ShortCircuit, "BoolValue": tx.BoolValue, "NotBool": tx.NotBool,
	"Nested": tx.Nested, "Switch": tx.Switch, "TwoResults": tx.TwoResults,
	"Idx": tx.Idx, "IdxU8": tx.IdxU8, "LenPlus": tx.LenPlus, "SafeIdx": tx.SafeIdx, "TwoReads": tx.TwoReads, "Explicit": tx.Explicit,
	"CallPure": tx.CallPure, "CallPartial": tx.CallPartial, "CallTuple": tx.CallTuple,
	"Pop8": tx.Pop8, "Pop64": tx.Pop64, "Lz32": tx.Lz32, "Lz64": tx.Lz64, "Tz64": tx.Tz64, "Tz32": tx.Tz32, "Tz8": tx.Tz8,
	"Len32": tx.Len32, "Len64": tx.Len64,
	"Loop": tx.Loop, "CallsLoop": tx.CallsLoop, "SumSquares": tx.SumSquares, "BreakContinue": tx.BreakContinue, "NestedLoops": tx.NestedLoops,
	"Find": tx.Find, "EarlyReturn": tx.EarlyReturn, "TwoLoops": tx.TwoLoops, "WhileShift": tx.WhileShift,
	"Counter.Drain": (*tx.Counter).Drain, "Counter.UpTo": (*tx.Counter).UpTo,
	"Counter.Peek": (*tx.Counter).Peek, "Counter.Bump": (*tx.Counter).Bump, "NewCounter": tx.NewCounter,
}

// functions that index a slice: nthZ converts the index to a unary number, so evaluating the generated definition on
// an index of 2^62 inside Coq does not terminate in practice (the definitions are meant to be reasoned about)
var smallIndex = map[string]bool{"Idx": true, "IdxU8": true, "SafeIdx": true, "TwoReads": true, "CallPartial": true,
	"Loop": true, "CallsLoop": true, "EarlyReturn": true} // ... and loop bounds: the fuel of the test is 1200

func grid(t reflect.Type, small bool) []reflect.Value {
	var out []reflect.Value
	add := func(vs ...interface{}) {
		for _, v := range vs {
			out = append(out, reflect.ValueOf(v).Convert(t))
		}
	}
	if small && (t.Kind() == reflect.Int || t.Kind() == reflect.Int32) {
		add(-3, -1, 0, 1, 2, 3, 4, 5, 7, 1000)
		return out
	}
	switch t.Kind() {
	case reflect.Uint8:
		add(uint8(0), uint8(1), uint8(2), uint8(7), uint8(8), uint8(11), uint8(21), uint8(31), uint8(127), uint8(128), uint8(200), uint8(255))
	case reflect.Int8:
		add(int8(-128), int8(-127), int8(-1), int8(0), int8(1), int8(13), int8(127))
	case reflect.Uint16:
		add(uint16(0), uint16(1), uint16(255), uint16(256), uint16(32768), uint16(65535))
	case reflect.Int16:
		add(int16(-32768), int16(-255), int16(-1), int16(0), int16(1), int16(255), int16(32767))
	case reflect.Uint32:
		add(uint32(0), uint32(1), uint32(5), uint32(31), uint32(32), uint32(0x7fffffff), uint32(0x80000000), uint32(0xffffffff))
	case reflect.Int32:
		add(int32(math.MinInt32), int32(-65), int32(-64), int32(-1), int32(0), int32(1), int32(2), int32(13), int32(63), int32(64), int32(math.MaxInt32))
	case reflect.Uint64:
		add(uint64(0), uint64(1), uint64(63), uint64(64), uint64(1)<<32, uint64(0x7fffffffffffffff), uint64(1)<<63, uint64(0xdeadbeefcafef00d), uint64(math.MaxUint64))
	case reflect.Int64:
		add(int64(math.MinInt64), int64(-1)<<32, int64(-1), int64(0), int64(1), int64(1)<<32, int64(math.MaxInt64))
	case reflect.Int:
		add(math.MinInt64, -1, 0, 1, 2, 3, 8, 64, math.MaxInt64)
	case reflect.Uint:
		add(uint(0), uint(1), uint(2), uint(7), uint(8), uint(15), uint(16), uint(31), uint(32), uint(63), uint(64), uint(65), uint(math.MaxUint64))
	case reflect.Bool:
		add(false, true)
	case reflect.String:
		add("", "a", "\x80\xffz")
	case reflect.Slice:
		switch t.Elem().Kind() {
		case reflect.Uint64:
			add([]uint64{}, []uint64{5}, []uint64{1, 2, 3, math.MaxUint64})
		case reflect.Uint16:
			add([]uint16{}, []uint16{9, 8})
		case reflect.Int32:
			add([]int32{}, []int32{-3}, []int32{4, math.MaxInt32, -1})
		case reflect.Uint8:
			add([]uint8{}, []uint8{255}, []uint8{1, 2, 3})
		}
	case reflect.Ptr: // *Counter
		for _, n := range []int32{-5, 0, 7, 900, math.MaxInt32 - 1} {
			for _, l := range []int32{0, 10, math.MaxInt32} {
				c := &tx.Counter{}
				tx.SetCounter(c, n, l)
				out = append(out, reflect.ValueOf(c))
			}
		}
	}
	if len(out) == 0 {
		panic("no grid for " + t.String())
	}
	return out
}

func coq(v reflect.Value) string {
	switch v.Kind() {
	case reflect.Bool:
		if v.Bool() {
			return "true"
		}
		return "false"
	case reflect.Int, reflect.Int8, reflect.Int16, reflect.Int32, reflect.Int64:
		if v.Int() < 0 {
			return fmt.Sprintf("(%d)", v.Int())
		}
		return fmt.Sprint(v.Int())
	case reflect.Uint, reflect.Uint8, reflect.Uint16, reflect.Uint32, reflect.Uint64:
		return fmt.Sprint(v.Uint())
	case reflect.String:
		var p []string
		for _, b := range []byte(v.String()) {
			p = append(p, fmt.Sprint(b))
		}
		return "[" + strings.Join(p, "; ") + "]"
	case reflect.Slice:
		var p []string
		for i := 0; i < v.Len(); i++ {
			p = append(p, coq(v.Index(i)))
		}
		return "[" + strings.Join(p, "; ") + "]"
	case reflect.Ptr:
		n, l := tx.GetCounter(v.Interface().(*tx.Counter))
		return fmt.Sprintf("(TxCounter.mk %s %s)", coq(reflect.ValueOf(n)), coq(reflect.ValueOf(l)))
	}
	panic("coq: " + v.Kind().String())
}

func call(f reflect.Value, args []reflect.Value) (res string) {
	defer func() {
		if r := recover(); r != nil {
			res = "P"
		}
	}()
	out := f.Call(args)
	var p []string
	for _, o := range out {
		p = append(p, coq(o))
	}
	switch len(p) {
	case 0:
		return "tt"
	case 1:
		return p[0]
	}
	return "(" + strings.Join(p, ", ") + ")"
}

func main() {
	capN := 150
	w := os.Stdout
	for name, fn := range fns {
		f := reflect.ValueOf(fn)
		t := f.Type()
		var grids [][]reflect.Value
		total := 1
		for i := 0; i < t.NumIn(); i++ {
			g := grid(t.In(i), smallIndex[name])
			grids = append(grids, g)
			total *= len(g)
		}
		step := 1
		if total > capN {
			step = total/capN + 1
			for total%step == 0 && step > 1 { // a stride coprime to the grid sizes visits every value of every parameter
				step++
			}
		}
		for k := 0; k < total; k += step {
			args := make([]reflect.Value, len(grids))
			var texts []string
			r := k
			for i, g := range grids {
				args[i] = g[r%len(g)]
				r /= len(g)
			}
			// a pointer receiver is mutated by the call: work on a copy, render before and after
			state := "-"
			if len(args) > 0 && args[0].Kind() == reflect.Ptr {
				n, l := tx.GetCounter(args[0].Interface().(*tx.Counter))
				c := &tx.Counter{}
				tx.SetCounter(c, n, l)
				args[0] = reflect.ValueOf(c)
			}
			for _, a := range args {
				texts = append(texts, coq(a))
			}
			res := call(f, args)
			if len(args) > 0 && args[0].Kind() == reflect.Ptr {
				state = coq(args[0])
			}
			fmt.Fprintf(w, "%s\t%s\t%s\t%s\n", name, strings.Join(texts, " "), res, state)
		}
	}
}
