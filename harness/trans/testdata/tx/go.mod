module example.com/tx

go 1.22
