// Package tx is test data for harness/trans: one small function per translation rule.  The test
// (harness/trans/main_test.go) translates them, evaluates the generated Gallina definitions with
// vm_compute on a grid of edge values and compares with what Go computes (cmd/txrun).
package tx

import "math/bits"

// ---- wraps after arithmetic
func AddU8(a, b uint8) uint8    { return a + b }
func AddI8(a, b int8) int8      { return a + b }
func SubU16(a, b uint16) uint16 { return a - b }
func MulI16(a, b int16) int16   { return a * b }
func MulI32(a, b int32) int32   { return a * b }
func SubU64(a, b uint64) uint64 { return a - b }
func AddI64(a, b int64) int64   { return a + b }
func NegI32(a int32) int32      { return -a }
func NegU8(a uint8) uint8       { return -a }
func Mixed(a int32, b uint64) int32 {
	return int32(b>>32)<<1 + a*3 - 32
}

// ---- division and remainder (truncated; zero divisor panics; MinInt / -1 wraps)
func DivU32(a, b uint32) uint32 { return a / b }
func RemU8(a, b uint8) uint8    { return a % b }
func DivI32(a, b int32) int32   { return a / b }
func RemI32(a, b int32) int32   { return a % b }
func DivI8(a, b int8) int8      { return a / b }
func RemI64(a, b int64) int64   { return a % b }
func DivConst(a int32) int32    { return a/7 + a%7 - a/(-3) }
func DivU64Const(a uint64) uint64 { return a/3 + a%5 }

// ---- a panic whose value is built with fmt-like boxing
func PanicBoxed(x int32) int32 {
	if x < 0 {
		panic(boxed("negative", x))
	}
	return x + 1
}
func boxed(s string, v ...interface{}) string { return s }

// ---- bit operations
func AndNotU32(a, b uint32) uint32 { return a &^ b }
func XorI32(a, b int32) int32      { return a ^ b }
func OrI8(a, b int8) int8          { return a | b }
func AndI64(a, b int64) int64      { return a & b }
func ComplU8(a uint8) uint8        { return ^a }
func ComplU64(a uint64) uint64     { return ^a }
func ComplI32(a int32) int32       { return ^a }
func AndNotI32(a, b int32) int32   { return a &^ b }

// ---- shifts (count rule, arithmetic right shift, signed count)
func ShlU8(x uint8, n uint) uint8        { return x << n }
func ShlU32(x uint32, n uint) uint32     { return x << n }
func ShlU64(x uint64, n uint) uint64     { return x << n }
func ShlI32(x int32, n uint) int32       { return x << n }
func ShlI64(x int64, n uint8) int64      { return x << n }
func ShrU8(x uint8, n uint) uint8        { return x >> n }
func ShrU64(x uint64, n uint32) uint64   { return x >> n }
func SarI8(x int8, n uint) int8          { return x >> n }
func SarI32(x int32, n uint) int32       { return x >> n }
func SarI64(x int64, n uint) int64       { return x >> n }
func ShlSigned(x uint64, n int) uint64   { return x << n } // panics for n < 0
func SarSigned(x int32, n int32) int32   { return x >> n } // panics for n < 0
func ShiftByDiff(x uint64, h, l int32) uint64 { return x << uint(h-l) }

// ---- conversions
func I32FromU64(x uint64) int32  { return int32(x) }
func U64FromI32(x int32) uint64  { return uint64(x) }
func U8FromI32(x int32) uint8    { return uint8(x) }
func I16FromU32(x uint32) int16  { return int16(x) }
func I64FromU64(x uint64) int64  { return int64(x) }
func U32FromI8(x int8) uint32    { return uint32(x) }
func IntFromI8(x int8) int       { return int(x) }

// ---- comparisons, phi nodes, joins
func MaxI32(a, b int32) int32 {
	if a > b {
		return a
	}
	return b
}

func Clamp(x, lo, hi int64) int64 {
	if x < lo {
		x = lo
	} else if x > hi {
		x = hi
	}
	return x + 1
}

func ShortCircuit(a, b int32, c bool) int32 {
	if a > 0 && b > 0 || c {
		return a + b
	}
	return a - b
}

func BoolValue(a, b uint8) bool { return a < b || a == 200 }

func NotBool(a, b uint8) bool { return !(a <= b) }

func Nested(a, b, c uint8) uint8 {
	r := uint8(0)
	if a > 10 {
		if b > 20 {
			r += 3
		} else {
			r += 5
		}
		r *= 2
	} else {
		if c > 30 {
			r = a
		}
	}
	if r == c {
		r++
	}
	return r ^ b
}

func Switch(x int32, k int) int32 {
	switch k {
	default:
		return -1
	case 0:
		x += 10
	case 1:
		x -= 10
		fallthrough
	case 2:
		x *= 2
	}
	if x < 0 {
		return 0
	}
	return x
}

func TwoResults(a, b uint32) (uint32, bool) {
	if a >= b {
		return a - b, true
	}
	return b - a, false
}

// ---- slices, strings, panics
func Idx(xs []uint64, i int32) uint64 { return xs[i>>1] + 1 }
func IdxU8(s string, i int) uint8    { return s[i] ^ 0x80 }
func LenPlus(xs []uint16) int         { return len(xs) + 7 }
func SafeIdx(xs []int32, i int) int32 {
	if i < 0 || i >= len(xs) {
		return -7
	}
	return xs[i] * 2
}
func TwoReads(xs []uint8, i, j int) uint16 { return uint16(xs[i])<<8 | uint16(xs[j]) }
func Explicit(x int32) int32 {
	if x == 13 {
		panic("unlucky")
	}
	return x
}

// ---- calls
func CallPure(a, b int32) int32      { return MaxI32(a, b) - MaxI32(b, 5) }
func CallPartial(xs []uint64, i int32) uint64 {
	return Idx(xs, i) + Idx(xs, i+2)
}
func CallTuple(a, b uint32) uint32 {
	d, ok := TwoResults(a, b)
	if ok {
		return d
	}
	return d + 1000
}

// ---- math/bits (incl. the values for 0)
func Pop8(x uint8) int    { return bits.OnesCount8(x) }
func Pop64(x uint64) int  { return bits.OnesCount64(x) }
func Lz32(x uint32) int   { return bits.LeadingZeros32(x) }
func Lz64(x uint64) int   { return bits.LeadingZeros64(x) }
func Tz64(x uint64) int   { return bits.TrailingZeros64(x) }
func Tz32(x uint32) int   { return bits.TrailingZeros32(x) }
func Tz8(x uint8) int     { return bits.TrailingZeros8(x) }
func Len32(x uint32) int  { return bits.Len32(x) }
func Len64(x uint64) int  { return bits.Len64(x) }

// ---- a state record
type Counter struct {
	n   int32
	lim int32
}

func (c *Counter) Peek() int32 { return c.lim - c.n }

func (c *Counter) Bump(by int32) (int32, bool) {
	if by < 0 {
		return c.n, false
	}
	c.n += by
	if c.n > c.lim {
		c.n = c.lim
		return c.n, false
	}
	return c.n, true
}

func NewCounter(lim int32) *Counter { return &Counter{0, lim * 2} }

// loops in methods: the receiver's state is a parameter of the loop
func (c *Counter) Drain() int32 { // mutating
	k := int32(0)
	for c.n > 0 && k < 1000 {
		c.n--
		k++
	}
	return k
}

func (c *Counter) UpTo(step int32) int32 { // read-only receiver, calls another method inside the loop
	s := int32(0)
	for i := int32(0); i < 50; i++ {
		if c.Peek() < i*step {
			return s
		}
		s += i
	}
	return -s
}

// ---- loops (recursion on explicit fuel; the first argument of the generated definition)
func Loop(n int32) int32 {
	s := int32(0)
	for i := int32(0); i < n; i++ {
		s += i
	}
	return s
}
func CallsLoop(n int32) int32 { return Loop(n) + 1 }

func SumSquares(n uint8) uint32 {
	s := uint32(1 << 31)
	for i := uint8(0); i < n; i++ {
		s += uint32(i) * uint32(i) * 0x10001
	}
	return s
}

func BreakContinue(n uint8, k uint8) int32 {
	r := int32(0)
	for i := uint8(0); i < n; i++ {
		if i == k {
			continue
		}
		if i > 100 && i&k == 4 {
			r -= 1000
			break
		}
		r += int32(i)
	}
	return r * 2
}

func NestedLoops(n uint8, m uint8) uint16 {
	s := uint16(0)
	for i := uint8(0); i < n&31; i++ {
		for j := i; j < m&31; j += 3 {
			s = s*3 + uint16(j) ^ uint16(i)
		}
		s++
	}
	return s
}

func Find(xs []uint64, v uint64) int {
	for i, x := range xs {
		if x == v {
			return i
		}
	}
	return -1
}

func EarlyReturn(xs []uint8, lim int) uint16 {
	acc := uint16(0)
	for i := 0; i < lim; i++ {
		acc += uint16(xs[i]) // panics past the end
		if acc > 300 {
			return acc - 300
		}
	}
	return acc
}

func TwoLoops(n uint8) uint8 {
	a := uint8(0)
	for i := uint8(0); i < n>>2; i++ {
		a += 3
	}
	for a > 10 {
		a -= 7
	}
	return a
}

func WhileShift(b uint64) uint64 { // the shape of bmtree.shiftMulti
	rst := uint64(0)
	shift := uint64(40)
	n := bits.TrailingZeros64(b)
	b >>= uint(n)
	shift -= uint64(n)
	for b != 0 {
		rst += 0xdeadbeefcafe >> shift
		n := bits.TrailingZeros64(b - 1)
		b >>= uint(n)
		shift -= uint64(n)
	}
	return rst
}

// ---- must be refused
func Float(a float64) float64       { return a * 2 }
func MapGet(m map[int32]int32) int32 { return m[1] }
func StoreParam(xs []uint64)        { xs[0] = 1 }
func Alloc(n int) []uint64          { return make([]uint64, n) }
func Sub(xs []uint64) []uint64      { return xs[1:] }
func Dyn(f func(int32) int32) int32 { return f(1) }
func Recursive(n uint32) uint32 {
	if n == 0 {
		return 0
	}
	return Recursive(n-1) + 1
}
func FillLoop(xs []uint64) {
	for i := range xs {
		xs[i] = uint64(i)
	}
}

func CallsRefused(a int32) int32 { return MapGet(nil) + a }

// test access to the unexported fields (not translated)
func SetCounter(c *Counter, n, lim int32)  { c.n, c.lim = n, lim }
func GetCounter(c *Counter) (int32, int32) { return c.n, c.lim }
