package main

import (
	"fmt"

	"github.com/openacid/low/bitmap"
)

func c14Same(a, b []uint64) string {
	if len(a) != len(b) {
		return "0"
	}
	for i := range a {
		if a[i] != b[i] {
			return "0"
		}
	}
	return "1"
}

var c14Tick int

func init() {
	// [words, unchanged]: unchanged = 1 iff the input slice is as before the call
	Exec["bitmap.Join"] = func(a []V) string {
		vs := a[0].U64s()
		before := append([]uint64{}, vs...)
		r := bitmap.Join(vs, a[1].I32())
		return L(U64s(r), c14Same(before, vs))
	}
	// Getw(Join(vs,w), i, w) for every i
	Exec["bitmap.Getw"] = func(a []V) string {
		vs, w := a[0].U64s(), a[1].I32()
		r := bitmap.Join(vs, w)
		out := make([]uint64, len(vs))
		for i := range vs {
			out[i] = bitmap.Getw(r, int32(i), w)
		}
		return U64s(out)
	}
	Exec["bitmap.Slice"] = func(a []V) string {
		ws := a[0].U64s()
		before := append([]uint64{}, ws...)
		from, to := a[1].I32(), a[2].I32()
		r := bitmap.Slice(ws, from, to)
		c14Tick++
		if c14Tick%8 == 0 && len(ws) > 0 {
			// one case in 8: the same range is then sliced by three callers at once out of the SAME bitmap,
			// next to three callers slicing other ranges of it (ends sweeping the whole bitmap); readers
			// share a bitmap freely, so the first result that differs from the lone caller's is the observation
			n := int32(64 * len(ws))
			var bad [3][]uint64
			lockstep(6, 120, func(g, j int) {
				if g < 3 {
					if r2 := bitmap.Slice(ws, from, to); bad[g] == nil && c14Same(r, r2) != c14Same(r, r) {
						bad[g] = r2
					}
				} else {
					func() {
						defer func() { recover() }()
						t2 := int32((j*3+g-3)*29)%n + 1
						f2 := int32(0)
						if g == 5 {
							f2 = t2 - 1
						}
						bitmap.Slice(ws, f2, t2)
					}()
				}
			})
			for _, b := range bad {
				if b != nil {
					r = b
					break
				}
			}
		}
		return L(U64s(r), c14Same(before, ws))
	}
	Register("C14", genC14)
}

var c14Widths = []int{1, 2, 4, 8, 16, 32, 64}

func c14JoinKey(vs []uint64, w int) string {
	if len(vs) < 2 {
		return ""
	}
	mask := ^uint64(0)
	if w < 64 {
		mask = 1<<uint(w) - 1
	}
	high, low := false, false
	for _, v := range vs {
		if v&^mask != 0 {
			high = true
		}
		if v&mask != 0 {
			low = true
		}
	}
	if !low || (!high && w < 64) {
		return "" // trivial: nothing stored, or no bit above w to be cut off
	}
	bits := len(vs) * w
	lc := "lt1w"
	switch {
	case bits%64 == 0 && bits == 64:
		lc = "eq1w"
	case bits%64 == 0:
		lc = "eqNw"
	case bits > 64:
		lc = "gt1w"
	}
	return fmt.Sprintf("J/w%d/%s", w, lc)
}

func c14SliceKey(ws []uint64, from, to int) string {
	if from == to {
		return ""
	}
	inside := false
	for p := from; p < to; p++ {
		if ws[p>>6]>>(uint(p)&63)&1 == 1 {
			inside = true
			break
		}
	}
	if !inside {
		return ""
	}
	n := 64 * len(ws)
	before := from > 0 && ws[(from-1)>>6]>>(uint(from-1)&63)&1 == 1
	after := to < n && ws[to>>6]>>(uint(to)&63)&1 == 1
	span := "inword"
	switch d := (to-1)>>6 - from>>6; {
	case d == 1:
		span = "cross1"
	case d > 1:
		span = "multi"
	}
	l := to - from
	lc := "part"
	if l%64 == 0 {
		lc = "full"
	} else if l%64 == 1 {
		lc = "plus1"
	} else if l%64 == 63 {
		lc = "minus1"
	}
	return fmt.Sprintf("S/f%s/t%s/%s/%s/b%v/a%v/rw%d", c13Off(from), c13Off(to), span, lc, before, after, minInt((l+63)/64, 4))
}

func genC14(g *Gen) {
	join := func(vs []uint64, w int, bucket string) {
		g.Stat(bucket)
		key := c14JoinKey(vs, w)
		g.Do("bitmap.Join", L(U64s(vs), Int(w)), key)
		g.Do("bitmap.Getw", L(U64s(vs), Int(w)), key)
	}
	slice := func(ws []uint64, from, to int, bucket string) {
		if !(0 <= from && from <= to && to <= 64*len(ws)) {
			return
		}
		g.Stat(bucket)
		g.Do("bitmap.Slice", L(U64s(ws), Int(from), Int(to)), c14SliceKey(ws, from, to))
	}

	// (1) Join/Getw exhaustive: all 7 widths x every list of 0..3 values over
	// {0, 1, 2^w-1, 2^w (only the bit just above w), all-ones}
	for _, w := range c14Widths {
		m := ^uint64(0)
		above := uint64(0)
		if w < 64 {
			m = 1<<uint(w) - 1
			above = 1 << uint(w)
		}
		alpha := []uint64{0, 1, m, above, ^uint64(0)}
		var rec func(vs []uint64, n int)
		rec = func(vs []uint64, n int) {
			if len(vs) == n {
				join(vs, w, "join-exh")
				return
			}
			for _, a := range alpha {
				rec(append(append([]uint64{}, vs...), a), n)
			}
		}
		for n := 0; n <= 3; n++ {
			rec(nil, n)
		}
	}
	g.Exhaust = append(g.Exhaust, "Join/Getw: all 7 widths x every list of 0..3 values over {0, 1, 2^w-1, 2^w, 2^64-1}, all indices")

	// (2) Join/Getw: all 7 widths x list lengths around the word boundaries x value patterns with bits above w
	for _, w := range c14Widths {
		per := 64 / w
		lens := []int{per - 1, per, per + 1, 2*per - 1, 2 * per, 2*per + 1, 3*per + per/2, 5 * per}
		reps := g.N(6, 60)
		for _, n := range lens {
			if n < 0 {
				continue
			}
			for rep := 0; rep < reps; rep++ {
				vs := make([]uint64, n)
				pat := g.R.Intn(6)
				for i := range vs {
					switch pat {
					case 0:
						vs[i] = ^uint64(0)
					case 1:
						vs[i] = g.R.U64()
					case 2:
						vs[i] = uint64(i+1) | g.R.U64()<<32
					case 3:
						if i%2 == 0 {
							vs[i] = ^uint64(0)
						}
					case 4:
						vs[i] = g.R.Word()
					default:
						if w < 64 {
							vs[i] = g.R.U64()&(1<<uint(w)-1) | 1<<uint(w+g.R.Intn(64-w))
						} else {
							vs[i] = g.R.U64()
						}
					}
				}
				join(vs, w, fmt.Sprintf("join-w%02d", w))
			}
		}
	}
	// random lengths
	nj := g.N(300, 6000)
	for k := 0; k < nj; k++ {
		w := c14Widths[g.R.Intn(7)]
		n := g.R.Intn(3*64/w + 3)
		if n > 200 {
			n = 200
		}
		vs := make([]uint64, n)
		for i := range vs {
			if g.R.Bool() {
				vs[i] = g.R.U64()
			} else {
				vs[i] = g.R.Word()
			}
		}
		join(vs, w, "join-rand")
	}

	// (2b) Join/Getw long lists: packed length 31..33, 64 and 100 words, so that an index or a position that is
	// narrowed / wrapped somewhere (a 1024- or 2048-bit horizon) is seen; every element distinct in its low bits
	for _, w := range c14Widths {
		per := 64 / w
		for _, nwords := range []int{31, 32, 33, 64, 100} {
			reps := g.N(1, 4)
			for rep := 0; rep < reps; rep++ {
				n := nwords*per + g.R.Pick(-1, 0, 1)
				vs := make([]uint64, n)
				for i := range vs {
					vs[i] = uint64(i+1)*0x9e3779b97f4a7c15 ^ g.R.U64()<<48
				}
				join(vs, w, "join-long")
			}
		}
	}

	// (2c) Join/Getw huge: packed length just beyond 2^15 and 2^16 bits (a position narrowed to 16 bits)
	hw := []int{8, 64}
	if g.Thorough {
		hw = c14Widths
	}
	for _, w := range hw {
		for _, bitsN := range []int{1<<15 + 192, 1<<16 + 192} {
			n := bitsN / w
			vs := make([]uint64, n)
			for i := range vs {
				vs[i] = uint64(i+1) * 0x9e3779b97f4a7c15
			}
			join(vs, w, "join-huge")
		}
	}

	// (3) Slice exhaustive: all (from, to) over bitmaps of 0..3 words
	exh := [][]uint64{
		{},
		{^uint64(0)},
		{0x8000000000000001},
		{g.R.U64()},
		{^uint64(0), ^uint64(0)},
		{g.R.U64(), g.R.U64()},
		{g.R.U64(), g.R.U64() & g.R.U64(), g.R.U64() | g.R.U64()},
	}
	if g.Thorough {
		exh = append(exh, []uint64{^uint64(0), ^uint64(0), ^uint64(0)}, []uint64{1 | 1<<63, 1 | 1<<63, 1 | 1<<63})
		for k := 0; k < 6; k++ {
			exh = append(exh, g.R.Words(3), g.R.Words(2))
		}
	}
	for _, ws := range exh {
		n := 64 * len(ws)
		for from := 0; from <= n; from++ {
			for to := from; to <= n; to++ {
				slice(ws, from, to, fmt.Sprintf("slice-exh-nw%d", len(ws)))
			}
		}
	}
	g.Exhaust = append(g.Exhaust, fmt.Sprintf("Slice: all (from,to) with 0<=from<=to<=64n over %d bitmaps of 0..3 words (all-ones, {bit0,bit63}, random)", len(exh)))

	// (3b) Slice over long bitmaps (30..100 words) with sparse words (many all-zero words between the 1-bits):
	// ranges that start / end deep inside, cover > 32 words, or lie wholly beyond word 32
	nl := g.N(40, 600)
	for k := 0; k < nl; k++ {
		nw := g.R.Range(30, 100)
		ws := make([]uint64, nw)
		for i := range ws {
			switch g.R.Intn(4) {
			case 0:
				ws[i] = g.R.U64()
			case 1:
				ws[i] = g.R.Word()
			}
		}
		n := 64 * nw
		for q := 0; q < 4; q++ {
			from := g.R.Intn(n + 1)
			if q == 0 {
				from = g.R.Intn(130)
			}
			to := g.R.Range(from, n)
			if q == 1 {
				to = minInt(n, from+g.R.Intn(130))
			}
			slice(ws, from, to, "slice-long")
		}
	}

	// (3c) Slice over huge bitmaps (513, 1025, 2049 words): short ranges around and beyond bit 2^15 / 2^16 / 2^17
	// (from, to or to-from narrowed to 16 bits), one long range each
	for _, nw := range []int{513, 1025, 2049} {
		ws := make([]uint64, nw)
		for i := range ws {
			if i%7 == 0 || i >= nw-3 {
				ws[i] = g.R.U64() | 1 | 1<<63
			}
		}
		n := 64 * nw
		for q := 0; q < g.N(4, 30); q++ {
			from := n - 192 + g.R.Intn(130)
			to := g.R.Range(from, n)
			slice(ws, from, to, "slice-huge")
			from = (n-64)/2 + g.R.Intn(70) // around the middle: 2^14, 2^15, 2^16
			slice(ws, from, minInt(n, from+g.R.Intn(200)), "slice-huge")
		}
		slice(ws, g.R.Intn(64), n-g.R.Intn(64), "slice-huge")
	}

	// (4) Slice random: 1..20 words, ends on / next to word boundaries, lengths 64k-1, 64k, 64k+1
	ns := g.N(1500, 40000)
	for k := 0; k < ns; k++ {
		nw := g.R.Range(1, 20)
		if g.R.Intn(3) == 0 {
			nw = g.R.Range(1, 5)
		}
		ws := g.R.Words(nw)
		n := 64 * nw
		for q := 0; q < 6; q++ {
			from := g.R.Intn(n + 1)
			if g.R.Intn(3) == 0 {
				from = 64*g.R.Intn(nw+1) + g.R.Pick(-1, 0, 1)
			}
			if from < 0 {
				from = 0
			}
			if from > n {
				from = n
			}
			var to int
			switch g.R.Intn(4) {
			case 0:
				to = from + 64*g.R.Intn(nw+1) + g.R.Pick(-1, 0, 1)
			case 1:
				to = 64*g.R.Intn(nw+1) + g.R.Pick(-1, 0, 1)
			case 2:
				to = n
			default:
				to = g.R.Range(from, n)
			}
			if to < from {
				to = from
			}
			if to > n {
				to = n
			}
			slice(ws, from, to, "slice-rand")
		}
	}

	genC14Widen(g)    // harness/c14w.go: mask tables, Getw on any bitmap, split + Join, ToArray(Slice)
	genC14Fmt(g)      // harness/c14f.go: bitmap.Fmt
	genC14Scribble(g) // harness/c14s.go: sessions in which the caller writes into the returned bitmaps
}
