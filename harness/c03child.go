package main

import (
	"fmt"

	"github.com/openacid/low/bmtree"
)

// C03 widening: parent and child in one case.  args [T, q, b] with |q| < Height(T);
// observation [i, s, i', s'] = PathToIndexLoose of q and of q ++ [b].

func init() {
	child := func(a []V) string {
		T := a[0].I32()
		h := c03Height(T)
		v, l := c10Bits(a[1], h) // v = the node's bits left-aligned in h bits
		b := uint64(a[2].Int())
		i, s := bmtree.PathToIndexLoose(T, bmtree.NewPath(v, l, h))
		vc := v | b<<uint(h-l-1)
		ic, sc := bmtree.PathToIndexLoose(T, bmtree.NewPath(vc, l+1, h))
		return L(I32(i), I32(s), I32(ic), I32(sc))
	}
	Exec["bmtree.PathToIndexLoose/child"] = child
	Exec["bmtree.PathToIndexLoose/child/debug"] = child
}

func c03GenChild(g *Gen) {
	emit := func(T int32, v uint64, l int, b int, bucket string) {
		h := int(c03Height(T))
		g.Stat("child-" + bucket)
		key := ""
		if l >= 1 || T&1 == 1 {
			key = fmt.Sprintf("child/%s/%s/b%d/s%d/c%d", c03Kind(T), c03HB(h), b, T>>uint(l)&1, T>>uint(l+1)&1)
		}
		g.Do("bmtree.PathToIndexLoose/child"+c03Suffix, L(I32(T), c10Node(v, l), Int(b)), key)
	}
	// exhaustive: every level mask in [2, 2^6) x every inner node x both children
	for T := int32(2); T < 1<<6; T++ {
		h := int(c03Height(T))
		for l := 0; l < h; l++ {
			for v := uint64(0); v < 1<<uint(l); v++ {
				emit(T, v, l, 0, "exh")
				emit(T, v, l, 1, "exh")
			}
		}
	}
	g.Exhaust = append(g.Exhaust, "child rule: every level mask T in [2,2^6) x every inner node x both children")
	n := g.N(1500, 40000)
	for k := 0; k < n; k++ {
		h := g.R.Range(1, 30)
		if g.R.Intn(4) == 0 {
			h = g.R.Pick(29, 30)
		}
		top := uint32(1) << uint(h)
		low := top - 1
		T := top | uint32(g.R.U64())&low
		switch g.R.Intn(6) {
		case 0:
			T = top | low
		case 1:
			T = top
		case 2:
			T = top | uint32(g.R.U64()&g.R.U64())&low
		}
		l := g.R.Range(0, h-1)
		if g.R.Intn(5) == 0 {
			l = g.R.Pick(0, h-1)
		}
		ones := uint64(1)<<uint(l) - 1
		v := g.R.U64() & ones
		switch g.R.Intn(6) {
		case 0:
			v = 0
		case 1:
			v = ones
		}
		emit(int32(T), v, l, g.R.Intn(2), c03HB(h))
	}
}
