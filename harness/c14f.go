package main

import (
	"fmt"
	"reflect"

	"github.com/openacid/low/bitmap"
)

// Widening of C14: bitmap.Fmt (bitmap/fmt.go), the package's printer of integers and bitmaps.
// args = [kind, isSlice, values]; kind 0..7 = int8, uint8, int16, uint16, int32, uint32, int64, uint64,
// 8 = string (not an integer type: intSize panics).

var c14FmtTypes = []reflect.Type{
	reflect.TypeOf(int8(0)), reflect.TypeOf(uint8(0)), reflect.TypeOf(int16(0)), reflect.TypeOf(uint16(0)),
	reflect.TypeOf(int32(0)), reflect.TypeOf(uint32(0)), reflect.TypeOf(int64(0)), reflect.TypeOf(uint64(0)),
	reflect.TypeOf(""),
}

// c14FmtValue builds the Go value (a scalar or a slice of the kind's type) that is handed to bitmap.Fmt.
func c14FmtValue(kind int, vals []V, slice bool) interface{} {
	t := c14FmtTypes[kind]
	mk := func(v V) reflect.Value {
		x := reflect.New(t).Elem()
		switch {
		case kind == 8:
			x.SetString(fmt.Sprint(v.I64()))
		case kind%2 == 0:
			x.SetInt(v.I64())
		default:
			x.SetUint(v.U64())
		}
		return x
	}
	if !slice {
		return mk(vals[0]).Interface()
	}
	s := reflect.MakeSlice(reflect.SliceOf(t), len(vals), len(vals))
	for i, v := range vals {
		s.Index(i).Set(mk(v))
	}
	return s.Interface()
}

func init() {
	Exec["bitmap.Fmt"] = func(a []V) string {
		x := c14FmtValue(a[0].Int(), a[2].L, a[1].Bool())
		return Str(bitmap.Fmt(x))
	}
}

var c14KindBits = []int{8, 8, 16, 16, 32, 32, 64, 64}

// c14FmtVal renders x (given as 64 raw bits) as a value of the kind: truncated to the kind's width, signed kinds
// as negative numbers in decimal, uint64 in hex.
func c14FmtVal(kind int, raw uint64) string {
	n := uint(c14KindBits[kind])
	if kind%2 == 0 { // signed
		return I(int64(raw<<(64-n)) >> (64 - n))
	}
	return U(raw << (64 - n) >> (64 - n))
}

func genC14Fmt(g *Gen) {
	do := func(kind int, slice bool, raws []uint64, bucket string) {
		g.Stat(bucket)
		xs := make([]string, len(raws))
		nontriv := false
		for i, r := range raws {
			if kind < 8 {
				xs[i] = c14FmtVal(kind, r)
				n := uint(c14KindBits[kind])
				t := r << (64 - n) >> (64 - n)
				if t != 0 && t != ^uint64(0)>>(64-n) {
					nontriv = true
				}
			} else {
				xs[i] = I(int64(r % 100))
			}
		}
		key := ""
		if nontriv || kind == 8 {
			key = fmt.Sprintf("F/k%d/s%v/n%d", kind, slice, minInt(len(raws), 3))
		}
		g.Do("bitmap.Fmt", L(Int(kind), B(slice), L(xs...)), key)
	}
	// (9) every kind x scalar / slice x boundary values: 0, 1, -1 (all ones), min, max, single bits at byte borders
	for kind := 0; kind < 8; kind++ {
		n := uint(c14KindBits[kind])
		bnd := []uint64{0, 1, ^uint64(0), 1 << (n - 1), 1<<(n-1) - 1, 0x80, 0x100, 0xa5, 0x0102, 0x8001, 1<<(n-1) | 1}
		for _, r := range bnd {
			do(kind, false, []uint64{r}, "fmt-bnd")
			do(kind, true, []uint64{r}, "fmt-bnd")
		}
		do(kind, true, nil, "fmt-bnd")
		do(kind, true, bnd[:3], "fmt-bnd")
		for k := 0; k < g.N(30, 500); k++ {
			do(kind, false, []uint64{g.R.Word()}, "fmt-rand")
			m := g.R.Intn(6)
			raws := make([]uint64, m)
			for i := range raws {
				if g.R.Bool() {
					raws[i] = g.R.U64()
				} else {
					raws[i] = g.R.Word()
				}
			}
			do(kind, true, raws, "fmt-rand")
		}
	}
	// all 256 values of int8 / uint8, all single bits and their complements of the wider kinds
	for kind := 0; kind < 2; kind++ {
		for v := 0; v < 256; v++ {
			do(kind, false, []uint64{uint64(v)}, "fmt-exh8")
		}
	}
	for kind := 2; kind < 8; kind++ {
		for b := 0; b < c14KindBits[kind]; b++ {
			do(kind, false, []uint64{1 << uint(b)}, "fmt-bits")
			do(kind, false, []uint64{^(uint64(1) << uint(b))}, "fmt-bits")
		}
	}
	g.Exhaust = append(g.Exhaust, "Fmt: all 256 values of int8 and uint8; every single bit and its complement of the 6 wider kinds")
	// not an integer type: scalar and non-empty slice panic, the empty slice prints as ""
	do(8, false, []uint64{7}, "fmt-nonint")
	do(8, true, []uint64{7}, "fmt-nonint")
	do(8, true, []uint64{1, 2}, "fmt-nonint")
	do(8, true, nil, "fmt-nonint")
}
