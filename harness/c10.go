package main

import (
	"fmt"
	"strings"

	"github.com/openacid/low/bmtree"
)

// A node is transmitted as (h, [b0,b1,...]); both sides build the path word.
// c10Bits returns the searching bits left-aligned in h bits and the length.
func c10Bits(q V, h int32) (uint64, int32) {
	l := int32(len(q.L))
	v := uint64(0)
	for _, b := range q.L {
		v = v<<1 | (b.U64() & 1)
	}
	return v << uint(h-l), l
}

func c10Word(h int32, q V) uint64 {
	b, l := c10Bits(q, h)
	return bmtree.NewPath(b, l, h)
}

// c10Node renders the l-bit node whose bits are the low l bits of v (MSB first).
func c10Node(v uint64, l int) string {
	xs := make([]string, l)
	for i := 0; i < l; i++ {
		xs[i] = Int(int(v >> uint(l-1-i) & 1))
	}
	return L(xs...)
}

func init() {
	Exec["bmtree.NewPath/fields"] = func(a []V) string {
		w := c10Word(a[0].I32(), a[1])
		return L(U(w), I32(bmtree.PathLen(w)), I32(bmtree.PathHeight(w)),
			U(bmtree.PathBits(w)), U(bmtree.PathMask(w)), Str(bmtree.PathStr(w)))
	}
	Exec["bmtree.NewPath/order"] = func(a []V) string {
		h := a[0].I32()
		return L(U(c10Word(h, a[1])), U(c10Word(h, a[2])))
	}
	Register("C10", genC10)
}

func c10HB(h int) string {
	switch {
	case h <= 6:
		return fmt.Sprintf("h%d", h)
	case h <= 16:
		return "h7-16"
	case h <= 30:
		return "h17-30"
	}
	return fmt.Sprintf("h%d", h)
}

func c10LB(l, h int) string {
	switch {
	case l == 0:
		return "root"
	case l == h:
		return "leaf"
	case l == 1:
		return "l1"
	}
	return "mid"
}

// relation of two nodes given as (value, length): eq / anc / desc / left / right
func c10Rel(v1 uint64, l1 int, v2 uint64, l2 int) string {
	m := l1
	if l2 < m {
		m = l2
	}
	p1, p2 := v1>>uint(l1-m), v2>>uint(l2-m)
	switch {
	case p1 == p2 && l1 == l2:
		return "eq"
	case p1 == p2 && l1 < l2:
		return "anc"
	case p1 == p2:
		return "desc"
	case p1 < p2:
		return "left"
	}
	return "right"
}

func genC10(g *Gen) {
	fields := func(h int, v uint64, l int, bucket string) {
		g.Stat(bucket)
		key := ""
		if l >= 1 { // non-trivial: not the root (the root's word is 0 for every height)
			lead := "lead1"
			if v>>uint(l-1)&1 == 0 {
				lead = "lead0"
			}
			key = strings.Join([]string{"f", c10HB(h), c10LB(l, h), lead}, "/")
		}
		g.Do("bmtree.NewPath/fields", L(Int(h), c10Node(v, l)), key)
	}
	order := func(h int, v1 uint64, l1 int, v2 uint64, l2 int, bucket string) {
		g.Stat(bucket)
		rel := c10Rel(v1, l1, v2, l2)
		key := ""
		if l1 >= 1 && l2 >= 1 && rel != "eq" { // non-trivial: two distinct non-root nodes
			key = strings.Join([]string{"o", c10HB(h), rel, c10LB(l1, h), c10LB(l2, h)}, "/")
		}
		g.Do("bmtree.NewPath/order", L(Int(h), c10Node(v1, l1), c10Node(v2, l2)), key)
	}

	// (1) exhaustive: every height <= 6 (quick) / 7 (thorough) x every node x every ordered pair
	maxh := g.N(6, 7)
	for h := 0; h <= maxh; h++ {
		for l1 := 0; l1 <= h; l1++ {
			for v1 := uint64(0); v1 < 1<<uint(l1); v1++ {
				fields(h, v1, l1, "exh-fields")
				for l2 := 0; l2 <= h; l2++ {
					for v2 := uint64(0); v2 < 1<<uint(l2); v2++ {
						order(h, v1, l1, v2, l2, "exh-order")
					}
				}
			}
		}
	}
	g.Exhaust = append(g.Exhaust, fmt.Sprintf("heights 0..%d x all nodes (fields) x all ordered pairs of nodes (order)", maxh))

	// (2) every height 0..32 x every length 0..h: extreme prefixes (all-0, all-1, 10.., 01.., alternating)
	for h := 0; h <= 32; h++ {
		for l := 0; l <= h; l++ {
			ones := uint64(1)<<uint(l) - 1
			alt := uint64(0xaaaaaaaaaaaaaaaa) & ones
			for _, v := range []uint64{0, ones, ones >> 1, ones &^ (ones >> 1), alt, alt >> 1 & ones, 1 & ones} {
				fields(h, v, l, "edge-fields")
			}
		}
	}
	g.Exhaust = append(g.Exhaust, "heights 0..32 x all lengths x 7 extreme prefixes (fields)")

	// (3) sampled: heights 7..32 (31 and 32 forced often: the mask fills the low half)
	nrand := g.N(1500, 60000)
	for k := 0; k < nrand; k++ {
		h := g.R.Range(7, 32)
		if g.R.Intn(4) == 0 {
			h = g.R.Pick(30, 31, 32)
		}
		l1 := g.R.Range(0, h)
		if g.R.Intn(5) == 0 {
			l1 = g.R.Pick(0, 1, h-1, h)
		}
		v1 := g.R.U64() & (1<<uint(l1) - 1)
		if g.R.Intn(6) == 0 {
			v1 = uint64(g.R.Pick(0, 1, int(1<<uint(l1)-1))) & (1<<uint(l1) - 1)
		}
		fields(h, v1, l1, "rand-fields-"+c10HB(h))
		// a second node related to the first one in a chosen way
		var v2 uint64
		var l2 int
		switch g.R.Intn(7) {
		case 0: // equal
			v2, l2 = v1, l1
		case 1: // proper ancestor
			l2 = g.R.Intn(l1 + 1)
			v2 = v1 >> uint(l1-l2)
		case 2: // descendant
			l2 = g.R.Range(l1, h)
			v2 = v1<<uint(l2-l1) | g.R.U64()&(1<<uint(l2-l1)-1)
		case 3: // descendant through the all-0 / all-1 spine
			l2 = g.R.Range(l1, h)
			v2 = v1 << uint(l2-l1)
			if g.R.Bool() {
				v2 |= 1<<uint(l2-l1) - 1
			}
		case 4, 5: // diverge after a common prefix of length c
			if l1 == 0 {
				l2, v2 = g.R.Range(0, h), 0
				break
			}
			c := g.R.Intn(l1)
			l2 = g.R.Range(c+1, h)
			pre := v1>>uint(l1-c-1) ^ 1 // common prefix, then the other branch
			v2 = pre<<uint(l2-c-1) | g.R.U64()&(1<<uint(l2-c-1)-1)
		default:
			l2 = g.R.Range(0, h)
			v2 = g.R.U64() & (1<<uint(l2) - 1)
		}
		b := "rand-order-" + c10HB(h)
		order(h, v1, l1, v2, l2, b)
		order(h, v2, l2, v1, l1, b)
	}

	// widening round: raw arguments, raw words, rebuild, non-canonical bits, family (harness/c10w.go)
	genC10Wide(g)
}
