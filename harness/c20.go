package main

// C20 — size.Of is the structural sum; the first line of size.Stat agrees.
//
// A case is a Go VALUE TREE written in val syntax (see coq/theories/Run/C20.v
// for the encoding).  The executor BUILDS the Go value from that text with
// reflect (StructOf/SliceOf/MapOf/ArrayOf/PtrTo, interface-typed slots, a few
// hand-declared named types with unexported fields and a recursive type) and
// calls the real size.Of / size.Stat on it; the Coq side decodes the same text
// into the model's [value].  Generation, corpus, replay and shrinking all go
// through this one path.

import (
	"fmt"
	"math"
	"os"
	"reflect"
	"sort"
	"strconv"
	"strings"
	"unsafe"

	"github.com/openacid/low/size"
	"github.com/openacid/low/typehelper"
)

// ---- hand-declared types (what reflect cannot make: names, unexported fields, recursion, methods)

type c20Reader interface{ Read() int }
type c20IntRead int32

func (m *c20IntRead) Read() int { return 1 }

// the struct of TestSizeStat
type c20My struct {
	a []int32
	b [3]int32
	c map[string]int8
	d *c20My
	e []*c20My
	f []string
	g c20Reader
	h c20Reader
}
type c20AB struct{ a, b int64 }
type c20RI struct{ a c20Reader }
type c20UU struct {
	u  uint
	p  uintptr
	ok bool
}

// embedded (anonymous) fields: a struct value, a named scalar, a pointer, an interface
type C20ID int64
type c20Base struct {
	a int32
	s string
}
type c20EmbS struct {
	c20Base
	n int8
}
type c20EmbI struct {
	C20ID
	n int8
}
type c20EmbP struct {
	*c20Base
	n int8
}
type c20EmbF struct {
	c20Reader
	n int8
}
type c20EmbAll struct {
	n int8
	C20ID
	*c20Base
	c20Reader
	c20EmbS
	u []uint16
}

const (
	c20KID   = 32 // the named scalar C20ID (values are written as int64 scalars)
	c20KBase = 33
	c20KEmbS = 34
	c20KEmbI = 35
	c20KEmbP = 36
	c20KEmbF = 37
	c20KEmbA = 38
)

var c20Named = map[int]reflect.Type{
	c20KID: reflect.TypeOf(C20ID(0)), c20KBase: reflect.TypeOf(c20Base{}), c20KEmbS: reflect.TypeOf(c20EmbS{}),
	c20KEmbI: reflect.TypeOf(c20EmbI{}), c20KEmbP: reflect.TypeOf(c20EmbP{}), c20KEmbF: reflect.TypeOf(c20EmbF{}),
	c20KEmbA: reflect.TypeOf(c20EmbAll{}),
}
var c20EmbKinds = []int{c20KBase, c20KEmbS, c20KEmbI, c20KEmbP, c20KEmbF, c20KEmbA}

const (
	c20KMy = 27 // type codes >= 27 occur in type descriptions only
	c20KAB = 29
	c20KRI = 30
	c20KUU = 31
)

var c20Scalar = map[int]reflect.Type{
	1: reflect.TypeOf(false), 2: reflect.TypeOf(int(0)), 3: reflect.TypeOf(int8(0)), 4: reflect.TypeOf(int16(0)),
	5: reflect.TypeOf(int32(0)), 6: reflect.TypeOf(int64(0)), 7: reflect.TypeOf(uint(0)), 8: reflect.TypeOf(uint8(0)),
	9: reflect.TypeOf(uint16(0)), 10: reflect.TypeOf(uint32(0)), 11: reflect.TypeOf(uint64(0)), 12: reflect.TypeOf(uintptr(0)),
	13: reflect.TypeOf(float32(0)), 14: reflect.TypeOf(float64(0)), 15: reflect.TypeOf(complex64(0)), 16: reflect.TypeOf(complex128(0)),
}

var c20Iface = []reflect.Type{
	reflect.TypeOf((*interface{})(nil)).Elem(),
	reflect.TypeOf((*c20Reader)(nil)).Elem(),
}

func c20Fatal(format string, a ...interface{}) {
	fmt.Fprintf(os.Stderr, "c20: "+format+"\n", a...)
	os.Exit(2)
}

// c20Type builds the reflect.Type of a type description.
func c20Type(t V) reflect.Type {
	if !t.IsList() || len(t.L) == 0 || t.L[0].IsList() {
		c20Fatal("bad type description")
	}
	k := t.L[0].Int()
	if st, ok := c20Scalar[k]; ok {
		return st
	}
	switch k {
	case 24:
		return reflect.TypeOf("")
	case 23:
		return reflect.SliceOf(c20Type(t.L[1]))
	case 17:
		return reflect.ArrayOf(t.L[2].Int(), c20Type(t.L[1]))
	case 21:
		return reflect.MapOf(c20Type(t.L[1]), c20Type(t.L[2]))
	case 22, 26:
		return reflect.PtrTo(c20Type(t.L[1]))
	case 20:
		return c20Iface[t.L[1].Int()]
	case 25:
		fs := make([]reflect.StructField, len(t.L[1].L))
		for i, ft := range t.L[1].L {
			fs[i] = reflect.StructField{Name: "F" + strconv.Itoa(i), Type: c20Type(ft)}
		}
		return reflect.StructOf(fs)
	case c20KMy:
		return reflect.TypeOf(c20My{})
	case c20KAB:
		return reflect.TypeOf(c20AB{})
	case c20KRI:
		return reflect.TypeOf(c20RI{})
	case c20KUU:
		return reflect.TypeOf(c20UU{})
	}
	if nt, ok := c20Named[k]; ok {
		return nt
	}
	c20Fatal("unknown type code %d", k)
	return nil
}

// c20TypeOfVal derives the type of a value that stands where no type is
// expected (top level, dynamic value of an interface{}).
func c20TypeOfVal(v V) reflect.Type {
	if !v.IsList() || len(v.L) == 0 || v.L[0].IsList() {
		c20Fatal("bad value")
	}
	k := v.L[0].Int()
	if st, ok := c20Scalar[k]; ok {
		return st
	}
	switch k {
	case 24:
		return reflect.TypeOf("")
	case 23:
		return reflect.SliceOf(c20Type(v.L[1]))
	case 17:
		return reflect.ArrayOf(len(v.L[2].L), c20Type(v.L[1]))
	case 21:
		return reflect.MapOf(c20Type(v.L[1]), c20Type(v.L[2]))
	case 22, 26, 28:
		return reflect.PtrTo(c20Type(v.L[1]))
	case 20:
		return c20Iface[v.L[1].Int()]
	case 25:
		fs := make([]reflect.StructField, len(v.L[1].L))
		for i, fv := range v.L[1].L {
			fs[i] = reflect.StructField{Name: "F" + strconv.Itoa(i), Type: c20TypeOfVal(fv)}
		}
		return reflect.StructOf(fs)
	}
	c20Fatal("unknown value kind %d", k)
	return nil
}

// nodes built so far for the current top-level value, by sharing id
var c20Shared = map[int]reflect.Value{}
var c20SharedText = map[int]string{}

// interior pointers built as nil placeholders and not yet set by c20Fix
var c20Pending int

// the heap cells built so far for the current size.Of/heap case: cell a is *c20Cells[a]
var c20Cells []reflect.Value

// the keys of every map built for the current value, in the order of the text
var c20MapKeys = map[uintptr][]reflect.Value{}

// c20ShareID returns the sharing id of a slice / map / pointer node (0 = none):
// one more trailing element after the regular ones.
func c20ShareID(v V, regular int) int {
	if len(v.L) == regular+1 {
		id := v.L[regular].Int()
		if id <= 0 {
			c20Fatal("sharing id must be > 0")
		}
		return id
	}
	return 0
}

// c20Build builds a value of type t from its description.
func c20Build(v V, t reflect.Type) reflect.Value {
	if !v.IsList() || len(v.L) == 0 || v.L[0].IsList() {
		c20Fatal("bad value")
	}
	id := 0
	switch v.L[0].Int() {
	case 28:
		// [28, T, [v], path]: an INTERIOR pointer (of type *T) to the part of the value found by
		// walking path from the root; nil for now, set by c20Fix once the whole value stands
		if t.Kind() != reflect.Ptr || t.Elem() != c20Type(v.L[1]) || len(v.L) != 4 || len(v.L[2].L) != 1 {
			c20Fatal("ill-typed interior pointer")
		}
		c20Pending++
		return reflect.New(t).Elem()
	case 26:
		// [26, T, a]: the pointer to heap cell a (size.Of/heap)
		a := v.L[2].Int()
		if a < 0 || a >= len(c20Cells) {
			c20Fatal("reference to cell %d, %d cells built", a, len(c20Cells))
		}
		if c20Cells[a].Type() != t {
			c20Fatal("reference to cell %d of type %s where %s is expected", a, c20Cells[a].Type(), t)
		}
		return c20Cells[a]
	case 23:
		id = c20ShareID(v, 4)
	case 21:
		id = c20ShareID(v, 5)
	case 22:
		id = c20ShareID(v, 3)
	}
	if id != 0 {
		if old, ok := c20Shared[id]; ok {
			if old.Type() != t {
				c20Fatal("shared node %d used at two types: %s and %s", id, old.Type(), t)
			}
			if c20SharedText[id] != c20Dump(v) {
				// (the shrinker may cut one occurrence only: not a value the text describes)
				c20Fatal("shared node %d has two different texts", id)
			}
			return old
		}
	}
	r := c20Build1(v, t)
	if id != 0 {
		c20Shared[id] = r
		c20SharedText[id] = c20Dump(v)
	}
	return r
}

func c20Build1(v V, t reflect.Type) reflect.Value {
	if !v.IsList() || len(v.L) == 0 || v.L[0].IsList() {
		c20Fatal("bad value")
	}
	k := v.L[0].Int()
	if reflect.Kind(k) != t.Kind() {
		c20Fatal("ill-typed value: kind %d where %s is expected", k, t)
	}
	r := reflect.New(t).Elem()
	switch {
	case k == 1:
		r.SetBool(v.L[1].Z.Sign() != 0)
	case k >= 2 && k <= 6:
		r.SetInt(v.L[1].I64())
	case k >= 7 && k <= 12:
		r.SetUint(v.L[1].U64())
	case k == 13 || k == 14:
		r.SetFloat(float64(v.L[1].I64()))
	case k == 15 || k == 16:
		r.SetComplex(complex(float64(v.L[1].I64()), 2))
	case k == 24:
		// a substring of a longer string (the bytes around it must not count)
		str := v.L[1].Str()
		r.SetString(("<" + str + ">>")[1 : 1+len(str)])
	case k == 23:
		if v.L[2].Z.Sign() != 0 {
			if len(v.L[3].L) != 0 {
				c20Fatal("nil slice with elements")
			}
			return r // nil slice
		}
		n := len(v.L[3].L)
		// spare capacity and elements outside [0,len) must not count: the slice is a
		// window [off, off+n) of a larger backing array, cap > len in 2 cases of 3
		off := n % 2
		big := reflect.MakeSlice(t, off+n+(n+1)%3, off+n+(n+1)%3+n%2)
		s := big.Slice(off, off+n)
		for i, e := range v.L[3].L {
			s.Index(i).Set(c20Build(e, t.Elem()))
		}
		r.Set(s)
	case k == 17:
		if len(v.L[2].L) != t.Len() {
			c20Fatal("array length")
		}
		for i, e := range v.L[2].L {
			r.Index(i).Set(c20Build(e, t.Elem()))
		}
	case k == 21:
		if v.L[3].Z.Sign() != 0 {
			if len(v.L[4].L) != 0 {
				c20Fatal("nil map with entries")
			}
			return r // nil map
		}
		m := reflect.MakeMap(t)
		keys := []reflect.Value{}
		for _, kv := range v.L[4].L {
			key := c20Build(kv.L[0], t.Key())
			keys = append(keys, key)
			m.SetMapIndex(key, c20Build(kv.L[1], t.Elem()))
		}
		c20MapKeys[m.Pointer()] = keys
		if m.Len() != len(v.L[4].L) {
			c20Fatal("duplicate map keys in a generated case: %v", c20Dump(v))
		}
		r.Set(m)
	case k == 22:
		if len(v.L[2].L) == 1 {
			p := reflect.New(t.Elem())
			p.Elem().Set(c20Build(v.L[2].L[0], t.Elem()))
			r.Set(p)
		}
	case k == 20:
		if len(v.L[2].L) == 1 {
			d := v.L[2].L[0]
			if t == c20Iface[1] {
				// dynamic value: *c20IntRead, written as a pointer to an int32 scalar
				if d.L[0].Int() != 22 || len(d.L[2].L) != 1 || d.L[2].L[0].L[0].Int() != 5 {
					c20Fatal("a c20Reader holds [22,[5],[[5,n]]]")
				}
				x := c20IntRead(d.L[2].L[0].L[1].I64())
				r.Set(reflect.ValueOf(&x))
			} else {
				if d.L[0].Int() == 20 {
					c20Fatal("an interface cannot hold an interface")
				}
				r.Set(c20Build(d, c20TypeOfVal(d)))
			}
		}
	case k == 25:
		if len(v.L[1].L) != t.NumField() {
			c20Fatal("struct field count")
		}
		for i, fv := range v.L[1].L {
			f := r.Field(i)
			if !f.CanSet() { // unexported field of a hand-declared type
				f = reflect.NewAt(f.Type(), unsafe.Pointer(f.UnsafeAddr())).Elem()
			}
			f.Set(c20Build(fv, f.Type()))
		}
	default:
		c20Fatal("unknown value kind %d", k)
	}
	return r
}


// ---- interior pointers: [28, T, [v], path] points INTO the value: to the part reached from the root by
// path (i >= 0: field / element i, -1: the pointee / dynamic value).  The text [v] is that part once
// more (the tree reading of the value: size.Of follows the pointer and counts the part again).

func c20Nav(root reflect.Value, path V) reflect.Value {
	cur := root
	for _, st := range path.L {
		i := st.Int()
		switch {
		case i < 0:
			cur = cur.Elem()
		case cur.Kind() == reflect.Struct:
			cur = cur.Field(i)
		default:
			cur = cur.Index(i)
		}
	}
	return cur
}

func c20Settable(rv reflect.Value) reflect.Value {
	if rv.CanSet() {
		return rv
	}
	if !rv.CanAddr() {
		c20Fatal("an interior pointer stands where it cannot be set (inside a map value / a dynamic value)")
	}
	return reflect.NewAt(rv.Type(), unsafe.Pointer(rv.UnsafeAddr())).Elem()
}

type c20FixCheck struct {
	target reflect.Value
	v      V
}

func c20InteriorPtr(v V, root reflect.Value, checks *[]c20FixCheck) reflect.Value {
	target := c20Nav(root, v.L[3])
	if !target.CanAddr() {
		c20Fatal("the target of an interior pointer is not addressable")
	}
	if target.Type() != c20Type(v.L[1]) {
		c20Fatal("interior pointer of type *%s to a %s", c20Type(v.L[1]), target.Type())
	}
	*checks = append(*checks, c20FixCheck{target, v})
	c20Pending--
	return reflect.NewAt(target.Type(), unsafe.Pointer(target.UnsafeAddr()))
}

func c20FixWalk(v V, rv, root reflect.Value, checks *[]c20FixCheck) {
	switch v.L[0].Int() {
	case 28:
		c20Settable(rv).Set(c20InteriorPtr(v, root, checks))
	case 23:
		for i, e := range v.L[3].L {
			c20FixWalk(e, rv.Index(i), root, checks)
		}
	case 17:
		for i, e := range v.L[2].L {
			c20FixWalk(e, rv.Index(i), root, checks)
		}
	case 21:
		if rv.Len() > 0 {
			keys := c20MapKeys[rv.Pointer()]
			for i, kv := range v.L[4].L {
				c20FixWalk(kv.L[1], rv.MapIndex(keys[i]), root, checks)
			}
		}
	case 22:
		if len(v.L[2].L) == 1 && rv.Type() != reflect.TypeOf((*c20IntRead)(nil)) {
			c20FixWalk(v.L[2].L[0], rv.Elem(), root, checks)
		}
	case 20:
		if len(v.L[2].L) == 1 {
			if d := v.L[2].L[0]; d.L[0].Int() == 28 {
				c20Settable(rv).Set(c20InteriorPtr(d, root, checks))
			} else {
				c20FixWalk(d, rv.Elem(), root, checks)
			}
		}
	case 25:
		for i, fv := range v.L[1].L {
			c20FixWalk(fv, rv.Field(i), root, checks)
		}
	}
}

// c20Fix sets the interior pointers of a built value and checks that each of them points to what
// its text says
func c20Fix(v V, root reflect.Value) {
	if c20Pending == 0 {
		return
	}
	checks := []c20FixCheck{}
	c20FixWalk(v, root, root, &checks)
	if c20Pending != 0 {
		c20Fatal("%d interior pointers were not set", c20Pending)
	}
	for _, c := range checks {
		want := c20Ser(c20Build(c.v.L[2].L[0], c.target.Type()))
		if c20Pending != 0 {
			c20Fatal("an interior pointer to a part that holds an interior pointer")
		}
		if got := c20Ser(c.target); got != want {
			c20Fatal("an interior pointer points to %s, its text says %s", got, want)
		}
	}
}

// c20Arg turns the top-level description into the interface{} argument.
// Any failure to BUILD the value (ill-formed or ill-typed description, e.g. one
// produced by the shrinker) is a harness error (exit 2), never an observation:
// only a panic inside size.Of / size.Stat is recorded as P.
func c20Arg(v V) (data interface{}) {
	defer func() {
		if e := recover(); e != nil {
			c20Fatal("cannot build the value: %v", e)
		}
	}()
	c20Shared = map[int]reflect.Value{}
	c20SharedText = map[int]string{}
	c20MapKeys = map[uintptr][]reflect.Value{}
	c20Cells = nil
	c20Pending = 0
	if v.IsList() && len(v.L) == 1 && !v.L[0].IsList() && v.L[0].Z.Sign() == 0 {
		return nil
	}
	if v.L[0].Int() == 20 {
		c20Fatal("top-level value of interface kind")
	}
	r := c20Build(v, c20TypeOfVal(v))
	c20Fix(v, r)
	return r.Interface()
}


// ---- labels for the full report of Stat (see Run/C20.v, dec_l)

// c20PtrInside: does the %s text of a map key show an address?
func c20PtrInside(rv reflect.Value) bool {
	switch rv.Kind() {
	case reflect.Ptr:
		return !rv.IsNil()
	case reflect.Interface:
		return !rv.IsNil() && c20PtrInside(rv.Elem())
	case reflect.Struct:
		for i := 0; i < rv.NumField(); i++ {
			if c20PtrInside(rv.Field(i)) {
				return true
			}
		}
	case reflect.Array:
		for i := 0; i < rv.Len(); i++ {
			if c20PtrInside(rv.Index(i)) {
				return true
			}
		}
	}
	return false
}

// c20Label walks the text and the BUILT value in parallel and writes the label tree:
// [x<type>, [[x<edge>, label], ...]].  stable = false when a label cannot be reproduced by
// building the value again (a map key whose %s text contains an address) or contains a newline.
func c20Label(v V, rv reflect.Value, stable *bool) string {
	k := v.L[0].Int()
	if k == 28 {
		k = 22 // an interior pointer is a pointer
	}
	if reflect.Kind(k) != rv.Kind() {
		c20Fatal("label: kind %d but the value is a %s", k, rv.Kind())
	}
	ty := rv.Type().String()
	if strings.ContainsAny(ty, "\n") {
		*stable = false
	}
	kid := func(edge string, sub V, x reflect.Value) string {
		if strings.ContainsAny(edge, "\n") {
			*stable = false
		}
		return L(Str(edge), c20Label(sub, x, stable))
	}
	kids := []string{}
	switch k {
	case 23, 17:
		elems := v.L[len(v.L)-1]
		if k == 23 {
			elems = v.L[3]
		} else {
			elems = v.L[2]
		}
		if rv.Len() != len(elems.L) {
			c20Fatal("label: length")
		}
		for i, e := range elems.L {
			kids = append(kids, kid("", e, rv.Index(i)))
		}
	case 21:
		if len(v.L[4].L) != rv.Len() {
			c20Fatal("label: map length")
		}
		if rv.Len() > 0 {
			keys := c20MapKeys[rv.Pointer()]
			if len(keys) != rv.Len() {
				c20Fatal("label: map keys were not recorded")
			}
			for i, kv := range v.L[4].L {
				if c20PtrInside(keys[i]) {
					*stable = false
				}
				x := rv.MapIndex(keys[i])
				if !x.IsValid() {
					c20Fatal("label: key %d is not in the map", i)
				}
				kids = append(kids, kid(fmt.Sprintf("%s", keys[i]), kv.L[1], x))
			}
		}
	case 22:
		if (len(v.L[2].L) == 0) != rv.IsNil() {
			c20Fatal("label: nil pointer")
		}
		if !rv.IsNil() {
			if rv.Type() == reflect.TypeOf((*c20IntRead)(nil)) {
				// written as a pointer to an int32 scalar
				kids = append(kids, L("x", L(Str(rv.Elem().Type().String()), L())))
			} else {
				kids = append(kids, kid("", v.L[2].L[0], rv.Elem()))
			}
		}
	case 20:
		if (len(v.L[2].L) == 0) != rv.IsNil() {
			c20Fatal("label: nil interface")
		}
		if !rv.IsNil() {
			kids = append(kids, kid("", v.L[2].L[0], rv.Elem()))
		}
	case 25:
		if len(v.L[1].L) != rv.NumField() {
			c20Fatal("label: struct field count")
		}
		for i, fv := range v.L[1].L {
			kids = append(kids, kid(rv.Type().Field(i).Name, fv, rv.Field(i)))
		}
	}
	return L(Str(ty), L(kids...))
}

// c20Labels builds the value of a text and returns its label tree
func c20Labels(v V) (lab string, stable bool) {
	data := c20Arg(v)
	if data == nil {
		return L(), true
	}
	stable = true
	lab = c20Label(v, reflect.ValueOf(data), &stable)
	return
}

// c20Det mirrors det_text / det_lines of Spec/SizeStatSpec.v: is the text / the set of lines of
// Stat(v, depth, maxItem) independent of Go's random map order?  Also reports what the limits cut.
type c20DetInfo struct {
	text, lines      bool
	cutDepth, cutMax bool
	listed           int
}

func (d *c20DetInfo) walk(v V, depth, maxItem int) {
	d.listed++
	k := v.L[0].Int()
	if depth == 0 {
		if k >= 17 && k != 24 {
			d.cutDepth = true
		}
		return
	}
	depth--
	items := func(elems []V, get func(e V) V) {
		for i, e := range elems {
			if i >= maxItem {
				d.cutMax = true
				break
			}
			d.walk(get(e), depth, maxItem)
		}
	}
	switch k {
	case 23:
		items(v.L[3].L, func(e V) V { return e })
	case 17:
		items(v.L[2].L, func(e V) V { return e })
	case 21:
		n := len(v.L[4].L)
		if maxItem >= 1 {
			if n >= 2 {
				d.text = false
			}
			if n >= 2 && n > maxItem {
				d.lines = false
			}
		}
		items(v.L[4].L, func(e V) V { return e.L[1] })
	case 22, 28:
		for _, e := range v.L[2].L {
			d.walk(e, depth, maxItem)
		}
	case 20:
		if len(v.L[2].L) == 0 {
			d.listed++ // the "<nil>" line
		}
		for _, e := range v.L[2].L {
			d.walk(e, depth, maxItem)
		}
	case 25:
		for _, e := range v.L[1].L {
			d.walk(e, depth, maxItem)
		}
	}
}


// ---- Go value -> value text (the inverse of c20Build; used for typehelper.ToSlice, whose RESULT is
// compared as a text, and as a round-trip check of the builder)

func c20TypeText(t reflect.Type) string {
	switch t {
	case reflect.TypeOf(c20My{}):
		return L(Int(c20KMy))
	case reflect.TypeOf(c20AB{}):
		return L(Int(c20KAB))
	case reflect.TypeOf(c20RI{}):
		return L(Int(c20KRI))
	case reflect.TypeOf(c20UU{}):
		return L(Int(c20KUU))
	}
	for code, nt := range c20Named {
		if nt == t {
			return L(Int(code))
		}
	}
	k := int(t.Kind())
	switch {
	case k <= 16 || k == 24:
		return L(Int(k))
	case k == 23 || k == 22:
		return L(Int(k), c20TypeText(t.Elem()))
	case k == 17:
		return L("17", c20TypeText(t.Elem()), Int(t.Len()))
	case k == 21:
		return L("21", c20TypeText(t.Key()), c20TypeText(t.Elem()))
	case k == 20:
		if t == c20Iface[0] {
			return L("20", "0")
		}
		return L("20", "1")
	case k == 25:
		xs := make([]string, t.NumField())
		for i := range xs {
			xs[i] = c20TypeText(t.Field(i).Type)
		}
		return L("25", L(xs...))
	}
	c20Fatal("type text: %s", t)
	return ""
}

func c20Ser(rv reflect.Value) string {
	k := int(rv.Kind())
	switch {
	case k == 1:
		return L("1", B(rv.Bool()))
	case k >= 2 && k <= 6:
		return L(Int(k), I(rv.Int()))
	case k >= 7 && k <= 12:
		return L(Int(k), strconv.FormatUint(rv.Uint(), 10))
	case k == 13 || k == 14:
		return L(Int(k), I(int64(rv.Float())))
	case k == 15 || k == 16:
		return L(Int(k), I(int64(real(rv.Complex()))))
	case k == 24:
		return L("24", Str(rv.String()))
	case k == 23 || k == 17:
		xs := make([]string, rv.Len())
		for i := range xs {
			xs[i] = c20Ser(rv.Index(i))
		}
		if k == 17 {
			return L("17", c20TypeText(rv.Type().Elem()), L(xs...))
		}
		return L("23", c20TypeText(rv.Type().Elem()), B(rv.IsNil()), L(xs...))
	case k == 21:
		xs := []string{}
		for _, key := range rv.MapKeys() {
			xs = append(xs, L(c20Ser(key), c20Ser(rv.MapIndex(key))))
		}
		sort.Strings(xs) // canonical order
		return L("21", c20TypeText(rv.Type().Key()), c20TypeText(rv.Type().Elem()), B(rv.IsNil()), L(xs...))
	case k == 22:
		if rv.IsNil() {
			return L("22", c20TypeText(rv.Type().Elem()), L())
		}
		return L("22", c20TypeText(rv.Type().Elem()), L(c20Ser(rv.Elem())))
	case k == 20:
		w := "1"
		if rv.Type() == c20Iface[0] {
			w = "0"
		}
		if rv.IsNil() {
			return L("20", w, L())
		}
		return L("20", w, L(c20Ser(rv.Elem())))
	case k == 25:
		xs := make([]string, rv.NumField())
		for i := range xs {
			xs[i] = c20Ser(rv.Field(i))
		}
		return L("25", L(xs...))
	}
	c20Fatal("serialize: kind %s", rv.Kind())
	return ""
}

// c20SerTop: an interface{} argument / result
func c20SerTop(data interface{}) string {
	if data == nil {
		return "[0]"
	}
	return c20Ser(reflect.ValueOf(data))
}

// c20Canon: the canonical text of the value a text describes (no sharing ids, payloads as the
// serializer prints them, map entries sorted).  A fixed point of build-then-serialize.
func c20Canon(text string) string {
	v, err := ParseVal(text)
	if err != nil {
		c20Fatal("canon: %v", err)
	}
	return c20SerTop(c20Arg(v))
}

// c20CanonArg builds the argument and insists that the text is canonical
func c20CanonArg(v V) interface{} {
	data := c20Arg(v)
	got, err := ParseVal(c20SerTop(data))
	if err != nil || c20Dump(got) != c20Dump(v) {
		c20Fatal("the value text is not canonical (serialize(build(text)) differs):\n%s\n%s", c20Dump(v), c20Dump(got))
	}
	return data
}


// c20HeapArg builds the cells in order (cell a may refer to cells below a), then the root
func c20HeapArg(cells, root V) (data interface{}) {
	defer func() {
		if e := recover(); e != nil {
			c20Fatal("cannot build the heap value: %v", e)
		}
	}()
	c20Shared = map[int]reflect.Value{}
	c20SharedText = map[int]string{}
	c20MapKeys = map[uintptr][]reflect.Value{}
	c20Cells = nil
	c20Pending = 0
	for _, c := range cells.L { // [T, value]
		t := c20Type(c.L[0])
		p := reflect.New(t)
		p.Elem().Set(c20Build(c.L[1], t))
		c20Cells = append(c20Cells, p)
	}
	if root.L[0].Int() == 20 {
		c20Fatal("top-level value of interface kind")
	}
	r := c20Build(root, c20TypeOfVal(root))
	if c20Pending != 0 {
		c20Fatal("interior pointers are not supported in heap cases")
	}
	return r.Interface()
}


// c20First: the number in the first line of a report: [] for "<nil>", [n] for "<type>: n ..."
func c20First(s string) string {
	first := s
	if i := strings.IndexByte(s, '\n'); i >= 0 {
		first = s[:i]
	}
	if first == "<nil>" {
		return L()
	}
	i := strings.LastIndex(first, ": ")
	if i < 0 {
		return L(Str(first))
	}
	n, err := strconv.ParseInt(first[i+2:], 10, 64)
	if err != nil {
		return L(Str(first))
	}
	return L(I(n))
}

// c20Session: size.Of / size.Stat keep nothing between calls, also not when a call panics.
// args: T, v1, v2 (two values of type T), depth, maxItem, variant.  Three rounds of: p := &v1;
// Of(p), Stat(p); Stat(holder of p and a member of an unsupported kind) -> panics (recovered);
// *p = v2 (same address, other size); Of(p), Stat(p).
func c20Session(a []V) string {
	var t reflect.Type
	var x1, x2 reflect.Value
	func() {
		defer func() {
			if e := recover(); e != nil {
				c20Fatal("cannot build the session values: %v", e)
			}
		}()
		c20Shared, c20SharedText = map[int]reflect.Value{}, map[int]string{}
		c20MapKeys, c20Cells = map[uintptr][]reflect.Value{}, nil
		t = c20Type(a[0])
		c20Pending = 0
		x1 = c20Build(a[1], t)
		x2 = c20Build(a[2], t)
		if c20Pending != 0 {
			c20Fatal("interior pointers are not supported in sessions")
		}
	}()
	d, m, variant := a[3].Int(), a[4].Int(), a[5].Int()
	rounds := []string{}
	for round := 0; round < 3; round++ {
		p := reflect.New(t)
		p.Elem().Set(x1)
		data := p.Interface()
		o := []string{Int(size.Of(data)), c20First(size.Stat(data, d, m))}
		var holder interface{}
		ch := make(chan int)
		switch variant {
		case 0:
			h := reflect.New(reflect.StructOf([]reflect.StructField{{Name: "P", Type: p.Type()}, {Name: "C", Type: reflect.TypeOf(ch)}})).Elem()
			h.Field(0).Set(p)
			h.Field(1).Set(reflect.ValueOf(ch))
			holder = h.Interface()
		case 1:
			f := func() {}
			h := reflect.New(reflect.StructOf([]reflect.StructField{{Name: "P", Type: p.Type()}, {Name: "F", Type: reflect.TypeOf(f)}})).Elem()
			h.Field(0).Set(p)
			h.Field(1).Set(reflect.ValueOf(f))
			holder = h.Interface()
		case 2:
			holder = []interface{}{data, ch}
		default:
			h := reflect.New(reflect.StructOf([]reflect.StructField{{Name: "P", Type: p.Type()}, {Name: "N", Type: reflect.TypeOf(0)}})).Elem()
			h.Field(0).Set(p)
			holder = h.Interface()
		}
		panicked := func() (r string) {
			defer func() {
				if e := recover(); e != nil {
					r = "1"
				}
			}()
			_ = size.Stat(holder, 3, 10)
			return "0"
		}()
		o = append(o, panicked)
		p.Elem().Set(x2)
		o = append(o, Int(size.Of(data)), c20First(size.Stat(data, d, m)))
		rounds = append(rounds, L(o...))
	}
	return L(rounds...)
}

func init() {
	Exec["size.Of"] = func(a []V) string {
		data := c20Arg(a[0])
		return Int(size.Of(data))
	}
	// corpus rows carrying the hand-computed size as a second argument (judged by the Coq side)
	Exec["size.Of/known"] = func(a []V) string {
		return Int(size.Of(c20Arg(a[0])))
	}
	// the number in the first line of Stat: [] for "<nil>", [n] for "<type>: n"
	Exec["size.Stat"] = func(a []V) string {
		data := c20Arg(a[0])
		s := size.Stat(data, a[1].Int(), a[2].Int())
		first := s
		if i := strings.IndexByte(s, '\n'); i >= 0 {
			first = s[:i]
		}
		if first == "<nil>" {
			return L()
		}
		i := strings.LastIndex(first, ": ")
		if i < 0 {
			return L(Str(first)) // not of the form "<type>: <n>": rejected by the spec
		}
		n, err := strconv.ParseInt(first[i+2:], 10, 64)
		if err != nil {
			return L(Str(first))
		}
		return L(I(n))
	}
	// the whole report.  args: value, labels, depth, maxItem, AvgOf, [] | [k] (AvgUnit = 2^k)
	c20Stat := func(a []V) string {
		data := c20Arg(a[0])
		if data != nil {
			// the labels given to the model must be the ones of THIS value (a shrunk or edited
			// case whose labels do not fit is not a case)
			stable := true
			lab, err := ParseVal(c20Label(a[0], reflect.ValueOf(data), &stable))
			if err != nil || c20Dump(lab) != c20Dump(a[1]) {
				c20Fatal("labels do not fit the value:\n%s\n%s", c20Dump(lab), c20Dump(a[1]))
			}
		}
		avgOf := a[4].Int()
		if avgOf == 0 && len(a[5].L) == 0 {
			return size.Stat(data, a[2].Int(), a[3].Int())
		}
		opt := size.Opt{AvgOf: avgOf}
		if len(a[5].L) == 1 {
			opt.AvgUnit = math.Ldexp(1, a[5].L[0].Int())
		}
		return size.Stat(data, a[2].Int(), a[3].Int(), opt)
	}
	Exec["size.Stat/text"] = func(a []V) string { return Str(c20Stat(a)) }
	Exec["size.Stat/opts"] = func(a []V) string {
		data := c20Arg(a[0])
		if data != nil {
			stable := true
			lab, err := ParseVal(c20Label(a[0], reflect.ValueOf(data), &stable))
			if err != nil || c20Dump(lab) != c20Dump(a[1]) {
				c20Fatal("labels do not fit the value")
			}
		}
		opts := []interface{}{}
		for _, o := range a[4].L {
			switch o.L[0].Int() {
			case 0:
				opt := size.Opt{AvgOf: o.L[1].Int()}
				if len(o.L[2].L) == 1 {
					opt.AvgUnit = math.Ldexp(1, o.L[2].L[0].Int())
				}
				opts = append(opts, opt)
			case 1:
				opts = append(opts, 5)
			default:
				opts = append(opts, &size.Opt{AvgOf: 3})
			}
		}
		return Str(size.Stat(data, a[2].Int(), a[3].Int(), opts...))
	}
	Exec["size.Stat/sorted"] = func(a []V) string {
		lines := strings.Split(c20Stat(a), "\n")
		sort.Strings(lines)
		return Strs(lines)
	}
	// typehelper.ToSlice: the result written back as a value text
	Exec["typehelper.ToSlice"] = func(a []V) string {
		data := c20CanonArg(a[0])
		return c20SerTop(typehelper.ToSlice(data))
	}
	Exec["typehelper.ToSlice+size.Of"] = func(a []V) string {
		data := c20CanonArg(a[0])
		return Int(size.Of(typehelper.ToSlice(data)))
	}
	Exec["size.Stat/after-panic"] = c20Session
	Exec["size.Of/heap"] = func(a []V) string {
		return Int(size.Of(c20HeapArg(a[0], a[1])))
	}
	Register("C20", genC20)
}

// ---- generator-side type trees

type c20T struct {
	K      int // reflect.Kind number, or a named-type code
	Elem   *c20T
	Key    *c20T
	N      int // array length
	W      int // which interface type
	Fields []*c20T
}

func c20S(k int) *c20T { return &c20T{K: k} }

// structure of the hand-declared types (for value generation)
func (t *c20T) fields() []*c20T {
	switch t.K {
	case 25:
		return t.Fields
	case c20KAB:
		return []*c20T{c20S(6), c20S(6)}
	case c20KRI:
		return []*c20T{{K: 20, W: 1}}
	case c20KUU:
		return []*c20T{c20S(7), c20S(12), c20S(1)}
	case c20KBase:
		return []*c20T{c20S(5), c20S(24)}
	case c20KEmbS:
		return []*c20T{c20S(c20KBase), c20S(3)}
	case c20KEmbI:
		return []*c20T{c20S(c20KID), c20S(3)}
	case c20KEmbP:
		return []*c20T{{K: 22, Elem: c20S(c20KBase)}, c20S(3)}
	case c20KEmbF:
		return []*c20T{{K: 20, W: 1}, c20S(3)}
	case c20KEmbA:
		return []*c20T{c20S(3), c20S(c20KID), {K: 22, Elem: c20S(c20KBase)}, {K: 20, W: 1}, c20S(c20KEmbS), {K: 23, Elem: c20S(9)}}
	case c20KMy:
		my := &c20T{K: c20KMy}
		return []*c20T{
			{K: 23, Elem: c20S(5)}, {K: 17, Elem: c20S(5), N: 3}, {K: 21, Key: c20S(24), Elem: c20S(3)},
			{K: 22, Elem: my}, {K: 23, Elem: &c20T{K: 22, Elem: my}}, {K: 23, Elem: c20S(24)},
			{K: 20, W: 1}, {K: 20, W: 1}}
	}
	return nil
}

func (t *c20T) Text() string {
	switch t.K {
	case 23, 22:
		return L(Int(t.K), t.Elem.Text())
	case 17:
		return L(Int(17), t.Elem.Text(), Int(t.N))
	case 21:
		return L(Int(21), t.Key.Text(), t.Elem.Text())
	case 20:
		return L(Int(20), Int(t.W))
	case 25:
		xs := make([]string, len(t.Fields))
		for i, f := range t.Fields {
			xs[i] = f.Text()
		}
		return L(Int(25), L(xs...))
	}
	return L(Int(t.K))
}

func (t *c20T) isStruct() bool { return t.K == 25 || (t.K >= 27 && t.K != c20KID) }

// number of distinct values c20Key can make of a comparable type
func (t *c20T) keyCap() int {
	switch {
	case t.K == 1:
		return 2
	case t.K == 3 || t.K == 8:
		return 100
	case t.K == 22:
		if t.Elem.zeroSize() {
			return 1 // all pointers to zero-size objects may be equal (runtime.zerobase)
		}
		return 1 << 20
	case t.K <= 16 || t.K == 24 || t.K == 20 || t.K == c20KID:
		return 1 << 20
	case t.K == 17:
		if t.N == 0 {
			return 1
		}
		return t.Elem.keyCap()
	case t.isStruct():
		c := 1
		for _, f := range t.fields() {
			if fc := f.keyCap(); fc > c {
				c = fc
			}
		}
		return c
	}
	return 0
}

func (t *c20T) zeroSize() bool {
	switch {
	case t.K == 17:
		return t.N == 0 || t.Elem.zeroSize()
	case t.K == 25:
		for _, f := range t.Fields {
			if !f.zeroSize() {
				return false
			}
		}
		return true
	}
	return false
}

var c20ScalarKinds = []int{1, 2, 3, 4, 5, 6, 7, 8, 9, 10, 11, 12, 13, 14, 15, 16}

// random type; comparable = usable as a map key (no slice/map inside, interfaces allowed)
func c20RandType(r *Rand, depth int, comparable bool) *c20T {
	if depth <= 0 {
		if r.Intn(4) == 0 {
			return c20S(24)
		}
		return c20S(c20ScalarKinds[r.Intn(16)])
	}
	for {
		switch r.Intn(20) {
		case 0, 1, 2, 3:
			return c20S(c20ScalarKinds[r.Intn(16)])
		case 4:
			return c20S(r.Pick(7, 12, 2, 1)) // uint, uintptr, int, bool
		case 5, 6:
			return c20S(24)
		case 7, 8, 9:
			if comparable {
				continue
			}
			return &c20T{K: 23, Elem: c20RandType(r, depth-1, false)}
		case 10, 11:
			return &c20T{K: 17, Elem: c20RandType(r, depth-1, comparable), N: r.Pick(0, 1, 2, 3, 5)}
		case 12, 13:
			if comparable {
				continue
			}
			return &c20T{K: 21, Key: c20RandType(r, minInt(depth-1, 2), true), Elem: c20RandType(r, depth-1, false)}
		case 14, 15:
			return &c20T{K: 22, Elem: c20RandType(r, depth-1, false)}
		case 16:
			return &c20T{K: 20, W: r.Pick(0, 0, 0, 1)}
		case 17, 18:
			n := r.Pick(0, 1, 2, 2, 3, 4)
			t := &c20T{K: 25}
			for i := 0; i < n; i++ {
				t.Fields = append(t.Fields, c20RandType(r, depth-1, comparable))
			}
			return t
		case 19:
			k := r.Pick(c20KMy, c20KAB, c20KRI, c20KUU, c20KID, c20KBase, c20KEmbS, c20KEmbI, c20KEmbP, c20KEmbF, c20KEmbA)
			if comparable && (k == c20KMy || k == c20KEmbA) {
				continue
			}
			return c20S(k)
		}
	}
}

type c20Gen struct {
	r      *Rand
	budget int // remaining nodes; when exhausted every nil-able container becomes nil
	// sharing: non-nil slices / maps / pointers already generated for the current
	// case that carry a sharing id, by type text; a later node of the same type
	// may reuse one of them (same text, same id => the SAME Go object)
	pool   map[string][]string
	cells  map[string][]int // size.Of/heap: heap cells generated so far, by type text
	nRefs  int
	nextID int
	share  int // 0 = never share; otherwise 1 node in `share` gets an id / reuses one
}

func (c *c20Gen) reset(share int) {
	c.pool = map[string][]string{}
	c.cells = map[string][]int{}
	c.nRefs = 0
	c.nextID = 0
	c.share = share
}

// reuse returns an already generated shared node of this type, if the dice say so
func (c *c20Gen) reuse(ty string) (string, bool) {
	if c.share == 0 || len(c.pool[ty]) == 0 || c.r.Intn(c.share) != 0 {
		return "", false
	}
	return c.pool[ty][c.r.Intn(len(c.pool[ty]))], true
}

// fresh wraps up a newly generated node (its elements without the closing
// bracket are in parts); 1 in `share` gets a sharing id and enters the pool
func (c *c20Gen) fresh(ty string, parts ...string) string {
	if c.share == 0 || c.r.Intn(c.share) != 0 {
		return L(parts...)
	}
	c.nextID++
	text := L(append(parts, Int(c.nextID))...)
	c.pool[ty] = append(c.pool[ty], text)
	return text
}

func c20Str(r *Rand) string {
	n := r.Pick(0, 0, 1, 2, 3, 7, 8, 9, 15, 16, 17, 31, 33, 64, 100)
	return Bytes(r.Bytes(n, nil))
}

// random value of type t; depth bounds the nesting of dynamic types only
func (c *c20Gen) val(t *c20T, depth int) string {
	r := c.r
	c.budget--
	out := c.budget <= 0 || depth <= 0
	switch {
	case t.K == c20KID:
		return L("6", Int(r.Pick(0, 1, 2, 100, 127)))
	case t.K <= 16:
		return L(Int(t.K), Int(r.Pick(0, 1, 2, 100, 127)))
	case t.K == 24:
		if out {
			return L("24", "x")
		}
		return L("24", c20Str(r))
	case t.K == 23:
		if out || r.Intn(7) == 0 {
			return L("23", t.Elem.Text(), "1", L())
		}
		if old, ok := c.reuse(t.Text()); ok {
			return old
		}
		n := r.Pick(0, 1, 1, 2, 2, 3, 4, 6)
		xs := make([]string, n)
		for i := range xs {
			xs[i] = c.val(t.Elem, depth-1)
		}
		return c.fresh(t.Text(), "23", t.Elem.Text(), "0", L(xs...))
	case t.K == 17:
		xs := make([]string, t.N)
		for i := range xs {
			xs[i] = c.val(t.Elem, depth-1)
		}
		return L("17", t.Elem.Text(), L(xs...))
	case t.K == 21:
		if out || r.Intn(7) == 0 {
			return L("21", t.Key.Text(), t.Elem.Text(), "1", L())
		}
		if old, ok := c.reuse(t.Text()); ok {
			return old
		}
		n := minInt(r.Pick(0, 1, 1, 2, 3, 4), t.Key.keyCap())
		xs := make([]string, n)
		for i := range xs {
			xs[i] = L(c.key(t.Key, i, depth-1), c.val(t.Elem, depth-1))
		}
		return c.fresh(t.Text(), "21", t.Key.Text(), t.Elem.Text(), "0", L(xs...))
	case t.K == 22:
		if out || r.Intn(5) == 0 {
			return L("22", t.Elem.Text(), L())
		}
		if cs := c.cells[t.Elem.Text()]; len(cs) > 0 && r.Intn(4) != 0 {
			c.nRefs++
			return L("26", t.Elem.Text(), Int(cs[r.Intn(len(cs))]))
		}
		if old, ok := c.reuse(t.Text()); ok {
			return old
		}
		return c.fresh(t.Text(), "22", t.Elem.Text(), L(c.val(t.Elem, depth-1)))
	case t.K == 20:
		if out || r.Intn(4) == 0 {
			return L("20", Int(t.W), L())
		}
		return L("20", Int(t.W), L(c.dyn(t.W, depth-1, false, 0)))
	case t.isStruct():
		fs := t.fields()
		xs := make([]string, len(fs))
		for i, f := range fs {
			xs[i] = c.val(f, depth-1)
		}
		return L("25", L(xs...))
	}
	c20Fatal("val: kind %d", t.K)
	return ""
}

// dynamic value of an interface slot (never itself of interface kind)
func (c *c20Gen) dyn(w, depth int, comparable bool, i int) string {
	if w == 1 {
		return L("22", L("5"), L(L("5", Int(i))))
	}
	for {
		t := c20RandType(c.r, minInt(depth, 3), comparable)
		if t.K == 20 {
			continue
		}
		if comparable {
			if t.keyCap() < 1<<20 {
				continue // the dynamic key must be able to carry i faithfully
			}
			return c.key(t, i, depth)
		}
		return c.val(t, depth)
	}
}

// the i-th distinct value of a comparable type: every scalar leaf carries i
func (c *c20Gen) key(t *c20T, i, depth int) string {
	c.budget--
	switch {
	case t.K == c20KID:
		return L("6", Int(i))
	case t.K == 1:
		return L("1", Int(i&1))
	case t.K <= 16:
		return L(Int(t.K), Int(i))
	case t.K == 24:
		// distinct strings of varying length: i in decimal, padded
		return L("24", Str(strings.Repeat("k", c.r.Pick(0, 0, 1, 5, 14))+strconv.Itoa(i)))
	case t.K == 17:
		xs := make([]string, t.N)
		for j := range xs {
			xs[j] = c.key(t.Elem, i, depth-1)
		}
		return L("17", t.Elem.Text(), L(xs...))
	case t.K == 22:
		// every allocation is a distinct key
		if i == 0 && c.r.Intn(3) == 0 {
			return L("22", t.Elem.Text(), L())
		}
		return L("22", t.Elem.Text(), L(c.val(t.Elem, depth-1)))
	case t.K == 20:
		if i == 0 && c.r.Intn(3) == 0 {
			return L("20", Int(t.W), L())
		}
		// same dynamic type family for all keys of one map is not required:
		// values of different dynamic types are different keys; equal types carry i
		return L("20", Int(t.W), L(c.dyn(t.W, depth-1, true, i+1)))
	case t.isStruct():
		fs := t.fields()
		xs := make([]string, len(fs))
		for j, f := range fs {
			xs[j] = c.key(f, i, depth-1)
		}
		return L("25", L(xs...))
	}
	c20Fatal("key: kind %d", t.K)
	return ""
}

// ---- shape key

type c20Shape struct {
	depth int
	kinds map[string]bool
	nils  map[string]bool
	uint_ bool
	nodes int
	ids   map[int]int // sharing id -> number of occurrences
}

var c20KindName = map[int]string{17: "A", 20: "I", 21: "M", 22: "P", 23: "S", 24: "s", 25: "T", 28: "Q"}

func (s *c20Shape) walk(v V, d int) {
	s.nodes++
	k := v.L[0].Int()
	if k <= 16 {
		if k == 7 || k == 12 {
			s.uint_ = true
		}
		return
	}
	if k != 24 && d+1 > s.depth {
		s.depth = d + 1
	}
	s.kinds[c20KindName[k]] = true
	if reg := map[int]int{23: 4, 21: 5, 22: 3}[k]; reg != 0 && len(v.L) == reg+1 {
		s.ids[v.L[reg].Int()]++
	}
	switch k {
	case 23:
		if v.L[2].Z.Sign() != 0 {
			s.nils["S"] = true
		} else if len(v.L[3].L) == 0 {
			s.nils["S0"] = true
		}
		for _, e := range v.L[3].L {
			s.walk(e, d+1)
		}
	case 17:
		if len(v.L[2].L) == 0 {
			s.nils["A0"] = true
		}
		for _, e := range v.L[2].L {
			s.walk(e, d+1)
		}
	case 21:
		if v.L[3].Z.Sign() != 0 {
			s.nils["M"] = true
		} else if len(v.L[4].L) == 0 {
			s.nils["M0"] = true
		}
		for _, e := range v.L[4].L {
			s.walk(e.L[0], d+1)
			s.walk(e.L[1], d+1)
		}
	case 22, 20, 28:
		if len(v.L[2].L) == 0 {
			s.nils[c20KindName[k]] = true
		}
		for _, e := range v.L[2].L {
			s.walk(e, d+1)
		}
	case 25:
		if len(v.L[1].L) == 0 {
			s.nils["T0"] = true
		}
		for _, e := range v.L[1].L {
			s.walk(e, d+1)
		}
	}
}

func c20Set(m map[string]bool) string {
	xs := make([]string, 0, len(m))
	for k := range m {
		xs = append(xs, k)
	}
	sort.Strings(xs)
	return strings.Join(xs, "")
}

// non-trivial = a container inside a container (nesting depth >= 2)
func c20Key(text string) (string, int) {
	v, err := ParseVal(text)
	if err != nil {
		c20Fatal("generated text does not parse: %v", err)
	}
	if len(v.L) == 1 {
		return "", 0
	}
	s := &c20Shape{kinds: map[string]bool{}, nils: map[string]bool{}, ids: map[int]int{}}
	s.walk(v, 0)
	if s.depth < 2 {
		return "", s.depth
	}
	sh := ""
	for _, n := range s.ids {
		if n >= 2 {
			sh = "/shared"
		}
	}
	return fmt.Sprintf("d%d/%s/nil:%s/u%s%s", minInt(s.depth, 6), c20Set(s.kinds), c20Set(s.nils), B(s.uint_), sh), s.depth
}

func genC20(g *Gen) {
	// one whole-report case: size.Stat/text where the text is determined, size.Stat/sorted where only the
	// order of the blocks is random, nothing where the choice of the listed map entries is random
	report := func(text string, v V, lab, key string, d, m, avg int, unit string) {
		det := &c20DetInfo{text: true, lines: true}
		if len(v.L) > 1 {
			det.walk(v, d, m)
		}
		op := "size.Stat/text"
		switch {
		case det.text:
			g.Stat("report-text")
		case det.lines:
			op = "size.Stat/sorted"
			g.Stat("report-sorted")
		default:
			g.Stat("report-skipped-random-map-order")
			return
		}
		rk := ""
		if det.listed >= 3 || avg > 0 {
			rk = fmt.Sprintf("%s/report%d,%d/cutD%s/cutM%s/avg%s/%s", key, minInt(d, 5), minInt(m, 6), B(det.cutDepth), B(det.cutMax), B(avg > 0), op[10:])
		}
		g.Do(op, L(text, lab, Int(d), Int(m), Int(avg), unit), rk)
		// the variadic options: 0..3 of them, an Opt / an int / a *Opt
		if det.text && g.R.Intn(6) == 0 {
			n := g.R.Pick(0, 1, 1, 2, 2, 3)
			opts := make([]string, n)
			kinds := ""
			for i := range opts {
				switch g.R.Pick(0, 0, 0, 1, 2) {
				case 0:
					opts[i] = L("0", Int(g.R.Pick(0, 1, 3, 10, 1000)), []string{L(), L("-3"), L("2")}[g.R.Intn(3)])
					kinds += "O"
				case 1:
					opts[i] = L("1")
					kinds += "i"
				default:
					opts[i] = L("2")
					kinds += "p"
				}
			}
			g.Stat("report-opts")
			g.Do("size.Stat/opts", L(text, lab, Int(d), Int(m), L(opts...)), "opts/"+kinds)
		}
	}
	emit := func(text, bucket string) {
		key, depth := c20Key(text)
		g.Stat(bucket)
		g.Stat(fmt.Sprintf("depth%d", minInt(depth, 7)))
		g.Do("size.Of", L(text), key)
		d, m := g.R.Pick(0, 0, 1, 2, 10, -1), g.R.Pick(0, 1, 3, 100)
		sk := key
		if sk != "" {
			sk = fmt.Sprintf("%s/stat%d,%d", key, d, m)
		}
		g.Do("size.Stat", L(text, Int(d), Int(m)), sk)

		// the whole report, where it does not depend on Go's random map order
		v, err := ParseVal(text)
		if err != nil {
			c20Fatal("generated text does not parse: %v", err)
		}
		lab, stable := c20Labels(v)
		if !stable {
			g.Stat("report-skipped-unstable-label")
			return
		}
		d, m = g.R.Pick(0, 1, 1, 2, 2, 3, 4, 10, -1, -1, -7), g.R.Pick(0, 1, 1, 2, 3, 5, 100, 100, -1)
		det := &c20DetInfo{text: true, lines: true}
		if len(v.L) > 1 {
			det.walk(v, d, m)
		}
		if !det.lines {
			// look for limits under which the map order cannot show
			d, m = g.R.Pick(1, 2, 3, -1), 100
		}
		avg, unit := 0, L()
		if g.R.Intn(3) == 0 {
			avg = g.R.Pick(1, 2, 3, 7, 10, 100, 1000, 4096, 1<<20+1, 1<<40, g.R.Range(1, 1<<16), -5)
			unit = []string{L(), L("0"), L("-3"), L("3"), L("1"), L("-10")}[g.R.Pick(0, 0, 1, 2, 2, 3, 4, 5)]
		}
		report(text, v, lab, key, d, m, avg, unit)
	}
	// typehelper.ToSlice (and size.Of of its result) on the canonical text of a value
	toSlice := func(text, bucket string) {
		canon := c20Canon(text)
		key, _ := c20Key(canon)
		v, _ := ParseVal(canon)
		tk := ""
		if len(v.L) > 1 && v.L[0].Int() == 23 {
			n := len(v.L[3].L)
			ek := v.L[1].L[0].Int()
			if n >= 2 || key != "" {
				tk = fmt.Sprintf("toslice/n%d/elem%d/nil%d/%s", minInt(n, 8), ek, v.L[2].Int(), key)
			}
			g.Stat("toslice-slice")
		} else {
			g.Stat("toslice-not-a-slice")
		}
		g.Stat(bucket)
		g.Do("typehelper.ToSlice", L(canon), tk)
		g.Do("typehelper.ToSlice+size.Of", L(canon), tk)
	}
	emit0 := emit
	emit = func(text, bucket string) {
		emit0(text, bucket)
		if strings.HasPrefix(text, "[23,") || g.R.Intn(10) == 0 {
			toSlice(text, "toslice-from-"+strings.SplitN(bucket, "-", 2)[0])
		}
	}
	gen := &c20Gen{r: g.R, budget: 1 << 30}
	gen.reset(0)

	// (1) nil; every scalar kind; every string length 0..40
	emit("[0]", "exh-scalar")
	for _, k := range c20ScalarKinds {
		emit(L(Int(k), "1"), "exh-scalar")
	}
	for n := 0; n <= 40; n++ {
		emit(L("24", Bytes(g.R.Bytes(n, nil))), "exh-string")
	}
	g.Exhaust = append(g.Exhaust, "nil, each of the 16 scalar kinds, strings of every length 0..40")

	// leaf types: 16 scalars + string
	leaves := []*c20T{}
	for _, k := range c20ScalarKinds {
		leaves = append(leaves, c20S(k))
	}
	leaves = append(leaves, c20S(24))
	leafVal := func(t *c20T, i int) string {
		if t.K == 24 {
			return L("24", Str(strings.Repeat("a", i%4)+strconv.Itoa(i)))
		}
		if t.K == 1 {
			return L("1", Int(i&1))
		}
		return L(Int(t.K), Int(i))
	}
	// the container shapes over an element type e with value maker mk(i)
	type shape struct {
		name string
		mk   func(e *c20T, mk func(i int) string) string
	}
	rep := func(n int, mk func(i int) string) string {
		xs := make([]string, n)
		for i := range xs {
			xs[i] = mk(i)
		}
		return L(xs...)
	}
	shapes := []shape{
		{"Snil", func(e *c20T, mk func(int) string) string { return L("23", e.Text(), "1", L()) }},
		{"S0", func(e *c20T, mk func(int) string) string { return L("23", e.Text(), "0", L()) }},
		{"S1", func(e *c20T, mk func(int) string) string { return L("23", e.Text(), "0", rep(1, mk)) }},
		{"S3", func(e *c20T, mk func(int) string) string { return L("23", e.Text(), "0", rep(3, mk)) }},
		{"A0", func(e *c20T, mk func(int) string) string { return L("17", e.Text(), L()) }},
		{"A2", func(e *c20T, mk func(int) string) string { return L("17", e.Text(), rep(2, mk)) }},
		{"Pnil", func(e *c20T, mk func(int) string) string { return L("22", e.Text(), L()) }},
		{"P", func(e *c20T, mk func(int) string) string { return L("22", e.Text(), L(mk(0))) }},
		{"T1", func(e *c20T, mk func(int) string) string { return L("25", L(mk(0))) }},
		{"T3", func(e *c20T, mk func(int) string) string { return L("25", L(mk(0), "[1,1]", mk(1))) }},
		{"Mnil", func(e *c20T, mk func(int) string) string { return L("21", "[24]", e.Text(), "1", L()) }},
		{"M0", func(e *c20T, mk func(int) string) string { return L("21", "[5]", e.Text(), "0", L()) }},
		{"M2str", func(e *c20T, mk func(int) string) string {
			return L("21", "[24]", e.Text(), "0", L(L(L("24", Str("k")), mk(0)), L(L("24", Str("key2")), mk(1))))
		}},
		{"M1int", func(e *c20T, mk func(int) string) string {
			return L("21", "[7]", e.Text(), "0", L(L("[7,9]", mk(0))))
		}},
	}
	// interface-typed slot holding the element (only when the element is not itself an interface)
	ifaceShapes := []shape{
		{"TInil", func(e *c20T, mk func(int) string) string { return L("25", L(L("20", "0", L()))) }},
		{"TI", func(e *c20T, mk func(int) string) string { return L("25", L(L("20", "0", L(mk(0))))) }},
		{"SI", func(e *c20T, mk func(int) string) string {
			return L("23", "[20,0]", "0", L(L("20", "0", L(mk(0))), L("20", "0", L())))
		}},
		{"PI", func(e *c20T, mk func(int) string) string { return L("22", "[20,0]", L(L("20", "0", L(mk(0))))) }},
	}
	// (2) one level: every shape over every leaf type; maps keyed by every comparable leaf type
	for _, e := range leaves {
		e := e
		for _, s := range append(append([]shape{}, shapes...), ifaceShapes...) {
			emit(s.mk(e, func(i int) string { return leafVal(e, i) }), "exh-1level")
		}
		// the leaf type as a map KEY, 0..2 entries, value type int16
		for n := 0; n <= 2; n++ {
			emit(L("21", e.Text(), "[4]", "0", rep(n, func(i int) string { return L(leafVal(e, i), "[4,5]") })), "exh-1level")
		}
	}
	g.Exhaust = append(g.Exhaust, fmt.Sprintf("one level: %d container shapes (nil/empty/non-empty slice, array, pointer, struct, map, interface slot) x 17 leaf types; maps keyed by each leaf type with 0..2 entries", len(shapes)+len(ifaceShapes)))

	// (3) two levels: every shape over every shape over a spread of leaf types
	// (thorough: all 17); type of the inner value is needed as the outer element type
	inner := leaves
	if !g.Thorough {
		inner = []*c20T{c20S(1), c20S(7), c20S(12), c20S(5), c20S(16), c20S(24)}
	}
	shapeType := func(s shape, e *c20T) *c20T {
		switch s.name[0] {
		case 'S':
			if s.name == "SI" {
				return &c20T{K: 23, Elem: &c20T{K: 20}}
			}
			return &c20T{K: 23, Elem: e}
		case 'A':
			return &c20T{K: 17, Elem: e, N: int(s.name[1] - '0')}
		case 'P':
			if s.name == "PI" {
				return &c20T{K: 22, Elem: &c20T{K: 20}}
			}
			return &c20T{K: 22, Elem: e}
		case 'M':
			kt := map[string]int{"Mnil": 24, "M0": 5, "M2str": 24, "M1int": 7}[s.name]
			return &c20T{K: 21, Key: c20S(kt), Elem: e}
		}
		switch s.name {
		case "T1":
			return &c20T{K: 25, Fields: []*c20T{e}}
		case "T3":
			return &c20T{K: 25, Fields: []*c20T{e, c20S(1), e}}
		}
		return &c20T{K: 25, Fields: []*c20T{{K: 20}}} // TInil, TI
	}
	all := append(append([]shape{}, shapes...), ifaceShapes...)
	for _, e := range inner {
		e := e
		for _, in := range all {
			in := in
			it := shapeType(in, e)
			for _, out := range all {
				emit(out.mk(it, func(i int) string { return in.mk(e, func(j int) string { return leafVal(e, 2*i+j) }) }), "exh-2level")
			}
		}
	}
	g.Exhaust = append(g.Exhaust, fmt.Sprintf("two levels: all %dx%d compositions of the container shapes over %d leaf types", len(all), len(all), len(inner)))


	// (3b) SHARING: the same pointer / slice / map reached twice is counted twice (size.Of is a
	// tree sum over the unfolding).  Every sharing pattern over every leaf type and some composites.
	type tv struct {
		t *c20T
		v func(i int) string
	}
	elems := []tv{}
	for _, e := range leaves {
		e := e
		elems = append(elems, tv{e, func(i int) string { return leafVal(e, i) }})
	}
	strT, i8T := c20S(24), c20S(3)
	elems = append(elems,
		tv{&c20T{K: 25, Fields: []*c20T{strT, i8T}}, func(i int) string { return L("25", L(leafVal(strT, i), leafVal(i8T, i))) }},
		tv{&c20T{K: 23, Elem: i8T}, func(i int) string { return L("23", "[3]", "0", L(leafVal(i8T, i), leafVal(i8T, i+1))) }},
		tv{&c20T{K: 17, Elem: strT, N: 2}, func(i int) string { return L("17", "[24]", L(leafVal(strT, i), leafVal(strT, i+5))) }},
		tv{&c20T{K: 22, Elem: c20S(7)}, func(i int) string { return L("22", "[7]", L(leafVal(c20S(7), i))) }},
		tv{&c20T{K: 20}, func(i int) string { return L("20", "0", L(leafVal(strT, i))) }},
	)
	nShare := 0
	for _, e := range elems {
		T := e.t.Text()
		PT := L("22", T)
		p := func(i, id int) string { // pointer to the i-th value, sharing id (0 = unshared)
			if id == 0 {
				return L("22", T, L(e.v(i)))
			}
			return L("22", T, L(e.v(i)), Int(id))
		}
		sl := func(id int) string { return L("23", T, "0", L(e.v(0), e.v(1)), Int(id)) }
		mp := func(id int) string {
			return L("21", "[24]", T, "0", L(L(L("24", Str("k")), e.v(0)), L(L("24", Str("key2")), e.v(1))), Int(id))
		}
		S := L("25", L(PT)) // struct{F0 *T}
		node := func(inner string, id int) string { // *struct{F0 *T}
			if id == 0 {
				return L("22", S, L(L("25", L(inner))))
			}
			return L("22", S, L(L("25", L(inner))), Int(id))
		}
		cases := []string{
			// same pointer twice / three times in a slice; mixed with an equal but distinct one
			L("23", PT, "0", L(p(0, 1), p(0, 1))),
			L("23", PT, "0", L(p(0, 1), p(0, 0), p(0, 1), p(0, 1))),
			L("23", PT, "0", L(p(0, 1), p(1, 2), p(0, 1), p(1, 2))),
			// array, struct fields, pointer to such a struct
			L("17", PT, L(p(0, 1), p(0, 1))),
			L("25", L(p(0, 1), "[1,1]", p(0, 1))),
			L("22", L("25", L(PT, PT)), L(L("25", L(p(0, 3), p(0, 3))))),
			// a field and an interface holding the same pointer (both orders)
			L("25", L(p(0, 1), L("20", "0", L(p(0, 1))))),
			L("25", L(L("20", "0", L(p(0, 1))), p(0, 1))),
			L("23", "[20,0]", "0", L(L("20", "0", L(p(0, 1))), L("20", "0", L(p(0, 1))))),
			// two map values; a map value and a field
			L("21", "[24]", PT, "0", L(L(L("24", Str("a")), p(0, 1)), L(L("24", Str("bb")), p(0, 1)))),
			L("25", L(L("21", "[5]", PT, "0", L(L("[5,1]", p(0, 1)))), p(0, 1))),
			// diamond: two distinct nodes sharing a successor; the same node twice (shared at both levels)
			L("25", L(node(p(0, 1), 0), node(p(0, 1), 0))),
			L("25", L(node(p(0, 1), 2), node(p(0, 1), 2))),
			L("23", L("22", S), "0", L(node(p(0, 1), 2), node(p(0, 1), 3), node(p(0, 1), 2))),
			// pointer to pointer: shared outer; distinct outers sharing the inner
			L("23", L("22", PT), "0", L(L("22", PT, L(p(0, 1)), "2"), L("22", PT, L(p(0, 1)), "2"))),
			L("23", L("22", PT), "0", L(L("22", PT, L(p(0, 1))), L("22", PT, L(p(0, 1))))),
			// the pointer at two depths
			L("25", L(p(0, 1), L("23", PT, "0", L(p(0, 1))))),
			// the same slice / the same map twice
			L("25", L(sl(1), sl(1))),
			L("23", L("23", T), "0", L(sl(1), sl(1), sl(1))),
			L("25", L(mp(1), mp(1))),
			L("17", L("21", "[24]", T), L(mp(1), mp(1))),
		}
		for _, c := range cases {
			emit(c, "exh-sharing")
			nShare++
		}
	}
	g.Exhaust = append(g.Exhaust, fmt.Sprintf("sharing: 21 patterns (same pointer twice in a slice/array/struct/map, in a field and in an interface, diamonds, shared **T, shared slices and maps) x %d element types", len(elems)))


	// (3d) typehelper.ToSlice: slices of every leaf type and of some composites, every length 0..6, with
	// pairwise distinct elements (order and count are visible), and with a repeated element; nil slices;
	// and what is not a slice: nil, array, pointer to slice, string, map, struct, scalar
	for _, e := range elems {
		T := e.t.Text()
		for n := 0; n <= 6; n++ {
			toSlice(L("23", T, "0", rep(n, e.v)), "exh-toslice")
		}
		toSlice(L("23", T, "0", L(e.v(1), e.v(0), e.v(1), e.v(1))), "exh-toslice")
		toSlice(L("23", T, "1", L()), "exh-toslice")
		toSlice(L("17", T, rep(2, e.v)), "exh-toslice")
		toSlice(L("22", L("23", T), L(L("23", T, "0", rep(2, e.v)))), "exh-toslice")
		toSlice(L("21", "[5]", T, "0", L(L("[5,1]", e.v(0)))), "exh-toslice")
		toSlice(L("25", L(L("23", T, "0", rep(2, e.v)))), "exh-toslice")
		if e.t.K != 20 {
			toSlice(e.v(0), "exh-toslice")
		}
	}
	toSlice("[0]", "exh-toslice")
	// slices of interface values: nil and non-nil slots, both interface types
	toSlice(L("23", "[20,0]", "0", L("[20,0,[]]", "[20,0,[[24,x6162]]]", "[20,0,[]]", "[20,0,[[22,[3],[[3,5]]]]]", "[20,0,[[22,[3],[]]]]")), "exh-toslice")
	toSlice(L("23", "[20,1]", "0", L("[20,1,[[22,[5],[[5,7]]]]]", "[20,1,[]]", "[20,1,[[22,[5],[[5,8]]]]]")), "exh-toslice")
	g.Exhaust = append(g.Exhaust, fmt.Sprintf("ToSlice: slices of length 0..6 with distinct elements, a repeated element, nil slices and 6 kinds of non-slices over %d element types; slices of nil / non-nil interface values", len(elems)))


	// (3e) size.Of/heap: values that share pointers, written as an ordered heap + a root
	heapCase := func(cells []string, root, bucket string) {
		refs, nested := strings.Count(root, "[26,"), 0
		for _, c := range cells {
			nested += strings.Count(c, "[26,")
		}
		g.Stat(bucket)
		g.Do("size.Of/heap", L(L(cells...), root), fmt.Sprintf("heap/cells%d/rootrefs%d/cellrefs%d", minInt(len(cells), 6), minInt(refs, 6), minInt(nested, 6)))
	}
	for _, e := range elems {
		T := e.t.Text()
		PT := L("22", T)
		ref := func(T string, a int) string { return L("26", T, Int(a)) }
		// one cell, reached 2..4 times from a slice / array / struct / interface / map
		c0 := []string{L(T, e.v(0))}
		heapCase(c0, L("23", PT, "0", L(ref(T, 0), ref(T, 0))), "exh-heap")
		heapCase(c0, L("17", PT, L(ref(T, 0), ref(T, 0), ref(T, 0))), "exh-heap")
		heapCase(c0, L("25", L(ref(T, 0), L("20", "0", L(ref(T, 0))))), "exh-heap")
		heapCase(c0, L("21", "[24]", PT, "0", L(L(L("24", Str("a")), ref(T, 0)), L(L("24", Str("b")), ref(T, 0)))), "exh-heap")
		heapCase(c0, L("23", PT, "0", L(ref(T, 0), L("22", T, L(e.v(0))), ref(T, 0), L("22", T, L()))), "exh-heap")
		heapCase(c0, ref(T, 0), "exh-heap")
		// two cells of the same type
		heapCase([]string{L(T, e.v(0)), L(T, e.v(1))}, L("23", PT, "0", L(ref(T, 1), ref(T, 0), ref(T, 1), ref(T, 0), ref(T, 1))), "exh-heap")
		// a cell holding a pointer to a cell: **T shared at both levels
		heapCase([]string{L(T, e.v(0)), L(PT, ref(T, 0))}, L("23", L("22", PT), "0", L(ref(PT, 1), ref(PT, 1), L("22", PT, L(ref(T, 0))))), "exh-heap")
		// a tower of diamonds: cell k+1 = struct{a, b *cell k}; the unfolding doubles at every level
		cells, ct := []string{L(T, e.v(0))}, T
		for k := 0; k < 5; k++ {
			nt := L("25", L(L("22", ct), L("22", ct)))
			cells = append(cells, L(nt, L("25", L(ref(ct, k), ref(ct, k)))))
			ct = nt
			heapCase(cells, L("23", L("22", ct), "0", L(ref(ct, k+1), ref(ct, k+1))), "exh-heap")
		}
	}
	g.Exhaust = append(g.Exhaust, fmt.Sprintf("heaps: one or two cells referenced 1..5 times from each container kind, a shared **T, towers of 1..5 diamonds (unfolding 4..64 copies) x %d element types", len(elems)))
	// random ordered heaps: every cell may point to earlier cells
	var htype func(depth int, cellTs []*c20T) *c20T
	htype = func(depth int, cellTs []*c20T) *c20T {
		if depth <= 0 {
			return c20RandType(g.R, 0, false)
		}
		switch g.R.Intn(8) {
		case 0, 1, 2:
			if len(cellTs) > 0 {
				return &c20T{K: 22, Elem: cellTs[g.R.Intn(len(cellTs))]}
			}
		case 3:
			t := &c20T{K: 25}
			for i, n := 0, g.R.Pick(1, 2, 2, 3); i < n; i++ {
				t.Fields = append(t.Fields, htype(depth-1, cellTs))
			}
			return t
		case 4:
			return &c20T{K: 23, Elem: htype(depth-1, cellTs)}
		case 5:
			return &c20T{K: 17, Elem: htype(depth-1, cellTs), N: g.R.Pick(1, 2, 3)}
		case 6:
			return &c20T{K: 21, Key: c20S(g.R.Pick(24, 5, 7)), Elem: htype(depth-1, cellTs)}
		}
		return c20RandType(g.R, minInt(depth, 2), false)
	}
	for k, n := 0, g.N(1500, 30000); k < n; k++ {
		gen.reset(g.R.Pick(0, 0, 3))
		gen.budget = g.R.Pick(20, 60, 150)
		cellTs, cells := []*c20T{}, []string{}
		for i, nc := 0, g.R.Pick(1, 2, 2, 3, 4, 6); i < nc; i++ {
			var t *c20T
			for {
				t = htype(g.R.Pick(0, 1, 2, 2), cellTs)
				if t.K != 20 {
					break
				}
			}
			cells = append(cells, L(t.Text(), gen.val(t, 4)))
			cellTs = append(cellTs, t)
			gen.cells[t.Text()] = append(gen.cells[t.Text()], i)
		}
		var rt *c20T
		for {
			rt = htype(g.R.Pick(1, 2, 3), cellTs)
			if rt.K != 20 {
				break
			}
		}
		root := gen.val(rt, 5)
		if len(root)+len(strings.Join(cells, "")) > 6000 {
			k--
			continue
		}
		heapCase(cells, root, "rand-heap")
	}
	gen.reset(0)


	// (3f) the whole report on a grid: every depth in -2..6 x every maxItem in -1..5 (and 100), with and
	// without an average, on the value of TestSizeStat (behind a pointer and in a slice) and on a few shapes
	{
		i32s := func(xs ...int) string {
			return L("23", "[5]", "0", rep(len(xs), func(i int) string { return L("5", Int(xs[i])) }))
		}
		my := func(a, b, c, d, e, f, g, h string) string { return L("25", L(a, b, c, d, e, f, g, h)) }
		zb, zc := L("17", "[5]", L("[5,0]", "[5,0]", "[5,0]")), L("21", "[24]", "[3]", "1", L())
		zd, ze, zf, zg := L("22", "[27]", L()), L("23", "[22,[27]]", "1", L()), L("23", "[24]", "1", L()), L("20", "1", L())
		only := func(a string) string { return my(a, zb, zc, zd, ze, zf, zg, zg) }
		pm := func(x string) string { return L("22", "[27]", L(x)) }
		tv := my(i32s(1, 2, 3), L("17", "[5]", L("[5,4]", "[5,5]", "[5,6]")),
			L("21", "[24]", "[3]", "0", L(L(L("24", Str("abc")), "[3,3]"))),
			pm(only(i32s(1, 2))),
			L("23", "[22,[27]]", "0", L(pm(only(i32s(1, 2, 3))), pm(only(i32s(2, 3, 4))))),
			L("23", "[24]", "0", L(L("24", Str("abc")), L("24", Str("def")))),
			zg, L("20", "1", L("[22,[5],[[5,3]]]")))
		shapesG := []string{
			pm(tv),
			L("23", "[27]", "0", L(tv)),
			L("23", "[23,[3]]", "0", rep(6, func(i int) string { return L("23", "[3]", "0", rep(i, func(j int) string { return L("3", Int(j)) })) })),
			L("17", "[17,[24],2]", rep(3, func(i int) string { return L("17", "[24]", L(L("24", Str("a")), L("24", Str("bcd")))) })),
			L("25", L(L("22", "[22,[22,[7]]]", L(L("22", "[22,[7]]", L(L("22", "[7]", L("[7,1]")))))), L("20", "0", L(L("22", "[20,0]", L("[20,0,[]]")))), "[12,5]")),
			L("21", "[5]", "[23,[24]]", "0", L(L("[5,7]", L("23", "[24]", "0", L(L("24", Str("x")), L("24", Str("yy")), L("24", Str("zzz"))))))),
			L("23", "[20,0]", "0", L("[20,0,[]]", L("20", "0", L(L("23", "[1]", "0", L("[1,1]", "[1,0]")))), L("20", "0", L(L("22", "[16]", L("[16,1]")))))),
		}
		for _, text := range shapesG {
			v, err := ParseVal(text)
			if err != nil {
				c20Fatal("grid: %v", err)
			}
			lab, stable := c20Labels(v)
			if !stable {
				c20Fatal("grid: unstable labels")
			}
			key, _ := c20Key(text)
			for d := -2; d <= 6; d++ {
				for _, m := range []int{-1, 0, 1, 2, 3, 4, 5, 100} {
					g.Stat("exh-report-grid")
					report(text, v, lab, key, d, m, 0, L())
					if (d+m)%3 == 0 {
						report(text, v, lab, key, d, m, g.R.Pick(1, 3, 10, 1000), []string{L(), L("-3"), L("2")}[g.R.Intn(3)])
					}
				}
			}
			report(text, v, lab, key, 11, 100, 0, L())
			report(text, v, lab, key, 11, 100, 10, L())
		}
		// averages that are exact ties at the third decimal (k/16 = .0625 k): round-half-even of the exact value
		for k := 0; k <= 17; k++ {
			text := L("17", "[1]", rep(k, func(i int) string { return L("1", Int(i&1)) }))
			v, _ := ParseVal(text)
			lab, _ := c20Labels(v)
			for _, au := range [][2]string{{"16", L()}, {"2", L("3")}, {"1", L("4")}, {"64", L("-2")}, {"32", L()}, {"3", L()}, {"1", L("-1")}} {
				avg, _ := strconv.Atoi(au[0])
				g.Stat("exh-report-avg-ties")
				report(text, v, lab, "", 0, 0, avg, au[1])
			}
		}
		g.Exhaust = append(g.Exhaust, "averages: sizes 0..17 over AvgOf/AvgUnit combinations with quotient k/16, k/32, k/3, 2k (exact ties at the third decimal included)")
		g.Exhaust = append(g.Exhaust, fmt.Sprintf("whole report: depth -2..6 x maxItem {-1..5,100} on %d fixed values (the struct of TestSizeStat behind a pointer and in a slice, slices of slices of length 0..5, arrays of arrays, a chain of pointers, nested interfaces, a map of slices)", len(shapesG)))
	}


	// (3h) sessions: Of / Stat of a pointer before and after a Stat call that PANICS on a holder of that
	// pointer and a chan / func member, with the pointee replaced (same address, other size) in between
	{
		sess := func(t *c20T, v1, v2 string, variant int, bucket string) {
			d, m := g.R.Pick(0, 1, 2, 3, -1), g.R.Pick(0, 1, 3, 10, 100)
			g.Stat(bucket)
			g.Do("size.Stat/after-panic", L(t.Text(), v1, v2, Int(d), Int(m), Int(variant)), fmt.Sprintf("session/v%d/T%d/d%d", variant, t.K, minInt(d, 3)))
		}
		i32 := &c20T{K: 23, Elem: c20S(5)}
		for variant := 0; variant <= 3; variant++ {
			sess(i32, L("23", "[5]", "0", rep(3, func(i int) string { return "[5,0]" })), L("23", "[5]", "0", rep(8, func(i int) string { return L("5", Int(i)) })), variant, "exh-session")
			sess(c20S(24), L("24", Str("ab")), L("24", Str("abcdefghij")), variant, "exh-session")
			for _, e := range elems {
				if e.t.K != 20 {
					sess(e.t, e.v(0), e.v(7), variant, "exh-session")
					st := &c20T{K: 23, Elem: e.t}
					sess(st, L("23", e.t.Text(), "0", rep(1, e.v)), L("23", e.t.Text(), "0", rep(5, e.v)), variant, "exh-session")
				}
			}
		}
		for k, n := 0, g.N(200, 4000); k < n; k++ {
			var t *c20T
			for {
				t = c20RandType(g.R, g.R.Pick(1, 2, 2, 3), false)
				if t.K != 20 {
					break
				}
			}
			gen.reset(0)
			gen.budget = g.R.Pick(10, 40, 100)
			v1 := gen.val(t, 4)
			gen.budget = g.R.Pick(10, 40, 100)
			v2 := gen.val(t, 4)
			sess(t, v1, v2, g.R.Pick(0, 0, 1, 2, 2, 3), "rand-session")
		}
		g.Exhaust = append(g.Exhaust, "sessions: 4 holder variants (chan member, func member, []interface{} with a chan, no unsupported member) x pointees of every element type and slices of them growing from 1 to 5 elements")
	}


	// (3i) INTERIOR pointers: a pointer into the value itself — to the first (same address as the enclosing
	// pointee) or a later field / element of a pointee the traversal is inside of; acyclic, and a pointer
	// costs 8 + its pointee wherever the pointee lives
	{
		path := func(xs ...int) string { return Ints(xs) }
		ip := func(T, v, p string) string { return L("28", T, L(v), p) }
		for _, e := range elems {
			if e.t.K == 20 {
				continue
			}
			T := e.t.Text()
			PT := L("22", T)
			arr := func(n int) string { return L("17", T, rep(n, e.v)) }
			// ring: &struct{slots [3]T; cur *T}, cur = &slots[j]
			ringT := L("25", L(L("17", T, "3"), PT))
			ring := func(j int, pre ...int) string {
				return L("22", ringT, L(L("25", L(arr(3), ip(T, e.v(j), path(append(pre, -1, 0, j)...))))))
			}
			for j := 0; j < 3; j++ {
				emit(ring(j), "exh-interior")
			}
			// a slice of rings, an interface holding a ring
			emit(L("23", L("22", ringT), "0", L(ring(0, 0), ring(1, 1), ring(0, 2))), "exh-interior")
			emit(L("25", L("[1,1]", L("20", "0", L(ring(0, 1, -1))))), "exh-interior")
			// rec: &struct{id T; tag string; key *T; ktag *string}, key = &id (first member), ktag = &tag
			recT := L("25", L(T, "[24]", PT, "[22,[24]]"))
			tag := L("24", Str("tag"))
			emit(L("22", recT, L(L("25", L(e.v(0), tag, ip(T, e.v(0), path(-1, 0)), L("22", "[24]", L()))))), "exh-interior")
			emit(L("22", recT, L(L("25", L(e.v(0), tag, L("22", T, L()), ip("[24]", tag, path(-1, 1)))))), "exh-interior")
			emit(L("22", recT, L(L("25", L(e.v(0), tag, ip(T, e.v(0), path(-1, 0)), ip("[24]", tag, path(-1, 1)))))), "exh-interior")
			// first member of the first member: &struct{in struct{a T; b int8}; pa *T; pin *struct{...}}
			inT := L("25", L(T, "[3]"))
			in := L("25", L(e.v(2), "[3,1]"))
			nestT := L("25", L(inT, PT, L("22", inT)))
			emit(L("22", nestT, L(L("25", L(in, ip(T, e.v(2), path(-1, 0, 0)), ip(inT, in, path(-1, 0)))))), "exh-interior")
			// pointer to pointer: the inner pointee holds a pointer to its own first member
			emit(L("22", L("22", recT), L(L("22", recT, L(L("25", L(e.v(1), tag, ip(T, e.v(1), path(-1, -1, 0)), L("22", "[24]", L()))))))), "exh-interior")
			// holder{arr *[3]T; head *T}: siblings to one address (never nested); head = &arr[0] / &arr[2]
			holdT := L("25", L(L("22", L("17", T, "3")), PT))
			for _, j := range []int{0, 2} {
				emit(L("22", holdT, L(L("25", L(L("22", L("17", T, "3"), L(arr(3))), ip(T, e.v(j), path(-1, 0, -1, j)))))), "exh-interior")
			}
			// []interface{}{inner, inner.arr, &inner.arr[0]}
			inner := L("22", holdT, L(L("25", L(L("22", L("17", T, "3"), L(arr(3))), L("22", T, L())))))
			emit(L("23", "[20,0]", "0", L(
				L("20", "0", L(inner)),
				L("20", "0", L(ip(L("17", T, "3"), arr(3), path(0, -1, -1, 0, -1)))),
				L("20", "0", L(ip(T, e.v(0), path(0, -1, -1, 0, -1, 0)))))), "exh-interior")
			// pointer to the first element of a slice held by the same pointee
			slT := L("25", L(L("23", T), PT))
			emit(L("22", slT, L(L("25", L(L("23", T, "0", rep(2, e.v)), ip(T, e.v(0), path(-1, 0, 0)))))), "exh-interior")
		}
		g.Exhaust = append(g.Exhaust, fmt.Sprintf("interior pointers: to element 0/1/2 of an inline array of the enclosing pointee, to its first / second member, to the first member of its first member (two pointer types, one address), through a pointer to pointer, sibling pointers into one array, inside interfaces and slices, to the first element of a slice x %d element types", len(elems)-1))
	}

	// (3c) slices / arrays whose elements are ARRAYS of non-scalars: outer x array length x inner shape x leaf type
	for _, e := range inner {
		e := e
		for _, in := range all {
			in := in
			it := shapeType(in, e)
			for _, n := range []int{1, 2, 3} {
				at := &c20T{K: 17, Elem: it, N: n}
				arr := func(base int) string {
					return L("17", it.Text(), rep(n, func(i int) string {
						return in.mk(e, func(j int) string { return leafVal(e, base+2*i+j) })
					}))
				}
				emit(L("23", at.Text(), "0", rep(2, func(i int) string { return arr(3 * i) })), "exh-arrays")
				emit(L("17", at.Text(), rep(2, func(i int) string { return arr(3 * i) })), "exh-arrays")
				emit(L("23", L("17", at.Text(), "1"), "0", L(L("17", at.Text(), L(arr(1))))), "exh-arrays")
			}
		}
	}
	g.Exhaust = append(g.Exhaust, fmt.Sprintf("arrays of non-scalars: []([n]X), [2][n]X, [][1][n]X for n in 1..3, X over the %d container shapes x %d leaf types", len(all), len(inner)))

	// (3g) embedded (anonymous) fields: a struct value, a named scalar, a pointer, an interface, all of them
	for _, k := range c20EmbKinds {
		for i := 0; i < 8; i++ {
			gen.budget = 200
			gen.reset(0)
			t := c20S(k)
			wrap := []*c20T{{K: 22, Elem: t}, {K: 23, Elem: t}, {K: 17, Elem: t, N: 2}, {K: 25, Fields: []*c20T{c20S(1), t}}}[i%4]
			emit(gen.val(wrap, 6), "exh-embedded")
		}
	}
	g.Exhaust = append(g.Exhaust, "embedded fields: structs embedding a struct value / a named scalar / a pointer / an interface / all four, behind a pointer, in a slice, an array and a struct")

	// (4) hand-declared types: unexported fields, a recursive type, a method-carrying interface
	for k := 0; k < g.N(40, 400); k++ {
		t := c20S(g.R.Pick(c20KMy, c20KMy, c20KAB, c20KRI, c20KUU, c20KEmbS, c20KEmbI, c20KEmbP, c20KEmbF, c20KEmbA, c20KEmbA))
		gen.budget = g.R.Pick(10, 40, 200)
		gen.reset(g.R.Pick(0, 2, 3))
		wrap := &c20T{K: g.R.Pick(22, 23), Elem: t}
		emit(gen.val(wrap, g.R.Range(2, 6)), "named")
	}

	// (5) random types of depth <= 5 and random values of them
	n := g.N(8000, 120000)
	for k := 0; k < n; k++ {
		depth := g.R.Pick(1, 2, 2, 3, 3, 4, 4, 5, 5)
		var t *c20T
		for {
			t = c20RandType(g.R, depth, false)
			if t.K != 20 && (t.K > 16 || g.R.Intn(8) == 0) {
				break
			}
		}
		gen.budget = g.R.Pick(5, 20, 60, 150, 400)
		gen.reset(g.R.Pick(0, 0, 2, 3, 5))
		text := gen.val(t, depth+1)
		if len(text) > 20000 {
			k--
			continue
		}
		emit(text, fmt.Sprintf("rand-typedepth%d", depth))
	}
}

func c20Dump(v V) string {
	if !v.IsList() {
		return v.Z.String()
	}
	xs := make([]string, len(v.L))
	for i, x := range v.L {
		xs[i] = c20Dump(x)
	}
	return L(xs...)
}
