package main

import (
	"bufio"
	"fmt"
	"math/big"
	"os"
	"strings"
)

// V is a parsed val: an integer or a list.
type V struct {
	Z *big.Int
	L []V
}

func (v V) IsList() bool { return v.Z == nil }
func (v V) I64() int64   { return v.Z.Int64() }
func (v V) Int() int     { return int(v.Z.Int64()) }
func (v V) I32() int32   { return int32(v.Z.Int64()) }
func (v V) U64() uint64  { return v.Z.Uint64() }
func (v V) Bool() bool   { return v.Z.Sign() != 0 }
func (v V) U64s() []uint64 {
	r := make([]uint64, len(v.L))
	for i, x := range v.L {
		r[i] = x.U64()
	}
	return r
}
func (v V) I32s() []int32 {
	r := make([]int32, len(v.L))
	for i, x := range v.L {
		r[i] = x.I32()
	}
	return r
}
func (v V) I64s() []int64 {
	r := make([]int64, len(v.L))
	for i, x := range v.L {
		r[i] = x.I64()
	}
	return r
}
func (v V) Bytes() []byte {
	r := make([]byte, len(v.L))
	for i, x := range v.L {
		r[i] = byte(x.Z.Uint64())
	}
	return r
}
func (v V) Str() string { return string(v.Bytes()) }
func (v V) Strs() []string {
	r := make([]string, len(v.L))
	for i, x := range v.L {
		r[i] = x.Str()
	}
	return r
}

type parser struct {
	s   string
	pos int
}

func isHex(c byte) bool { return (c >= '0' && c <= '9') || (c >= 'a' && c <= 'f') }
func hexv(c byte) int {
	if c <= '9' {
		return int(c - '0')
	}
	return int(c-'a') + 10
}

func (p *parser) peek() byte {
	if p.pos < len(p.s) {
		return p.s[p.pos]
	}
	return 0
}

func (p *parser) value() (V, error) {
	switch c := p.peek(); {
	case c == '[':
		p.pos++
		l := []V{}
		if p.peek() == ']' {
			p.pos++
			return V{L: l}, nil
		}
		for {
			v, err := p.value()
			if err != nil {
				return V{}, err
			}
			l = append(l, v)
			if p.peek() == ',' {
				p.pos++
				continue
			}
			if p.peek() == ']' {
				p.pos++
				return V{L: l}, nil
			}
			return V{}, fmt.Errorf("expected , or ] at %d", p.pos)
		}
	case c == 'x':
		p.pos++
		l := []V{}
		for isHex(p.peek()) {
			h := hexv(p.peek())
			p.pos++
			if !isHex(p.peek()) {
				return V{}, fmt.Errorf("odd hex")
			}
			lo := hexv(p.peek())
			p.pos++
			l = append(l, V{Z: big.NewInt(int64(h*16 + lo))})
		}
		return V{L: l}, nil
	case c == '0' && p.pos+1 < len(p.s) && p.s[p.pos+1] == 'x':
		p.pos += 2
		st := p.pos
		for isHex(p.peek()) {
			p.pos++
		}
		z, ok := new(big.Int).SetString(p.s[st:p.pos], 16)
		if !ok {
			return V{}, fmt.Errorf("bad hex")
		}
		return V{Z: z}, nil
	case c == '-' || (c >= '0' && c <= '9'):
		st := p.pos
		p.pos++
		for p.peek() >= '0' && p.peek() <= '9' {
			p.pos++
		}
		z, ok := new(big.Int).SetString(p.s[st:p.pos], 10)
		if !ok {
			return V{}, fmt.Errorf("bad int")
		}
		return V{Z: z}, nil
	}
	return V{}, fmt.Errorf("unexpected char at %d", p.pos)
}

// ParseVal parses the val text syntax.
func ParseVal(s string) (V, error) {
	p := &parser{s: s}
	v, err := p.value()
	if err != nil {
		return V{}, err
	}
	if p.pos != len(s) {
		return V{}, fmt.Errorf("trailing garbage at %d", p.pos)
	}
	return v, nil
}

// Exec maps an op name to the function that runs the REAL code on parsed
// arguments and renders the observation.  Generation, corpus replay, --replay
// and shrinking all go through this one path.
var Exec = map[string]func(a []V) string{}

// Do runs one case given its argument text.
func (g *Gen) Do(op, args, key string) {
	ex, ok := Exec[op]
	if !ok {
		fmt.Fprintln(os.Stderr, "no executor for op", op)
		os.Exit(2)
	}
	v, err := ParseVal(args)
	if err != nil || !v.IsList() {
		fmt.Fprintln(os.Stderr, "bad args for", op, args, err)
		os.Exit(2)
	}
	if !g.noSample && len(args) < 4000 {
		// reservoir sampling, capacity 1500
		g.seen++
		if len(g.sample) < 1500 {
			g.sample = append(g.sample, [2]string{op, args})
		} else if j := g.R.Intn(g.seen); j < 1500 {
			g.sample[j] = [2]string{op, args}
		}
	}
	if !g.noSample && len(args) < 400 {
		g.notePair(op, args)
	}
	g.Case(op, args, key, func() string { return ex(v.L) })
}

// splitTop splits the text of a list value "[a,b,[c,d]]" into its top-level elements.
func splitTop(args string) []string {
	if len(args) < 2 || args[0] != '[' {
		return nil
	}
	var out []string
	depth, start := 0, 1
	for i := 1; i < len(args)-1; i++ {
		switch args[i] {
		case '[':
			depth++
		case ']':
			depth--
		case ',':
			if depth == 0 {
				out = append(out, args[start:i])
				start = i + 1
			}
		}
	}
	if start < len(args)-1 {
		out = append(out, args[start:len(args)-1])
	}
	return out
}

// notePair remembers, for every (operation, argument position k, text of argument k), the first two DIFFERENT cases of
// this run that share that argument.  rerunPairs replays them back to back at the end of the run.
func (g *Gen) notePair(op, args string) {
	if g.pairs == nil {
		g.pairs = map[string]*[2]string{}
	}
	for k, a := range splitTop(args) {
		if len(a) > 48 {
			continue
		}
		key := op + "\x00" + string(rune('0'+k)) + "\x00" + a
		p, ok := g.pairs[key]
		if !ok {
			if len(g.pairs) < 60000 {
				g.pairs[key] = &[2]string{args, ""}
			}
			continue
		}
		if p[1] == "" && p[0] != args {
			p[1] = args
		}
	}
}

func replayLine(g *Gen, line string) error {
	f := strings.Split(strings.TrimRight(line, "\n"), "\t")
	if len(f) < 2 {
		return fmt.Errorf("need op\\targs: %q", line)
	}
	if _, ok := Exec[f[0]]; !ok {
		return fmt.Errorf("unknown op %q", f[0])
	}
	g.Do(f[0], f[1], "corpus")
	return nil
}

func replayFile(g *Gen, path string) error {
	f, err := os.Open(path)
	if err != nil {
		if os.IsNotExist(err) {
			return nil
		}
		return err
	}
	defer f.Close()
	sc := bufio.NewScanner(f)
	sc.Buffer(make([]byte, 1<<20), 1<<26)
	for sc.Scan() {
		t := sc.Text()
		if t == "" || strings.HasPrefix(t, "#") {
			continue
		}
		if err := replayLine(g, t); err != nil {
			return err
		}
	}
	return sc.Err()
}
