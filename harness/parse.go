package main

import (
	"bufio"
	"fmt"
	"math/big"
	"os"
	"strings"
)

// V is a parsed val: an integer or a list.
type V struct {
	Z *big.Int
	L []V
}

func (v V) IsList() bool { return v.Z == nil }
func (v V) I64() int64   { return v.Z.Int64() }
func (v V) Int() int     { return int(v.Z.Int64()) }
func (v V) I32() int32   { return int32(v.Z.Int64()) }
func (v V) U64() uint64  { return v.Z.Uint64() }
func (v V) Bool() bool   { return v.Z.Sign() != 0 }

// Guarded argument slices.  Every []uint64 / []int32 / []byte argument handed to an executor is a WINDOW of a larger
// backing array whose spare capacity (0, 3 or 67 elements, cycling) is filled with a non-zero junk pattern.  A callee that
// reads its argument beyond len (re-slicing into the capacity) computes with junk and gives a wrong answer; a callee that
// writes beyond len (append into the spare capacity, in-place padding) is caught by the guard check after the call
// (Gen.Case turns the observation into "[P,-7777777]", which no specification accepts).
var guardChecks []func() bool
var guardTick int

func guardPad() int {
	guardTick++
	switch guardTick % 3 {
	case 0:
		return 0
	case 1:
		return 3
	}
	return 67
}

func guardReset() { guardChecks = guardChecks[:0] }

func guardsIntact() bool {
	for _, f := range guardChecks {
		if !f() {
			return false
		}
	}
	return true
}

const junk64 = 0xa5a5a5a5a5a5a5a5
const junk32 = 0x5a5a5a5a
const junk8 = 0xa5

func (v V) U64s() []uint64 {
	n, pad := len(v.L), guardPad()
	full := make([]uint64, n+pad)
	for i, x := range v.L {
		full[i] = x.U64()
	}
	for i := n; i < n+pad; i++ {
		full[i] = junk64
	}
	if pad > 0 {
		guardChecks = append(guardChecks, func() bool {
			for i := n; i < n+pad; i++ {
				if full[i] != junk64 {
					return false
				}
			}
			return true
		})
	}
	return full[:n]
}
func (v V) I32s() []int32 {
	n, pad := len(v.L), guardPad()
	full := make([]int32, n+pad)
	for i, x := range v.L {
		full[i] = x.I32()
	}
	for i := n; i < n+pad; i++ {
		full[i] = junk32
	}
	if pad > 0 {
		guardChecks = append(guardChecks, func() bool {
			for i := n; i < n+pad; i++ {
				if full[i] != junk32 {
					return false
				}
			}
			return true
		})
	}
	return full[:n]
}
func (v V) I64s() []int64 {
	r := make([]int64, len(v.L))
	for i, x := range v.L {
		r[i] = x.I64()
	}
	return r
}
func (v V) Bytes() []byte {
	n, pad := len(v.L), guardPad()
	full := make([]byte, n+pad)
	for i, x := range v.L {
		full[i] = byte(x.Z.Uint64())
	}
	for i := n; i < n+pad; i++ {
		full[i] = junk8
	}
	if pad > 0 {
		guardChecks = append(guardChecks, func() bool {
			for i := n; i < n+pad; i++ {
				if full[i] != junk8 {
					return false
				}
			}
			return true
		})
	}
	return full[:n]
}
func (v V) Str() string { return string(v.Bytes()) }
func (v V) Strs() []string {
	r := make([]string, len(v.L))
	for i, x := range v.L {
		r[i] = x.Str()
	}
	return r
}

type parser struct {
	s   string
	pos int
}

func isHex(c byte) bool { return (c >= '0' && c <= '9') || (c >= 'a' && c <= 'f') }
func hexv(c byte) int {
	if c <= '9' {
		return int(c - '0')
	}
	return int(c-'a') + 10
}

func (p *parser) peek() byte {
	if p.pos < len(p.s) {
		return p.s[p.pos]
	}
	return 0
}

func (p *parser) value() (V, error) {
	switch c := p.peek(); {
	case c == '[':
		p.pos++
		l := []V{}
		if p.peek() == ']' {
			p.pos++
			return V{L: l}, nil
		}
		for {
			v, err := p.value()
			if err != nil {
				return V{}, err
			}
			l = append(l, v)
			if p.peek() == ',' {
				p.pos++
				continue
			}
			if p.peek() == ']' {
				p.pos++
				return V{L: l}, nil
			}
			return V{}, fmt.Errorf("expected , or ] at %d", p.pos)
		}
	case c == 'x':
		p.pos++
		l := []V{}
		for isHex(p.peek()) {
			h := hexv(p.peek())
			p.pos++
			if !isHex(p.peek()) {
				return V{}, fmt.Errorf("odd hex")
			}
			lo := hexv(p.peek())
			p.pos++
			l = append(l, V{Z: big.NewInt(int64(h*16 + lo))})
		}
		return V{L: l}, nil
	case c == '0' && p.pos+1 < len(p.s) && p.s[p.pos+1] == 'x':
		p.pos += 2
		st := p.pos
		for isHex(p.peek()) {
			p.pos++
		}
		z, ok := new(big.Int).SetString(p.s[st:p.pos], 16)
		if !ok {
			return V{}, fmt.Errorf("bad hex")
		}
		return V{Z: z}, nil
	case c == '-' || (c >= '0' && c <= '9'):
		st := p.pos
		p.pos++
		for p.peek() >= '0' && p.peek() <= '9' {
			p.pos++
		}
		z, ok := new(big.Int).SetString(p.s[st:p.pos], 10)
		if !ok {
			return V{}, fmt.Errorf("bad int")
		}
		return V{Z: z}, nil
	}
	return V{}, fmt.Errorf("unexpected char at %d", p.pos)
}

// ParseVal parses the val text syntax.
func ParseVal(s string) (V, error) {
	p := &parser{s: s}
	v, err := p.value()
	if err != nil {
		return V{}, err
	}
	if p.pos != len(s) {
		return V{}, fmt.Errorf("trailing garbage at %d", p.pos)
	}
	return v, nil
}

// Exec maps an op name to the function that runs the REAL code on parsed
// arguments and renders the observation.  Generation, corpus replay, --replay
// and shrinking all go through this one path.
var Exec = map[string]func(a []V) string{}

// Do runs one case given its argument text.
func (g *Gen) Do(op, args, key string) {
	ex, ok := Exec[op]
	if !ok {
		fmt.Fprintln(os.Stderr, "no executor for op", op)
		os.Exit(2)
	}
	v, err := ParseVal(args)
	if err != nil || !v.IsList() {
		fmt.Fprintln(os.Stderr, "bad args for", op, args, err)
		os.Exit(2)
	}
	if !g.noSample && len(args) < 4000 {
		// reservoir sampling, capacity 1500
		g.seen++
		if len(g.sample) < 1500 {
			g.sample = append(g.sample, [2]string{op, args})
		} else if j := g.R.Intn(g.seen); j < 1500 {
			g.sample[j] = [2]string{op, args}
		}
	}
	if !g.noSample && len(args) < 400 {
		g.notePair(op, args)
	}
	g.Case(op, args, key, func() string { return ex(v.L) })
}

// splitTop splits the text of a list value "[a,b,[c,d]]" into its top-level elements.
func splitTop(args string) []string {
	if len(args) < 2 || args[0] != '[' {
		return nil
	}
	var out []string
	depth, start := 0, 1
	for i := 1; i < len(args)-1; i++ {
		switch args[i] {
		case '[':
			depth++
		case ']':
			depth--
		case ',':
			if depth == 0 {
				out = append(out, args[start:i])
				start = i + 1
			}
		}
	}
	if start < len(args)-1 {
		out = append(out, args[start:len(args)-1])
	}
	return out
}

// notePair remembers, for every (operation, argument position k, text of argument k), the first two DIFFERENT cases of
// this run that share that argument.  rerunPairs replays them back to back at the end of the run.
func (g *Gen) notePair(op, args string) {
	if g.pairs == nil {
		g.pairs = map[string]*[2]string{}
	}
	for k, a := range splitTop(args) {
		if len(a) > 48 {
			continue
		}
		key := op + "\x00" + string(rune('0'+k)) + "\x00" + a
		p, ok := g.pairs[key]
		if !ok {
			if len(g.pairs) < 60000 {
				g.pairs[key] = &[2]string{args, ""}
			}
			continue
		}
		if p[1] == "" && p[0] != args {
			p[1] = args
		}
	}
}

func replayLine(g *Gen, line string) error {
	f := strings.Split(strings.TrimRight(line, "\n"), "\t")
	if len(f) < 2 {
		return fmt.Errorf("need op\\targs: %q", line)
	}
	if _, ok := Exec[f[0]]; !ok {
		return fmt.Errorf("unknown op %q", f[0])
	}
	g.Do(f[0], f[1], "corpus")
	return nil
}

func replayFile(g *Gen, path string) error {
	f, err := os.Open(path)
	if err != nil {
		if os.IsNotExist(err) {
			return nil
		}
		return err
	}
	defer f.Close()
	sc := bufio.NewScanner(f)
	sc.Buffer(make([]byte, 1<<20), 1<<26)
	for sc.Scan() {
		t := sc.Text()
		if t == "" || strings.HasPrefix(t, "#") {
			continue
		}
		if err := replayLine(g, t); err != nil {
			return err
		}
	}
	return sc.Err()
}
