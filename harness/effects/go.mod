module verif/effects

go 1.22

require (
	github.com/openacid/low v0.0.0
	golang.org/x/tools v0.29.0
)

replace github.com/openacid/low => /repo
