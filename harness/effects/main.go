// Command effects is the C19 translator (DESIGN section 4.3): it loads the packages of
// github.com/openacid/low (from the tree named by this module's replace directive) with go/packages,
// builds SSA form and emits coq/gen/Effects.v:
//
//   - for every function C19 lists (the "entries") and everything reachable from it inside the module:
//     the shared writes - Store, MapUpdate, Send, and the destinations of builtin copy / append /
//     delete / clear whose address root, followed backwards through IndexAddr / FieldAddr / Slice / Phi /
//     Convert / ChangeType / unsafe conversions / loads, is a Parameter, Global, FreeVar or the result of
//     an unknown call rather than a fresh Alloc / MakeSlice / MakeMap / composite literal;
//     a write through a parameter of a helper is attributed to the entry only when the actual argument
//     at the call site is itself shared (summary based, context sensitive in the root of the address);
//   - calls that cannot be classified (a shared pointer handed to a function outside the module that is
//     not on the allow-list below, or to a dynamically dispatched callee): reported conservatively;
//   - the package-level variables those functions reference, the functions that write each of them,
//     and for every such writer the facts from which Coq decides "runs only from init".
//
// The Coq side (Properties/C19.v) proves shared_writes = [], unclassified = [], ... by computation
// against the generated file, so any change of the source that introduces a write makes the
// obligation fail; the report (-report) names function and source position.
package main

import (
	"flag"
	"fmt"
	"go/ast"
	"go/token"
	"go/types"
	"os"
	"path/filepath"
	"regexp"
	"sort"
	"strings"

	"golang.org/x/tools/go/packages"
	"golang.org/x/tools/go/ssa"
	"golang.org/x/tools/go/ssa/ssautil"
)

// the module under analysis (overridable with -mod: the translator's own tests run it on testdata/fx)
var modPath = "github.com/openacid/low"

// its packages that are loaded (module-internal dependencies are followed)
var pkgNames = []string{"bitmap", "bmtree", "bitstr", "bitword", "sigbits"}

// the functions C19 lists (short names: module prefix stripped), by package
var listed = []string{
	"bitmap.Rank64", "bitmap.Rank128", "bitmap.Select32", "bitmap.Select32R64",
	"bitmap.NextOne", "bitmap.PrevOne", "bitmap.Slice", "bitmap.ToArray", "bitmap.Getw", "bitmap.FromStr32",
	"bmtree.PathToIndex", "bmtree.PathToIndexLoose", "bmtree.IndexToPath", "bmtree.AllPaths", "bmtree.Decode",
	"bitstr.Cmp", "bitstr.CmpUpto", "bitstr.StrCmpUpto",
	"bitword.bitWord.FromStr", "bitword.bitWord.FromStrs", "bitword.bitWord.ToStr",
	"bitword.bitWord.ToStrs", "bitword.bitWord.Get", "bitword.bitWord.FirstDiff",
	"sigbits.FirstDiffBits", "sigbits.ShardByPrefix", "sigbits.SigBits.CountPrefixes",
}

// neighbouring query / construction functions of the same packages that users combine with the listed
// ones (widening): analysed in exactly the same way, reported in their own lists.
var widened = []string{
	"bitmap.Get", "bitmap.Get1", "bitmap.SafeGet", "bitmap.SafeGet1",
	"bitmap.IndexRank64", "bitmap.IndexRank128", "bitmap.IndexSelect32", "bitmap.IndexSelect32R64",
	"bitmap.Of", "bitmap.OfMany", "bitmap.Join", "bitmap.Fmt",
	"bmtree.Height", "bmtree.NewPath", "bmtree.PathOf", "bmtree.PathsOf", "bmtree.PathBits", "bmtree.PathMask",
	"bmtree.PathHeight", "bmtree.PathLen", "bmtree.PathStr",
	"bitstr.New", "bitstr.Len", "sigbits.New",
}

// widening, second kind: the mutating types of package bitmap that users give ONE PER GOROUTINE (a Builder, a
// TailBitmap) while sharing the inputs.  For these the claim is confinement: every write goes through the
// receiver (or fresh memory); nothing else that is shared is written.
var mutators = []string{
	"bitmap.NewBuilder", "bitmap.Builder.Extend", "bitmap.Builder.Set",
	"bitmap.NewTailBitmap", "bitmap.TailBitmap.Set", "bitmap.TailBitmap.Compact", "bitmap.TailBitmap.Get", "bitmap.TailBitmap.Get1",
}

// functions outside the module that may receive a shared pointer: they only read through it
// (trusted; listed in the evidence).  Everything else outside the module that is handed a shared
// pointer is reported as unclassified.
var readOnlyExternal = []string{
	"bytes.Compare", "bytes.Equal", "bytes.HasPrefix", "bytes.Index", "bytes.IndexByte",
	"strings.", "strconv.", "math/bits.", "math.", "unicode/utf8.",
	"fmt.Sprintf", "fmt.Sprint", "fmt.Sprintln", "fmt.Errorf",
	"runtime.KeepAlive",
	// reflection used for READING a value (bitmap.Fmt): not Set*, not Addr, not Elem of a pointer
	"reflect.ValueOf", "reflect.TypeOf", "reflect.Value.Kind", "reflect.Value.Len", "reflect.Value.Index", "reflect.Value.Interface",
	"github.com/openacid/must", // the contract package: (enabled|disabled).Be methods compare their arguments
}

// short names: module prefix stripped, methods as pkg.T.M (no parentheses or stars: the names end up in
// Coq strings and must not look like comment openers to line-based tools)
var recvRe = regexp.MustCompile(`\(\*?([A-Za-z0-9_./-]+)\)\.`)

// functions outside the module whose result is process state, not a function of the arguments: a listed function
// that calls one may return different results for the same arguments (CPU count, clock, random source, environment)
var ambientExternal = []string{
	"runtime.GOMAXPROCS", "runtime.NumCPU", "runtime.NumGoroutine", "runtime.Gosched", "runtime.GC", "runtime.ReadMemStats",
	"time.Now", "time.Since", "time.Until", "time.Sleep", "time.After", "time.Tick", "time.NewTimer",
	"math/rand.", "math/rand/v2.", "crypto/rand.",
	"os.Getenv", "os.LookupEnv", "os.Environ", "os.Getpid", "os.Hostname", "os.Getwd", "os.Args",
}

func isAmbient(fn *ssa.Function) bool {
	n := short(fn.String())
	for _, p := range ambientExternal {
		if n == p || strings.HasSuffix(p, ".") && strings.HasPrefix(n, p) {
			return true
		}
	}
	return false
}

func isWriteKind(kind string) bool {
	return !strings.HasPrefix(kind, "extcall:") && !strings.HasPrefix(kind, "dyncall:") && !strings.HasPrefix(kind, "ambient:") && kind != "Panic"
}

func short(s string) string {
	s = strings.ReplaceAll(s, modPath+"/", "")
	return recvRe.ReplaceAllString(s, "$1.")
}

// ---------------------------------------------------------------------------------------- roots

type rkind int

const (
	kFresh rkind = iota
	kParam
	kGlobal
	kUnknown
)

type root struct {
	k    rkind
	fn   *ssa.Function // kParam: whose parameter
	idx  int
	g    *ssa.Global
	site ssa.Value // kFresh: the allocation
	why  string    // kUnknown
}

type rootset map[root]struct{}

func (s rootset) add(r root) bool {
	if _, ok := s[r]; ok {
		return false
	}
	s[r] = struct{}{}
	return true
}
func (s rootset) addAll(t rootset) bool {
	ch := false
	for r := range t {
		if s.add(r) {
			ch = true
		}
	}
	return ch
}
func (s rootset) shared() []root {
	var out []root
	for r := range s {
		if r.k != kFresh {
			out = append(out, r)
		}
	}
	return out
}

func pointerLike(t types.Type) bool { return ptrLike(t, 0) }
func ptrLike(t types.Type, depth int) bool {
	if depth > 8 {
		return true
	}
	switch u := t.Underlying().(type) {
	case *types.Basic:
		// uintptr counts: an address may travel through one (reflect.StringHeader.Data, pointer arithmetic)
		return u.Kind() == types.String || u.Kind() == types.UnsafePointer || u.Kind() == types.Uintptr ||
			u.Kind() == types.UntypedNil || u.Kind() == types.UntypedString
	case *types.Pointer, *types.Slice, *types.Map, *types.Chan, *types.Interface, *types.Signature:
		return true
	case *types.Struct:
		for i := 0; i < u.NumFields(); i++ {
			if ptrLike(u.Field(i).Type(), depth+1) {
				return true
			}
		}
		return false
	case *types.Array:
		return ptrLike(u.Elem(), depth+1)
	case *types.Tuple:
		for i := 0; i < u.Len(); i++ {
			if ptrLike(u.At(i).Type(), depth+1) {
				return true
			}
		}
		return false
	}
	return true
}

// ---------------------------------------------------------------------------------------- analysis

type effect struct {
	kind string // Store, MapUpdate, Send, copy, append, delete, clear, extcall:<callee>, dyncall:<what>
	fn   *ssa.Function
	pos  token.Pos
}

type condEffect struct {
	r     root // in the context of the function that owns this entry
	e     effect
	chain string // call chain from the owner down to e.fn ("" when direct)
}

type condKey struct {
	r root
	e effect
}

type edge struct {
	callee        *ssa.Function
	pos           token.Pos
	args          []rootset // deep roots of the actual arguments (receiver first)
	unknownParams bool      // the function escapes as a value: its parameters may be anything
}

type analysis struct {
	prog     *ssa.Program
	fns      []*ssa.Function // all functions of the module, deterministic order
	memo     map[ssa.Value]rootset
	changed  bool
	ret      map[*ssa.Function]rootset
	cond     map[*ssa.Function]map[condKey]string
	edges    map[*ssa.Function][]edge
	stores   map[*ssa.Function][]*ssa.Store
	closures map[*ssa.Function][]*ssa.MakeClosure // the MakeClosure sites of an anonymous function
	escaped  map[*ssa.Function]map[ssa.Value]bool
	greads   map[*ssa.Function]map[*ssa.Global]bool
	visit    map[ssa.Value]bool
}

func inModule(fn *ssa.Function) bool {
	if fn == nil {
		return false
	}
	for fn.Parent() != nil {
		fn = fn.Parent()
	}
	if fn.Pkg == nil {
		if o := fn.Origin(); o != nil && o.Pkg != nil {
			return strings.HasPrefix(o.Pkg.Pkg.Path(), modPath)
		}
		// synthetic wrappers / bound methods: decide by the receiver's package
		if fn.Object() != nil && fn.Object().Pkg() != nil {
			return strings.HasPrefix(fn.Object().Pkg().Path(), modPath)
		}
		return false
	}
	return fn.Pkg.Pkg.Path() == modPath || strings.HasPrefix(fn.Pkg.Pkg.Path(), modPath+"/")
}

func hasBody(fn *ssa.Function) bool { return fn != nil && len(fn.Blocks) > 0 }

func paramIndex(p *ssa.Parameter) int {
	for i, q := range p.Parent().Params {
		if q == p {
			return i
		}
	}
	return -1
}
func freeIndex(p *ssa.FreeVar) int {
	for i, q := range p.Parent().FreeVars {
		if q == p {
			return i
		}
	}
	return -1
}

func isStrBytesConv(c *ssa.Convert) bool {
	isStr := func(t types.Type) bool {
		b, ok := t.Underlying().(*types.Basic)
		return ok && b.Info()&types.IsString != 0
	}
	isSl := func(t types.Type) bool { _, ok := t.Underlying().(*types.Slice); return ok }
	from, to := c.X.Type(), c.Type()
	return (isStr(from) && isSl(to)) || (isSl(from) && isStr(to)) || (isStr(to) && !isStr(from))
}

// rootsOf: where can the memory v points (in)to come from.
func (a *analysis) rootsOf(v ssa.Value) rootset {
	if v == nil {
		return rootset{}
	}
	if a.visit[v] {
		if m, ok := a.memo[v]; ok {
			return m
		}
		return rootset{}
	}
	switch v.(type) {
	case *ssa.Alloc, *ssa.Global, *ssa.Parameter, *ssa.FreeVar:
	default:
		if !pointerLike(v.Type()) {
			return rootset{}
		}
	}
	a.visit[v] = true
	res := a.rootsOf1(v)
	delete(a.visit, v)
	old := a.memo[v]
	if old == nil {
		old = rootset{}
		a.memo[v] = old
	}
	if old.addAll(res) {
		a.changed = true
	}
	return old
}

func (a *analysis) rootsOf1(v ssa.Value) rootset {
	out := rootset{}
	switch v := v.(type) {
	case *ssa.Alloc, *ssa.MakeSlice, *ssa.MakeMap, *ssa.MakeChan, *ssa.MakeClosure:
		out.add(root{k: kFresh, site: v})
	case *ssa.Const, *ssa.Function, *ssa.Builtin:
	case *ssa.Global:
		out.add(root{k: kGlobal, g: v})
	case *ssa.Parameter:
		if !pointerLike(v.Type()) {
			return out
		}
		out.add(root{k: kParam, fn: v.Parent(), idx: paramIndex(v)})
	case *ssa.FreeVar:
		// a captured variable: the binding at every MakeClosure site of this anonymous function
		// (roots are global: fresh sites by identity, parameters tagged with their function)
		sites := a.closures[v.Parent()]
		k := freeIndex(v)
		if len(sites) == 0 || k < 0 {
			out.add(root{k: kUnknown, why: "free variable of a closure without a visible MakeClosure"})
		}
		for _, mc := range sites {
			if k < len(mc.Bindings) {
				out.addAll(a.rootsOf(mc.Bindings[k]))
			}
		}
	case *ssa.IndexAddr:
		out.addAll(a.rootsOf(v.X))
	case *ssa.FieldAddr:
		out.addAll(a.rootsOf(v.X))
	case *ssa.Slice:
		out.addAll(a.rootsOf(v.X))
	case *ssa.Phi:
		for _, e := range v.Edges {
			out.addAll(a.rootsOf(e))
		}
	case *ssa.Convert:
		if isStrBytesConv(v) {
			out.add(root{k: kFresh, site: v}) // string <-> []byte / []rune conversions copy
		} else {
			out.addAll(a.rootsOf(v.X))
		}
	case *ssa.MultiConvert:
		out.addAll(a.rootsOf(v.X))
		out.add(root{k: kFresh, site: v})
	case *ssa.ChangeType:
		out.addAll(a.rootsOf(v.X))
	case *ssa.ChangeInterface:
		out.addAll(a.rootsOf(v.X))
	case *ssa.MakeInterface:
		out.addAll(a.rootsOf(v.X))
	case *ssa.TypeAssert:
		out.addAll(a.rootsOf(v.X))
	case *ssa.SliceToArrayPointer:
		out.addAll(a.rootsOf(v.X))
	case *ssa.Field:
		out.addAll(a.rootsOf(v.X))
	case *ssa.Index:
		out.addAll(a.rootsOf(v.X))
	case *ssa.Lookup:
		out.addAll(a.rootsOf(v.X))
	case *ssa.Extract:
		out.addAll(a.rootsOf(v.Tuple))
	case *ssa.Next:
		out.addAll(a.rootsOf(v.Iter))
	case *ssa.Range:
		out.addAll(a.rootsOf(v.X))
	case *ssa.BinOp:
		if b, ok := v.Type().Underlying().(*types.Basic); ok && b.Kind() == types.Uintptr {
			out.addAll(a.rootsOf(v.X)) // address arithmetic
			out.addAll(a.rootsOf(v.Y))
		} else {
			out.add(root{k: kFresh, site: v}) // string concatenation
		}
	case *ssa.UnOp:
		switch v.Op {
		case token.MUL:
			out.addAll(a.loadRoots(v.Parent(), v.X))
		case token.ARROW:
			out.add(root{k: kUnknown, why: "value received from a channel"})
		}
	case *ssa.Call:
		out.addAll(a.callResultRoots(v))
	default:
		out.add(root{k: kUnknown, why: fmt.Sprintf("unhandled SSA value %T", v)})
	}
	return out
}

// loadRoots: roots of a pointer-like value loaded from *addr.
func (a *analysis) loadRoots(fn *ssa.Function, addr ssa.Value) rootset {
	out := rootset{}
	field := -1
	var ftype types.Type
	if fa, ok := addr.(*ssa.FieldAddr); ok {
		field, ftype = fa.Field, fa.X.Type()
	}
	for r := range a.rootsOf(addr) {
		if r.k != kFresh {
			out.add(r) // memory reachable from r
			continue
		}
		out.addAll(a.contentRootsField(r.site, field, ftype))
	}
	return out
}

// contentRoots: roots of the pointer-like values stored into the fresh allocation site (any field).
func (a *analysis) contentRoots(fn *ssa.Function, site ssa.Value) rootset {
	return a.contentRootsField(site, -1, nil)
}

// contentRootsField: ... restricted, when the load is of field number [field] of a struct of type [ftype],
// to the stores into that same field (stores whose address is not a field address of that type count always).
func (a *analysis) contentRootsField(site ssa.Value, field int, ftype types.Type) rootset {
	out := rootset{}
	for _, st := range a.storesInto(site) {
		if !pointerLike(st.Val.Type()) {
			continue
		}
		if field >= 0 {
			if fa, ok := st.Addr.(*ssa.FieldAddr); ok && types.Identical(fa.X.Type(), ftype) && fa.Field != field {
				continue
			}
		}
		out.addAll(a.rootsOf(st.Val))
	}
	if a.isEscaped(site) && sitePointsToPointers(site) {
		out.add(root{k: kUnknown, why: "loaded from a local whose address escapes"})
	}
	return out
}

// does the memory allocated at the site hold pointer-like values at all?
func sitePointsToPointers(site ssa.Value) bool {
	switch t := site.Type().Underlying().(type) {
	case *types.Pointer:
		return pointerLike(t.Elem())
	case *types.Slice:
		return pointerLike(t.Elem())
	case *types.Map:
		return pointerLike(t.Elem()) || pointerLike(t.Key())
	}
	return true
}

func siteOwner(site ssa.Value) *ssa.Function {
	if ins, ok := site.(ssa.Instruction); ok {
		return ins.Parent()
	}
	return nil
}

func withNested(fn *ssa.Function, f func(*ssa.Function)) {
	if fn == nil {
		return
	}
	f(fn)
	for _, g := range fn.AnonFuncs {
		withNested(g, f)
	}
}

// storesInto: the stores (in the function that owns the fresh site and in its nested closures, which
// see the site through captured variables) whose address is rooted at the site.
func (a *analysis) storesInto(site ssa.Value) []*ssa.Store {
	var out []*ssa.Store
	withNested(siteOwner(site), func(g *ssa.Function) {
		for _, st := range a.stores[g] {
			if _, ok := a.rootsOf(st.Addr)[root{k: kFresh, site: site}]; ok {
				out = append(out, st)
			}
		}
	})
	return out
}

func (a *analysis) isEscaped(site ssa.Value) bool {
	esc := false
	withNested(siteOwner(site), func(g *ssa.Function) {
		if a.escaped[g][site] {
			esc = true
		}
	})
	return esc
}

// funcTargets: the functions a called function value may denote; ok=false when some source is not visible.
func (a *analysis) funcTargets(v ssa.Value, seen map[ssa.Value]bool) (fns []*ssa.Function, ok bool) {
	if seen[v] {
		return nil, true
	}
	seen[v] = true
	switch v := v.(type) {
	case *ssa.Function:
		return []*ssa.Function{v}, true
	case *ssa.MakeClosure:
		if f, isF := v.Fn.(*ssa.Function); isF {
			return []*ssa.Function{f}, true
		}
	case *ssa.Phi:
		ok = true
		for _, e := range v.Edges {
			f, o := a.funcTargets(e, seen)
			fns = append(fns, f...)
			ok = ok && o
		}
		return fns, ok
	case *ssa.ChangeType:
		return a.funcTargets(v.X, seen)
	case *ssa.UnOp:
		if v.Op != token.MUL {
			return nil, false
		}
		rs := a.rootsOf(v.X)
		if len(rs) == 0 {
			return nil, false
		}
		ok = true
		for r := range rs {
			if r.k != kFresh || a.isEscaped(r.site) {
				return nil, false
			}
			sts := a.storesInto(r.site)
			for _, st := range sts {
				f, o := a.funcTargets(st.Val, seen)
				fns = append(fns, f...)
				ok = ok && o
			}
		}
		return fns, ok
	}
	return nil, false
}

// deepRoots: roots of v plus, transitively, of everything stored into the fresh sites among them.
func (a *analysis) deepRoots(fn *ssa.Function, v ssa.Value) rootset {
	out := rootset{}
	out.addAll(a.rootsOf(v))
	seen := map[ssa.Value]bool{}
	for again := true; again; {
		again = false
		for r := range out {
			if r.k == kFresh && !seen[r.site] {
				seen[r.site] = true
				if out.addAll(a.contentRoots(fn, r.site)) {
					again = true
				}
			}
		}
	}
	return out
}

func (a *analysis) callResultRoots(c *ssa.Call) rootset {
	out := rootset{}
	com := c.Common()
	if b, ok := com.Value.(*ssa.Builtin); ok {
		switch b.Name() {
		case "append":
			out.addAll(a.rootsOf(com.Args[0]))
			out.add(root{k: kFresh, site: c})
		case "min", "max":
			for _, x := range com.Args {
				out.addAll(a.rootsOf(x))
			}
		default:
			out.add(root{k: kFresh, site: c})
		}
		return out
	}
	callee := com.StaticCallee()
	if callee != nil && inModule(callee) && hasBody(callee) {
		e := a.mkEdge(c.Parent(), c, callee)
		for r := range a.ret[callee] {
			out.addAll(a.translate(r, e, c))
		}
		return out
	}
	name := "dynamic call"
	if callee != nil {
		name = short(callee.String())
	} else if com.IsInvoke() {
		name = "interface method " + com.Method.Name()
	}
	if callee != nil && allowListed(callee) {
		// results of the allow-listed read-only functions are freshly built values (strings, ints)
		out.add(root{k: kFresh, site: c})
		return out
	}
	out.add(root{k: kUnknown, why: "result of " + name})
	return out
}

func allowListed(fn *ssa.Function) bool {
	// e.g. bytes.Compare, strings.Builder.WriteString, github.com/openacid/must/enabled.be.True, reflect.Value.Kind
	n := short(fn.String())
	for _, p := range readOnlyExternal {
		if strings.HasPrefix(n, p) {
			return true
		}
	}
	return false
}

// translate a root of the callee's context into the caller's context through edge e.
func (a *analysis) translate(r root, e edge, at ssa.Value) rootset {
	out := rootset{}
	switch r.k {
	case kGlobal, kUnknown:
		out.add(r)
	case kFresh:
		if at != nil {
			out.add(root{k: kFresh, site: at})
		}
	case kParam:
		switch {
		case r.fn != e.callee:
			out.add(r) // a parameter of an enclosing function, seen through a captured variable
		case e.unknownParams || r.idx < 0 || r.idx >= len(e.args):
			out.add(root{k: kUnknown, why: "parameter of a function used as a value"})
		default:
			out.addAll(e.args[r.idx])
		}
	}
	return out
}

func (a *analysis) mkEdge(fn *ssa.Function, call ssa.CallInstruction, callee *ssa.Function) edge {
	com := call.Common()
	e := edge{callee: callee, pos: call.Pos()}
	for _, x := range com.Args {
		e.args = append(e.args, a.deepRoots(fn, x))
	}
	return e
}

// one pass over a function: direct effects, edges, returned roots.
func (a *analysis) scan(fn *ssa.Function) {
	cond := a.cond[fn]
	if cond == nil {
		cond = map[condKey]string{}
		a.cond[fn] = cond
	}
	addCond := func(r root, e effect, chain string) {
		if r.k == kFresh {
			return
		}
		k := condKey{r, e}
		if _, ok := cond[k]; !ok {
			cond[k] = chain
			a.changed = true
		}
	}
	direct := func(kind string, pos token.Pos, dst ssa.Value) {
		if pos == token.NoPos {
			pos = fn.Pos()
		}
		for r := range a.rootsOf(dst) {
			addCond(r, effect{kind, fn, pos}, "")
		}
	}
	var edges []edge
	ret := a.ret[fn]
	if ret == nil {
		ret = rootset{}
		a.ret[fn] = ret
	}
	for _, b := range fn.Blocks {
		for _, ins := range b.Instrs {
			// functions used as values: their parameters may be anything
			for _, op := range ins.Operands(nil) {
				if op == nil || *op == nil {
					continue
				}
				if f, ok := (*op).(*ssa.Function); ok && inModule(f) && hasBody(f) {
					if ci, isCall := ins.(ssa.CallInstruction); isCall && ci.Common().Value == f {
						continue
					}
					edges = append(edges, edge{callee: f, pos: ins.Pos(), unknownParams: true})
				}
			}
			switch ins := ins.(type) {
			case *ssa.Store:
				direct("Store", ins.Pos(), ins.Addr)
			case *ssa.MapUpdate:
				direct("MapUpdate", ins.Pos(), ins.Map)
			case *ssa.Send:
				direct("Send", ins.Pos(), ins.Chan)
			case *ssa.MakeClosure:
				if f, ok := ins.Fn.(*ssa.Function); ok && hasBody(f) {
					edges = append(edges, edge{callee: f, pos: ins.Pos(), unknownParams: true})
				}
			case *ssa.Return:
				for _, x := range ins.Results {
					if ret.addAll(a.deepRoots(fn, x)) {
						a.changed = true
					}
				}
			case *ssa.Panic:
				// the panic value is a result too (a caller that recovers keeps it): it must not point into shared memory
				pos := ins.Pos()
				if pos == token.NoPos {
					pos = fn.Pos()
				}
				for r := range a.deepRoots(fn, ins.X) {
					addCond(r, effect{"Panic", fn, pos}, "")
				}
			}
			ci, ok := ins.(ssa.CallInstruction)
			if !ok {
				continue
			}
			com := ci.Common()
			if bi, ok := com.Value.(*ssa.Builtin); ok {
				switch bi.Name() {
				case "copy", "append", "delete", "clear":
					direct(bi.Name(), ci.Pos(), com.Args[0])
				}
				continue
			}
			callee := com.StaticCallee()
			if callee != nil && inModule(callee) && hasBody(callee) {
				edges = append(edges, a.mkEdge(fn, ci, callee))
				continue
			}
			if callee == nil && !com.IsInvoke() {
				// a called function value: resolved when every source of the value is visible
				if ts, ok := a.funcTargets(com.Value, map[ssa.Value]bool{}); ok && len(ts) > 0 {
					all := true
					for _, t := range ts {
						all = all && inModule(t) && hasBody(t)
					}
					if all {
						for _, t := range ts {
							edges = append(edges, a.mkEdge(fn, ci, t))
						}
						continue
					}
				}
			}
			// outside the module, or dynamically dispatched
			var kind string
			switch {
			case callee != nil && isAmbient(callee):
				pos := ci.Pos()
				if pos == token.NoPos {
					pos = fn.Pos()
				}
				addCond(root{k: kUnknown, why: "process state"}, effect{"ambient:" + short(callee.String()), fn, pos}, "")
				continue
			case callee != nil && allowListed(callee):
				continue
			case callee != nil:
				kind = "extcall:" + short(callee.String())
			case com.IsInvoke():
				kind = "dyncall:interface method " + com.Method.Name()
			default:
				kind = "dyncall:function value"
			}
			pos := ci.Pos()
			if pos == token.NoPos {
				pos = fn.Pos()
			}
			ops := append([]ssa.Value{}, com.Args...)
			if callee == nil {
				ops = append(ops, com.Value)
			}
			for _, x := range ops {
				for r := range a.deepRoots(fn, x) {
					addCond(r, effect{kind, fn, pos}, "")
				}
			}
		}
	}
	a.edges[fn] = edges
	// effects of callees, translated into this function's roots
	for _, e := range edges {
		for k, chain := range a.cond[e.callee] {
			for r := range a.translate(k.r, e, nil) {
				c := short(e.callee.String())
				if chain != "" {
					c += " -> " + chain
				}
				addCond(r, k.e, c)
			}
		}
	}
}

func (a *analysis) prepare(fn *ssa.Function) {
	gr := map[*ssa.Global]bool{}
	for _, b := range fn.Blocks {
		for _, ins := range b.Instrs {
			if st, ok := ins.(*ssa.Store); ok {
				a.stores[fn] = append(a.stores[fn], st)
			}
			if mc, ok := ins.(*ssa.MakeClosure); ok {
				if f, isF := mc.Fn.(*ssa.Function); isF {
					a.closures[f] = append(a.closures[f], mc)
				}
			}
			for _, op := range ins.Operands(nil) {
				if op != nil && *op != nil {
					if g, ok := (*op).(*ssa.Global); ok {
						gr[g] = true
					}
				}
			}
		}
	}
	a.greads[fn] = gr
}

// escaping fresh sites: a local whose address (or a pointer derived from it) is stored, passed to a call,
// sent or boxed may be written elsewhere; loads from it then also yield "unknown".  (Returning it does not
// count: nothing is loaded in this activation after the return.  Capture by a closure is followed exactly.)
func (a *analysis) computeEscapes(fn *ssa.Function) {
	esc := a.escaped[fn]
	if esc == nil {
		esc = map[ssa.Value]bool{}
		a.escaped[fn] = esc
	}
	mark := func(v ssa.Value) {
		for r := range a.rootsOf(v) {
			if r.k == kFresh && !esc[r.site] {
				if _, isAlloc := r.site.(*ssa.Alloc); isAlloc {
					esc[r.site] = true
					a.changed = true
				}
			}
		}
	}
	for _, b := range fn.Blocks {
		for _, ins := range b.Instrs {
			switch ins := ins.(type) {
			case *ssa.Store:
				// stored into memory that is shared or has itself escaped (a local container is followed exactly)
				for r := range a.rootsOf(ins.Addr) {
					if r.k != kFresh || a.isEscaped(r.site) {
						mark(ins.Val)
						break
					}
				}
			case *ssa.MakeInterface:
				mark(ins.X)
			case *ssa.Send:
				mark(ins.X)
			case *ssa.MapUpdate:
				mark(ins.Key)
				mark(ins.Value)
			}
			if ci, ok := ins.(ssa.CallInstruction); ok {
				if _, isB := ci.Common().Value.(*ssa.Builtin); !isB {
					for _, x := range ci.Common().Args {
						mark(x)
					}
				}
			}
		}
	}
}

// ---------------------------------------------------------------------------------------- main

func coqStr(s string) string { return "\"" + strings.ReplaceAll(s, "\"", "\"\"") + "\"" }
func coqList(xs []string) string {
	if len(xs) == 0 {
		return "[]"
	}
	return "[" + strings.Join(xs, "; ") + "]"
}
func coqStrs(xs []string) string {
	q := make([]string, len(xs))
	for i, x := range xs {
		q[i] = coqStr(x)
	}
	return coqList(q)
}
func coqBool(b bool) string {
	if b {
		return "true"
	}
	return "false"
}

func main() { os.Exit(run(os.Args[1:])) }

func splitList(s string) []string {
	var l []string
	for _, x := range strings.Split(s, ",") {
		if x = strings.TrimSpace(x); x != "" {
			l = append(l, x)
		}
	}
	return l
}

func run(args []string) int {
	fs := flag.NewFlagSet("effects", flag.ContinueOnError)
	out := fs.String("o", "", "output Effects.v (default stdout)")
	report := fs.String("report", "", "human-readable report file (function + source position of every shared write)")
	tags := fs.String("tags", "verif", "build tags")
	dir := fs.String("dir", "", "directory to load the packages from (default: current directory)")
	mod := fs.String("mod", "", "module path (default github.com/openacid/low)")
	pk := fs.String("pkgs", "", "comma-separated package names inside the module (default: the five packages of C19)")
	li := fs.String("listed", "", "comma-separated entry functions replacing the listed ones (tests)")
	wi := fs.String("widened", "", "comma-separated entry functions replacing the widened ones (tests)")
	mu := fs.String("mutators", "", "comma-separated entry functions replacing the mutators (tests)")
	if err := fs.Parse(args); err != nil {
		return 2
	}
	if *mod != "" {
		modPath = *mod
		listed, widened, mutators = nil, nil, nil
	}
	if *pk != "" {
		pkgNames = splitList(*pk)
	}
	if *li != "" {
		listed = splitList(*li)
	}
	if *wi != "" {
		widened = splitList(*wi)
	}
	if *mu != "" {
		mutators = splitList(*mu)
	}

	cfg := &packages.Config{
		Mode: packages.NeedName | packages.NeedFiles | packages.NeedCompiledGoFiles | packages.NeedImports |
			packages.NeedDeps | packages.NeedTypes | packages.NeedSyntax | packages.NeedTypesInfo | packages.NeedTypesSizes | packages.NeedModule,
		BuildFlags: []string{"-tags=" + *tags},
		Env:        os.Environ(),
		Dir:        *dir,
	}
	var pats []string
	for _, p := range pkgNames {
		pats = append(pats, modPath+"/"+p)
	}
	pkgs, err := packages.Load(cfg, pats...)
	if err != nil {
		fmt.Fprintln(os.Stderr, "effects: load:", err)
		return 2
	}
	if packages.PrintErrors(pkgs) > 0 {
		return 2
	}
	modDir := ""
	// module-internal dependencies of the five packages get function bodies too
	initial := map[string]*packages.Package{}
	var walk func(p *packages.Package)
	walk = func(p *packages.Package) {
		if _, ok := initial[p.PkgPath]; ok {
			return
		}
		if p.PkgPath == modPath || strings.HasPrefix(p.PkgPath, modPath+"/") {
			initial[p.PkgPath] = p
			if p.Module != nil && modDir == "" {
				modDir = p.Module.Dir
			}
			for _, q := range p.Imports {
				walk(q)
			}
		}
	}
	for _, p := range pkgs {
		walk(p)
	}
	var init0 []*packages.Package
	var paths []string
	for k := range initial {
		paths = append(paths, k)
	}
	sort.Strings(paths)
	for _, k := range paths {
		init0 = append(init0, initial[k])
	}
	prog, _ := ssautil.Packages(init0, ssa.InstantiateGenerics)
	prog.Build()

	a := &analysis{prog: prog, memo: map[ssa.Value]rootset{}, ret: map[*ssa.Function]rootset{},
		cond: map[*ssa.Function]map[condKey]string{}, edges: map[*ssa.Function][]edge{},
		stores: map[*ssa.Function][]*ssa.Store{}, escaped: map[*ssa.Function]map[ssa.Value]bool{},
		greads: map[*ssa.Function]map[*ssa.Global]bool{}, visit: map[ssa.Value]bool{}, closures: map[*ssa.Function][]*ssa.MakeClosure{}}
	byName := map[string]*ssa.Function{}
	for fn := range ssautil.AllFunctions(prog) {
		if inModule(fn) && hasBody(fn) {
			a.fns = append(a.fns, fn)
		}
	}
	// methods of every named type of the module packages, whether or not anything refers to them
	have := map[*ssa.Function]bool{}
	for _, fn := range a.fns {
		have[fn] = true
	}
	var addFn func(fn *ssa.Function)
	addFn = func(fn *ssa.Function) {
		if fn == nil || have[fn] || !inModule(fn) || !hasBody(fn) {
			return
		}
		have[fn] = true
		a.fns = append(a.fns, fn)
		for _, g := range fn.AnonFuncs {
			addFn(g)
		}
	}
	for _, p := range prog.AllPackages() {
		if !(p.Pkg.Path() == modPath || strings.HasPrefix(p.Pkg.Path(), modPath+"/")) {
			continue
		}
		for _, m := range p.Members {
			tn, ok := m.(*ssa.Type)
			if !ok {
				continue
			}
			for _, T := range []types.Type{tn.Type(), types.NewPointer(tn.Type())} {
				ms := prog.MethodSets.MethodSet(T)
				for i := 0; i < ms.Len(); i++ {
					addFn(prog.MethodValue(ms.At(i)))
				}
			}
		}
	}
	sort.Slice(a.fns, func(i, j int) bool { return a.fns[i].String() < a.fns[j].String() })
	for _, fn := range a.fns {
		byName[short(fn.String())] = fn
		a.prepare(fn)
	}
	rounds := 0
	for {
		a.changed = false
		for _, fn := range a.fns {
			a.computeEscapes(fn)
		}
		for _, fn := range a.fns {
			a.scan(fn)
		}
		rounds++
		if !a.changed || rounds > 60 {
			break
		}
	}

	rel := func(pos token.Pos) string {
		p := prog.Fset.Position(pos)
		f := p.Filename
		if modDir != "" {
			if r, err := filepath.Rel(modDir, f); err == nil {
				f = r
			}
		}
		return fmt.Sprintf("%s:%d:%d", f, p.Line, p.Column)
	}
	rootStr := func(owner *ssa.Function, r root) string {
		switch r.k {
		case kParam:
			if r.fn != nil && r.idx >= 0 && r.idx < len(r.fn.Params) {
				return "parameter " + r.fn.Params[r.idx].Name() + " of " + short(r.fn.String())
			}
			return "parameter"
		case kGlobal:
			return "global " + short(r.g.String())
		case kUnknown:
			return "unknown: " + r.why
		}
		return "fresh"
	}

	// reachability
	reach := func(entry *ssa.Function) []*ssa.Function {
		seen := map[*ssa.Function]bool{entry: true}
		work := []*ssa.Function{entry}
		for len(work) > 0 {
			f := work[0]
			work = work[1:]
			for _, e := range a.edges[f] {
				if !seen[e.callee] {
					seen[e.callee] = true
					work = append(work, e.callee)
				}
			}
		}
		var l []*ssa.Function
		for f := range seen {
			l = append(l, f)
		}
		sort.Slice(l, func(i, j int) bool { return l[i].String() < l[j].String() })
		return l
	}

	type group struct {
		name                           string
		want                           []string
		analysed, missing              []string
		reachable                      map[*ssa.Function]bool
		writes, unclassified, callrows []string
		recvWrites                     []string
		retShared                      []string
		ambient                        []string
		greads                         map[*ssa.Global]bool
		rep                            []string
	}
	doGroup := func(name string, want []string, recvOK bool) *group {
		g := &group{name: name, want: want, reachable: map[*ssa.Function]bool{}, greads: map[*ssa.Global]bool{}}
		for _, n := range want {
			fn := byName[n]
			if fn == nil {
				g.missing = append(g.missing, n)
				continue
			}
			g.analysed = append(g.analysed, n)
			for _, f := range reach(fn) {
				g.reachable[f] = true
				for gl := range a.greads[f] {
					g.greads[gl] = true
				}
			}
			// results that alias something shared: a pointer-like result whose memory is not fresh
			var rr []string
			for r := range a.ret[fn] {
				if r.k != kFresh {
					rr = append(rr, rootStr(fn, r))
				}
			}
			sort.Strings(rr)
			for _, d := range rr {
				g.retShared = append(g.retShared, fmt.Sprintf("{| w_entry := %s; w_fn := %s; w_pos := %s; w_kind := %s; w_root := %s; w_chain := %s |}",
					coqStr(n), coqStr(n), coqStr(rel(fn.Pos())), coqStr("Return"), coqStr(d), coqStr("")))
				if n != "sigbits.New" { // documented: the SigBits value keeps the caller's key slice (Properties/C19.v allows exactly this one)
					g.rep = append(g.rep, fmt.Sprintf("RESULT-ALIASES %s: a result of %s (%s) points into %s", n, n, rel(fn.Pos()), d))
				}
			}
			var keys []condKey
			for k := range a.cond[fn] {
				keys = append(keys, k)
			}
			sort.Slice(keys, func(i, j int) bool {
				x, y := keys[i], keys[j]
				if x.e.pos != y.e.pos {
					return x.e.pos < y.e.pos
				}
				if x.e.kind != y.e.kind {
					return x.e.kind < y.e.kind
				}
				return rootStr(fn, x.r) < rootStr(fn, y.r)
			})
			for _, k := range keys {
				chain := a.cond[fn][k]
				row := fmt.Sprintf("{| w_entry := %s; w_fn := %s; w_pos := %s; w_kind := %s; w_root := %s; w_chain := %s |}",
					coqStr(n), coqStr(short(k.e.fn.String())), coqStr(rel(k.e.pos)), coqStr(k.e.kind), coqStr(rootStr(fn, k.r)), coqStr(chain))
				line := fmt.Sprintf("%s: %s in %s at %s through %s", n, k.e.kind, short(k.e.fn.String()), rel(k.e.pos), rootStr(fn, k.r))
				if chain != "" {
					line += " (via " + chain + ")"
				}
				viaRecv := recvOK && fn.Signature.Recv() != nil && k.r.k == kParam && k.r.fn == fn && k.r.idx == 0
				if strings.HasPrefix(k.e.kind, "extcall:") || strings.HasPrefix(k.e.kind, "dyncall:") {
					g.unclassified = append(g.unclassified, row)
					g.rep = append(g.rep, "UNCLASSIFIED "+line)
				} else if strings.HasPrefix(k.e.kind, "ambient:") {
					g.ambient = append(g.ambient, row)
					g.rep = append(g.rep, "AMBIENT-STATE "+line)
				} else if k.e.kind == "Panic" {
					g.retShared = append(g.retShared, row)
					g.rep = append(g.rep, "PANIC-VALUE-ALIASES "+line)
				} else if viaRecv {
					g.recvWrites = append(g.recvWrites, row)
				} else {
					g.writes = append(g.writes, row)
					g.rep = append(g.rep, "SHARED-WRITE "+line)
				}
			}
		}
		return g
	}
	gl := doGroup("listed", listed, false)
	gw := doGroup("widened", widened, false)
	gm := doGroup("mutators", mutators, true)

	// writers of globals (over ALL functions of the loaded module packages)
	writers := map[*ssa.Global]map[*ssa.Function]bool{}
	for _, fn := range a.fns {
		for k := range a.cond[fn] {
			if k.r.k == kGlobal && isWriteKind(k.e.kind) {
				if writers[k.r.g] == nil {
					writers[k.r.g] = map[*ssa.Function]bool{}
				}
				writers[k.r.g][fn] = true
				writers[k.r.g][k.e.fn] = true
			}
		}
	}
	// callers, address-taken
	callers := map[*ssa.Function]map[*ssa.Function]bool{}
	addrTaken := map[*ssa.Function]bool{}
	for _, fn := range a.fns {
		for _, e := range a.edges[fn] {
			if callers[e.callee] == nil {
				callers[e.callee] = map[*ssa.Function]bool{}
			}
			callers[e.callee][fn] = true
			if e.unknownParams {
				addrTaken[e.callee] = true // used as a value / closure: may run whenever the value is called
			}
		}
	}
	isInit := func(fn *ssa.Function) bool {
		if fn.Parent() != nil {
			return false
		}
		return fn.Synthetic == "package initializer" || (fn.Name() == "init" || strings.HasPrefix(fn.Name(), "init#")) && fn.Signature.Recv() == nil
	}
	exported := func(fn *ssa.Function) bool {
		if fn.Parent() != nil || isInit(fn) {
			return false
		}
		return ast.IsExported(fn.Name())
	}
	fnNames := func(m map[*ssa.Function]bool) []string {
		var l []string
		for f := range m {
			l = append(l, short(f.String()))
		}
		sort.Strings(l)
		return l
	}
	// the functions whose "init only" status matters: writers of globals and, transitively, their callers
	need := map[*ssa.Function]bool{}
	var addNeed func(f *ssa.Function)
	addNeed = func(f *ssa.Function) {
		if need[f] {
			return
		}
		need[f] = true
		for c := range callers[f] {
			addNeed(c)
		}
	}
	globalsOf := func(gs ...map[*ssa.Global]bool) []*ssa.Global {
		seen := map[*ssa.Global]bool{}
		var l []*ssa.Global
		for _, m := range gs {
			for g := range m {
				if !seen[g] {
					seen[g] = true
					l = append(l, g)
				}
			}
		}
		sort.Slice(l, func(i, j int) bool { return l[i].String() < l[j].String() })
		return l
	}
	// every package-level variable of the five packages (the exported tables Mask.., BitWord included,
	// whether or not a listed function references it), plus whatever else the analysed functions reference
	pkgGlobals := map[*ssa.Global]bool{}
	for _, p := range prog.AllPackages() {
		for _, want := range pats {
			if p.Pkg.Path() != want {
				continue
			}
			for _, m := range p.Members {
				if g, ok := m.(*ssa.Global); ok && g.Name() != "init$guard" {
					pkgGlobals[g] = true
				}
			}
		}
	}
	allGlobals := globalsOf(gl.greads, gw.greads, gm.greads, pkgGlobals)
	for _, g := range allGlobals {
		for f := range writers[g] {
			addNeed(f)
		}
	}
	var needL []*ssa.Function
	for f := range need {
		needL = append(needL, f)
	}
	sort.Slice(needL, func(i, j int) bool { return needL[i].String() < needL[j].String() })

	// ------------------------------------------------------------------ emit
	var sb strings.Builder
	w := func(f string, x ...interface{}) { fmt.Fprintf(&sb, f, x...) }
	w("(** GENERATED by harness/effects from the Go source (SSA form) - do not edit, do not commit.\n")
	w("    module %s, %d functions analysed, %d rounds to the fixed point.\n", modPath, len(a.fns), rounds)
	w("    Trusted: this translator; the read-only allow-list for functions outside the module:\n      %s *)\n", strings.Join(readOnlyExternal, ", "))
	w("From Coq Require Import List String.\nFrom Low Require Import Spec.EffectTypes.\nImport ListNotations.\nOpen Scope string_scope.\n\n")
	emitGroup := func(g *group, pfx string) {
		w("(** ---- %s functions *)\n", g.name)
		w("Definition %sanalysed : list string :=\n  %s.\n", pfx, coqStrs(g.analysed))
		w("Definition %smissing : list string := %s.\n", pfx, coqStrs(g.missing))
		var rl []string
		for f := range g.reachable {
			rl = append(rl, short(f.String()))
		}
		sort.Strings(rl)
		w("Definition %sreachable : list string :=\n  %s.\n", pfx, coqStrs(rl))
		// call edges among reachable functions (so that Coq re-checks that [reachable] is closed)
		var rows []string
		var fl []*ssa.Function
		for f := range g.reachable {
			fl = append(fl, f)
		}
		sort.Slice(fl, func(i, j int) bool { return fl[i].String() < fl[j].String() })
		for _, f := range fl {
			cs := map[*ssa.Function]bool{}
			for _, e := range a.edges[f] {
				cs[e.callee] = true
			}
			rows = append(rows, fmt.Sprintf("(%s, %s)", coqStr(short(f.String())), coqStrs(fnNames(cs))))
		}
		w("Definition %scalls : list (string * list string) :=\n  %s.\n", pfx, coqList(rows))
		w("Definition %sshared_writes : list swrite :=\n  %s.\n", pfx, coqList(g.writes))
		w("Definition %sunclassified : list swrite :=\n  %s.\n", pfx, coqList(g.unclassified))
		w("Definition %sresults_shared : list swrite :=\n  %s.\n", pfx, coqList(g.retShared))
		w("Definition %sambient_reads : list swrite :=\n  %s.\n", pfx, coqList(g.ambient))
		var inMod, ext []string
		for _, gv := range globalsOf(g.greads) {
			if gv.Pkg != nil && (gv.Pkg.Pkg.Path() == modPath || strings.HasPrefix(gv.Pkg.Pkg.Path(), modPath+"/")) {
				inMod = append(inMod, short(gv.String()))
			} else {
				ext = append(ext, short(gv.String()))
			}
		}
		w("Definition %sglobals_read : list string :=\n  %s.\n", pfx, coqStrs(inMod))
		w("Definition %sexternal_globals_read : list string :=\n  %s.\n\n", pfx, coqStrs(ext))
	}
	emitGroup(gl, "")
	emitGroup(gw, "w_")
	emitGroup(gm, "m_")
	w("(** writes of the mutators that go through their receiver (allowed: one receiver per goroutine) *)\n")
	w("Definition m_receiver_writes : list swrite :=\n  %s.\n\n", coqList(gm.recvWrites))
	w("(** ---- package-level variables: who writes them *)\n")
	var pgl []string
	for _, g := range globalsOf(pkgGlobals) {
		pgl = append(pgl, short(g.String()))
	}
	w("Definition package_globals : list string :=\n  %s.\n", coqStrs(pgl))
	var grows []string
	for _, g := range allGlobals {
		grows = append(grows, fmt.Sprintf("(%s, %s)", coqStr(short(g.String())), coqStrs(fnNames(writers[g]))))
	}
	w("Definition global_writers : list (string * list string) :=\n  %s.\n", coqList(grows))
	var frows []string
	for _, f := range needL {
		frows = append(frows, fmt.Sprintf("{| f_name := %s; f_pos := %s; f_is_init := %s; f_exported := %s; f_addr_taken := %s; f_callers := %s |}",
			coqStr(short(f.String())), coqStr(rel(f.Pos())), coqBool(isInit(f)), coqBool(exported(f)), coqBool(addrTaken[f]), coqStrs(fnNames(callers[f]))))
	}
	w("Definition writer_info : list finfo :=\n  %s.\n", coqList(frows))

	if *out == "" {
		fmt.Print(sb.String())
	} else {
		old, _ := os.ReadFile(*out)
		if string(old) != sb.String() {
			if err := os.MkdirAll(filepath.Dir(*out), 0o755); err != nil {
				fmt.Fprintln(os.Stderr, err)
				return 2
			}
			if err := os.WriteFile(*out, []byte(sb.String()), 0o644); err != nil {
				fmt.Fprintln(os.Stderr, err)
				return 2
			}
		}
	}
	var rep []string
	for _, m := range gl.missing {
		rep = append(rep, "MISSING listed function "+m+" not found in the source")
	}
	rep = append(rep, gl.rep...)
	for _, m := range gw.missing {
		rep = append(rep, "MISSING widened function "+m+" not found in the source")
	}
	rep = append(rep, gw.rep...)
	for _, m := range gm.missing {
		rep = append(rep, "MISSING mutator "+m+" not found in the source")
	}
	rep = append(rep, gm.rep...)
	// the same rule as Spec/EffectTypes.v init_only (the Coq side decides; this is only for the report)
	var initOnly func(f *ssa.Function, depth int) bool
	initOnly = func(f *ssa.Function, depth int) bool {
		if isInit(f) {
			return true
		}
		if depth > len(a.fns) || exported(f) || addrTaken[f] {
			return false
		}
		for c := range callers[f] {
			if !initOnly(c, depth+1) {
				return false
			}
		}
		return true
	}
	for _, g := range allGlobals {
		for f := range writers[g] {
			if !initOnly(f, 0) {
				rep = append(rep, fmt.Sprintf("GLOBAL-WRITER %s is written by %s (%s), which does not run from init alone", short(g.String()), short(f.String()), rel(f.Pos())))
			}
		}
	}
	sort.Strings(rep[len(gl.missing):])
	txt := strings.Join(rep, "\n")
	if txt != "" {
		txt += "\n"
	}
	if *report != "" {
		os.WriteFile(*report, []byte(txt), 0o644)
	}
	fmt.Fprintf(os.Stderr, "effects: %d functions, %d listed (%d missing), %d reachable, %d shared writes, %d unclassified; widened: %d shared writes, %d unclassified; mutators: %d writes through the receiver, %d other shared writes\n",
		len(a.fns), len(gl.analysed), len(gl.missing), len(gl.reachable), len(gl.writes), len(gl.unclassified), len(gw.writes), len(gw.unclassified), len(gm.recvWrites), len(gm.writes))
	return 0
}
