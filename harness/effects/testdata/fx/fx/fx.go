// Package fx is test data for the effect translator: one function per effect class, each named for what
// the translator must say about it (see ../../../main_test.go).
package fx

import (
	"bytes"
	"reflect"
	"runtime"
	"sort"
	"sync"
	"unsafe"
)

var table [8]uint64
var cache = map[int]int{}
var scratch []int
var ready bool
var counter int64
var mu sync.Mutex
var hook func(int)

func init() { fill() }

func fill() {
	for i := range table {
		table[i] = 1 << uint(i)
	}
}

// ---- clean: no shared write

func PureRead(ws []uint64, i int) uint64 { return ws[i] & table[i&7] }

func FreshResult(ws []uint64) []uint64 {
	r := make([]uint64, len(ws))
	copy(r, ws)
	for i := range r {
		r[i] = ^r[i]
	}
	return r
}

func AppendFresh(ws []uint64) []int {
	r := make([]int, 0)
	for i, w := range ws {
		if w != 0 {
			r = append(r, i)
		}
	}
	return r
}

func fillInto(dst []uint64, v uint64) {
	for i := range dst {
		dst[i] = v
	}
}

// a helper that writes through its parameter, handed FRESH memory: not a shared write of the entry
func HelperOnFresh(n int) []uint64 {
	r := make([]uint64, n)
	fillInto(r, 7)
	return r
}

// a recursive closure over local variables (the shape of sigbits.ShardByPrefix)
func ClosureLocal(keys []string) []int {
	out := make([]int, 0)
	var walk func(lo, hi int)
	walk = func(lo, hi int) {
		if hi-lo <= 1 {
			out = append(out, len(keys[lo]))
			return
		}
		mid := (lo + hi) / 2
		walk(lo, mid)
		walk(mid, hi)
	}
	walk(0, len(keys))
	return out
}

type box struct {
	keys []string
	n    []int
}

// builds a fresh struct that keeps the argument (allowed), writes only the fresh part
func FreshStruct(keys []string) *box {
	b := &box{keys: keys, n: make([]int, len(keys))}
	for i := range keys {
		b.n[i] = len(keys[i])
	}
	return b
}

func CompareOnly(a, b []byte) int { return bytes.Compare(a, b) }

func StringToBytesCopy(s string) []byte {
	b := []byte(s)
	if len(b) > 0 {
		b[0] = 'x'
	}
	return b
}

// ---- shared writes

func WriteParam(ws []uint64) { ws[0] = 0 }

func WriteParamRestore(ws []uint64, i int) uint64 {
	saved := ws[i]
	ws[i] &= 0xff
	r := ws[i]
	ws[i] = saved
	return r
}

func WriteGlobalTable(i int) { table[i&7] = 0 }

func MemoCache(i int) int {
	if v, ok := cache[i]; ok {
		return v
	}
	cache[i] = i * i
	return i * i
}

func ScratchBuffer(ws []uint64) []int {
	r := scratch[:0]
	for i, w := range ws {
		if w != 0 {
			r = append(r, i)
		}
	}
	scratch = r
	return append([]int(nil), r...)
}

func LazyInit(i int) uint64 {
	if !ready {
		fill()
		ready = true
	}
	return table[i&7]
}

// the helper handed SHARED memory: a shared write of the entry, through the parameter ws
func HelperOnParam(ws []uint64) { fillInto(ws, 7) }

func CopyIntoParam(dst, src []uint64) { copy(dst, src) }

func AppendToParam(ws []uint64) []uint64 { return append(ws, 1) }

func DeleteFromGlobalMap(i int) { delete(cache, i) }

// writes through the argument kept inside a fresh struct
func WriteThroughFreshStruct(keys []string) {
	b := &box{keys: keys}
	b.keys[0] = ""
}

func (b *box) WriteThroughReceiverField() { b.n[0] = 1 }

// a string's bytes aliased as []byte through unsafe, then written
func UnsafeAliasWrite(s string) {
	b := *(*[]byte)(unsafe.Pointer(&s))
	b[0] = 'x'
}

// ... the same through reflect headers and a uintptr
func HeaderAliasWrite(s string) {
	var bs []byte
	sh := (*reflect.StringHeader)(unsafe.Pointer(&s))
	bh := (*reflect.SliceHeader)(unsafe.Pointer(&bs))
	bh.Data, bh.Len, bh.Cap = sh.Data, sh.Len, sh.Len
	bs[0] = 'x'
}

func ClosureWritesParam(ws []uint64) {
	f := func(i int) { ws[i] = 0 }
	f(0)
}

func GoroutineWritesGlobal() {
	done := make(chan bool)
	go func() { counter++; done <- true }()
	<-done
}

func DeferredWrite(ws []uint64) {
	defer func() { ws[0] = 1 }()
}

// ---- unclassified: shared pointers handed to code the translator does not know

func SortsParam(xs []int) { sort.Ints(xs) }

func LocksGlobalMutex() int64 {
	mu.Lock()
	defer mu.Unlock()
	return counter
}

func CallsHook(i int) {
	if hook != nil {
		hook(i)
	}
}

// ---- results

func ReturnsAliasOfParam(ws []uint64) []uint64 { return ws[1:] }

func ReturnsGlobalSlice() []uint64 { return table[:] }

// ---- panic values and ambient state

type rangeErr struct{ I int }

var oneErr = &rangeErr{}

func outOfRange(i int) *rangeErr {
	oneErr.I = i
	return oneErr
}

// panics with ONE reused package-level error value
func PanicsWithGlobal(ws []uint64, i int) uint64 {
	if i >= len(ws) {
		panic(outOfRange(i))
	}
	return ws[i]
}

func PanicsWithFresh(ws []uint64, i int) uint64 {
	if i >= len(ws) {
		panic(&rangeErr{I: i})
	}
	return ws[i]
}

// the result depends on the CPU count
func UsesGOMAXPROCS(ws []uint64) int { return len(ws) / runtime.GOMAXPROCS(0) }

// ---- mutators: confined to the receiver

type Acc struct {
	Words []uint64
	N     int
}

func (a *Acc) Add(w uint64) {
	a.Words = append(a.Words, w)
	a.N++
}

func (a *Acc) AddCounting(w uint64) {
	a.Words = append(a.Words, w)
	counter++
}
