module example.com/fx

go 1.18
