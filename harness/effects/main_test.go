package main

// Tests of the translator itself on testdata/fx: one function per effect class.
//   cd harness/effects && GOFLAGS=-mod=mod GOPROXY=off go test

import (
	"os"
	"path/filepath"
	"strings"
	"testing"
)

func runFx(t *testing.T, listed, widened, mutators string) (report []string, effects string) {
	t.Helper()
	tmp := t.TempDir()
	out, rep := filepath.Join(tmp, "Effects.v"), filepath.Join(tmp, "report.txt")
	args := []string{"-mod", "example.com/fx", "-dir", "testdata/fx", "-pkgs", "fx", "-o", out, "-report", rep,
		"-listed", listed, "-widened", widened, "-mutators", mutators}
	if rc := run(args); rc != 0 {
		t.Fatalf("translator exit %d", rc)
	}
	b, _ := os.ReadFile(rep)
	e, _ := os.ReadFile(out)
	return strings.Split(strings.TrimSpace(string(b)), "\n"), string(e)
}

var clean = []string{"fx.PureRead", "fx.FreshResult", "fx.AppendFresh", "fx.HelperOnFresh", "fx.ClosureLocal",
	"fx.FreshStruct", "fx.CompareOnly", "fx.StringToBytesCopy", "fx.PanicsWithFresh"}

// entry -> substrings that must all occur in one SHARED-WRITE line of that entry
var dirty = map[string][]string{
	"fx.WriteParam":                    {"Store in fx.WriteParam", "parameter ws of fx.WriteParam"},
	"fx.WriteParamRestore":             {"Store in fx.WriteParamRestore", "parameter ws"},
	"fx.WriteGlobalTable":              {"Store", "global fx.table"},
	"fx.MemoCache":                     {"MapUpdate", "global fx.cache"},
	"fx.ScratchBuffer":                 {"append", "global fx.scratch"},
	"fx.LazyInit":                      {"Store in fx.fill", "global fx.table", "via fx.fill"},
	"fx.HelperOnParam":                 {"Store in fx.fillInto", "parameter ws of fx.HelperOnParam", "via fx.fillInto"},
	"fx.CopyIntoParam":                 {"copy", "parameter dst"},
	"fx.AppendToParam":                 {"append", "parameter ws"},
	"fx.DeleteFromGlobalMap":           {"delete", "global fx.cache"},
	"fx.WriteThroughFreshStruct":       {"Store", "parameter keys"},
	"fx.box.WriteThroughReceiverField": {"Store", "parameter b"},
	"fx.UnsafeAliasWrite":              {"Store", "parameter s"},
	"fx.HeaderAliasWrite":              {"Store", "parameter s"},
	"fx.ClosureWritesParam":            {"Store in fx.ClosureWritesParam$1", "parameter ws of fx.ClosureWritesParam"},
	"fx.GoroutineWritesGlobal":         {"Store in fx.GoroutineWritesGlobal$1", "global fx.counter"},
	"fx.DeferredWrite":                 {"Store in fx.DeferredWrite$1", "parameter ws"},
}

var unclassified = map[string][]string{
	"fx.SortsParam":       {"extcall:sort.Ints", "parameter xs"},
	"fx.LocksGlobalMutex": {"extcall:sync.Mutex.Lock", "global fx.mu"},
	"fx.CallsHook":        {"dyncall:function value"},
}

func hasLine(report []string, kind, entry string, subs []string) bool {
	for _, l := range report {
		if !strings.HasPrefix(l, kind+" "+entry+":") {
			continue
		}
		ok := true
		for _, s := range subs {
			ok = ok && strings.Contains(l, s)
		}
		if ok {
			return true
		}
	}
	return false
}

func TestEffectClasses(t *testing.T) {
	var all []string
	all = append(all, clean...)
	for e := range dirty {
		all = append(all, e)
	}
	for e := range unclassified {
		all = append(all, e)
	}
	all = append(all, "fx.ReturnsAliasOfParam", "fx.ReturnsGlobalSlice", "fx.NoSuchFunction", "fx.PanicsWithGlobal", "fx.UsesGOMAXPROCS")
	report, eff := runFx(t, strings.Join(all, ","), "", "fx.Acc.Add,fx.Acc.AddCounting")
	t.Log("\n" + strings.Join(report, "\n"))
	for _, e := range clean {
		for _, l := range report {
			if e == "fx.FreshStruct" && strings.HasPrefix(l, "RESULT-ALIASES") {
				continue // it keeps its argument, like sigbits.New: reported as such, checked below
			}
			if strings.Contains(l, " "+e+":") {
				t.Errorf("clean function %s is reported: %s", e, l)
			}
		}
	}
	for e, subs := range dirty {
		if !hasLine(report, "SHARED-WRITE", e, subs) {
			t.Errorf("no SHARED-WRITE line for %s containing %v", e, subs)
		}
	}
	for e, subs := range unclassified {
		if !hasLine(report, "UNCLASSIFIED", e, subs) {
			t.Errorf("no UNCLASSIFIED line for %s containing %v", e, subs)
		}
	}
	if !hasLine(report, "RESULT-ALIASES", "fx.ReturnsAliasOfParam", []string{"parameter ws"}) {
		t.Errorf("ReturnsAliasOfParam not reported")
	}
	if !hasLine(report, "RESULT-ALIASES", "fx.FreshStruct", []string{"parameter keys"}) {
		t.Errorf("FreshStruct keeps its argument: not reported")
	}
	if !hasLine(report, "RESULT-ALIASES", "fx.ReturnsGlobalSlice", []string{"global fx.table"}) {
		t.Errorf("ReturnsGlobalSlice not reported")
	}
	if !hasLine(report, "SHARED-WRITE", "fx.PanicsWithGlobal", []string{"Store in fx.outOfRange", "global fx.oneErr"}) {
		t.Errorf("PanicsWithGlobal: store to the reused error value not reported")
	}
	if !hasLine(report, "PANIC-VALUE-ALIASES", "fx.PanicsWithGlobal", []string{"Panic in fx.PanicsWithGlobal", "global fx.oneErr"}) {
		t.Errorf("PanicsWithGlobal: the panic value pointing into a global is not reported")
	}
	if !hasLine(report, "AMBIENT-STATE", "fx.UsesGOMAXPROCS", []string{"ambient:runtime.GOMAXPROCS"}) {
		t.Errorf("UsesGOMAXPROCS not reported")
	}
	found := false
	for _, l := range report {
		found = found || strings.HasPrefix(l, "MISSING listed function fx.NoSuchFunction")
	}
	if !found {
		t.Errorf("missing function not reported")
	}
	// globals written outside init
	for _, g := range []string{"fx.cache", "fx.scratch", "fx.ready", "fx.counter"} {
		ok := false
		for _, l := range report {
			ok = ok || strings.HasPrefix(l, "GLOBAL-WRITER "+g+" ")
		}
		if !ok {
			t.Errorf("no GLOBAL-WRITER line for %s", g)
		}
	}
	// mutators: Add is confined to its receiver, AddCounting is not
	if hasLine(report, "SHARED-WRITE", "fx.Acc.Add", nil) {
		t.Errorf("Acc.Add reported although it writes only through its receiver")
	}
	if !hasLine(report, "SHARED-WRITE", "fx.Acc.AddCounting", []string{"global fx.counter"}) {
		t.Errorf("Acc.AddCounting not reported")
	}
	if !strings.Contains(eff, `w_entry := "fx.Acc.Add"; w_fn := "fx.Acc.Add"`) {
		t.Errorf("receiver writes of Acc.Add not listed in m_receiver_writes")
	}
	// init-only facts: fill is called from init and from LazyInit
	if !strings.Contains(eff, `f_name := "fx.fill"`) || !strings.Contains(eff, `"fx.LazyInit"`) {
		t.Errorf("writer_info lacks fx.fill / its caller fx.LazyInit")
	}
}
