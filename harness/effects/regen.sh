#!/bin/sh
# Regenerates coq/gen/Effects.v (git-ignored) from the Go source of the tree under test.
#   usage: harness/effects/regen.sh [repo-dir]      (default: $VERIF_REPO, else /repo)
# Called by ./check C19 on every run (lib/props.d/C19.py), by setup.sh, and by coq/gen_project.sh when the
# file is missing (fresh clone).  The translator module is copied to build/effects/src[-scratch] with its replace
# directive pointed at the tree (the tree itself is never written to), like ./check does for the harness.
# The report (function + source position of every finding) goes to build/effects/report[-scratch].txt.
set -e
here=$(cd "$(dirname "$0")" && pwd)
root=$(cd "$here/../.." && pwd)
repo=${1:-${VERIF_REPO:-/repo}}
export GOFLAGS=-mod=mod GOPROXY=off GOSUMDB=off GOTOOLCHAIN=local CGO_ENABLED=0
sfx=""
[ "$repo" = "/repo" ] || sfx="-scratch"
src=$root/build/effects/src$sfx
mkdir -p "$src" "$root/coq/gen"
cp "$here/main.go" "$src/main.go"
sed "s#=> /repo#=> $repo#" "$here/go.mod" > "$src/go.mod"
cp "$repo/go.sum" "$src/go.sum"
rm -f "$root/build/effects/report$sfx.txt"
( cd "$src" && go build -o "$root/build/effects/effects$sfx" . ) || exit 3   # the translator itself does not build: a tool error
( cd "$src" && "$root/build/effects/effects$sfx" -o "$root/coq/gen/Effects.v" -report "$root/build/effects/report$sfx.txt" )
