package main

import (
	"fmt"
	"strings"

	"github.com/openacid/low/bitmap"
)

// C15 widened: the same history protocol on a struct literal
// &TailBitmap{Offset: off, Words: words} (users and the package's own tests
// build such values directly; the unexported reclaimed is 0).
//
//	op    bitmap.TailBitmap/literal   args [off, words, [call, ...]]
//
// and the combination users make with the plain bitmap functions on the
// exported Words:
//
//	op    bitmap.TailBitmap/words     args [o, [call, ...], [j, ...]]   (every j >= the final Offset)
//	obs   for each j, with i = int32(j-Offset): below the end of Words
//	      [tb.Get(j), bitmap.Get(Words,i), tb.Get1(j), bitmap.Get1(Words,i), bitmap.SafeGet(Words,i), bitmap.SafeGet1(Words,i)],
//	      at or past the end (where Get panics) [bitmap.SafeGet(Words,i), bitmap.SafeGet1(Words,i)]
func init() {
	Exec["bitmap.TailBitmap/literal"] = func(a []V) string {
		ws := a[1].U64s()
		tb := &bitmap.TailBitmap{Offset: a[0].I64(), Words: append(make([]uint64, 0, len(ws)), ws...)}
		return L(c15Apply(tb, a[2].L)...)
	}
	Exec["bitmap.TailBitmap/words"] = func(a []V) string {
		tb := bitmap.NewTailBitmap(a[0].I64())
		c15Apply(tb, a[1].L)
		out := make([]string, 0, len(a[2].L))
		for _, jv := range a[2].L {
			j := jv.I64()
			i := int32(j - tb.Offset)
			if j < tb.Offset+int64(64*len(tb.Words)) {
				out = append(out, L(U(tb.Get(j)), U(bitmap.Get(tb.Words, i)), U(tb.Get1(j)), U(bitmap.Get1(tb.Words, i)),
					U(bitmap.SafeGet(tb.Words, i)), U(bitmap.SafeGet1(tb.Words, i))))
			} else {
				out = append(out, L(U(bitmap.SafeGet(tb.Words, i)), U(bitmap.SafeGet1(tb.Words, i))))
			}
		}
		return L(out...)
	}
}

// c15Apply runs the protocol calls on tb and returns one observation per call.
func c15Apply(tb *bitmap.TailBitmap, calls []V) []string {
	out := make([]string, 0, len(calls))
	for _, c := range calls {
		var r uint64
		switch c.L[0].Int() {
		case 0:
			tb.Set(c.L[1].I64())
		case 1:
			tb.Compact()
		case 2:
			r = tb.Get(c.L[1].I64())
		case 3:
			r = tb.Get1(c.L[1].I64())
		case 4:
			from, to := c.L[1].I64(), c.L[2].I64()
			for idx := from; idx < to; idx++ {
				tb.Set(idx)
			}
		case 5:
			from, to := c.L[1].I64(), c.L[2].I64()
			for idx := to - 1; idx >= from; idx-- {
				tb.Set(idx)
			}
		default:
			panic("bad call")
		}
		out = append(out, L(I(tb.Offset), U64s(tb.Words), U(r)))
	}
	return out
}

// c15Lit starts the property-level tracker from a literal: the stored bits count as set.
func c15Lit(off int64, ws []uint64) *c15Hist {
	h := c15New(off)
	for i, w := range ws {
		for b := 0; b < 64; b++ {
			if w>>uint(b)&1 == 1 {
				h.set[off+int64(64*i+b)] = true
			}
		}
	}
	h.end = off + int64(64*len(ws))
	for h.set[h.first] {
		h.first++
	}
	return h
}

func c15LitKey(h *c15Hist, ws []uint64) string {
	if h.probeMask&6 != 6 {
		return ""
	}
	lead := 0
	for lead < len(ws) && ws[lead] == ^uint64(0) {
		lead++
	}
	b := func(n int) int {
		if n > 0 {
			return 1
		}
		return 0
	}
	return fmt.Sprintf("lit/w%s/lead%s/adv%d/cmp%d/bulk%d/below%d/pm%d", c15Bucket(len(ws)), c15Bucket(lead), b(h.adv), b(h.compacts), b(h.bulk), b(h.below), h.probeMask)
}

func c15EmitLit(g *Gen, h *c15Hist, ws []uint64, bucket string) {
	g.Stat(bucket)
	g.Do("bitmap.TailBitmap/literal", L(I(h.o), U64s(ws), "["+strings.Join(h.calls, ",")+"]"), c15LitKey(h, ws))
}

func c15LitWord(g *Gen) uint64 {
	ones := ^uint64(0)
	switch g.R.Intn(8) {
	case 0:
		return 0
	case 1, 2:
		return ones
	case 3:
		return ones &^ (1 << uint(g.R.Pick(0, 1, 31, 32, 62, 63)))
	case 4:
		return 1 << uint(g.R.Pick(0, 1, 31, 32, 62, 63))
	case 5:
		return ones &^ (1 << uint(g.R.Intn(64))) &^ (1 << uint(g.R.Intn(64)))
	default:
		return g.R.Word()
	}
}

func genC15Literal(g *Gen) {
	ones := ^uint64(0)
	// (L1) exhaustive: every literal of 0..3 words over a 5-word alphabet, o in {0,64}, followed by every
	// single call of a 9-call alphabet (thorough: every pair), Get and Get1 swept over all edge positions.
	alphaW := []uint64{0, ones, ones &^ 1, ones &^ (1 << 63), 1<<63 | 1}
	var lits [][]uint64
	var rec func(p []uint64)
	rec = func(p []uint64) {
		lits = append(lits, append([]uint64(nil), p...))
		if len(p) == 3 {
			return
		}
		for _, w := range alphaW {
			rec(append(p[:len(p):len(p)], w))
		}
	}
	rec(nil)
	depth := g.N(1, 2)
	for _, o := range []int64{0, -64} {
		type act func(h *c15Hist)
		alpha := []act{
			func(h *c15Hist) { h.Compact() },
			func(h *c15Hist) { h.Set(o) },
			func(h *c15Hist) { h.Set(o + 63) },
			func(h *c15Hist) { h.Set(o + 64) },
			func(h *c15Hist) { h.Set(o + 127) },
			func(h *c15Hist) { h.Set(o + 128) },
			func(h *c15Hist) { h.Set(o - 1) },
			func(h *c15Hist) { h.Set(o + 64*3 + 5) },
			func(h *c15Hist) { h.Up(o+64, o+128) },
		}
		for _, ws := range lits {
			var lev func(prefix []int, l int)
			lev = func(prefix []int, l int) {
				if len(prefix) == l {
					h := c15Lit(o, ws)
					h.sweep(false) // the literal itself, before any call
					for _, a := range prefix {
						alpha[a](h)
						h.sweep(false)
					}
					c15EmitLit(g, h, ws, "lit-exh-small")
					return
				}
				for a := range alpha {
					lev(append(prefix[:len(prefix):len(prefix)], a), l)
				}
			}
			for l := 0; l <= depth; l++ {
				lev(nil, l)
			}
		}
	}
	g.Exhaust = append(g.Exhaust, fmt.Sprintf("literal: all TailBitmap{Offset,Words} with 0..3 words over {0, all-ones, all-ones minus bit 0, all-ones minus bit 63, bits 0 and 63} for Offset in {0,-64}, followed by every sequence of 0..%d calls of a 9-call alphabet, Get and Get1 probed at every word-edge and set-edge position after every call", depth))

	// (L2) structured random literals and histories
	nh := g.N(1200, 12000)
	for k := 0; k < nh; k++ {
		o := int64(64 * g.R.Pick(0, 0, 1, 2, 10, 1000, 1023, 1024, 1025, 2048, 1<<20, 1<<33, -1, -2, -3, -1000, -(1 << 33)))
		n := g.R.Range(0, 6)
		if g.R.Intn(8) == 0 {
			n = g.R.Range(7, 40)
		}
		ws := make([]uint64, n)
		lead := 0
		if g.R.Intn(3) == 0 && n > 0 {
			lead = g.R.Range(1, n)
		}
		for i := range ws {
			if i < lead {
				ws[i] = ones
			} else {
				ws[i] = c15LitWord(g)
				if n >= 7 && g.R.Intn(4) != 0 {
					// long literals: mostly few runs of 1-bits (the checker walks one interval per run)
					ws[i] = []uint64{0, ones, ones &^ (1 << uint(g.R.Intn(64))), 1 << uint(g.R.Intn(64)), ones << uint(g.R.Intn(64))}[g.R.Intn(5)]
				}
			}
		}
		h := c15Lit(o, ws)
		if g.R.Bool() {
			h.randomProbes(g, o, g.R.Range(1, 4))
		}
		nmut := g.R.Range(1, 30)
		if n >= 7 {
			nmut = g.R.Range(1, 12)
		}
		W := int64(n + 2)
		for m := 0; m < nmut; m++ {
			var last int64
			switch g.R.Intn(8) {
			case 0:
				h.Compact()
				last = h.first
			case 1:
				last = o - 1 - int64(g.R.Intn(130))
				h.Set(last)
			case 2:
				// complete the first incomplete word: the next compaction is one single Set away
				last = h.first
				h.Set(last)
			case 3:
				w := o + 64*int64(g.R.Intn(int(W)))
				if g.R.Bool() {
					h.Up(w, w+64)
				} else {
					h.Down(w, w+64)
				}
				last = w + 63
			default:
				last = o + int64(g.R.U64()%uint64(64*W))
				if g.R.Intn(3) == 0 {
					last = o + int64(64*g.R.Intn(int(W))) + int64(g.R.Pick(0, 1, 31, 32, 62, 63))
				}
				h.Set(last)
			}
			h.randomProbes(g, last, g.R.Pick(0, 1, 2, 2))
		}
		if g.R.Intn(3) == 0 && n <= 8 {
			h.sweep(false)
		}
		c15EmitLit(g, h, ws, "lit-rand")
	}

	// (L3) the reclaim bookkeeping from a literal: reclaimed is 0, so with Offset >= 1024 words the very
	// first Compact takes the reclaim branch; with Offset just below, the compaction of the leading
	// all-ones words crosses it; also with a tail longer than 1024 words.
	for _, o := range []int64{64 * 1023, 64 * 1024, 64 * 1025, 64 * 5000} {
		for variant := 0; variant < 3; variant++ {
			var ws []uint64
			switch variant {
			case 0:
				ws = []uint64{ones, ones, 5, 0, 1 << 63}
			case 1:
				ws = []uint64{ones &^ 2, 7}
			default:
				ws = make([]uint64, 1300)
				ws[0] = ones
				ws[1] = ones &^ (1 << 40)
				ws[1299] = 1 << 63
				ws[1025] = 9
			}
			h := c15Lit(o, ws)
			h.randomProbes(g, o, 3)
			h.Compact()
			h.randomProbes(g, o+64, 3)
			h.Probe(3, h.end-1)
			h.Probe(2, h.end-1)
			h.Set(h.first)
			h.randomProbes(g, h.first, 3)
			h.Set(o + 64*int64(len(ws)) + 3)
			h.Compact()
			h.Probe(3, h.end-1)
			h.Probe(3, o+64*int64(len(ws))+3)
			if len(ws) > 1025 {
				h.Probe(3, o+64*1025)
				h.Probe(3, o+64*1025+3)
				h.Probe(3, o+64*1025+1)
				h.Probe(3, o+64*1299+63)
			}
			c15EmitLit(g, h, ws, "lit-reclaim")
		}
	}
}

// genC15Words: a history on NewTailBitmap(o), then tb.Get/Get1 against bitmap.Get/Get1/SafeGet/SafeGet1 on the
// exported Words at positions from Offset up to (and, for the Safe forms, past) the end.
func genC15Words(g *Gen) {
	nh := g.N(600, 10000)
	for k := 0; k < nh; k++ {
		o := int64(64 * g.R.Pick(0, 0, 1, 2, 10, 1000, 1<<20, 1<<33, -1, -2, -5, -(1 << 33)))
		h := c15New(o)
		W := int64(g.R.Range(1, 6))
		nmut := g.R.Range(0, 40)
		for m := 0; m < nmut; m++ {
			switch g.R.Intn(8) {
			case 0:
				h.Compact()
			case 1:
				w := h.offset() + 64*int64(g.R.Intn(int(W)))
				h.Up(w, w+64)
			case 2:
				h.Set(h.first)
			default:
				h.Set(h.offset() - 10 + int64(g.R.U64()%uint64(64*W+10)))
			}
		}
		off := h.offset()
		var js []string
		n1, n0 := 0, 0
		add := func(j int64) {
			if j < off || j >= h.end+200 {
				return
			}
			if j < h.end {
				if h.set[j] {
					n1++
				} else {
					n0++
				}
			}
			js = append(js, I(j))
		}
		for _, j := range []int64{off, off + 1, off + 63, off + 64, h.first, h.first - 1, h.first + 1, h.end - 1, h.end - 64, h.end, h.end + 1, h.end + 63, h.end + 64, h.end + 129} {
			add(j)
		}
		for q := 0; q < 12 && h.end > off; q++ {
			add(off + int64(g.R.U64()%uint64(h.end-off)))
		}
		key := ""
		if n1 > 0 && n0 > 0 {
			key = fmt.Sprintf("words/w%s/adv%d/safe-past-end", c15Bucket(int((h.end-off)/64)), minInt(h.adv, 3))
		}
		g.Stat("words-agree")
		g.Do("bitmap.TailBitmap/words", L(I(o), "["+strings.Join(h.calls, ",")+"]", L(js...)), key)
	}
}
