package main

import (
	"fmt"
	"strings"

	"github.com/openacid/low/bmtree"
)

// C03: SESSION op.  args [T, [[k, q], ...]]: for ONE level mask a sequence of lookups
// executed in order in one process, k = 0: PathToIndexLoose(q), k = 1: PathToIndex(q)
// (q on a stored level).  Observation = list of per-step observations; a panic of one
// step is recorded as that step's P and the session goes on.  Aimed at state that
// couples consecutive calls, also across the two functions (memo of the last lookup,
// debug-only post-conditions comparing a result with the previous one).

func c03Step(T int32, h int32, st V) (out string) {
	defer func() {
		if r := recover(); r != nil {
			out = "P"
		}
	}()
	w := c10Word(h, st.L[1])
	if st.L[0].Int() == 0 {
		i, has := bmtree.PathToIndexLoose(T, w)
		return L(I32(i), I32(has))
	}
	return I32(bmtree.PathToIndex(T, w))
}

func init() {
	sess := func(a []V) string {
		T := a[0].I32()
		h := c03Height(T)
		outs := make([]string, len(a[1].L))
		for i, st := range a[1].L {
			outs[i] = c03Step(T, h, st)
		}
		return L(outs...)
	}
	Exec["bmtree.PathToIndex/session"] = sess
	Exec["bmtree.PathToIndex/session/debug"] = sess
}

type c03Look struct {
	strict bool
	v      uint64
	l      int
}

func c03GenSession(g *Gen) {
	emit := func(T int32, steps []c03Look, bucket, key string) {
		g.Stat("sess-" + bucket)
		xs := make([]string, 0, len(steps))
		for _, s := range steps {
			if s.strict && T>>uint(s.l)&1 == 0 {
				continue // PathToIndex is only claimed on stored levels
			}
			k := 0
			if s.strict {
				k = 1
			}
			xs = append(xs, L(Int(k), c10Node(s.v, s.l)))
		}
		if len(xs) == 0 {
			return
		}
		g.Do("bmtree.PathToIndex/session"+c03Suffix, L(I32(T), "["+strings.Join(xs, ",")+"]"), key)
	}
	// next stored level strictly below l (the top level h is always stored)
	nextStored := func(T int32, l int) int {
		for k := l + 1; ; k++ {
			if T>>uint(k)&1 == 1 {
				return k
			}
		}
	}

	// (S1) exhaustive: every level mask < 2^7 x every node X on an ABSENT level, with Y = the first
	// stored node after X in pre-order (its left-most descendant on the next stored level) and
	// Z = its right-most descendant there: Loose(X) then strict(Y) [same index], the reverse order,
	// Loose(X) Loose(Y), and strict(Z) Loose(X) strict(Y)
	for T := int32(1); T < 1<<7; T++ {
		h := int(c03Height(T))
		for l := 0; l < h; l++ {
			if T>>uint(l)&1 == 1 {
				continue
			}
			k := nextStored(T, l)
			for v := uint64(0); v < 1<<uint(l); v++ {
				X := c03Look{false, v, l}
				Y := c03Look{true, v << uint(k-l), k}
				Z := c03Look{true, v<<uint(k-l) | (1<<uint(k-l) - 1), k}
				key := fmt.Sprintf("sess/absent/%s/l%d/k%d", c03Kind(T), min3(l, 1, h), k-l)
				emit(T, []c03Look{X, Y}, "exh", key)
				emit(T, []c03Look{Y, X}, "exh", key)
				emit(T, []c03Look{X, {false, Y.v, Y.l}}, "exh", key)
				emit(T, []c03Look{Z, X, Y}, "exh", key)
			}
		}
	}
	g.Exhaust = append(g.Exhaust, "sessions: every level mask < 2^7 x every node X of an absent level: Loose(X) then PathToIndex(first stored descendant), the reverse, Loose/Loose, and PathToIndex(last stored descendant) Loose(X) PathToIndex(first)")

	// (S2) every level mask < 2^4: ALL ordered pairs of lookups (Loose on any node, PathToIndex on stored ones)
	for T := int32(1); T < 1<<4; T++ {
		h := int(c03Height(T))
		var all []c03Look
		for l := 0; l <= h; l++ {
			for v := uint64(0); v < 1<<uint(l); v++ {
				all = append(all, c03Look{false, v, l})
				if T>>uint(l)&1 == 1 {
					all = append(all, c03Look{true, v, l})
				}
			}
		}
		for _, a := range all {
			for _, b := range all {
				emit(T, []c03Look{a, b}, "pairs", fmt.Sprintf("sess/pair/%s/%v%v", c03Kind(T), a.strict, b.strict))
			}
		}
	}
	g.Exhaust = append(g.Exhaust, "sessions: every level mask < 2^4 x all ordered pairs of lookups (Loose on any node, PathToIndex on stored ones)")

	// (S3) trie descents and random walks on tall trees
	n := g.N(400, 12000)
	for i := 0; i < n; i++ {
		h := g.R.Range(2, 30)
		if g.R.Intn(3) == 0 {
			h = g.R.Range(20, 30)
		}
		top := uint32(1) << uint(h)
		low := top - 1
		T := top | uint32(g.R.U64())&low
		switch g.R.Intn(5) {
		case 0:
			T = top | uint32(g.R.U64()&g.R.U64())&low
		case 1:
			T = top | low&^(1<<uint(g.R.Intn(h)))
		}
		leaf := g.R.U64() & (uint64(1)<<uint(h) - 1)
		switch g.R.Intn(4) {
		case 0:
			leaf = 0
		case 1:
			leaf = uint64(1)<<uint(h) - 1
		}
		var steps []c03Look
		kind := "descent"
		if g.R.Intn(2) == 0 {
			// descent: Loose at every level, PathToIndex where the level is stored
			for l := 0; l <= h; l++ {
				steps = append(steps, c03Look{false, leaf >> uint(h-l), l})
				if g.R.Intn(2) == 0 {
					steps = append(steps, c03Look{true, leaf >> uint(h-l), l})
				}
			}
		} else {
			kind = "walk"
			l := g.R.Range(0, h)
			v := leaf >> uint(h-l)
			for j := 0; j < 8; j++ {
				steps = append(steps, c03Look{g.R.Intn(2) == 0, v, l})
				switch g.R.Intn(5) {
				case 0: // left-most descendant on the next stored level
					if l < h {
						k := nextStored(int32(T), l)
						v, l = v<<uint(k-l), k
					}
				case 1: // a child
					if l < h {
						v, l = v<<1|uint64(g.R.Intn(2)), l+1
					}
				case 2: // the parent
					if l > 0 {
						v, l = v>>1, l-1
					}
				case 3: // the sibling
					if l > 0 {
						v ^= 1
					}
				}
			}
		}
		emit(int32(T), steps, kind+"-"+c03HB(h), fmt.Sprintf("sess/%s/%s/%s", kind, c03Kind(int32(T)), c03HB(h)))
	}
}
