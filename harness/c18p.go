package main

import (
	"fmt"
	"sort"
	"strings"

	"github.com/openacid/low/iohelper"
	"github.com/openacid/low/pbcmpl"
)

// C18 widening, cross-package: pbcmpl frames placed in ONE file through iohelper,
// the way pbcmpl's own tests and its users combine the two packages.
//
//	pbcmpl.File  [init, kind, [[off, [hasver, ver, payload]] ...]]
//	    for every placement in turn   pbcmpl.Marshal(iohelper.AtToWriter(memfile, off), msg)
//	    then for every placement      pbcmpl.Unmarshal(iohelper.AtToReader(memfile, off), blank)
//	    then repeated Unmarshal through ONE AtToReader at the smallest offset (the frames as a stream)
//	    obs: [[[n, errclass] ...], file content, [[n, version, errclass, payload] ...], [stream steps likewise]]
//
// kind / message helpers / error classes are those of C06 (harness/c06.go).
func init() {
	Exec["pbcmpl.File"] = func(a []V) string {
		m := &c18File{data: append([]byte(nil), a[0].Bytes()...)}
		kind := a[1].Int()
		var mres, ures []string
		for _, pl := range a[2].L {
			msg := c06Msg(kind, pl.L[1])
			n, err := pbcmpl.Marshal(iohelper.AtToWriter(m, pl.L[0].I64()), msg)
			mres = append(mres, L(I(n), Int(c06ErrClass(err))))
		}
		file := Bytes(m.data)
		for _, pl := range a[2].L {
			blank := c06Blank(kind)
			n, ver, err := pbcmpl.Unmarshal(iohelper.AtToReader(m, pl.L[0].I64()), blank)
			var payload []byte
			if err == nil {
				payload = c06Payload(blank)
			}
			ures = append(ures, L(I(n), Str(ver), Int(c06ErrClass(err)), Bytes(payload)))
		}
		// the frames read as a stream: repeated Unmarshal through ONE AtToReader at the smallest offset
		minOff := int64(c18FileLimit)
		for _, pl := range a[2].L {
			if o := pl.L[0].I64(); o < minOff {
				minOff = o
			}
		}
		var sres []string
		r := iohelper.AtToReader(m, minOff)
		for i := 0; i <= len(a[2].L); i++ {
			blank := c06Blank(kind)
			n, ver, err := pbcmpl.Unmarshal(r, blank)
			var payload []byte
			if err == nil {
				payload = c06Payload(blank)
			}
			sres = append(sres, L(I(n), Str(ver), Int(c06ErrClass(err)), Bytes(payload)))
			if err != nil {
				break
			}
		}
		return L(L(mres...), file, L(ures...), L(sres...))
	}
}

// c18pBodyLen: length of the encoded body of a payload of n bytes (kind 1 = BytesValue:
// field tag + varint length + payload, nothing at all for an empty payload)
func c18pBodyLen(kind, n int) int {
	if kind != 1 || n == 0 {
		return n
	}
	l := 1
	for v := n; ; v >>= 7 {
		l++
		if v < 128 {
			break
		}
	}
	return l + n
}

type c18pPlace struct {
	off     int64
	hasver  bool
	ver     string
	payload []byte
	flen    int64 // frame length
}

func genC18Pbcmpl(g *Gen) {
	emit := func(init []byte, kind int, ps []c18pPlace, class, bucket string) {
		// shape: how the frames lie relative to each other and to the initial file
		sorted := append([]c18pPlace(nil), ps...)
		sort.Slice(sorted, func(i, j int) bool { return sorted[i].off < sorted[j].off })
		ev := map[string]bool{}
		end := int64(-1)
		for _, p := range sorted {
			switch {
			case end < 0:
			case p.off == end:
				ev["adj"] = true // back to back
			case p.off < end:
				ev["ovl"] = true // overlapping: an earlier frame is damaged
			default:
				ev["gap"] = true
			}
			if p.off+p.flen > end {
				end = p.off + p.flen
			}
			switch {
			case p.off > int64(len(init)):
				ev["hole"] = true // zero-filled gap after the initial content
			case p.off+p.flen <= int64(len(init)):
				ev["in"] = true // inside the initial content
			default:
				ev["x"] = true // extends the file
			}
			if len(p.payload) == 0 {
				ev["e"] = true
			}
			if p.hasver {
				ev["v"] = true
			}
		}
		for i := range ps {
			if i > 0 && ps[i].off < ps[i-1].off {
				ev["back"] = true // written at descending offsets
			}
		}
		key := ""
		if len(ps) >= 2 { // non-trivial: at least two frames share the file
			var fs []string
			for _, f := range []string{"adj", "ovl", "gap", "hole", "in", "x", "e", "v", "back"} {
				if ev[f] {
					fs = append(fs, f)
				}
			}
			key = fmt.Sprintf("pb/k%d/%s/%s", kind, class, strings.Join(fs, "."))
		}
		g.Stat(bucket)
		pls := make([]string, len(ps))
		for i, p := range ps {
			pls[i] = L(I(p.off), c06MsgText(p.hasver, p.ver, p.payload))
		}
		g.Do("pbcmpl.File", L(Bytes(init), Int(kind), L(pls...)), key)
	}
	mk := func(kind int, off int64, npay int, style int) c18pPlace {
		p := c18pPlace{off: off, payload: c06Payloadgen(g.R, npay)}
		switch style {
		case 0:
		case 1:
			p.hasver, p.ver = true, c06Ver(g.R, g.R.Range(1, 16), 0)
		default:
			p.hasver, p.ver = true, c06Ver(g.R, 16, 0)
		}
		if kind == 2 && len(p.payload) > 0 && p.payload[0] == 0xEE && g.R.Intn(4) != 0 {
			p.payload[0] = 0x11 // mostly accepted by the picky decoder
		}
		p.flen = int64(32 + c18pBodyLen(kind, len(p.payload)))
		return p
	}

	// exhaustive small: two frames with payloads of 0..2 bytes, the second at every offset
	// from 0 to 40 relative to the first (before it, overlapping it, adjacent, after a gap),
	// over an empty / a 50-byte initial file, both write orders (kind 1 = BytesValue: only the
	// placements that do not overlap -- the model's BytesValue decoder covers intact bodies only)
	for _, il := range []int{0, 50} {
		for _, kind := range []int{0, 1, 2} {
			for n1 := 0; n1 <= 2; n1++ {
				for d := int64(0); d <= 40; d += 1 {
					for order := 0; order < 2; order++ {
						a := mk(kind, 3, n1, 0)
						b := mk(kind, d, 1, 1)
						if kind == 1 && d < a.off+a.flen && a.off < d+b.flen {
							continue // a damaged BytesValue body is outside the modelled decoder's domain
						}
						ps := []c18pPlace{a, b}
						if order == 1 {
							ps = []c18pPlace{b, a}
						}
						emit(c18Data(il, 7), kind, ps, "exh", "pb-exh")
					}
				}
			}
		}
	}
	g.Exhaust = append(g.Exhaust, "pbcmpl.File: two frames (payload 0..2 bytes at offset 3; payload 1 byte with a version at every offset 0..40: before / overlapping / adjacent / after a gap) x both write orders x kinds 0,1,2 (kind 1: non-overlapping only) x initial file of 0 / 50 bytes")

	np := g.N(2500, 40000)
	for k := 0; k < np; k++ {
		kind := g.R.Pick(0, 0, 1, 1, 2)
		il := g.R.Pick(0, 0, 10, 100, 300)
		nfr := g.R.Range(1, 6)
		var ps []c18pPlace
		class := "dis"
		mode := g.R.Intn(6)
		if kind == 1 && mode >= 3 {
			mode = g.R.Intn(3) // BytesValue: intact frames only
		}
		cur := int64(g.R.Pick(0, 0, 1, 31, 32, 33, 100))
		for i := 0; i < nfr; i++ {
			npay := g.R.Pick(0, 1, 2, 5, 31, 32, 33, 100, 127, 128, 129, 300)
			if g.R.Intn(20) == 0 {
				npay = g.R.Pick(511, 512, 513, 1023, 1024, 1025, 2100)
			}
			p := mk(kind, cur, npay, g.R.Pick(0, 0, 1, 2))
			ps = append(ps, p)
			switch mode {
			case 0: // back to back
				cur += p.flen
				class = "adj"
			case 1, 2: // gaps
				cur += p.flen + int64(g.R.Range(1, 40))
				class = "dis"
			case 3: // overlapping the previous frame somewhere (negative cases)
				cur += int64(g.R.Intn(int(p.flen)))
				class = "ovl"
			case 4: // same offset again: the last one wins
				class = "same"
			default: // anywhere
				cur = int64(g.R.Range(0, 700))
				class = "any"
			}
		}
		if mode != 3 && mode != 4 && g.R.Intn(3) == 0 {
			// write in a different order than the offsets
			for i := len(ps) - 1; i > 0; i-- {
				j := g.R.Intn(i + 1)
				ps[i], ps[j] = ps[j], ps[i]
			}
		}
		emit(c18Data(il, byte(g.R.Intn(200))), kind, ps, class, "pb-rand-"+class)
	}
	// reading where no frame was written: garbage / zeros / cut frames
	ng := g.N(300, 5000)
	for k := 0; k < ng; k++ {
		kind := g.R.Pick(0, 2)
		a := mk(kind, int64(g.R.Range(0, 64)), g.R.Pick(0, 1, 40, 100), g.R.Pick(0, 1))
		// the second "placement" is a tiny frame far away; the interesting reads are of the first
		// frame's region at shifted offsets, which the op cannot express directly, so instead place a
		// frame whose start cuts into the first one's body: the first reads back damaged
		b := mk(kind, a.off+int64(g.R.Range(1, int(a.flen)-1)), g.R.Pick(0, 3), 0)
		emit(c18Data(g.R.Pick(0, 200), 9), kind, []c18pPlace{a, b}, "cut", "pb-cut")
	}
}
