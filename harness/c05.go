package main

import (
	"fmt"
	"math/bits"
	"os"
	"runtime"
	"strconv"
	"sync"
	"sync/atomic"

	"github.com/openacid/low/bmtree"
)

// C05: IndexToPath inverts the full-tree PathToIndex for heights 0..30.
//
//	bmtree.IndexToPath         [h, idx]       -> [w, i]   w = IndexToPath(h, idx), i = PathToIndex(2^(h+1)-1, w)
//	bmtree.PathToIndex/inverse [h, [b0,b1..]] -> [i, w]   i = PathToIndex(2^(h+1)-1, NewPath(node)), w = IndexToPath(h, i)

func c05Full(h int32) int32 { return int32(uint32(1)<<uint(h+1) - 1) }

func init() {
	Exec["bmtree.IndexToPath"] = func(a []V) string {
		h, idx := a[0].I32(), a[1].I32()
		w := bmtree.IndexToPath(h, idx)
		return L(U(w), I32(bmtree.PathToIndex(c05Full(h), w)))
	}
	Exec["bmtree.PathToIndex/inverse"] = func(a []V) string {
		h := a[0].I32()
		w := c10Word(h, a[1])
		i := bmtree.PathToIndex(c05Full(h), w)
		return L(I32(i), U(bmtree.IndexToPath(h, i)))
	}
	// widened: the accessors on IndexToPath's result, the order of two results, PathToIndexLoose on a full tree
	Exec["bmtree.IndexToPath/fields"] = func(a []V) string {
		w := bmtree.IndexToPath(a[0].I32(), a[1].I32())
		return L(I32(bmtree.PathLen(w)), I32(bmtree.PathHeight(w)), U(bmtree.PathBits(w)), U(bmtree.PathMask(w)), Str(bmtree.PathStr(w)))
	}
	Exec["bmtree.IndexToPath/order"] = func(a []V) string {
		h := a[0].I32()
		wi, wj := bmtree.IndexToPath(h, a[1].I32()), bmtree.IndexToPath(h, a[2].I32())
		switch {
		case wi < wj:
			return "-1"
		case wi > wj:
			return "1"
		}
		return "0"
	}
	Exec["bmtree.PathToIndexLoose/full"] = func(a []V) string {
		h := a[0].I32()
		w := c10Word(h, a[1])
		i, has := bmtree.PathToIndexLoose(c05Full(h), w)
		return L(I32(i), I32(has), U(bmtree.IndexToPath(h, i)))
	}
	Exec["bmtree.AllPaths/full"] = func(a []V) string {
		h := a[0].I32()
		T := c05Full(h)
		ws := make([]uint64, 0, int(T))
		for i := int32(0); i < T; i++ {
			ws = append(ws, bmtree.IndexToPath(h, i))
		}
		return L(U64s(bmtree.AllPaths(T, 0, 1<<63)), U64s(ws))
	}
	// history ops: IndexToPath must be a function of its arguments whatever was called (or scribbled) before
	Exec["bmtree.AllPaths/scribble"] = func(a []V) string {
		hs, h, junk := a[0].I32(), a[1].I32(), a[2].U64()
		ps := bmtree.AllPaths(c05Full(hs), 0, 1<<63)
		listing := U64s(ps)
		for i := range ps { // the caller owns the slice it was handed: overwrite it in place
			ps[i] = junk + uint64(i)
		}
		T := c05Full(h)
		ws := make([]uint64, 0, int(T))
		for i := int32(0); i < T; i++ {
			ws = append(ws, bmtree.IndexToPath(h, i))
		}
		return L(listing, U64s(ws))
	}
	Exec["bmtree.IndexToPath/session"] = func(a []V) string {
		h := a[0].I32()
		idx := make([]int32, 0, len(a[1].L))
		for _, i := range a[1].L {
			idx = append(idx, i.I32())
		}
		walk := func() []uint64 {
			ws := make([]uint64, 0, len(idx))
			for _, i := range idx {
				ws = append(ws, bmtree.IndexToPath(h, i))
			}
			return ws
		}
		ws := walk()
		if len(idx) >= 64 {
			// long sessions (consecutive indices): the SAME session is then issued by several goroutines at
			// once (released together, several rounds); every one of them is an ordinary caller, so each
			// must get what the lone caller got. The first walk that differs is the observation.
			for round := 0; round < 4; round++ {
				const K = 6
				res := make([][]uint64, K)
				var ready, done sync.WaitGroup
				start := make(chan struct{})
				ready.Add(K)
				done.Add(K)
				var arrived int64
				lockstep := round%2 == 0 // even rounds: all K callers make their j-th call at the same moment
				for k := 0; k < K; k++ {
					go func(k int) {
						defer done.Done()
						ready.Done()
						<-start
						if !lockstep {
							res[k] = walk()
							return
						}
						out := make([]uint64, 0, len(idx))
						for j, i := range idx {
							atomic.AddInt64(&arrived, 1)
							for spin := 0; atomic.LoadInt64(&arrived) < int64(K*(j+1)); spin++ {
								if spin&63 == 63 {
									runtime.Gosched()
								}
							}
							out = append(out, bmtree.IndexToPath(h, i))
						}
						res[k] = out
					}(k)
				}
				ready.Wait()
				close(start)
				done.Wait()
				for k := 0; k < K; k++ {
					for j := range ws {
						if res[k][j] != ws[j] {
							return U64s(res[k])
						}
					}
				}
			}
		}
		return U64s(ws)
	}
	Exec["bmtree.PathToIndex/then-IndexToPath"] = func(a []V) string {
		T := a[0].I32()
		h := c03Height(T)
		N := int64(1)<<uint(h+1) - 1
		or0 := func(i int64) string {
			if i < 0 || i >= N {
				return U(0)
			}
			return U(bmtree.IndexToPath(h, int32(i)))
		}
		out := make([]string, 0, len(a[1].L))
		for _, q := range a[1].L {
			w := c10Word(h, q)
			pos, has := bmtree.PathToIndexLoose(T, w)
			pos2 := int32(-1)
			if has == 1 {
				pos2 = bmtree.PathToIndex(T, w)
			}
			p := int64(pos)
			out = append(out, L(I32(pos), I32(has), I32(pos2), or0(p-1), or0(p), or0(p+1)))
		}
		return L(out...)
	}
	Exec["bmtree.Height/full"] = func(a []V) string { return I32(bmtree.Height(c05Full(a[0].I32()))) }
	Register("C05", genC05)
}

func c05HB(h int) string {
	switch {
	case h <= 4:
		return "h0-4" // table only, no shortcut
	case h <= 12:
		return "h5-12"
	case h <= 20:
		return "h13-20"
	case h <= 29:
		return "h21-29"
	}
	return "h30"
}

func c05B(n int) string {
	switch {
	case n <= 2:
		return fmt.Sprint(n)
	case n <= 4:
		return "3-4"
	case n <= 8:
		return "5-8"
	case n <= 16:
		return "9-16"
	}
	return "17+"
}

// c05Rank is the pre-order index of the l-bit node v in the full tree of height h
// (generation only: aims indices at nodes of a chosen shape).
func c05Rank(h, l int, v uint64) int64 {
	idx := int64(0)
	for i := 0; i < l; i++ {
		if v>>uint(l-1-i)&1 == 1 {
			idx += int64(1) << uint(h-i)
		} else {
			idx++
		}
	}
	return idx
}

// c05Shape describes which branches of IndexToPath the input (h, idx) takes:
// shortcut taken / how many levels it fixes / how many levels the loop walks /
// why the loop ends (index reached 0, or the table takes the last <= 3 levels).
// It walks the textbook descent; it does not call the code under test.
func c05Shape(h int, idx int64) string {
	if idx == 0 {
		return "" // the root: trivial
	}
	fixed := 0
	if h > 4 && idx-int64(h) >= 0 {
		d := bits.Len64(uint64((idx - int64(h)) ^ idx))
		if h+1-d > 0 {
			fixed = h + 1 - d
		}
	}
	sc := "nosc"
	if h <= 4 {
		sc = "small"
	} else if fixed > 0 {
		sc = "sc" + c05B(fixed)
	}
	// descent: levels walked after the shortcut until index 0 or height <= 3
	hh, i, l := h, idx, 0
	ones := 0
	for i > 0 && hh > 0 {
		if i < int64(1)<<uint(hh) {
			i--
		} else {
			i -= int64(1) << uint(hh)
			ones++
		}
		hh--
		l++
	}
	// l = node length; the loop walks levels fixed..min(l, h-3)
	loop := 0
	end := "zero"
	if h <= 3 {
		end = fmt.Sprintf("tbl%d", l) // the whole node comes from the table
	} else if l > h-3 {
		end = fmt.Sprintf("tbl%d", l-(h-3)) // the table supplies that many levels
		if h-3-fixed > 0 {
			loop = h - 3 - fixed
		}
	} else if l-fixed > 0 {
		loop = l - fixed
	}
	if l < fixed {
		end = "sc-overshoot" // cannot happen for a correct shortcut
	}
	pb := "mix"
	switch {
	case ones == 0:
		pb = "left"
	case ones == l:
		pb = "right"
	}
	return fmt.Sprintf("%s/%s/loop%s/%s/%s", c05HB(h), sc, c05B(loop), end, pb)
}

// c05WF: w is the word of a node of a tree of height h.
func c05WF(h int32, w uint64) bool {
	m, p := uint32(w), uint32(w>>32)
	l := bits.OnesCount32(m)
	if l > int(h) {
		return false
	}
	want := (uint32(1)<<uint(l) - 1) << uint(int(h)-l)
	return m == want && p&^m == 0
}

// c05Sweep runs the real round trip on every index of the full tree of every height lo..hi and
// returns (pairs tried, the first failing (h, idx) pairs).  Failing-input search only.
func c05Sweep(lo, hi int) (uint64, [][2]int64) {
	type chunk struct {
		h    int32
		from int64
		to   int64
	}
	var mu sync.Mutex
	var bad [][2]int64
	var total uint64
	ch := make(chan chunk, 64)
	var wg sync.WaitGroup
	// One worker by default: the harness is built with -cover and the coverage counters of the swept
	// functions are shared cache lines; 4 or 16 workers were measured 8x SLOWER than 1 (20 ns per pair
	// single-threaded, 85 s for all 2^32-33 pairs).  VERIF_C05_WORKERS overrides.
	nw := 1
	if v, err := strconv.Atoi(os.Getenv("VERIF_C05_WORKERS")); err == nil && v > 0 {
		nw = v
	}
	for k := 0; k < nw; k++ {
		wg.Add(1)
		go func() {
			defer wg.Done()
			for c := range ch {
				T := c05Full(c.h)
				nbad := 0
				for i := c.from; i < c.to && nbad < 3; i++ {
					ok := func() (ok bool) {
						defer func() {
							if recover() != nil {
								ok = false
							}
						}()
						w := bmtree.IndexToPath(c.h, int32(i))
						return c05WF(c.h, w) && bmtree.PathToIndex(T, w) == int32(i)
					}()
					if !ok {
						nbad++
						mu.Lock()
						bad = append(bad, [2]int64{int64(c.h), i})
						mu.Unlock()
					}
				}
				mu.Lock()
				total += uint64(c.to - c.from)
				mu.Unlock()
			}
		}()
	}
	for h := lo; h <= hi; h++ {
		n := int64(1)<<uint(h+1) - 1
		const step = 1 << 22
		for from := int64(0); from < n; from += step {
			to := from + step
			if to > n {
				to = n
			}
			ch <- chunk{int32(h), from, to}
		}
	}
	close(ch)
	wg.Wait()
	return total, bad
}

func genC05(g *Gen) {
	seen := map[[2]int64]bool{}
	last := map[int]int64{}
	nfields := 0
	order := func(h int, i, j int64) {
		g.Stat("order")
		key := ""
		if i != 0 && j != 0 {
			rel := "eq"
			if i < j {
				rel = "lt"
			} else if i > j {
				rel = "gt"
			}
			near := "far"
			if d := i - j; d >= -1 && d <= 1 {
				near = "adjacent"
			}
			key = fmt.Sprintf("order/%s/%s/%s", c05HB(h), rel, near)
		}
		g.Do("bmtree.IndexToPath/order", L(Int(h), I(i), I(j)), key)
	}
	emit := func(h int, idx int64, bucket string) {
		n := int64(1)<<uint(h+1) - 1
		if h < 0 || h > 30 || idx < 0 || idx >= n {
			return
		}
		k := [2]int64{int64(h), idx}
		if seen[k] {
			return
		}
		seen[k] = true
		g.Stat(bucket)
		sh := c05Shape(h, idx)
		g.Do("bmtree.IndexToPath", L(Int(h), I(idx)), sh)
		// widened ops on the same input: always for small trees and boundary cases, 1 in 4 otherwise
		if h <= 8 || bucket[0] == 'e' && h >= 13 && (nfields%3 == 0) || bucket[0] == 'r' && nfields%4 == 0 {
			key := ""
			if sh != "" {
				key = "fields/" + sh
			}
			g.Do("bmtree.IndexToPath/fields", L(Int(h), I(idx)), key)
		}
		nfields++
		// order: against the previous index emitted for this height, the neighbour and itself
		if prev, ok := last[h]; ok && (h <= 6 || nfields%5 == 0) {
			order(h, idx, prev)
			order(h, idx, idx)
			if idx+1 < n {
				order(h, idx+1, idx)
			}
		}
		last[h] = idx
	}
	inverse := func(h, l int, v uint64, bucket string) {
		g.Stat(bucket)
		key := ""
		if l > 0 {
			key = "inv/" + c05Shape(h, c05Rank(h, l, v))
		}
		g.Do("bmtree.PathToIndex/inverse", L(Int(h), c10Node(v, l)), key)
		if key != "" {
			key = "loose" + key[3:]
		}
		g.Do("bmtree.PathToIndexLoose/full", L(Int(h), c10Node(v, l)), key)
	}

	for h := 0; h <= 30; h++ {
		g.Stat("height")
		g.Do("bmtree.Height/full", L(Int(h)), fmt.Sprintf("height/%d", h))
	}
	g.Exhaust = append(g.Exhaust, "Height(2^(h+1)-1) for every h in 0..30")

	genC05History(g)

	hmax := g.N(10, 13)
	for h := 0; h <= hmax; h++ {
		g.Stat("allpaths-full")
		g.Do("bmtree.AllPaths/full", L(Int(h)), fmt.Sprintf("allpaths/%d", h))
	}
	g.Exhaust = append(g.Exhaust, fmt.Sprintf("AllPaths(2^(h+1)-1, 0, 1<<63) next to [IndexToPath(h,i)]_i for every h in 0..%d", hmax))

	// (1) exhaustive: heights 0..12 x every index (this includes the whole idxToPath table through the API)
	for h := 0; h <= 12; h++ {
		for idx := int64(0); idx < int64(1)<<uint(h+1)-1; idx++ {
			emit(h, idx, "exh-index")
		}
	}
	g.Exhaust = append(g.Exhaust, "IndexToPath + PathToIndex round trip: heights 0..12 x every index (16370 cases)")
	// every node of heights 0..8 through the inverse direction
	for h := 0; h <= 8; h++ {
		for l := 0; l <= h; l++ {
			for v := uint64(0); v < 1<<uint(l); v++ {
				inverse(h, l, v, "exh-node")
			}
		}
	}
	g.Exhaust = append(g.Exhaust, "PathToIndex / PathToIndexLoose then IndexToPath: heights 0..8 x every node")
	// every ordered pair of indices of heights 0..4
	for h := 0; h <= 4; h++ {
		n := int64(1)<<uint(h+1) - 1
		for i := int64(0); i < n; i++ {
			for j := int64(0); j < n; j++ {
				order(h, i, j)
			}
		}
	}
	g.Exhaust = append(g.Exhaust, "order of IndexToPath results: heights 0..4 x every ordered pair of indices; accessors on the result: heights 0..8 x every index")

	// (2) boundaries for heights 13..30: first/last indices, 2^k + d with |d| <= h+1 (the shortcut compares
	//     index-h with index: carries across bit k change diffbits), all-left / all-right spines
	for h := 13; h <= 30; h++ {
		n := int64(1)<<uint(h+1) - 1
		for d := int64(0); d <= int64(h)+2; d++ {
			emit(h, d, "edge-first")
			emit(h, n-1-d, "edge-last")
		}
		ds := []int64{0, 1, -1, 2, -2, int64(h), -int64(h), int64(h) - 1, 1 - int64(h), int64(h) + 1, -int64(h) - 1}
		if g.Thorough {
			ds = ds[:0]
			for d := -int64(h) - 1; d <= int64(h)+1; d++ {
				ds = append(ds, d)
			}
		}
		for k := 0; k <= h+1; k++ {
			for _, d := range ds {
				emit(h, int64(1)<<uint(k)+d, "edge-pow2")
			}
		}
		for l := 1; l <= h; l++ {
			ones := uint64(1)<<uint(l) - 1
			for _, v := range []uint64{0, ones, ones >> 1, ones &^ (ones >> 1), 0xaaaaaaaaaaaaaaaa & ones, 0x5555555555555555 & ones} {
				emit(h, c05Rank(h, l, v), "edge-spine")
			}
		}
	}
	g.Exhaust = append(g.Exhaust, "heights 13..30: indices 0..h+2, last h+3 indices, 2^k+d for every k and d in {0,+-1,+-2,+-(h-1),+-h,+-(h+1)} (thorough: every |d| <= h+1), 6 extreme nodes of every length")

	// (3) random, heights 13..30 (5..12 sometimes: the shortcut on small trees)
	n := g.N(6000, 250000)
	for k := 0; k < n; k++ {
		h := g.R.Range(13, 30)
		switch g.R.Intn(8) {
		case 0, 1:
			h = 30
		case 2:
			h = g.R.Range(5, 12)
		}
		N := int64(1)<<uint(h+1) - 1
		switch g.R.Intn(6) {
		case 0: // uniform index
			emit(h, int64(g.R.U64()%uint64(N)), "rand-index-"+c05HB(h))
		case 1: // a random node of a random length (uniform indices are almost all deep nodes)
			l := g.R.Range(1, h)
			emit(h, c05Rank(h, l, g.R.U64()&(1<<uint(l)-1)), "rand-node-"+c05HB(h))
		case 2: // long common prefix of index-h and index: low bits of the index just above h
			hi := int64(g.R.U64()%uint64(N)) &^ (int64(1)<<uint(g.R.Range(5, h)) - 1)
			emit(h, hi+int64(h)+int64(g.R.Intn(40))-2, "rand-longprefix-"+c05HB(h))
		case 3: // the shortcut ends exactly at the node / a few levels above it
			l := g.R.Range(1, h)
			v := g.R.U64() & (1<<uint(l) - 1)
			z := g.R.Intn(4)
			if z < l {
				v = v >> uint(z) << uint(z) // node ends with z left turns
			}
			emit(h, c05Rank(h, l, v), "rand-endzeros-"+c05HB(h))
		case 4: // sparse / dense paths
			l := g.R.Range(1, h)
			v := g.R.U64() & g.R.U64() & g.R.U64()
			if g.R.Bool() {
				v = g.R.U64() | g.R.U64() | g.R.U64()
			}
			emit(h, c05Rank(h, l, v&(1<<uint(l)-1)), "rand-sparsedense-"+c05HB(h))
		default: // inverse direction on a random node
			l := g.R.Range(0, h)
			switch g.R.Intn(5) {
			case 0:
				l = h
			case 1:
				l = g.R.Pick(0, 1, h-1, h-2, h-3, h-4)
			}
			inverse(h, l, g.R.U64()&(1<<uint(l)-1), "rand-inverse-"+c05HB(h))
		}
	}

	// (4) Go-side sweep of the real round trip (failing-input search; every failure becomes a case line
	//     judged by the extracted checker).  quick: every index of heights 13..21; thorough: all 2^32-33 pairs.
	lo, hi := 13, 21
	if g.Thorough {
		lo, hi = 0, 30
	}
	if v := os.Getenv("VERIF_C05_SWEEP"); v != "" { // experiments: "lo,hi"
		fmt.Sscanf(v, "%d,%d", &lo, &hi)
	}
	total, bad := c05Sweep(lo, hi)
	g.Stats["sweep-pairs"] = int(total)
	g.Stats["sweep-failures"] = len(bad)
	for i, b := range bad {
		if i >= 40 {
			break
		}
		emit(int(b[0]), b[1], "sweep-failure")
	}
	g.Exhaust = append(g.Exhaust, fmt.Sprintf("Go-side sweep (well-formed word and PathToIndex(IndexToPath(h,i)) == i) of every index of heights %d..%d: %d pairs, %d failures (failures are emitted as cases)", lo, hi, total, len(bad)))
}

// genC05History: cases whose point is the HISTORY, not the input (hidden caches, memoised or shared
// tables, warm-ups from other functions).  Generated first so that everything after them also runs on
// whatever state they left behind.
func genC05History(g *Gen) {
	// (a) a caller overwrites the listing AllPaths returned for a tiny full bitmap, then IndexToPath
	//     is listed for every index of heights 0..7 (rows of the lookup table = listings of heights 0..3)
	for hs := 0; hs <= 8; hs++ {
		for _, h := range []int{0, 1, 2, 3, 4, 5, 6, 7} {
			if hs > 3 && h != 4 && h != 7 {
				continue
			}
			junk := []uint64{0, ^uint64(0), 0xdeadbeefcafe0000}[(hs+h)%3]
			g.Stat("hist-scribble")
			g.Do("bmtree.AllPaths/scribble", L(Int(hs), Int(h), U(junk)), fmt.Sprintf("scribble/%d/%d", hs, h))
		}
	}
	g.Exhaust = append(g.Exhaust, "AllPaths listing of the full bitmap of height 0..3 (and 4..8) overwritten in place by the caller, then IndexToPath listed for every index of heights 0..7")

	// (b) consecutive IndexToPath calls on one height whose indices differ by multiples of 2^k
	//     (k = 20..30: truncated cache keys / tags), in both orders, and i j i repetitions
	for h := 21; h <= 30; h++ {
		N := int64(1)<<uint(h+1) - 1
		bases := []int64{0, 1, 2, 3, 4, 5, 6, 7, int64(h), int64(g.R.U64() % (1 << 20)), int64(g.R.U64() % (1 << 20))}
		for k := 20; k <= h; k++ {
			if h >= 27 && k != 27 && k != 26 && k != 28 && g.R.Intn(3) != 0 {
				continue
			}
			if h < 27 && g.R.Intn(4) != 0 {
				continue
			}
			for _, b := range bases {
				var xs []string
				var rev []string
				for j := int64(0); b+j<<uint(k) < N && j < 16; j++ {
					xs = append(xs, I(b+j<<uint(k)))
					rev = append([]string{I(b + j<<uint(k))}, rev...)
				}
				if len(xs) < 2 {
					continue
				}
				g.Stat("hist-session")
				g.Do("bmtree.IndexToPath/session", L(Int(h), L(xs...)), fmt.Sprintf("session/%s/2^%d/%d", c05HB(h), k, len(xs)))
				g.Do("bmtree.IndexToPath/session", L(Int(h), L(rev...)), fmt.Sprintf("session/%s/2^%d/rev%d", c05HB(h), k, len(xs)))
			}
		}
	}
	// consecutive ascending indices (a pre-order scan of the full tree), long enough for the executor to
	// issue the same scan from several goroutines at once: a cursor / "next path" shortcut kept between calls
	for n := 0; n < g.N(8, 60); n++ {
		h := g.R.Range(5, 24)
		N := int64(1)<<uint(h+1) - 1
		ln := int64(g.R.Range(64, 3000))
		if ln > N {
			ln = N
		}
		b := int64(g.R.U64() % uint64(N-ln+1))
		if n%4 == 0 {
			b = 0
		}
		if n%4 == 1 {
			b = N - ln
		}
		var xs []string
		for j := int64(0); j < ln; j++ {
			xs = append(xs, I(b+j))
		}
		g.Stat("hist-session-scan")
		g.Do("bmtree.IndexToPath/session", L(Int(h), L(xs...)), fmt.Sprintf("session/%s/scan%d", c05HB(h), ln))
	}
	// i j i j on random pairs of every height > 4
	for n := 0; n < g.N(200, 4000); n++ {
		h := g.R.Range(5, 30)
		N := uint64(1)<<uint(h+1) - 1
		i, j := int64(g.R.U64()%N), int64(g.R.U64()%N)
		if g.R.Bool() { // same low byte of the key
			j = (j &^ 7) | (i & 7)
			if uint64(j) >= N {
				j = i
			}
		}
		g.Stat("hist-session")
		g.Do("bmtree.IndexToPath/session", L(Int(h), L(I(i), I(j), I(i), I(j))), "session/"+c05HB(h)+"/ijij")
	}

	// (c) PathToIndexLoose / PathToIndex on partial, leaf-only and full masks, then IndexToPath of the
	//     same height at the positions just returned and their neighbours
	then := func(T int32, nodes []string, bucket string) {
		g.Stat(bucket)
		h := int(c03Height(T))
		g.Do("bmtree.PathToIndex/then-IndexToPath", L(I32(T), L(nodes...)), fmt.Sprintf("then/%s/%s", c03Kind(T), c05HB(h)))
	}
	for T := int32(1); T < 1<<7; T++ {
		h := int(c03Height(T))
		var nodes []string
		for l := 0; l <= h; l++ {
			for v := uint64(0); v < 1<<uint(l); v++ {
				nodes = append(nodes, c10Node(v, l))
			}
		}
		then(T, nodes, "hist-then-exh")
	}
	g.Exhaust = append(g.Exhaust, "every level mask T in [1,2^7) x every node: PathToIndexLoose/PathToIndex(T, node), then IndexToPath(Height T, pos-1 | pos | pos+1)")
	for n := 0; n < g.N(300, 6000); n++ {
		h := g.R.Range(7, 30)
		if g.R.Intn(6) == 0 {
			h = g.R.Range(5, 6)
		}
		top := uint32(1) << uint(h)
		low := top - 1
		var T uint32
		switch g.R.Intn(7) {
		case 0:
			T = top | low
		case 1:
			T = top
		case 2:
			T = top | uint32(g.R.U64()&g.R.U64()&g.R.U64())&low
		case 3:
			T = (top | low) &^ (1 << uint(g.R.Intn(h)))
		case 4:
			T = top | 1<<uint(g.R.Intn(h))
		case 5:
			T = top | 1 // leaf level and root
		default:
			T = top | uint32(g.R.U64())&low
		}
		var nodes []string
		for j := g.R.Range(4, 12); j > 0; j-- {
			l := g.R.Range(0, h)
			switch g.R.Intn(5) {
			case 0:
				l = h
			case 1:
				l = g.R.Pick(0, 1, 2, h-1)
			}
			v := g.R.U64() & (1<<uint(l) - 1)
			switch g.R.Intn(6) {
			case 0:
				v = 0
			case 1:
				v = 1<<uint(l) - 1
			case 2:
				v &= 7 // near the left edge: small positions
			}
			nodes = append(nodes, c10Node(v, l))
		}
		then(int32(T), nodes, "hist-then-rand")
	}
}
