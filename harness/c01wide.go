package main

// C01 widening: any-int32-position queries, law bundles, two-piece bitmaps, side-by-side indexes,
// histories over several bitmaps with in-place overwrites, and large bitmaps (2^10 .. 2^17 bits,
// counts crossing 2^8 / 2^15 / 2^16).

import (
	"fmt"
	"sort"
	"strings"
	"sync"

	"github.com/openacid/low/bitmap"
)

// c01Query builds the index of flavour f (0: IndexRank64, 1: IndexRank64 trailing, 2: IndexRank128)
// and queries it; a panic inside is rendered as P.
func c01Query(ws []uint64, f int, i int32) string {
	return try(func() string {
		var c, b int32
		switch f {
		case 0:
			c, b = bitmap.Rank64(ws, bitmap.IndexRank64(ws), i)
		case 1:
			c, b = bitmap.Rank64(ws, bitmap.IndexRank64(ws, true), i)
		default:
			c, b = bitmap.Rank128(ws, bitmap.IndexRank128(ws), i)
		}
		return L(I32(c), I32(b))
	})
}

type c01Held struct {
	ws   []uint64
	i64  []int32
	i64t []int32
	i128 []int32
	flip bool
}

func c01Build(ws []uint64) *c01Held {
	return &c01Held{ws, bitmap.IndexRank64(ws), bitmap.IndexRank64(ws, true), bitmap.IndexRank128(ws), false}
}

// rebuild re-indexes the SAME backing slice after an in-place change. The order of the two IndexRank64 calls
// alternates, so that every other rebuild starts with the flavour that was built last (a memo of "the index
// built last", keyed by the slice, then sees the same key with different contents).
func (h *c01Held) rebuild() {
	if h.flip {
		h.i64 = bitmap.IndexRank64(h.ws)
		h.i64t = bitmap.IndexRank64(h.ws, true)
	} else {
		h.i64t = bitmap.IndexRank64(h.ws, true)
		h.i64 = bitmap.IndexRank64(h.ws)
	}
	h.i128 = bitmap.IndexRank128(h.ws)
	h.flip = !h.flip
}

// c01Expand expands [[count, word], ...] into a WINDOW of a longer array whose 3 spare words hold junk (a bitmap
// that is a prefix of a reused buffer): code that reads or writes words[len:cap] shows
func c01Expand(v V) []uint64 {
	n := 0
	for _, r := range v.L {
		n += r.L[0].Int()
	}
	full := make([]uint64, n+3)
	k := 0
	for _, r := range v.L {
		c, w := r.L[0].Int(), r.L[1].U64()
		for j := 0; j < c; j++ {
			full[k] = w
			k++
		}
	}
	full[n], full[n+1], full[n+2] = 0xa5a5a5a5a5a5a5a5, ^uint64(0), 0x5a5a5a5a5a5a5a5b
	return full[:n]
}

func c01Index(ws []uint64, f int) []int32 {
	switch f {
	case 0:
		return bitmap.IndexRank64(ws)
	case 1:
		return bitmap.IndexRank64(ws, true)
	}
	return bitmap.IndexRank128(ws)
}

type c01Run struct {
	n int
	w uint64
}

func c01Rle(runs []c01Run) (string, []uint64) {
	var parts []string
	var ws []uint64
	for _, r := range runs {
		parts = append(parts, L(Int(r.n), U(r.w)))
		for k := 0; k < r.n; k++ {
			ws = append(ws, r.w)
		}
	}
	return L(parts...), ws
}

func (h *c01Held) query(f int, i int32) string {
	return try(func() string {
		var c, b int32
		switch f {
		case 0:
			c, b = bitmap.Rank64(h.ws, h.i64, i)
		case 1:
			c, b = bitmap.Rank64(h.ws, h.i64t, i)
		default:
			c, b = bitmap.Rank128(h.ws, h.i128, i)
		}
		return L(I32(c), I32(b))
	})
}

func init() {
	Exec["bitmap.Rank/any"] = func(a []V) string {
		return c01Query(a[0].U64s(), a[1].Int(), a[2].I32())
	}
	Exec["bitmap.Rank/laws"] = func(a []V) string {
		h := c01Build(a[0].U64s())
		i, j := a[1].I32(), a[2].I32()
		return L(L(h.query(0, i), h.query(1, i), h.query(2, i)),
			L(h.query(0, j), h.query(1, j), h.query(2, j)),
			I32(h.i64t[len(h.ws)]))
	}
	Exec["bitmap.Rank/concat"] = func(a []V) string {
		wa, wb, f, i := a[0].U64s(), a[1].U64s(), a[2].Int(), a[3].I32()
		whole := c01Query(append(append([]uint64{}, wa...), wb...), f, i)
		parts := try(func() string {
			if int(i) < 64*len(wa) {
				return c01Build(wa).query(f, i)
			}
			ha, hb := c01Build(wa), c01Build(wb)
			t := ha.i64t[len(wa)]
			var c, b int32
			switch f {
			case 0:
				c, b = bitmap.Rank64(hb.ws, hb.i64, i-int32(64*len(wa)))
			case 1:
				c, b = bitmap.Rank64(hb.ws, hb.i64t, i-int32(64*len(wa)))
			default:
				c, b = bitmap.Rank128(hb.ws, hb.i128, i-int32(64*len(wa)))
			}
			return L(I32(t+c), I32(b))
		})
		return L(whole, parts)
	}
	Exec["bitmap.IndexRank/all"] = func(a []V) string {
		ws := a[0].U64s()
		return L(I32s(bitmap.IndexRank64(ws)), I32s(bitmap.IndexRank64(ws, true)), I32s(bitmap.IndexRank128(ws)))
	}
	Exec["bitmap.Rank/complement"] = func(a []V) string {
		ws := a[0].U64s()
		cs := make([]uint64, len(ws))
		for k, w := range ws {
			cs[k] = ^w
		}
		return L(c01Query(ws, a[1].Int(), a[2].I32()), c01Query(cs, a[1].Int(), a[2].I32()))
	}
	// session: every returned index is rendered, used for one query, and then overwritten with junk by the caller
	Exec["bitmap.IndexRank/session"] = func(a []V) string {
		var bms [][]uint64
		for _, st := range a[0].L {
			bms = append(bms, c01Expand(st.L[1]))
		}
		var out []string
		for rep := 0; rep < a[1].Int(); rep++ {
			for k, st := range a[0].L {
				f, ws := st.L[0].Int(), bms[k]
				idx := c01Index(ws, f)
				txt := I32s(idx)
				q := try(func() string {
					var c, b int32
					i := int32(64*len(ws) - 1)
					if f == 2 {
						c, b = bitmap.Rank128(ws, idx, i)
					} else {
						c, b = bitmap.Rank64(ws, idx, i)
					}
					return L(I32(c), I32(b))
				})
				for j := range idx {
					idx[j] = int32(0x5a5a5a5a ^ j)
				}
				out = append(out, L(txt, q))
			}
		}
		return L(out...)
	}
	// concurrent: a single caller first, then rounds of g goroutines released together, goroutine j on bitmap j mod n
	Exec["bitmap.IndexRank64/concurrent"] = func(a []V) string {
		var bms [][]uint64
		for _, b := range a[0].L {
			bms = append(bms, c01Expand(b))
		}
		tr, stride, ncalls := a[1].Bool(), a[2].Int(), a[3].Int()
		var seq [][]int32
		var samples []string
		for _, ws := range bms {
			idx := bitmap.IndexRank64(ws, tr)
			seq = append(seq, idx)
			var sm []int32
			for k := 0; k < len(idx); k += stride {
				sm = append(sm, idx[k])
			}
			if len(idx) > 0 {
				sm = append(sm, idx[len(idx)-1])
			} else {
				sm = append(sm, 0)
			}
			samples = append(samples, I32s(sm))
		}
		g := 2
		if ncalls%4 == 0 {
			g = 4
		} else if ncalls%3 == 0 {
			g = 3
		}
		flags := make([]int32, ncalls)
		for done := 0; done < ncalls; done += g {
			start := make(chan struct{})
			var wg sync.WaitGroup
			for j := 0; j < g && done+j < ncalls; j++ {
				wg.Add(1)
				go func(slot, k int) {
					defer wg.Done()
					<-start
					idx := bitmap.IndexRank64(bms[k], tr)
					ok := len(idx) == len(seq[k])
					for x := 0; ok && x < len(idx); x++ {
						ok = idx[x] == seq[k][x]
					}
					if ok {
						flags[slot] = 1
					}
				}(done+j, (done+j)%len(bms))
			}
			close(start)
			wg.Wait()
		}
		return L(L(samples...), I32s(flags))
	}
	Exec["bitmap.IndexRank/rle"] = func(a []V) string {
		ws := c01Expand(a[0])
		return L(I32s(bitmap.IndexRank64(ws)), I32s(bitmap.IndexRank64(ws, true)), I32s(bitmap.IndexRank128(ws)))
	}
	Exec["bitmap.Rank/rle"] = func(a []V) string {
		return c01Query(c01Expand(a[0]), a[1].Int(), a[2].I32())
	}
	// history: every bitmap and its three indexes are built up front and HELD; steps query them in any
	// order or overwrite one word in place and rebuild that bitmap's indexes
	Exec["bitmap.Rank/history"] = func(a []V) string {
		var hs []*c01Held
		for _, b := range a[0].L {
			hs = append(hs, c01Build(b.U64s()))
		}
		var out []string
		for _, s := range a[1].L {
			if s.L[0].Int() == 0 {
				out = append(out, hs[s.L[2].Int()].query(s.L[1].Int(), s.L[3].I32()))
			} else {
				h := hs[s.L[1].Int()]
				h.ws[s.L[2].Int()] = s.L[3].U64()
				h.rebuild()
				out = append(out, I32(h.i64t[len(h.ws)]))
			}
		}
		return L(out...)
	}
}

// c01Dense / c01Sparse: words with ~62 / ~2 bits set
func c01Dense(g *Gen, n int) []uint64 {
	ws := make([]uint64, n)
	for i := range ws {
		ws[i] = ^(uint64(1)<<uint(g.R.Intn(64)) | uint64(1)<<uint(g.R.Intn(64)))
		if g.R.Intn(8) == 0 {
			ws[i] = ^uint64(0)
		}
	}
	return ws
}

func c01Sparse(g *Gen, n int) []uint64 {
	ws := make([]uint64, n)
	for i := range ws {
		if g.R.Intn(3) == 0 {
			ws[i] = uint64(1)<<uint(g.R.Intn(64)) | uint64(1)<<uint(g.R.Intn(64))
		}
	}
	return ws
}

func c01BigKey(tag string, ws []uint64, i int) string {
	before := popcount(ws[:i>>6])
	cls := "lt2^8"
	switch {
	case before >= 1<<16:
		cls = "ge2^16"
	case before >= 1<<15:
		cls = "ge2^15"
	case before >= 1<<8:
		cls = "ge2^8"
	}
	pc := "pos<2^10"
	switch {
	case i >= 1<<16:
		pc = "pos>=2^16"
	case i >= 1<<15:
		pc = "pos>=2^15"
	case i >= 1<<10:
		pc = "pos>=2^10"
	}
	return fmt.Sprintf("big/%s/cnt%s/%s/right%d", tag, cls, pc, (i>>6)&1)
}

// c01SmallInts: ALL 2-word bitmaps with words in 0..40 and all 3-word bitmaps with words in 0..6, built one after
// the other in one process, in lexicographic order and in orders that put arithmetically similar bitmaps next to
// each other (sorted by 31*w0+w1.., by the sum, by the xor): a cache keyed by a checksum / hash / sum of the words
// instead of the words meets two different bitmaps with the same key back to back
func c01SmallInts(g *Gen) {
	var two, three [][]uint64
	for a := uint64(0); a <= 40; a++ {
		for b := uint64(0); b <= 40; b++ {
			two = append(two, []uint64{a, b})
		}
	}
	for a := uint64(0); a <= 6; a++ {
		for b := uint64(0); b <= 6; b++ {
			for c := uint64(0); c <= 6; c++ {
				three = append(three, []uint64{a, b, c})
			}
		}
	}
	keys := []struct {
		name string
		f    func(ws []uint64) uint64
	}{
		{"lex", nil},
		{"poly31", func(ws []uint64) uint64 {
			h := uint64(0)
			for _, w := range ws {
				h = h*31 + w
			}
			return h
		}},
		{"sum", func(ws []uint64) uint64 {
			h := uint64(0)
			for _, w := range ws {
				h += w
			}
			return h
		}},
		{"xor", func(ws []uint64) uint64 {
			h := uint64(0)
			for _, w := range ws {
				h ^= w
			}
			return h
		}},
	}
	for _, fam := range [][][]uint64{two, three} {
		for _, k := range keys {
			bms := append([][]uint64{}, fam...)
			if k.f != nil {
				sort.SliceStable(bms, func(i, j int) bool { return k.f(bms[i]) < k.f(bms[j]) })
			}
			for _, f := range []int{2, 1} {
				var steps []string
				for _, ws := range bms {
					var runs []string
					for _, w := range ws {
						runs = append(runs, L("1", U(w)))
					}
					steps = append(steps, L(Int(f), L(runs...)))
				}
				g.Stat("session-small-integers")
				g.Do("bitmap.IndexRank/session", L(L(steps...), "1"), fmt.Sprintf("smallint/nw%d/%s/f%d", len(fam[0]), k.name, f))
			}
		}
	}
	g.Exhaust = append(g.Exhaust, "all 2-word bitmaps with words 0..40 and all 3-word bitmaps with words 0..6, indexed consecutively in 4 orders (lexicographic, by 31-polynomial, by sum, by xor) x {IndexRank128+Rank128, IndexRank64 trailing+Rank64}")
}

func genC01Wide(g *Gen) {
	// (W1) large bitmaps through the plain ops: sizes around 2^10, 2^15, 2^16, 2^17 bits, dense (counts cross
	// 2^8, 2^15, 2^16) and sparse (positions cross 2^16 while counts stay small); positions next to the
	// power-of-two boundaries of the POSITION and next to the word where the COUNT crosses a power of two
	type big struct {
		tag string
		ws  []uint64
	}
	var bigs []big
	dn, sn := []int{17, 130, 530, 1090}, []int{1025, 2049}
	if g.Thorough {
		dn, sn = []int{16, 17, 33, 130, 513, 530, 1025, 1090, 2049}, []int{513, 530, 1025, 1090, 2049}
	}
	for _, n := range dn {
		bigs = append(bigs, big{fmt.Sprintf("dense%d", n), c01Dense(g, n)})
	}
	for _, n := range sn {
		bigs = append(bigs, big{fmt.Sprintf("sparse%d", n), c01Sparse(g, n)})
	}
	ones1030 := make([]uint64, 1030)
	for i := range ones1030 {
		ones1030[i] = ^uint64(0)
	}
	bigs = append(bigs, big{"ones1030", ones1030})
	for _, b := range bigs {
		n := len(b.ws)
		w := U64s(b.ws)
		// index cases: each costs the spec a pass per entry, so only some bitmaps get them in the quick tier
		// index cases: the bit-by-bit specification of the plain ops is quadratic in the length, so those are limited
		// to 130 words (530 in the thorough tier); the side-by-side op (running sums, linear) takes every size
		key := "big/idx/" + b.tag
		g.Stat("big-index")
		g.Do("bitmap.IndexRank/all", L(w), key)
		if n <= 130 || (g.Thorough && n <= 530) {
			g.Do("bitmap.IndexRank64", L(w, "1"), key)
			g.Do("bitmap.IndexRank128", L(w), key)
		}
		// positions: boundaries of the position, and the words where the running count crosses 2^8, 2^15, 2^16
		var pos []int
		for _, p := range []int{1 << 8, 1 << 10, 1 << 15, 1 << 16, 1 << 17} {
			if g.Thorough {
				for d := -65; d <= 65; d += 13 {
					pos = append(pos, p+d)
				}
				pos = append(pos, p+1, p+63)
			}
			pos = append(pos, p-1, p, p+64)
		}
		cnt := 0
		for k, x := range b.ws {
			c2 := cnt + popcount([]uint64{x})
			for _, t := range []int{1 << 8, 1 << 15, 1 << 16} {
				if cnt < t && c2 >= t {
					pos = append(pos, 64*k+63, 64*k+64, 64*k+191)
					if g.Thorough {
						pos = append(pos, 64*k, 64*k+100, 64*k+128)
					}
				}
			}
			cnt = c2
		}
		pos = append(pos, 64*n-1, 64*n-65)
		for q := 0; q < g.N(2, 40); q++ {
			pos = append(pos, g.R.Intn(64*n))
		}
		seen := map[int]bool{}
		for _, i := range pos {
			if i < 0 || i >= 64*n || seen[i] {
				continue
			}
			seen[i] = true
			g.Stat("big-rank")
			key := c01BigKey(b.tag[:5], b.ws, i)
			g.Do("bitmap.Rank64", L(w, B(g.R.Bool()), Int(i)), key)
			g.Do("bitmap.Rank128", L(w, Int(i)), key)
		}
		// held indexes of the large bitmap against a decoy of the same length
		decoy := U64s(c01Sparse(g, n))
		for q := 0; q < g.N(1, 3); q++ {
			i := g.R.Intn(64 * n)
			g.Stat("big-held")
			g.Do("bitmap.Rank64/held", L(w, B(q&1 == 1), Int(i), decoy), c01BigKey(b.tag[:5], b.ws, i))
			g.Do("bitmap.Rank128/held", L(w, Int(i), decoy), c01BigKey(b.tag[:5], b.ws, i))
		}
	}

	// (W2) any int32 position: inside, just outside, negative, far outside, the int32 extremes
	for k := 0; k < g.N(150, 3000); k++ {
		n := g.R.Range(0, 12)
		ws := g.R.Words(n)
		w := U64s(ws)
		// (the model walks to word i>>6 in unary, so far-away POSITIVE positions are kept to 2^20 here; the int32
		// extremes get a handful of cases of their own below)
		cand := []int{-1, -2, -63, -64, -65, -128, -129, 64 * n, 64*n + 1, 64*n + 63, 64*n + 64, 64*n + 127, 64*n + 128,
			64*n - 1, 0, 1<<20 - 1, 1 << 20, 1<<16 - 64, -(1 << 31), -(1 << 31) + 63, -(1 << 31) + 64, -(1 << 30), -(1<<31 - 64)}
		for q := 0; q < 6; q++ {
			var i int
			switch g.R.Intn(3) {
			case 0:
				i = cand[g.R.Intn(len(cand))]
			case 1:
				i = g.R.Range(-130, 64*n+130)
			default:
				if n > 0 {
					i = g.R.Intn(64 * n)
				}
			}
			for f := 0; f < 3; f++ {
				key := ""
				switch {
				case i < 0:
					key = fmt.Sprintf("any/f%d/neg", f)
					if i >= -64 {
						key = fmt.Sprintf("any/f%d/neg-first-block", f)
					}
				case i >= 64*n:
					key = fmt.Sprintf("any/f%d/beyond", f)
					if i < 64*n+64 {
						key = fmt.Sprintf("any/f%d/beyond-next-word/par%d", f, n&1)
					}
				default:
					if rk := rankKey(ws, i); rk != "" {
						key = fmt.Sprintf("any/f%d/in", f)
					}
				}
				g.Stat("any-position")
				g.Do("bitmap.Rank/any", L(w, Int(f), Int(i)), key)
			}
		}
	}

	// the int32 extremes: i + 64 wraps for i >= 2^31 - 64 (Rank128 panics on a negative checkpoint index whatever the
	// bitmap), i >> 6 = 2^25 - 1 is far beyond any bitmap here
	// (cheap for the model only where the checkpoint index is negative; the other extremes walk 2^24..2^25 words in
	// unary - about 1 GB and several seconds each - and are left to the thorough tier)
	type extc struct{ f, i int }
	ext := []extc{{2, 1<<31 - 1}, {2, 1<<31 - 64}, {2, 1<<31 - 33}}
	if g.Thorough {
		ext = append(ext, extc{2, 1<<31 - 65}, extc{0, 1<<31 - 1}, extc{1, 1<<31 - 64}, extc{0, 1 << 30})
	}
	for _, e := range ext {
		g.Stat("any-position-extreme")
		g.Do("bitmap.Rank/any", L(U64s(g.R.Words(3)), Int(e.f), Int(e.i)), fmt.Sprintf("any/f%d/wrap%v", e.f, e.i >= 1<<31-64))
	}

	// (W3) the laws at two positions i <= j: equal, adjacent, same word, across words / 128-bit blocks, the last position
	for k := 0; k < g.N(400, 8000); k++ {
		n := g.R.Range(1, 24)
		ws := g.R.Words(n)
		var i, j int
		i = g.R.Intn(64 * n)
		switch g.R.Intn(6) {
		case 0:
			j = i
		case 1:
			j = i + 1
		case 2:
			j = i | 63
		case 3:
			j = 64*n - 1
		case 4:
			j = i + g.R.Intn(130)
		default:
			j = g.R.Range(i, 64*n-1)
		}
		if j >= 64*n {
			j = 64*n - 1
		}
		key := ""
		if popcount(ws) > 0 {
			d := "far"
			switch {
			case j == i:
				d = "same"
			case j == i+1:
				d = "adjacent"
			case j>>6 == i>>6:
				d = "same-word"
			case j>>7 == i>>7:
				d = "same-block"
			}
			key = fmt.Sprintf("laws/%s/last%v", d, j == 64*n-1)
		}
		g.Stat("laws")
		g.Do("bitmap.Rank/laws", L(U64s(ws), Int(i), Int(j)), key)
	}
	// exhaustive: every adjacent pair (i, i+1) and every (i, last) of a few 3-word bitmaps
	for k := 0; k < g.N(2, 12); k++ {
		ws := g.R.Words(3)
		for i := 0; i+1 < 192; i++ {
			g.Stat("laws-exh")
			g.Do("bitmap.Rank/laws", L(U64s(ws), Int(i), Int(i+1)), "laws/adjacent-sweep")
			if g.Thorough {
				g.Do("bitmap.Rank/laws", L(U64s(ws), Int(i), "191"), "laws/to-last-sweep")
			}
		}
	}
	g.Exhaust = append(g.Exhaust, "rank laws at every adjacent pair (i, i+1) of 3-word bitmaps")

	// (W4) two pieces: |a|, |b| in 0..9 incl. empty pieces and odd/even |a| (the 128-bit index of the whole is not
	// aligned with the piece's own when |a| is odd); positions around the seam
	for k := 0; k < g.N(300, 6000); k++ {
		na, nb := g.R.Range(0, 9), g.R.Range(0, 9)
		if na+nb == 0 {
			nb = 1
		}
		wa, wb := g.R.Words(na), g.R.Words(nb)
		for q := 0; q < 3; q++ {
			var i int
			switch g.R.Intn(3) {
			case 0:
				i = 64*na + g.R.Pick(-65, -64, -1, 0, 1, 63, 64, 65)
			default:
				i = g.R.Intn(64 * (na + nb))
			}
			if i < 0 {
				i = 0
			}
			if i >= 64*(na+nb) {
				i = 64*(na+nb) - 1
			}
			f := g.R.Intn(3)
			key := ""
			if popcount(wa) > 0 && popcount(wb) > 0 {
				side := "a"
				if i >= 64*na {
					side = "b"
				}
				key = fmt.Sprintf("concat/f%d/par%d/side-%s", f, na&1, side)
			}
			g.Stat("concat")
			g.Do("bitmap.Rank/concat", L(U64s(wa), U64s(wb), Int(f), Int(i)), key)
		}
	}

	// (W4b) rank0: a bitmap and its complement
	for k := 0; k < g.N(200, 4000); k++ {
		n := g.R.Range(1, 12)
		ws := g.R.Words(n)
		i := g.R.Intn(64 * n)
		if g.R.Intn(3) == 0 {
			i = 64*g.R.Intn(n) + g.R.Pick(0, 63)
		}
		key := ""
		if rankKey(ws, i) != "" {
			key = fmt.Sprintf("compl/right%d", (i>>6)&1)
		}
		g.Stat("complement")
		g.Do("bitmap.Rank/complement", L(U64s(ws), Int(g.R.Intn(3)), Int(i)), key)
	}

	// (W5) side-by-side indexes of small bitmaps: exhaustive lengths 0..12, then random
	for n := 0; n <= 12; n++ {
		for q := 0; q < g.N(3, 30); q++ {
			ws := g.R.Words(n)
			key := ""
			if popcount(ws) > 0 && n > 1 {
				key = fmt.Sprintf("idxall/nw%d", n)
			}
			g.Stat("index-all")
			g.Do("bitmap.IndexRank/all", L(U64s(ws)), key)
		}
	}

	// (W6) histories: 2..4 bitmaps - several of the SAME length, so that a memo keyed by position, length or
	// word index is hit with the wrong bitmap - queried at the same positions in turn, with in-place overwrites
	for k := 0; k < g.N(120, 2500); k++ {
		nb := g.R.Range(2, 4)
		n := g.R.Range(1, 10)
		var bms [][]uint64
		var txt []string
		for b := 0; b < nb; b++ {
			m := n
			if g.R.Intn(4) == 0 {
				m = g.R.Range(1, 10)
			}
			ws := g.R.Words(m)
			if b > 0 && g.R.Intn(3) == 0 {
				// same low halves as the previous bitmap: memo keys made from truncated words collide
				ws = append([]uint64{}, bms[b-1][:minInt(m, len(bms[b-1]))]...)
				for len(ws) < m {
					ws = append(ws, g.R.Word())
				}
				for x := range ws {
					ws[x] ^= g.R.U64() << 32
				}
			}
			bms = append(bms, ws)
			txt = append(txt, U64s(ws))
		}
		var steps []string
		sets := 0
		i := g.R.Intn(64 * n)
		for s := 0; s < g.R.Range(4, 14); s++ {
			b := g.R.Intn(nb)
			switch g.R.Intn(5) {
			case 0:
				kk := g.R.Intn(len(bms[b]))
				if g.R.Bool() && i>>6 < len(bms[b]) {
					kk = i >> 6
				}
				steps = append(steps, L("1", Int(b), Int(kk), U(g.R.Word())))
				sets++
			case 1:
				i = g.R.Intn(64 * n)
				fallthrough
			default:
				ii := i
				if ii >= 64*len(bms[b]) {
					ii = 64*len(bms[b]) - 1
				}
				steps = append(steps, L("0", Int(g.R.Intn(3)), Int(b), Int(ii)))
			}
		}
		key := fmt.Sprintf("hist/nb%d/sets%d", nb, minInt(sets, 3))
		g.Stat("history")
		g.Do("bitmap.Rank/history", L(L(txt...), L(steps...)), key)
	}
	// (W7) large run-length encoded bitmaps: 1024 / 1280 / 2048 / 4100 words with an all-zero run aligned to a
	// 64/128/256/512/1024-word boundary placed after a non-empty prefix (an index built piecewise - per chunk, per
	// goroutine, per cache line - goes wrong where a piece is empty or where pieces meet); the three indexes side by
	// side (linear specification) and a few probes right after each run
	type fam struct{ n, align, start int }
	var fams []fam
	for _, n := range []int{1024, 1280, 2048, 4100} {
		for _, a := range []int{64, 128, 256, 512, 1024} {
			for st := a; st+a < n; st += a {
				fams = append(fams, fam{n, a, st})
			}
		}
	}
	for fi, f := range fams {
		// quick: every (n, align) with its first and one other start; thorough: all
		if !g.Thorough && !(f.start == f.align || (f.start/f.align)%5 == 2 || (f.align == 256 && f.start <= 1024)) {
			continue
		}
		var runs []c01Run
		pre := f.start
		// non-empty prefix: a few single words and a constant run, then the zero run, then sparse / dense tail
		runs = append(runs, c01Run{1, g.R.Word() | 1}, c01Run{pre - 2, []uint64{0, 1, 0x8000000000000000, ^uint64(0), g.R.Word()}[g.R.Intn(5)]}, c01Run{1, g.R.Word() | 2})
		runs = append(runs, c01Run{f.align, 0})
		rest := f.n - f.start - f.align
		for rest > 0 {
			k := g.R.Range(1, minInt(rest, 300))
			if g.R.Intn(3) == 0 {
				k = 1
			}
			w := []uint64{0, 1, ^uint64(0), g.R.Word(), g.R.Word()}[g.R.Intn(5)]
			if rest == f.n-f.start-f.align {
				w |= 4 // the first word after the run is not empty
			}
			runs = append(runs, c01Run{k, w})
			rest -= k
		}
		txt, ws := c01Rle(runs)
		key := fmt.Sprintf("rle/n%d/align%d/start%d", f.n, f.align, minInt(f.start/f.align, 3))
		g.Stat("rle-index")
		g.Do("bitmap.IndexRank/rle", L(txt), key)
		if g.Thorough || fi%4 == 0 || f.align == 256 {
			end := 64 * (f.start + f.align)
			for _, i := range []int{end, end + 64*f.align - 1, 64*f.n - 1} {
				if i >= 64*len(ws) {
					i = 64*len(ws) - 1
				}
				g.Stat("rle-rank")
				g.Do("bitmap.Rank/rle", L(txt, Int(g.R.Intn(3)), Int(i)), key)
			}
		}
	}

	// (W8) ONE bitmap edited in place: the same backing slice is re-indexed after a MIDDLE word changed while its
	// first and last words, its length and its address stay what they were; probes around the edited word
	for k := 0; k < g.N(150, 3000); k++ {
		n := g.R.Range(3, 12)
		ws := g.R.Words(n)
		var steps []string
		probe := func(i int) {
			if i < 0 {
				i = 0
			}
			if i >= 64*n {
				i = 64*n - 1
			}
			steps = append(steps, L("0", Int(g.R.Intn(3)), "0", Int(i)))
		}
		probe(g.R.Intn(64 * n))
		ne := g.R.Range(1, 5)
		for e := 0; e < ne; e++ {
			kk := g.R.Range(1, n-2)
			steps = append(steps, L("1", "0", Int(kk), U(g.R.Word())))
			probe(64*kk + 64)
			probe(64*n - 1)
			if g.R.Bool() {
				probe(64*kk + g.R.Intn(64))
			}
		}
		g.Stat("history-edit-middle")
		g.Do("bitmap.Rank/history", L(L(U64s(ws)), L(steps...)), fmt.Sprintf("edit/n%d/edits%d", minInt(n, 6), ne))
	}
	// (W9) sessions: many index builds in ONE process, small bitmaps (0, 1, 2.. words) after large ones whose length
	// sits next to a size threshold (chunked / parallel / unrolled paths), every returned index overwritten by the
	// caller; two passes over the same list
	sstep := func(f int, runs []c01Run) string {
		txt, _ := c01Rle(runs)
		return L(Int(f), txt)
	}
	bigRuns := func(n int) []c01Run {
		// non-empty from the first word on, a zero stretch, a tail that ends in a non-empty last word
		a := n / 3
		return []c01Run{{1, g.R.Word() | 1}, {a, []uint64{1, 0x8000000000000001, ^uint64(0)}[g.R.Intn(3)]}, {n - a - 2, g.R.Word() & 0xff00ff}, {1, g.R.Word() | 1<<63}}
	}
	sizes := []int{1025, 3073, 4097, 6145}
	if g.Thorough {
		sizes = []int{255, 256, 257, 1023, 1024, 1025, 2047, 2049, 3071, 3072, 3073, 3074, 4095, 4096, 4097, 6143, 6144, 6145, 6146, 9217, 12289}
	}
	for _, n := range sizes {
		for _, f := range []int{1, 2} {
			small := []string{sstep(f, nil), sstep(f, []c01Run{{1, g.R.Word() | 2}}), sstep(2, nil), sstep(2, []c01Run{{1, 6}}), sstep(1, []c01Run{{2, 3}})}
			steps := append([]string{sstep(f, bigRuns(n))}, small...)
			g.Stat("session-threshold")
			g.Do("bitmap.IndexRank/session", L(L(steps...), "2"), fmt.Sprintf("session/big%d/f%d", n, f))
		}
	}
	for k := 0; k < g.N(60, 1200); k++ {
		var steps []string
		for q := 0; q < g.R.Range(3, 9); q++ {
			n := g.R.Pick(0, 0, 1, 1, 2, 3, 4, 5, 7)
			var runs []c01Run
			for x := 0; x < n; x++ {
				runs = append(runs, c01Run{1, g.R.Word()})
			}
			steps = append(steps, sstep(g.R.Intn(3), runs))
		}
		g.Stat("session-small")
		g.Do("bitmap.IndexRank/session", L(L(steps...), "2"), "session/small")
	}

	// (W10) concurrent builds of LARGE bitmaps (2^17+3 words and more: a megabyte of words each), 2..4 goroutines
	// released together, several rounds; every concurrent result must equal the single caller's
	conc := func(n1, n2 int, tr bool, ncalls int) {
		t1, _ := c01Rle([]c01Run{{1, 5}, {n1/2 - 1, 1}, {n1 / 4, 0}, {n1 - n1/2 - n1/4 - 1, 0xff}, {1, g.R.Word() | 1}})
		t2, _ := c01Rle([]c01Run{{n2 / 8, ^uint64(0)}, {n2 / 8, 0}, {n2 - 2*(n2/8) - 2, 0x10001}, {2, g.R.Word() | 2}})
		g.Stat("concurrent-large")
		g.Do("bitmap.IndexRank64/concurrent", L(L(t1, t2), B(tr), "1024", Int(ncalls)), fmt.Sprintf("conc/n%d/tr%v/calls%d", n1, tr, ncalls))
	}
	conc(1<<17+3, 1<<17+3, true, 18)
	if g.Thorough {
		conc(1<<17, 1<<17+1, false, 16)
		conc(1<<18+1, 1<<17+3, true, 10)
		conc(1<<17+3, 1<<17+3, false, 21)
		conc(1<<16, 1<<16+3, true, 12)
	}
	_ = strings.Join
}
