package main

import (
	"bytes"
	"fmt"
	"sort"

	"github.com/openacid/low/bitstr"
)

// C09 — bitstr.  A bit string is always given as (s, from, to) and encoded by
// the REAL bitstr.New inside the executor.

func c09New(a []V, k int) []byte {
	return bitstr.New(a[k].Str(), a[k+1].I32(), a[k+2].I32())
}

func init() {
	Exec["bitstr.New"] = func(a []V) string { return Bytes(c09New(a, 0)) }
	Exec["bitstr.New/decode"] = func(a []V) string { return Bytes(c09New(a, 0)) }
	Exec["bitstr.Len"] = func(a []V) string { return I32(bitstr.Len(c09New(a, 0))) }
	Exec["bitstr.Cmp"] = func(a []V) string {
		return Int(bitstr.Cmp(c09New(a, 0), c09New(a, 3)))
	}
	// [CmpUpto(a, e), inputs unchanged]
	Exec["bitstr.CmpUpto"] = func(a []V) string {
		x := a[0].Bytes()
		e := c09New(a, 1)
		xc := append([]byte{}, x...)
		ec := append([]byte{}, e...)
		r := bitstr.CmpUpto(x, e)
		return L(Int(r), B(bytes.Equal(x, xc) && bytes.Equal(e, ec)))
	}
	// [StrCmpUpto(string(a), e), CmpUpto(a, e), inputs unchanged]
	Exec["bitstr.StrCmpUpto"] = func(a []V) string {
		x := a[0].Bytes()
		xs := string(x) // its own copy of the bytes
		e := c09New(a, 1)
		ec := append([]byte{}, e...)
		r1 := bitstr.StrCmpUpto(xs, e)
		same := xs == string(x) && bytes.Equal(e, ec)
		r2 := bitstr.CmpUpto(x, e)
		return L(Int(r1), Int(r2), B(same))
	}
	// WIDENED: [CmpUpto(a, e), Cmp(New(a, 0, min(8*len(a), Len(e))), e)]
	Exec["bitstr.CmpUpto/viaNew"] = func(a []V) string {
		x := a[0].Bytes()
		e := c09New(a, 1)
		r1 := bitstr.CmpUpto(x, e)
		m := bitstr.Len(e)
		if int32(8*len(x)) < m {
			m = int32(8 * len(x))
		}
		r2 := bitstr.Cmp(bitstr.New(string(x), 0, m), e)
		return L(Int(r1), Int(r2))
	}
	// WIDENED: [CmpUpto(k, e) for k in keys] (the generator emits keys sorted by bytes.Compare)
	Exec["bitstr.CmpUpto/sorted"] = func(a []V) string {
		e := c09New(a, 1)
		var out []int
		for _, k := range a[0].L {
			out = append(out, bitstr.CmpUpto(k.Bytes(), e))
		}
		return Ints(out)
	}
	// WIDENED (call sequences): New on every range in turn; after rendering [e, Len(e), Cmp(e, copy of previous e)] the
	// caller scribbles over the whole slice New returned (len and spare capacity): it owns it.
	Exec["bitstr.Session/scribble"] = func(a []V) string {
		var out []string
		var prev []byte
		for i, r := range a[0].L {
			e := bitstr.New(r.L[0].Str(), r.L[1].I32(), r.L[2].I32())
			p := prev
			if p == nil {
				p = append([]byte{}, e...)
			}
			out = append(out, L(Bytes(e), I32(bitstr.Len(e)), Int(bitstr.Cmp(e, p))))
			prev = append([]byte{}, e...)
			j := byte(0x00)
			if i%2 == 1 {
				j = junk8
			}
			full := e[:cap(e)]
			for k := range full {
				full[k] = j
			}
		}
		return L(out...)
	}
	// WIDENED (views): both encodings packed back to back into a junk-filled arena and passed as views of it
	Exec["bitstr.Cmp/packed"] = func(a []V) string {
		e1, e2 := c09New(a, 0), c09New(a, 3)
		v, intact := c09Pack(3, 16, e1, e2)
		r1 := bitstr.Cmp(v[0], v[1])
		r2 := bitstr.Cmp(v[0], e2)
		r3 := bitstr.Cmp(e1, v[1])
		return L(Int(r1), Int(r2), Int(r3), B(intact()))
	}
	Exec["bitstr.CmpUpto/packed"] = func(a []V) string {
		x := a[0].Bytes()
		e := c09New(a, 1)
		v, intact := c09Pack(0, 9, x, e)
		r1 := bitstr.CmpUpto(v[0], v[1])
		r2 := bitstr.StrCmpUpto(string(x), v[1])
		return L(Int(r1), Int(r2), B(intact()))
	}
	// WIDENED (aliased arguments): the key is a prefix VIEW of the encoding's own buffer, every k
	Exec["bitstr.CmpUpto/alias"] = func(a []V) string {
		e := c09New(a, 0)
		v, intact := c09Pack(2, 5, e)
		w := v[0]
		var out []string
		for k := 0; k <= len(w); k++ {
			r1 := bitstr.CmpUpto(w[:k], w)
			r2 := bitstr.CmpUpto(append([]byte{}, w[:k]...), w)
			r3 := bitstr.StrCmpUpto(string(w[:k]), w)
			out = append(out, L(Int(r1), Int(r2), Int(r3)))
		}
		return L(L(out...), B(intact() && bytes.Equal(w, e)))
	}
	Register("C09", genC09)
}

// c09Pack copies the parts back to back into one arena filled with junk (lead junk bytes before, trail after) and returns
// the parts as views of the arena (their capacity runs to the arena's end) and a check that the arena is unchanged.
func c09Pack(lead, trail int, parts ...[]byte) ([][]byte, func() bool) {
	n := lead + trail
	for _, p := range parts {
		n += len(p)
	}
	arena := make([]byte, n)
	for i := range arena {
		arena[i] = junk8
	}
	views := make([][]byte, len(parts))
	off := lead
	for i, p := range parts {
		copy(arena[off:], p)
		views[i] = arena[off : off+len(p)]
		off += len(p)
	}
	saved := append([]byte{}, arena...)
	return views, func() bool { return bytes.Equal(arena, saved) }
}

type c09Range struct {
	s    []byte
	f, t int
}

func (r c09Range) args() string { return Bytes(r.s) + "," + Int(r.f) + "," + Int(r.t) }

// the bit string a range denotes, one byte per bit (for shape keys only)
func (r c09Range) bitsOf() []byte {
	var out []byte
	for i := r.f / 8 * 8; i < r.t; i++ {
		out = append(out, (r.s[i/8]>>uint(7-i%8))&1)
	}
	return out
}

func c09Bits(a []byte) []byte {
	var out []byte
	for i := 0; i < 8*len(a); i++ {
		out = append(out, (a[i/8]>>uint(7-i%8))&1)
	}
	return out
}

// relation of two bit strings: eq / prefix (a proper prefix of b) / rprefix / differ
func c09Rel(a, b []byte) string {
	n := len(a)
	if len(b) < n {
		n = len(b)
	}
	for i := 0; i < n; i++ {
		if a[i] != b[i] {
			return fmt.Sprintf("diff@byte%s/bit%d", c08LenClass(i/8+1), i%8)
		}
	}
	switch {
	case len(a) == len(b):
		return "eq"
	case len(a) < len(b):
		return "prefix"
	}
	return "rprefix"
}

func c09Max(a, b int) int {
	if a > b {
		return a
	}
	return b
}

func c09PayClass(nbits int) string {
	nb := (nbits + 7) / 8
	switch {
	case nb == 0:
		return "0"
	case nb < 8:
		return "<8"
	case nb == 8:
		return "8"
	}
	return ">8"
}

func genC09(g *Gen) {
	nCmp, nUpto := 0, 0
	newLen := func(r c09Range, bucket string) {
		g.Stat(bucket)
		key := ""
		if r.t > r.f/8*8 {
			key = fmt.Sprintf("new/tmod%d/fal%v/empty%v/bytes%s", r.t%8, r.f%8 == 0, r.f == r.t, c08LenClass((r.t-r.f/8*8+7)/8))
		}
		g.Do("bitstr.New", L(r.args()), key)
		if key != "" {
			g.Do("bitstr.New/decode", L(r.args()), "dec/"+key)
		} else {
			g.Do("bitstr.New/decode", L(r.args()), "")
		}
		if key != "" {
			key = "len/" + key
		}
		g.Do("bitstr.Len", L(r.args()), key)
		if key != "" {
			key = "alias/" + key[4:]
		}
		g.Do("bitstr.CmpUpto/alias", L(r.args()), key)
	}
	cmp := func(r1, r2 c09Range, bucket string) {
		g.Stat(bucket)
		b1, b2 := r1.bitsOf(), r2.bitsOf()
		key := ""
		if len(b1) > 0 && len(b2) > 0 {
			key = fmt.Sprintf("cmp/samelen%v/%s/t1mod0%v/t2mod0%v/pay%s", (len(b1)+7)/8 == (len(b2)+7)/8, c09Rel(b1, b2),
				len(b1)%8 == 0, len(b2)%8 == 0, c09PayClass(len(b1)))
		}
		g.Do("bitstr.Cmp", L(r1.args(), r2.args()), key)
		if nCmp++; nCmp%2 == 0 {
			if key != "" {
				key = "pk" + key
			}
			g.Do("bitstr.Cmp/packed", L(r1.args(), r2.args()), key)
		}
	}
	upto := func(a []byte, r c09Range, bucket string) {
		g.Stat(bucket)
		b := r.bitsOf()
		ab := c09Bits(a)
		if len(ab) > len(b) {
			ab = ab[:len(b)]
		}
		nb := (len(b) + 7) / 8
		branch := "ge"
		if len(b) == 0 {
			branch = "empty"
		} else if len(a) < nb {
			branch = "short"
		}
		fast := len(a) >= 8
		if branch == "ge" {
			fast = nb-1 >= 8
		}
		key := ""
		if len(b) > 0 && len(a) > 0 {
			key = fmt.Sprintf("upto/%s/fast%v/%s/tmod0%v", branch, fast, c09Rel(ab, b), len(b)%8 == 0)
		}
		args := L(Bytes(a), r.args())
		g.Do("bitstr.CmpUpto", args, key)
		if key != "" {
			key = "str" + key
		}
		g.Do("bitstr.StrCmpUpto", args, key)
		if key != "" {
			key = "via" + key[3:]
		}
		g.Do("bitstr.CmpUpto/viaNew", args, key)
		if nUpto++; nUpto%3 == 0 {
			if key != "" {
				key = "pk" + key[3:]
			}
			g.Do("bitstr.CmpUpto/packed", args, key)
		}
	}
	// keys sorted by bytes.Compare against one bit string: shape key = how many keys fall before / inside / after the block
	cnt := func(n int) string {
		switch {
		case n == 0:
			return "0"
		case n == 1:
			return "1"
		}
		return "n"
	}
	sorted := func(keys [][]byte, r c09Range, bucket string) {
		g.Stat(bucket)
		sort.Slice(keys, func(i, j int) bool { return bytes.Compare(keys[i], keys[j]) < 0 })
		b := r.bitsOf()
		var lt, eq, gt int
		for _, k := range keys {
			ab := c09Bits(k)
			if len(ab) > len(b) {
				ab = ab[:len(b)]
			}
			switch rel := c09Rel(ab, b); {
			case rel == "eq":
				eq++
			case rel == "prefix":
				lt++
			case rel == "rprefix":
				gt++ // cannot happen (ab is cut to len(b)); kept for completeness
			default:
				// first differing bit decides
				d := 0
				for ab[d] == b[d] {
					d++
				}
				if ab[d] < b[d] {
					lt++
				} else {
					gt++
				}
			}
		}
		key := ""
		if len(b) > 0 && len(keys) > 1 {
			key = fmt.Sprintf("sorted/lt%s/eq%s/gt%s/tmod0%v/pay%s", cnt(lt), cnt(eq), cnt(gt), len(b)%8 == 0, c09PayClass(len(b)))
		}
		g.Do("bitstr.CmpUpto/sorted", L(ByteSlices(keys), r.args()), key)
	}

	// (1) all strings of length <= 2 over the 7-byte alphabet x (f, t); quick: f in a boundary set
	strs2 := c08AllStrings(c08Alpha, 2)
	for _, s := range strs2 {
		for t := 0; t <= 8*len(s); t++ {
			for f := 0; f <= t; f++ {
				if !g.Thorough && !(f == t || f%8 == 0 || f%8 == 1 || f%8 == 7) {
					continue
				}
				newLen(c09Range{s, f, t}, "exh-new")
			}
		}
	}
	if g.Thorough {
		g.Exhaust = append(g.Exhaust, "New, Len(New): all strings of length 0..2 over {00,01,7f,80,ff,'a','b'} x all 0 <= from <= to <= 8*len")
	} else {
		g.Exhaust = append(g.Exhaust, "New, Len(New): all strings of length 0..2 over {00,01,7f,80,ff,'a','b'} x all to x from in {to} u {f : f mod 8 in {0,1,7}}")
	}
	// the distinct bit strings of that domain: (s, 0, t) with t in the last byte of s
	var encs []c09Range
	for _, s := range strs2 {
		if len(s) == 0 {
			encs = append(encs, c09Range{s, 0, 0})
			continue
		}
		for t := 8*len(s) - 7; t <= 8*len(s); t++ {
			encs = append(encs, c09Range{s, 0, t})
		}
	}
	var encs1 []c09Range
	for _, e := range encs {
		if len(e.s) <= 1 {
			encs1 = append(encs1, e)
		}
	}
	for _, e1 := range encs1 {
		for _, e2 := range encs1 {
			cmp(e1, e2, "exh-cmp-1byte")
		}
	}
	g.Exhaust = append(g.Exhaust, "Cmp: all pairs of the 57 bit strings of length 0..8 cut from one alphabet byte")
	if g.Thorough {
		for _, e1 := range encs {
			for _, e2 := range encs {
				if len(e1.s) <= 1 && len(e2.s) <= 1 {
					continue
				}
				cmp(e1, e2, "exh-cmp-2byte")
			}
		}
		g.Exhaust = append(g.Exhaust, "Cmp: all pairs of the 449 bit strings of length 0..16 cut from strings of length <= 2 over the alphabet")
	} else {
		for q := 0; q < 5000; q++ {
			cmp(encs[g.R.Intn(len(encs))], encs[g.R.Intn(len(encs))], "exh-cmp-2byte-sampled")
		}
	}
	// plain strings of length <= 2 (thorough: <= 3 sampled) against those bit strings
	k := 0
	for _, a := range strs2 {
		for _, e := range encs {
			k++
			if !g.Thorough && k%5 != 0 {
				continue
			}
			upto(a, e, "exh-upto")
		}
	}
	if g.Thorough {
		g.Exhaust = append(g.Exhaust, "CmpUpto, StrCmpUpto: all plain strings of length 0..2 over the alphabet x the 449 bit strings of length 0..16")
	}

	// all plain strings of length <= 2 over the alphabet, sorted, against every one of those bit strings
	for _, e := range encs {
		keys := make([][]byte, 0, len(strs2))
		for _, k := range strs2 {
			keys = append(keys, append([]byte{}, k...))
		}
		sorted(keys, e, "exh-sorted")
	}
	g.Exhaust = append(g.Exhaust, "CmpUpto over sorted keys: the 57 plain strings of length 0..2 over the alphabet (sorted) x the 449 bit strings of length 0..16")

	// sessions: New on a sequence of ranges, the caller scribbling over every result.  A fixed pool with the
	// aligned empty ranges of several strings / offsets, unaligned empty ranges, 1..9 bit strings: all ordered
	// pairs and sampled longer sequences; random sessions mixing pool ranges with random ones
	session := func(rs []c09Range, bucket string) {
		g.Stat(bucket)
		var xs []string
		ae := 0
		for _, r := range rs {
			xs = append(xs, L(r.args()))
			if r.f == r.t && r.f%8 == 0 {
				ae++
			}
		}
		key := fmt.Sprintf("sess/n%s/alignedempty%s", cnt(len(rs)-1), cnt(ae))
		g.Do("bitstr.Session/scribble", L(L(xs...)), key)
	}
	ab := []byte("ab\x00\xff")
	pool := []c09Range{{nil, 0, 0}, {ab, 0, 0}, {ab, 8, 8}, {ab, 16, 16}, {ab, 32, 32}, {[]byte{0xff}, 8, 8},
		{ab, 3, 3}, {ab, 9, 9}, {ab, 0, 1}, {ab, 0, 8}, {ab, 5, 12}, {ab, 8, 17}, {ab, 0, 32}, {[]byte{0x80}, 0, 1}}
	for _, r1 := range pool {
		for _, r2 := range pool {
			session([]c09Range{r1, r2}, "exh-session-pairs")
		}
	}
	g.Exhaust = append(g.Exhaust, "Session/scribble: all ordered pairs of a pool of 14 ranges (6 aligned empty, 2 unaligned empty, 6 non-empty)")
	for q := 0; q < g.N(400, 6000); q++ {
		n := g.R.Range(3, 8)
		var rs []c09Range
		for j := 0; j < n; j++ {
			if g.R.Intn(3) > 0 {
				rs = append(rs, pool[g.R.Intn(len(pool))])
				continue
			}
			sx := g.R.Bytes(g.R.Range(0, 10), alphabets[g.R.Intn(len(alphabets))])
			t := g.R.Intn(8*len(sx) + 1)
			f := g.R.Intn(t + 1)
			switch g.R.Intn(3) {
			case 0:
				f = t / 8 * 8
				t = f // aligned empty
			case 1:
				f = t / 8 * 8
			}
			rs = append(rs, c09Range{sx, f, t})
		}
		session(rs, "rand-session")
	}

	// (2) random pairs sharing prefixes; payload lengths 0..20 bytes (both sides of cmpBytes' 8-byte switch)
	np := g.N(5000, 120000)
	for q := 0; q < np; q++ {
		al := alphabets[g.R.Intn(len(alphabets))]
		l1 := g.R.Range(0, 20)
		switch g.R.Intn(5) {
		case 0:
			l1 = g.R.Range(6, 11) // around the 8-byte switch
		case 1:
			l1 = g.R.Range(0, 3)
		case 2:
			l1 = g.R.Range(9, 20) // cmpBytes' bytes.Compare side
		}
		s1 := g.R.Bytes(l1, al)
		// s2: shares a prefix with s1
		var s2 []byte
		switch g.R.Intn(6) {
		case 0: // identical
			s2 = append([]byte{}, s1...)
		case 1: // one flipped bit
			s2 = append([]byte{}, s1...)
			if len(s2) > 0 {
				p := g.R.Intn(8 * len(s2))
				s2[p/8] ^= 0x80 >> uint(p%8)
			}
		case 2: // prefix of s1 + random tail
			p := g.R.Intn(l1 + 1)
			s2 = append(append([]byte{}, s1[:p]...), g.R.Bytes(g.R.Range(0, 6), al)...)
		case 3: // s1 + tail
			s2 = append(append([]byte{}, s1...), g.R.Bytes(g.R.Range(0, 10), al)...)
		case 4: // differs only in the last byte's low bits
			s2 = append([]byte{}, s1...)
			if len(s2) > 0 {
				s2[len(s2)-1] ^= byte(1 << uint(g.R.Intn(8)))
			}
		default:
			s2 = g.R.Bytes(g.R.Range(0, 20), al)
		}
		pickT := func(s []byte, other int) int {
			n := 8 * len(s)
			var t int
			switch g.R.Intn(6) {
			case 0:
				t = n
			case 1:
				t = other
			case 2:
				t = (other + 7) / 8 * 8
			case 3:
				t = other + g.R.Range(-9, 9)
			case 4:
				t = g.R.Intn(n/8+1) * 8
			default:
				t = g.R.Intn(n + 1)
			}
			if t < 0 {
				t = 0
			}
			if t > n {
				t = n
			}
			return t
		}
		t1 := pickT(s1, g.R.Intn(8*len(s1)+1))
		t2 := pickT(s2, t1)
		// from: mostly in the first byte (so that the strings share their start), sometimes later
		pickF := func(t int) int {
			switch g.R.Intn(5) {
			case 0:
				return g.R.Intn(t + 1)
			case 1:
				return t
			case 2:
				return t / 8 * 8
			default:
				if t < 7 {
					return g.R.Intn(t + 1)
				}
				return g.R.Intn(8)
			}
		}
		f1 := pickF(t1)
		f2 := pickF(t2)
		if g.R.Intn(3) > 0 && f1/8*8 <= t2 { // same starting byte
			f2 = f1 / 8 * 8
			if g.R.Bool() && f1 <= t2 {
				f2 = f1
			}
		}
		r1, r2 := c09Range{s1, f1, t1}, c09Range{s2, f2, t2}
		if q%4 == 0 {
			newLen(r1, "rand-new")
		}
		cmp(r1, r2, "rand-cmp")
		if q%3 == 0 {
			cmp(r2, r1, "rand-cmp")
		}

		// plain a against r1: derived from the bytes r1 starts at
		base := append([]byte{}, s1[f1/8:]...)
		nb := (t1 - f1/8*8 + 7) / 8 // payload bytes
		var a []byte
		switch g.R.Intn(8) {
		case 0: // shorter than the payload
			if nb > 0 {
				a = base[:g.R.Intn(nb)]
			}
		case 1: // exactly the payload bytes (bits after t still set)
			a = base[:nb]
		case 2: // longer
			a = append(append([]byte{}, base[:nb]...), g.R.Bytes(g.R.Range(1, 4), al)...)
		case 3: // a bit flipped somewhere in the first nb bytes (before or after t)
			a = append([]byte{}, base...)
			if nb > 0 {
				p := g.R.Intn(8 * nb)
				a[p/8] ^= 0x80 >> uint(p%8)
			}
		case 4: // flipped exactly around bit t
			a = append([]byte{}, base...)
			p := t1 - f1/8*8 - g.R.Intn(2)
			if p >= 0 && p < 8*len(a) {
				a[p/8] ^= 0x80 >> uint(p%8)
			}
		case 5: // from s2
			if f1/8 <= len(s2) {
				a = append([]byte{}, s2[f1/8:]...)
			}
		case 6: // shorter and differing
			a = append([]byte{}, base...)
			if nb > 1 {
				a = a[:g.R.Range(1, nb-1)]
				a[g.R.Intn(len(a))] ^= byte(1 << uint(g.R.Intn(8)))
			}
		default:
			a = g.R.Bytes(g.R.Range(0, 20), al)
		}
		upto(a, r1, "rand-upto")

		// a sorted key set around r1's bit string: the bytes r1 starts at, cut, extended and perturbed
		if q%4 == 1 {
			nk := g.R.Range(2, 10)
			var keys [][]byte
			for j := 0; j < nk; j++ {
				k := append([]byte{}, base...)
				switch g.R.Intn(6) {
				case 0: // cut somewhere
					k = k[:g.R.Intn(len(k)+1)]
				case 1: // cut at / around the payload length and extended
					if nb <= len(k) {
						k = append(k[:g.R.Range(c09Max(0, nb-1), nb)], g.R.Bytes(g.R.Range(0, 3), al)...)
					}
				case 2: // one bit flipped inside the payload bytes
					if nb > 0 {
						p := g.R.Intn(8 * nb)
						k[p/8] ^= 0x80 >> uint(p%8)
					}
				case 3: // flipped right after / at bit t (still inside the block / just outside)
					p := t1 - f1/8*8 - g.R.Intn(2)
					if p >= 0 && p < 8*len(k) {
						k[p/8] ^= 0x80 >> uint(p%8)
					}
				case 4: // same payload, different tail
					if nb <= len(k) {
						k = append(k[:nb], g.R.Bytes(g.R.Range(0, 4), al)...)
					}
				default:
					k = g.R.Bytes(g.R.Range(0, 12), al)
				}
				keys = append(keys, k)
			}
			sorted(keys, r1, "rand-sorted")
		}
	}

	// (3) structured sweep aimed at cmpBytes' manual loop / bytes.Compare switch and at CmpUpto's stages:
	// payload byte lengths 1..12 x last-byte fill x position of the single differing byte x which bit x
	// length of a (just past the difference, one short of / equal to / one past the payload)
	sweep := []byte("\x61\x00\x7f\x80\xff\x62\x01\x61\x7f\x80\x00\xff\x62\x61")
	for n := 1; n <= 12; n++ {
		s := append([]byte{}, sweep[:n]...)
		for _, t := range []int{8 * n, 8*n - 3, 8*n - 7} {
			r := c09Range{s, 0, t}
			for _, la := range []int{n - 1, n, n + 1} {
				upto(append([]byte{}, sweep[:la]...), r, "sweep-upto-eq")
			}
			for i := 0; i < n; i++ {
				for _, m := range []byte{0x80, 0x01} {
					a := append([]byte{}, sweep[:n+1]...)
					a[i] ^= m
					for _, la := range []int{i + 1, n - 1, n, n + 1} {
						if la > i && la <= len(a) {
							upto(append([]byte{}, a[:la]...), r, "sweep-upto-diff")
						}
					}
					// the same pair as two bit strings, cut at the same and at different places
					for _, t2 := range []int{8 * n, 8*n - 3, 8 * (i + 1)} {
						r2 := c09Range{append([]byte{}, a[:n]...), 0, t2}
						cmp(r, r2, "sweep-cmp")
						cmp(r2, r, "sweep-cmp")
					}
				}
			}
		}
	}
	// long strings (beyond any small fixed buffer): 17..40 payload bytes, difference late in the string
	for _, n := range []int{16, 17, 24, 33, 40} {
		long := make([]byte, n+1)
		for i := range long {
			long[i] = sweep[(i*5+n)%len(sweep)]
		}
		for _, t := range []int{8 * n, 8*n - 5} {
			r := c09Range{append([]byte{}, long[:n]...), 0, t}
			for _, i := range []int{7, 8, 15, 16, n - 2, n - 1} {
				for _, m := range []byte{0x80, 0x01} {
					a := append([]byte{}, long...)
					a[i] ^= m
					for _, la := range []int{i + 1, n - 1, n, n + 1} {
						if la > i && la <= len(a) {
							upto(append([]byte{}, a[:la]...), r, "sweep-upto-long")
						}
					}
					r2 := c09Range{append([]byte{}, a[:n]...), 0, 8 * n}
					cmp(r, r2, "sweep-cmp-long")
					cmp(r2, r, "sweep-cmp-long")
				}
			}
		}
	}
	g.Exhaust = append(g.Exhaust, "CmpUpto/StrCmpUpto/Cmp: payload lengths 1..12 bytes x to in {8n,8n-3,8n-7} x every position of a single differing byte (high/low bit) x len(a) in {i+1,n-1,n,n+1}")
}
