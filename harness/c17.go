package main

import (
	"fmt"
	"sort"
	"strings"

	"github.com/openacid/low/sigbits"
)

func init() {
	Exec["sigbits.ShardByPrefix"] = func(a []V) string {
		ls, bs := sigbits.ShardByPrefix(a[0].Strs(), a[1].I32())
		return L(I32s(ls), I32s(bs))
	}
	// the returned prefixes used as a routing table: every key is looked up by an upper-bound
	// search (last prefix <= key) over the prefixes keys[B[j]][:L[j]] of the REAL output
	Exec["sigbits.ShardByPrefix/route"] = func(a []V) string {
		keys := a[0].Strs()
		ls, bs := sigbits.ShardByPrefix(keys, a[1].I32())
		return L(I32s(ls), I32s(bs), I32s(c17Route(keys, ls, bs)))
	}
	Register("C17", genC17)
}

func c17Route(keys []string, ls, bs []int32) []int32 {
	prefs := make([]string, len(ls))
	for j := range ls {
		prefs[j] = keys[bs[j]][:ls[j]]
	}
	rs := make([]int32, len(keys))
	for i, k := range keys {
		rs[i] = int32(sort.Search(len(prefs), func(j int) bool { return prefs[j] > k })) - 1
	}
	return rs
}

// c17Key: branch-relevant features of one case, read off the keys and the
// observed result (never used for the verdict).
func c17Key(keys []string, maxSize int, ls, bs []int32) string {
	if len(ls) < 2 || len(bs) != len(ls)+1 {
		return ""
	}
	multi := false
	selfPrefix := false
	maxL := 0
	for j := range ls {
		if bs[j+1]-bs[j] >= 2 {
			multi = true
		}
		if int(ls[j]) > maxL {
			maxL = int(ls[j])
		}
		if bs[j+1]-bs[j] == 1 && int(bs[j+1]) < len(keys) && strings.HasPrefix(keys[bs[j+1]], keys[bs[j]]) {
			selfPrefix = true
		}
	}
	if !multi {
		return ""
	}
	msc := "mid"
	switch {
	case maxSize == 1:
		msc = "1"
	case maxSize == 2:
		msc = "2"
	case maxSize >= len(keys):
		msc = "all"
	}
	return fmt.Sprintf("n%d/ms%s/sh%d/L%d/self%d", c16Bucket(len(keys), 2, 4, 8, 16, 32, 64), msc,
		c16Bucket(len(ls), 2, 3, 4, 8, 16, 32), c16Bucket(maxL, 0, 1, 2, 7, 8, 9, 15, 16, 17), c16B2i(selfPrefix))
}

func genC17(g *Gen) {
	do := func(keys []string, maxSize int, bucket string) {
		g.Stat(bucket)
		// the key is derived from the observed output: run the real code once more here, guarded
		key := ""
		func() {
			defer func() { recover() }()
			ls, bs := sigbits.ShardByPrefix(keys, int32(maxSize))
			key = c17Key(keys, maxSize, ls, bs)
		}()
		g.Do("sigbits.ShardByPrefix", L(Strs(keys), Int(maxSize)), key)
		if key != "" {
			key = "route/" + key
		}
		g.Do("sigbits.ShardByPrefix/route", L(Strs(keys), Int(maxSize)), key)
	}
	allSizes := func(keys []string, bucket string) {
		for ms := 1; ms <= len(keys)+1; ms++ {
			do(keys, ms, bucket)
		}
	}

	// (1) every non-empty subset of a 10-string universe x maxSize in 1..len+1
	{
		uni := c16SortDedup([]string{"", "a", "a\x00", "a\x00\x00", "ab", "abc", "abd", "b", "b\x80", "\xff"})
		for mask := 1; mask < 1<<uint(len(uni)); mask++ {
			var ks []string
			for i := range uni {
				if mask>>uint(i)&1 == 1 {
					ks = append(ks, uni[i])
				}
			}
			allSizes(ks, "exh-subsets")
		}
		g.Exhaust = append(g.Exhaust, "ShardByPrefix: every non-empty subset of {'',a,a00,a0000,ab,abc,abd,b,b80,ff} x maxSize in 1..len+1")
	}
	// (2) hand-shaped families x all maxSize
	{
		// single keys
		for _, k := range []string{"", "\x00", "a", "abcdefgh", "abcdefghi", strings.Repeat("\xff", 17)} {
			allSizes([]string{k}, "shape-single")
		}
		// all keys differ in byte 0
		for n := 2; n <= 9; n++ {
			var ks []string
			for i := 0; i < n; i++ {
				ks = append(ks, string([]byte{byte(i * 31)})+string(g.R.Bytes(g.R.Range(0, 3), nil)))
			}
			allSizes(c16SortDedup(ks), "shape-byte0")
		}
		// deep shared prefixes of 7/8/9/15/16/17/40 bytes, with and without the prefix itself as a key
		for _, pl := range []int{7, 8, 9, 15, 16, 17, 40} {
			for _, al := range [][]byte{{'a', 'b'}, {0x00, 0x01, 'a'}, {0x00, 0x80, 0xff}} {
				p := string(g.R.Bytes(pl, al))
				var ks []string
				for i := 0; i < 7; i++ {
					ks = append(ks, p+string(g.R.Bytes(g.R.Range(1, 3), al)))
				}
				allSizes(c16SortDedup(ks), "shape-deep-prefix")
				allSizes(c16SortDedup(append(ks, p, p+"\x00", p[:pl-1])), "shape-deep-prefix+self")
			}
		}
		// chains: every key a proper prefix of the next; key followed by itself + NUL bytes
		for n := 2; n <= 8; n++ {
			var ks []string
			cur := ""
			for i := 0; i < n; i++ {
				ks = append(ks, cur)
				if i%2 == 0 {
					cur += "\x00"
				} else {
					cur += string(g.R.Bytes(g.R.Range(1, 2), []byte{'a', 0x00, 0xff}))
				}
			}
			allSizes(c16SortDedup(ks), "shape-chain")
		}
	}
	// (2b) long keys: key lengths and shared prefixes around 2^8 and 2^13 bytes (bit positions around
	// 2^11 and 2^16), and one key beyond 2^16 bytes -- a length or bit position kept in a narrower
	// integer shows here only
	{
		for _, pl := range []int{254, 255, 256, 257, 300, 8191, 8192, 8193} {
			al := [][]byte{{'a', 'b'}, {0x00, 0x80, 0xff}}[g.R.Intn(2)]
			p := string(g.R.Bytes(pl, al))
			allSizes([]string{p}, "shape-long")
			allSizes(c16SortDedup([]string{p[:pl-1], p, p + "\x00", p + "a", p + "ab"}), "shape-long")
		}
		big := strings.Repeat("a", 65537)
		allSizes([]string{big}, "shape-long")
		allSizes([]string{big[:65536], "b"}, "shape-long")
	}
	// (2c) very deep shared prefixes: adjacent keys sharing 65535..65540 bytes (a common-prefix length
	// kept in 16 bits wraps here only); a handful of cases -- each argument text is ~130 KB per key
	{
		deep := func(pl int, tails ...string) []string {
			p := strings.Repeat("a", pl)
			var ks []string
			for _, t := range tails {
				ks = append(ks, p+t)
			}
			return c16SortDedup(ks)
		}
		for _, ks := range [][]string{
			deep(65535, "a", "b"),
			deep(65536, "a", "b", "ba"),
			deep(65537, "b", "c"),
			deep(65540, "", "a", "b", "ba"),
		} {
			for _, ms := range []int{1, 2, len(ks)} {
				if ms == 2 && len(ks) == 2 {
					continue
				}
				do(ks, ms, "shape-deep64k")
			}
		}
	}
	// (2d) full fan-out: a range whose keys go on with ALL 256 values of the next byte (and 255 / 254 of
	// them), with and without the bare prefix as a key (257 sub-ranges), sub-ranges of 1..3 keys, directly
	// and one level deeper (3-byte prefix); maxSize around the fan-out -- a bounded split list shows here only
	{
		for _, p := range []string{"p", "pqr"} {
			for _, nb := range []int{256, 255, 254} {
				for _, self := range []bool{true, false} {
					var ks []string
					if self {
						ks = append(ks, p)
					}
					for b := 256 - nb; b < 256; b++ {
						h := p + string([]byte{byte(b)})
						switch b % 3 {
						case 0:
							ks = append(ks, h)
						case 1:
							ks = append(ks, h+"x", h+"y")
						default:
							ks = append(ks, h, h+"a", h+"b")
						}
					}
					if p == "pqr" {
						ks = append(ks, "a", "pq", "q")
					}
					ks = c16SortDedup(ks)
					for _, ms := range []int{1, 2, 3, 128, 255, 256, 257, 258} {
						do(ks, ms, "shape-fanout256")
					}
				}
			}
		}
	}
	// (3) structured random key sets
	nb := g.N(500, 10000)
	for k := 0; k < nb; k++ {
		n := g.R.Range(1, 16)
		switch g.R.Intn(6) {
		case 0:
			n = g.R.Range(16, 60)
		case 1:
			if g.Thorough {
				n = g.R.Range(60, 300)
			}
		}
		keys, desc := c16KeySet(g.R, n)
		if len(keys) == 0 {
			continue
		}
		bucket := "rand/" + desc[:strings.Index(desc, "/")]
		if len(keys) <= 8 {
			allSizes(keys, bucket)
			continue
		}
		for q := 0; q < 5; q++ {
			ms := g.R.Range(1, len(keys)+1)
			switch g.R.Intn(5) {
			case 0:
				ms = g.R.Pick(1, 2, 3)
			case 1:
				ms = g.R.Pick(len(keys)-1, len(keys), len(keys)+1)
			}
			do(keys, ms, bucket)
		}
	}
}
