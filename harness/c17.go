package main

import (
	"fmt"
	"sort"
	"strings"

	"github.com/openacid/low/sigbits"
)

func init() {
	Exec["sigbits.ShardByPrefix"] = func(a []V) string {
		ls, bs := sigbits.ShardByPrefix(a[0].Strs(), a[1].I32())
		return L(I32s(ls), I32s(bs))
	}
	// the returned prefixes used as a routing table: every key is looked up by an upper-bound
	// search (last prefix <= key) over the prefixes keys[B[j]][:L[j]] of the REAL output
	Exec["sigbits.ShardByPrefix/route"] = func(a []V) string {
		keys := a[0].Strs()
		ls, bs := sigbits.ShardByPrefix(keys, a[1].I32())
		return L(I32s(ls), I32s(bs), I32s(c17Route(keys, ls, bs)))
	}
	// a LARGE key set described compactly (prefix + w-byte big-endian counter c0..c0+n-1), one call
	Exec["sigbits.ShardByPrefix/counter"] = func(a []V) string {
		keys := c16CounterKeys(a[0].Str(), a[1].Int(), a[2].I64(), a[3].Int())
		ls, bs := sigbits.ShardByPrefix(keys, a[4].I32())
		return L(I32s(ls), I32s(bs))
	}
	// ONE []string buffer: every step refills it IN PLACE with another ascending list of the same
	// length and then calls ShardByPrefix (kind 0) or only sigbits.New (kind 1) on it
	Exec["sigbits.ShardByPrefix/reuse"] = func(a []V) string {
		var buf []string
		var rs []string
		for _, st := range a[0].L {
			ks := st.L[0].Strs()
			if buf == nil {
				buf = make([]string, len(ks))
			}
			copy(buf, ks)
			if st.L[2].Int() == 0 {
				ls, bs := sigbits.ShardByPrefix(buf, st.L[1].I32())
				rs = append(rs, L(I32s(ls), I32s(bs)))
			} else {
				_ = sigbits.New(buf)
				rs = append(rs, L())
			}
		}
		return L(rs...)
	}
	Register("C17", genC17)
}

func c17Route(keys []string, ls, bs []int32) []int32 {
	prefs := make([]string, len(ls))
	for j := range ls {
		prefs[j] = keys[bs[j]][:ls[j]]
	}
	rs := make([]int32, len(keys))
	for i, k := range keys {
		rs[i] = int32(sort.Search(len(prefs), func(j int) bool { return prefs[j] > k })) - 1
	}
	return rs
}

// c17Key: branch-relevant features of one case, read off the keys and the
// observed result (never used for the verdict).
func c17Key(keys []string, maxSize int, ls, bs []int32) string {
	if len(ls) < 2 || len(bs) != len(ls)+1 {
		return ""
	}
	multi := false
	selfPrefix := false
	maxL := 0
	for j := range ls {
		if bs[j+1]-bs[j] >= 2 {
			multi = true
		}
		if int(ls[j]) > maxL {
			maxL = int(ls[j])
		}
		if bs[j+1]-bs[j] == 1 && int(bs[j+1]) < len(keys) && strings.HasPrefix(keys[bs[j+1]], keys[bs[j]]) {
			selfPrefix = true
		}
	}
	if !multi {
		return ""
	}
	msc := "mid"
	switch {
	case maxSize == 1:
		msc = "1"
	case maxSize == 2:
		msc = "2"
	case maxSize >= len(keys):
		msc = "all"
	}
	return fmt.Sprintf("n%d/ms%s/sh%d/L%d/self%d", c16Bucket(len(keys), 2, 4, 8, 16, 32, 64), msc,
		c16Bucket(len(ls), 2, 3, 4, 8, 16, 32), c16Bucket(maxL, 0, 1, 2, 7, 8, 9, 15, 16, 17), c16B2i(selfPrefix))
}

func genC17(g *Gen) {
	do := func(keys []string, maxSize int, bucket string) {
		g.Stat(bucket)
		// the key is derived from the observed output: run the real code once more here, guarded
		key := ""
		func() {
			defer func() { recover() }()
			ls, bs := sigbits.ShardByPrefix(keys, int32(maxSize))
			key = c17Key(keys, maxSize, ls, bs)
		}()
		g.Do("sigbits.ShardByPrefix", L(Strs(keys), Int(maxSize)), key)
		if key != "" {
			key = "route/" + key
		}
		g.Do("sigbits.ShardByPrefix/route", L(Strs(keys), Int(maxSize)), key)
	}
	// deeply NESTED splits: a^d+"b", a^d+"c" for d = 0..D splits once per d (nesting depth D+1), with
	// depths around and beyond 32 / 64 (per-level scratch tables, depth counters)
	for _, D := range []int{30, 31, 32, 33, 40, 63, 64, 65, 70} {
		var keys []string
		for d := 0; d <= D; d++ {
			keys = append(keys, strings.Repeat("a", d)+"b", strings.Repeat("a", d)+"c")
		}
		sort.Strings(keys)
		for _, ms := range []int{1, 2, 3, 5} {
			do(keys, ms, "nested-deep")
		}
	}
	allSizes := func(keys []string, bucket string) {
		for ms := 1; ms <= len(keys)+1; ms++ {
			do(keys, ms, bucket)
		}
	}

	// maxSize far beyond the key count (a size computed from maxSize in int32 wraps here only)
	bigSizes := func(keys []string, bucket string) {
		for _, ms := range []int{1 << 30, 1<<31 - 2, 1<<31 - 1} {
			do(keys, ms, bucket)
		}
	}

	// (1) every non-empty subset of a 10-string universe x maxSize in 1..len+1
	{
		uni := c16SortDedup([]string{"", "a", "a\x00", "a\x00\x00", "ab", "abc", "abd", "b", "b\x80", "\xff"})
		for mask := 1; mask < 1<<uint(len(uni)); mask++ {
			var ks []string
			for i := range uni {
				if mask>>uint(i)&1 == 1 {
					ks = append(ks, uni[i])
				}
			}
			allSizes(ks, "exh-subsets")
			if len(ks) <= 3 {
				bigSizes(ks, "exh-subsets-bigms")
			}
		}
		g.Exhaust = append(g.Exhaust, "ShardByPrefix: every non-empty subset of {'',a,a00,a0000,ab,abc,abd,b,b80,ff} x maxSize in 1..len+1")
	}
	// (2) hand-shaped families x all maxSize
	{
		// single keys
		for _, k := range []string{"", "\x00", "a", "abcdefgh", "abcdefghi", strings.Repeat("\xff", 17)} {
			allSizes([]string{k}, "shape-single")
		}
		// all keys differ in byte 0
		for n := 2; n <= 9; n++ {
			var ks []string
			for i := 0; i < n; i++ {
				ks = append(ks, string([]byte{byte(i * 31)})+string(g.R.Bytes(g.R.Range(0, 3), nil)))
			}
			allSizes(c16SortDedup(ks), "shape-byte0")
		}
		// deep shared prefixes of 7/8/9/15/16/17/40 bytes, with and without the prefix itself as a key
		for _, pl := range []int{7, 8, 9, 15, 16, 17, 40} {
			for _, al := range [][]byte{{'a', 'b'}, {0x00, 0x01, 'a'}, {0x00, 0x80, 0xff}} {
				p := string(g.R.Bytes(pl, al))
				var ks []string
				for i := 0; i < 7; i++ {
					ks = append(ks, p+string(g.R.Bytes(g.R.Range(1, 3), al)))
				}
				allSizes(c16SortDedup(ks), "shape-deep-prefix")
				allSizes(c16SortDedup(append(ks, p, p+"\x00", p[:pl-1])), "shape-deep-prefix+self")
			}
		}
		// chains: every key a proper prefix of the next; key followed by itself + NUL bytes
		for n := 2; n <= 8; n++ {
			var ks []string
			cur := ""
			for i := 0; i < n; i++ {
				ks = append(ks, cur)
				if i%2 == 0 {
					cur += "\x00"
				} else {
					cur += string(g.R.Bytes(g.R.Range(1, 2), []byte{'a', 0x00, 0xff}))
				}
			}
			allSizes(c16SortDedup(ks), "shape-chain")
		}
	}
	// (2b) long keys: key lengths and shared prefixes around 2^8 and 2^13 bytes (bit positions around
	// 2^11 and 2^16), and one key beyond 2^16 bytes -- a length or bit position kept in a narrower
	// integer shows here only
	{
		for _, pl := range []int{254, 255, 256, 257, 300, 8191, 8192, 8193} {
			al := [][]byte{{'a', 'b'}, {0x00, 0x80, 0xff}}[g.R.Intn(2)]
			p := string(g.R.Bytes(pl, al))
			allSizes([]string{p}, "shape-long")
			allSizes(c16SortDedup([]string{p[:pl-1], p, p + "\x00", p + "a", p + "ab"}), "shape-long")
		}
		big := strings.Repeat("a", 65537)
		allSizes([]string{big}, "shape-long")
		allSizes([]string{big[:65536], "b"}, "shape-long")
	}
	// (2c) very deep shared prefixes: adjacent keys sharing 65535..65540 bytes (a common-prefix length
	// kept in 16 bits wraps here only); a handful of cases -- each argument text is ~130 KB per key
	{
		deep := func(pl int, tails ...string) []string {
			p := strings.Repeat("a", pl)
			var ks []string
			for _, t := range tails {
				ks = append(ks, p+t)
			}
			return c16SortDedup(ks)
		}
		for _, ks := range [][]string{
			deep(65535, "a", "b"),
			deep(65536, "a", "b", "ba"),
			deep(65537, "b", "c"),
			deep(65540, "", "a", "b", "ba"),
		} {
			for _, ms := range []int{1, 2, len(ks)} {
				if ms == 2 && len(ks) == 2 {
					continue
				}
				do(ks, ms, "shape-deep64k")
			}
		}
	}
	// (2d) full fan-out: a range whose keys go on with ALL 256 values of the next byte (and 255 / 254 of
	// them), with and without the bare prefix as a key (257 sub-ranges), sub-ranges of 1..3 keys, directly
	// and one level deeper (3-byte prefix); maxSize around the fan-out -- a bounded split list shows here only
	{
		for _, p := range []string{"p", "pqr"} {
			for _, nb := range []int{256, 255, 254} {
				for _, self := range []bool{true, false} {
					var ks []string
					if self {
						ks = append(ks, p)
					}
					for b := 256 - nb; b < 256; b++ {
						h := p + string([]byte{byte(b)})
						switch b % 3 {
						case 0:
							ks = append(ks, h)
						case 1:
							ks = append(ks, h+"x", h+"y")
						default:
							ks = append(ks, h, h+"a", h+"b")
						}
					}
					if p == "pqr" {
						ks = append(ks, "a", "pq", "q")
					}
					ks = c16SortDedup(ks)
					for _, ms := range []int{1, 2, 3, 128, 255, 256, 257, 258} {
						do(ks, ms, "shape-fanout256")
					}
				}
			}
		}
	}
	// (2e) maxSize = 2^30, MaxInt32-1, MaxInt32 on hand-shaped sets
	{
		for _, ks := range [][]string{{"a"}, {"abc", "abd"}, {"", "a", "b"}, {"a", "ab", "abc", "b"},
			{"\x00", "\x80", "\xff"}, {"p", "pa", "pb", "pc", "q"}} {
			bigSizes(ks, "shape-bigms")
		}
		var ks []string
		for i := 0; i < 40; i++ {
			ks = append(ks, string([]byte{'k', byte(i / 6), byte(i * 5)}))
		}
		bigSizes(c16SortDedup(ks), "shape-bigms")
	}
	// (2f) ONE key buffer refilled in place between calls (a result remembered by slice identity shows here only)
	{
		nh := g.N(150, 3000)
		for k := 0; k < nh; k++ {
			nsteps := g.R.Range(2, 5)
			var sets [][]string
			m := 1 << 30
			for i := 0; i < nsteps; i++ {
				ks, _ := c16KeySet(g.R, g.R.Range(2, 12))
				if len(ks) == 0 {
					ks = []string{"a"}
				}
				sets = append(sets, ks)
				if len(ks) < m {
					m = len(ks)
				}
			}
			var steps []string
			for i, ks := range sets {
				ms := g.R.Range(1, m+1)
				kind := 0
				if i < nsteps-1 && g.R.Intn(4) == 0 {
					kind = 1
				}
				steps = append(steps, L(Strs(ks[:m]), Int(ms), Int(kind)))
			}
			g.Stat("reuse-history")
			g.Do("sigbits.ShardByPrefix/reuse", L(L(steps...)), fmt.Sprintf("reuse/n%d/steps%d", c16Bucket(m, 1, 2, 4, 8), nsteps))
		}
	}
	// (2g) LARGE key sets (>= 262144 keys, described compactly): prefix + 3-byte counter starting at 12345, so
	// that positions 65536, 131072, ... fall inside runs of keys sharing all but the last byte
	{
		type cc struct{ n, ms int }
		cs := []cc{{262144 + 5, 70000}}
		if g.Thorough {
			cs = append(cs, cc{262144 + 5, 1000}, cc{300000, 70000}, cc{300000, 1000})
		}
		for _, c := range cs {
			g.Stat("counter-keys-262144+")
			g.Do("sigbits.ShardByPrefix/counter", L(Str("k"), Int(3), I(12345), Int(c.n), Int(c.ms)), fmt.Sprintf("counter/n%d/ms%d", c.n, c.ms))
		}
	}
	// (3) structured random key sets
	nb := g.N(500, 10000)
	for k := 0; k < nb; k++ {
		n := g.R.Range(1, 16)
		switch g.R.Intn(6) {
		case 0:
			n = g.R.Range(16, 60)
		case 1:
			if g.Thorough {
				n = g.R.Range(60, 300)
			}
		}
		keys, desc := c16KeySet(g.R, n)
		if len(keys) == 0 {
			continue
		}
		bucket := "rand/" + desc[:strings.Index(desc, "/")]
		if len(keys) <= 8 {
			allSizes(keys, bucket)
			continue
		}
		for q := 0; q < 5; q++ {
			ms := g.R.Range(1, len(keys)+1)
			switch g.R.Intn(5) {
			case 0:
				ms = g.R.Pick(1, 2, 3)
			case 1:
				ms = g.R.Pick(len(keys)-1, len(keys), len(keys)+1)
			}
			do(keys, ms, bucket)
		}
	}
}
