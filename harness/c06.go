package main

import (
	"bufio"
	"bytes"
	"fmt"
	"io"
	"strings"

	"github.com/golang/protobuf/proto"
	"github.com/golang/protobuf/ptypes/wrappers"
	"github.com/openacid/errors"
	"github.com/openacid/low/pbcmpl"
)

// ---------------------------------------------------------------------------
// message kinds of C06/C07 (protocol argument `kind`):
//   0  raw legacy message: Marshal()/Unmarshal() methods, encoding = payload
//   1  wrappers.BytesValue (a real generated protobuf message)
//   2  raw legacy message whose Unmarshal rejects a body starting with 0xEE
// each with or without a GetVersion method (pbcmpl.VersionedMessage).

type c06DecodeError struct{}

func (c06DecodeError) Error() string { return "c06: body rejected by the message's Unmarshal" }

var c06ErrDecode error = c06DecodeError{}

type c06Raw struct {
	p     []byte
	picky bool
}

func (m *c06Raw) Marshal() ([]byte, error) { return append([]byte{}, m.p...), nil }
func (m *c06Raw) Unmarshal(b []byte) error {
	if m.picky && len(b) > 0 && b[0] == 0xEE {
		return c06ErrDecode
	}
	m.p = append([]byte{}, b...)
	return nil
}
func (m *c06Raw) Reset()         { m.p = nil }
func (m *c06Raw) String() string { return fmt.Sprintf("%x", m.p) }
func (m *c06Raw) ProtoMessage()  {}

// c06Bad is a legacy message whose Marshal method fails (widening: the error return of
// pbcmpl.marshal / pbcmpl.Marshal)
type c06EncodeError struct{}

func (c06EncodeError) Error() string { return "c06: message refuses to be marshalled" }

type c06Bad struct{ c06Raw }

func (m *c06Bad) Marshal() ([]byte, error) { return nil, c06EncodeError{} }

type c06BadV struct {
	c06Bad
	ver string
}

func (m *c06BadV) GetVersion() string { return m.ver }

type c06RawV struct {
	c06Raw
	ver string
}

func (m *c06RawV) GetVersion() string { return m.ver }

type c06BytesV struct {
	*wrappers.BytesValue
	ver string
}

func (m *c06BytesV) GetVersion() string { return m.ver }

// c06Msg parses the protocol's [hasver, ver, payload] and builds the message.
func c06Msg(kind int, v V) proto.Message {
	hasver, ver, payload := v.L[0].Bool(), v.L[1].Str(), v.L[2].Bytes()
	switch kind {
	case 1:
		bv := &wrappers.BytesValue{Value: payload}
		if hasver {
			return &c06BytesV{bv, ver}
		}
		return bv
	default:
		r := c06Raw{p: payload, picky: kind == 2}
		if hasver {
			return &c06RawV{r, ver}
		}
		return &r
	}
}

func c06Blank(kind int) proto.Message {
	if kind == 1 {
		return &wrappers.BytesValue{Value: []byte("stale")}
	}
	return &c06Raw{p: []byte("stale"), picky: kind == 2}
}

func c06Payload(m proto.Message) []byte {
	switch x := m.(type) {
	case *wrappers.BytesValue:
		return x.Value
	case *c06Raw:
		return x.p
	}
	return nil
}

// c06Reader delivers a list of non-empty chunks, then its terminal error; with
// withLast the terminal error comes together with the last bytes ("n>0 with EOF").
// A chunk larger than p is delivered in pieces.  (Model: Model/Pbcmpl.v cread.)
type c06Reader struct {
	chunks   [][]byte
	terr     error
	withLast bool
	consumed int
}

func (r *c06Reader) Read(p []byte) (int, error) {
	if len(r.chunks) == 0 {
		return 0, r.terr
	}
	c := r.chunks[0]
	if len(c) <= len(p) {
		copy(p, c)
		r.chunks = r.chunks[1:]
		r.consumed += len(c)
		if len(r.chunks) == 0 && r.withLast {
			return len(c), r.terr
		}
		return len(c), nil
	}
	n := copy(p, c)
	r.chunks[0] = c[n:]
	r.consumed += n
	return n, nil
}

func (r *c06Reader) left() []byte {
	var b []byte
	for _, c := range r.chunks {
		b = append(b, c...)
	}
	return b
}

// c06Chunks cuts s by the cyclically repeated pattern of positive sizes (empty
// pattern: one chunk).  (Model: chunks_of.)
func c06Chunks(pat []int64, s []byte) [][]byte {
	var cs [][]byte
	i := 0
	for len(s) > 0 {
		if len(pat) == 0 {
			cs = append(cs, s)
			break
		}
		k := int(pat[i%len(pat)])
		i++
		if k <= 0 || k >= len(s) {
			cs = append(cs, s)
			break
		}
		cs = append(cs, s[:k])
		s = s[k:]
	}
	return cs
}

var c06Injected = fmt.Errorf("c06: injected I/O error")

// c06TempError is an injected error of the net-timeout / EAGAIN kind: it implements
// Temporary() and Timeout().  Script responses with fail = 2 return it.
type c06TempError struct{}

func (c06TempError) Error() string   { return "c06: injected temporary I/O error" }
func (c06TempError) Temporary() bool { return true }
func (c06TempError) Timeout() bool   { return true }

var c06InjectedTemp error = c06TempError{}

func c06NewReader(s []byte, pat []int64, tkind int, withLast bool) *c06Reader {
	r := &c06Reader{chunks: c06Chunks(pat, append([]byte{}, s...)), terr: io.EOF, withLast: withLast}
	if tkind != 0 {
		r.terr = c06Injected
	}
	return r
}

// error classes (through errors.Cause): 0 nil, 1 io.EOF, 2 io.ErrUnexpectedEOF,
// 3 ErrInvalidHeaderSize, 4 ErrInvalidBodySize, 5 the injected reader/writer error,
// 6 body decode error, 9 other.
func c06ErrClass(err error) int {
	if err == nil {
		return 0
	}
	c := errors.Cause(err)
	switch {
	case c == io.EOF:
		return 1
	case c == io.ErrUnexpectedEOF:
		return 2
	case c == pbcmpl.ErrInvalidHeaderSize:
		return 3
	case c == pbcmpl.ErrInvalidBodySize:
		return 4
	case c == c06Injected || c == c06InjectedTemp:
		return 5
	case c == c06ErrDecode || strings.Contains(c.Error(), "c06: body rejected"):
		return 6
	case strings.Contains(c.Error(), "c06: message refuses to be marshalled"):
		return 7
	}
	return 9
}

// c06Writer follows a script of responses, one per Write call: (bytes accepted at
// most, fail?).  An exhausted script accepts everything.  (Model: swrite.)
type c06Writer struct {
	script []V
	i      int
	out    []byte
}

func (w *c06Writer) Write(p []byte) (int, error) {
	if w.i >= len(w.script) {
		w.out = append(w.out, p...)
		return len(p), nil
	}
	e := w.script[w.i]
	w.i++
	n := len(p)
	if e.L[0].Z.IsInt64() && e.L[0].I64() < int64(n) {
		n = int(e.L[0].I64())
	}
	if n < 0 {
		n = 0
	}
	w.out = append(w.out, p[:n]...)
	if e.L[1].Bool() {
		if e.L[1].Z.IsInt64() && e.L[1].I64() == 2 {
			return n, c06InjectedTemp
		}
		return n, c06Injected
	}
	return n, nil
}

// [n, errclass, bytes that reached the writer, Size(msg), HeaderSize(msg)]
func c06RunMarshal(kind int, mv V, script []V) string {
	msg := c06Msg(kind, mv)
	w := &c06Writer{script: script}
	n, err := pbcmpl.Marshal(w, msg)
	return L(I(n), Int(c06ErrClass(err)), Bytes(w.out), Int(pbcmpl.Size(msg)), Int(pbcmpl.HeaderSize(msg)))
}

// repeated Unmarshal until the first error:
// [[n, ver, errclass, payload, consumed] ...], bytes left in the reader
func c06RunStream(kind int, r *c06Reader, total int) (string, string) {
	var steps []string
	for i := 0; i <= total/32+2; i++ {
		msg := c06Blank(kind)
		n, ver, err := pbcmpl.Unmarshal(r, msg)
		var payload []byte
		if err == nil {
			payload = c06Payload(msg)
		}
		steps = append(steps, L(I(n), Str(ver), Int(c06ErrClass(err)), Bytes(payload), Int(r.consumed)))
		if err != nil {
			break
		}
	}
	return L(steps...), Bytes(r.left())
}

func c06RunReadHeader(r *c06Reader) string {
	n, h, err := pbcmpl.ReadHeader(r)
	if err != nil || h == nil {
		return L(I(n), Int(c06ErrClass(err)), Str(""), "0", "0")
	}
	return L(I(n), "0", Str(h.GetVersion()), I(h.GetHeaderSize()), I(h.GetBodySize()))
}

// c06Walk is the user program of the widening (Model/PbcmplWalk.v): ReadHeader, then
// io.ReadFull of exactly GetBodySize bytes, frame after frame, without decoding.
// One step: [n, errclass, ver, hsize, bsize, body bytes read, refused]
func c06Walk(r *c06Reader, total int) (string, string) {
	var steps []string
	for i := 0; i <= total/32+2; i++ {
		n, h, err := pbcmpl.ReadHeader(r)
		if err != nil || h == nil {
			steps = append(steps, L(I(n), Int(c06ErrClass(err)), Str(""), "0", "0", Bytes(nil), "0"))
			break
		}
		ver, hs, bs := h.GetVersion(), h.GetHeaderSize(), h.GetBodySize()
		if hs != 32 || bs < 0 || bs > 65536 {
			steps = append(steps, L(I(n), "0", Str(ver), I(hs), I(bs), Bytes(nil), "1"))
			break
		}
		b := make([]byte, bs)
		nb, err := io.ReadFull(r, b)
		steps = append(steps, L(I(n), Int(c06ErrClass(err)), Str(ver), I(hs), I(bs), Bytes(b[:nb]), "0"))
		if err != nil {
			break
		}
	}
	return L(steps...), Bytes(r.left())
}

// c06RLE renders a byte string in run-length form [[count, byte], ...] with maximal runs.
func c06RLE(b []byte) string {
	var xs []string
	for i := 0; i < len(b); {
		j := i
		for j < len(b) && b[j] == b[i] {
			j++
		}
		xs = append(xs, L(Int(j-i), Int(int(b[i]))))
		i = j
	}
	return L(xs...)
}

// c06WalkHeld: c06Walk over any reader (here: a *bufio.Reader) that KEEPS every Header it was
// given and reads its fields only after the whole stream was walked.
func c06WalkHeld(r io.Reader, total int) (string, string) {
	var steps, held []string
	var hs []pbcmpl.Header
	for i := 0; i <= total/32+2; i++ {
		n, h, err := pbcmpl.ReadHeader(r)
		if err != nil || h == nil {
			steps = append(steps, L(I(n), Int(c06ErrClass(err)), Str(""), "0", "0", Bytes(nil), "0"))
			break
		}
		hs = append(hs, h)
		ver, hsz, bs := h.GetVersion(), h.GetHeaderSize(), h.GetBodySize()
		if hsz != 32 || bs < 0 || bs > 65536 {
			steps = append(steps, L(I(n), "0", Str(ver), I(hsz), I(bs), Bytes(nil), "1"))
			break
		}
		b := make([]byte, bs)
		nb, err := io.ReadFull(r, b)
		steps = append(steps, L(I(n), Int(c06ErrClass(err)), Str(ver), I(hsz), I(bs), Bytes(b[:nb]), "0"))
		if err != nil {
			break
		}
	}
	for _, h := range hs {
		held = append(held, L(Str(h.GetVersion()), I(h.GetHeaderSize()), I(h.GetBodySize())))
	}
	return L(steps...), L(held...)
}

// c06InsertEmpties inserts an empty chunk before the chunk of index p mod len(cs), for each p in
// turn (Model: Run/PbcmplWalkOps.v insert_empties); positions are non-negative.
func c06InsertEmpties(pos []int64, cs [][]byte) [][]byte {
	for _, p := range pos {
		if len(cs) == 0 {
			continue
		}
		at := int(p % int64(len(cs)))
		cs = append(cs[:at], append([][]byte{{}}, cs[at:]...)...)
	}
	return cs
}

func init() {
	// [kind, [[[msg...], chunk pattern, eof with last chunk, cut], ...]]: connections one after the other in this process
	Exec["pbcmpl.Roundtrip/session"] = func(a []V) string {
		kind := a[0].Int()
		var outs []string
		for _, c := range a[1].L {
			w := &c06Writer{}
			for _, mv := range c.L[0].L {
				pbcmpl.Marshal(w, c06Msg(kind, mv))
			}
			s := w.out
			if c.L[3].Z.Sign() >= 0 && c.L[3].Z.IsInt64() && c.L[3].I64() < int64(len(s)) {
				s = s[:c.L[3].I64()]
			}
			r := c06NewReader(s, c.L[1].I64s(), 0, c.L[2].Bool())
			steps, left := c06RunStream(kind, r, len(s))
			outs = append(outs, L(steps, left))
		}
		return L(outs...)
	}
	// [kind, [msg...], chunk pattern, bufio size]
	Exec["pbcmpl.Walk/bufio"] = func(a []V) string {
		kind := a[0].Int()
		w := &c06Writer{}
		for _, mv := range a[1].L {
			pbcmpl.Marshal(w, c06Msg(kind, mv))
		}
		r := c06NewReader(w.out, a[2].I64s(), 0, false)
		steps, held := c06WalkHeld(bufio.NewReaderSize(r, a[3].Int()), len(w.out))
		return L(steps, held)
	}
	// [kind, [[hasver, ver, count, byte]...], chunk pattern, eof with the last chunk]
	Exec["pbcmpl.Roundtrip/big"] = func(a []V) string {
		kind := a[0].Int()
		w := &c06Writer{}
		var per []string
		for _, mv := range a[1].L {
			payload := bytes.Repeat([]byte{byte(mv.L[3].Int())}, mv.L[2].Int())
			var msg proto.Message
			hasver, ver := mv.L[0].Bool(), mv.L[1].Str()
			if kind == 1 {
				bv := &wrappers.BytesValue{Value: payload}
				msg = bv
				if hasver {
					msg = &c06BytesV{bv, ver}
				}
			} else {
				rw := c06Raw{p: payload}
				msg = &rw
				if hasver {
					msg = &c06RawV{rw, ver}
				}
			}
			n, err := pbcmpl.Marshal(w, msg)
			per = append(per, L(I(n), Int(c06ErrClass(err)), Int(pbcmpl.Size(msg)), Int(pbcmpl.HeaderSize(msg))))
		}
		r := c06NewReader(w.out, a[2].I64s(), 0, a[3].Bool())
		var steps []string
		for i := 0; i <= len(w.out)/32+2; i++ {
			msg := c06Blank(kind)
			n, ver, err := pbcmpl.Unmarshal(r, msg)
			var payload []byte
			if err == nil {
				payload = c06Payload(msg)
			}
			steps = append(steps, L(I(n), Str(ver), Int(c06ErrClass(err)), c06RLE(payload), Int(r.consumed)))
			if err != nil {
				break
			}
		}
		return L(c06RLE(w.out), L(per...), L(steps...), c06RLE(r.left()))
	}
	// [kind, [msg...], chunk pattern, eof with the last chunk, positions of empty chunks]
	Exec["pbcmpl.Roundtrip/empties"] = func(a []V) string {
		kind := a[0].Int()
		w := &c06Writer{}
		for _, mv := range a[1].L {
			pbcmpl.Marshal(w, c06Msg(kind, mv))
		}
		r := c06NewReader(w.out, a[2].I64s(), 0, a[3].Bool())
		r.chunks = c06InsertEmpties(a[4].I64s(), r.chunks)
		steps, left := c06RunStream(kind, r, len(w.out))
		return L(Bytes(w.out), steps, left)
	}
	// [kind, [msg...], chunk pattern, eof with the last chunk]
	Exec["pbcmpl.Walk/frames"] = func(a []V) string {
		kind := a[0].Int()
		w := &c06Writer{}
		for _, mv := range a[1].L {
			pbcmpl.Marshal(w, c06Msg(kind, mv))
		}
		r := c06NewReader(w.out, a[2].I64s(), 0, a[3].Bool())
		steps, left := c06Walk(r, len(w.out))
		return L(steps, left)
	}
	// widening: [[hasver, ver, payload], [[accept, fail], ...]] with a message whose Marshal method fails
	// -> [n, errclass, bytes that reached the writer, HeaderSize(msg)]
	Exec["pbcmpl.Marshal/encerr"] = func(a []V) string {
		hasver, ver, payload := a[0].L[0].Bool(), a[0].L[1].Str(), a[0].L[2].Bytes()
		var msg proto.Message = &c06Bad{c06Raw{p: payload}}
		if hasver {
			msg = &c06BadV{c06Bad{c06Raw{p: payload}}, ver}
		}
		w := &c06Writer{script: a[1].L}
		n, err := pbcmpl.Marshal(w, msg)
		return L(I(n), Int(c06ErrClass(err)), Bytes(w.out), Int(pbcmpl.HeaderSize(msg)))
	}
	// [kind, [hasver, ver, payload]]
	Exec["pbcmpl.Marshal"] = func(a []V) string {
		return c06RunMarshal(a[0].Int(), a[1], nil)
	}
	// [kind, [msg...], chunk pattern, eof with the last chunk]
	Exec["pbcmpl.Roundtrip"] = func(a []V) string {
		kind := a[0].Int()
		w := &c06Writer{}
		var per []string
		for _, mv := range a[1].L {
			msg := c06Msg(kind, mv)
			n, err := pbcmpl.Marshal(w, msg)
			per = append(per, L(I(n), Int(c06ErrClass(err)), Int(pbcmpl.Size(msg)), Int(pbcmpl.HeaderSize(msg))))
		}
		r := c06NewReader(w.out, a[2].I64s(), 0, a[3].Bool())
		steps, left := c06RunStream(kind, r, len(w.out))
		return L(Bytes(w.out), L(per...), steps, left)
	}
	// [kind, msg, chunk pattern]
	Exec["pbcmpl.ReadHeader"] = func(a []V) string {
		w := &c06Writer{}
		pbcmpl.Marshal(w, c06Msg(a[0].Int(), a[1]))
		return c06RunReadHeader(c06NewReader(w.out, a[2].I64s(), 0, false))
	}
	Register("C06", genC06)
}

// ---------------------------------------------------------------------------
// generator

func c06MsgText(hasver bool, ver string, payload []byte) string {
	return L(B(hasver), Str(ver), Bytes(payload))
}

func c06LenClass(n int) string {
	switch {
	case n == 0:
		return "0"
	case n == 1:
		return "1"
	case n < 32:
		return "<32"
	case n == 32:
		return "32"
	case n < 128:
		return "<128"
	case n < 512:
		return "<512"
	case n == 512:
		return "512"
	default:
		return ">512"
	}
}

func c06PatClass(pat []int64) string {
	switch {
	case len(pat) == 0:
		return "whole"
	case len(pat) == 1 && pat[0] == 1:
		return "1byte"
	case len(pat) == 1:
		return "fixed"
	}
	return "mixed"
}

// a version of exactly n bytes (n <= 16) not ending in NUL; style 1 embeds NULs,
// style 2 uses non-NUL high bytes only
func c06Ver(r *Rand, n int, style int) string {
	b := make([]byte, n)
	for i := range b {
		switch style {
		case 0:
			b[i] = "0123456789.abcv-+"[r.Intn(17)]
		case 1:
			b[i] = []byte{0, 0, '1', '.', 0xff}[r.Intn(5)]
		default:
			b[i] = byte(1 + r.Intn(255))
		}
	}
	if n > 0 && b[n-1] == 0 {
		b[n-1] = '7'
	}
	return string(b)
}

func c06Pattern(r *Rand) []int64 {
	switch r.Intn(7) {
	case 0:
		return nil
	case 1:
		return []int64{1}
	case 2:
		return []int64{int64(r.Pick(2, 3, 7, 16, 31, 32, 33, 64, 511, 512, 513))}
	case 3:
		return []int64{32, int64(r.Range(1, 40))}
	default:
		n := r.Range(2, 6)
		p := make([]int64, n)
		for i := range p {
			if r.Intn(3) == 0 {
				p[i] = int64(r.Range(1, 3))
			} else {
				p[i] = int64(r.Range(1, 70))
			}
		}
		return p
	}
}

func c06Payloadgen(r *Rand, n int) []byte {
	a := alphabets[r.Intn(len(alphabets))]
	return r.Bytes(n, a)
}

func genC06(g *Gen) {
	bodyLens := []int{0, 1, 31, 32, 33, 127, 128}
	roundtrip := func(kind int, msgs []string, lens []int, vlens []int, pat []int64, wl bool, bucket string) {
		g.Stat(bucket)
		maxl, maxv := 0, -1
		for _, l := range lens {
			if l > maxl {
				maxl = l
			}
		}
		for _, l := range vlens {
			if l > maxv {
				maxv = l
			}
		}
		key := fmt.Sprintf("rt/k%d/f%d/b%s/v%d/%s/wl%s", kind, len(msgs), c06LenClass(maxl), maxv, c06PatClass(pat), B(wl))
		if len(msgs) == 0 || (len(msgs) == 1 && maxl == 0 && maxv < 0) {
			key = ""
		}
		g.Do("pbcmpl.Roundtrip", L(Int(kind), L(msgs...), I64s(pat), B(wl)), key)
	}

	// (1) exhaustive: kind x version length 0..16 (and no GetVersion) x body length x chunking, one frame
	pats := [][]int64{nil, {1}, {7}, {32, 5}}
	for kind := 0; kind <= 1; kind++ {
		for vl := -1; vl <= 16; vl++ {
			for _, bl := range bodyLens {
				for style := 0; style < 3; style++ {
					if vl <= 0 && style > 0 {
						continue
					}
					ver := ""
					if vl > 0 {
						ver = c06Ver(g.R, vl, style)
					}
					p := c06Payloadgen(g.R, bl)
					m := c06MsgText(vl >= 0, ver, p)
					mk := ""
					if bl > 0 || vl >= 0 {
						mk = fmt.Sprintf("m/k%d/b%s/v%d/s%d", kind, c06LenClass(bl), vl, style)
					}
					g.Stat("exh-marshal")
					g.Do("pbcmpl.Marshal", L(Int(kind), m), mk)
					for pi, pat := range pats {
						if !g.Thorough && style > 0 && pi > 1 {
							continue
						}
						roundtrip(kind, []string{m}, []int{bl}, []int{vl}, pat, pi%2 == 1, "exh-roundtrip1")
						g.Stat("exh-readheader")
						g.Do("pbcmpl.ReadHeader", L(Int(kind), m, I64s(pat)), strings.Replace(mk, "m/", "rh/", 1)+"/"+c06PatClass(pat))
					}
				}
			}
		}
	}
	g.Exhaust = append(g.Exhaust, "kind {raw, BytesValue} x {no GetVersion, version length 0..16 (printable / embedded NUL / 16 non-NUL styles)} x body length {0,1,31,32,33,127,128} x chunking {whole, 1 byte, 7, 32+5}: Marshal, Roundtrip, ReadHeader")

	// (2) big bodies: 512 (= io.ReadAll's first buffer), 513, 4096, multi-KB
	for kind := 0; kind <= 1; kind++ {
		for _, bl := range []int{511, 512, 513, 1024, 4096, g.N(5000, 20000)} {
			for _, pat := range [][]int64{nil, {512}, {33, 1000}, {1}} {
				if len(pat) == 1 && pat[0] == 1 && bl > 1100 && !g.Thorough {
					continue
				}
				p := c06Payloadgen(g.R, bl)
				ver := c06Ver(g.R, g.R.Range(1, 16), 0)
				m := c06MsgText(true, ver, p)
				g.Do("pbcmpl.Marshal", L(Int(kind), m), fmt.Sprintf("m/k%d/b%s/big", kind, c06LenClass(bl)))
				roundtrip(kind, []string{m, m}, []int{bl}, []int{len(ver)}, pat, g.R.Bool(), "big-body")
			}
		}
	}

	// (3) random streams of 1..5 frames
	n := g.N(1500, 40000)
	for i := 0; i < n; i++ {
		kind := g.R.Intn(2)
		nf := g.R.Range(1, 5)
		var msgs []string
		var lens, vlens []int
		for f := 0; f < nf; f++ {
			var bl int
			switch g.R.Intn(4) {
			case 0:
				bl = g.R.Pick(0, 1, 31, 32, 33, 127, 128)
			case 1:
				bl = g.R.Range(0, 40)
			case 2:
				bl = g.R.Range(0, 300)
			default:
				bl = g.R.Range(0, 12)
			}
			if g.R.Intn(60) == 0 {
				bl = g.R.Range(500, 1500)
			}
			hasver := g.R.Intn(4) != 0
			vl := -1
			ver := ""
			if hasver {
				vl = g.R.Range(0, 16)
				if g.R.Intn(4) == 0 {
					vl = g.R.Pick(0, 1, 15, 16)
				}
				ver = c06Ver(g.R, vl, g.R.Intn(3))
			}
			msgs = append(msgs, c06MsgText(hasver, ver, c06Payloadgen(g.R, bl)))
			lens = append(lens, bl)
			vlens = append(vlens, vl)
		}
		roundtrip(kind, msgs, lens, vlens, c06Pattern(g.R), g.R.Intn(3) == 0, fmt.Sprintf("rand-frames%d", nf))
	}
	// (7) histories: a dropped connection (stream cut, clean EOF) followed by good ones in the same process
	connText := func(msgs []string, pat []int64, wl bool, cut int) string {
		return L(L(msgs...), I64s(pat), B(wl), Int(cut))
	}
	for kind := 0; kind <= 1; kind++ {
		for _, bl := range []int{1, 2, 12, 33, 200, 600} {
			m := c06MsgText(true, c06Ver(g.R, g.R.Range(0, 16), 0), c06Payloadgen(g.R, bl))
			good := c06MsgText(g.R.Bool(), c06Ver(g.R, g.R.Range(1, 16), 0), c06Payloadgen(g.R, g.R.Range(1, 40)))
			elen := 32 + bl // raw; BytesValue adds 2..3 bytes
			for _, cut := range []int{0, 1, 31, 32, 33, 32 + (bl+1)/2, elen - 1, elen} {
				for _, pat := range [][]int64{nil, {1}, {7}} {
					g.Stat("session-drop-then-good")
					g.Do("pbcmpl.Roundtrip/session", L(Int(kind), L(
						connText([]string{m}, pat, false, cut),
						connText([]string{good, m}, pat, g.R.Bool(), -1),
						connText([]string{m, good}, nil, false, cut),
						connText([]string{good}, pat, false, -1))),
						fmt.Sprintf("sess/k%d/b%s/cut%d/%s", kind, c06LenClass(bl), cut, c06PatClass(pat)))
				}
			}
		}
	}
	n = g.N(150, 4000)
	for i := 0; i < n; i++ {
		kind := g.R.Intn(2)
		nc := g.R.Range(2, 5)
		var conns []string
		for c := 0; c < nc; c++ {
			var msgs []string
			tot := 0
			for f, nf := 0, g.R.Range(1, 3); f < nf; f++ {
				bl := g.R.Pick(1, 2, 31, 33, g.R.Range(1, 120))
				tot += 32 + bl
				msgs = append(msgs, c06MsgText(g.R.Intn(3) != 0, c06Ver(g.R, g.R.Range(0, 16), g.R.Intn(3)), c06Payloadgen(g.R, bl)))
			}
			cut := -1
			if g.R.Intn(2) == 0 {
				cut = g.R.Intn(tot + 1)
			}
			conns = append(conns, connText(msgs, c06Pattern(g.R), g.R.Intn(3) == 0, cut))
		}
		g.Stat("session-random")
		g.Do("pbcmpl.Roundtrip/session", L(Int(kind), L(conns...)), fmt.Sprintf("sess/k%d/rand%d", kind, nc))
	}
	// Marshal histories in one process: a version that is a proper prefix of the previous one, equal body lengths
	for kind := 0; kind <= 1; kind++ {
		for _, pr := range [][2]string{{"1.0.12", "1.0.1"}, {"1.0.1", "1.0.12"}, {"ab", ""}, {"0123456789abcdef", "0123456789abcde"}, {"2.0", "2"}} {
			for _, bl := range []int{0, 3, 40} {
				p1, p2 := c06Payloadgen(g.R, bl), c06Payloadgen(g.R, bl)
				m1, m2 := c06MsgText(true, pr[0], p1), c06MsgText(true, pr[1], p2)
				g.Stat("version-prefix-history")
				g.Do("pbcmpl.Roundtrip", L(Int(kind), L(m1, m2, m1, c06MsgText(false, "", p2)), I64s(nil), B(false)), fmt.Sprintf("rt/k%d/prefix/%s/b%d", kind, pr[1], bl))
			}
		}
	}

	// (8) a *bufio.Reader (small buffers: refills while headers are held) between the chunk reader and ReadHeader
	for kind := 0; kind <= 1; kind++ {
		for _, bsz := range []int{16, 32, 33, 48, 64, 100, 4096} {
			for _, pat := range [][]int64{nil, {1}, {5}, {40}} {
				var msgs []string
				for f, nf := 0, g.R.Range(3, 6); f < nf; f++ {
					msgs = append(msgs, c06MsgText(g.R.Intn(4) != 0, c06Ver(g.R, g.R.Range(1, 16), g.R.Intn(3)), c06Payloadgen(g.R, g.R.Pick(0, 1, 7, 31, 32, 33, 100))))
				}
				g.Stat("walk-bufio")
				g.Do("pbcmpl.Walk/bufio", L(Int(kind), L(msgs...), I64s(pat), Int(bsz)), fmt.Sprintf("wbuf/k%d/z%d/%s", kind, bsz, c06PatClass(pat)))
			}
		}
	}
	n = g.N(150, 4000)
	for i := 0; i < n; i++ {
		kind := g.R.Intn(2)
		var msgs []string
		for f, nf := 0, g.R.Range(1, 6); f < nf; f++ {
			msgs = append(msgs, c06MsgText(g.R.Intn(4) != 0, c06Ver(g.R, g.R.Range(0, 16), g.R.Intn(3)), c06Payloadgen(g.R, g.R.Pick(0, 1, 31, 33, g.R.Range(0, 300)))))
		}
		bsz := g.R.Pick(16, 32, 40, 64, 128, 512, 4096)
		g.Stat("walk-bufio-random")
		g.Do("pbcmpl.Walk/bufio", L(Int(kind), L(msgs...), I64s(c06Pattern(g.R)), Int(bsz)), fmt.Sprintf("wbuf/k%d/z%d/rand", kind, bsz))
	}

	// (9) bodies above 1 MiB (run-length arguments), followed by more frames
	bigm := func(hasver bool, ver string, count int, b byte) string {
		return L(B(hasver), Str(ver), Int(count), Int(int(b)))
	}
	for kind := 0; kind <= 1; kind++ {
		for ci, count := range []int{1<<20 - 1, 1 << 20, 1<<20 + 1, 1<<20 + 1000, 2<<20 + 17} {
			for pi, pat := range [][]int64{nil, {65536}, {4093}} {
				if !g.Thorough && (ci+pi+kind)%3 != 0 && count != 1<<20+1000 {
					continue
				}
				small1 := bigm(true, "s.1", g.R.Range(0, 9), 'x')
				small2 := bigm(false, "", g.R.Range(1, 40), 'y')
				g.Stat("big-body")
				g.Do("pbcmpl.Roundtrip/big", L(Int(kind), L(bigm(true, "big", count, 'a'), small1, small2), I64s(pat), B(pi == 1)), fmt.Sprintf("big/k%d/c%d/%s/first", kind, count, c06PatClass(pat)))
				g.Do("pbcmpl.Roundtrip/big", L(Int(kind), L(small2, bigm(false, "", count, 0), bigm(true, "v", count/2, 'b'), small1), I64s(pat), B(false)), fmt.Sprintf("big/k%d/c%d/%s/middle", kind, count, c06PatClass(pat)))
			}
		}
	}

	// (6) widening: readers that return (0, nil) between chunks: empty chunks at the start, at frame and
	// header/body boundaries (pattern {32, body}) and at random places
	empties := func(kind int, msgs []string, pat []int64, wl bool, pos []int64, bucket string) {
		g.Stat(bucket)
		g.Do("pbcmpl.Roundtrip/empties", L(Int(kind), L(msgs...), I64s(pat), B(wl), I64s(pos)),
			fmt.Sprintf("emp/k%d/f%d/%s/wl%s/e%d", kind, len(msgs), c06PatClass(pat), B(wl), len(pos)))
	}
	for kind := 0; kind <= 1; kind++ {
		for _, bl := range []int{0, 1, 33, 513} {
			m := c06MsgText(true, c06Ver(g.R, g.R.Range(0, 16), 0), c06Payloadgen(g.R, bl))
			for _, pos := range [][]int64{{0}, {1}, {0, 0}, {1, 1, 1}, {0, 2, 4}} {
				empties(kind, []string{m}, []int64{32, 7}, len(pos)%2 == 0, pos, "empties-boundary")
				empties(kind, []string{m, m}, []int64{int64(32 + bl + 2)}, len(pos)%2 == 1, pos, "empties-frame-boundary")
			}
		}
	}
	n = g.N(300, 8000)
	for i := 0; i < n; i++ {
		kind := g.R.Intn(2)
		nf := g.R.Range(1, 4)
		var msgs []string
		for f := 0; f < nf; f++ {
			bl := g.R.Pick(0, 1, 31, 32, 33, g.R.Range(0, 200), g.R.Range(0, 12))
			hasver := g.R.Intn(4) != 0
			ver := ""
			if hasver {
				ver = c06Ver(g.R, g.R.Range(0, 16), g.R.Intn(3))
			}
			msgs = append(msgs, c06MsgText(hasver, ver, c06Payloadgen(g.R, bl)))
		}
		pos := make([]int64, g.R.Range(1, 5))
		for j := range pos {
			pos[j] = int64(g.R.Intn(40))
		}
		empties(kind, msgs, c06Pattern(g.R), g.R.Intn(3) == 0, pos, fmt.Sprintf("empties-rand%d", nf))
	}

	// (5) widening: the same kinds of streams walked with ReadHeader + io.ReadFull (no decoding)
	walk := func(kind int, msgs []string, maxl int, pat []int64, wl bool, bucket string) {
		g.Stat(bucket)
		g.Do("pbcmpl.Walk/frames", L(Int(kind), L(msgs...), I64s(pat), B(wl)),
			fmt.Sprintf("walk/k%d/f%d/b%s/%s/wl%s", kind, len(msgs), c06LenClass(maxl), c06PatClass(pat), B(wl)))
	}
	for kind := 0; kind <= 1; kind++ {
		for _, bl := range []int{0, 1, 31, 32, 33, 127, 128, 511, 512, 513, 4096} {
			for pi, pat := range [][]int64{nil, {1}, {7}, {32, 5}, {512}} {
				if bl > 600 && len(pat) == 1 && pat[0] == 1 && !g.Thorough {
					continue
				}
				vl := g.R.Range(0, 16)
				m1 := c06MsgText(true, c06Ver(g.R, vl, g.R.Intn(3)), c06Payloadgen(g.R, bl))
				m2 := c06MsgText(false, "", c06Payloadgen(g.R, g.R.Range(0, 5)))
				walk(kind, []string{m1}, bl, pat, pi%2 == 1, "walk-exh1")
				walk(kind, []string{m2, m1, m2}, bl, pat, pi%2 == 0, "walk-exh3")
			}
		}
	}
	n = g.N(400, 10000)
	for i := 0; i < n; i++ {
		kind := g.R.Intn(2)
		nf := g.R.Range(0, 5)
		var msgs []string
		maxl := 0
		for f := 0; f < nf; f++ {
			bl := g.R.Pick(0, 1, 31, 32, 33, g.R.Range(0, 300), g.R.Range(0, 12))
			if g.R.Intn(60) == 0 {
				bl = g.R.Range(500, 1500)
			}
			if bl > maxl {
				maxl = bl
			}
			hasver := g.R.Intn(4) != 0
			ver := ""
			if hasver {
				ver = c06Ver(g.R, g.R.Range(0, 16), g.R.Intn(3))
			}
			msgs = append(msgs, c06MsgText(hasver, ver, c06Payloadgen(g.R, bl)))
		}
		walk(kind, msgs, maxl, c06Pattern(g.R), g.R.Intn(3) == 0, fmt.Sprintf("walk-rand%d", nf))
	}

	// (4) the empty stream
	roundtrip(0, nil, nil, nil, nil, false, "empty-stream")
	roundtrip(1, nil, nil, nil, []int64{1}, true, "empty-stream")
}
