package main

import (
	"bufio"
	"encoding/binary"
	"fmt"
	"io"
	"os"

	"github.com/openacid/low/pbcmpl"
)

// C07: truncation, write failure, corrupt headers.  Message kinds, reader, writer,
// error classes and runners are shared with C06 (c06.go).

// c07About names the case on stderr BEFORE running it when a declared body size is
// huge: an implementation that pre-allocates the declared size dies with an
// unrecoverable out-of-memory error, and this line identifies the input.
func c07About(op string, s []byte, args func() string) {
	off := 0
	for off+32 <= len(s) {
		bs := binary.LittleEndian.Uint64(s[off+24 : off+32])
		if bs > 1<<24 {
			fmt.Fprintf(os.Stderr, "ABOUT\t%s\t%s\n", op, args())
			return
		}
		off += 32 + int(bs)
	}
}

func c07ArgsText(a []V) string {
	xs := make([]string, len(a))
	for i, v := range a {
		xs[i] = c07ValText(v)
	}
	return L(xs...)
}

func c07ValText(v V) string {
	if !v.IsList() {
		return v.Z.String()
	}
	xs := make([]string, len(v.L))
	for i, x := range v.L {
		xs[i] = c07ValText(x)
	}
	return L(xs...)
}

func init() {
	// [kind, stream bytes, chunk pattern, terminal kind, terminal with last chunk]
	Exec["pbcmpl.Unmarshal/stream"] = func(a []V) string {
		s := a[1].Bytes()
		c07About("pbcmpl.Unmarshal/stream", s, func() string { return c07ArgsText(a) })
		r := c06NewReader(s, a[2].I64s(), a[3].Int(), a[4].Bool())
		steps, left := c06RunStream(a[0].Int(), r, len(s))
		return L(steps, left)
	}
	// [stream bytes, chunk pattern, terminal kind, with last]
	Exec["pbcmpl.ReadHeader/bytes"] = func(a []V) string {
		return c06RunReadHeader(c06NewReader(a[0].Bytes(), a[1].I64s(), a[2].Int(), a[3].Bool()))
	}
	// [kind, [hasver, ver, payload], [[accept, fail], ...]]
	Exec["pbcmpl.Marshal/faulty"] = func(a []V) string {
		return c06RunMarshal(a[0].Int(), a[1], a[2].L)
	}
	// [kind, stream bytes, chunk pattern, terminal kind, bufio size]: Unmarshal until the first error over a *bufio.Reader
	Exec["pbcmpl.Unmarshal/bufio"] = func(a []V) string {
		kind := a[0].Int()
		s := a[1].Bytes()
		c07About("pbcmpl.Unmarshal/bufio", s, func() string { return c07ArgsText(a) })
		br := bufio.NewReaderSize(c06NewReader(s, a[2].I64s(), a[3].Int(), false), a[4].Int())
		var steps []string
		for i := 0; i <= len(s)/32+2; i++ {
			msg := c06Blank(kind)
			n, ver, err := pbcmpl.Unmarshal(br, msg)
			var payload []byte
			if err == nil {
				payload = c06Payload(msg)
			}
			steps = append(steps, L(I(n), Str(ver), Int(c06ErrClass(err)), Bytes(payload)))
			if err != nil {
				break
			}
		}
		return L(steps...)
	}
	// [kind, [[msg, script], ...]]: Marshal calls one after the other in this process
	Exec["pbcmpl.Marshal/session"] = func(a []V) string {
		var outs []string
		for _, c := range a[1].L {
			outs = append(outs, c06RunMarshal(a[0].Int(), c.L[0], c.L[1].L))
		}
		return L(outs...)
	}
	// widening: [kind, [chunk...], terminal kind, with last]: explicit chunks, empty ones included
	Exec["pbcmpl.Unmarshal/chunks"] = func(a []V) string {
		var chunks [][]byte
		total := 0
		var all []byte
		for _, c := range a[1].L {
			b := append([]byte{}, c.Bytes()...)
			chunks = append(chunks, b)
			total += len(b)
			all = append(all, b...)
		}
		c07About("pbcmpl.Unmarshal/chunks", all, func() string { return c07ArgsText(a) })
		r := &c06Reader{chunks: chunks, terr: io.EOF, withLast: a[3].Bool()}
		if a[2].Int() != 0 {
			r.terr = c06Injected
		}
		steps, left := c06RunStream(a[0].Int(), r, total)
		return L(steps, left)
	}
	// widening: [stream bytes, chunk pattern, terminal kind, with last]
	Exec["pbcmpl.Walk/bytes"] = func(a []V) string {
		s := a[0].Bytes()
		steps, left := c06Walk(c06NewReader(s, a[1].I64s(), a[2].Int(), a[3].Bool()), len(s))
		return L(steps, left)
	}
	Register("C07", genC07)
}

// Go-side frame builder (the harness's own, independent of pbcmpl)
func c07Header(ver []byte, hsize, bsize uint64) []byte {
	h := make([]byte, 32)
	copy(h, ver)
	binary.LittleEndian.PutUint64(h[16:], hsize)
	binary.LittleEndian.PutUint64(h[24:], bsize)
	return h
}

func c07BodyEnc(kind int, payload []byte) []byte {
	if kind != 1 || len(payload) == 0 {
		return payload
	}
	b := []byte{0x0a}
	n := uint64(len(payload))
	for n >= 0x80 {
		b = append(b, byte(n)|0x80)
		n >>= 7
	}
	b = append(b, byte(n))
	return append(b, payload...)
}

func c07Frame(kind int, ver string, payload []byte) []byte {
	body := c07BodyEnc(kind, payload)
	return append(c07Header([]byte(ver), 32, uint64(len(body))), body...)
}

func c07Script(resp ...[2]int64) string {
	xs := make([]string, len(resp))
	for i, r := range resp {
		xs[i] = L(I(r[0]), I(r[1]))
	}
	return L(xs...)
}

func genC07(g *Gen) {
	nstream := 0
	stream := func(kind int, s []byte, pat []int64, tk int, wl bool, key, bucket string) {
		g.Stat(bucket)
		g.Do("pbcmpl.Unmarshal/stream", L(Int(kind), Bytes(s), I64s(pat), Int(tk), B(wl)), key)
		// the same bytes through a *bufio.Reader (every stream of the cut sweeps when the error is delivered alone;
		// every 4th of the others): buffer 4096 mostly, small buffers too
		if !wl && (g.Thorough || bucket == "cut-every-point" || bucket == "cut-second-frame" || nstream%4 == 1) {
			bsz := 4096
			if nstream%5 == 2 {
				bsz = g.R.Pick(16, 32, 40, 64, 600)
			}
			g.Stat("bufio:" + bucket)
			g.Do("pbcmpl.Unmarshal/bufio", L(Int(kind), Bytes(s), I64s(pat), Int(tk), Int(bsz)), fmt.Sprintf("buf%d/%s", bsz, key))
		}
		// widening: the same bytes walked with ReadHeader + io.ReadFull (every 3rd stream; every one when thorough)
		nstream++
		if g.Thorough || nstream%3 == 0 {
			g.Stat("walk:" + bucket)
			g.Do("pbcmpl.Walk/bytes", L(Bytes(s), I64s(pat), Int(tk), B(wl)), "walk/"+key)
		}
	}
	readHeader := func(s []byte, pat []int64, tk int, wl bool, key string) {
		g.Stat("readheader")
		g.Do("pbcmpl.ReadHeader/bytes", L(Bytes(s), I64s(pat), Int(tk), B(wl)), key)
	}
	cutClass := func(k, flen int) string {
		switch {
		case k == 0:
			return "0"
		case k < 32:
			return "hdr"
		case k == 32:
			return "32"
		case k < flen:
			return "body"
		case k == flen:
			return "full"
		}
		return "past"
	}

	// (1) EVERY cut point of every generated frame, EOF and injected-error terminals,
	// delivered separately or with the last chunk, several chunkings; also behind a complete frame
	bodyLens := []int{0, 1, 2, 31, 32, 33, 100}
	if g.Thorough {
		bodyLens = append(bodyLens, 127, 128, 511, 512, 513, 700)
	}
	for kind := 0; kind <= 1; kind++ {
		for _, bl := range bodyLens {
			ver := c06Ver(g.R, g.R.Range(0, 16), g.R.Intn(3))
			f := c07Frame(kind, ver, c06Payloadgen(g.R, bl))
			lead := c07Frame(kind, "1.0.0", c06Payloadgen(g.R, g.R.Range(0, 9)))
			for k := 0; k <= len(f); k++ {
				for tk := 0; tk <= 1; tk++ {
					for wl := 0; wl <= 1; wl++ {
						pats := [][]int64{nil, {1}, c06Pattern(g.R)}
						if bl > 150 {
							pats = [][]int64{nil, c06Pattern(g.R)}
						}
						for _, pat := range pats {
							key := fmt.Sprintf("cut/k%d/b%s/%s/t%d/wl%d/%s", kind, c06LenClass(bl), cutClass(k, len(f)), tk, wl, c06PatClass(pat))
							stream(kind, f[:k], pat, tk, wl == 1, key, "cut-every-point")
						}
						if bl <= 33 {
							key := fmt.Sprintf("cut2/k%d/b%s/%s/t%d/wl%d", kind, c06LenClass(bl), cutClass(k, len(f)), tk, wl)
							stream(kind, append(append([]byte{}, lead...), f[:k]...), c06Pattern(g.R), tk, wl == 1, key, "cut-second-frame")
						}
					}
				}
				if k <= 40 {
					readHeader(f[:k], c06Pattern(g.R), g.R.Intn(2), g.R.Bool(), fmt.Sprintf("rh/%s", cutClass(k, 1000)))
				}
			}
		}
	}
	g.Exhaust = append(g.Exhaust, fmt.Sprintf("every cut point 0..len of frames with body lengths %v x {raw, BytesValue} x terminal {EOF, injected error} x {separate, with the last chunk} x chunking {whole, 1 byte, random}; the same behind a complete frame for bodies <= 33", bodyLens))

	// (2) writer failure at EVERY k: failing on the header write, on the body write, partial writes,
	// failure reported with a full write, responses larger than the write
	for kind := 0; kind <= 1; kind++ {
		for _, bl := range []int{0, 1, 5, 33, 130} {
			for _, hasver := range []bool{false, true} {
				ver := c06Ver(g.R, g.R.Range(0, 16), 0)
				payload := c06Payloadgen(g.R, bl)
				m := c06MsgText(hasver, ver, payload)
				flen := 32 + len(c07BodyEnc(kind, payload))
				do := func(script string, k int, how string) {
					g.Stat("writer-fail")
					g.Do("pbcmpl.Marshal/faulty", L(Int(kind), m, script), fmt.Sprintf("wf/k%d/b%s/%s/%s", kind, c06LenClass(bl), cutClass(k, flen), how))
				}
				for k := 0; k <= flen; k++ {
					if k <= 32 {
						do(c07Script([2]int64{int64(k), 1}), k, "hdr-write")
					}
					if k >= 32 {
						do(c07Script([2]int64{32, 0}, [2]int64{int64(k - 32), 1}), k, "body-write")
						do(c07Script([2]int64{int64(32 + g.R.Intn(3)), 0}, [2]int64{int64(k - 32), 1}, [2]int64{0, 1}), k, "body-write+")
					}
				}
				do(c07Script([2]int64{40, 1}), 32, "hdr-over")
				do(c07Script([2]int64{32, 0}, [2]int64{int64(bl + 100), 1}), flen, "body-over")
				do(c07Script([2]int64{32, 0}, [2]int64{int64(flen), 0}), flen, "no-fail")
				do(c07Script(), flen, "no-script")
				do(c07Script([2]int64{-3, 1}), 0, "negative")
			}
		}
	}
	// writers failing with a TEMPORARY error (net-timeout style: Temporary() == true), once or persistently,
	// on the header write or on the body write: Marshal must return that error and the count, never retry
	for kind := 0; kind <= 1; kind++ {
		for _, bl := range []int{0, 5, 40} {
			payload := c06Payloadgen(g.R, bl)
			m := c06MsgText(g.R.Bool(), c06Ver(g.R, g.R.Range(0, 16), 0), payload)
			flen := 32 + len(c07BodyEnc(kind, payload))
			do := func(script string, k int, how string) {
				g.Stat("writer-temporary-error")
				g.Do("pbcmpl.Marshal/faulty", L(Int(kind), m, script), fmt.Sprintf("wt/k%d/b%s/%s/%s", kind, c06LenClass(bl), cutClass(k, flen), how))
			}
			t := func(k int) [2]int64 { return [2]int64{int64(k), 2} }
			for _, k := range []int{0, 1, 16, 31, 32} {
				do(c07Script(t(k)), k, "hdr-once")
				do(c07Script(t(k), t(0), t(0), t(0), t(0), t(0)), k, "hdr-persistent")
				do(c07Script(t(k), t(1), t(0), t(2), t(0), t(0)), k, "hdr-persistent-progress")
				do(c07Script(t(k), t(0), [2]int64{0, 1}), k, "hdr-temp-then-hard")
			}
			for _, kb := range []int{0, 1, bl / 2, bl} {
				ok := [2]int64{32, 0}
				do(c07Script(ok, t(kb)), 32+kb, "body-once")
				do(c07Script(ok, t(kb), t(0), t(0), t(0), t(0), t(0)), 32+kb, "body-persistent")
			}
		}
	}
	// Marshal histories in one process: versions that are proper prefixes of the previous one with equal body
	// lengths (and the other way round), good writers and writers failing after k bytes
	for kind := 0; kind <= 1; kind++ {
		for _, pr := range [][]string{{"1.0.12", "1.0.1"}, {"1.0.1", "1.0.12", "1.0.1"}, {"ab", ""}, {"0123456789abcdef", "0123456789abcde", "0123"}, {"2.0", "2", "2.0.0"}} {
			for _, bl := range []int{0, 3, 40} {
				for _, k := range []int{-1, 0, 3, 6, 16, 31, 33} {
					var calls []string
					for _, ver := range pr {
						sc := c07Script()
						if k >= 0 && k <= 32 {
							sc = c07Script([2]int64{int64(k), 1})
						} else if k > 32 {
							sc = c07Script([2]int64{32, 0}, [2]int64{int64(k - 32), 1})
						}
						calls = append(calls, L(c06MsgText(true, ver, c06Payloadgen(g.R, bl)), sc))
					}
					calls = append(calls, L(c06MsgText(false, "", c06Payloadgen(g.R, bl)), c07Script()))
					g.Stat("marshal-session-prefix-versions")
					g.Do("pbcmpl.Marshal/session", L(Int(kind), L(calls...)), fmt.Sprintf("ms/k%d/%s/b%d/f%d", kind, pr[1], bl, k))
				}
			}
		}
	}
	n0 := g.N(100, 3000)
	for i := 0; i < n0; i++ {
		kind := g.R.Intn(2)
		bl := g.R.Range(0, 20)
		base := c06Ver(g.R, g.R.Range(1, 16), 0)
		var calls []string
		for c, nc := 0, g.R.Range(2, 5); c < nc; c++ {
			ver := base[:g.R.Range(0, len(base))]
			if len(ver) > 0 && ver[len(ver)-1] == 0 {
				ver = base
			}
			if g.R.Intn(4) == 0 {
				bl = g.R.Range(0, 20)
			}
			sc := c07Script()
			if g.R.Intn(3) == 0 {
				sc = c07Script([2]int64{int64(g.R.Range(0, 32)), 1})
			}
			calls = append(calls, L(c06MsgText(g.R.Intn(5) != 0, ver, c06Payloadgen(g.R, bl)), sc))
		}
		g.Stat("marshal-session-random")
		g.Do("pbcmpl.Marshal/session", L(Int(kind), L(calls...)), fmt.Sprintf("ms/k%d/rand", kind))
	}
	// widening: a message whose own Marshal fails: (0, that error), nothing written, whatever the writer
	// would have done and whatever the version (even one longer than 16 bytes: newHeader is never reached)
	for _, vl := range []int{-1, 0, 5, 16, 17, 40} {
		for _, sc := range []string{c07Script(), c07Script([2]int64{0, 1}), c07Script([2]int64{10, 1}), c07Script([2]int64{32, 0}, [2]int64{1, 1})} {
			ver := ""
			if vl > 0 {
				ver = string(g.R.Bytes(vl, []byte("ab.1")))
			}
			g.Stat("marshal-encode-error")
			g.Do("pbcmpl.Marshal/encerr", L(c06MsgText(vl >= 0, ver, c06Payloadgen(g.R, g.R.Range(0, 40))), sc), fmt.Sprintf("encerr/v%d/s%d", vl, len(sc)))
		}
	}
	// a version longer than 16 bytes panics by design
	for _, vl := range []int{17, 18, 40} {
		g.Do("pbcmpl.Marshal/faulty", L("0", c06MsgText(true, string(g.R.Bytes(vl, []byte("ab"))), []byte("x")), c07Script()), fmt.Sprintf("wf/longver%d", vl))
	}
	g.Exhaust = append(g.Exhaust, "writer failing after every k in 0..len(frame) (header write, body write, partial, error with full write) x {raw, BytesValue} x body lengths {0,1,5,33,130} x with/without GetVersion")

	// (3) corrupt headers: hsize, bsize over the boundary set x available body bytes
	special := []uint64{0, 1, 31, 32, 33, 1 << 31, 1 << 32, 1 << 62, 1<<63 - 1, 1 << 63, 1<<64 - 1}
	vers := [][]byte{[]byte("1.0.0"), {}, []byte("0123456789abcdef"), {0, 0, 'x', 0, 0}, {0xff, 0, 0, 0, 0, 0, 0, 0, 0, 0, 0, 0, 0, 0, 0, 1}, []byte("ends-in-nul\x00\x00")}
	for _, hs := range special {
		for _, bs := range special {
			for _, avail := range []int{0, 1, 31, 32, 33, 40} {
				ver := vers[g.R.Intn(len(vers))]
				s := append(c07Header(ver, hs, bs), c06Payloadgen(g.R, avail)...)
				kind := g.R.Pick(0, 2)
				key := fmt.Sprintf("hdr/hs%x/bs%x/av%d", hs, bs, avail)
				stream(kind, s, c06Pattern(g.R), g.R.Intn(2), g.R.Bool(), key, "corrupt-header-special")
			}
			s := c07Header(vers[g.R.Intn(len(vers))], hs, bs)
			readHeader(s, c06Pattern(g.R), 0, false, fmt.Sprintf("rh/hs%x/bs%x", hs, bs))
		}
	}
	g.Exhaust = append(g.Exhaust, "header fields hsize x bsize over {0,1,31,32,33,2^31,2^32,2^62,2^63-1,2^63,2^64-1}^2 x available body bytes {0,1,31,32,33,40}")
	n := g.N(1500, 40000)
	for i := 0; i < n; i++ {
		hs := uint64(32)
		if g.R.Intn(3) == 0 {
			hs = c07U64(g.R)
		}
		bs := c07U64(g.R)
		if g.R.Intn(2) == 0 {
			bs = uint64(g.R.Range(0, 70))
		}
		ver := g.R.Bytes(16, alphabets[g.R.Intn(len(alphabets))])
		if g.R.Intn(2) == 0 {
			ver = vers[g.R.Intn(len(vers))]
		}
		avail := g.R.Range(0, 80)
		body := c06Payloadgen(g.R, avail)
		if avail > 0 && g.R.Intn(4) == 0 {
			body[0] = 0xEE
		}
		s := append(c07Header(ver, hs, bs), body...)
		if g.R.Intn(3) == 0 { // another frame behind
			s = append(s, c07Frame(0, "2.0", c06Payloadgen(g.R, g.R.Range(0, 5)))...)
		}
		rel := "lt"
		if uint64(avail) == bs {
			rel = "eq"
		} else if uint64(avail) > bs {
			rel = "gt"
		}
		key := fmt.Sprintf("hdrr/hs%v/bsneg%v/%s", hs == 32, bs >= 1<<63, rel)
		stream(g.R.Pick(0, 2), s, c06Pattern(g.R), g.R.Intn(2), g.R.Bool(), key, "corrupt-header-random")
	}

	// (4) arbitrary bytes
	n = g.N(1000, 30000)
	for i := 0; i < n; i++ {
		l := g.R.Range(0, 120)
		s := g.R.Bytes(l, alphabets[g.R.Intn(len(alphabets))])
		if l >= 32 && g.R.Intn(2) == 0 {
			binary.LittleEndian.PutUint64(s[16:], 32)
			if g.R.Intn(2) == 0 {
				binary.LittleEndian.PutUint64(s[24:], uint64(g.R.Range(0, l-32+3)))
			}
		}
		key := fmt.Sprintf("arb/l%s", c06LenClass(l))
		tk, wl := g.R.Intn(2), g.R.Bool()
		pat := c06Pattern(g.R)
		stream(g.R.Pick(0, 2), s, pat, tk, wl, key, "arbitrary-bytes")
		if i%4 == 0 {
			readHeader(s, pat, tk, wl, "rh/"+key)
		}
	}

	// (6) widening: readers that return (0, nil): explicit chunk lists with empty chunks sprinkled in
	// (never as the last chunk), over valid frames, cut frames, corrupt headers and arbitrary bytes
	chunked := func(kind int, s []byte, tk int, wl bool, class string) {
		cs := c06Chunks(c06Pattern(g.R), append([]byte{}, s...))
		ne := g.R.Range(1, 4)
		for e := 0; e < ne && len(cs) > 0; e++ {
			at := g.R.Intn(len(cs)) // before chunk `at`, so never last
			cs = append(cs[:at], append([][]byte{{}}, cs[at:]...)...)
			if g.R.Intn(3) == 0 { // a run of empties
				cs = append(cs[:at], append([][]byte{{}}, cs[at:]...)...)
			}
		}
		xs := make([]string, len(cs))
		for i, c := range cs {
			xs[i] = Bytes(c)
		}
		g.Stat("empty-chunks:" + class)
		g.Do("pbcmpl.Unmarshal/chunks", L(Int(kind), L(xs...), Int(tk), B(wl)), fmt.Sprintf("chk/k%d/%s/t%d/wl%s/n%d", kind, class, tk, B(wl), len(cs)))
	}
	n = g.N(500, 12000)
	for i := 0; i < n; i++ {
		kind := g.R.Intn(3)
		var s []byte
		nf := g.R.Range(1, 3)
		for f := 0; f < nf; f++ {
			bl := g.R.Pick(0, 1, 31, 32, 33, g.R.Range(0, 80), g.R.Range(500, 600))
			s = append(s, c07Frame(kind, c06Ver(g.R, g.R.Range(0, 16), g.R.Intn(3)), c06Payloadgen(g.R, bl))...)
		}
		class := "frames"
		switch g.R.Intn(5) {
		case 0: // cut
			s = s[:g.R.Intn(len(s))]
			class = "cut"
		case 1: // corrupt a header field of the first frame (raw kinds only: BytesValue bodies are fed as valid encodings only)
			if kind == 1 {
				break
			}
			binary.LittleEndian.PutUint64(s[16+8*g.R.Intn(2):], c07U64(g.R))
			class = "corrupt"
		case 2:
			if kind == 1 {
				break
			}
			s = g.R.Bytes(g.R.Range(1, 100), alphabets[g.R.Intn(len(alphabets))])
			class = "arbitrary"
		}
		chunked(kind, s, g.R.Intn(2), g.R.Bool(), class)
	}
	// the frame boundary cases with an empty chunk exactly at the boundary
	for kind := 0; kind <= 1; kind++ {
		f := c07Frame(kind, "1.2.3", []byte("abc"))
		for _, at := range []int{0, 1, 31, 32, 33, len(f) - 1} {
			for tk := 0; tk <= 1; tk++ {
				for wl := 0; wl <= 1; wl++ {
					xs := []string{Bytes(f[:at]), Bytes(nil), Bytes(nil), Bytes(f[at:])}
					if at == 0 {
						xs = xs[1:]
					}
					g.Stat("empty-chunks:boundary")
					g.Do("pbcmpl.Unmarshal/chunks", L(Int(kind), L(xs...), Int(tk), B(wl == 1)), fmt.Sprintf("chk/k%d/boundary%d/t%d/wl%d", kind, at, tk, wl))
				}
			}
		}
	}

	// (5) valid multi-frame streams with a decode error or a corrupt frame in the middle, read errors at every offset
	n = g.N(60, 1500)
	for i := 0; i < n; i++ {
		var s []byte
		nf := g.R.Range(1, 4)
		for f := 0; f < nf; f++ {
			p := c06Payloadgen(g.R, g.R.Range(0, 20))
			if len(p) > 0 && g.R.Intn(5) == 0 {
				p[0] = 0xEE
			}
			s = append(s, c07Frame(2, c06Ver(g.R, g.R.Range(0, 16), g.R.Intn(3)), p)...)
		}
		pat := c06Pattern(g.R)
		step := 1
		if !g.Thorough {
			step = 3
		}
		for k := g.R.Intn(step); k <= len(s); k += step {
			stream(2, s[:k], pat, 1, g.R.Bool(), fmt.Sprintf("inj/f%d/%s", nf, c06PatClass(pat)), "read-error-every-offset")
		}
	}
}

func c07U64(r *Rand) uint64 {
	switch r.Intn(5) {
	case 0:
		return []uint64{0, 1, 31, 32, 33, 1 << 31, 1 << 32, 1 << 62, 1<<63 - 1, 1 << 63, 1<<64 - 1}[r.Intn(11)]
	case 1:
		return uint64(r.Range(0, 100))
	case 2:
		return 1 << uint(r.Intn(64))
	case 3:
		return r.U64() >> uint(r.Intn(64))
	}
	return r.U64()
}
