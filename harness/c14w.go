package main

import (
	"fmt"

	"github.com/openacid/low/bitmap"
)

// Widening of C14: the mask tables (bitmap/mask.go), Getw on arbitrary bitmaps and indexes,
// and "split into w-bit elements, Join again".

// c14Try renders one table read; an index out of range is the observation "P" of that entry.
func c14Try(f func() uint64) (s string) {
	defer func() {
		if recover() != nil {
			s = Panic
		}
	}()
	return U(f())
}

func init() {
	Exec["bitmap.Masks"] = func(a []V) string {
		j := int(a[0].I32())
		return L(
			c14Try(func() uint64 { return bitmap.Mask[j] }),
			c14Try(func() uint64 { return bitmap.RMask[j] }),
			c14Try(func() uint64 { return bitmap.MaskUpto[j] }),
			c14Try(func() uint64 { return bitmap.RMaskUpto[j] }),
			c14Try(func() uint64 { return bitmap.Bit[j] }),
			c14Try(func() uint64 { return bitmap.RBit[j] }),
		)
	}
	Exec["bitmap.Getw/any"] = func(a []V) string {
		return U(bitmap.Getw(a[0].U64s(), a[1].I32(), a[2].I32()))
	}
	Exec["bitmap.Join/split"] = func(a []V) string {
		bm, w := a[0].U64s(), a[1].I32()
		n := 64 * len(bm) / int(w)
		vs := make([]uint64, n)
		for i := range vs {
			vs[i] = bitmap.Getw(bm, int32(i), w)
		}
		return U64s(bitmap.Join(vs, w))
	}
	Exec["bitmap.Slice/ToArray"] = func(a []V) string {
		return I32s(bitmap.ToArray(bitmap.Slice(a[0].U64s(), a[1].I32(), a[2].I32())))
	}
	Exec["bitmap.Slice/Slice"] = func(a []V) string {
		r := bitmap.Slice(a[0].U64s(), a[1].I32(), a[2].I32())
		return U64s(bitmap.Slice(r, a[3].I32(), a[4].I32()))
	}
	Exec["bitmap.Slice/Rank64"] = func(a []V) string {
		r := bitmap.Slice(a[0].U64s(), a[1].I32(), a[2].I32())
		n, bit := bitmap.Rank64(r, bitmap.IndexRank64(r, a[3].Bool()), a[4].I32())
		return L(I32(n), I32(bit))
	}
	Exec["bitmap.Slice/NextOne"] = func(a []V) string {
		from, to := a[1].I32(), a[2].I32()
		r := bitmap.Slice(a[0].U64s(), from, to)
		return I32(bitmap.NextOne(r, a[3].I32(), to-from))
	}
	Exec["bitmap.Slice/PrevOne"] = func(a []V) string {
		from, to := a[1].I32(), a[2].I32()
		r := bitmap.Slice(a[0].U64s(), from, to)
		return I32(bitmap.PrevOne(r, a[3].I32(), to-from))
	}
	Exec["bitmap.Join/Slice"] = func(a []V) string {
		w := a[1].I32()
		return U64s(bitmap.Slice(bitmap.Join(a[0].U64s(), w), a[2].I32()*w, a[3].I32()*w))
	}
}

func genC14Widen(g *Gen) {
	// (5) mask tables: every index from -3 to 67 (all entries of all six tables, and the reads that must panic)
	for j := -3; j <= 67; j++ {
		g.Stat("masks")
		g.Do("bitmap.Masks", L(Int(j)), fmt.Sprintf("M/%d", j))
	}
	g.Exhaust = append(g.Exhaust, "mask tables: every index -3..67 of Mask, RMask, MaskUpto, RMaskUpto, Bit, RBit")

	getw := func(bm []uint64, i int64, w int, bucket string) {
		if i < -1<<31 || i >= 1<<31 {
			return
		}
		g.Stat(bucket)
		key := ""
		p := i * int64(w)
		switch {
		case p < -1<<31 || p >= 1<<31:
			key = fmt.Sprintf("G/w%d/wrap", w) // i*w leaves int32: outside the statement, model compared only
		case i < 0:
			key = fmt.Sprintf("G/w%d/neg", w)
		case p >= int64(64*len(bm)):
			key = fmt.Sprintf("G/w%d/beyond", w)
		default:
			word := bm[p>>6]
			if word != 0 && word != ^uint64(0) {
				key = fmt.Sprintf("G/w%d/in/o%s", w, c13Off(int(p)))
			}
		}
		g.Do("bitmap.Getw/any", L(U64s(bm), I(i), Int(w)), key)
	}

	// (6) Getw on arbitrary bitmaps: all 7 widths x every element of bitmaps of 0..3 words, plus the indexes just
	// outside (-2, -1, n, n+1) which must panic
	small := [][]uint64{{}, {0x8000000000000001}, {g.R.U64()}, {g.R.U64(), g.R.U64()}, {g.R.U64(), g.R.Word(), g.R.U64()}}
	for _, bm := range small {
		for _, w := range c14Widths {
			n := 64 * len(bm) / w
			for i := -2; i <= n+1; i++ {
				getw(bm, int64(i), w, "getw-exh")
			}
		}
	}
	g.Exhaust = append(g.Exhaust, "Getw: all 7 widths x every element index -2..n+1 of 5 bitmaps of 0..3 words")

	// random bitmaps of 1..40 words: inside, around the end, negative, and indexes whose product with w wraps int32
	// (2^32/w lands on element 0 again, 2^31/w is the most negative position)
	ng := g.N(1500, 30000)
	for k := 0; k < ng; k++ {
		bm := g.R.Words(g.R.Range(1, 40))
		w := c14Widths[g.R.Intn(7)]
		n := int64(64 * len(bm) / w)
		var i int64
		switch g.R.Intn(8) {
		case 0:
			i = n + int64(g.R.Pick(-1, 0, 1, 2, 63, 64))
		case 1:
			i = -int64(g.R.Intn(70)) - 1
		case 2:
			i = (1<<32)/int64(w) + int64(g.R.Intn(int(n)+2)) - 1 // wraps to a small position
		case 3:
			i = (1<<31)/int64(w) + int64(g.R.Pick(-1, 0, 1))
		case 4:
			i = int64(g.R.Pick(1<<31-1, -1<<31, 1<<30, 1<<25, 1<<25-1, 1<<26))
		default:
			i = int64(g.R.Intn(int(n)))
		}
		getw(bm, i, w, "getw-rand")
	}

	// (7) split + Join: all 7 widths x bitmaps of 0..3 words with boundary patterns, random bitmaps up to 12 words
	split := func(bm []uint64, w int, bucket string) {
		g.Stat(bucket)
		key := ""
		for _, x := range bm {
			if x != 0 && x != ^uint64(0) {
				key = fmt.Sprintf("SJ/w%d/n%d", w, minInt(len(bm), 4))
			}
		}
		g.Do("bitmap.Join/split", L(U64s(bm), Int(w)), key)
	}
	for _, w := range c14Widths {
		for _, bm := range [][]uint64{{}, {0}, {^uint64(0)}, {0x8000000000000001}, {1, 1 << 63}, {^uint64(0), 0, ^uint64(0)}} {
			split(bm, w, "split-fixed")
		}
		for k := 0; k < g.N(40, 600); k++ {
			split(g.R.Words(g.R.Range(1, 12)), w, "split-rand")
		}
	}

	// (8) ToArray(Slice): all (from,to) over one 2-word bitmap (two in the thorough tier), random ranges over
	// bitmaps of 1..20 words
	sta := func(ws []uint64, from, to int, bucket string) {
		g.Stat(bucket)
		key := c14SliceKey(ws, from, to)
		if key != "" {
			key = "T" + key
		}
		g.Do("bitmap.Slice/ToArray", L(U64s(ws), Int(from), Int(to)), key)
	}
	two := [][]uint64{{g.R.U64() | 1<<63, g.R.U64() | 1}}
	if g.Thorough {
		two = append(two, []uint64{g.R.Word(), g.R.U64()})
	}
	for _, ws := range two {
		for from := 0; from <= 128; from++ {
			for to := from; to <= 128; to++ {
				sta(ws, from, to, "slicearr-exh")
			}
		}
	}
	g.Exhaust = append(g.Exhaust, fmt.Sprintf("ToArray(Slice): all (from,to) over %d bitmaps of 2 words", len(two)))
	for k := 0; k < g.N(800, 15000); k++ {
		nw := g.R.Range(1, 20)
		ws := g.R.Words(nw)
		from := g.R.Intn(64*nw + 1)
		to := g.R.Range(from, 64*nw)
		if g.R.Intn(3) == 0 {
			to = minInt(64*nw, from+g.R.Intn(130))
		}
		sta(ws, from, to, "slicearr-rand")
	}

	// (8b) a slice of a slice: all (a,b,c,d) over a 1-word bitmap with steps, random over 1..12 words
	ss := func(ws []uint64, a, b, c, d int, bucket string) {
		if !(0 <= a && a <= b && b <= 64*len(ws) && 0 <= c && c <= d && d <= b-a) {
			return
		}
		g.Stat(bucket)
		key := c14SliceKey(ws, a+c, a+d)
		if key != "" {
			key = fmt.Sprintf("SS/o%s/%s", c13Off(a), key)
		}
		g.Do("bitmap.Slice/Slice", L(U64s(ws), Int(a), Int(b), Int(c), Int(d)), key)
	}
	one := []uint64{g.R.U64() | 1 | 1<<63, g.R.U64() | 1}
	pts := []int{0, 1, 7, 31, 63, 64, 65, 100, 127, 128}
	for _, a := range pts {
		for _, b := range pts {
			for _, c := range pts {
				for _, d := range pts {
					ss(one, a, b, c, d, "sliceslice-grid")
				}
			}
		}
	}
	for k := 0; k < g.N(800, 15000); k++ {
		nw := g.R.Range(1, 12)
		ws := g.R.Words(nw)
		a := g.R.Intn(64*nw + 1)
		b := g.R.Range(a, 64*nw)
		c := g.R.Intn(b - a + 1)
		d := g.R.Range(c, b-a)
		if g.R.Intn(4) == 0 {
			c, d = 0, b-a
		}
		ss(ws, a, b, c, d, "sliceslice-rand")
	}

	// (8c) Rank64 / NextOne / PrevOne asked of a slice: sparse and dense bitmaps of 1..8 words, ranges with ends
	// next to word boundaries, every kind of j (first, last, around the slice's word boundaries, random)
	for k := 0; k < g.N(700, 12000); k++ {
		nw := g.R.Range(1, 8)
		ws := g.R.Words(nw)
		if g.R.Intn(3) == 0 { // sparse: NextOne / PrevOne must skip empty words
			for i := range ws {
				if g.R.Intn(3) != 0 {
					ws[i] = 0
				}
			}
		}
		n := 64 * nw
		a := g.R.Intn(n)
		if g.R.Intn(3) == 0 {
			a = minInt(n-1, 64*g.R.Intn(nw)+g.R.Pick(0, 1, 63))
		}
		b := g.R.Range(a+1, n)
		if g.R.Intn(3) == 0 {
			b = n - g.R.Pick(0, 1, 63)
			if b <= a {
				b = a + 1
			}
		}
		l := b - a
		var j int
		switch g.R.Intn(5) {
		case 0:
			j = 0
		case 1:
			j = l - 1
		case 2:
			j = minInt(l-1, 64*g.R.Intn((l+63)/64)+g.R.Pick(0, 1, 63))
		default:
			j = g.R.Intn(l)
		}
		key := c14SliceKey(ws, a, b)
		if key != "" {
			key = fmt.Sprintf("/j%s/%s", c13Off(j), key)
		}
		pre := func(p string) string {
			if key == "" {
				return ""
			}
			return p + key
		}
		g.Stat("slice-compose")
		g.Do("bitmap.Slice/Rank64", L(U64s(ws), Int(a), Int(b), B(g.R.Bool()), Int(j)), pre("SR"))
		g.Do("bitmap.Slice/NextOne", L(U64s(ws), Int(a), Int(b), Int(j)), pre("SN"))
		g.Do("bitmap.Slice/PrevOne", L(U64s(ws), Int(a), Int(b), Int(j)), pre("SP"))
	}

	// (8d) a packed array sliced at element boundaries: all 7 widths x all (k,m) of short lists, random longer
	js := func(vs []uint64, w, k, m int, bucket string) {
		g.Stat(bucket)
		key := c14JoinKey(vs[k:m], w)
		if key != "" {
			key = fmt.Sprintf("JS/k%s/%s", c13Off(k*w), key)
		}
		g.Do("bitmap.Join/Slice", L(U64s(vs), Int(w), Int(k), Int(m)), key)
	}
	for _, w := range c14Widths {
		n := 64/w + 2
		if n > 10 {
			n = 10
		}
		vs := make([]uint64, n)
		for i := range vs {
			vs[i] = g.R.U64() | 1
		}
		for k := 0; k <= n; k++ {
			for m := k; m <= n; m++ {
				js(vs, w, k, m, "joinslice-exh")
			}
		}
		for q := 0; q < g.N(60, 1000); q++ {
			n := g.R.Range(1, 5*64/w+3)
			if n > 400 {
				n = 400
			}
			vs := make([]uint64, n)
			for i := range vs {
				vs[i] = g.R.U64()
			}
			k := g.R.Intn(n + 1)
			m := g.R.Range(k, n)
			js(vs, w, k, m, "joinslice-rand")
		}
	}
}
