package main

import (
	"fmt"
	"reflect"
	"sort"
	"strings"

	"github.com/openacid/low/sigbits"
)

func init() {
	// FirstDiffBits(keys): keys non-empty, any order
	Exec["sigbits.FirstDiffBits"] = func(a []V) string {
		return I32s(sigbits.FirstDiffBits(a[0].Strs()))
	}
	// New(keys).CountPrefixes(s, e, m)
	Exec["sigbits.CountPrefixes"] = func(a []V) string {
		sb := sigbits.New(a[0].Strs())
		m0, cs := sb.CountPrefixes(a[1].I32(), a[2].I32(), a[3].I32())
		return L(I32(m0), I32s(cs))
	}
	// New(keys).CountPrefixes(s, s+1, m): a range of one key
	Exec["sigbits.CountPrefixes/single"] = func(a []V) string {
		sb := sigbits.New(a[0].Strs())
		st := a[1].I32()
		m0, cs := sb.CountPrefixes(st, st+1, a[2].I32())
		return L(I32(m0), I32s(cs))
	}
	// keys = prefix + w-byte big-endian counter c0..c0+n-1; New(keys).CountPrefixes(s, e, m)
	counter := func(a []V) string {
		keys := c16CounterKeys(a[0].Str(), a[1].Int(), a[2].I64(), a[3].Int())
		sb := sigbits.New(keys)
		m0, cs := sb.CountPrefixes(a[4].I32(), a[5].I32(), a[6].I32())
		return L(I32(m0), I32s(cs))
	}
	Exec["sigbits.CountPrefixes/counter"] = counter
	Exec["sigbits.CountPrefixes/counter-big"] = counter
	// ONE SigBits object, a list of [s,e,m] queries on it; then whether the differences it holds are
	// still FirstDiffBits(keys) (1 also when the object no longer has such a field: a representation
	// change is not a finding)
	Exec["sigbits.SigBits/queries"] = func(a []V) string {
		keys := a[0].Strs()
		sb := sigbits.New(keys)
		var rs []string
		for _, q := range a[1].L {
			m0, cs := sb.CountPrefixes(q.L[0].I32(), q.L[1].I32(), q.L[2].I32())
			rs = append(rs, L(I32(m0), I32s(cs)))
		}
		return L(L(rs...), B(c16HeldStateOK(sb, keys)))
	}
	// ONE []string, ONE SigBits built from it; steps [0,s,e,m] sb.CountPrefixes, [1,maxSize] ShardByPrefix(keys, maxSize)
	// on the very same slice (result is C17's matter, not observed), [2] FirstDiffBits(keys), [3,n,s,e,m] the same
	// CountPrefixes n times (last answer); then the state flag
	Exec["sigbits.SigBits/session"] = func(a []V) string {
		keys := a[0].Strs()
		sb := sigbits.New(keys)
		var rs []string
		for _, st := range a[1].L {
			switch st.L[0].Int() {
			case 0:
				m0, cs := sb.CountPrefixes(st.L[1].I32(), st.L[2].I32(), st.L[3].I32())
				rs = append(rs, L(I32(m0), I32s(cs)))
			case 3: // the same query n times, the last answer
				var m0 int32
				var cs []int32
				for i, n := 0, st.L[1].Int(); i < n; i++ {
					m0, cs = sb.CountPrefixes(st.L[2].I32(), st.L[3].I32(), st.L[4].I32())
				}
				rs = append(rs, L(I32(m0), I32s(cs)))
			case 1:
				sigbits.ShardByPrefix(keys, st.L[1].I32())
				rs = append(rs, L(Int(0), L()))
			default:
				rs = append(rs, L(Int(0), I32s(sigbits.FirstDiffBits(keys))))
			}
		}
		return L(L(rs...), B(c16HeldStateOK(sb, keys)))
	}
	Register("C16", genC16)
}

// c16CounterKeys builds prefix + big-endian w-byte counter for c0 <= c < c0+n.
func c16CounterKeys(prefix string, w int, c0 int64, n int) []string {
	keys := make([]string, n)
	for i := 0; i < n; i++ {
		c := c0 + int64(i)
		b := make([]byte, w)
		for j := w - 1; j >= 0; j-- {
			b[j] = byte(c)
			c >>= 8
		}
		keys[i] = prefix + string(b)
	}
	return keys
}

// c16HeldStateOK reads the unexported []int32 field "sigbits" of the object by reflection (reading only)
// and compares it with a fresh FirstDiffBits(keys).
func c16HeldStateOK(sb *sigbits.SigBits, keys []string) bool {
	f := reflect.ValueOf(sb).Elem().FieldByName("sigbits")
	if !f.IsValid() || f.Kind() != reflect.Slice || f.Type().Elem().Kind() != reflect.Int32 {
		return true
	}
	want := sigbits.FirstDiffBits(keys)
	if f.Len() != len(want) {
		return false
	}
	for i := range want {
		if int32(f.Index(i).Int()) != want[i] {
			return false
		}
	}
	return true
}

// c16SortDedup returns the strictly ascending (Go string order) version of keys.
func c16SortDedup(keys []string) []string {
	ks := append([]string(nil), keys...)
	sort.Strings(ks)
	out := ks[:0]
	for i, k := range ks {
		if i == 0 || k != ks[i-1] {
			out = append(out, k)
		}
	}
	return out
}

// the byte alphabets of DESIGN section 6 (C16/C17); nil = full bytes
var c16Alphabets = [][]byte{
	{'a', 'b'},
	{0x00, 0x01, 'a'},
	{0x00, 0x80, 0xff},
	nil,
}
var c16AlphaNames = []string{"ab", "nul1a", "nul80ff", "full"}

// prefix lengths that cross the 8-byte chunking
var c16PrefixLens = []int{0, 1, 7, 8, 9, 15, 16, 17, 23, 24, 25}

// c16Trie draws a trie-shaped key set below prefix: with some probability the
// prefix itself is a key (a key equal to the common prefix of its successors),
// children extend it by 1..3 bytes (sometimes by a chunk-crossing run), and a
// key may be followed by itself + NUL bytes.
func c16Trie(r *Rand, alpha []byte, prefix []byte, depth int, budget *int, out *[]string) {
	if *budget <= 0 {
		return
	}
	if depth == 0 || r.Intn(3) == 0 {
		*out = append(*out, string(prefix))
		*budget--
		if r.Intn(4) == 0 { // the same key followed by NUL bytes
			n := r.Range(1, 3)
			if r.Intn(3) == 0 {
				n = r.Pick(7, 8, 9)
			}
			*out = append(*out, string(prefix)+strings.Repeat("\x00", n))
			*budget--
		}
		if depth == 0 {
			return
		}
	}
	nch := r.Range(1, 4)
	for c := 0; c < nch && *budget > 0; c++ {
		ext := r.Range(1, 3)
		if r.Intn(6) == 0 {
			ext = r.Pick(6, 7, 8, 9, 10)
		}
		p := append(append([]byte(nil), prefix...), r.Bytes(ext, alpha)...)
		c16Trie(r, alpha, p, depth-1, budget, out)
	}
}

// c16KeySet draws a strictly ascending key set of about n keys.
func c16KeySet(r *Rand, n int) (keys []string, desc string) {
	ai := r.Intn(len(c16Alphabets))
	alpha := c16Alphabets[ai]
	plen := c16PrefixLens[r.Intn(len(c16PrefixLens))]
	if r.Intn(3) == 0 {
		plen = 0
	}
	prefix := r.Bytes(plen, alpha)
	var raw []string
	mode := r.Intn(5)
	switch mode {
	case 0: // flat: common prefix + short random suffixes
		for i := 0; i < n; i++ {
			raw = append(raw, string(prefix)+string(r.Bytes(r.Range(0, 4), alpha)))
		}
	case 1: // chain of extensions: every key a proper prefix of the next
		cur := append([]byte(nil), prefix...)
		for i := 0; i < n; i++ {
			raw = append(raw, string(cur))
			if r.Intn(3) == 0 {
				cur = append(cur, 0)
			} else {
				cur = append(cur, r.Bytes(r.Range(1, 3), alpha)...)
			}
		}
	case 2: // all keys differ in byte 0 (after the prefix), random tails
		for i := 0; i < n; i++ {
			raw = append(raw, string(prefix)+string([]byte{byte(r.U64())})+string(r.Bytes(r.Range(0, 10), alpha)))
		}
	default: // trie-shaped
		budget := n
		for budget > 0 {
			c16Trie(r, alpha, prefix, r.Range(1, 5), &budget, &raw)
		}
	}
	if r.Intn(8) == 0 {
		raw = append(raw, "") // the empty key
	}
	modes := []string{"flat", "chain", "byte0", "trie", "trie"}
	return c16SortDedup(raw), fmt.Sprintf("%s/%s/p%d", c16AlphaNames[ai], modes[mode], plen)
}

// naive classification of one adjacent pair (for shape keys only)
func c16PairKind(a, b string) string {
	n := len(a)
	if len(b) < n {
		n = len(b)
	}
	i := 0
	for i < n && a[i] == b[i] {
		i++
	}
	chunk := i / 8
	if chunk > 3 {
		chunk = 3
	}
	switch {
	case a == b:
		return fmt.Sprintf("eq%d", chunk)
	case i == n:
		// prefix relation: does the longer key continue with non-NUL bytes inside the chunk that holds byte n?
		long := a
		if len(b) > len(a) {
			long = b
		}
		end := (n/8 + 1) * 8
		if n%8 == 0 {
			return fmt.Sprintf("pfx-edge%d", chunk) // shorter key ends on a chunk boundary: loop ends
		}
		if end > len(long) {
			end = len(long)
		}
		for j := n; j < end; j++ {
			if long[j] != 0 {
				return fmt.Sprintf("pfx-clip%d", chunk) // difference found beyond the shorter key
			}
		}
		return fmt.Sprintf("pfx-nul%d", chunk) // zero padding hides the difference
	default:
		return fmt.Sprintf("diff%d", chunk)
	}
}

func c16FdbKey(keys []string) string {
	if len(keys) < 2 {
		return ""
	}
	kinds := map[string]bool{}
	for i := 0; i+1 < len(keys); i++ {
		kinds[c16PairKind(keys[i], keys[i+1])] = true
	}
	ks := make([]string, 0, len(kinds))
	for k := range kinds {
		ks = append(ks, k)
	}
	sort.Strings(ks)
	if len(ks) > 4 {
		ks = ks[:4]
	}
	return fmt.Sprintf("fdb/n%d/%s", minInt(len(keys), 4), strings.Join(ks, "+"))
}

func c16Bucket(x int, cuts ...int) int {
	for _, c := range cuts {
		if x <= c {
			return c
		}
	}
	return cuts[len(cuts)-1] + 1
}

func genC16(g *Gen) {
	fdb := func(keys []string, bucket string) {
		g.Stat(bucket)
		g.Do("sigbits.FirstDiffBits", L(Strs(keys)), c16FdbKey(keys))
	}
	cp := func(keys []string, s, e, m int, bucket string) {
		g.Stat(bucket)
		key := ""
		if m >= 2 && e-s >= 3 {
			// guard taken/not taken, sub-range position, prefix pairs inside the range
			kinds := map[string]bool{}
			for i := s; i+1 < e; i++ {
				kinds[c16PairKind(keys[i], keys[i+1])[:3]] = true
			}
			ks := []string{}
			for k := range kinds {
				ks = append(ks, k)
			}
			sort.Strings(ks)
			key = fmt.Sprintf("cp/n%d/s%d/e%d/m%d/%s", c16Bucket(e-s, 3, 4, 8, 16), c16B2i(s > 0), c16B2i(e < len(keys)),
				c16Bucket(m, 2, 8, 9, 40, 64), strings.Join(ks, "+"))
		}
		g.Do("sigbits.CountPrefixes", L(Strs(keys), Int(s), Int(e), Int(m)), key)
	}

	// (0) ONE SigBits object, several queries (early in the run): the same query twice, overlapping and nested
	// ranges, ranges whose smallest first difference is > 0 (an in-place "d -= min" on the held slice shows on
	// the next query), the whole range last
	queries := func(keys []string, qs [][3]int, bucket string) {
		g.Stat(bucket)
		var qt []string
		for _, q := range qs {
			qt = append(qt, L(Int(q[0]), Int(q[1]), Int(q[2])))
		}
		key := ""
		if len(qs) >= 2 {
			rep, ovl := 0, 0
			for i := 1; i < len(qs); i++ {
				for j := 0; j < i; j++ {
					if qs[i][0] == qs[j][0] && qs[i][1] == qs[j][1] {
						rep = 1
					} else if qs[i][0] < qs[j][1]-1 && qs[j][0] < qs[i][1]-1 {
						ovl = 1
					}
				}
			}
			key = fmt.Sprintf("q/n%d/rep%d/ovl%d/k%d", c16Bucket(len(qs), 2, 3, 6), rep, ovl, c16Bucket(len(keys), 2, 3, 5, 12))
		}
		g.Do("sigbits.SigBits/queries", L(Strs(keys), L(qt...)), key)
	}
	{
		// every pair of queries (incl. twice the same) over every 2..3-key subset of a 6-string universe, m in {1,9}
		uni := c16SortDedup([]string{"", "a", "a\x00", "ab", "b", "b\x80"})
		for mask := 0; mask < 1<<uint(len(uni)); mask++ {
			var ks []string
			for i := range uni {
				if mask>>uint(i)&1 == 1 {
					ks = append(ks, uni[i])
				}
			}
			if len(ks) < 2 || len(ks) > 3 {
				continue
			}
			var rg [][2]int
			for s := 0; s < len(ks); s++ {
				for e := s + 2; e <= len(ks); e++ {
					rg = append(rg, [2]int{s, e})
				}
			}
			for _, r1 := range rg {
				for _, r2 := range rg {
					for _, m := range []int{1, 9} {
						queries(ks, [][3]int{{r1[0], r1[1], m}, {r2[0], r2[1], m}}, "exh-queries")
					}
				}
			}
		}
		g.Exhaust = append(g.Exhaust, "SigBits/queries: all ordered pairs of ranges (incl. the same twice) on every 2..3-key subset of {'',a,a00,ab,b,b80}, m in {1,9}")
		for k := 0; k < g.N(150, 3000); k++ {
			keys, desc := c16KeySet(g.R, g.R.Range(3, 14))
			if len(keys) < 2 {
				continue
			}
			nq := g.R.Range(2, 7)
			var qs [][3]int
			for q := 0; q < nq; q++ {
				s := g.R.Intn(len(keys) - 1)
				e := g.R.Range(s+2, len(keys))
				m := g.R.Pick(1, 2, 8, 9, 40)
				if q > 0 {
					switch g.R.Intn(4) {
					case 0: // the same query again
						p := qs[g.R.Intn(len(qs))]
						s, e, m = p[0], p[1], p[2]
					case 1: // the same range, another m
						p := qs[g.R.Intn(len(qs))]
						s, e = p[0], p[1]
					case 2: // the whole range
						s, e = 0, len(keys)
					}
				}
				qs = append(qs, [3]int{s, e, m})
			}
			queries(keys, qs, "rand-queries/"+desc[:strings.Index(desc, "/")])
		}
	}
	// (0a) cross-function sessions: between the queries on the object, ShardByPrefix and FirstDiffBits are called on
	// the SAME key slice the object was built from (a cache keyed on the slice identity, a shared first-difference
	// slice converted in place, shows in the next query and in the state flag)
	{
		session := func(keys []string, steps []string, nq, nsh, nfd int, bucket string) {
			g.Stat(bucket)
			key := ""
			if nq >= 1 && nsh+nfd >= 1 {
				key = fmt.Sprintf("ses/q%d/sh%d/fd%d/k%d", c16Bucket(nq, 1, 2, 4), c16Bucket(nsh, 0, 1), c16Bucket(nfd, 0, 1), c16Bucket(len(keys), 2, 3, 5, 12))
			}
			g.Do("sigbits.SigBits/session", L(Strs(keys), L(steps...)), key)
		}
		q := func(s, e, m int) string { return L(Int(0), Int(s), Int(e), Int(m)) }
		sh := func(ms int) string { return L(Int(1), Int(ms)) }
		fd := L(Int(2))
		// every 2..4-key subset of a 6-string universe (first differences 0, 6, 8, 9, 14 ...: >= 8 and < 8):
		// query, shard (maxSize 1 / 2 / len), the same query again; and shard first
		uni := c16SortDedup([]string{"", "a", "a\x00", "ab", "aba", "b\x80"})
		for mask := 0; mask < 1<<uint(len(uni)); mask++ {
			var ks []string
			for i := range uni {
				if mask>>uint(i)&1 == 1 {
					ks = append(ks, uni[i])
				}
			}
			if len(ks) < 2 || len(ks) > 4 {
				continue
			}
			for _, ms := range []int{1, 2, len(ks)} {
				session(ks, []string{q(0, len(ks), 9), sh(ms), q(0, len(ks), 9)}, 2, 1, 0, "exh-session")
				session(ks, []string{sh(ms), q(len(ks)-2, len(ks), 2), fd, q(0, 2, 9)}, 2, 1, 1, "exh-session")
			}
			session(ks, []string{fd, q(0, len(ks), 3), fd}, 1, 0, 2, "exh-session")
		}
		g.Exhaust = append(g.Exhaust, "SigBits/session: query / ShardByPrefix(maxSize 1, 2, len) / same query, and shard-first, on every 2..4-key subset of {'',a,a00,ab,aba,b80}")
		for k := 0; k < g.N(120, 2500); k++ {
			keys, desc := c16KeySet(g.R, g.R.Range(3, 14))
			if len(keys) < 2 {
				continue
			}
			var steps []string
			nq, nsh, nfd := 0, 0, 0
			for i, n := 0, g.R.Range(2, 7); i < n; i++ {
				switch g.R.Intn(4) {
				case 0:
					steps = append(steps, sh(g.R.Pick(1, 2, 3, len(keys), len(keys)+1)))
					nsh++
				case 1:
					steps = append(steps, fd)
					nfd++
				default:
					s := g.R.Intn(len(keys) - 1)
					e := g.R.Range(s+2, len(keys))
					if g.R.Intn(3) == 0 {
						s, e = 0, len(keys)
					}
					steps = append(steps, q(s, e, g.R.Pick(1, 2, 8, 9, 40)))
					nq++
				}
			}
			steps = append(steps, q(0, len(keys), 9))
			nq++
			session(keys, steps, nq, nsh, nfd, "rand-session/"+desc[:strings.Index(desc, "/")])
		}
	}
	// (0a') long sessions: a query with a large m (touches many histogram slots), then the SAME cheap query N times
	// (m = 1: touches none; m = 2 on two keys: slot 0 only), N around 2^16 and 2^17, then neighbours of the first query
	// with a large m again: per-object scratch validated by a narrow generation counter / call counter wraps here
	{
		q := func(s, e, m int) string { return L(Int(0), Int(s), Int(e), Int(m)) }
		rep := func(n, s, e, m int) string { return L(Int(3), Int(n), Int(s), Int(e), Int(m)) }
		sets := [][]string{
			{"a", "b", "ba", "bb"},
			c16SortDedup([]string{"", "k\x00", "k\x00\x01", "k\x01", "kz", "l"}),
		}
		for _, ks := range sets {
			for _, n := range []int{255, 256, 65534, 65535, 65536, 65537, 131071, 131072} {
				for _, cheapM := range []int{1, 2} {
					g.Stat("long-session")
					steps := []string{q(0, len(ks), 24), rep(n, 0, 2, cheapM), q(0, 2, 24), q(1, 3, 24), q(0, len(ks), 24), q(len(ks)-2, len(ks), 24)}
					g.Do("sigbits.SigBits/session", L(Strs(ks), L(steps...)),
						fmt.Sprintf("long/n%d/m%d", c16Bucket(n, 256, 65534, 65535, 65536, 65537, 131071), cheapM))
				}
			}
		}
	}
	// (0b) LARGE key sets: prefix + big-endian counter, so that hundreds (thorough: > 65536) of adjacent pairs share
	// one first-difference bit and a counter passes 2^8 (2^16): a narrow histogram / counter type shows
	{
		type big struct {
			p          string
			w          int
			c0         int64
			n, s, e, m int
		}
		cases := []big{
			{"k", 2, 0, 512, 0, 512, 10},         // 256 pairs differ in the last bit
			{"k", 2, 0, 600, 0, 600, 12},         // 300 pairs
			{"", 2, 256, 520, 3, 519, 16},        // sub-range, no prefix
			{"key\x00", 2, 1000, 700, 0, 700, 9}, // the bucket of the last bit is outside m: guard
			{"k", 2, 0, 300, 0, 300, 1},
		}
		if g.Thorough {
			cases = append(cases, big{"k", 2, 0, 1000, 0, 1000, 12}, big{"ab", 3, 65000, 1024, 1, 1024, 20},
				big{"k", 2, 0, 1024, 512, 1024, 11})
		}
		for _, c := range cases {
			g.Stat("counter-keys")
			g.Do("sigbits.CountPrefixes/counter", L(Str(c.p), Int(c.w), I(c.c0), Int(c.n), Int(c.s), Int(c.e), Int(c.m)),
				fmt.Sprintf("ctr/n%d/s%d/m%d", c16Bucket(c.n, 300, 512, 600, 1000), c16B2i(c.s > 0), c16Bucket(c.m, 1, 9, 12, 20)))
		}
		// 4096: 2048 pairs in the last bit (linear oracle); 8192 / 10000 keys: above the size where an implementation
		// may start to split the work over goroutines -- these are the slowest cases of a quick run, so the harness
		// runs them again under GOMAXPROCS 3, 33 and 97 (more procs than CPUs); the sub-range sits at the tail
		bigs := []big{{"k", 2, 0, 4096, 0, 4096, 14}, {"k", 2, 0, 8192, 0, 8192, 15}, {"key", 2, 300, 10000, 9000, 10000, 12},
			{"", 2, 0, 9001, 0, 9001, 16}}
		if g.Thorough {
			bigs = append(bigs, big{"k", 3, 0, 131072 + 5, 0, 131072 + 5, 20}, // 65538 pairs in the last bit
				big{"", 3, 1 << 20, 140000, 7, 139999, 19})
		}
		for _, c := range bigs {
			g.Stat("counter-keys-big")
			g.Do("sigbits.CountPrefixes/counter-big", L(Str(c.p), Int(c.w), I(c.c0), Int(c.n), Int(c.s), Int(c.e), Int(c.m)),
				fmt.Sprintf("ctrbig/n%d/s%d", c16Bucket(c.n, 4096, 10000, 140000), c16B2i(c.s > 0)))
		}
	}
	// (1) FirstDiffBits on ALL ordered pairs of strings of length 0..2 over {00,01,80,ff,'a'}
	{
		al := []byte{0x00, 0x01, 0x80, 0xff, 'a'}
		var all []string
		all = append(all, "")
		for _, x := range al {
			all = append(all, string([]byte{x}))
			for _, y := range al {
				all = append(all, string([]byte{x, y}))
			}
		}
		for _, a := range all {
			for _, b := range all {
				fdb([]string{a, b}, "exh-pairs-len0..2")
			}
		}
		g.Exhaust = append(g.Exhaust, "FirstDiffBits: all ordered pairs of strings of length 0..2 over {00,01,80,ff,'a'}")
	}
	// (2) the same short tails behind shared prefixes crossing the 8-byte chunks
	{
		tails := []string{"", "\x00", "\x01", "\x80", "a", "\x00\x00", "\x00\x01", "a\x00", "ab"}
		for _, pl := range c16PrefixLens {
			for _, pa := range [][]byte{{'a', 'b'}, {0x00}, {0x00, 0x80, 0xff}} {
				p := string(g.R.Bytes(pl, pa))
				for _, a := range tails {
					for _, b := range tails {
						fdb([]string{p + a, p + b}, "exh-prefix-x-tails")
					}
				}
			}
		}
		g.Exhaust = append(g.Exhaust, "FirstDiffBits: shared prefix of 0,1,7,8,9,15,16,17,23,24,25 bytes x all ordered pairs of 9 tails (incl. empty, NUL, NUL NUL)")
	}
	// (3) a difference at every single bit position of a 20-byte key; a key followed by itself + n NUL bytes
	{
		for rep := 0; rep < g.N(1, 6); rep++ {
			a := g.R.Bytes(20, c16Alphabets[rep%len(c16Alphabets)])
			for k := 0; k < 160; k++ {
				b := append([]byte(nil), a...)
				b[k/8] ^= 0x80 >> uint(k%8)
				copy(b[k/8+1:], g.R.Bytes(20-k/8-1, nil))
				fdb([]string{string(a), string(b)}, "exh-every-bit")
				fdb([]string{string(b[:k/8+1]), string(a)}, "exh-every-bit")
			}
		}
		for n := 0; n <= 18; n++ {
			a := string(g.R.Bytes(n, []byte{'a', 0x00, 0xff}))
			for z := 0; z <= 10; z++ {
				fdb([]string{a, a + strings.Repeat("\x00", z)}, "exh-key+nul")
				fdb([]string{a + strings.Repeat("\x00", z), a}, "exh-key+nul")
				fdb([]string{a, a + strings.Repeat("\x00", z) + "\x01"}, "exh-key+nul")
			}
		}
		g.Exhaust = append(g.Exhaust, "FirstDiffBits: flip of every bit 0..159 of a 20-byte key; key of 0..18 bytes vs itself + 0..10 NUL bytes (+ 01)")
	}
	// (4) CountPrefixes: every key subset (2..4 keys) of a 7-string universe x ALL sub-ranges x m in {1,2,8,9,40}
	{
		uni := c16SortDedup([]string{"", "\x00", "a", "a\x00", "ab", "b", "b\x80"})
		for mask := 0; mask < 1<<uint(len(uni)); mask++ {
			var ks []string
			for i := range uni {
				if mask>>uint(i)&1 == 1 {
					ks = append(ks, uni[i])
				}
			}
			if len(ks) < 2 || len(ks) > 4 {
				continue
			}
			for s := 0; s < len(ks); s++ {
				for e := s + 2; e <= len(ks); e++ {
					for _, m := range []int{1, 2, 8, 9, 40} {
						cp(ks, s, e, m, "exh-cp-subsets")
					}
				}
			}
		}
		g.Exhaust = append(g.Exhaust, "CountPrefixes: all 2..4-key subsets of {'',00,a,a00,ab,b,b80} x all sub-ranges [s,e) x m in {1,2,8,9,40}")
	}
	// (4a) single-key ranges: every key of every 1..3-key subset of the universe x m in {1,2,9}
	{
		uni := c16SortDedup([]string{"", "\x00", "a", "a\x00", "ab", "b", "b\x80"})
		for mask := 1; mask < 1<<uint(len(uni)); mask++ {
			var ks []string
			for i := range uni {
				if mask>>uint(i)&1 == 1 {
					ks = append(ks, uni[i])
				}
			}
			if len(ks) > 3 {
				continue
			}
			for s := 0; s < len(ks); s++ {
				for _, m := range []int{1, 2, 9} {
					g.Stat("exh-cp-single")
					key := ""
					if len(ks) >= 2 && m >= 2 {
						key = fmt.Sprintf("cp1/s%d/e%d/m%d", c16B2i(s > 0), c16B2i(s+1 < len(ks)), m)
					}
					g.Do("sigbits.CountPrefixes/single", L(Strs(ks), Int(s), Int(m)), key)
				}
			}
		}
		g.Exhaust = append(g.Exhaust, "CountPrefixes/single: all 1..3-key subsets of {'',00,a,a00,ab,b,b80} x every key x m in {1,2,9}")
	}
	// (4b) long shared prefixes: every first-difference bit is far above 2^15 (quick) / 2^17 (thorough), so a
	// too-small initial value of the running minimum or a 16-bit intermediate shows; keys end on / off a chunk edge
	{
		plens := []int{4100, 8200} // 32800 and 65600 bits: above int16 / uint16
		if g.Thorough {
			plens = append(plens, 4096, 20001)
		}
		for _, pl := range plens {
			p := string(g.R.Bytes(pl, []byte{'a', 'b', 0x00}))
			ks := c16SortDedup([]string{p, p + "\x00", p + "a", p + "a\x00\x00", p + "b"})
			fdb(ks, "long-prefix")
			cp(ks, 0, len(ks), 9, "long-prefix")
			cp(ks, 1, 4, 2, "long-prefix")
			cp(ks, 2, 5, 40, "long-prefix")
		}
		// many counters: m above 2^8 (a narrow loop variable or length)
		small := c16SortDedup([]string{"", "a", "a\x00", "ab\x01", "b"})
		cp(small, 0, len(small), 300, "large-m")
		cp(small, 1, 4, 1000, "large-m")
	}
	// (5) structured random key sets: FirstDiffBits on the sorted set and on a shuffled copy,
	// CountPrefixes on all sub-ranges (small sets) or random sub-ranges x the m list
	nb := g.N(700, 14000)
	for k := 0; k < nb; k++ {
		n := g.R.Range(2, 12)
		if g.R.Intn(5) == 0 {
			n = g.R.Range(12, 40)
		}
		keys, desc := c16KeySet(g.R, n)
		if len(keys) == 0 {
			continue
		}
		fdb(keys, "rand-fdb/"+desc[:strings.Index(desc, "/")])
		if len(keys) >= 2 && g.R.Intn(3) == 0 {
			sh := append([]string(nil), keys...)
			for i := len(sh) - 1; i > 0; i-- {
				j := g.R.Intn(i + 1)
				sh[i], sh[j] = sh[j], sh[i]
			}
			if g.R.Intn(2) == 0 {
				sh = append(sh, sh[g.R.Intn(len(sh))]) // a repeated key
			}
			fdb(sh, "rand-fdb-unsorted")
		}
		if g.R.Intn(4) == 0 { // a single-key range somewhere in a random set
			st := g.R.Intn(len(keys))
			m := g.R.Pick(1, 2, 8, 9, 40, 64, 65)
			g.Stat("rand-cp-single")
			key := ""
			if len(keys) >= 2 && m >= 2 {
				key = fmt.Sprintf("cp1/s%d/e%d/m%d", c16B2i(st > 0), c16B2i(st+1 < len(keys)), c16Bucket(m, 2, 8, 9, 40, 64))
			}
			g.Do("sigbits.CountPrefixes/single", L(Strs(keys), Int(st), Int(m)), key)
		}
		if len(keys) < 2 {
			continue
		}
		ms := []int{1, 2, 8, 9, 40}
		if len(keys) <= 5 {
			for s := 0; s < len(keys); s++ {
				for e := s + 2; e <= len(keys); e++ {
					for _, m := range ms {
						cp(keys, s, e, m, "rand-cp-allranges")
					}
				}
			}
			continue
		}
		for q := 0; q < 6; q++ {
			s := g.R.Intn(len(keys) - 1)
			e := g.R.Range(s+2, len(keys))
			switch g.R.Intn(4) {
			case 0:
				s, e = 0, len(keys)
			case 1:
				e = s + 2
			}
			m := ms[g.R.Intn(len(ms))]
			switch g.R.Intn(5) {
			case 0:
				m = g.R.Range(1, 200)
			case 1:
				m = g.R.Pick(3, 7, 16, 17, 63, 64, 65)
			}
			cp(keys, s, e, m, "rand-cp/"+desc[:strings.Index(desc, "/")])
		}
	}
}

// c16B2i renders a bool as 0/1 for shape keys.
func c16B2i(b bool) int {
	if b {
		return 1
	}
	return 0
}
