package main

import (
	"fmt"

	"github.com/openacid/low/bitmap"
)

func init() {
	Exec["bitmap.IndexRank64"] = func(a []V) string {
		return I32s(bitmap.IndexRank64(a[0].U64s(), a[1].Bool()))
	}
	Exec["bitmap.IndexRank128"] = func(a []V) string {
		return I32s(bitmap.IndexRank128(a[0].U64s()))
	}
	// Rank64 with the index built by IndexRank64(words, trailing)
	Exec["bitmap.Rank64"] = func(a []V) string {
		ws := a[0].U64s()
		idx := bitmap.IndexRank64(ws, a[1].Bool())
		c, b := bitmap.Rank64(ws, idx, a[2].I32())
		return L(I32(c), I32(b))
	}
	Exec["bitmap.Rank128"] = func(a []V) string {
		ws := a[0].U64s()
		idx := bitmap.IndexRank128(ws)
		c, b := bitmap.Rank128(ws, idx, a[1].I32())
		return L(I32(c), I32(b))
	}
	// "held" variants: the index is built, then indexes of a decoy bitmap of the same length are built,
	// and only then is the first index queried - an index must not alias state that a later build overwrites
	Exec["bitmap.Rank64/held"] = func(a []V) string {
		ws := a[0].U64s()
		idx := bitmap.IndexRank64(ws, a[1].Bool())
		bitmap.IndexRank64(a[3].U64s(), a[1].Bool())
		bitmap.IndexRank64(a[3].U64s(), !a[1].Bool())
		c, b := bitmap.Rank64(ws, idx, a[2].I32())
		return L(I32(c), I32(b))
	}
	Exec["bitmap.Rank128/held"] = func(a []V) string {
		ws := a[0].U64s()
		idx := bitmap.IndexRank128(ws)
		bitmap.IndexRank128(a[2].U64s())
		bitmap.IndexRank128(a[2].U64s())
		c, b := bitmap.Rank128(ws, idx, a[1].I32())
		return L(I32(c), I32(b))
	}
	Register("C01", genC01)
}

// shape key for a rank query: word count parity, left/right half of the
// 128-bit block, offset class, whether the word has 1-bits on both sides of i.
func rankKey(ws []uint64, i int) string {
	w := ws[i>>6]
	j := uint(i & 63)
	below := w&(1<<j-1) != 0
	above := w>>j != 0
	before := popcount(ws[:i>>6]) > 0
	if !(below && above && before) {
		return "" // trivial: rank 0 or nothing on one side
	}
	oc := "mid"
	switch {
	case j == 0:
		oc = "0"
	case j == 63:
		oc = "63"
	case j == 31 || j == 32:
		oc = "31/32"
	}
	return fmt.Sprintf("par%d/right%d/off%s/nw%d", len(ws)&1, (i>>6)&1, oc, minInt(len(ws), 6))
}

func minInt(a, b int) int {
	if a < b {
		return a
	}
	return b
}

func genC01(g *Gen) {
	rankAll := func(ws []uint64, i int, bucket string) {
		g.Stat(bucket)
		key := rankKey(ws, i)
		w := U64s(ws)
		g.Do("bitmap.Rank64", L(w, "0", Int(i)), key)
		g.Do("bitmap.Rank64", L(w, "1", Int(i)), key)
		g.Do("bitmap.Rank128", L(w, Int(i)), key)
	}
	indexAll := func(ws []uint64) {
		w := U64s(ws)
		key := ""
		if popcount(ws) > 0 && len(ws) > 1 {
			key = fmt.Sprintf("idx/nw%d", minInt(len(ws), 8))
		}
		g.Do("bitmap.IndexRank64", L(w, "0"), key)
		g.Do("bitmap.IndexRank64", L(w, "1"), key)
		g.Do("bitmap.IndexRank128", L(w), key)
	}

	// (00) small-integer words, consecutive builds in collision-friendly orders (see c01SmallInts)
	c01SmallInts(g)

	// (0) held indexes over ASCENDING bitmap lengths 1..70, first thing in the run: an index that aliases
	// a reused buffer shows when the buffer's capacity boundary is crossed, which depends on the order of sizes
	for n := 1; n <= 70; n++ {
		ws := g.R.Words(n)
		decoy := make([]uint64, n)
		for i := range decoy {
			decoy[i] = ^uint64(0)
		}
		for q := 0; q < 4; q++ {
			i := g.R.Intn(64 * n)
			if q == 0 {
				i = 64*n - 1
			}
			g.Stat("held-index-ascending")
			g.Do("bitmap.Rank64/held", L(U64s(ws), B(q&1 == 1), Int(i), U64s(decoy)), rankKey(ws, i))
			g.Do("bitmap.Rank128/held", L(U64s(ws), Int(i), U64s(decoy)), rankKey(ws, i))
		}
	}

	// (1) all-zero / all-one bitmaps of 0..5 words: every position
	for n := 0; n <= 5; n++ {
		for _, fill := range []uint64{0, ^uint64(0)} {
			ws := make([]uint64, n)
			for i := range ws {
				ws[i] = fill
			}
			indexAll(ws)
			for i := 0; i < 64*n; i++ {
				rankAll(ws, i, "exh-const")
			}
		}
	}
	g.Exhaust = append(g.Exhaust, "all-zero and all-one bitmaps of 0..5 words x all positions x {Rank64 tr=0, Rank64 tr=1, Rank128}")

	// (2) every single-bit and every two-adjacent-bit word placed in one slot of a
	// bitmap of 1..4 words (other words all-ones so ranks are non-trivial) x ALL positions
	maxw := g.N(3, 4)
	for n := 1; n <= maxw; n++ {
		for slot := 0; slot < n; slot++ {
			for b := 0; b < 64; b++ {
				for _, two := range []bool{false, true} {
					if two && b == 63 {
						continue
					}
					ws := make([]uint64, n)
					for i := range ws {
						ws[i] = ^uint64(0)
					}
					ws[slot] = 1 << uint(b)
					if two {
						ws[slot] |= 1 << uint(b+1)
					}
					if !g.Thorough && (b%7 != 0 && b != 63 && b != 31 && b != 32) {
						// quick: a spread of bit offsets; thorough: all 64
						continue
					}
					indexAll(ws)
					for i := 0; i < 64*n; i++ {
						rankAll(ws, i, "exh-1or2bit")
					}
				}
			}
		}
	}
	if g.Thorough {
		g.Exhaust = append(g.Exhaust, "single-bit and two-adjacent-bit words in every slot of 1..4-word bitmaps x all positions")
	} else {
		g.Exhaust = append(g.Exhaust, "single-bit and two-adjacent-bit words (offsets 0,7,..,63,31,32) in every slot of 1..3-word bitmaps x all positions")
	}

	// (3) random bitmaps of 1..40 words from the pattern mix, positions biased to
	// word and 128-bit block boundaries
	nb := g.N(250, 6000)
	for k := 0; k < nb; k++ {
		n := g.R.Range(1, 40)
		if g.R.Intn(4) == 0 {
			n = g.R.Range(1, 6)
		}
		ws := g.R.Words(n)
		indexAll(ws)
		for q := 0; q < 12; q++ {
			var i int
			switch g.R.Intn(4) {
			case 0:
				i = 64*g.R.Intn(n) + g.R.Pick(0, 1, 31, 32, 62, 63)
			case 1:
				i = 128*g.R.Intn((n+1)/2) + g.R.Pick(0, 1, 63, 64, 65, 127)
			default:
				i = g.R.Intn(64 * n)
			}
			if i >= 64*n {
				i = 64*n - 1
			}
			rankAll(ws, i, fmt.Sprintf("rand-nw%02d", (n+9)/10*10))
			if q < 3 {
				decoy := U64s(g.R.Words(n))
				g.Stat("held-index")
				g.Do("bitmap.Rank64/held", L(U64s(ws), B(g.R.Bool()), Int(i), decoy), rankKey(ws, i))
				g.Do("bitmap.Rank128/held", L(U64s(ws), Int(i), decoy), rankKey(ws, i))
			}
		}
	}

	genC01Wide(g)
}
