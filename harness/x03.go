package main

// X03 (extra check) — typehelper.ToSlice.
//
// A case is a Go VALUE written in val syntax (encoding: coq/theories/Run/X03.v).  The executor BUILDS the Go
// value from that text with reflect (SliceOf/ArrayOf/PtrTo, three hand-declared named slice types), calls the
// real typehelper.ToSlice and renders every element of the result (dynamic type and contents) back into the
// same encoding.  Generation, corpus, replay and shrinking all go through this one path.

import (
	"fmt"
	"math"
	"os"
	"reflect"
	"strconv"
	"strings"

	"github.com/openacid/low/typehelper"
)

type x03Ints []int
type x03Anys []interface{}
type x03Strs []string
type x03Sentinel struct{ a, b int }

var x03Scalar = map[int]reflect.Type{
	1: reflect.TypeOf(false), 2: reflect.TypeOf(int(0)), 3: reflect.TypeOf(int8(0)), 4: reflect.TypeOf(int16(0)),
	5: reflect.TypeOf(int32(0)), 6: reflect.TypeOf(int64(0)), 7: reflect.TypeOf(uint(0)), 8: reflect.TypeOf(uint8(0)),
	9: reflect.TypeOf(uint16(0)), 10: reflect.TypeOf(uint32(0)), 11: reflect.TypeOf(uint64(0)),
	13: reflect.TypeOf(float32(0)), 14: reflect.TypeOf(float64(0)),
}
var x03Iface = reflect.TypeOf((*interface{})(nil)).Elem()

func x03Fatal(format string, a ...interface{}) {
	fmt.Fprintf(os.Stderr, "x03: "+format+"\n", a...)
	os.Exit(2)
}

func x03Type(t V) reflect.Type {
	if !t.IsList() || len(t.L) == 0 || t.L[0].IsList() {
		x03Fatal("bad type description")
	}
	switch t.L[0].Int() {
	case 0:
		return x03Iface
	case 1:
		if st, ok := x03Scalar[t.L[1].Int()]; ok {
			return st
		}
	case 2:
		return reflect.TypeOf("")
	case 3:
		return reflect.SliceOf(x03Type(t.L[1]))
	case 4:
		return reflect.ArrayOf(t.L[2].Int(), x03Type(t.L[1]))
	case 5:
		return reflect.PtrTo(x03Type(t.L[1]))
	}
	x03Fatal("unknown type description")
	return nil
}

func x03SetElems(dst reflect.Value, elems []V) {
	for i, e := range elems {
		ev := x03Build(e)
		if !ev.IsValid() {
			continue // nil interface element: the zero value of the slot
		}
		dst.Index(i).Set(ev)
	}
}

// x03Build returns the Go value (of its dynamic type); the invalid Value stands for the nil interface.
func x03Build(v V) reflect.Value {
	if !v.IsList() || len(v.L) == 0 || v.L[0].IsList() {
		x03Fatal("bad value")
	}
	switch v.L[0].Int() {
	case 0:
		return reflect.Value{}
	case 1:
		k := v.L[1].Int()
		t, ok := x03Scalar[k]
		if !ok {
			x03Fatal("bad scalar kind %d", k)
		}
		r := reflect.New(t).Elem()
		switch {
		case k == 1:
			r.SetBool(v.L[2].Bool())
		case k <= 6:
			r.SetInt(v.L[2].I64())
		case k == 13:
			return reflect.ValueOf(math.Float32frombits(uint32(v.L[2].U64())))
		case k == 14:
			return reflect.ValueOf(math.Float64frombits(v.L[2].U64()))
		default:
			r.SetUint(v.L[2].U64())
		}
		return r
	case 2:
		return reflect.ValueOf(v.L[1].Str())
	case 3:
		et := x03Type(v.L[1])
		fl := v.L[2].Int()
		st := reflect.SliceOf(et)
		if fl&2 != 0 {
			switch et {
			case reflect.TypeOf(int(0)):
				st = reflect.TypeOf(x03Ints(nil))
			case x03Iface:
				st = reflect.TypeOf(x03Anys(nil))
			case reflect.TypeOf(""):
				st = reflect.TypeOf(x03Strs(nil))
			default:
				x03Fatal("no named slice type for this element type")
			}
		}
		if fl&1 != 0 {
			return reflect.Zero(st)
		}
		n := len(v.L[3].L)
		// a window into a longer backing array: len < cap, elements before and after the window are not the slice's
		back := reflect.MakeSlice(st, n+5, n+5)
		s := back.Slice3(2, 2+n, n+5)
		x03SetElems(s, v.L[3].L)
		return s
	case 4:
		et := x03Type(v.L[1])
		a := reflect.New(reflect.ArrayOf(len(v.L[2].L), et)).Elem()
		x03SetElems(a, v.L[2].L)
		return a
	case 5:
		x := x03Build(v.L[1])
		if !x.IsValid() {
			x03Fatal("pointer to the nil interface")
		}
		p := reflect.New(x.Type())
		p.Elem().Set(x)
		return p
	case 6:
		return reflect.Zero(reflect.PtrTo(x03Type(v.L[1])))
	case 7:
		switch reflect.Kind(v.L[1].Int()) {
		case reflect.Map:
			return reflect.ValueOf(map[string]int{"a": 1, "b": 2})
		case reflect.Struct:
			return reflect.ValueOf(struct {
				A int
				B []int
			}{3, []int{1, 2}})
		case reflect.Chan:
			return reflect.ValueOf(make(chan int, 2))
		case reflect.Func:
			return reflect.ValueOf(func() {})
		}
	}
	x03Fatal("unknown value code")
	return reflect.Value{}
}

func x03Arg(v V) interface{} {
	rv := x03Build(v)
	if !rv.IsValid() {
		return nil
	}
	return rv.Interface()
}

func x03RenderType(t reflect.Type) string {
	switch k := t.Kind(); {
	case k == reflect.Interface && t.NumMethod() == 0:
		return "[0]"
	case k >= reflect.Bool && k <= reflect.Uint64, k == reflect.Float32, k == reflect.Float64:
		return L("1", Int(int(k)))
	case k == reflect.String:
		return "[2]"
	case k == reflect.Slice:
		return L("3", x03RenderType(t.Elem()))
	case k == reflect.Array:
		return L("4", x03RenderType(t.Elem()), Int(t.Len()))
	case k == reflect.Ptr:
		return L("5", x03RenderType(t.Elem()))
	}
	return L("99", Int(int(t.Kind()))) // a type the model does not know: never accepted
}

func x03RenderElems(rv reflect.Value) string {
	xs := make([]string, rv.Len())
	for i := range xs {
		e := rv.Index(i)
		if e.Kind() == reflect.Interface {
			if e.IsNil() {
				xs[i] = "[0]"
				continue
			}
			e = e.Elem()
		}
		xs[i] = x03RenderValue(e)
	}
	return L(xs...)
}

// x03RenderValue renders a value of a concrete (non-interface) dynamic type.
func x03RenderValue(rv reflect.Value) string {
	switch k := rv.Kind(); {
	case k == reflect.Bool:
		return L("1", "1", B(rv.Bool()))
	case k >= reflect.Int && k <= reflect.Int64:
		return L("1", Int(int(k)), I(rv.Int()))
	case k >= reflect.Uint && k <= reflect.Uint64:
		return L("1", Int(int(k)), strconv.FormatUint(rv.Uint(), 10))
	case k == reflect.Float32:
		return L("1", "13", strconv.FormatUint(uint64(math.Float32bits(rv.Interface().(float32))), 10))
	case k == reflect.Float64:
		return L("1", "14", strconv.FormatUint(math.Float64bits(rv.Float()), 10))
	case k == reflect.String:
		return L("2", Str(rv.String()))
	case k == reflect.Slice:
		fl := 0
		if rv.IsNil() {
			fl |= 1
		}
		if rv.Type().Name() != "" {
			fl |= 2
		}
		return L("3", x03RenderType(rv.Type().Elem()), Int(fl), x03RenderElems(rv))
	case k == reflect.Array:
		return L("4", x03RenderType(rv.Type().Elem()), x03RenderElems(rv))
	case k == reflect.Ptr:
		if rv.IsNil() {
			return L("6", x03RenderType(rv.Type().Elem()))
		}
		return L("5", x03RenderValue(rv.Elem()))
	case k == reflect.Map || k == reflect.Struct || k == reflect.Chan || k == reflect.Func:
		return L("7", Int(int(k)))
	}
	return L("98", Int(int(rv.Kind())))
}

func x03Render(x interface{}) string {
	if x == nil {
		return "[0]"
	}
	return x03RenderValue(reflect.ValueOf(x))
}

func x03RenderAll(xs []interface{}) string {
	r := make([]string, len(xs))
	for i, x := range xs {
		r[i] = x03Render(x)
	}
	return L(r...)
}

func init() {
	Exec["typehelper.ToSlice/values"] = func(a []V) string {
		r := typehelper.ToSlice(x03Arg(a[0]))
		return L(B(r != nil), x03RenderAll(r))
	}
	Exec["typehelper.ToSlice/fresh"] = func(a []V) string {
		arg := x03Arg(a[0])
		r1 := typehelper.ToSlice(arg)
		r2 := typehelper.ToSlice(arg)
		for i := range r1 {
			r1[i] = x03Sentinel{i, -1}
		}
		r1 = append(r1[:0], x03Sentinel{7, 7}, x03Sentinel{8, 8})
		return L(x03RenderAll(r2), x03Render(arg))
	}
	Register("X03", genX03)
}

// ---- generator: value trees as text

var x03ScalarKinds = []int{1, 2, 3, 4, 5, 6, 7, 8, 9, 10, 11, 13, 14}

// bit patterns of floats: zeros, ones, infinities, a quiet NaN, extremes, random finite values
var x03F64 = []uint64{0, 1 << 63, 0x3ff0000000000000, 0xbff0000000000000, 0x7ff0000000000000, 0xfff0000000000000, 0x7ff8000000000001, 1, 0x7fefffffffffffff, 0x400921fb54442d18}
var x03F32 = []uint64{0, 1 << 31, 0x3f800000, 0xbf800000, 0x7f800000, 0xff800000, 0x7fc00001, 1, 0x7f7fffff, 0x40490fdb}

func x03ScalarVal(g *Gen, k int) string {
	if k == 1 {
		return L("1", "1", Int(g.R.Intn(2)))
	}
	if k == 13 {
		return L("1", "13", strconv.FormatUint(x03F32[g.R.Intn(len(x03F32))], 10))
	}
	if k == 14 {
		return L("1", "14", strconv.FormatUint(x03F64[g.R.Intn(len(x03F64))], 10))
	}
	bitsOf := map[int]uint{2: 64, 3: 8, 4: 16, 5: 32, 6: 64, 7: 64, 8: 8, 9: 16, 10: 32, 11: 64}
	b := bitsOf[k]
	x := g.R.U64()
	switch g.R.Intn(4) {
	case 0:
		x = uint64(g.R.Intn(3))
	case 1:
		x = ^uint64(0) - uint64(g.R.Intn(2))
	case 2:
		x = uint64(1) << (b - 1)
	}
	if k <= 6 {
		return L("1", Int(k), I(int64(x<<(64-b))>>(64-b)))
	}
	return L("1", Int(k), strconv.FormatUint(x<<(64-b)>>(64-b), 10))
}

// a random type description of nesting depth <= d
func x03RndType(g *Gen, d int) string {
	c := g.R.Intn(10)
	if d <= 0 && c >= 6 {
		c = g.R.Intn(6)
	}
	switch {
	case c <= 1:
		return "[0]"
	case c <= 3:
		return L("1", Int(x03ScalarKinds[g.R.Intn(len(x03ScalarKinds))]))
	case c <= 5:
		return "[2]"
	case c <= 7:
		return L("3", x03RndType(g, d-1))
	case c == 8:
		return L("4", x03RndType(g, d-1), Int(g.R.Intn(4)))
	default:
		return L("5", x03RndType(g, d-1))
	}
}

// a random value that fits a slot of static type t (text of a type description)
func x03RndOfType(g *Gen, t string, d int, namedOK bool) string {
	tv, err := ParseVal(t)
	if err != nil {
		x03Fatal("generator: bad type text %s", t)
	}
	return x03RndOf(g, tv, t, d, namedOK)
}

func x03Len(g *Gen) int {
	switch g.R.Intn(12) {
	case 0, 1:
		return 0
	case 2, 3:
		return 1
	case 4:
		return g.R.Range(9, 40)
	default:
		return g.R.Range(2, 8)
	}
}

// namedOK: the slot is an interface slot or the top level, where a value of a named slice type fits
func x03RndOf(g *Gen, tv V, t string, d int, namedOK bool) string {
	switch tv.L[0].Int() {
	case 0:
		// interface slot: nil, or a value of a random type
		if g.R.Intn(4) == 0 || d <= 0 && g.R.Intn(2) == 0 {
			return "[0]"
		}
		if g.R.Intn(12) == 0 {
			return L("7", Int([]int{18, 19, 21, 25}[g.R.Intn(4)]))
		}
		nt := x03RndType(g, d-1)
		for nt == "[0]" {
			nt = x03RndType(g, d-1)
		}
		return x03RndOfType(g, nt, d-1, true)
	case 1:
		return x03ScalarVal(g, tv.L[1].Int())
	case 2:
		return L("2", Bytes(g.R.Bytes(g.R.Intn(4), alphabets[g.R.Intn(len(alphabets))])))
	case 3:
		et := tv.L[1]
		ets := x03TypeText(et)
		fl := 0
		if g.R.Intn(6) == 0 {
			fl |= 1
		}
		if namedOK && (ets == "[0]" || ets == "[1,2]" || ets == "[2]") && g.R.Intn(4) == 0 {
			fl |= 2
		}
		n := 0
		if fl&1 == 0 {
			n = x03Len(g)
			if d <= 0 && n > 3 {
				n = 3
			}
		}
		xs := make([]string, n)
		for i := range xs {
			xs[i] = x03RndOf(g, et, ets, d-1, false)
		}
		return L("3", ets, Int(fl), L(xs...))
	case 4:
		et := tv.L[1]
		ets := x03TypeText(et)
		xs := make([]string, tv.L[2].Int())
		for i := range xs {
			xs[i] = x03RndOf(g, et, ets, d-1, false)
		}
		return L("4", ets, L(xs...))
	case 5:
		if g.R.Intn(3) == 0 {
			return L("6", x03TypeText(tv.L[1]))
		}
		// pointer to a value of exactly the pointee type; an interface pointee cannot be built from a dynamic value
		if tv.L[1].L[0].Int() == 0 {
			return L("6", "[0]")
		}
		return L("5", x03RndOf(g, tv.L[1], x03TypeText(tv.L[1]), d-1, false))
	}
	x03Fatal("generator: type code")
	return ""
}

func x03TypeText(t V) string {
	if !t.IsList() {
		return t.Z.String()
	}
	xs := make([]string, len(t.L))
	for i, x := range t.L {
		xs[i] = x03TypeText(x)
	}
	return L(xs...)
}

// shape key of an argument text: top kind, element type code, flags, length class, nil-interface elements, depth
func x03Key(arg string) string {
	v, _ := ParseVal(arg)
	code := v.L[0].Int()
	if code != 3 {
		k := "k" + Int(code)
		if code == 1 || code == 7 {
			k += "." + Int(v.L[1].Int())
		}
		if code == 5 {
			k += ">" + Int(v.L[1].L[0].Int())
		}
		return k
	}
	n := len(v.L[3].L)
	lc := Int(n)
	if n > 3 {
		lc = "4+"
	}
	if n > 8 {
		lc = "9+"
	}
	nils, kinds := 0, map[int]bool{}
	for _, e := range v.L[3].L {
		c := e.L[0].Int()
		if c == 0 {
			nils++
		}
		kinds[c] = true
	}
	nc := "n0"
	if nils > 0 {
		nc = "n+"
	}
	if nils == n && n > 0 {
		nc = "nall"
	}
	return "s:" + x03TypeText(v.L[1]) + ":f" + Int(v.L[2].Int()) + ":" + lc + ":" + nc + ":k" + Int(len(kinds)) + ":d" + Int(strings.Count(arg, "[3,")+strings.Count(arg, "[4,"))
}

func x03Emit(g *Gen, arg string) {
	key := x03Key(arg)
	g.Stat("arg-" + strings.SplitN(key, ":", 2)[0])
	g.Do("typehelper.ToSlice/values", L(arg), key)
	g.Do("typehelper.ToSlice/fresh", L(arg), "fresh:"+key)
}

func genX03(g *Gen) {
	// (1) every non-slice kind: must panic
	non := []string{"[0]", "[2,x]", "[2,x6162]", "[4,[1,2],[]]", "[4,[1,2],[[1,2,1],[1,2,2]]]", "[4,[0],[[0],[2,x61]]]",
		"[5,[3,[1,2],0,[[1,2,1]]]]", "[5,[3,[0],0,[]]]", "[5,[1,2,5]]", "[5,[5,[3,[2],0,[[2,x61]]]]]", "[6,[3,[1,2]]]", "[6,[1,2]]", "[6,[0]]",
		"[7,18]", "[7,19]", "[7,21]", "[7,25]"}
	for _, k := range x03ScalarKinds {
		non = append(non, x03ScalarVal(g, k), L("1", Int(k), "0"))
	}
	for _, a := range non {
		x03Emit(g, a)
	}
	g.Exhaust = append(g.Exhaust, "typehelper.ToSlice/values: one value of every non-slice kind the harness can build (nil, 11 scalar kinds, string, array, pointer (to slice too), nil pointer, map, struct, chan, func)")
	// (2) exhaustive: slices of length 0..3 over small element alphabets, nil / empty / named
	type alpha struct {
		t     string
		elems []string
		named bool
	}
	alphas := []alpha{
		{"[1,2]", []string{"[1,2,0]", "[1,2,-1]", "[1,2,9223372036854775807]"}, true},
		{"[1,8]", []string{"[1,8,0]", "[1,8,255]"}, false},
		{"[1,1]", []string{"[1,1,0]", "[1,1,1]"}, false},
		{"[2]", []string{"[2,x]", "[2,x61]", "[2,x00ff]"}, true},
		{"[0]", []string{"[0]", "[1,2,0]", "[2,x]", "[3,[0],0,[[0]]]", "[3,[1,2],1,[]]", "[6,[1,2]]", "[7,21]"}, true},
		{"[3,[1,2]]", []string{"[3,[1,2],1,[]]", "[3,[1,2],0,[]]", "[3,[1,2],0,[[1,2,7]]]"}, false},
		{"[5,[1,2]]", []string{"[6,[1,2]]", "[5,[1,2,3]]"}, false},
		{"[4,[1,2],1]", []string{"[4,[1,2],[[1,2,0]]]", "[4,[1,2],[[1,2,5]]]"}, false},
	}
	for _, al := range alphas {
		flagsets := []int{0}
		if al.named {
			flagsets = []int{0, 2}
		}
		for _, fl := range flagsets {
			x03Emit(g, L("3", al.t, Int(fl|1), "[]"))
			var rec func(pre []string, n int)
			rec = func(pre []string, n int) {
				if n == 0 {
					x03Emit(g, L("3", al.t, Int(fl), L(pre...)))
					return
				}
				for _, e := range al.elems {
					rec(append(append([]string{}, pre...), e), n-1)
				}
			}
			maxn := 3
			if len(al.elems) > 4 && !g.Thorough {
				maxn = 2
			}
			for n := 0; n <= maxn; n++ {
				rec(nil, n)
			}
		}
	}
	g.Exhaust = append(g.Exhaust, "typehelper.ToSlice/values: every slice of length 0..3 (0..2 for []interface{} in the quick tier) over the element alphabets of 8 element types (int, uint8, bool, string, interface{} holding nil/int/string/slices/nil pointer/map, []int, *int, [1]int), nil and empty, plain and named slice types")
	// (3) structured random value trees
	n := g.N(3000, 60000)
	for c := 0; c < n; c++ {
		d := g.R.Range(1, 4)
		var arg string
		if g.R.Intn(8) == 0 {
			// any type at top level (mostly not a slice)
			t := x03RndType(g, d)
			arg = x03RndOfType(g, t, d, true)
		} else {
			arg = x03RndOfType(g, L("3", x03RndType(g, d-1)), d, true)
		}
		if len(arg) > 6000 {
			continue
		}
		x03Emit(g, arg)
	}
	// (4) long slices: the copy loop over hundreds / thousands of elements
	for _, ln := range []int{64, 65, 255, 1000, g.N(2000, 20000)} {
		xs := make([]string, ln)
		for i := range xs {
			if i%7 == 3 {
				xs[i] = "[0]"
			} else {
				xs[i] = L("1", "2", Int(i))
			}
		}
		arg := L("3", "[0]", "0", L(xs...))
		g.Do("typehelper.ToSlice/values", L(arg), "long:"+Int(ln))
		g.Do("typehelper.ToSlice/fresh", L(arg), "fresh:long:"+Int(ln))
		g.Stat("arg-long")
	}
}
