package main

// C10 widening: NewPath on raw arguments, the accessors on raw words, rebuilding a
// word from its fields, non-canonical search bits, family relations on words.

import (
	"fmt"
	"math"
	"math/bits"
	"sort"
	"strconv"
	"strings"
	"sync"

	"github.com/openacid/low/bmtree"
)

// c10VL parses a node (list of 0/1) into (value of the bits, length).
func c10VL(q V) (uint64, int) {
	v := uint64(0)
	for _, b := range q.L {
		v = v<<1 | (b.U64() & 1)
	}
	return v, len(q.L)
}

func c10WordVL(h int32, v uint64, l int) uint64 {
	return bmtree.NewPath(v<<uint(int(h)-l), int32(l), h)
}

// c10NextOut: first node after the sub-tree of (v,l) in pre-order: drop the
// trailing 1s, turn the last 0 into 1; ok=false on the right spine.
func c10NextOut(v uint64, l int) (uint64, int, bool) {
	for l > 0 && v&1 == 1 {
		v >>= 1
		l--
	}
	if l == 0 {
		return 0, 0, false
	}
	return v | 1, l, true
}

func c10Fields(w uint64) string {
	return L(I32(bmtree.PathLen(w)), I32(bmtree.PathHeight(w)), U(bmtree.PathBits(w)), U(bmtree.PathMask(w)), Str(bmtree.PathStr(w)))
}

func init() {
	Exec["bmtree.NewPath/raw"] = func(a []V) string {
		return U(bmtree.NewPath(a[0].U64(), a[1].I32(), a[2].I32()))
	}
	Exec["bmtree.PathFields/raw"] = func(a []V) string {
		return c10Fields(a[0].U64())
	}
	Exec["bmtree.NewPath/rebuild"] = func(a []V) string {
		w := a[0].U64()
		r := bmtree.NewPath(bmtree.PathBits(w), bmtree.PathLen(w), bmtree.PathHeight(w))
		s := ^uint32(bmtree.PathMask(w)) & uint32(bmtree.PathBits(w))
		return L(U(r), U(uint64(s)), I32(bmtree.PathHeight(w)))
	}
	Exec["bmtree.NewPath/noncanon"] = func(a []V) string {
		h := a[0].I32()
		b, l := c10Bits(a[1], h)
		w := bmtree.NewPath(b|a[2].U64(), l, h)
		return L(U(w), I32(bmtree.PathLen(w)), I32(bmtree.PathHeight(w)), Str(bmtree.PathStr(w)))
	}
	Exec["bmtree.PathStr/order"] = func(a []V) string {
		h := a[0].I32()
		s1 := bmtree.PathStr(c10Word(h, a[1]))
		s2 := bmtree.PathStr(c10Word(h, a[2]))
		return L(Int(strings.Compare(s1, s2)), Str(s1), Str(s2))
	}
	Exec["bmtree.PathStr/parse"] = func(a []V) string {
		h := a[0].I32()
		w := c10Word(h, a[1])
		s := bmtree.PathStr(w)
		v := uint64(0)
		if s != "" {
			var err error
			v, err = strconv.ParseUint(s, 2, 64)
			if err != nil {
				panic(err)
			}
		}
		l := int32(len(s))
		return L(U(w), U(bmtree.NewPath(v<<uint(h-l), l, h)))
	}
	Exec["bmtree.PathStr/seq"] = func(a []V) string {
		xs := make([]string, len(a[0].L))
		for i, hq := range a[0].L {
			xs[i] = Str(bmtree.PathStr(c10Word(hq.L[0].I32(), hq.L[1])))
		}
		return L(xs...)
	}
	Exec["bmtree.PathStr/bulk"] = func(a []V) string {
		k, stride := a[1].Int(), a[2].U64()
		first := make([]uint64, 0, k)
		dg, i := uint64(0), uint64(1)
		for si, sg := range a[0].L {
			h, l := sg.L[0].I32(), sg.L[1].I32()
			start, count := sg.L[2].U64(), sg.L[3].U64()
			for x := start; x < start+count; x++ {
				w := bmtree.NewPath(x<<uint(h-l), l, h)
				if si == 0 && len(first) < k {
					first = append(first, w)
				}
				s := bmtree.PathStr(w) // every prefix is rendered; every stride-th text is observed
				if (x-start)%stride == 0 {
					dg += c10Digest(s) * i
					i++
				}
			}
		}
		again := make([]string, len(first))
		for j, w := range first {
			again[j] = Str(bmtree.PathStr(w))
		}
		return L(U(dg), L(again...))
	}
	Exec["bmtree.PathStr/concurrent"] = func(a []V) string {
		ws := make([]uint64, len(a[0].L))
		for i, hq := range a[0].L {
			ws[i] = c10Word(hq.L[0].I32(), hq.L[1])
		}
		g, iters := a[1].Int(), a[2].Int()
		seen := make([][]map[string]bool, g) // per goroutine, per path: the distinct texts returned
		var wg sync.WaitGroup
		start := make(chan struct{})
		for t := 0; t < g; t++ {
			seen[t] = make([]map[string]bool, len(ws))
			for i := range ws {
				seen[t][i] = map[string]bool{}
			}
			wg.Add(1)
			go func(t int) {
				defer wg.Done()
				<-start
				last := make([]string, len(ws))
				for it := 0; it < iters; it++ {
					for j := range ws {
						i := (j + t) % len(ws)
						s := bmtree.PathStr(ws[i])
						if it == 0 || s != last[i] {
							seen[t][i][s] = true
							last[i] = s
						}
					}
				}
			}(t)
		}
		close(start)
		wg.Wait()
		out := make([]string, len(ws))
		for i := range ws {
			set := map[string]bool{}
			for t := 0; t < g; t++ {
				for s := range seen[t][i] {
					set[s] = true
				}
			}
			xs := make([]string, 0, len(set))
			for s := range set {
				xs = append(xs, s)
			}
			sort.Strings(xs)
			for j := range xs {
				xs[j] = Str(xs[j])
			}
			out[i] = L(xs...)
		}
		return L(out...)
	}
	Exec["bmtree.NewPath/family"] = func(a []V) string {
		h := a[0].I32()
		v, l := c10VL(a[1])
		rv, rl := c10VL(a[2])
		none := L()
		c0, c1, nx := none, none, none
		if l < int(h) {
			c0 = U(c10WordVL(h, v<<1, l+1))
			c1 = U(c10WordVL(h, v<<1|1, l+1))
		}
		if nv, nl, ok := c10NextOut(v, l); ok {
			nx = U(c10WordVL(h, nv, nl))
		}
		return L(U(c10WordVL(h, v, l)), c0, c1, nx, U(c10WordVL(h, rv, rl)))
	}
}

// c10Digest: (ParseUint base 2 + 1) * (len + 1) of one rendered text, wrapping in uint64
// (Spec/PathWideSpec.v digest_acc; any byte c counts as the digit c-'0').
func c10Digest(s string) uint64 {
	v := uint64(0)
	for i := 0; i < len(s); i++ {
		v = 2*v + (uint64(s[i]) - 48)
	}
	return (v + 1) * (uint64(len(s)) + 1)
}

// c10MaskKind classifies the low half of a word: empty / block (left-aligned run
// of ones below the top bit = canonical mask) / holes.
func c10MaskKind(m uint32) string {
	if m == 0 {
		return "empty"
	}
	h := bits.Len32(m)
	l := bits.OnesCount32(m)
	if m == uint32((uint64(1)<<uint(l)-1)<<uint(h-l)) {
		return "block"
	}
	return "holes"
}

func c10WordKey(op string, w uint64) string {
	m := uint32(w)
	b := uint32(w >> 32)
	h := bits.Len32(m)
	l := bits.OnesCount32(m)
	hb := c10HB(h)
	lb := "l0"
	switch {
	case l == 0:
	case l == h:
		lb = "full"
	case l == 1:
		lb = "l1"
	default:
		lb = "mid"
	}
	bk := "b0"
	switch {
	case b == 0:
	case b&^m != 0 && uint64(b)>>uint(h) != 0:
		bk = "above"
	case b&^m != 0:
		bk = "stray"
	default:
		bk = "in"
	}
	return strings.Join([]string{op, c10MaskKind(m), hb, lb, bk}, "/")
}

func genC10Wide(g *Gen) {
	// ---------------------------------------------------------------- NewPath/raw
	raw := func(sb uint64, l, h int64, bucket string) {
		g.Stat(bucket)
		key := ""
		if l >= 1 && l <= 64 { // non-trivial: a mask is requested and the table lookup succeeds
			d := h - l
			dk := "d<0"
			switch {
			case d < 0:
			case d == 0:
				dk = "d0"
			case h <= 32:
				dk = "in32"
			case d < 32:
				dk = "overlap"
			case d < 64:
				dk = "high"
			default:
				dk = "d>=64"
			}
			sk := "sb0"
			switch {
			case sb == 0:
			case sb>>32 != 0:
				sk = "sb>32"
			case d > 0 && d < 64 && sb&(1<<uint(d)-1) != 0:
				sk = "noncanon"
			default:
				sk = "canon"
			}
			key = "raw/" + dk + "/" + sk
		} else if l < 0 || l > 64 {
			key = "raw/panic"
		}
		g.Do("bmtree.NewPath/raw", L(U(sb), I(l), I(h)), key)
	}
	sbs := []uint64{0, 0xffffffffffffffff, 0x80000001}
	for l := int64(-2); l <= 66; l++ {
		for h := int64(-2); h <= 66; h++ {
			for _, sb := range sbs {
				raw(sb, l, h, "raw-grid")
			}
		}
	}
	g.Exhaust = append(g.Exhaust, "NewPath/raw: lengths -2..66 x heights -2..66 x 3 search words")
	ext := []int64{math.MinInt32, math.MinInt32 + 1, math.MinInt32 + 64, -65, -64, -33, -32, -1, 0, 1, 31, 32, 33, 63, 64, 65, math.MaxInt32 - 64, math.MaxInt32 - 1, math.MaxInt32}
	for _, l := range ext {
		for _, h := range ext {
			raw(g.R.Word(), l, h, "raw-extreme")
			raw(0xffffffff, l, h, "raw-extreme")
		}
	}
	for _, l := range []int64{0, 1, 2, 31, 32, 33, 63, 64} {
		for _, h := range ext {
			raw(0, l, h, "raw-extreme")
			raw(0, h, l, "raw-extreme")
		}
	}
	g.Exhaust = append(g.Exhaust, "NewPath/raw: 19 extreme int32 values for length x height")
	n := g.N(1500, 60000)
	for k := 0; k < n; k++ {
		var sb uint64
		switch g.R.Intn(4) {
		case 0:
			sb = g.R.Word()
		case 1:
			sb = g.R.U64() & 0xffffffff
		case 2:
			sb = g.R.U64() & (1<<uint(g.R.Range(0, 33)) - 1)
		default:
			sb = g.R.U64()
		}
		var l, h int64
		switch g.R.Intn(5) {
		case 0, 1: // the documented range, arbitrary search bits
			h = int64(g.R.Range(0, 32))
			l = int64(g.R.Range(0, int(h)))
		case 2: // length above height
			l = int64(g.R.Range(0, 64))
			h = int64(g.R.Range(-3, int(l)))
		case 3: // tall trees: the mask reaches the upper half
			h = int64(g.R.Range(33, 70))
			l = int64(g.R.Range(0, 64))
		default:
			l = int64(g.R.Range(-1, 65))
			h = int64(g.R.Range(-1, 96))
		}
		raw(sb, l, h, "raw-rand")
	}

	// ---------------------------------------------------------------- words for the accessor ops
	word := func(w uint64, bucket string) {
		g.Stat(bucket)
		kf, kr := "", ""
		if uint32(w) != 0 { // non-trivial: non-empty mask half
			kf = c10WordKey("rf", w)
			kr = c10WordKey("rb", w)
		}
		g.Do("bmtree.PathFields/raw", L(U(w)), kf)
		g.Do("bmtree.NewPath/rebuild", L(U(w)), kr)
	}
	// every canonical mask (height 0..32 x length 0..h) x search-bit patterns: canonical,
	// one stray bit just below the mask, one bit just above the height, all ones, zero
	for h := 0; h <= 32; h++ {
		for l := 0; l <= h; l++ {
			m := (uint64(1)<<uint(l) - 1) << uint(h-l)
			pre := (g.R.U64() & (uint64(1)<<uint(l) - 1)) << uint(h-l)
			ws := []uint64{m, pre<<32 | m, m<<32 | m, 0xffffffff<<32 | m}
			if h > l {
				ws = append(ws, (pre|1<<uint(h-l-1))<<32|m, (pre|1)<<32|m)
			}
			if h < 32 {
				ws = append(ws, (pre|1<<uint(h))<<32|m, (pre|1<<31)<<32|m)
			}
			for _, w := range ws {
				word(w, "word-block")
			}
			// the same block with one hole / one extra low bit
			if l >= 3 {
				word(pre<<32|m&^(1<<uint(h-l+1)), "word-hole")
				word(pre<<32|m&^(1<<uint(h-2)), "word-hole")
			}
			if h-l >= 2 {
				word(pre<<32|m|1, "word-hole")
				word(pre<<32|m|1<<uint(h-l-2), "word-hole")
			}
		}
	}
	g.Exhaust = append(g.Exhaust, "PathFields/raw + NewPath/rebuild: every canonical mask (h 0..32 x l 0..h) x 4-8 search-bit patterns, + masks with one hole / one extra bit")
	// every canonical mask with ONE hole at every interior position, and with ONE extra bit at
	// every position below the block (a self-test mutant wrong for the single mask 0xfbf00 survived the sampled holes)
	for h := 1; h <= 32; h++ {
		for l := 1; l <= h; l++ {
			m := (uint64(1)<<uint(l) - 1) << uint(h-l)
			for i := h - l + 1; i < h-1; i++ {
				word(m&^(1<<uint(i)), "word-hole-all")
			}
			for i := 0; i < h-l-1; i++ {
				word(m|1<<uint(i), "word-hole-all")
			}
		}
	}
	g.Exhaust = append(g.Exhaust, "PathFields/raw + NewPath/rebuild: every canonical mask with one hole at every interior position / one extra bit at every lower position")
	// every 8-bit mask pattern at 4 positions (all hole structures of width 8)
	for p := 0; p < 256; p++ {
		for _, sh := range []uint{0, 7, 16, 24} {
			m := uint64(p) << sh
			word(m, "word-8bit")
			word((g.R.U64()&0xffffffff)<<32|m, "word-8bit")
		}
	}
	g.Exhaust = append(g.Exhaust, "PathFields/raw + NewPath/rebuild: all 256 8-bit mask patterns at 4 positions")
	n = g.N(2000, 80000)
	for k := 0; k < n; k++ {
		var w uint64
		switch g.R.Intn(4) {
		case 0:
			w = g.R.Word()
		case 1:
			w = g.R.Word()<<32 | g.R.Word()&0xffffffff
		case 2: // canonical word of a random node
			h := g.R.Range(1, 32)
			l := g.R.Range(0, h)
			w = bmtreeWordForGen(g.R.U64()&(1<<uint(l)-1), l, h)
		default:
			w = g.R.U64()
		}
		word(w, "word-rand")
	}

	// ---------------------------------------------------------------- non-canonical search bits
	nonc := func(h int, v uint64, l int, extra uint64, bucket string) {
		g.Stat(bucket)
		key := ""
		if extra != 0 && l >= 1 {
			ek := "mid"
			switch {
			case extra == 1:
				ek = "one"
			case extra == 1<<uint(h-l)-1:
				ek = "max"
			case extra&(extra-1) == 0:
				ek = "bit"
			}
			key = strings.Join([]string{"nc", c10HB(h), c10LB(l, h), ek}, "/")
		}
		g.Do("bmtree.NewPath/noncanon", L(Int(h), c10Node(v, l), U(extra)), key)
	}
	for h := 0; h <= 32; h++ {
		for l := 0; l <= h; l++ {
			ones := uint64(1)<<uint(l) - 1
			emax := uint64(1)<<uint(h-l) - 1
			for _, v := range []uint64{0, ones, 0xaaaaaaaaaaaaaaaa & ones, g.R.U64() & ones} {
				for _, e := range []uint64{0, 1 & emax, emax, emax &^ (emax >> 1), g.R.U64() & emax} {
					nonc(h, v, l, e, "nonc-grid")
				}
			}
		}
	}
	g.Exhaust = append(g.Exhaust, "NewPath/noncanon: heights 0..32 x all lengths x 4 prefixes x 5 extras (0, 1, max, top bit, random)")

	// ---------------------------------------------------------------- family
	fam := func(h int, v uint64, l int, rv uint64, rl int, bucket string) {
		g.Stat(bucket)
		key := ""
		if l >= 1 || rl >= 1 {
			_, _, ok := c10NextOut(v, l)
			nk := "nx"
			if !ok {
				nk = "spine"
			}
			key = strings.Join([]string{"fam", c10HB(h), c10LB(l, h), nk, c10Rel(v, l, rv, rl)}, "/")
		}
		g.Do("bmtree.NewPath/family", L(Int(h), c10Node(v, l), c10Node(rv, rl)), key)
		// the same pair through the text of the paths
		skey := ""
		if key != "" {
			skey = strings.Join([]string{"so", c10HB(h), c10Rel(v, l, rv, rl), c10LB(l, h), c10LB(rl, h)}, "/")
		}
		g.Do("bmtree.PathStr/order", L(Int(h), c10Node(v, l), c10Node(rv, rl)), skey)
	}
	parse := func(h int, v uint64, l int, bucket string) {
		g.Stat(bucket)
		key := ""
		if l >= 1 {
			lead := "lead1"
			if v>>uint(l-1)&1 == 0 {
				lead = "lead0"
			}
			key = strings.Join([]string{"sp", c10HB(h), c10LB(l, h), lead}, "/")
		}
		g.Do("bmtree.PathStr/parse", L(Int(h), c10Node(v, l)), key)
	}
	for h := 0; h <= 32; h++ {
		for l := 0; l <= h; l++ {
			ones := uint64(1)<<uint(l) - 1
			for _, v := range []uint64{0, ones, ones >> 1, ones &^ (ones >> 1), 0xaaaaaaaaaaaaaaaa & ones, 1 & ones, g.R.U64() & ones, g.R.U64() & ones} {
				parse(h, v, l, "parse-grid")
			}
		}
	}
	g.Exhaust = append(g.Exhaust, "PathStr/parse: heights 0..32 x all lengths x 8 prefixes")
	maxh := g.N(5, 6)
	for h := 0; h <= maxh; h++ {
		for l := 0; l <= h; l++ {
			for v := uint64(0); v < 1<<uint(l); v++ {
				for rl := 0; rl <= h; rl++ {
					for rv := uint64(0); rv < 1<<uint(rl); rv++ {
						fam(h, v, l, rv, rl, "fam-exh")
					}
				}
			}
		}
	}
	g.Exhaust = append(g.Exhaust, fmt.Sprintf("NewPath/family: heights 0..%d x all ordered pairs (q, r)", maxh))
	n = g.N(2500, 60000)
	for k := 0; k < n; k++ {
		h := g.R.Range(6, 32)
		if g.R.Intn(4) == 0 {
			h = g.R.Pick(30, 31, 32)
		}
		l := g.R.Range(0, h)
		if g.R.Intn(5) == 0 {
			l = g.R.Pick(0, 1, h-1, h)
		}
		v := g.R.U64() & (1<<uint(l) - 1)
		switch g.R.Intn(6) {
		case 0: // right spine
			v = 1<<uint(l) - 1
		case 1: // ends in a run of ones
			t := g.R.Intn(l + 1)
			v |= 1<<uint(t) - 1
		case 2:
			v = 0
		}
		var rv uint64
		var rl int
		nv, nl, ok := c10NextOut(v, l)
		switch g.R.Intn(8) {
		case 0: // r = q
			rv, rl = v, l
		case 1: // descendant
			rl = g.R.Range(l, h)
			rv = v<<uint(rl-l) | g.R.U64()&(1<<uint(rl-l)-1)
		case 2: // last node of the sub-tree: the all-ones leaf below q
			rl = h
			rv = v<<uint(h-l) | (1<<uint(h-l) - 1)
		case 3: // next_out itself / one of its descendants
			if ok {
				rl = g.R.Range(nl, h)
				rv = nv << uint(rl-nl)
				if g.R.Bool() {
					rl, rv = nl, nv
				}
			} else {
				rl, rv = 0, 0
			}
		case 4: // ancestor
			rl = g.R.Intn(l + 1)
			rv = v >> uint(l-rl)
		case 5: // the node just before q: left sibling's all-ones leaf, or an ancestor
			if l > 0 && v&1 == 1 {
				rl = h
				rv = (v^1)<<uint(h-l) | (1<<uint(h-l) - 1)
			} else {
				rl = g.R.Intn(l + 1)
				rv = v >> uint(l-rl)
			}
		default:
			rl = g.R.Range(0, h)
			rv = g.R.U64() & (1<<uint(rl) - 1)
		}
		fam(h, v, l, rv, rl, "fam-rand-"+c10HB(h))
	}
	// ---------------------------------------------------------------- sessions (hidden state inside PathStr)
	hq := func(h int, v uint64, l int) string { return L(Int(h), c10Node(v, l)) }
	seq := func(items []string, key, bucket string) {
		g.Stat(bucket)
		g.Do("bmtree.PathStr/seq", L(L(items...)), key)
	}
	// (a) consecutive calls for nodes of DIFFERENT heights with the same length and the same upper half
	// (same PathBits, same PathLen): every such pair of heights 1..10, in the order A B A
	for h2 := 2; h2 <= 10; h2++ {
		for h1 := 1; h1 < h2; h1++ {
			d := h2 - h1
			for l := d + 1; l <= h1; l++ {
				var items []string
				for p2 := uint64(1); p2<<uint(d) < 1<<uint(l); p2++ {
					a, b := hq(h1, p2<<uint(d), l), hq(h2, p2, l)
					items = append(items, a, b, a)
				}
				seq(items, fmt.Sprintf("seq/eqbits/h%d/h%d/l%d", h1, h2, l), "seq-eqbits-exh")
			}
		}
	}
	g.Exhaust = append(g.Exhaust, "PathStr/seq: heights 1..10, every pair of nodes of different heights with equal PathBits and PathLen (non-zero prefix), order A B A")
	n = g.N(300, 6000)
	for k := 0; k < n; k++ {
		h2 := g.R.Range(2, 32)
		h1 := g.R.Range(1, h2-1)
		d := h2 - h1
		if d+1 > h1 {
			h1 = (h2 + 2) / 2
			d = h2 - h1
			if d+1 > h1 {
				continue
			}
		}
		l := g.R.Range(d+1, h1)
		p2 := g.R.U64()&(1<<uint(l-d)-1) | 1
		a, b := hq(h1, p2<<uint(d), l), hq(h2, p2, l)
		items := []string{a, b, a}
		if g.R.Bool() { // a third height in between / the same node twice
			items = append(items, b, b, a)
		}
		seq(items, "seq/eqbits/"+c10HB(h1)+"/"+c10HB(h2), "seq-eqbits-rand")
	}
	// (b) mixed sessions: a few nodes of mixed heights with repeats (A B A C B A ...)
	n = g.N(300, 6000)
	for k := 0; k < n; k++ {
		m := g.R.Range(2, 4)
		pool := make([]string, m)
		for i := range pool {
			h := g.R.Range(1, 32)
			l := g.R.Range(1, h)
			pool[i] = hq(h, g.R.U64()&(1<<uint(l)-1), l)
		}
		cnt := g.R.Range(4, 12)
		items := make([]string, cnt)
		for i := range items {
			items[i] = pool[g.R.Intn(m)]
		}
		seq(items, fmt.Sprintf("seq/mixed/%d", m), "seq-mixed")
	}

	// (c) concurrent renders of two or three paths
	conc := func(items []string, gor, iters int, key string) {
		g.Stat("concurrent")
		g.Do("bmtree.PathStr/concurrent", L(L(items...), Int(gor), Int(iters)), key)
	}
	n = g.N(16, 64)
	for k := 0; k < n; k++ {
		m := 2 + k%2
		items := make([]string, m)
		h := g.R.Range(2, 32)
		for i := range items {
			hh := h
			if k%4 >= 2 { // different heights
				hh = g.R.Range(2, 32)
			}
			l := g.R.Range(1, hh)
			items[i] = hq(hh, (g.R.U64()&(1<<uint(l)-1))^uint64(i), l)
		}
		conc(items, []int{4, 6, 8}[k%3], 10000, fmt.Sprintf("conc/%d/g%d", m, []int{4, 6, 8}[k%3]))
	}

	// (d) bulk: more than 65536 DISTINCT paths in this process (heights 17..20), then the first ones again
	bulk := func(segs [][4]int, k, stride int, key string) {
		g.Stat("bulk")
		xs := make([]string, len(segs))
		for i, sg := range segs {
			xs[i] = L(Int(sg[0]), Int(sg[1]), Int(sg[2]), Int(sg[3]))
		}
		g.Do("bmtree.PathStr/bulk", L(L(xs...), Int(k), Int(stride)), key)
	}
	bulk([][4]int{{17, 17, 0, 16700}, {18, 18, 3, 16700}, {19, 19, 1 << 18, 16700}, {20, 20, 1<<20 - 16700, 16700}}, 16, 61, "bulk/66800")
	bulk([][4]int{{9, 9, 0, 512}, {10, 7, 100, 28}}, 8, 1, "bulk/540")
	if g.Thorough {
		bulk([][4]int{{17, 16, 0, 65536}, {20, 12, 0, 4096}, {18, 18, 100000, 70000}}, 32, 7, "bulk/139632")
	}
	// ... and the paths this process rendered FIRST (the start of genC10's exhaustive section) once more
	for h := 1; h <= 3; h++ {
		for l := 1; l <= h; l++ {
			for v := uint64(0); v < 1<<uint(l); v++ {
				g.Stat("after-bulk")
				g.Do("bmtree.NewPath/fields", L(Int(h), c10Node(v, l)), "")
			}
		}
	}
}

// bmtreeWordForGen builds the canonical word of the l-bit node v at height h
// WITHOUT calling the code under test (generator input only).
func bmtreeWordForGen(v uint64, l, h int) uint64 {
	return (v<<uint(h-l))<<32 | (uint64(1)<<uint(l)-1)<<uint(h-l)
}
