package main

// X01 (extra check) — package vers: IsCompatible and Check (semantic-version ranges through blang/semver).
//
// String-level operations pass the strings through unchanged.  The /ast operations receive a version and a
// range as STRUCTURE (encoding: coq/theories/Run/X01.v), print the canonical strings here (x01VersionString,
// x01GroupString — the Coq side prints the same way) and call the real functions on them.

import (
	"fmt"
	"os"
	"strconv"
	"strings"

	"github.com/openacid/low/vers"
)

func x01Fatal(format string, a ...interface{}) {
	fmt.Fprintf(os.Stderr, "x01: "+format+"\n", a...)
	os.Exit(2)
}

func x01VersionString(v V) string {
	var b strings.Builder
	b.WriteString(strconv.FormatUint(v.L[0].U64(), 10) + "." + strconv.FormatUint(v.L[1].U64(), 10) + "." + strconv.FormatUint(v.L[2].U64(), 10))
	for i, p := range v.L[3].L {
		if i == 0 {
			b.WriteByte('-')
		} else {
			b.WriteByte('.')
		}
		if p.L[0].Int() == 0 {
			b.WriteString(strconv.FormatUint(p.L[1].U64(), 10))
		} else {
			b.WriteString(p.L[1].Str())
		}
	}
	for i, s := range v.L[4].L {
		if i == 0 {
			b.WriteByte('+')
		} else {
			b.WriteByte('.')
		}
		b.WriteString(s.Str())
	}
	return b.String()
}

var x01Spellings = [][]string{{"", "=", "=="}, {"!", "!="}, {">"}, {">="}, {"<"}, {"<="}}

func x01GroupString(g V) string {
	xs := make([]string, len(g.L))
	for i, c := range g.L {
		xs[i] = x01Spellings[c.L[0].Int()][c.L[1].Int()] + x01VersionString(c.L[2])
	}
	return strings.Join(xs, " ")
}

func x01Specs(gs V) []string {
	xs := make([]string, len(gs.L))
	for i, g := range gs.L {
		xs[i] = x01GroupString(g)
	}
	return xs
}

func init() {
	Exec["vers.IsCompatible"] = func(a []V) string { return B(vers.IsCompatible(a[0].Str(), a[1].Strs())) }
	check := func(a []V) string { return B(vers.Check(a[0].Str(), a[1].Strs()...)) }
	Exec["vers.Check"] = check
	Exec["vers.Check/debug"] = check
	Exec["vers.IsCompatible/malformed"] = Exec["vers.IsCompatible"]
	Exec["vers.Check/debug/malformed"] = check
	Exec["vers.IsCompatible/ast"] = func(a []V) string {
		return B(vers.IsCompatible(x01VersionString(a[0]), x01Specs(a[1])))
	}
	Exec["vers.Check/ast"] = func(a []V) string {
		return B(vers.Check(x01VersionString(a[0]), x01Specs(a[1])...))
	}
	Register("X01", genX01)
}

// ---- generator

// a structured version
type x01V struct {
	n     [3]uint64
	pre   []string // identifiers as text; numeric ones are canonical decimals
	build []string
}

func x01IsNum(s string) bool {
	if s == "" {
		return false
	}
	for _, c := range []byte(s) {
		if c < '0' || c > '9' {
			return false
		}
	}
	return true
}

func (v *x01V) text() string {
	s := strconv.FormatUint(v.n[0], 10) + "." + strconv.FormatUint(v.n[1], 10) + "." + strconv.FormatUint(v.n[2], 10)
	if len(v.pre) > 0 {
		s += "-" + strings.Join(v.pre, ".")
	}
	if len(v.build) > 0 {
		s += "+" + strings.Join(v.build, ".")
	}
	return s
}

func (v *x01V) ast() string {
	ps := make([]string, len(v.pre))
	for i, p := range v.pre {
		if x01IsNum(p) {
			ps[i] = L("0", p)
		} else {
			ps[i] = L("1", Str(p))
		}
	}
	return L(strconv.FormatUint(v.n[0], 10), strconv.FormatUint(v.n[1], 10), strconv.FormatUint(v.n[2], 10), L(ps...), Strs(v.build))
}

var x01Nums = []uint64{0, 0, 0, 1, 1, 1, 2, 2, 3, 9, 10, 11, 99, 100, 1<<31 - 1, 1 << 32, 1<<63 - 1, 1 << 63, 1<<64 - 1}
var x01Alnum = []string{"a", "b", "alpha", "beta", "rc", "rc1", "A", "Z", "z", "-", "a-b", "0a", "1-", "alpha1", "B2", "x", "ax", "X"}
var x01NumIds = []string{"0", "1", "2", "9", "10", "11", "99", "100", "18446744073709551615"}

func x01Pick2(g *Gen, a, b []string) string {
	i := g.R.Intn(len(a) + len(b))
	if i < len(a) {
		return a[i]
	}
	return b[i-len(a)]
}

func x01Ident(g *Gen, allowX bool) string {
	for {
		var s string
		if g.R.Intn(2) == 0 {
			s = x01NumIds[g.R.Intn(len(x01NumIds))]
		} else {
			s = x01Alnum[g.R.Intn(len(x01Alnum))]
		}
		if allowX || !strings.Contains(s, "x") {
			return s
		}
	}
}

func x01BuildId(g *Gen, allowX bool) string {
	for {
		s := x01Pick2(g, x01Alnum, []string{"001", "0", "7", "exp", "sha-5114f85", "20130313144700"})
		if allowX || !strings.Contains(s, "x") {
			return s
		}
	}
}

func x01RndV(g *Gen, allowX bool) *x01V {
	v := &x01V{}
	small := g.R.Intn(3) != 0
	for i := range v.n {
		if small {
			v.n[i] = uint64(g.R.Intn(3))
		} else {
			v.n[i] = x01Nums[g.R.Intn(len(x01Nums))]
		}
	}
	if g.R.Intn(2) == 0 {
		for k := g.R.Range(1, 3); k > 0; k-- {
			v.pre = append(v.pre, x01Ident(g, allowX))
		}
	}
	if g.R.Intn(4) == 0 {
		for k := g.R.Range(1, 2); k > 0; k-- {
			v.build = append(v.build, x01BuildId(g, allowX))
		}
	}
	return v
}

// a version near w: equal, or different in exactly one place (so that comparisons are decided late)
func x01Near(g *Gen, w *x01V, allowX bool) *x01V {
	v := &x01V{n: w.n, pre: append([]string{}, w.pre...), build: append([]string{}, w.build...)}
	switch g.R.Intn(10) {
	case 0:
	case 1, 2:
		i := g.R.Intn(3)
		if g.R.Bool() && v.n[i] > 0 {
			v.n[i]--
		} else if v.n[i] < 1<<64-1 {
			v.n[i]++
		}
	case 3:
		v.pre = nil
	case 4:
		v.pre = append(v.pre, x01Ident(g, allowX))
	case 5:
		if len(v.pre) > 0 {
			v.pre = v.pre[:len(v.pre)-1]
		}
	case 6, 7:
		if len(v.pre) > 0 {
			v.pre[g.R.Intn(len(v.pre))] = x01Ident(g, allowX)
		} else {
			v.pre = []string{x01Ident(g, allowX)}
		}
	case 8:
		v.build = []string{x01BuildId(g, allowX)}
	default:
		return x01RndV(g, allowX)
	}
	return v
}

// damage a valid version text
func x01Damage(g *Gen, s string) (string, string) {
	switch g.R.Intn(16) {
	case 0:
		return "", "empty"
	case 1:
		return "0" + s, "leadzero"
	case 2:
		return strings.Replace(s, ".", ".0", 1), "leadzero"
	case 3:
		return strings.Replace(s, ".", "", 1), "parts"
	case 4:
		return s + ".", "traildot"
	case 5:
		return "v" + s, "vprefix"
	case 6:
		return " " + s, "space"
	case 7:
		return s + " ", "space"
	case 8:
		return strings.Replace(s, ".", "..", 1), "emptycomp"
	case 9:
		return "18446744073709551616" + s[strings.Index(s, "."):], "overflow"
	case 10:
		return s + "-", "emptypre"
	case 11:
		return s + "+", "emptybuild"
	case 12:
		i := g.R.Intn(len(s) + 1)
		bad := "_~/*?$\t!=<>|"
		return s[:i] + string(bad[g.R.Intn(len(bad))]) + s[i:], "badchar"
	case 13:
		return s + "-01", "prezero"
	case 14:
		return strings.Replace(s, ".", ".-", 1), "sign"
	default:
		i := g.R.Intn(len(s))
		return s[:i] + s[i+1:], "dropchar"
	}
}

// x01Clean: no damage, no odd elements (half of the random cases; the other half mixes everything)
var x01Clean bool

var x01Ops = []string{"", "=", "==", "!", "!=", ">", ">=", "<", "<="}

// one comparator text; kind describes what was done to it
func x01Comparator(g *Gen, near *x01V) (string, string) {
	op := x01Ops[g.R.Intn(len(x01Ops))]
	w := x01Near(g, near, true)
	vt := w.text()
	kind := "plain"
	roll := g.R.Intn(14)
	if x01Clean && (roll == 3 || roll == 4 || roll == 6) {
		roll = 13
	}
	switch roll {
	case 0: // wildcards
		vt = strconv.FormatUint(w.n[0], 10) + "." + strconv.FormatUint(w.n[1], 10) + ".x"
		kind = "patchx"
	case 1:
		vt = strconv.FormatUint(w.n[0], 10) + ".x"
		kind = "minorx"
	case 2:
		vt = strconv.FormatUint(w.n[0], 10) + ".x.x"
		kind = "xx"
	case 3:
		vt = x01Pick2(g, []string{"x", "1x", "x.1.2", "1.x.3", "1.2.x-a", "1.2.X", "1.+5.x", "1.-1.x", "01.x", "9223372036854775807.x", "9223372036854775808.x", "18446744073709551615.1.x", "1.18446744073709551615.x", "1.x.x.x"}, nil)
		kind = "oddx"
	case 4:
		vt, kind = x01Damage(g, vt)
		kind = "bad-" + kind
	case 5: // a space after the operator is tolerated by the range syntax
		if op != "" {
			op += strings.Repeat(" ", g.R.Range(1, 2))
			kind = "opspace"
		}
	case 6:
		op = x01Pick2(g, []string{"~", "^", "=>", "=<", "<>", "===", "!==", ">>", "\t>", "> ="}, nil)
		kind = "badop"
	}
	if strings.Contains(vt, "x") && kind == "plain" {
		kind = "xident"
	}
	return op + vt, kind
}

func x01SpecElem(g *Gen, near *x01V) (string, string) {
	roll := g.R.Intn(20)
	if x01Clean {
		roll = 19
	}
	switch roll {
	case 0:
		return "", "empty"
	case 1:
		return x01Pick2(g, []string{" ", "  ", "||", " || ", "1", "x", ">", "1.0.0 ||", "|| 1.0.0", "1.0.0 || || 2.0.0", "1.0.0||2.0.0", "1.0.0 | 2.0.0"}, nil), "odd"
	}
	n := g.R.Pick(1, 1, 1, 2, 2, 3)
	parts, kinds := make([]string, n), make([]string, n)
	for i := range parts {
		parts[i], kinds[i] = x01Comparator(g, near)
	}
	sep := " "
	if g.R.Intn(6) == 0 {
		sep = "  "
	}
	s := strings.Join(parts, sep)
	if g.R.Intn(12) == 0 {
		s = " " + s
	}
	if g.R.Intn(12) == 0 {
		s += " "
	}
	if g.R.Intn(10) == 0 && n == 1 {
		// two groups inside one element
		p2, k2 := x01Comparator(g, near)
		return s + " || " + p2, "inner-or:" + kinds[0] + "," + k2
	}
	return s, strings.Join(kinds, ",")
}

func x01EmitStr(g *Gen, ver string, spec []string, key string) {
	args := L(Str(ver), Strs(spec))
	if x01Debug {
		g.Do("vers.Check/debug", args, "dbg:"+key)
		return
	}
	g.Do("vers.IsCompatible", args, "isc:"+key)
	g.Do("vers.Check", args, "chk:"+key)
}

func x01OpIndex(g *Gen) (int, int) {
	c := g.R.Intn(6)
	return c, g.R.Intn(len(x01Spellings[c]))
}

// the package's own test cases and the quirks met while modelling (the corpus holds the same inputs for IsCompatible)
var x01Fixed = []struct {
	ver  string
	spec []string
}{
	{"1.0.0", []string{"1.x", "", "1.x"}}, // recorded finding: malformed range
	{"1.0.0", []string{"==1.0.0"}},
	{"1.0.0", []string{"==1.0.1"}},
	{"1.0.0", []string{"==1.0.0", "==1.0.1"}},
	{"1.2.3", []string{">1.0.0 <2.0.0", ">3.0.0 !4.2.1"}},
	{"1.9.9", []string{">1.0.0 <2.0.0", ">3.0.0 !4.2.1"}},
	{"3.1.1", []string{">1.0.0 <2.0.0", ">3.0.0 !4.2.1"}},
	{"2.1.1", []string{">1.0.0 <2.0.0", ">3.0.0 !4.2.1"}},
	{"4.2.1", []string{">1.0.0 <2.0.0", ">3.0.0 !4.2.1"}},
	{"abc.e", []string{"1.0.0"}},
	{"1.0.0", []string{"a.b.c"}},
	{"1.0.0", []string{"1.2.3", "a.b.c"}},
	{"1.0.0", []string{"1.0.0", "1.0.2"}},
	{"1.0.0-xyz", []string{"1.0.0-xyz"}},
	{"1.0.0-abc", []string{"1.0.0-abc"}},
	{"1.5.0", []string{"<=1.+5.x"}},
	{"1.6.0", []string{"<=1.+5.x"}},
	{"1.0.5", []string{"1.x.x"}},
	{"1.1.5", []string{"1.x.x"}},
	{"1.1.5", []string{"1.x"}},
	{"5.0.0", []string{">1 <9"}},
	{"3.0.0", []string{"1.0.0", ""}},
	{"3.0.0", []string{"", "1.0.0"}},
	{"3.0.0", []string{""}},
	{"3.0.0", []string{}},
	{"1.0.0", []string{">= 1.0.0"}},
	{"1.0.0", []string{"> =1.0.0"}},
	{"1.0.0", []string{"9223372036854775807.x"}},
	{"1.0.0", []string{"<=9223372036854775807.x"}},
	{"1.0.0", []string{"!=1.2.x"}},
	{"1.2.5", []string{"!=1.2.x"}},
	{"1.0.0", []string{">0.0.0 <2.0.0 !1.0.0"}},
	{"", []string{"1.0.0"}},
	{"abc", []string{"0.0.0"}},
}

var x01Malformed = []struct {
	ver  string
	spec []string
}{
	{"1.0.0", []string{"1.x", "", "1.x"}},     // answers true
	{"3.0.0", []string{"1.0.0", "", "2.0.0"}}, // nil pointer dereference
}

func genX01(g *Gen) {
	for _, c := range x01Fixed {
		x01EmitStr(g, c.ver, c.spec, "fixed")
	}
	// the recorded finding (known_findings.txt): a malformed range "a ||  || b" under the strict specification.
	// Only these two inputs go through the /malformed operations.
	for _, c := range x01Malformed {
		args := L(Str(c.ver), Strs(c.spec))
		if x01Debug {
			g.Do("vers.Check/debug/malformed", args, "malformed")
		} else {
			g.Do("vers.IsCompatible/malformed", args, "malformed")
		}
	}
	// (1) a fixed family of versions that exercises every decision of the precedence order, pairwise under every operator spelling
	fam := []*x01V{
		{n: [3]uint64{0, 0, 0}}, {n: [3]uint64{0, 0, 1}}, {n: [3]uint64{0, 1, 0}}, {n: [3]uint64{1, 0, 0}},
		{n: [3]uint64{1, 0, 0}, pre: []string{"0"}}, {n: [3]uint64{1, 0, 0}, pre: []string{"1"}}, {n: [3]uint64{1, 0, 0}, pre: []string{"10"}},
		{n: [3]uint64{1, 0, 0}, pre: []string{"2"}}, {n: [3]uint64{1, 0, 0}, pre: []string{"a"}}, {n: [3]uint64{1, 0, 0}, pre: []string{"B"}},
		{n: [3]uint64{1, 0, 0}, pre: []string{"a", "0"}}, {n: [3]uint64{1, 0, 0}, pre: []string{"a", "a"}}, {n: [3]uint64{1, 0, 0}, pre: []string{"a", "0", "0"}},
		{n: [3]uint64{1, 0, 0}, pre: []string{"alpha"}}, {n: [3]uint64{1, 0, 0}, pre: []string{"alpha", "1"}}, {n: [3]uint64{1, 0, 0}, pre: []string{"alpha", "beta"}},
		{n: [3]uint64{1, 0, 0}, pre: []string{"beta", "2"}}, {n: [3]uint64{1, 0, 0}, pre: []string{"beta", "11"}}, {n: [3]uint64{1, 0, 0}, pre: []string{"rc", "1"}},
		{n: [3]uint64{1, 0, 0}, pre: []string{"0a"}}, {n: [3]uint64{1, 0, 0}, pre: []string{"-"}},
		{n: [3]uint64{1, 0, 0}, build: []string{"b1"}}, {n: [3]uint64{1, 0, 0}, pre: []string{"a"}, build: []string{"b1", "007"}},
		{n: [3]uint64{1, 2, 3}}, {n: [3]uint64{2, 0, 0}}, {n: [3]uint64{9, 0, 0}}, {n: [3]uint64{10, 0, 0}},
		{n: [3]uint64{1<<64 - 1, 1<<64 - 1, 1<<64 - 1}}, {n: [3]uint64{1 << 63, 0, 0}}, {n: [3]uint64{1<<63 - 1, 0, 0}},
	}
	if !x01Debug {
		for _, v := range fam {
			for _, w := range fam {
				// all six operators in one case would hide which one failed: one case per operator, first spelling;
				// the other spellings on a diagonal
				for c := 0; c < 6; c++ {
					sp := 0
					g.Do("vers.IsCompatible/ast", L(v.ast(), L(L(L(Int(c), Int(sp), w.ast())))), "fam")
				}
			}
		}
		g.Exhaust = append(g.Exhaust, fmt.Sprintf("vers.IsCompatible/ast: %d x %d versions of a fixed family (every decision of the precedence order: each number, pre-release present/absent, numeric vs alphanumeric identifiers, numeric order 2 < 10, ASCII order, prefix lists, build metadata, 2^63 and 2^64-1) x the 6 operators", len(fam), len(fam)))
		for i, v := range fam {
			for c := 0; c < 6; c++ {
				for sp := range x01Spellings[c] {
					w := fam[(i*7+c+sp)%len(fam)]
					g.Do("vers.Check/ast", L(v.ast(), L(L(L(Int(c), Int(sp), w.ast())))), "fam")
					x01EmitStr(g, v.text(), []string{x01Spellings[c][sp] + w.text()}, "fam")
				}
			}
		}
	} else {
		for i, v := range fam {
			for j, op := range x01Ops {
				w := fam[(i*5+j)%len(fam)]
				x01EmitStr(g, v.text(), []string{op + w.text()}, "fam")
			}
		}
	}
	// (2) structured random strings: mostly valid versions against ranges built around a nearby version
	n := g.N(6000, 120000)
	for c := 0; c < n; c++ {
		x01Clean = c%2 == 0
		base := x01RndV(g, true)
		ver := x01Near(g, base, true).text()
		vk := "ok"
		if !x01Clean && g.R.Intn(4) == 0 {
			ver, vk = x01Damage(g, ver)
		}
		ne := g.R.Pick(0, 1, 1, 1, 1, 2, 2, 3, 4)
		spec, kinds := make([]string, ne), make([]string, ne)
		for i := range spec {
			spec[i], kinds[i] = x01SpecElem(g, base)
		}
		g.Stat("ver-" + vk)
		for _, k := range kinds {
			g.Stat("elem-" + strings.SplitN(k, ",", 2)[0])
		}
		x01EmitStr(g, ver, spec, vk+"|"+strings.Join(kinds, ";"))
	}
	if x01Debug {
		return
	}
	// (3) structured random structures through the /ast operations
	n = g.N(4000, 80000)
	for c := 0; c < n; c++ {
		base := x01RndV(g, false)
		v := x01Near(g, base, true)
		ng := g.R.Pick(1, 1, 2, 2, 3)
		gs := make([]string, ng)
		shape := ""
		for i := range gs {
			nc := g.R.Pick(1, 1, 2, 3)
			cs := make([]string, nc)
			for j := range cs {
				op, sp := x01OpIndex(g)
				cs[j] = L(Int(op), Int(sp), x01Near(g, base, false).ast())
			}
			gs[i] = L(cs...)
			shape += Int(nc)
		}
		pk := "p0"
		if len(v.pre) > 0 {
			pk = "p" + Int(len(v.pre))
		}
		op := "vers.IsCompatible/ast"
		if c%4 == 3 {
			op = "vers.Check/ast"
		}
		g.Stat("ast-groups-" + shape)
		g.Do(op, L(v.ast(), L(gs...)), "ast:"+shape+":"+pk)
	}
}
