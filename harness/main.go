// Command harness runs the REAL functions of github.com/openacid/low (built from
// /repo's working tree through the replace directive in go.mod) on generated
// cases and writes one line per case:
//
//	op \t args \t observed \t shape-key
//
// in the value syntax of /verif/coq/theories/Lib/Val.v.  The OCaml driver
// evaluates the extracted Coq model and specification on the same lines.
package main

import (
	"bufio"
	"flag"
	"fmt"
	"os"
	"runtime"
	"sort"
	"strings"
	"sync/atomic"
	"time"
)

// Gen is handed to every property generator.
type Gen struct {
	Prop     string
	Thorough bool
	R        *Rand
	out      *bufio.Writer
	n        int
	current  atomic.Value // string: the case being executed (for the watchdog)
	started  int64        // unix nano of the current case start
	Sync     bool         // announce every case on stderr before running it, flush after (crash diagnosis)
	sample   [][2]string  // reservoir of (op, args) re-executed in shuffled order at the end
	seen     int
	noSample bool
	slow     []slowCase            // the slowest cases of the run (see noteSlow)
	pairs    map[string]*[2]string // (op, k, arg k) -> two different cases sharing argument k (see notePair)
	Stats    map[string]int
	Exhaust  []string // names of finite sub-domains enumerated completely
}

var registry = map[string]func(g *Gen){}

// Register is called from the init() of each cXX.go.
func Register(prop string, f func(g *Gen)) { registry[prop] = f }

// N scales a case count by tier.
func (g *Gen) N(quick, thorough int) int {
	if g.Thorough {
		return thorough
	}
	return quick
}

// Stat counts an input-distribution bucket (printed into the evidence).
func (g *Gen) Stat(bucket string) { g.Stats[bucket]++ }

// Case runs f (the call into the real code), recovering a panic as "P",
// and writes the case line.  args and the result of f are in val syntax.
func (g *Gen) Case(op, args, key string, f func() string) {
	g.current.Store(op + "\t" + args)
	atomic.StoreInt64(&g.started, time.Now().UnixNano())
	if g.Sync {
		fmt.Fprintf(os.Stderr, "PENDING\t%s\t%s\n", op, args)
	}
	guardReset()
	t0 := time.Now()
	obs := try(f)
	if !g.noSample && len(args) < 20000 {
		g.noteSlow(op, args, time.Since(t0))
	}
	if !guardsIntact() {
		obs = "[P,-7777777]" // the callee wrote beyond the length of an argument slice (into its spare capacity)
	}
	atomic.StoreInt64(&g.started, 0)
	g.out.WriteString(op)
	g.out.WriteByte('\t')
	g.out.WriteString(args)
	g.out.WriteByte('\t')
	g.out.WriteString(obs)
	g.out.WriteByte('\t')
	g.out.WriteString(key)
	g.out.WriteByte('\n')
	g.n++
	if g.Sync {
		g.out.Flush()
	}
}

// rerunSample re-executes a reservoir sample of the cases of this run in shuffled order, as ordinary
// case lines: a function whose result depends on hidden state left behind by earlier calls (a cache,
// a scratch buffer, a memo table) gives a different - wrong - answer the second time round.
func (g *Gen) rerunSample() {
	g.noSample = true
	s := g.sample
	for i := len(s) - 1; i > 0; i-- {
		j := g.R.Intn(i + 1)
		s[i], s[j] = s[j], s[i]
	}
	// the shuffled re-run also varies GOMAXPROCS (3, 33, 97, then the default again): code that splits work by the number
	// of procs (chunk sizes, worker counts clamped after the fact) behaves differently for values nobody tests with
	def := runtime.GOMAXPROCS(0)
	procs := []int{3, 33, 97, def}
	for i, c := range s {
		if i%((len(s)+3)/4+1) == 0 {
			runtime.GOMAXPROCS(procs[(i/((len(s)+3)/4+1))%4])
		}
		g.Do(c[0], c[1], "")
	}
	runtime.GOMAXPROCS(def)
	g.Stats["rerun-shuffled"] = len(s)
	g.rerunPairs()
	// the slowest cases of the run (= the biggest inputs) once more under each odd GOMAXPROCS value, within a time budget
	start := time.Now()
	n := 0
	for _, pr := range []int{3, 33, 97} {
		runtime.GOMAXPROCS(pr)
		for _, c := range g.slow {
			if time.Since(start) > 25*time.Second {
				break
			}
			g.Do(c.op, c.args, "")
			n++
		}
	}
	runtime.GOMAXPROCS(def)
	g.Stats["rerun-slowest-gomaxprocs"] = n
}

type slowCase struct {
	op, args string
	d        time.Duration
}

// noteSlow keeps the 16 slowest distinct cases of the run.
func (g *Gen) noteSlow(op, args string, d time.Duration) {
	if len(g.slow) == 16 && d <= g.slow[len(g.slow)-1].d {
		return
	}
	for _, c := range g.slow {
		if c.op == op && c.args == args {
			return
		}
	}
	g.slow = append(g.slow, slowCase{op, args, d})
	sort.Slice(g.slow, func(i, j int) bool { return g.slow[i].d > g.slow[j].d })
	if len(g.slow) > 16 {
		g.slow = g.slow[:16]
	}
}

// rerunPairs replays pairs of cases of this run that share ONE argument (same index at two heights, same bitmap at two
// positions, same key list with two ranges ...) back to back, A B A B: a memo table or cache keyed on a subset of the
// arguments hands B the answer of A.  The replayed cases are ordinary case lines judged like all others.
func (g *Gen) rerunPairs() {
	keys := make([]string, 0, len(g.pairs))
	for k, p := range g.pairs {
		if p[1] != "" {
			keys = append(keys, k)
		}
	}
	sort.Strings(keys)
	for i := len(keys) - 1; i > 0; i-- {
		j := g.R.Intn(i + 1)
		keys[i], keys[j] = keys[j], keys[i]
	}
	limit := g.N(1500, 6000)
	if len(keys) > limit {
		keys = keys[:limit]
	}
	for _, k := range keys {
		op := k[:strings.IndexByte(k, 0)]
		p := g.pairs[k]
		g.Do(op, p[0], "")
		g.Do(op, p[1], "")
		g.Do(op, p[0], "")
		g.Do(op, p[1], "")
	}
	g.Stats["rerun-pairs"] = 4 * len(keys)
}

func try(f func() string) (r string) {
	defer func() {
		if e := recover(); e != nil {
			r = "P"
		}
	}()
	return f()
}

func (g *Gen) watchdog(limit time.Duration) {
	for {
		time.Sleep(200 * time.Millisecond)
		st := atomic.LoadInt64(&g.started)
		if st != 0 && time.Since(time.Unix(0, st)) > limit {
			c, _ := g.current.Load().(string)
			g.out.Flush()
			fmt.Fprintf(os.Stderr, "HANG\t%s\n", c)
			os.Exit(3)
		}
	}
}

func main() {
	prop := flag.String("prop", "", "property id (C01..C20)")
	tier := flag.String("tier", "quick", "quick|thorough")
	seed := flag.Uint64("seed", 1, "PRNG seed")
	outp := flag.String("out", "", "output file (default stdout)")
	corpus := flag.String("corpus", "", "corpus file: op \\t args lines replayed first")
	corpusOnly := flag.Bool("corpusonly", false, "replay the corpus and stop (the generators then run in a process of their own)")
	replay := flag.String("replay", "", "run one case: op \\t args")
	syncf := flag.Bool("sync", false, "announce each case on stderr before running it")
	flag.Parse()

	w := os.Stdout
	if *outp != "" {
		f, err := os.Create(*outp)
		if err != nil {
			fmt.Fprintln(os.Stderr, err)
			os.Exit(2)
		}
		defer f.Close()
		w = f
	}
	g := &Gen{Prop: *prop, Thorough: *tier == "thorough", out: bufio.NewWriterSize(w, 1<<20), Stats: map[string]int{}, Sync: *syncf}
	// one PRNG state per (seed, property): a disagreement replays exactly
	h := uint64(1469598103934665603)
	for _, c := range []byte(*prop) {
		h = (h ^ uint64(c)) * 1099511628211
	}
	g.R = NewRand(*seed*0x9e3779b97f4a7c15 ^ h)
	go g.watchdog(20 * time.Second)

	if *replay != "" {
		if err := replayLine(g, *replay); err != nil {
			fmt.Fprintln(os.Stderr, "replay:", err)
			os.Exit(2)
		}
		g.out.Flush()
		return
	}
	f, ok := registry[*prop]
	if !ok {
		fmt.Fprintln(os.Stderr, "unknown property", *prop)
		os.Exit(2)
	}
	if *corpus != "" {
		if err := replayFile(g, *corpus); err != nil {
			fmt.Fprintln(os.Stderr, "corpus:", err)
			os.Exit(2)
		}
		g.Stats["corpus"] = g.n
	}
	if *corpusOnly {
		g.rerunSample()
		g.out.Flush()
		fmt.Fprintf(os.Stderr, "STAT\tcorpus\t%d\n", g.Stats["corpus"])
		return
	}
	f(g)
	g.rerunSample()
	g.out.Flush()
	// summary on stderr: STAT lines
	keys := make([]string, 0, len(g.Stats))
	for k := range g.Stats {
		keys = append(keys, k)
	}
	sort.Strings(keys)
	for _, k := range keys {
		fmt.Fprintf(os.Stderr, "STAT\t%s\t%d\n", k, g.Stats[k])
	}
	for _, e := range g.Exhaust {
		fmt.Fprintf(os.Stderr, "EXHAUSTIVE\t%s\n", e)
	}
	fmt.Fprintf(os.Stderr, "CASES\t%d\n", g.n)
}
