package main

// X02 (extra check) — tree.String and tree.DepthFirst over the abstract tree.Tree interface.
//
// A case is a finite tree written in val syntax (encoding: coq/theories/Run/X02.v).  The executor builds a Go
// implementation of tree.Tree from that text (x02Tree: a node is a *x02Node, nil is the root; a label is the
// *x02Edge or nil for an edge without text; Child(nil, nil) is the root, presented as nil when rootNil) and
// calls the REAL tree.String / tree.DepthFirst on it.  Spec/TreeSpec.v: rose_tree mirrors this implementation.

import (
	"fmt"
	"os"
	"strconv"
	"strings"

	"github.com/openacid/low/tree"
)

type x02Node struct {
	uid      int
	id, info string
	leaf     bool
	val      interface{}
	edges    []*x02Edge
}
type x02Edge struct {
	nilLabel bool
	info     string
	child    *x02Node
}
type x02Tree struct {
	root    *x02Node
	rootNil bool
}

func (t *x02Tree) res(node interface{}) *x02Node {
	if node == nil {
		return t.root
	}
	return node.(*x02Node)
}
func (t *x02Tree) Child(node, label interface{}) interface{} {
	if label != nil {
		return label.(*x02Edge).child
	}
	if node == nil {
		if t.rootNil {
			return nil
		}
		return t.root
	}
	for _, e := range node.(*x02Node).edges {
		if e.nilLabel {
			return e.child
		}
	}
	return nil
}
func (t *x02Tree) Labels(node interface{}) []interface{} {
	n := t.res(node)
	r := make([]interface{}, 0, len(n.edges))
	for _, e := range n.edges {
		if e.nilLabel {
			r = append(r, nil)
		} else {
			r = append(r, e)
		}
	}
	return r
}
func (t *x02Tree) NodeID(node interface{}) string     { return t.res(node).id }
func (t *x02Tree) NodeInfo(node interface{}) string   { return t.res(node).info }
func (t *x02Tree) LabelInfo(label interface{}) string { return label.(*x02Edge).info }
func (t *x02Tree) LeafVal(node interface{}) (interface{}, bool) {
	n := t.res(node)
	return n.val, n.leaf
}

func x02Fatal(format string, a ...interface{}) {
	fmt.Fprintf(os.Stderr, "x02: "+format+"\n", a...)
	os.Exit(2)
}

func x02Build(v V) *x02Node {
	if !v.IsList() || len(v.L) != 5 {
		x02Fatal("bad node")
	}
	n := &x02Node{uid: v.L[0].Int(), id: v.L[1].Str(), info: v.L[2].Str()}
	if lf := v.L[3].L; len(lf) == 1 {
		n.leaf = true
		switch lf[0].L[0].Int() {
		case 0:
			n.val = nil
		case 1:
			n.val = lf[0].L[1].Int()
		case 2:
			n.val = lf[0].L[1].Str()
		case 3:
			n.val = lf[0].L[1].Bool()
		case 4:
			xs := make([]int, len(lf[0].L[1].L))
			for i, x := range lf[0].L[1].L {
				xs[i] = x.Int()
			}
			n.val = xs
		default:
			x02Fatal("bad leaf value")
		}
	}
	for _, e := range v.L[4].L {
		ed := &x02Edge{child: x02Build(e.L[1])}
		if len(e.L[0].L) == 0 {
			ed.nilLabel = true
		} else {
			ed.info = e.L[0].L[0].Str()
		}
		n.edges = append(n.edges, ed)
	}
	return n
}

func init() {
	Exec["tree.String"] = func(a []V) string {
		t := &x02Tree{root: x02Build(a[1]), rootNil: a[0].Bool()}
		return Str(tree.String(t))
	}
	Exec["tree.DepthFirst"] = func(a []V) string {
		t := &x02Tree{root: x02Build(a[1]), rootNil: a[0].Bool()}
		var calls []string
		uid := func(x interface{}) string {
			if x == nil {
				return "-1"
			}
			return Int(x.(*x02Node).uid)
		}
		tree.DepthFirst(t, func(tr tree.Tree, parent, label, node interface{}) {
			lb := "[]"
			if label != nil {
				lb = L(Str(label.(*x02Edge).info))
			}
			calls = append(calls, L(uid(parent), lb, uid(node)))
		})
		return L(calls...)
	}
	Register("X02", genX02)
}

// ---- generator

type x02G struct {
	id, info string
	leaf     string // "" = not a leaf, else the text of the leaf value
	labels   []string
	kids     []*x02G
}

// text of the tree, uids assigned in pre-order
func (n *x02G) text(next *int) string {
	uid := *next
	*next++
	es := make([]string, len(n.kids))
	for i, k := range n.kids {
		es[i] = L(n.labels[i], k.text(next))
	}
	lf := "[]"
	if n.leaf != "" {
		lf = L(n.leaf)
	}
	return L(Int(uid), Str(n.id), Str(n.info), lf, L(es...))
}

func (n *x02G) stats() (size, depth, fan int, nilLab, emptyID, emptyLab, innerLeaf bool, leafKinds map[byte]bool) {
	leafKinds = map[byte]bool{}
	var rec func(x *x02G, d int)
	rec = func(x *x02G, d int) {
		size++
		if d > depth {
			depth = d
		}
		if len(x.kids) > fan {
			fan = len(x.kids)
		}
		if x.id == "" {
			emptyID = true
		}
		if x.leaf != "" {
			leafKinds[x.leaf[1]] = true
			if len(x.kids) > 0 {
				innerLeaf = true
			}
		}
		for i, k := range x.kids {
			if x.labels[i] == "[]" {
				nilLab = true
			}
			if x.labels[i] == "[x]" {
				emptyLab = true
			}
			rec(k, d+1)
		}
	}
	rec(n, 1)
	return
}

func x02Class(n int, cuts ...int) string {
	for _, c := range cuts {
		if n <= c {
			return Int(c)
		}
	}
	return "+"
}

func x02Key(op string, n *x02G, rootNil bool) string {
	size, depth, fan, nilLab, emptyID, emptyLab, innerLeaf, lk := n.stats()
	if size == 1 && op == "tree.DepthFirst" {
		return ""
	}
	ks := ""
	for _, c := range []byte("01234") {
		if lk[c] {
			ks += string(c)
		}
	}
	return fmt.Sprintf("%s:n%s:d%s:f%s:%v%v%v%v:%s:%v", op[5:], x02Class(size, 1, 2, 4, 8, 16), x02Class(depth, 1, 2, 3, 5, 9),
		x02Class(fan, 0, 1, 2, 9, 99), B(nilLab), B(emptyID), B(emptyLab), B(innerLeaf), ks, B(rootNil))
}

func x02Emit(g *Gen, n *x02G) {
	next := 0
	txt := n.text(&next)
	for _, rn := range []bool{false, true} {
		g.Stat("trees")
		g.Do("tree.String", L(B(rn), txt), x02Key("tree.String", n, rn))
		g.Do("tree.DepthFirst", L(B(rn), txt), x02Key("tree.DepthFirst", n, rn))
	}
}

var x02Texts = []string{"", "a", "00", "#", "-", ">", " ", "(foo)", "k=v", "*2", "01\n2", "\x00\xff", "abc.def", "->#"}

func x02Text(g *Gen, emptyOdds int) string {
	if g.R.Intn(emptyOdds) == 0 {
		return ""
	}
	if g.R.Intn(3) == 0 {
		return x02Texts[g.R.Intn(len(x02Texts))]
	}
	if g.R.Intn(40) == 0 {
		return strings.Repeat("w", g.R.Range(50, 140))
	}
	return string(g.R.Bytes(g.R.Range(1, 5), alphabets[g.R.Intn(len(alphabets))]))
}

func x02Pick(g *Gen, xs ...string) string { return xs[g.R.Intn(len(xs))] }

func x02Leaf(g *Gen) string {
	switch g.R.Intn(8) {
	case 0:
		return "[0]"
	case 1:
		return L("1", Int(g.R.Intn(21)-10))
	case 2:
		return L("1", strconv.FormatInt(int64(g.R.U64()), 10))
	case 3:
		return L("1", x02Pick(g, "0", "9", "10", "-1", "9223372036854775807", "-9223372036854775808", "99", "100", "-100"))
	case 4:
		return L("3", Int(g.R.Intn(2)))
	case 5:
		xs := make([]string, g.R.Intn(4))
		for i := range xs {
			xs[i] = Int(g.R.Intn(201) - 100)
		}
		return L("4", L(xs...))
	default:
		return L("2", Str(x02Text(g, 6)))
	}
}

// a random tree with exactly n nodes; shape parameter: chance (in 8) to go deeper rather than wider
func x02Random(g *Gen, n int, deep int, isRoot bool) *x02G {
	x := &x02G{id: x02Text(g, 5), info: x02Text(g, 4)}
	rest := n - 1
	if rest == 0 || g.R.Intn(10) == 0 {
		if g.R.Intn(6) != 0 {
			x.leaf = x02Leaf(g)
		}
	}
	usedNil := false
	for rest > 0 {
		k := 1
		if g.R.Intn(8) < deep {
			k = g.R.Range(1, rest)
		} else if rest > 1 {
			k = g.R.Range(1, (rest+1)/2)
		}
		lab := L(Str(x02Text(g, 8)))
		if !isRoot && !usedNil && g.R.Intn(7) == 0 {
			lab = "[]"
			usedNil = true
		}
		x.labels = append(x.labels, lab)
		x.kids = append(x.kids, x02Random(g, k, deep, false))
		rest -= k
	}
	return x
}

// every ordered tree shape with n nodes
func x02Shapes(n int) []*x02G {
	if n == 1 {
		return []*x02G{{}}
	}
	var out []*x02G
	// first child has k nodes, the rest of the children form a tree "root + remaining children" of n-k nodes
	for k := 1; k <= n-1; k++ {
		for _, first := range x02Shapes(k) {
			for _, rest := range x02Shapes(n - k) {
				out = append(out, &x02G{kids: append([]*x02G{first}, rest.kids...)})
			}
		}
	}
	return out
}

func x02Copy(n *x02G) *x02G {
	c := &x02G{id: n.id, info: n.info, leaf: n.leaf, labels: append([]string{}, n.labels...)}
	for _, k := range n.kids {
		c.kids = append(c.kids, x02Copy(k))
	}
	return c
}

// decorate a bare shape by one of a few fixed schemes
func x02Decorate(n *x02G, scheme int, isRoot bool, ctr *int) {
	*ctr++
	c := *ctr
	switch scheme {
	case 0: // the scheme of the package's own test: two-digit ids, "(foo)", numeric labels, "leaf"
		n.id, n.info = fmt.Sprintf("%02d", c-1), "(foo)"
		if len(n.kids) == 0 {
			n.leaf = L("2", Str("leaf"))
		}
	case 1: // no ids, no info: only arrows, fan-out marks and leaf values
		if len(n.kids) == 0 {
			n.leaf = L("1", Int(c-3))
		}
	case 2: // ids of growing width, empty label texts, nil leaf values, leaf values on inner nodes too
		n.id, n.info = strings.Repeat("i", c%4), strings.Repeat(".", c%3)
		if c%2 == 0 {
			n.leaf = "[0]"
		}
	case 3: // nil labels below the root, bool leaves
		n.id = Int(c)
		if len(n.kids) == 0 {
			n.leaf = L("3", Int(c%2))
		}
	}
	n.labels = make([]string, len(n.kids))
	for i, k := range n.kids {
		switch scheme {
		case 0:
			n.labels[i] = L(Str(Int(i)))
		case 1:
			n.labels[i] = L(Str(strings.Repeat("ab", i%3)))
		case 2:
			n.labels[i] = "[x]"
		case 3:
			n.labels[i] = L(Str("L" + Int(i)))
			if !isRoot && i == len(n.kids)-1 {
				n.labels[i] = "[]"
			}
		}
		x02Decorate(k, scheme, false, ctr)
	}
}

func genX02(g *Gen) {
	// (1) every ordered tree shape of 1..6 (thorough: 1..8) nodes under four decoration schemes
	maxn := g.N(6, 8)
	for n := 1; n <= maxn; n++ {
		for _, sh := range x02Shapes(n) {
			for scheme := 0; scheme < 4; scheme++ {
				t := x02Copy(sh)
				c := 0
				x02Decorate(t, scheme, true, &c)
				x02Emit(g, t)
			}
		}
	}
	g.Exhaust = append(g.Exhaust, fmt.Sprintf("tree.String / tree.DepthFirst: every ordered tree shape of 1..%d nodes x 4 decoration schemes (the test-suite's ids/labels; no ids and no info; empty label texts, nil leaf values, leaf values on inner nodes; nil labels below the root) x root presented as nil / as a node", maxn))
	// (2) structured random trees
	n := g.N(1500, 30000)
	for c := 0; c < n; c++ {
		var size int
		switch g.R.Intn(6) {
		case 0:
			size = g.R.Range(1, 3)
		case 1:
			size = g.R.Range(20, 60)
		default:
			size = g.R.Range(4, 19)
		}
		x02Emit(g, x02Random(g, size, g.R.Intn(9), true))
	}
	// (3) extremes: a chain, a star with a three-digit fan-out, a comb
	chain := &x02G{id: "r", info: "i"}
	cur := chain
	for i := 0; i < g.N(120, 400); i++ {
		k := &x02G{id: Int(i % 10), info: ""}
		cur.kids, cur.labels = []*x02G{k}, []string{L(Str("e"))}
		cur = k
	}
	cur.leaf = L("1", "-7")
	x02Emit(g, chain)
	for _, w := range []int{9, 10, 11, 99, 100, 101, g.N(300, 1000)} {
		star := &x02G{id: "s", info: ""}
		for i := 0; i < w; i++ {
			star.kids = append(star.kids, &x02G{id: "", info: "", leaf: L("1", Int(i))})
			star.labels = append(star.labels, L(Str(Int(i))))
		}
		x02Emit(g, star)
	}
	// long ids / labels: the indent of a sub-tree is the width of "-label->#id", here 63..260 columns
	for _, w := range []int{55, 56, 57, 63, 64, 65, 127, 128, 129, 250} {
		long := &x02G{id: strings.Repeat("i", w), info: "n"}
		mid := &x02G{id: "m", info: strings.Repeat(".", w%7)}
		long.kids, long.labels = []*x02G{mid, {id: "z", leaf: L("1", Int(w))}}, []string{L(Str(strings.Repeat("L", w))), L(Str("b"))}
		mid.kids, mid.labels = []*x02G{{id: "leaf", leaf: "[0]"}}, []string{L(Str("c"))}
		x02Emit(g, long)
	}
	comb := &x02G{id: "c"}
	cur = comb
	for i := 0; i < 40; i++ {
		k := &x02G{id: "n" + Int(i)}
		cur.kids = []*x02G{{id: "l", leaf: "[0]"}, k, {info: "x", leaf: L("3", "1")}}
		cur.labels = []string{L(Str("a")), "[]", L(Str(""))}
		if cur == comb {
			cur.labels[1] = L(Str("m"))
		}
		cur = k
	}
	x02Emit(g, comb)
}
