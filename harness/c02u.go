package main

// C02, widened to the UNEXPORTED select helpers of bitmap/select.go: select32single, indexSelectU64,
// selectU64Indexed and the byte table select8Lookup itself.  They are reached through the add-only hook file
// /repo/bitmap/verif_export.go (build tag "verif"; the harness is always built with it).

import (
	"fmt"
	"math/bits"

	"github.com/openacid/low/bitmap"
)

func init() {
	// select32single with the index built by IndexSelect32(words); inputs must be left untouched
	single := func(a []V) string {
		ws := a[0].U64s()
		keep := append([]uint64(nil), ws...)
		sidx := bitmap.IndexSelect32(ws)
		keepIdx := append([]int32(nil), sidx...)
		r := bitmap.VerifSelect32Single(ws, sidx, a[1].I32())
		if !c02Same(ws, keep) || !c02uSameI32(sidx, keepIdx) {
			return Panic
		}
		return I32(r)
	}
	Exec["bitmap.select32single"] = single
	Exec["bitmap.select32single/sentinel"] = single
	// [select32single; Select32 (both results)] with one and the same index
	Exec["bitmap.select32single/Select32"] = func(a []V) string {
		ws := a[0].U64s()
		sidx := bitmap.IndexSelect32(ws)
		i := a[1].I32()
		s := bitmap.VerifSelect32Single(ws, sidx, i)
		x, y := bitmap.Select32(ws, sidx, i)
		return L(I32(s), I32(x), I32(y))
	}
	Exec["bitmap.select32single/rle"] = func(a []V) string {
		ws := c02Unrle(a[0])
		return I32(bitmap.VerifSelect32Single(ws, bitmap.IndexSelect32(ws), a[1].I32()))
	}
	Exec["bitmap.indexSelectU64"] = func(a []V) string {
		return U(bitmap.VerifIndexSelectU64(a[0].U64()))
	}
	Exec["bitmap.selectU64Indexed"] = func(a []V) string {
		w := a[0].U64()
		p, n := bitmap.VerifSelectU64Indexed(w, bitmap.VerifIndexSelectU64(w), a[1].U64())
		return L(I32(p), Int(n))
	}
	Exec["bitmap.selectU64Indexed/Select32"] = func(a []V) string {
		w := a[0].U64()
		k := a[1].U64()
		p, _ := bitmap.VerifSelectU64Indexed(w, bitmap.VerifIndexSelectU64(w), k)
		ws := []uint64{w}
		x, _ := bitmap.Select32(ws, bitmap.IndexSelect32(ws), int32(k))
		return L(I32(p), I32(x))
	}
	// row b of the table as the package initialised it
	Exec["bitmap.select8Lookup/row"] = func(a []V) string {
		t := bitmap.VerifSelect8Lookup()
		if len(t) != 2048 {
			return Panic
		}
		b := a[0].Int()
		row := make([]int, 8)
		for j := range row {
			row[j] = int(t[8*b+j])
		}
		return Ints(row)
	}
}

func c02uSameI32(a, b []int32) bool {
	if len(a) != len(b) {
		return false
	}
	for i := range a {
		if a[i] != b[i] {
			return false
		}
	}
	return true
}

// c02uSel: the single-result select beside every Select32 case of genC02 (same bitmap, same i, same key)
func c02uSel(g *Gen, w string, i int, key string) {
	if key != "" {
		key = "single/" + key
	}
	g.Do("bitmap.select32single", L(w, Int(i)), key)
	c02uSelN++
	if c02uSelN%4 == 0 {
		g.Do("bitmap.select32single/Select32", L(w, Int(i)), key)
	}
}

var c02uSelN int

// c02uSentinels: the two early returns and the run off the end of the bitmap: i < 0 -> -1; i >= number of 1-bits ->
// 64*len, either because i>>5 is beyond the index or (i inside the last 32-block) because the word loop reaches the end
func c02uSentinels(g *Gen, ws []uint64) {
	n := popcount(ws)
	w := U64s(ws)
	seen := map[int]bool{}
	try := func(i int, key string) {
		if (i < 0 || i >= n) && i >= -(1<<31) && i < 1<<31 && !seen[i] {
			seen[i] = true
			g.Do("bitmap.select32single/sentinel", L(w, Int(i)), key)
		}
	}
	nw := c02Cap(len(ws), 4)
	try(-1, fmt.Sprintf("sentinel/neg/nw%d", nw))
	try(-(1 << 31), fmt.Sprintf("sentinel/minint/nw%d", nw))
	try(-1-g.R.Intn(1<<20), "")
	// inside the last block of the index: base = last checkpoint, the loop runs off the end
	if n&31 != 0 {
		tail := 0 // empty words after the last 1-bit
		for k := len(ws) - 1; k >= 0 && ws[k] == 0; k-- {
			tail++
		}
		key := fmt.Sprintf("sentinel/inblock/tail%d/nw%d", c02Cap(tail, 3), nw)
		try(n, key)
		try(n+1, key)
		try(n|31, key)
	}
	// beyond the index
	blk := (n + 31) &^ 31
	key := fmt.Sprintf("sentinel/beyond/nw%d", nw)
	try(blk, key)
	try(blk+1, key)
	try(blk+31, key)
	try(blk+32, key)
	try(64*len(ws), key)
	try(1<<31-1, fmt.Sprintf("sentinel/maxint/nw%d", nw))
	try(n+g.R.Intn(1<<16), "")
}

// c02uRle: the single-result select beside a Select32/rle case
func c02uRle(g *Gen, txt string, i int, key string) {
	g.Do("bitmap.select32single/rle", L(txt, Int(i)), "single/"+key)
}

// c02uWord: the packed index of w and selectU64Indexed for the given k's (all k < popcount when ks == nil);
// key = (popcount class, byte holding the answer, rank inside that byte, cumulative count below that byte class)
func c02uWord(g *Gen, w uint64, ks []int, bucket string, cross bool) {
	g.Stat(bucket)
	n := bits.OnesCount64(w)
	nz := 0 // number of non-empty bytes
	for b := 0; b < 8; b++ {
		if w>>uint(8*b)&0xff != 0 {
			nz++
		}
	}
	ikey := ""
	if n > 0 {
		ikey = fmt.Sprintf("u64idx/pop%d/nzb%d", c02uPopClass(n), nz)
	}
	g.Do("bitmap.indexSelectU64", L(U(w)), ikey)
	if ks == nil {
		for k := 0; k < n; k++ {
			ks = append(ks, k)
		}
	}
	seen := map[int]bool{}
	for _, k := range ks {
		if k < 0 || k >= n || seen[k] {
			continue
		}
		seen[k] = true
		// locate the answer
		x := w
		for j := 0; j < k; j++ {
			x &= x - 1
		}
		pos := bits.TrailingZeros64(x)
		by := pos >> 3
		below := bits.OnesCount64(w & (1<<uint(8*by) - 1))
		key := ""
		if k > 0 {
			key = fmt.Sprintf("u64sel/pop%d/byte%d/r%d/below%d", c02uPopClass(n), by, k-below, c02Cap(below, 9))
		}
		g.Do("bitmap.selectU64Indexed", L(U(w), Int(k)), key)
		if cross {
			g.Do("bitmap.selectU64Indexed/Select32", L(U(w), Int(k)), key)
		}
	}
}

func c02uPopClass(n int) int {
	switch {
	case n <= 2:
		return n
	case n <= 8:
		return 8
	case n <= 32:
		return 32
	case n <= 62:
		return 62
	}
	return n // 63, 64
}

func genC02u(g *Gen) {
	genC02uSession(g)
	// (U0) the byte table itself, row by row: all 256 rows x 8 entries
	for b := 0; b < 256; b++ {
		key := ""
		if b != 0 {
			key = fmt.Sprintf("tblrow/pop%d", bits.OnesCount8(uint8(b)))
		}
		g.Do("bitmap.select8Lookup/row", L(Int(b)), key)
	}
	g.Exhaust = append(g.Exhaust, "select8Lookup: all 256 rows x 8 entries, read out of the package")

	// (U1) ALL 256 byte values in every byte position x all k, over three backgrounds: the other bytes empty, full,
	// random (the cumulative counts below and above the byte differ)
	for b := 0; b < 256; b++ {
		for pos := 0; pos < 8; pos++ {
			sh := uint(8 * pos)
			w0 := uint64(b) << sh
			c02uWord(g, w0, nil, "u64-byte-alone", (b+pos)%4 == 0)
			hole := ^(uint64(0xff) << sh)
			// quick tier: only the k's inside the byte and one either side of it
			around := func(w uint64) []int {
				if g.Thorough && (b+pos)%5 == 0 {
					return nil
				}
				below := bits.OnesCount64(w & (1<<sh - 1))
				ks := []int{0, below - 1, bits.OnesCount64(w) - 1}
				for k := 0; k <= bits.OnesCount8(uint8(b)); k++ {
					ks = append(ks, below+k)
				}
				return ks
			}
			if g.Thorough || (b+pos)%3 == 0 {
				c02uWord(g, w0|hole, around(w0|hole), "u64-byte-in-ones", false)
			}
			if g.Thorough || (b+pos)%4 == 1 {
				w := w0 | (g.R.U64() & hole)
				c02uWord(g, w, around(w), "u64-byte-in-random", false)
			}
		}
	}
	g.Exhaust = append(g.Exhaust, "indexSelectU64 / selectU64Indexed: all 256 byte values at all 8 byte positions of an otherwise empty word x all k")
	if g.Thorough {
		g.Exhaust = append(g.Exhaust, "indexSelectU64: all 256 byte values at all 8 byte positions of an otherwise all-ones word (selectU64Indexed x the k's inside that byte and one either side; x all k for a fifth of them)")
	}

	// (U2) all words with 1 or 2 bits x all k
	for b1 := 0; b1 < 64; b1++ {
		for b2 := b1; b2 < 64; b2++ {
			c02uWord(g, 1<<uint(b1)|1<<uint(b2), nil, "u64-1or2bit", (b1+b2)%8 == 0)
		}
	}
	g.Exhaust = append(g.Exhaust, "indexSelectU64 / selectU64Indexed: all words with 1 or 2 bits x all k")

	// (U3) the empty word, all-ones, popcount 63 (every position of the missing bit), popcount 62
	c02uWord(g, 0, nil, "u64-empty", false)
	c02uWord(g, ^uint64(0), nil, "u64-full", true)
	for z := 0; z < 64; z++ {
		w := ^(uint64(1) << uint(z))
		if g.Thorough || z%8 == 0 || z%8 == 7 {
			c02uWord(g, w, nil, "u64-pop63", z%16 == 0)
		} else {
			c02uWord(g, w, []int{0, z - 2, z - 1, z, z + 1, 31, 32, 61, 62, g.R.Intn(63)}, "u64-pop63", false)
		}
		z2 := g.R.Intn(64)
		if z2 != z {
			c02uWord(g, w&^(1<<uint(z2)), []int{0, z - 1, z, z2 - 1, z2, 60, 61, g.R.Intn(62)}, "u64-pop62", false)
		}
	}
	g.Exhaust = append(g.Exhaust, "indexSelectU64: all 64 words with 63 bits, the all-ones word (selectU64Indexed x all k for all-ones and for the missing bit at a byte edge)")

	// (U4) bytes that are each empty or full (all 256 patterns): every cumulative count is a multiple of 8, k at the
	// byte edges
	for m := 0; m < 256; m++ {
		var w uint64
		for b := 0; b < 8; b++ {
			if m>>uint(b)&1 == 1 {
				w |= 0xff << uint(8*b)
			}
		}
		var ks []int
		if !g.Thorough {
			n := bits.OnesCount64(w)
			for k := 0; k < n; k += 8 {
				ks = append(ks, k-1, k, k+1)
			}
			ks = append(ks, n-1)
		}
		c02uWord(g, w, ks, "u64-fullbytes", m%16 == 5)
	}
	g.Exhaust = append(g.Exhaust, "indexSelectU64: all 256 words whose bytes are each 00 or ff (selectU64Indexed at every byte edge)")

	// (U5) random words of every density, x all k
	nr := g.N(12, 120)
	for d := 0; d < 9; d++ {
		for q := 0; q < nr; q++ {
			var w uint64
			switch d {
			case 0:
				w = g.R.U64() & g.R.U64() & g.R.U64() & g.R.U64() // 1/16
			case 1:
				w = g.R.U64() & g.R.U64() & g.R.U64() // 1/8
			case 2:
				w = g.R.U64() & g.R.U64() // 1/4
			case 3:
				w = g.R.U64() // 1/2
			case 4:
				w = g.R.U64() | g.R.U64() // 3/4
			case 5:
				w = g.R.U64() | g.R.U64() | g.R.U64() // 7/8
			case 6:
				w = g.R.U64() | g.R.U64() | g.R.U64() | g.R.U64() // 15/16
			case 7:
				w = g.R.Word() // the shared pattern mix
			default: // byte-structured: each byte from {00, ff, single bit, random}
				for b := 0; b < 8; b++ {
					var x uint64
					switch g.R.Intn(5) {
					case 0:
						x = 0xff
					case 1:
						x = 1 << uint(g.R.Intn(8))
					case 2:
						x = g.R.U64() & 0xff
					}
					w |= x << uint(8*b)
				}
			}
			c02uWord(g, w, nil, fmt.Sprintf("u64-rand-d%d", d), q%4 == 0)
		}
	}

	// (U6) two DIFFERENT words with the SAME packed index (every byte rotated: same byte popcounts), the same k, back to
	// back A B A: an answer remembered per (index, k) - the word itself not part of the key - is wrong for B.
	// (Added after the self-test: mutant X5 survived the per-word sweeps, which never repeat an (index, k) pair.)
	for q := 0; q < g.N(150, 1500); q++ {
		var w1 uint64
		switch q % 4 {
		case 0:
			w1 = g.R.U64()
		case 1:
			w1 = g.R.U64() & g.R.U64()
		case 2:
			w1 = g.R.U64() | g.R.U64()
		default:
			w1 = g.R.U64() & g.R.U64() & g.R.U64()
		}
		var w2 uint64
		for b := 0; b < 8; b++ {
			x := uint8(w1 >> uint(8*b))
			w2 |= uint64(bits.RotateLeft8(x, 1+g.R.Intn(7))) << uint(8*b)
		}
		n := bits.OnesCount64(w1)
		if w2 == w1 || n == 0 {
			continue
		}
		g.Stat("u64-same-index-pair")
		for _, k := range []int{0, n - 1, g.R.Intn(n), g.R.Intn(n)} {
			key := fmt.Sprintf("u64sel/sameidx/pop%d", c02uPopClass(n))
			g.Do("bitmap.selectU64Indexed", L(U(w1), Int(k)), key)
			g.Do("bitmap.selectU64Indexed", L(U(w2), Int(k)), key)
			g.Do("bitmap.selectU64Indexed", L(U(w1), Int(k)), "")
		}
	}

	// (S) select32single on its own bitmaps (beside the hooks in genC02's sel / index / rle closures): small bitmaps
	// with the checkpoint inside a word and the answer 1..3 words on, and the sentinels on empty bitmaps
	for n := 0; n <= 3; n++ {
		c02uSentinels(g, make([]uint64, n))
	}
	for q := 0; q < g.N(60, 600); q++ {
		n := g.R.Range(1, 8)
		ws := make([]uint64, n)
		for i := range ws {
			switch g.R.Intn(4) {
			case 0:
				ws[i] = g.R.U64()
			case 1:
				ws[i] = g.R.U64() & g.R.U64() & g.R.U64()
			case 2:
				ws[i] = g.R.U64() | g.R.U64()
			}
		}
		if popcount(ws) == 0 {
			ws[g.R.Intn(n)] = 1 << uint(g.R.Intn(64))
		}
		os := c02Ones(ws)
		w := U64s(ws)
		for _, i := range []int{0, len(os) - 1, g.R.Intn(len(os)), (len(os) - 1) &^ 31, (len(os)-1)&^31 + 1} {
			if i < len(os) {
				c02uSel(g, w, i, c02Key(os, n, i))
			}
		}
		c02uSentinels(g, ws)
	}
}

// ---- session on ONE held word buffer (seeded change C02-c02c-m1) ----

func init() {
	// [ws, steps]: step [0, i] = Select32R64(buf, current indexes, i); step [1, k, x] = buf[k] = x IN PLACE, then
	// IndexSelect32R64(buf) again.  The buffer is the same backing array for the whole session.
	Exec["bitmap.Select32R64/session"] = func(a []V) string {
		buf := a[0].U64s()
		sidx, ridx := bitmap.IndexSelect32R64(buf)
		var out []string
		for _, st := range a[1].L {
			switch st.L[0].Int() {
			case 0:
				x, y := bitmap.Select32R64(buf, sidx, ridx, st.L[1].I32())
				out = append(out, L(I32(x), I32(y)))
			default:
				buf[st.L[1].Int()] = st.L[2].U64()
				sidx, ridx = bitmap.IndexSelect32R64(buf)
				out = append(out, "0")
			}
		}
		return L(out...)
	}
}

// genC02uSession: query i where the next 1-bit lies in a LATER word, then move that next 1-bit to another word in
// place (or overwrite the whole buffer with a new bitmap), re-index, query exactly i+1 with nothing in between; several
// rounds per session.  A result remembered per (buffer address, length, i+1) is stale at that point.
func genC02uSession(g *Gen) {
	for q := 0; q < g.N(250, 2500); q++ {
		n := g.R.Range(2, 9)
		ws := make([]uint64, n)
		for i := range ws {
			switch g.R.Intn(3) {
			case 0:
				ws[i] = 1 << uint(g.R.Intn(64))
			case 1:
				ws[i] = 1<<uint(g.R.Intn(64)) | 1<<uint(g.R.Intn(64)) | 1<<uint(g.R.Intn(64))
			}
		}
		ws[0] |= 1 << uint(g.R.Intn(64))
		ws[n-1] |= 1 << uint(g.R.Intn(64))
		start := U64s(ws)
		var steps []string
		moved, whole := 0, 0
		for round := 0; round < 4; round++ {
			os := c02Ones(ws)
			// the i's whose next 1-bit is in a later word
			var cand []int
			for i := 0; i+1 < len(os); i++ {
				if os[i+1]>>6 > os[i]>>6 {
					cand = append(cand, i)
				}
			}
			if len(cand) == 0 {
				break
			}
			i := cand[g.R.Intn(len(cand))]
			steps = append(steps, L("0", Int(i)))
			W := os[i+1] >> 6
			if g.R.Intn(4) == 0 {
				// the buffer is reused for a whole new bitmap with at least i+2 1-bits
				for k := range ws {
					ws[k] = g.R.U64()
					if k == W {
						ws[k] = 0
					}
					steps = append(steps, L("1", Int(k), U(ws[k])))
				}
				whole++
			} else {
				// move the 1-bits of word W into another word after the word of the i-th 1-bit (or before it)
				old := ws[W]
				ws[W] = 0
				steps = append(steps, L("1", Int(W), U(0)))
				W2 := g.R.Intn(n)
				for W2 == W {
					W2 = g.R.Intn(n)
				}
				ws[W2] |= old | 1<<uint(g.R.Intn(64))
				steps = append(steps, L("1", Int(W2), U(ws[W2])))
				moved++
			}
			if len(c02Ones(ws)) > i+1 {
				steps = append(steps, L("0", Int(i+1)))
			}
			if g.R.Intn(3) == 0 && len(c02Ones(ws)) > 0 {
				steps = append(steps, L("0", Int(g.R.Intn(len(c02Ones(ws))))))
			}
		}
		if len(steps) == 0 {
			continue
		}
		g.Stat("session-held-buffer")
		g.Do("bitmap.Select32R64/session", L(start, L(steps...)), fmt.Sprintf("session/nw%d/moved%d/whole%d", c02Cap(n, 6), c02Cap(moved, 3), c02Cap(whole, 2)))
	}
}
