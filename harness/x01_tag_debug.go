//go:build debug
// +build debug

package main

// In the -tags debug build github.com/openacid/must is active: vers.Check panics on an invalid version or
// range; the op carries the suffix so that the driver evaluates the model of the debug build.
const x01Debug = true
