package main

import (
	"fmt"
	"math/bits"
	"sort"

	"github.com/openacid/low/bitmap"
	"github.com/openacid/low/bmtree"
)

// C04: bmtree.AllPaths(T, from, to), bmtree.Decode(T, bm) and the round trip
// Decode(T, Of(PathToIndex of a sub-list of the stored nodes)).

func c04Height(T int32) int { return bits.Len32(uint32(T)) - 1 }

// the correspondence domain (the model side answers BAD outside it): at most 2^13 search values
// in the window, Decode on heights <= 17.  Outside it the real function is not called at all, so a
// shrinking step of ./check cannot ask for 2^30 words.
func c04WinOK(T int32, from, to uint64) bool {
	if T < 1 {
		return false
	}
	t := to>>32 + 1
	if c := uint64(1) << uint(c04Height(T)); t > c {
		t = c
	}
	return t <= from>>32 || t-from>>32 <= 8192
}
func c04DecOK(T int32) bool { return T >= 1 && c04Height(T) <= 17 }

func c04AllPaths(T int32, from, to uint64) []uint64 {
	if !c04WinOK(T, from, to) {
		panic("out of the correspondence domain")
	}
	return bmtree.AllPaths(T, from, to)
}
func c04Decode(T int32, bm []uint64) []uint64 {
	if !c04DecOK(T) {
		panic("out of the correspondence domain")
	}
	// A bitmap is decoded more than once in its life, and with more than one level mask: before the
	// observed call the SAME slice is decoded with the full-tree masks of smaller heights and with T
	// itself (results dropped).  Decode only reads its argument, so this changes nothing on a tree where
	// the property holds; a callee that trims, normalises or caches through the caller's slice shows up
	// in the observed call.  (One case in three keeps the single cold call.)
	c04DecTick++
	if c04DecTick%3 != 0 {
		for h := uint(0); h <= 6 && int32(1)<<(h+1)-1 <= T; h++ {
			bmtree.Decode(int32(1)<<(h+1)-1, bm)
		}
		if c04DecTick%3 == 2 {
			bmtree.Decode(T, bm)
		}
	}
	return bmtree.Decode(T, bm)
}

var c04DecTick int

func init() {
	Exec["bmtree.AllPaths"] = func(a []V) string {
		return U64s(c04AllPaths(a[0].I32(), a[1].U64(), a[2].U64()))
	}
	Exec["bmtree.Decode"] = func(a []V) string {
		return U64s(c04Decode(a[0].I32(), a[1].U64s()))
	}
	// held variants: both calls are made before either result is read
	Exec["bmtree.AllPaths/held"] = func(a []V) string {
		x, y := a[0].L, a[1].L
		r1 := c04AllPaths(x[0].I32(), x[1].U64(), x[2].U64())
		r2 := c04AllPaths(y[0].I32(), y[1].U64(), y[2].U64())
		return L(U64s(r1), U64s(r2))
	}
	Exec["bmtree.Decode/held"] = func(a []V) string {
		x, y := a[0].L, a[1].L
		r1 := c04Decode(x[0].I32(), x[1].U64s())
		r2 := c04Decode(y[0].I32(), y[1].U64s())
		return L(U64s(r1), U64s(r2))
	}
	// widening: adjacent windows, indices of a window, decode-then-re-encode
	Exec["bmtree.AllPaths/split"] = func(a []V) string {
		T, x, y, z := a[0].I32(), a[1].U64(), a[2].U64(), a[3].U64()
		if !(x <= y && y <= z) {
			panic("out of the correspondence domain")
		}
		return L(U64s(c04AllPaths(T, x, y)), U64s(c04AllPaths(T, y, z)), U64s(c04AllPaths(T, x, z)))
	}
	Exec["bmtree.AllPaths/index"] = func(a []V) string {
		T := a[0].I32()
		if !c04DecOK(T) {
			panic("out of the correspondence domain")
		}
		ps := c04AllPaths(T, a[1].U64(), a[2].U64())
		idx := make([]int32, len(ps))
		for i, p := range ps {
			idx[i] = bmtree.PathToIndex(T, p)
		}
		return I32s(idx)
	}
	Exec["bmtree.Decode/reencode"] = func(a []V) string {
		T := a[0].I32()
		ps := c04Decode(T, a[1].U64s())
		idx := make([]int32, len(ps))
		for i, p := range ps {
			idx[i] = bmtree.PathToIndex(T, p)
		}
		return L(I32s(idx), U64s(bitmap.Of(idx)))
	}
	Exec["bmtree.Decode/roundtrip"] = func(a []V) string {
		T := a[0].I32()
		if !c04DecOK(T) {
			panic("out of the correspondence domain")
		}
		h := int32(c04Height(T))
		idx := make([]int32, 0, len(a[1].L))
		for _, q := range a[1].L {
			idx = append(idx, bmtree.PathToIndex(T, c10Word(h, q)))
		}
		return U64s(c04Decode(T, bitmap.Of(idx)))
	}
	// a session: AllPaths ([0,T,from,to]) / Decode ([1,T,bm]) calls executed in order in this process
	Exec["bmtree.Session"] = func(a []V) string {
		rs := make([]string, 0, len(a[0].L))
		for _, c := range a[0].L {
			switch c.L[0].Int() {
			case 0:
				rs = append(rs, U64s(c04AllPaths(c.L[1].I32(), c.L[2].U64(), c.L[3].U64())))
			case 1:
				rs = append(rs, U64s(c04Decode(c.L[1].I32(), c.L[2].U64s())))
			default:
				panic("out of the correspondence domain")
			}
		}
		return L(rs...)
	}
	// widening: the sub-tree of a node as a window [word of q, word of the right-most leaf below q + 1)
	Exec["bmtree.AllPaths/subtree"] = func(a []V) string {
		T := a[0].I32()
		h := int32(c04Height(T))
		b, l := c10Bits(a[1], h)
		if T < 1 || l > h || h-l > 13 {
			panic("out of the correspondence domain")
		}
		from := bmtree.NewPath(b, l, h)
		to := bmtree.NewPath(b|(uint64(1)<<uint(h-l)-1), h, h) + 1
		return U64s(bmtree.AllPaths(T, from, to))
	}
	// widening across C11/C03/C12: keys -> PathsOf (dedup) -> PathToIndex -> Of -> Decode
	Exec["bmtree.PathsOf/decode"] = func(a []V) string {
		T := a[0].I32()
		if !c04DecOK(T) {
			panic("out of the correspondence domain")
		}
		ps := bmtree.PathsOf(a[2].Strs(), a[1].I32(), int32(c04Height(T)), true)
		idx := make([]int32, len(ps))
		for i, p := range ps {
			idx[i] = bmtree.PathToIndex(T, p)
		}
		return L(U64s(ps), U64s(bmtree.Decode(T, bitmap.Of(idx))))
	}
	// the same executors under the /debug names: the name tells the driver which build produced the observation
	for _, op := range []string{"bmtree.Decode", "bmtree.AllPaths/index", "bmtree.Decode/reencode", "bmtree.Decode/roundtrip", "bmtree.PathsOf/decode"} {
		Exec[op+"/debug"] = Exec[op]
	}
	Register("C04", genC04)
}

// c04Node is a node (low l bits of v, MSB first).
type c04Node struct {
	v uint64
	l int
}

// c04Word: the path word of a node in a tree of height h (the generator's own
// arithmetic, used only to aim from/to and to compute shape keys).
func c04Word(h int, n c04Node) uint64 {
	return n.v<<uint(h-n.l)<<32 | (uint64(1)<<uint(n.l)-1)<<uint(h-n.l)
}

// c04Stored lists the stored nodes of (T, h) in pre-order.
func c04Stored(T int32, h int) []c04Node {
	var r []c04Node
	var rec func(n c04Node)
	rec = func(n c04Node) {
		if T>>uint(n.l)&1 == 1 {
			r = append(r, n)
		}
		if n.l < h {
			rec(c04Node{n.v << 1, n.l + 1})
			rec(c04Node{n.v<<1 | 1, n.l + 1})
		}
	}
	rec(c04Node{0, 0})
	return r
}

// c04Count counts the stored words in [from, to) among the search values
// from>>32 .. to>>32 (callers keep that range small).
func c04Count(T int32, from, to uint64) int {
	h := c04Height(T)
	lo, hi := from>>32, to>>32
	if last := uint64(1)<<uint(h) - 1; hi > last {
		hi = last
	}
	n := 0
	for i := lo; i <= hi && i >= lo; i++ {
		for l := 0; l <= h; l++ {
			if T>>uint(l)&1 == 1 && i&(uint64(1)<<uint(h-l)-1) == 0 {
				w := i<<32 | (uint64(1)<<uint(l)-1)<<uint(h-l)
				if from <= w && w < to {
					n++
				}
			}
		}
		if i == ^uint64(0) {
			break
		}
	}
	return n
}

// c04Nth returns the k-th stored word in [from, to) (same enumeration as c04Count).
func c04Nth(T int32, from, to uint64, k int) uint64 {
	h := c04Height(T)
	lo, hi := from>>32, to>>32
	if last := uint64(1)<<uint(h) - 1; hi > last {
		hi = last
	}
	for i := lo; i <= hi && i >= lo; i++ {
		tz := h
		if i != 0 && bits.TrailingZeros64(i) < h {
			tz = bits.TrailingZeros64(i)
		}
		for l := h - tz; l <= h; l++ {
			if T>>uint(l)&1 == 1 {
				w := i<<32 | (uint64(1)<<uint(l)-1)<<uint(h-l)
				if from <= w && w < to {
					if k == 0 {
						return w
					}
					k--
				}
			}
		}
	}
	return from
}

func c04NB(n int) string {
	switch {
	case n == 0:
		return "n0"
	case n == 1:
		return "n1"
	case n < 8:
		return "n2-7"
	case n < 64:
		return "n8-63"
	}
	return "n64+"
}

func c04HB(h int) string {
	switch {
	case h <= 5:
		return "h0-5"
	case h <= 12:
		return "h6-12"
	case h <= 20:
		return "h13-20"
	case h <= 29:
		return "h21-29"
	}
	return "h30"
}

// c04Cls classifies a bound against the tree: is it a well-formed word of a
// stored level, one off, on a search value with a junk mask, beyond the tree?
func c04Cls(T int32, x uint64) string {
	h := c04Height(T)
	isw := func(y uint64) bool {
		i, m := y>>32, y&0xffffffff
		if i >= uint64(1)<<uint(h) {
			return false
		}
		for l := 0; l <= h; l++ {
			if T>>uint(l)&1 == 1 && i&(uint64(1)<<uint(h-l)-1) == 0 && m == (uint64(1)<<uint(l)-1)<<uint(h-l) {
				return true
			}
		}
		return false
	}
	switch {
	case x == 0:
		return "0"
	case x == ^uint64(0):
		return "max"
	case isw(x):
		return "w"
	case isw(x - 1):
		return "w+1"
	case isw(x + 1):
		return "w-1"
	case x>>32 >= uint64(1)<<uint(h):
		return "beyond"
	}
	return "off"
}

func genC04(g *Gen) {
	// in the -tags debug build only the operations that reach PathToIndex (whose contracts are then
	// active) are run, under their /debug names
	sfx := c03Suffix
	rel := sfx == ""
	allpaths := func(T int32, from, to uint64, bucket string) {
		if rel {
			g.Stat(bucket)
		}
		h := c04Height(T)
		n := c04Count(T, from, to)
		key := ""
		// non-trivial: something is returned and the window really clips (from > 0 or a stored word >= to exists)
		if n > 0 && (from > 0 || to <= c04Word(h, c04Node{uint64(1)<<uint(h) - 1, h})) {
			key = fmt.Sprintf("A/%s/%s/f:%s/t:%s/%s", c03Kind(T), c04HB(h), c04Cls(T, from), c04Cls(T, to), c04NB(n))
		}
		if rel {
			g.Do("bmtree.AllPaths", L(I32(T), U(from), U(to)), key)
		}
		// widening ops on a share of the same windows
		if rel && from <= to && (h > 5 && g.R.Intn(4) == 0 || g.R.Intn(32) == 0) {
			mid := from + (to-from)/2
			if n > 0 && g.R.Bool() {
				// split at (or next to) a word inside the window
				mid = c04Nth(T, from, to, g.R.Intn(n)) + uint64(g.R.Intn(2))
			}
			if mid < from || mid > to {
				mid = from
			}
			k2 := ""
			if key != "" {
				k2 = "S" + key[1:]
			}
			g.Stat("split")
			g.Do("bmtree.AllPaths/split", L(I32(T), U(from), U(mid), U(to)), k2)
		}
		if h <= 11 && (h > 5 && g.R.Intn(2) == 0 || g.R.Intn(32) == 0) && (rel || g.R.Bool()) {
			k2 := ""
			if key != "" {
				k2 = "I" + key[1:]
			}
			g.Stat("index")
			g.Do("bmtree.AllPaths/index"+sfx, L(I32(T), U(from), U(to)), k2)
		}
	}
	decode := func(T int32, bm []uint64, bucket string) {
		g.Stat(bucket)
		h := c04Height(T)
		need := (int(T) + 63) / 64
		lb := "exact"
		switch {
		case len(bm) < need:
			lb = "short"
		case len(bm) > need:
			lb = "long"
		}
		in, beyond := 0, false
		for i, w := range bm {
			for j := 0; j < 64; j++ {
				if w>>uint(j)&1 == 1 {
					if i*64+j < int(T) {
						in++
					} else {
						beyond = true
					}
				}
			}
		}
		key := ""
		// non-trivial: some but not all stored nodes are selected
		if in > 0 && in < int(T) {
			key = fmt.Sprintf("D/%s/%s/%s/beyond%v/%s", c03Kind(T), c04HB(h), lb, beyond, c04NB(in))
		}
		g.Do("bmtree.Decode"+sfx, L(I32(T), U64s(bm)), key)
		if T < 1<<15 && (g.R.Intn(8) == 0 || T > 14 && g.R.Intn(2) == 0) {
			k2 := ""
			if key != "" {
				k2 = "E" + key[1:]
			}
			g.Stat("reencode")
			g.Do("bmtree.Decode/reencode"+sfx, L(I32(T), U64s(bm)), k2)
		}
	}
	roundtrip := func(T int32, S []c04Node, bucket string) {
		g.Stat(bucket)
		h := c04Height(T)
		xs := make([]string, len(S))
		for i, n := range S {
			xs[i] = c10Node(n.v, n.l)
		}
		key := ""
		if len(S) > 0 && len(S) < int(T) {
			key = fmt.Sprintf("R/%s/%s/%s", c03Kind(T), c04HB(h), c04NB(len(S)))
		}
		g.Do("bmtree.Decode/roundtrip"+sfx, L(I32(T), L(xs...)), key)
	}

	// (00) the very first calls of the process for a given T: a range that ends inside the last search
	//      value (to = the right-most leaf, exclusive; also to = 0 and to = last leaf + 1), then the whole
	//      range and Decode - a memo of "the complete enumeration" filled by the first call shows here
	if rel {
		first := func(T int32) {
			h := c04Height(T)
			last := c04Word(h, c04Node{uint64(1)<<uint(h) - 1, h})
			ap := func(to uint64) string { return L("0", I32(T), U(0), U(to)) }
			bm := make([]uint64, (int(T)+63)/64)
			for i := range bm {
				bm[i] = ^uint64(0)
			}
			calls := []string{ap([]uint64{last, last, last - 1, 0, last + 1}[g.R.Intn(5)]), ap(^uint64(0)), L("1", I32(T), U64s(bm)), ap(last + 1)}
			g.Stat("session-first")
			g.Do("bmtree.Session", L(L(calls...)), fmt.Sprintf("Y/%s", c04HB(h)))
		}
		for T := int32(1); T < 1<<7; T++ {
			first(T)
		}
		for k := 0; k < 40; k++ {
			h := g.R.Range(7, 12)
			T := int32(uint32(1)<<uint(h) | uint32(g.R.U64())&(uint32(1)<<uint(h)-1))
			first(T)
		}
		g.Exhaust = append(g.Exhaust, "Session: for every T < 2^7 the first calls of the process on T: AllPaths(T,0,last leaf or +-1 or 0), AllPaths(T,0,max), Decode(T, all ones)")
	}

	// (0) held variants first thing in the run, over ascending output sizes (capacity boundaries of
	//     a reused buffer are crossed): two calls, then both results are compared
	for h := 0; rel && h <= 9; h++ {
		for _, T := range []int32{int32(1)<<uint(h+1) - 1, int32(1) << uint(h), int32(1)<<uint(h) | 1, int32(1)<<uint(h) | int32(0x155)&(int32(1)<<uint(h)-1)} {
			h2 := (h + 3) % 7
			T2 := int32(1)<<uint(h2+1) - 1 - int32(g.R.Intn(1<<uint(h2)))
			g.Stat("held")
			key := fmt.Sprintf("H/%s/%s", c03Kind(T), c04HB(h))
			mid := uint64(1)<<uint(h)>>1<<32 | 1
			g.Do("bmtree.AllPaths/held", L(L(I32(T), U(0), U(^uint64(0))), L(I32(T2), U(0), U(^uint64(0)))), key)
			g.Do("bmtree.AllPaths/held", L(L(I32(T), U(mid), U(^uint64(0))), L(I32(T), U(0), U(mid))), key)
			bm := make([]uint64, (int(T)+63)/64)
			bm2 := make([]uint64, (int(T2)+63)/64)
			for i := range bm {
				bm[i] = g.R.U64() | g.R.U64()
			}
			for i := range bm2 {
				bm2[i] = ^uint64(0)
			}
			g.Do("bmtree.Decode/held", L(L(I32(T), U64s(bm)), L(I32(T2), U64s(bm2))), key)
			g.Do("bmtree.Decode/held", L(L(I32(T2), U64s(bm2)), L(I32(T), U64s(bm))), key)
		}
	}

	// (0b) sessions, early in the run: two trees with the same level pattern at different heights
	//      (S and S<<k for every partially stored S < 2^7, k = 1..4, in both orders), optionally
	//      with a full / leaves-only tree in between, AllPaths on a small window or Decode
	if rel {
		ap := func(T int32, to uint64) string { return L("0", I32(T), U(0), U(to)) }
		dc := func(T int32) string {
			bm := make([]uint64, (int(T)+63)/64)
			for i := range bm {
				bm[i] = ^uint64(0)
			}
			return L("1", I32(T), U64s(bm))
		}
		for S := int32(1); S < 1<<7; S++ {
			if c03Kind(S) != "part" {
				continue
			}
			for k := 1; k <= 4; k++ {
				S2 := S << uint(k)
				h2 := c04Height(S2)
				win := uint64(8) << 32
				between := []string{ap(int32(1)<<uint(h2+1)-1, win), ap(int32(1)<<uint(h2), win), dc(3), dc(4)}[g.R.Intn(4)]
				var calls [][]string
				switch (int(S) + k) % 4 {
				case 0:
					calls = [][]string{{ap(S, win), ap(S2, win)}, {ap(S2, win), ap(S, win)}}
				case 1:
					calls = [][]string{{ap(S, win), between, ap(S2, ^uint64(0)), ap(S, win)}}
				case 2:
					calls = [][]string{{ap(S2, win), between, ap(S, ^uint64(0))}, {ap(S, 1<<32), ap(S2, 1<<32)}}
				default:
					if h2 <= 8 {
						calls = [][]string{{dc(S), dc(S2)}, {dc(S2), between, dc(S)}}
					} else {
						calls = [][]string{{ap(S, win), ap(S2, win), ap(S, win)}}
					}
				}
				for _, cs := range calls {
					g.Stat("session")
					g.Do("bmtree.Session", L(L(cs...)), fmt.Sprintf("Z/%s/k%d/n%d", c04HB(h2), k, len(cs)))
				}
			}
		}
		g.Exhaust = append(g.Exhaust, "Session: every partially stored S < 2^7 x k in 1..4: calls on S and S<<k in one process (both orders over the sweep), AllPaths windows or Decode, optionally a full / leaves-only tree in between")
	}

	// candidate bounds of a small tree: every stored word, every stored word +-1, 0, 2^64-1
	cands := func(T int32) []uint64 {
		h := c04Height(T)
		set := map[uint64]bool{0: true, ^uint64(0): true}
		for _, n := range c04Stored(T, h) {
			w := c04Word(h, n)
			set[w], set[w+1], set[w-1] = true, true, true
		}
		r := make([]uint64, 0, len(set))
		for x := range set {
			r = append(r, x)
		}
		sort.Slice(r, func(i, j int) bool { return r[i] < r[j] })
		return r
	}

	// (1) exhaustive AllPaths: every T < 2^4 (thorough: 2^6) x every (from, to) drawn from the candidates
	full := int32(1 << 4)
	if g.Thorough {
		full = 1 << 6
	}
	for T := int32(1); T < full; T++ {
		cs := cands(T)
		for _, f := range cs {
			for _, t := range cs {
				// the empty half from > to is sampled 1 in 4 on the largest trees (time budget of the thorough tier)
				if T >= 32 && f > t && g.R.Intn(4) != 0 {
					continue
				}
				allpaths(T, f, t, "A-exh")
			}
		}
	}
	if rel {
		note := ""
		if g.Thorough {
			note = " (for T >= 32: every pair with from <= to, one in four of the pairs with from > to)"
		}
		g.Exhaust = append(g.Exhaust, fmt.Sprintf("AllPaths: every level mask T in [1,%d) x every (from,to) from {every stored path word, +1, -1, 0, 2^64-1}%s", full, note))
	}
	if !g.Thorough {
		// T in [2^4, 2^6): every candidate as from (to = max), as to (from = 0), as both, and with 4 random partners
		for T := int32(1 << 4); T < 1<<6; T++ {
			cs := cands(T)
			for _, f := range cs {
				allpaths(T, f, ^uint64(0), "A-exh6")
				allpaths(T, 0, f, "A-exh6")
				allpaths(T, f, f, "A-exh6")
				for j := 0; j < 4; j++ {
					t := cs[g.R.Intn(len(cs))]
					allpaths(T, f, t, "A-exh6")
				}
			}
		}
		if rel {
			g.Exhaust = append(g.Exhaust, "AllPaths: every T in [2^4,2^6) x every candidate as from with to=max, as to with from=0, as from=to")
		}
	}

	// (2) exhaustive Decode and round trip: every T <= 10 (thorough: 14) x every T-bit bitmap
	//     (empty slice for the zero bitmap too, extra word, junk beyond T)
	dmax := int32(10)
	if g.Thorough {
		dmax = 14
	}
	for T := int32(1); T <= dmax; T++ {
		h := c04Height(T)
		st := c04Stored(T, h)
		for b := uint64(0); b < 1<<uint(T); b++ {
			decode(T, []uint64{b}, "D-exh")
			decode(T, []uint64{b | ^uint64(0)<<uint(T)}, "D-exh-junk")
			decode(T, []uint64{b, g.R.Word(), 0}, "D-exh-long")
			var S []c04Node
			for i, n := range st {
				if b>>uint(i)&1 == 1 {
					S = append(S, n)
				}
			}
			roundtrip(T, S, "R-exh")
		}
		decode(T, nil, "D-empty")
		decode(T, []uint64{}, "D-empty")
	}
	g.Exhaust = append(g.Exhaust, fmt.Sprintf("Decode and Decode/roundtrip: every T in [1,%d] x every subset of the stored nodes (as a T-bit bitmap; also with all bits >= T set, and with 2 extra words)", dmax))

	// masks of a given height
	mask := func(h int) (int32, string) {
		top := uint32(1) << uint(h)
		low := top - 1
		switch g.R.Intn(8) {
		case 0:
			return int32(top | low), "full"
		case 1:
			return int32(top), "leaf"
		case 2:
			return int32(top | uint32(g.R.U64()&g.R.U64()&g.R.U64())&low), "sparse"
		case 3:
			return int32(top | uint32(g.R.U64()|g.R.U64()|g.R.U64())&low), "dense"
		case 4:
			if h > 0 {
				return int32((top | low) &^ (1 << uint(g.R.Intn(h)))), "full-1"
			}
		case 5:
			if h > 0 {
				return int32(top | 1<<uint(g.R.Intn(h))), "leaf+1"
			}
		}
		return int32(top | uint32(g.R.U64())&low), "rand"
	}

	// (3) AllPaths, heights 0..30, windows of at most 2^12 search values
	bound := func(T int32, i uint64) uint64 {
		// a bound on search value i: a real mask for i, +-1, no mask, full junk, random junk
		h := c04Height(T)
		tz := h
		if i != 0 && bits.TrailingZeros64(i) < h {
			tz = bits.TrailingZeros64(i)
		}
		l := h - g.R.Intn(tz+1) // a level whose word exists on i
		w := i<<32 | (uint64(1)<<uint(l)-1)<<uint(h-l)
		switch g.R.Intn(9) {
		case 0:
			return w + 1
		case 1:
			return w - 1
		case 2:
			return i << 32
		case 3:
			return i<<32 | 0xffffffff
		case 4:
			return i<<32 | g.R.U64()&0xffffffff
		case 5:
			return i<<32 | (uint64(1)<<uint(h+1) - 1) // all levels' mask bits
		}
		return w
	}
	n := g.N(6000, 60000)
	for k := 0; k < n; k++ {
		h := g.R.Range(0, 30)
		switch g.R.Intn(8) {
		case 0:
			h = 30
		case 1, 2:
			h = g.R.Range(6, 12)
		}
		T, mk := mask(h)
		cnt := uint64(1) << uint(h)
		wd := uint64(g.R.Intn(4))
		switch g.R.Intn(10) {
		case 0, 1, 2:
			wd = uint64(g.R.Intn(65))
		case 3:
			wd = uint64(g.R.Intn(4097))
		}
		if g.Thorough && g.R.Intn(50) == 0 {
			wd = uint64(g.R.Range(2048, 4096))
		}
		if wd > cnt-1 {
			wd = cnt - 1
		}
		var i0 uint64
		switch g.R.Intn(7) {
		case 0:
			i0 = 0
		case 1:
			i0 = cnt - 1 - wd
		case 2: // around a search value with many trailing zeros (long level walk)
			c := g.R.U64() % cnt &^ (uint64(1)<<uint(g.R.Intn(h+1)) - 1)
			i0 = c - uint64(g.R.Intn(int(wd)+1))
			if i0 > c {
				i0 = 0
			}
		case 3:
			i0 = uint64(1)<<uint(g.R.Intn(h+1)) - uint64(g.R.Intn(2))
		default:
			i0 = g.R.U64() % cnt
		}
		if i0 > cnt-1 {
			i0 = cnt - 1
		}
		if i0+wd > cnt-1 {
			wd = cnt - 1 - i0
		}
		from, to := bound(T, i0), bound(T, i0+wd)
		shape := "in"
		switch g.R.Intn(12) {
		case 0: // from > to
			if from > to {
				break
			}
			from, to = to, from
			if to>>32 < from>>32 {
				shape = "swapped"
			}
		case 1: // to beyond the tree, from near its end
			i0 = cnt - 1 - wd
			from = bound(T, i0)
			to = []uint64{^uint64(0), cnt << 32, cnt<<32 - 1, (cnt + 1) << 32, 1 << 63, 0xffffffff << 32}[g.R.Intn(6)]
			shape = "to-beyond"
		case 2: // from beyond the tree
			from = []uint64{cnt << 32, cnt<<32 | 1, ^uint64(0), 1 << 63}[g.R.Intn(4)]
			to = []uint64{^uint64(0), from, from + 1, 0}[g.R.Intn(4)]
			shape = "from-beyond"
		case 3: // from = 0 with a small to
			from, to = 0, bound(T, wd)
			shape = "from0"
		}
		// keep the number of search values visited small: min(to>>32+1, 2^h) - from>>32 <= 2^12+1
		if e := to>>32 + 1; from>>32 < cnt {
			if e > cnt {
				e = cnt
			}
			if e > from>>32 && e-from>>32 > 4097 {
				to = from + 1
				shape = "clamped"
			}
		}
		allpaths(T, from, to, "A-rand-"+mk+"-"+c04HB(h)+"-"+shape)
	}
	// whole range of every small height
	for h := 0; h <= 11; h++ {
		for j := 0; j < 6; j++ {
			T, mk := mask(h)
			allpaths(T, 0, ^uint64(0), "A-whole-"+mk)
			allpaths(T, 0, 1<<63, "A-whole-"+mk)
		}
	}

	// (3b) a few tall Decode cases (heights 13, 14: more than 128 / 256 bitmap words), sparse bitmaps with
	//      bits in the last words
	for k, nk := 0, g.N(4, 40); k < nk; k++ {
		h := g.R.Range(13, 14)
		T := int32(uint32(1)<<uint(h) | uint32(g.R.U64())&(uint32(1)<<uint(h)-1))
		if k%2 == 0 {
			T = int32(uint32(1)<<uint(h+1) - 1 - uint32(g.R.Intn(4)))
		}
		nw := (int(T)+63)/64 + g.R.Pick(0, 0, 2, -1)
		bm := make([]uint64, nw)
		for j := 0; j < 6; j++ {
			bm[g.R.Intn(nw)] |= 1 << uint(g.R.Intn(64))
			bm[nw-1-g.R.Intn(4)] |= 1 << uint(g.R.Intn(64))
		}
		bm[(int(T)-1)>>6%nw] |= 1 << uint((int(T)-1)&63)
		decode(T, bm, "D-tall")
		st := c04Stored(T, h)
		S := []c04Node{st[0], st[len(st)/2], st[len(st)-2], st[len(st)-1]}
		roundtrip(T, S, "R-tall")
	}

	// (3c) one Decode call on a tree of height 16 (the slowest case of the run: ./check re-runs the slowest
	//      cases under other GOMAXPROCS values; the model needs ~8 s for it), sparse bitmaps with bits in the first,
	//      middle and last words
	for _, h := range []int{16} {
		T := int32(uint32(1)<<uint(h) | uint32(g.R.U64())&0xff)
		nw := (int(T) + 63) / 64
		bm := make([]uint64, nw)
		for j := 0; j < 24; j++ {
			bm[nw-1-g.R.Intn(nw/16)] |= 1 << uint(g.R.Intn(64))
			bm[g.R.Intn(nw)] |= 1 << uint(g.R.Intn(64))
		}
		bm[0] |= 1
		bm[(int(T)-1)>>6] |= 1 << uint((int(T)-1)&63)
		decode(T, bm, "D-h16+")
	}

	// (4) Decode / round trip, heights 0..10 (thorough: 12): bitmaps of ceil(T/64)-1, +0, +2 words,
	//     bits at and beyond T
	hmax := 10
	if g.Thorough {
		hmax = 12
	}
	n = g.N(500, 6000)
	for k := 0; k < n; k++ {
		h := g.R.Range(0, hmax)
		if g.R.Intn(3) == 0 {
			h = g.R.Range(5, 8) // T straddles one or several words
		}
		T, mk := mask(h)
		need := (int(T) + 63) / 64
		nw := need
		switch g.R.Intn(6) {
		case 0:
			nw = need - 1
		case 1:
			nw = need + 2
		case 2:
			nw = g.R.Intn(need + 1)
		case 3:
			nw = need + 1
		}
		bm := g.R.Words(nw)
		switch g.R.Intn(8) {
		case 0:
			for i := range bm {
				bm[i] = ^uint64(0)
			}
		case 1:
			for i := range bm {
				bm[i] = g.R.U64()
			}
		case 2:
			for i := range bm {
				bm[i] = 0
			}
		}
		set := func(p int) {
			if p >= 0 && p>>6 < len(bm) {
				bm[p>>6] |= 1 << uint(p&63)
			}
		}
		switch g.R.Intn(5) {
		case 0:
			set(int(T) - 1)
		case 1:
			set(int(T))
			set(int(T) + 1)
		case 2:
			set(len(bm)*64 - 1)
		case 3:
			set(0)
		}
		decode(T, bm, "D-rand-"+mk+"-"+c04HB(h))

		st := c04Stored(T, h)
		var S []c04Node
		mode := g.R.Intn(6)
		for i, nd := range st {
			switch mode {
			case 0:
				S = append(S, nd)
			case 1:
				if g.R.Intn(8) == 0 {
					S = append(S, nd)
				}
			case 2:
				if i == len(st)-1 || i == 0 {
					S = append(S, nd)
				}
			case 3:
				if nd.l == h {
					S = append(S, nd)
				}
			default:
				if g.R.Bool() {
					S = append(S, nd)
				}
			}
		}
		roundtrip(T, S, "R-rand-"+mk+"-"+c04HB(h))
	}

	// (5) keys -> PathsOf -> PathToIndex -> Of -> Decode: sorted byte strings sharing their first `from`
	//     bits; a key either reaches the leaf level or ends exactly on a stored level
	n = g.N(300, 1500)
	for k := 0; k < n; k++ {
		from := g.R.Pick(0, 0, 3, 8, 13, 16, 21)
		h := g.R.Range(1, 10)
		if g.R.Intn(20) == 0 {
			h = g.R.Range(11, 14)
		}
		T := uint32(1) << uint(h)
		var short []int // stored levels on which a key may end
		for l := 0; l < h; l++ {
			if (from+l)%8 == 0 {
				if g.R.Bool() {
					T |= 1 << uint(l)
					short = append(short, l)
				}
			} else if g.R.Intn(3) == 0 {
				T |= 1 << uint(l)
			}
		}
		prefix := g.R.U64()
		bit := func(b []byte, i int, v uint64) {
			if v&1 == 1 {
				b[i>>3] |= 0x80 >> uint(i&7)
			}
		}
		m := g.R.Pick(0, 1, 2, 3, 5, 8, 12, 20)
		keys := make([]string, 0, m)
		paths := map[uint64]bool{}
		var pool []uint64 // leaf values to repeat (keys that differ only beyond the window)
		for j := 0; j < m; j++ {
			l := h
			if len(short) > 0 && g.R.Intn(3) == 0 {
				l = short[g.R.Intn(len(short))]
			}
			v := g.R.U64() & (uint64(1)<<uint(l) - 1)
			switch g.R.Intn(6) {
			case 0:
				v = 0
			case 1:
				v = uint64(1)<<uint(l) - 1
			case 2:
				if l == h && len(pool) > 0 {
					v = pool[g.R.Intn(len(pool))]
				}
			}
			if l == h {
				pool = append(pool, v)
			}
			nbits := from + l
			nbytes := (nbits + 7) / 8
			if l == h {
				nbytes += g.R.Intn(3)
			}
			b := make([]byte, nbytes)
			if l == h { // random tail beyond the window
				for i := range b {
					b[i] = byte(g.R.U64())
				}
				for i := 0; i < nbits; i++ {
					b[i>>3] &^= 0x80 >> uint(i&7)
				}
			}
			for i := 0; i < from; i++ {
				bit(b, i, prefix>>uint(i))
			}
			for i := 0; i < l; i++ {
				bit(b, from+i, v>>uint(l-1-i))
			}
			keys = append(keys, string(b))
			paths[uint64(l)<<32|v] = true
		}
		sort.Strings(keys)
		g.Stat("K-keys")
		key := ""
		if len(paths) >= 2 {
			key = fmt.Sprintf("K/%s/from%d/%s/dup%v", c04HB(h), from%8, c04NB(len(paths)), len(paths) < len(keys))
		}
		g.Do("bmtree.PathsOf/decode"+sfx, L(I32(int32(T)), Int(from), Strs(keys)), key)
	}

	// (6) sub-tree windows: every T < 2^5 x every node; random heights 0..30 with nodes at most 13
	//     levels above the leaves
	if rel {
		subtree := func(T int32, v uint64, l int, bucket string) {
			h := c04Height(T)
			g.Stat(bucket)
			key := ""
			if l > 0 && l < h {
				key = fmt.Sprintf("U/%s/%s/below%d", c03Kind(T), c04HB(h), h-l)
			}
			g.Do("bmtree.AllPaths/subtree", L(I32(T), c10Node(v, l)), key)
		}
		for T := int32(1); T < 1<<5; T++ {
			h := c04Height(T)
			for l := 0; l <= h; l++ {
				for v := uint64(0); v < 1<<uint(l); v++ {
					subtree(T, v, l, "U-exh")
				}
			}
		}
		g.Exhaust = append(g.Exhaust, "AllPaths/subtree: every level mask T in [1,2^5) x every node")
		n = g.N(1200, 12000)
		for k := 0; k < n; k++ {
			h := g.R.Range(0, 30)
			if g.R.Intn(8) == 0 {
				h = 30
			}
			T, mk := mask(h)
			below := g.R.Intn(8)
			if g.R.Intn(6) == 0 {
				below = g.R.Range(8, 12)
			}
			if below > h {
				below = h
			}
			l := h - below
			ones := uint64(1)<<uint(l) - 1
			v := g.R.U64() & ones
			switch g.R.Intn(6) {
			case 0:
				v = 0
			case 1:
				v = ones
			}
			subtree(T, v, l, "U-rand-"+mk+"-"+c04HB(h))
		}
	}
}
