//go:build !race

package main

// c19RepFactor: in the ordinary build every goroutine repeats the batch this many times more, so that the
// goroutines really overlap (a batch takes microseconds); the -race build is slow and exact, it does not need it.
const c19RepFactor = 8
