package main

import (
	"fmt"

	"github.com/openacid/low/bmtree"
)

// C03 widening (with C11): from a key to its bitmap index.  args [T, s, from]; the
// tree height is Height(T); observation = PathToIndexLoose(T, PathOf(s, from, h))
// resp. PathToIndex(...) when the level of the key's node is stored.

func init() {
	loose := func(a []V) string {
		T := a[0].I32()
		p := bmtree.PathOf(a[1].Str(), a[2].I32(), c03Height(T))
		i, has := bmtree.PathToIndexLoose(T, p)
		return L(I32(i), I32(has))
	}
	strict := func(a []V) string {
		T := a[0].I32()
		p := bmtree.PathOf(a[1].Str(), a[2].I32(), c03Height(T))
		return I32(bmtree.PathToIndex(T, p))
	}
	Exec["bmtree.PathOf+PathToIndexLoose"] = loose
	Exec["bmtree.PathOf+PathToIndexLoose/debug"] = loose
	Exec["bmtree.PathOf+PathToIndex"] = strict
	Exec["bmtree.PathOf+PathToIndex/debug"] = strict
}

func c03GenKey(g *Gen) {
	emit := func(T int32, s []byte, from int, bucket string) {
		h := int(c03Height(T))
		g.Stat("key-" + bucket)
		k := 8*len(s) - from // length of the key's node: clamp(8|s| - from, 0, h)
		if k < 0 {
			k = 0
		}
		if k > h {
			k = h
		}
		key := ""
		if k >= 1 {
			cut := "full"
			if k < h {
				cut = "cut"
			}
			key = fmt.Sprintf("key/%s/%s/al%d/%s/has%d", c03Kind(T), c03HB(h), from&7, cut, T>>uint(k)&1)
		}
		args := L(I32(T), Bytes(s), Int(from))
		g.Do("bmtree.PathOf+PathToIndexLoose"+c03Suffix, args, key)
		if T>>uint(k)&1 == 1 {
			g.Do("bmtree.PathOf+PathToIndex"+c03Suffix, args, key)
		}
	}
	// exhaustive: every level mask in [1,16) x every string of <= 2 bytes over {00, 80, ff, a5} x every from in [0, 8|s|+1]
	alpha := []byte{0x00, 0x80, 0xff, 0xa5}
	var strs [][]byte
	strs = append(strs, []byte{})
	for _, a := range alpha {
		strs = append(strs, []byte{a})
		for _, b := range alpha {
			strs = append(strs, []byte{a, b})
		}
	}
	for T := int32(1); T < 16; T++ {
		for _, s := range strs {
			for from := 0; from <= 8*len(s)+1; from++ {
				emit(T, s, from, "exh")
			}
		}
	}
	g.Exhaust = append(g.Exhaust, "key to index: every level mask in [1,16) x every string of <= 2 bytes over {00,80,ff,a5} x every from in [0, 8|s|+1]")

	n := g.N(2500, 60000)
	for k := 0; k < n; k++ {
		h := g.R.Range(0, 30)
		if g.R.Intn(4) == 0 {
			h = g.R.Pick(8, 16, 24, 29, 30)
		}
		top := uint32(1) << uint(h)
		low := top - 1
		T := top | uint32(g.R.U64())&low
		switch g.R.Intn(6) {
		case 0:
			T = top | low
		case 1:
			T = top
		case 2:
			T = top | uint32(g.R.U64()&g.R.U64())&low
		}
		s := g.R.Bytes(g.R.Range(0, 7), []byte{0x00, 0x01, 0x7f, 0x80, 0xff, 'a', 'b', 0xa5})
		from := g.R.Range(0, 8*len(s)+2)
		switch g.R.Intn(5) {
		case 0:
			from = 8 * g.R.Range(0, len(s))
		case 1: // the window ends exactly at / one bit around the end of the key
			from = 8*len(s) - h + g.R.Range(-1, 1)
			if from < 0 {
				from = 0
			}
		}
		emit(int32(T), s, from, c03HB(h))
	}
}
