package main

import (
	"bytes"
	"fmt"
	"os"

	"github.com/openacid/low/bitword"
)

// C08 — bitword: every op takes the word width n (1,2,4,8) as first argument
// and runs bitword.BitWord[n].<Func> of the real package.

func c08bw(a []V) bitword.Interface {
	w, ok := bitword.BitWord[a[0].Int()]
	if !ok {
		panic("no such width")
	}
	return w
}

func init() {
	Exec["bitword.FromStr"] = func(a []V) string {
		return Bytes(c08bw(a).FromStr(a[1].Str()))
	}
	Exec["bitword.Get"] = func(a []V) string {
		return Int(int(c08bw(a).Get(a[1].Str(), a[2].Int())))
	}
	Exec["bitword.ToStr"] = func(a []V) string {
		return Str(c08bw(a).ToStr(a[1].Bytes()))
	}
	Exec["bitword.ToStr/FromStr"] = func(a []V) string {
		w := c08bw(a)
		return Str(w.ToStr(w.FromStr(a[1].Str())))
	}
	Exec["bitword.FirstDiff"] = func(a []V) string {
		return Int(c08bw(a).FirstDiff(a[1].Str(), a[2].Str(), a[3].Int(), a[4].Int()))
	}
	Exec["bitword.FromStrs"] = func(a []V) string {
		return ByteSlices(c08bw(a).FromStrs(a[1].Strs()))
	}
	Exec["bitword.ToStrs"] = func(a []V) string {
		bss := make([][]byte, len(a[1].L))
		for i, x := range a[1].L {
			bss[i] = x.Bytes()
		}
		return Strs(c08bw(a).ToStrs(bss))
	}
	// large-input variants (judged by the word-by-word spec, linear time on the Coq side)
	Exec["bitword.Get/large"] = func(a []V) string {
		w := c08bw(a)
		s, i := a[1].Str(), a[2].Int()
		return L(Int(int(w.Get(s, i))), Int(int(w.FromStr(s)[i])))
	}
	Exec["bitword.FirstDiff/large"] = Exec["bitword.FirstDiff"]
	Exec["bitword.FromStr/large"] = Exec["bitword.FromStr"]
	Exec["bitword.ToStr/large"] = Exec["bitword.ToStr"]
	// widened ops (Spec/BitwordSpecWiden.v)
	Exec["bitword.FromStr/cmp"] = func(a []V) string {
		w := c08bw(a)
		return Int(bytes.Compare(w.FromStr(a[1].Str()), w.FromStr(a[2].Str())))
	}
	Exec["bitword.FromStr/ToStr"] = func(a []V) string {
		w := c08bw(a)
		return Bytes(w.FromStr(w.ToStr(a[1].Bytes())))
	}
	Exec["bitword.Get/any"] = Exec["bitword.Get"]
	Exec["bitword.FirstDiff/any"] = Exec["bitword.FirstDiff"]
	Exec["bitword.ToStr/any"] = Exec["bitword.ToStr"]
	// history / batch ops
	Exec["bitword.Session/scribble"] = func(a []V) string {
		w := c08bw(a)
		m := 8 / a[0].Int()
		first := make([]string, 0, len(a[1].L))
		for _, x := range a[1].L {
			ws := w.FromStr(x.Str())
			first = append(first, Bytes(ws))
			for j := range ws { // the caller reuses the slice it was given
				ws[j] = ^ws[j]
			}
		}
		probes := make([]string, 0, len(a[2].L))
		for _, x := range a[2].L {
			p := x.Str()
			ws := w.FromStr(p)
			gets := make([]byte, len(p)*m)
			for i := range gets {
				gets[i] = w.Get(p, i)
			}
			probes = append(probes, L(Bytes(ws), Bytes(gets), Str(w.ToStr(ws))))
		}
		return L(L(first...), L(probes...))
	}
	Exec["bitword.FromStrs/batch"] = func(a []V) string {
		w := c08bw(a)
		var ss []string
		for _, r := range a[2].L {
			e := a[1].L[r.L[0].Int()].Str()
			for k := r.L[1].Int(); k > 0; k-- {
				ss = append(ss, e)
			}
		}
		return ByteSlices(w.FromStrs(ss))
	}
	Exec["bitword.ToStrs/batch"] = func(a []V) string {
		w := c08bw(a)
		var wss [][]byte
		for _, r := range a[2].L {
			e := a[1].L[r.L[0].Int()].Bytes()
			for k := r.L[1].Int(); k > 0; k-- {
				wss = append(wss, e)
			}
		}
		return Strs(w.ToStrs(wss))
	}
	Exec["bitword.ToStrs/flat"] = func(a []V) string {
		w := c08bw(a)
		src := a[1].Bytes()
		flat := make([]byte, len(src))
		copy(flat, src)
		wins := make([][]byte, len(a[2].L))
		for i, r := range a[2].L {
			wins[i] = flat[r.L[0].Int():r.L[1].Int()] // capacity runs on to the end of the buffer
		}
		res := w.ToStrs(wins)
		return L(Strs(res), Bytes(flat))
	}
	Exec["bitword.FirstDiff/alias"] = func(a []V) string {
		w := c08bw(a)
		s := a[1].Str() // built once; b shares its memory
		b := s[:a[2].Int()]
		from, end := a[3].Int(), a[4].Int()
		return L(Int(w.FirstDiff(s, b, from, end)), Int(w.FirstDiff(b, s, from, end)))
	}
	Exec["bitword.Session/reuse"] = func(a []V) string {
		w := c08bw(a)
		mx := 0
		for _, x := range a[1].L {
			if len(x.L) > mx {
				mx = len(x.L)
			}
		}
		buf := make([]byte, mx) // the caller's one word buffer
		r1 := make([]string, len(a[1].L))
		for i, x := range a[1].L {
			ws := x.Bytes()
			copy(buf, ws)
			r1[i] = w.ToStr(buf[:len(ws)])
			for j := range buf { // cleared for the next key
				buf[j] = 0xee
			}
		}
		bufs := make([][]byte, len(a[1].L))
		for i, x := range a[1].L {
			ws := x.Bytes()
			bufs[i] = make([]byte, len(ws))
			copy(bufs[i], ws)
		}
		r2 := w.ToStrs(bufs)
		for _, b := range bufs {
			for j := range b {
				b[j] = 0xee
			}
		}
		return L(Strs(r1), Strs(r2)) // rendered only now
	}
	Register("C08", genC08)
}

var c08Widths = []int{1, 2, 4, 8}
var c08Alpha = []byte{0x00, 0x01, 0x7f, 0x80, 0xff, 'a', 'b'}

func c08ByteClass(b byte) string {
	switch {
	case b == 0:
		return "00"
	case b == 0xff:
		return "ff"
	case b >= 0x80:
		return "hi"
	default:
		return "lo"
	}
}

func c08LenClass(n int) string {
	switch {
	case n == 0:
		return "0"
	case n == 1:
		return "1"
	case n <= 2:
		return "2"
	case n <= 8:
		return "3-8"
	default:
		return "9+"
	}
}

func c08HasHigh(s []byte) bool {
	for _, b := range s {
		if b >= 0x80 {
			return true
		}
	}
	return false
}

// all strings of length <= maxLen over alphabet al
func c08AllStrings(al []byte, maxLen int) [][]byte {
	out := [][]byte{{}}
	prev := [][]byte{{}}
	for l := 1; l <= maxLen; l++ {
		var cur [][]byte
		for _, p := range prev {
			for _, c := range al {
				s := append(append([]byte{}, p...), c)
				cur = append(cur, s)
			}
		}
		out = append(out, cur...)
		prev = cur
	}
	return out
}

func genC08(g *Gen) {
	fromStr := func(n int, s []byte, bucket string) {
		g.Stat(bucket)
		key := ""
		if len(s) > 0 {
			key = fmt.Sprintf("from/n%d/len%s/high%v", n, c08LenClass(len(s)), c08HasHigh(s))
		}
		g.Do("bitword.FromStr", L(Int(n), Bytes(s)), key)
		if len(s) > 0 {
			key = fmt.Sprintf("rt/n%d/len%s/high%v", n, c08LenClass(len(s)), c08HasHigh(s))
		}
		g.Do("bitword.ToStr/FromStr", L(Int(n), Bytes(s)), key)
	}
	get := func(n int, s []byte, i int, bucket string) {
		g.Stat(bucket)
		m := 8 / n
		key := fmt.Sprintf("get/n%d/j%d/%s/byte%s", n, i%m, c08ByteClass(s[i/m]), c08LenClass(i/m+1))
		g.Do("bitword.Get", L(Int(n), Bytes(s), Int(i)), key)
	}
	toStr := func(n int, ws []byte, bucket string) {
		g.Stat(bucket)
		m := 8 / n
		key := ""
		if len(ws) > 0 {
			nz := false
			for _, w := range ws {
				if w != 0 {
					nz = true
				}
			}
			key = fmt.Sprintf("to/n%d/partial%d/bytes%s/nz%v", n, len(ws)%m, c08LenClass((len(ws)+m-1)/m), nz)
		}
		g.Do("bitword.ToStr", L(Int(n), Bytes(ws)), key)
		if len(ws) <= 4096 {
			if key != "" {
				key = "rt2" + key[2:]
			}
			g.Do("bitword.FromStr/ToStr", L(Int(n), Bytes(ws)), key)
		}
	}
	// naive first difference, only for the shape key
	firstDiff := func(n int, a, b []byte, from, end int, bucket string) {
		g.Stat(bucket)
		m := 8 / n
		la, lb := len(a)*m, len(b)*m
		lim := end
		endc := "in"
		if end == -1 {
			lim = la
			endc = "-1"
		}
		if lim > la || lim > lb {
			endc += "/clamped"
			if lim > la {
				lim = la
			}
			if lim > lb {
				lim = lb
			}
		}
		fromc := "lt"
		if from == lim {
			fromc = "eq"
		} else if from > lim {
			fromc = "gt"
		}
		// does a difference exist in [from, lim)?
		found := "none"
		for i := from; i < lim; i++ {
			ba, bb := a[i/m], b[i/m]
			sh := uint(8 - n*(i%m) - n)
			if (ba>>sh)&byte(1<<uint(n)-1) != (bb>>sh)&byte(1<<uint(n)-1) {
				found = fmt.Sprintf("j%d", i%m)
				if i == from {
					found += "/atfrom"
				}
				break
			}
		}
		rel := "la=lb"
		if la < lb {
			rel = "la<lb"
		} else if la > lb {
			rel = "la>lb"
		}
		key := ""
		if len(a) > 0 && len(b) > 0 {
			key = fmt.Sprintf("fd/n%d/end%s/from%s/%s/%s", n, endc, fromc, found, rel)
		}
		g.Do("bitword.FirstDiff", L(Int(n), Bytes(a), Bytes(b), Int(from), Int(end)), key)
	}

	// (1) all 256 one-byte strings x 4 widths x all word indices
	for _, n := range c08Widths {
		for b := 0; b < 256; b++ {
			s := []byte{byte(b)}
			fromStr(n, s, "exh-1byte")
			for i := 0; i < 8/n; i++ {
				get(n, s, i, "exh-1byte-get")
			}
		}
	}
	g.Exhaust = append(g.Exhaust, "all 256 one-byte strings x widths 1,2,4,8: FromStr, ToStr(FromStr), Get at every word index")

	// (2) all strings of length <= 2 over the 7-byte alphabet x 4 widths
	strs2 := c08AllStrings(c08Alpha, 2)
	for _, n := range c08Widths {
		for _, s := range strs2 {
			fromStr(n, s, "exh-2byte")
			for i := 0; i < len(s)*8/n; i++ {
				get(n, s, i, "exh-2byte-get")
			}
		}
	}
	g.Exhaust = append(g.Exhaust, "all strings of length 0..2 over {00,01,7f,80,ff,'a','b'} x 4 widths: FromStr, ToStr(FromStr), Get at every word index")

	// (2b) FirstDiff: pairs of those strings; quick: all pairs of strings of length <= 1 with ALL
	// windows, and a quarter of the two-byte pairs with the main windows; thorough: all pairs.
	strs1 := c08AllStrings(c08Alpha, 1)
	for _, n := range c08Widths {
		m := 8 / n
		for _, a := range strs1 {
			for _, b := range strs1 {
				for from := 0; from <= m+1; from++ {
					for end := -1; end <= m+1; end++ {
						firstDiff(n, a, b, from, end, "exh-fd-1byte")
					}
				}
			}
		}
	}
	g.Exhaust = append(g.Exhaust, "FirstDiff: all pairs of strings of length 0..1 over the 7-byte alphabet x 4 widths x all from in [0,words+1] x all end in [-1,words+1]")
	k := 0
	for _, n := range c08Widths {
		m := 8 / n
		for _, a := range strs2 {
			for _, b := range strs2 {
				k++
				if !g.Thorough && k%4 != 0 {
					continue
				}
				firstDiff(n, a, b, 0, -1, "exh-fd-2byte")
				firstDiff(n, a, b, g.R.Intn(2*m+2), g.R.Range(-1, 2*m+1), "exh-fd-2byte")
				if g.Thorough {
					firstDiff(n, a, b, m, 2*m, "exh-fd-2byte")
					firstDiff(n, a, b, m-1, 3*m, "exh-fd-2byte")
				}
			}
		}
	}
	if g.Thorough {
		g.Exhaust = append(g.Exhaust, "FirstDiff(a,b,0,-1): all pairs of strings of length 0..2 over the 7-byte alphabet x 4 widths")
	}

	// (3) ToStr on all in-range word lists up to a length that includes partial last bytes
	type wl struct{ n, maxLen int }
	lists := []wl{{1, 9}, {2, 5}, {4, g.N(2, 3)}, {8, 1}}
	for _, c := range lists {
		al := make([]byte, 1<<uint(c.n))
		for i := range al {
			al[i] = byte(i)
		}
		for _, ws := range c08AllStrings(al, c.maxLen) {
			toStr(c.n, ws, "exh-tostr")
		}
		g.Exhaust = append(g.Exhaust, fmt.Sprintf("ToStr: all in-range word lists of length 0..%d for width %d", c.maxLen, c.n))
	}

	// (4) random strings <= 40 bytes over the alphabets; random in-range word lists
	nb := g.N(600, 20000)
	for q := 0; q < nb; q++ {
		n := c08Widths[g.R.Intn(4)]
		m := 8 / n
		ln := g.R.Range(0, 40)
		if g.R.Intn(3) == 0 {
			ln = g.R.Range(0, 9)
		}
		s := g.R.Bytes(ln, alphabets[g.R.Intn(len(alphabets))])
		fromStr(n, s, "rand-fromstr")
		for t := 0; t < 4 && ln > 0; t++ {
			i := g.R.Intn(ln * m)
			switch g.R.Intn(4) {
			case 0:
				i = ln*m - 1 - g.R.Intn(m)
			case 1:
				i = g.R.Intn(m)
			}
			get(n, s, i, "rand-get")
		}
		// words: in range, any length (partial last byte included)
		wn := g.R.Range(0, 40*m/2)
		if g.R.Intn(2) == 0 {
			wn = g.R.Range(0, 3*m)
		}
		ws := make([]byte, wn)
		mode := g.R.Intn(4)
		for i := range ws {
			switch mode {
			case 0:
				ws[i] = byte(1<<uint(n) - 1)
			case 1:
				ws[i] = byte(g.R.Intn(2)) * byte(1<<uint(n)-1)
			default:
				ws[i] = byte(g.R.Intn(1 << uint(n)))
			}
		}
		toStr(n, ws, "rand-tostr")
		if q%5 == 0 {
			// element-wise versions
			cnt := g.R.Range(0, 4)
			ss := make([]string, cnt)
			wss := make([]string, cnt)
			for i := 0; i < cnt; i++ {
				ss[i] = Bytes(g.R.Bytes(g.R.Range(0, 6), alphabets[g.R.Intn(len(alphabets))]))
				w := make([]byte, g.R.Range(0, 2*m+1))
				for j := range w {
					w[j] = byte(g.R.Intn(1 << uint(n)))
				}
				wss[i] = Bytes(w)
			}
			key := ""
			if cnt > 0 {
				key = fmt.Sprintf("strs/n%d/cnt%d", n, cnt)
			}
			g.Stat("rand-strs")
			g.Do("bitword.FromStrs", L(Int(n), L(ss...)), key)
			g.Do("bitword.ToStrs", L(Int(n), L(wss...)), key)
		}
	}

	// (5) FirstDiff: pairs sharing a prefix, one differing bit at a chosen place (or none),
	// windows around the first difference and around both ends
	nf := g.N(2500, 60000)
	for q := 0; q < nf; q++ {
		n := c08Widths[g.R.Intn(4)]
		m := 8 / n
		al := alphabets[g.R.Intn(len(alphabets))]
		pl := g.R.Range(0, 12)
		pre := g.R.Bytes(pl, al)
		a := append(append([]byte{}, pre...), g.R.Bytes(g.R.Range(0, 6), al)...)
		b := append(append([]byte{}, pre...), g.R.Bytes(g.R.Range(0, 6), al)...)
		switch g.R.Intn(5) {
		case 0: // b = a with one bit flipped
			b = append([]byte{}, a...)
			if len(b) > 0 {
				p := g.R.Intn(len(b) * 8)
				b[p/8] ^= 0x80 >> uint(p%8)
			}
		case 1: // one a prefix of the other
			if g.R.Bool() {
				b = append([]byte{}, a[:g.R.Intn(len(a)+1)]...)
			} else {
				a = append([]byte{}, b[:g.R.Intn(len(b)+1)]...)
			}
		case 2: // equal
			b = append([]byte{}, a...)
		}
		la, lb := len(a)*m, len(b)*m
		mn := la
		if lb < mn {
			mn = lb
		}
		mx := la + lb - mn
		var from, end int
		switch g.R.Intn(7) {
		case 0:
			end = -1
		case 1:
			end = mn
		case 2:
			end = mx
		case 3:
			end = mx + g.R.Range(1, 9)
		case 4:
			end = g.R.Intn(mn + 1)
		case 5:
			end = 0
		default:
			end = g.R.Range(-1, mx+2)
		}
		lim := end
		if end == -1 {
			lim = la
		}
		if lim > mn {
			lim = mn
		}
		switch g.R.Intn(6) {
		case 0:
			from = 0
		case 1:
			from = lim
		case 2:
			from = lim + g.R.Range(1, 5)
		case 3:
			if lim > 0 {
				from = lim - 1
			}
		case 4:
			from = pl * m // at the end of the shared prefix
		default:
			from = g.R.Intn(lim + 2)
		}
		firstDiff(n, a, b, from, end, "rand-firstdiff")
	}

	c08Large(g, get, fromStr, toStr, firstDiff)
	c08Lists(g)
	c08Wide(g)
	c08Hist(g)
	c08Alias(g)
}

// c08Large: inputs whose byte / bit / word offsets cross 2^8 and 2^16 (narrowing conversions of
// an index or a length inside the code only show up there).  Few cases, both tiers.
//
//	mid:   strings of 31..33 and 255..258 bytes through the ordinary ops (all Get indexes near the
//	       boundaries), word lists of ~256 and ~2048 words
//	S1:    ~8200..8300 bytes  (bit offset 2^16; 2^16 one-bit words)
//	S2:    ~65.6..66.2 KB     (byte offset 2^16 = bit offset 2^19; 2^16 words for every width)
func c08Large(g *Gen, get func(int, []byte, int, string), fromStr func(int, []byte, string),
	toStr func(int, []byte, string), firstDiff func(int, []byte, []byte, int, int, string)) {

	randWords := func(n, cnt int) []byte {
		ws := make([]byte, cnt)
		for i := range ws {
			ws[i] = byte(g.R.Intn(1 << uint(n)))
		}
		return ws
	}
	// word indexes around a bit offset B and around word index W, inside [0, words)
	probes := func(n, words int, bitOffs, wordIdx []int, ds []int) []int {
		seen := map[int]bool{}
		var out []int
		add := func(i int) {
			if i >= 0 && i < words && !seen[i] {
				seen[i] = true
				out = append(out, i)
			}
		}
		for _, B := range bitOffs {
			for _, d := range ds {
				add(B/n + d)
			}
		}
		for _, W := range wordIdx {
			for _, d := range ds {
				add(W + d)
			}
		}
		add(words - 1)
		return out
	}

	// ---- mid-size strings through the ordinary ops
	for _, n := range c08Widths {
		m := 8 / n
		for _, ln := range []int{31, 32, 33, 255, 256, 257, 258} {
			s := g.R.Bytes(ln, nil)
			fromStr(n, s, "mid-fromstr")
			for _, i := range probes(n, ln*m, []int{256, 2048}, []int{256}, []int{-2, -1, 0, 1}) {
				get(n, s, i, "mid-get")
			}
			// a copy that differs in one bit just beyond a boundary
			for _, B := range []int{256, 2048} {
				if B+n >= ln*8 {
					continue
				}
				b := append([]byte{}, s...)
				p := B + g.R.Intn(2*n)
				b[p/8] ^= 0x80 >> uint(p%8)
				firstDiff(n, s, b, B/n-2, -1, "mid-firstdiff")
				firstDiff(n, s, b, p/n+1, -1, "mid-firstdiff")
			}
		}
		for _, cnt := range []int{255, 256, 257, 2047, 2048, 2049, 8 * 256, 8*256 + 1} {
			toStr(n, randWords(n, cnt), "mid-tostr")
		}
	}

	// ---- large strings
	type big struct {
		name string
		s    []byte
	}
	bigs := []big{
		{"S1", g.R.Bytes(g.R.Range(8200, 8300), nil)},
		{"S2", g.R.Bytes(65536+g.R.Range(100, 600), nil)},
	}
	if g.Thorough {
		bigs = append(bigs, big{"S1", g.R.Bytes(g.R.Range(8193, 8199), nil)},
			big{"S2", g.R.Bytes(65536+g.R.Range(1, 8), nil)})
	}
	for _, bg := range bigs {
		s := bg.s
		for _, n := range c08Widths {
			m := 8 / n
			words := len(s) * m
			// quick tier: the 66 KB string only for the widths 4 and 8 (FromStr), 8 (run to the end)
			isS2 := bg.name == "S2"
			if !isS2 || g.Thorough || n >= 4 {
				g.Stat("large-fromstr-" + bg.name)
				g.Do("bitword.FromStr/large", L(Int(n), Bytes(s)), fmt.Sprintf("large/from/n%d/%s", n, bg.name))
			}

			bitOffs := []int{65536}
			wordIdx := []int{65536}
			ds := []int{-1, 0, 1}
			if bg.name == "S2" {
				bitOffs = []int{524288} // byte index 2^16
				ds = []int{-1, 0}
				if g.Thorough {
					bitOffs = []int{65536, 524288}
					ds = []int{-2, -1, 0, 1, 2}
				}
			} else {
				ds = []int{-2, -1, 0, 1, m}
				bitOffs = []int{2048, 65536}
			}
			for _, i := range probes(n, words, bitOffs, wordIdx, ds) {
				g.Stat("large-get-" + bg.name)
				key := fmt.Sprintf("large/get/n%d/%s/j%d/bit>=2^16:%v/word>=2^16:%v/byte>=2^16:%v",
					n, bg.name, i%m, i*n >= 65536, i >= 65536, i/m >= 65536)
				g.Do("bitword.Get/large", L(Int(n), Bytes(s), Int(i)), key)
			}

			// FirstDiff across a boundary: b differs from s in one bit a few words after it
			fdAt := func(wb int, tag string) {
				if wb+4 >= words || wb < 3 {
					return
				}
				b := append([]byte{}, s...)
				p := (wb+g.R.Intn(3))*n + g.R.Intn(n)
				b[p/8] ^= 0x80 >> uint(p%8)
				from := wb - 1 - g.R.Intn(2)
				// (the window list of the spec costs time quadratic in its length: end = -1 or beyond the
				// strings only when fewer than ~1500 words remain)
				end := g.R.Pick(wb+6, wb+40)
				if words-from < 1500 {
					end = g.R.Pick(-1, wb+6, words+5)
				}
				g.Stat("large-firstdiff-" + bg.name)
				g.Do("bitword.FirstDiff/large", L(Int(n), Bytes(s), Bytes(b), Int(from), Int(end)),
					fmt.Sprintf("large/fd/n%d/%s/%s/diff", n, bg.name, tag))
			}
			if bg.name == "S1" {
				fdAt(2048/n, "bit2^11")
				fdAt(65536/n, "bit2^16")
				fdAt(65536, "word2^16")
			} else if g.Thorough {
				fdAt(524288/n, "bit2^19")
				if n > 1 {
					fdAt(65536, "word2^16")
				}
			} else if n == 1 || n == 8 {
				fdAt(524288/n, "bit2^19")
			} else {
				fdAt(65536, "word2^16")
			}
			// no difference up to the end: the result is lim = the word count (> 2^16 for S2, every width)
			if !isS2 || g.Thorough || n == 8 {
				b := append([]byte{}, s...)
				end := g.R.Pick(-1, words, words+3)
				tag := "equal"
				switch g.R.Intn(3) {
				case 0: // b shorter by one byte: lim = words(b)
					b = b[:len(b)-1]
					tag = "b-shorter"
				case 1: // last word differs
					b[len(b)-1] ^= 1
					tag = "last-word"
				}
				lim := len(b) * m
				g.Stat("large-firstdiff-" + bg.name)
				g.Do("bitword.FirstDiff/large", L(Int(n), Bytes(s), Bytes(b), Int(lim-2-g.R.Intn(2)), Int(end)),
					fmt.Sprintf("large/fd/n%d/%s/%s", n, bg.name, tag))
			}
		}
	}

	// ---- ToStr on long word lists (the model indexes the list per word: quadratic on the Coq side,
	// so 2^16 words only once, in the thorough tier)
	for _, n := range c08Widths {
		if !g.Thorough && (n == 2 || n == 4) {
			continue
		}
		g.Stat("large-tostr")
		cnt := 8192 + g.R.Range(1, 9)
		g.Do("bitword.ToStr/large", L(Int(n), Bytes(randWords(n, cnt))), fmt.Sprintf("large/to/n%d/8k/partial%d", n, cnt%(8/n)))
	}
	if g.Thorough {
		g.Stat("large-tostr")
		g.Do("bitword.ToStr/large", L(Int(8), Bytes(randWords(8, 65536+g.R.Range(1, 5)))), "large/to/n8/64k")
	}
}

// c08Lists: FromStrs / ToStrs on ALL lists of length <= 3 over four elements (equal neighbours,
// empty elements, order); c08Wide: the widened ops.
func c08Lists(g *Gen) {
	for _, n := range c08Widths {
		m := 8 / n
		mx := byte(1<<uint(n) - 1)
		strs := []string{Bytes(nil), Bytes([]byte{'a'}), Bytes([]byte{0xff}), Bytes([]byte{'a', 0x80})}
		part := []byte{1}
		if m > 1 {
			part = make([]byte, m+1) // one byte and a partial one
			part[0], part[m] = mx, 1
		}
		wls := []string{Bytes(nil), Bytes([]byte{1}), Bytes([]byte{mx}), Bytes(part)}
		var rec func(pre []int, depth int)
		rec = func(pre []int, depth int) {
			ss := make([]string, len(pre))
			ws := make([]string, len(pre))
			dup := false
			for i, k := range pre {
				ss[i], ws[i] = strs[k], wls[k]
				if i > 0 && pre[i-1] == k {
					dup = true
				}
			}
			key := ""
			if len(pre) > 0 {
				key = fmt.Sprintf("strs/n%d/cnt%d/dup%v", n, len(pre), dup)
			}
			g.Stat("exh-strs")
			g.Do("bitword.FromStrs", L(Int(n), L(ss...)), key)
			g.Do("bitword.ToStrs", L(Int(n), L(ws...)), key)
			if depth == 3 {
				return
			}
			for k := 0; k < 4; k++ {
				rec(append(append([]int{}, pre...), k), depth+1)
			}
		}
		rec(nil, 0)
	}
	g.Exhaust = append(g.Exhaust, "FromStrs / ToStrs: all lists of length 0..3 over four strings / four word lists (empty, one word, all-ones, partial last byte) x 4 widths")
}

func c08Wide(g *Gen) {
	// FromStr keeps the order: all pairs of strings of length <= 2 over the 7-byte alphabet
	// (thorough; quick: length <= 1 plus a sample) and random pairs sharing a prefix
	cmp := func(n int, a, b []byte, bucket string) {
		g.Stat(bucket)
		key := ""
		if len(a) > 0 && len(b) > 0 {
			c := bytes.Compare(a, b)
			rel := "eq"
			if len(a) < len(b) {
				rel = "shorter"
			} else if len(a) > len(b) {
				rel = "longer"
			}
			key = fmt.Sprintf("cmp/n%d/%d/%s/high%v%v", n, c, rel, c08HasHigh(a), c08HasHigh(b))
		}
		g.Do("bitword.FromStr/cmp", L(Int(n), Bytes(a), Bytes(b)), key)
	}
	strs1 := c08AllStrings(c08Alpha, 1)
	strs2 := c08AllStrings(c08Alpha, 2)
	for _, n := range c08Widths {
		for _, a := range strs1 {
			for _, b := range strs1 {
				cmp(n, a, b, "exh-cmp")
			}
		}
		k := 0
		for _, a := range strs2 {
			for _, b := range strs2 {
				k++
				if g.Thorough || k%8 == 0 {
					cmp(n, a, b, "exh-cmp2")
				}
			}
		}
	}
	g.Exhaust = append(g.Exhaust, "FromStr/cmp: all pairs of strings of length 0..1 over the 7-byte alphabet x 4 widths")
	for q := 0; q < g.N(600, 15000); q++ {
		n := c08Widths[g.R.Intn(4)]
		al := alphabets[g.R.Intn(len(alphabets))]
		pre := g.R.Bytes(g.R.Range(0, 10), al)
		a := append(append([]byte{}, pre...), g.R.Bytes(g.R.Range(0, 4), al)...)
		b := append(append([]byte{}, pre...), g.R.Bytes(g.R.Range(0, 4), al)...)
		if g.R.Intn(4) == 0 && len(a) > 0 { // one flipped bit
			b = append([]byte{}, a...)
			p := g.R.Intn(len(b) * 8)
			b[p/8] ^= 0x80 >> uint(p%8)
		}
		cmp(n, a, b, "rand-cmp")
	}

	if os.Getenv("VERIF_C08_WIDE") != "1" {
		return
	}
	// ---- outside the domain of the C08 statement (only on request)
	for _, n := range c08Widths {
		m := 8 / n
		for _, s := range c08AllStrings([]byte{0x00, 0xa5, 0xff}, 2) {
			words := len(s) * m
			for i := -m - 2; i <= words+m+1; i++ {
				g.Stat("wide-get")
				g.Do("bitword.Get/any", L(Int(n), Bytes(s), Int(i)), fmt.Sprintf("wide/get/n%d/neg%v/in%v", n, i < 0, i >= 0 && i < words))
			}
			for _, t := range c08AllStrings([]byte{0x00, 0xa5}, 1) {
				for from := -3; from <= words+1; from++ {
					for end := -3; end <= words+2; end++ {
						g.Stat("wide-firstdiff")
						g.Do("bitword.FirstDiff/any", L(Int(n), Bytes(s), Bytes(t), Int(from), Int(end)),
							fmt.Sprintf("wide/fd/n%d/fromneg%v/end%d", n, from < 0, c08sgn(end+1)))
					}
				}
			}
		}
	}
	for q := 0; q < g.N(1500, 20000); q++ {
		n := c08Widths[g.R.Intn(4)]
		m := 8 / n
		ws := g.R.Bytes(g.R.Range(0, 3*m+1), alphabets[g.R.Intn(len(alphabets))])
		g.Stat("wide-tostr")
		g.Do("bitword.ToStr/any", L(Int(n), Bytes(ws)), fmt.Sprintf("wide/to/n%d/partial%d", n, len(ws)%m))
	}
}

func c08sgn(x int) int {
	switch {
	case x < 0:
		return -1
	case x > 0:
		return 1
	}
	return 0
}

// c08Hist: histories and batches (the functions are pure; the executors create the situations in which
// hidden sharing, a work split by GOMAXPROCS or a write into the caller's buffer would show).
func c08Hist(g *Gen) {
	pairs := func(ps [][2]int) string {
		xs := make([]string, len(ps))
		for i, p := range ps {
			xs[i] = L(Int(p[0]), Int(p[1]))
		}
		return L(xs...)
	}
	// ---- scribble sessions: all 256 byte values x 4 widths
	for _, n := range c08Widths {
		var one, probes []string
		for b := 0; b < 256; b++ {
			one = append(one, Bytes([]byte{byte(b)}))
		}
		probes = append(probes, one...)
		for b := 0; b < 256; b += 3 {
			probes = append(probes, Bytes([]byte{byte(b), byte(b + 1), byte(b + 2)}))
		}
		probes = append(probes, Bytes(nil))
		g.Stat("hist-scribble")
		g.Do("bitword.Session/scribble", L(Int(n), L(one...), L(probes...)), fmt.Sprintf("scribble/n%d/1byte", n))
		// longer strings scribbled, then the same strings, their single bytes and fresh strings probed
		for q := 0; q < g.N(3, 40); q++ {
			var scr, prb []string
			for k := 0; k < 12; k++ {
				s := g.R.Bytes(g.R.Range(0, 5), alphabets[g.R.Intn(len(alphabets))])
				scr = append(scr, Bytes(s))
				prb = append(prb, Bytes(s))
				for _, c := range s {
					if g.R.Intn(2) == 0 {
						prb = append(prb, Bytes([]byte{c}))
					}
				}
				prb = append(prb, Bytes(g.R.Bytes(g.R.Range(1, 4), nil)))
			}
			g.Stat("hist-scribble")
			g.Do("bitword.Session/scribble", L(Int(n), L(scr...), L(prb...)), fmt.Sprintf("scribble/n%d/mixed", n))
		}
	}
	g.Exhaust = append(g.Exhaust, "Session/scribble: FromStr of all 256 one-byte strings x 4 widths, every returned slice overwritten by the caller, then FromStr / Get at every index / ToStr(FromStr) of all one-byte strings and of 86 three-byte strings covering all byte values")

	// ---- big batches (>= 4096 elements; sizes not divisible by 3, 33, 97 or 16), compact arguments
	sizes := []int{4097, 4103, 4999, 5000}
	for wi, n := range c08Widths {
		m := 8 / n
		mx := byte(1<<uint(n) - 1)
		// ToStrs: word lists up to 3 bytes + a partial byte; the last run is a non-empty element
		var al []string
		for k := 0; k < 6; k++ {
			ws := make([]byte, g.R.Range(1, 3*m+m/2+1))
			for i := range ws {
				ws[i] = byte(g.R.Intn(int(mx) + 1))
			}
			ws[len(ws)-1] = mx
			al = append(al, Bytes(ws))
		}
		al = append(al, Bytes(nil))
		for t := 0; t < 2; t++ {
			size := sizes[(wi+2*t)%len(sizes)]
			var runs [][2]int
			left := size - 150
			for left > 0 {
				r := g.R.Range(1, 300)
				if r > left {
					r = left
				}
				runs = append(runs, [2]int{g.R.Intn(len(al)), r})
				left -= r
			}
			runs = append(runs, [2]int{g.R.Intn(6), 150})
			g.Stat("hist-batch")
			g.Do("bitword.ToStrs/batch", L(Int(n), L(al...), pairs(runs)), fmt.Sprintf("batch/to/n%d/size%d", n, size))
		}
		// FromStrs
		var sl []string
		for k := 0; k < 6; k++ {
			sl = append(sl, Bytes(g.R.Bytes(g.R.Range(1, 3), nil)))
		}
		sl = append(sl, Bytes(nil))
		size := sizes[(wi+1)%len(sizes)]
		var runs [][2]int
		left := size - 150
		for left > 0 {
			r := g.R.Range(1, 300)
			if r > left {
				r = left
			}
			runs = append(runs, [2]int{g.R.Intn(len(sl)), r})
			left -= r
		}
		runs = append(runs, [2]int{g.R.Intn(6), 150})
		g.Stat("hist-batch")
		g.Do("bitword.FromStrs/batch", L(Int(n), L(sl...), pairs(runs)), fmt.Sprintf("batch/from/n%d/size%d", n, size))
		// small batches through the same ops (the compact form itself)
		g.Do("bitword.ToStrs/batch", L(Int(n), L(al...), pairs([][2]int{{6, 2}, {0, 1}, {1, 3}, {6, 0}})), fmt.Sprintf("batch/to/n%d/small", n))
		g.Do("bitword.FromStrs/batch", L(Int(n), L(sl...), pairs([][2]int{{6, 2}, {0, 1}, {1, 3}})), fmt.Sprintf("batch/from/n%d/small", n))
	}

	// ---- ToStrs over windows of one flat buffer
	for _, n := range c08Widths {
		m := 8 / n
		mx := byte(1<<uint(n) - 1)
		// exhaustive: a buffer of 2m+1 all-ones words cut at every pair of split points
		ln := 2*m + 1
		flat := make([]byte, ln)
		for i := range flat {
			flat[i] = mx
		}
		for k1 := 0; k1 <= ln; k1++ {
			for k2 := k1; k2 <= ln; k2++ {
				g.Stat("hist-flat-exh")
				g.Do("bitword.ToStrs/flat", L(Int(n), Bytes(flat), pairs([][2]int{{0, k1}, {k1, k2}, {k2, ln}})),
					fmt.Sprintf("flat/n%d/adj/r%d/r%d", n, k1%m, (k2-k1)%m))
			}
			// a prefix, then the whole buffer
			g.Do("bitword.ToStrs/flat", L(Int(n), Bytes(flat), pairs([][2]int{{0, k1}, {0, ln}})), fmt.Sprintf("flat/n%d/prefix/r%d", n, k1%m))
		}
		for q := 0; q < g.N(60, 3000); q++ {
			ln := g.R.Range(1, 40)
			flat := make([]byte, ln)
			for i := range flat {
				flat[i] = byte(g.R.Intn(int(mx)+1)) | byte(g.R.Intn(2))
			}
			var wins [][2]int
			partial := 0
			if g.R.Intn(2) == 0 { // adjacent partition
				lo := 0
				for lo < ln {
					hi := lo + g.R.Range(0, 2*m+1)
					if hi > ln {
						hi = ln
					}
					wins = append(wins, [2]int{lo, hi})
					if (hi-lo)%m != 0 {
						partial++
					}
					lo = hi
					if len(wins) > 12 {
						break
					}
				}
			} else { // overlapping
				for k := g.R.Range(1, 5); k > 0; k-- {
					lo := g.R.Intn(ln + 1)
					hi := g.R.Range(lo, ln)
					wins = append(wins, [2]int{lo, hi})
					if (hi-lo)%m != 0 {
						partial++
					}
				}
			}
			g.Stat("hist-flat")
			g.Do("bitword.ToStrs/flat", L(Int(n), Bytes(flat), pairs(wins)), fmt.Sprintf("flat/n%d/rand/partial%v", n, partial > 0))
		}
	}
	g.Exhaust = append(g.Exhaust, "ToStrs/flat: a buffer of 2*(8/n)+1 all-ones words cut into three adjacent windows at every pair of split points, and every prefix followed by the whole buffer, x 4 widths")
}

// c08Alias: arguments that share memory (b = a[:k]) and word buffers the caller reuses after the call.
func c08Alias(g *Gen) {
	for _, n := range c08Widths {
		m := 8 / n
		mx := byte(1<<uint(n) - 1)
		var strs [][]byte
		strs = append(strs, []byte{}, []byte{0x00}, []byte{0xff}, []byte{'a', 'b', 'c'})
		for q := 0; q < g.N(16, 200); q++ {
			strs = append(strs, g.R.Bytes(g.R.Range(1, 6), alphabets[g.R.Intn(len(alphabets))]))
		}
		for _, s := range strs {
			la := len(s) * m
			for k := 0; k <= len(s); k++ {
				lb := k * m
				ends := []int{-1, la + 3, la, lb, lb + 1, g.R.Intn(la + 1)}
				for _, end := range ends {
					for _, from := range []int{0, g.R.Intn(lb + 2)} {
						g.Stat("alias-firstdiff")
						ec := "in"
						switch {
						case end == -1:
							ec = "-1"
						case end > la:
							ec = "beyond-a"
						case end > lb:
							ec = "beyond-b"
						}
						g.Do("bitword.FirstDiff/alias", L(Int(n), Bytes(s), Int(k), Int(from), Int(end)),
							fmt.Sprintf("alias/fd/n%d/k0:%v/kfull:%v/end%s/from0:%v", n, k == 0, k == len(s), ec, from == 0))
					}
				}
			}
		}
		for q := 0; q < g.N(40, 1500); q++ {
			cnt := g.R.Range(1, 6)
			wss := make([]string, cnt)
			partial := false
			for i := range wss {
				ws := make([]byte, g.R.Range(1, 3*m+1))
				for j := range ws {
					ws[j] = byte(g.R.Intn(int(mx) + 1))
				}
				ws[0] = mx
				if len(ws)%m != 0 {
					partial = true
				}
				wss[i] = Bytes(ws)
			}
			g.Stat("hist-reuse")
			g.Do("bitword.Session/reuse", L(Int(n), L(wss...)), fmt.Sprintf("reuse/n%d/cnt%d/partial%v", n, cnt, partial))
		}
	}
}
