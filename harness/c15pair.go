package main

import (
	"fmt"
	"strings"

	"github.com/openacid/low/bitmap"
)

// C15: two TailBitmaps alive in ONE process, calls interleaved (hidden state
// shared between objects: package-level buffers, pools, a common backing array).
//
//	op    bitmap.TailBitmap/pair   args [oA, oB, [[which, call], ...]]   which: 0 = A, 1 = B
//	obs   one [Offset, Words, result] of the CALLED object per call
func init() {
	Exec["bitmap.TailBitmap/pair"] = func(a []V) string {
		tbs := [2]*bitmap.TailBitmap{bitmap.NewTailBitmap(a[0].I64()), bitmap.NewTailBitmap(a[1].I64())}
		out := make([]string, 0, len(a[2].L))
		for _, c := range a[2].L {
			out = append(out, c15Apply(tbs[c.L[0].Int()], []V{c.L[1]})...)
		}
		return L(out...)
	}
}

// c15Pair interleaves two property-level trackers into one call list.
type c15Pair struct {
	h     [2]*c15Hist
	calls []string
}

func c15NewPair(oa, ob int64) *c15Pair {
	return &c15Pair{h: [2]*c15Hist{c15New(oa), c15New(ob)}}
}

// do runs f on tracker w and moves the calls it produced into the interleaved list.
func (p *c15Pair) do(w int, f func(h *c15Hist)) {
	h := p.h[w]
	n := len(h.calls)
	f(h)
	for _, c := range h.calls[n:] {
		p.calls = append(p.calls, L(Int(w), c))
	}
}

func (p *c15Pair) probeBoth(g *Gen, last [2]int64) {
	for w := 0; w < 2; w++ {
		w := w
		p.do(w, func(h *c15Hist) {
			h.Probe(3, last[w])
			h.Probe(2, last[w])
			h.Probe(3, last[w]+1)
			h.Probe(3, h.end-1)
			h.randomProbes(g, last[w], 2)
		})
	}
}

func (p *c15Pair) emit(g *Gen, bucket string) {
	key := ""
	a, b := p.h[0], p.h[1]
	if a.probeMask&6 == 6 && b.probeMask&6 == 6 {
		t := 0
		if a.thr && b.thr {
			t = 1
		}
		key = fmt.Sprintf("pair/%s/wA%s/wB%s/thr%d", bucket, c15Bucket(int(a.maxWords)), c15Bucket(int(b.maxWords)), t)
	}
	g.Stat("pair-" + bucket)
	g.Do("bitmap.TailBitmap/pair", L(I(a.o), I(b.o), "["+strings.Join(p.calls, ",")+"]"), key)
}

func genC15Pair(g *Gen) {
	// (P1) both objects are filled in order across the 1024-word reclaim threshold (the tail is EMPTY
	// when the reclaim branch runs), then Sets and probes alternate between them: every stored word of
	// one object is re-read after the other one has grown.
	for _, os := range [][2]int64{{0, 0}, {0, 64 * 5}, {64 * 2000, 64}} {
		for variant := 0; variant < 3; variant++ {
			p := c15NewPair(os[0], os[1])
			for w := 0; w < 2; w++ {
				o := os[w]
				switch variant {
				case 0:
					p.do(w, func(h *c15Hist) { h.Up(o, o+65536) })
				case 1:
					p.do(w, func(h *c15Hist) { h.Up(o, o+65535); h.Set(o + 65535) })
				default:
					p.do(w, func(h *c15Hist) { h.Up(o, o+65536+64*3) })
				}
			}
			var last [2]int64
			for q := 0; q < 12; q++ {
				for w := 0; w < 2; w++ {
					w := w
					p.do(w, func(h *c15Hist) {
						last[w] = h.offset() + int64(g.R.Intn(64*4))
						if q == 0 {
							last[w] = h.offset() + 3 + int64(70*w) // A: word 0, B: word 1
						}
						h.Set(last[w])
					})
				}
				p.probeBoth(g, last)
			}
			p.emit(g, "threshold-both")
		}
	}
	// (P2) random interleavings of two ordinary histories (before any threshold)
	nh := g.N(150, 3000)
	for k := 0; k < nh; k++ {
		oa := int64(64 * g.R.Pick(0, 0, 1, 10, 1<<20, -1, -3))
		ob := int64(64 * g.R.Pick(0, 0, 1, 10, 1<<20, -1, -3))
		p := c15NewPair(oa, ob)
		n := g.R.Range(2, 40)
		var last [2]int64
		last[0], last[1] = oa, ob
		for m := 0; m < n; m++ {
			w := g.R.Intn(2)
			p.do(w, func(h *c15Hist) {
				switch g.R.Intn(8) {
				case 0:
					h.Compact()
				case 1:
					x := h.offset() + 64*int64(g.R.Intn(3))
					h.Up(x, x+64)
					last[w] = x + 63
				case 2:
					last[w] = h.first
					h.Set(last[w])
				default:
					last[w] = h.offset() - 10 + int64(g.R.Intn(64*4+10))
					h.Set(last[w])
				}
				h.randomProbes(g, last[w], g.R.Pick(0, 1, 2))
			})
			if g.R.Intn(3) == 0 {
				p.do(1-w, func(h *c15Hist) { h.randomProbes(g, last[1-w], 2) })
			}
		}
		p.emit(g, "rand")
	}
}
