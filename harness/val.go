package main

import (
	"encoding/hex"
	"strconv"
	"strings"
)

// Builders for the val text syntax (see driver/driver.ml).

func I(x int64) string   { return strconv.FormatInt(x, 10) }
func Int(x int) string   { return strconv.Itoa(x) }
func I32(x int32) string { return strconv.FormatInt(int64(x), 10) }
func U(x uint64) string  { return "0x" + strconv.FormatUint(x, 16) }
func B(b bool) string {
	if b {
		return "1"
	}
	return "0"
}
func L(xs ...string) string { return "[" + strings.Join(xs, ",") + "]" }
func Bytes(b []byte) string { return "x" + hex.EncodeToString(b) }
func Str(s string) string   { return "x" + hex.EncodeToString([]byte(s)) }

func U64s(ws []uint64) string {
	xs := make([]string, len(ws))
	for i, w := range ws {
		xs[i] = U(w)
	}
	return L(xs...)
}
func I32s(ws []int32) string {
	xs := make([]string, len(ws))
	for i, w := range ws {
		xs[i] = I32(w)
	}
	return L(xs...)
}
func I64s(ws []int64) string {
	xs := make([]string, len(ws))
	for i, w := range ws {
		xs[i] = I(w)
	}
	return L(xs...)
}
func Ints(ws []int) string {
	xs := make([]string, len(ws))
	for i, w := range ws {
		xs[i] = Int(w)
	}
	return L(xs...)
}
func Strs(ss []string) string {
	xs := make([]string, len(ss))
	for i, s := range ss {
		xs[i] = Str(s)
	}
	return L(xs...)
}
func ByteSlices(ss [][]byte) string {
	xs := make([]string, len(ss))
	for i, s := range ss {
		xs[i] = Bytes(s)
	}
	return L(xs...)
}

const Panic = "P"
