module verif/harness

go 1.14

require (
	github.com/golang/protobuf v1.4.2
	github.com/openacid/errors v0.8.1
	github.com/openacid/low v0.0.0
)

replace github.com/openacid/low => /repo
