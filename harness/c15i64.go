package main

import (
	"fmt"
	"math"
	"strings"

	"github.com/openacid/low/bitmap"
)

// C15 widened (3): the history protocol with offsets and indices near the ends
// of the int64 range (judged against the int64 model, Model/TailBitmapI64.v).
//
//	op    bitmap.TailBitmap/int64   args [o, [call, ...]]
//
// Domain: Set indices <= MaxInt64-64 (the last word [2^63-64, 2^63) is never
// stored: completing it wraps Offset, Properties/C15.v C15_int64_top_word_refuted),
// bulk ranges inside (MinInt64, MaxInt64-63].
func init() {
	Exec["bitmap.TailBitmap/int64"] = func(a []V) string {
		tb := bitmap.NewTailBitmap(a[0].I64())
		return L(c15Apply(tb, a[1].L)...)
	}
}

func genC15Int64(g *Gen) {
	const top = int64(math.MaxInt64 - 64) // highest index Set may take
	emit := func(h *c15Hist, bucket string) {
		key := ""
		if h.adv > 0 && h.probeMask&6 == 6 {
			key = fmt.Sprintf("i64/%s/w%s/cmp%d/bulk%d", bucket, c15Bucket(int(h.maxWords)), minInt(h.compacts, 1), minInt(h.bulk, 1))
		}
		g.Stat("int64-" + bucket)
		g.Do("bitmap.TailBitmap/int64", L(I(h.o), "["+strings.Join(h.calls, ",")+"]"), key)
	}
	probe := func(h *c15Hist, kind int, j int64) {
		if j >= h.end {
			return
		}
		switch {
		case j < h.offset():
			h.probeMask |= 1
		case h.set[j]:
			h.probeMask |= 2
		default:
			h.probeMask |= 4
		}
		h.calls = append(h.calls, L(Int(kind), I(j)))
	}
	probes := func(h *c15Hist, last int64) {
		pts := []int64{last, last - 1, last ^ 63, h.offset(), h.first, h.end - 1, h.end - 64, h.o, math.MinInt64, math.MinInt64 + 1, -1, 0, 63, math.MaxInt64 - 64, math.MaxInt64 - 65, math.MaxInt64 - 128}
		if last < math.MaxInt64 {
			pts = append(pts, last+1)
		}
		if h.o > math.MinInt64 {
			pts = append(pts, h.o-1)
		}
		n := g.R.Pick(1, 2, 3)
		for k := 0; k < n; k++ {
			probe(h, 2+g.R.Intn(2), pts[g.R.Intn(len(pts))])
		}
	}
	nh := g.N(300, 6000)
	for k := 0; k < nh; k++ {
		var o int64
		bucket := "top"
		if g.R.Bool() {
			// 1..6 words below the last word of the range
			o = math.MaxInt64 - 63 - 64*int64(g.R.Range(1, 6))
		} else {
			bucket = "bottom"
			o = math.MinInt64 + 64*int64(g.R.Pick(0, 0, 1, 2, 5))
		}
		h := c15New(o)
		hi := top // highest settable index
		if bucket == "bottom" {
			hi = o + 64*6 - 1
		}
		nmut := g.R.Range(1, 40)
		for m := 0; m < nmut; m++ {
			var last int64
			switch g.R.Intn(8) {
			case 0:
				h.Compact()
				last = h.first
			case 1:
				// the first unset position: drives compaction word by word towards the end of the range
				last = h.first
				if last > hi {
					last = hi
				}
				h.Set(last)
			case 2:
				// a whole word, ascending or descending
				w := h.offset() + 64*int64(g.R.Intn(3))
				if w > hi-63 || w < o {
					w = o
				}
				if w == math.MinInt64 || g.R.Bool() {
					h.Up(w, w+64)
				} else {
					h.Down(w, w+64)
				}
				last = w + 63
			case 3:
				// below the offset (ignored), down to MinInt64
				if h.offset() > math.MinInt64 {
					last = h.offset() - 1 - int64(g.R.Intn(100))
					if last > h.offset() { // wrapped
						last = math.MinInt64
					}
					if g.R.Intn(4) == 0 {
						last = math.MinInt64
					}
					h.Set(last)
				} else {
					last = o
					h.Set(o)
				}
			default:
				span := uint64(hi-o) + 1
				last = o + int64(g.R.U64()%span)
				if g.R.Intn(3) == 0 {
					last = last&^63 | int64(g.R.Pick(0, 1, 31, 32, 62, 63))
					if last > hi {
						last = hi
					}
					if last < o {
						last = o
					}
				}
				h.Set(last)
			}
			probes(h, last)
		}
		emit(h, bucket)
	}
	// deterministic: fill everything up to the last word of the range, in order and back to front
	for _, nw := range []int64{1, 2, 5} {
		for variant := 0; variant < 2; variant++ {
			o := math.MaxInt64 - 63 - 64*nw
			h := c15New(o)
			if variant == 0 {
				h.Up(o, o+64*nw)
			} else {
				h.Down(o, o+64*nw)
			}
			probe(h, 3, top)
			probe(h, 2, top)
			probe(h, 3, o)
			probe(h, 3, math.MinInt64)
			probe(h, 2, math.MinInt64)
			h.Compact()
			h.Set(top) // already set; Offset is now the start of the last word and Words is empty
			probe(h, 3, top)
			emit(h, "top")
		}
	}
	o := int64(math.MinInt64)
	h := c15New(o)
	h.Up(o, o+64*3)
	probe(h, 3, o)
	probe(h, 2, o+64*3-1)
	h.Set(o + 64*3 + 7)
	probe(h, 3, o+64*3+7)
	probe(h, 3, o+64*3+6)
	probe(h, 2, math.MinInt64)
	emit(h, "bottom")
}
