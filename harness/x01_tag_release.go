//go:build !debug
// +build !debug

package main

const x01Debug = false
