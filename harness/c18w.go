package main

import (
	"fmt"
	"io"
	"math"
	"strings"

	"github.com/openacid/low/iohelper"
)

// C18 widening: the rest of package iohelper (AtToReader) and the way its
// users combine it with AtToWriter / SectionWriter over one file.
//
//	iohelper.AtToReader  [file, off, [len...], [resp...]]
//	    AtToReader(memfile, off); Read(make([]byte, len)) for every len
//	    obs per Read: [n, error class, p[:n], [[absolute offset, len asked]...]]
//	iohelper.File        [init, off, n, [call...], [wresp...], roff, [len...], [rresp...]]
//	    NewSectionWriter(memfile, off, n) (n = -1: AtToWriter(memfile, off)), the calls,
//	    then AtToReader(memfile, roff) and the Reads
//	    obs: [[per call, as iohelper.SectionWriter], file content, [per Read]]
//
// c18File is the in-memory file (io.WriterAt + io.ReaderAt) modelled by
// coq/theories/Model/MemFile.v.
const c18FileLimit = 1 << 20

type c18File struct {
	data             []byte
	wscript, rscript []V
	wi, ri           int
	wcalls, rcalls   []string
}

func c18Err(e int) error {
	switch e {
	case 0:
		return nil
	case 1:
		return io.ErrShortWrite
	case 5:
		return io.EOF
	default:
		return c18ErrUnder
	}
}

func (m *c18File) WriteAt(p []byte, off int64) (int, error) {
	m.wcalls = append(m.wcalls, L(I(off), Bytes(p)))
	n, e := len(p), 0
	if m.wi < len(m.wscript) {
		r := m.wscript[m.wi].L
		m.wi++
		if k := r[0].I64(); k < int64(n) {
			n = int(k)
		}
		e = r[1].Int()
	}
	if n > 0 {
		if off < 0 || off > c18FileLimit || off+int64(n) > c18FileLimit {
			panic("c18File: write outside the file limit")
		}
		end := int(off) + n
		if end > len(m.data) {
			m.data = append(m.data, make([]byte, end-len(m.data))...)
		}
		copy(m.data[off:], p[:n])
	}
	return n, c18Err(e)
}

func (m *c18File) ReadAt(p []byte, off int64) (int, error) {
	m.rcalls = append(m.rcalls, L(I(off), Int(len(p))))
	var got []byte
	if off >= 0 && off < int64(len(m.data)) {
		got = m.data[off:]
	}
	if len(got) > len(p) {
		got = got[:len(p)]
	}
	if m.ri < len(m.rscript) {
		r := m.rscript[m.ri].L
		m.ri++
		if k := r[0].I64(); k < int64(len(got)) {
			got = got[:k]
		}
		return copy(p, got), c18Err(r[1].Int())
	}
	n := copy(p, got)
	if n < len(p) {
		return n, io.EOF
	}
	return n, nil
}

func c18Reads(m *c18File, r io.Reader, lens []int64) string {
	out := make([]string, 0, len(lens))
	for _, l := range lens {
		m.rcalls = m.rcalls[:0]
		p := make([]byte, l)
		for i := range p {
			p[i] = 0xEE // bytes beyond n are never observed
		}
		n, err := r.Read(p)
		out = append(out, L(Int(n), Int(c18ErrClass(err)), Bytes(p[:n]), L(m.rcalls...)))
	}
	return L(out...)
}

func init() {
	Exec["iohelper.AtToReader"] = func(a []V) string {
		m := &c18File{data: append([]byte(nil), a[0].Bytes()...), rscript: a[3].L}
		return c18Reads(m, iohelper.AtToReader(m, a[1].I64()), a[2].I64s())
	}
	Exec["iohelper.File"] = func(a []V) string {
		m := &c18File{data: append([]byte(nil), a[0].Bytes()...), wscript: a[4].L, rscript: a[7].L}
		var s c18Section
		if n := a[2].I64(); n == -1 {
			s = iohelper.AtToWriter(m, a[1].I64()).(c18Section)
		} else {
			s = iohelper.NewSectionWriter(m, a[1].I64(), n)
		}
		// the section writer runs over a c18Mock-compatible recorder: reuse c18Run through an adapter
		calls := c18RunFile(m, s, a[3].L)
		file := Bytes(m.data)
		reads := c18Reads(m, iohelper.AtToReader(m, a[5].I64()), a[6].I64s())
		return L(calls, file, reads)
	}
	Exec["iohelper.TwoSections"] = func(a []V) string {
		m := &c18File{data: append([]byte(nil), a[0].Bytes()...), wscript: a[6].L}
		ws := [2]c18Section{
			iohelper.NewSectionWriter(m, a[1].I64(), a[2].I64()),
			iohelper.NewSectionWriter(m, a[3].I64(), a[4].I64()),
		}
		out := make([]string, 0, len(a[5].L))
		for _, wc := range a[5].L {
			m.wcalls = m.wcalls[:0]
			rets := c18Call(ws[wc.L[0].Int()], wc.L[1])
			out = append(out, L(rets, L(m.wcalls...)))
		}
		return L(L(out...), Bytes(m.data))
	}
}

// c18Call runs one call of the protocol on s and renders its return values.
func c18Call(s c18Section, c V) string {
	switch c.L[0].Int() {
	case 0:
		n, err := s.Write(c.L[1].Bytes())
		return L(Int(n), Int(c18ErrClass(err)))
	case 1:
		n, err := s.WriteAt(c.L[1].Bytes(), c.L[2].I64())
		return L(Int(n), Int(c18ErrClass(err)))
	case 2:
		p, err := s.Seek(c.L[1].I64(), c.L[2].Int())
		return L(I(p), Int(c18ErrClass(err)))
	case 3:
		return L(I(s.Size()))
	}
	panic("bad call")
}

// c18RunFile is c18Run with the file as the recorder of underlying calls.
func c18RunFile(m *c18File, s c18Section, calls []V) string {
	out := make([]string, 0, len(calls))
	for _, c := range calls {
		m.wcalls = m.wcalls[:0]
		rets := c18Call(s, c)
		out = append(out, L(rets, L(m.wcalls...)))
	}
	return L(out...)
}

// c18Data: n bytes, a running counter starting at start (never 0, so that
// zero-filled gaps are distinguishable from data)
func c18Data(n int, start byte) []byte {
	b := make([]byte, n)
	for i := range b {
		b[i] = byte(1 + (int(start)+i)%255)
	}
	return b
}

func c18Resps(rs [][2]int64) string {
	xs := make([]string, len(rs))
	for i, r := range rs {
		xs[i] = L(I(r[0]), I(r[1]))
	}
	return L(xs...)
}

// c18ReadKey follows the PROPERTY's stream reader (position, file length) to
// compute the shape events of a read sequence.
func c18ReadKey(flen, off int64, lens []int64, rs [][2]int64, ev map[string]bool) (delivered int64) {
	const maxI = math.MaxInt64
	pos := int64(0)
	ri := 0
	for _, l := range lens {
		a, ok := c18Add(off, pos)
		if !ok || a >= maxI {
			ev["rL"] = true // at the int64 end: EOF without consulting the file
			continue
		}
		m := l
		if maxI-a < m {
			m = maxI - a
			ev["rT"] = true // request truncated by the int64 end
		}
		avail := int64(0)
		if a < flen {
			avail = flen - a
		} else {
			ev["rB"] = true // starts at or beyond the end of the file
		}
		got := m
		if avail < got {
			got = avail
			ev["rE"] = true // hits the end of the file
		} else if avail == got && got > 0 {
			ev["rX"] = true // ends exactly at the end of the file
		}
		if l == 0 {
			ev["rZ"] = true
		}
		if ri < len(rs) {
			if rs[ri][0] < got {
				got = rs[ri][0]
				ev["rF"] = true // short delivery
			}
			if rs[ri][1] != 0 {
				ev["rR"] = true // error from the file
			}
			ri++
		}
		if got > 0 && pos > 0 {
			ev["rC"] = true // data delivered after the position moved
		}
		pos += got
		delivered += got
	}
	return
}

func c18EvKey(ev map[string]bool, order []string) string {
	var sb strings.Builder
	for _, f := range order {
		if ev[f] {
			sb.WriteString(f)
		}
	}
	return sb.String()
}

var c18ReadEvs = []string{"rL", "rT", "rB", "rE", "rX", "rZ", "rF", "rR", "rC"}

func genC18Wide(g *Gen) {
	const maxI = math.MaxInt64

	// ---- iohelper.AtToReader ----
	emitReader := func(data []byte, off int64, lens []int64, rs [][2]int64, bucket string) {
		ev := map[string]bool{}
		del := c18ReadKey(int64(len(data)), off, lens, rs, ev)
		key := ""
		if del > 0 && ev["rC"] { // non-trivial: data was delivered by a Read issued after the position had moved
			key = "rd/" + c18EvKey(ev, c18ReadEvs)
		}
		g.Stat(bucket)
		g.Do("iohelper.AtToReader", L(Bytes(data), I(off), I64s(lens), c18Resps(rs)), key)
	}
	// exhaustive: files of 0..4 bytes, every offset 0..5, every pair of read lengths 0..5,
	// first read answered normally / short 1 with nil / short 1 with error / 0 with EOF
	for fl := 0; fl <= 4; fl++ {
		for off := int64(0); off <= 5; off++ {
			for l1 := int64(0); l1 <= 5; l1++ {
				for l2 := int64(0); l2 <= 5; l2++ {
					for _, rs := range [][][2]int64{nil, {{1, 0}}, {{1, 2}}, {{0, 5}}} {
						emitReader(c18Data(fl, 0), off, []int64{l1, l2, 3}, rs, "reader-exh")
					}
				}
			}
		}
	}
	g.Exhaust = append(g.Exhaust, "AtToReader: files of 0..4 bytes x offset 0..5 x read lengths (l1, l2, 3) with l1, l2 in 0..5 x first ReadAt answered normally / 1 byte + nil / 1 byte + error / 0 bytes + EOF")
	// the int64 end: offsets maxI-3..maxI with small reads (the file is empty there)
	for d := int64(0); d <= 3; d++ {
		for l := int64(0); l <= 4; l++ {
			emitReader(c18Data(3, 0), maxI-d, []int64{l, 2}, nil, "reader-int64-end")
			emitReader(c18Data(3, 0), maxI-d, []int64{l, 2}, [][2]int64{{0, 0}, {0, 2}}, "reader-int64-end")
		}
	}
	nr := g.N(3000, 40000)
	for k := 0; k < nr; k++ {
		fl := g.R.Pick(0, 1, 2, 7, 8, 63, 64, 65, 100, 255, 256, 257, 300)
		if g.R.Intn(4) == 0 {
			fl = g.R.Range(0, 1200)
		}
		data := c18Data(fl, byte(g.R.Intn(200)))
		var off int64
		switch g.R.Intn(8) {
		case 0:
			off = 0
		case 1:
			off = int64(fl)
		case 2:
			off = int64(fl) + int64(g.R.Range(1, 5))
		case 3:
			off = maxI - int64(g.R.Intn(6))
		case 4:
			off = int64(1)<<uint(g.R.Range(31, 62)) - int64(g.R.Intn(2))
		default:
			off = int64(g.R.Intn(fl + 1))
		}
		nl := g.R.Range(1, 12)
		var lens []int64
		var rs [][2]int64
		fmode := g.R.Pick(0, 0, 0, 1, 2)
		rem := int64(fl) - off
		for c := 0; c < nl; c++ {
			var l int64
			switch g.R.Intn(8) {
			case 0:
				l = 0
			case 1:
				l = rem
			case 2:
				l = rem - 1
			case 3:
				l = rem + 1
			case 4:
				l = int64(g.R.Pick(64, 255, 256, 257, 1024, 4096))
			default:
				l = int64(g.R.Range(1, 40))
			}
			if l < 0 {
				l = int64(g.R.Intn(4))
			}
			if l > 5000 {
				l = 5000
			}
			lens = append(lens, l)
			switch {
			case fmode == 0:
			case fmode == 1 && g.R.Intn(4) != 0:
				rs = append(rs, [2]int64{100000, 0})
			default:
				rs = append(rs, [2]int64{int64(g.R.Pick(0, 0, 1, 2, 5, 100000)), int64(g.R.Pick(0, 0, 2, 5))})
			}
			// follow the property's position only roughly (aims lengths at the file end)
			if fmode == 0 && rem > 0 {
				if l < rem {
					rem -= l
				} else {
					rem = 0
				}
			}
		}
		emitReader(data, off, lens, rs, fmt.Sprintf("reader-rand-f%d", fmode))
	}

	// a few large files (crossing 64 KiB), read in chunks around 4 KiB / 64 KiB and to the end
	for k, nk := 0, g.N(3, 40); k < nk; k++ {
		fl := 65536 + g.R.Range(1, 5000)
		off := int64(g.R.Pick(0, 1, 4095, 4096))
		chunk := int64(g.R.Pick(4095, 4096, 4097, 65535, 65536, 65537))
		var lens []int64
		for got := int64(0); got < int64(fl)-off+chunk; got += chunk {
			lens = append(lens, chunk)
		}
		emitReader(c18Data(fl, byte(k)), off, lens, nil, "reader-large")
	}

	// ---- iohelper.File ----
	fileEvs := []string{"G", "X", "I", "T", "E", "F", "A", "R", "S0", "S1", "S2", "B"}
	emitFile := func(h *c18Hist, at bool, init []byte, roff int64, lens []int64, rs [][2]int64, fev map[string]bool, flen int64, stored int64, bucket string) {
		ev := map[string]bool{}
		del := c18ReadKey(flen, roff, lens, rs, ev)
		for _, f := range []string{"T", "E", "F", "A", "R", "S0", "S1", "S2", "B"} {
			if h.ev[f] {
				fev[f] = true
			}
		}
		key := ""
		if stored > 0 && del > 0 { // non-trivial: at least one byte was stored and at least one byte was read back
			nz := "n+"
			if at {
				nz = "at"
			} else if h.n == 0 {
				nz = "n0"
			} else if h.n > 1<<40 {
				nz = "nH"
			}
			key = "file/" + nz + "/" + c18EvKey(fev, fileEvs) + "/" + c18EvKey(ev, c18ReadEvs)
		}
		g.Stat(bucket)
		n := h.n
		if at {
			n = -1
		}
		cs := "[" + strings.Join(h.calls, ",") + "]"
		sc := "[" + strings.Join(h.script, ",") + "]"
		g.Do("iohelper.File", L(Bytes(init), I(h.off), I(n), cs, sc, I(roff), I64s(lens), c18Resps(rs)), key)
	}
	// newFileHist: a c18Hist that also follows the PROPERTY's file length (gap / extend / inside events)
	newFileHist := func(off, n int64, init int) (*c18Hist, map[string]bool, *int64, *int64) {
		h := c18New(off, n)
		fev := map[string]bool{}
		flen := int64(init)
		stored := int64(0)
		h.store = func(abs, cnt int64) {
			if cnt <= 0 {
				return
			}
			stored += cnt
			switch {
			case abs > flen:
				fev["G"] = true // zero-filled gap
			case abs+cnt > flen:
				fev["X"] = true // extends the file
			default:
				fev["I"] = true // overwrites inside
			}
			if abs+cnt > flen {
				flen = abs + cnt
			}
		}
		return h, fev, &flen, &stored
	}
	// exhaustive small: init of 0/1/3 bytes x off 0..3 x n in {-1,0,1,3} x every pair of calls
	// from a 9-call alphabet, then reads (1, 3, 4) from the section start
	type fact func(h *c18Hist)
	falpha := []fact{
		func(h *c18Hist) { h.Write(0) }, func(h *c18Hist) { h.Write(1) }, func(h *c18Hist) { h.Write(2) },
		func(h *c18Hist) { h.WriteAt(1, 0) }, func(h *c18Hist) { h.WriteAt(2, 1) }, func(h *c18Hist) { h.WriteAt(1, 2) },
		func(h *c18Hist) { h.Seek(0, 0) }, func(h *c18Hist) { h.Seek(2, 0) }, func(h *c18Hist) { h.Seek(1, 1) },
	}
	for _, il := range []int{0, 1, 3} {
		for off := int64(0); off <= 3; off++ {
			for _, n := range []int64{-1, 0, 1, 3} {
				for a := range falpha {
					for b := range falpha {
						nn := n
						if n == -1 {
							nn = maxI - off
						}
						h, fev, flen, stored := newFileHist(off, nn, il)
						h.seq = 100
						falpha[a](h)
						falpha[b](h)
						h.Write(2)
						emitFile(h, n == -1, c18Data(il, 200), off, []int64{1, 3, 4}, nil, fev, *flen, *stored, "file-exh")
					}
				}
			}
		}
	}
	g.Exhaust = append(g.Exhaust, "File: initial files of 0/1/3 bytes x off 0..3 x n in {AtToWriter, 0, 1, 3} x every pair of calls from a 9-call alphabet (Write 0..2; WriteAt (1,0) (2,1) (1,2); Seek (0,start) (2,start) (1,current)) followed by Write(2), then Reads of 1, 3, 4 bytes through AtToReader at the section start")

	nf := g.N(3000, 50000)
	for k := 0; k < nf; k++ {
		il := g.R.Pick(0, 0, 1, 5, 64, 100, 200)
		if g.R.Intn(4) == 0 {
			il = g.R.Range(0, 400)
		}
		off := int64(g.R.Pick(0, 0, 1, 7, 64))
		switch g.R.Intn(4) {
		case 0:
			off = int64(g.R.Range(0, 300))
		case 1:
			off = int64(il) + int64(g.R.Range(-2, 3)) // around the end of the initial file
			if off < 0 {
				off = 0
			}
		}
		at := g.R.Intn(3) == 0
		var n int64
		switch g.R.Intn(6) {
		case 0:
			n = 0
		case 1:
			n = maxI - off
		case 2:
			n = int64(g.R.Range(1, 5))
		default:
			n = int64(g.R.Range(6, 150))
		}
		if at {
			n = maxI - off
		}
		h, fev, flen, stored := newFileHist(off, n, il)
		h.seq = byte(g.R.Intn(250))
		room := n // positions used stay below ~600 whatever n is
		if room > 300 {
			room = 300
		}
		ncalls := g.R.Range(1, 14)
		fmode := g.R.Pick(0, 0, 0, 1, 2)
		for c := 0; c < ncalls; c++ {
			switch {
			case fmode == 0:
			case fmode == 1 && g.R.Intn(4) != 0:
				h.Resp(100000, 0)
			default:
				h.Resp(int64(g.R.Pick(0, 1, 2, 3, 10, 100000)), g.R.Pick(0, 0, 1, 2))
			}
		}
		onlyWrites := g.R.Intn(4) == 0 // the plain streaming use: Write, Write, ...
		for c := 0; c < ncalls; c++ {
			pickLen := func(rem int64) int {
				var l int64
				switch g.R.Intn(8) {
				case 0:
					l = 0
				case 1:
					l = rem
				case 2:
					l = rem + 1
				case 3:
					l = rem - 1
				case 4:
					l = int64(g.R.Pick(49, 64, 65, 255, 256, 257, 600))
				default:
					l = int64(g.R.Range(1, 30))
				}
				if l < 0 || l > 600 {
					l = int64(g.R.Range(0, 30))
				}
				return int(l)
			}
			kind := g.R.Intn(10)
			if onlyWrites {
				kind = 0
			}
			switch kind {
			case 0, 1, 2, 3, 4:
				h.Write(pickLen(h.n - h.pos))
			case 5, 6:
				o := int64(g.R.Range(-1, int(room)+1))
				h.WriteAt(pickLen(h.n-o), o)
			case 7, 8:
				// targets stay in [-1, room+3] so that nothing is ever stored far away
				t := int64(g.R.Range(-1, int(room)+3))
				switch g.R.Pick(0, 1, 2, 3) {
				case 0:
					h.Seek(t, 0)
				case 1:
					h.Seek(t-h.pos, 1)
				case 2:
					if h.n <= 300 {
						h.Seek(t-h.n, 2)
					} else {
						h.Seek(-int64(g.R.Range(0, 3)), 3) // invalid whence
					}
				default:
					h.Seek(t, 7)
				}
			default:
				h.Size()
			}
		}
		roff := off
		switch g.R.Intn(6) {
		case 0:
			roff = 0
		case 1:
			roff = off + int64(g.R.Range(-3, 3))
			if roff < 0 {
				roff = 0
			}
		case 2:
			roff = *flen - int64(g.R.Intn(4))
			if roff < 0 {
				roff = 0
			}
		}
		var lens []int64
		var rs [][2]int64
		total := *flen - roff
		if total < 0 {
			total = 0
		}
		switch g.R.Intn(3) {
		case 0: // one read of everything and a bit more
			lens = []int64{total + int64(g.R.Range(0, 3)), 1}
		case 1: // chunks
			for c, nc := 0, g.R.Range(1, 8); c < nc; c++ {
				lens = append(lens, int64(g.R.Pick(0, 1, 2, 3, 7, 16, 64, 100)))
			}
		default: // exactly everything, then EOF
			lens = []int64{total, 1, 0}
		}
		if g.R.Intn(6) == 0 {
			for range lens {
				rs = append(rs, [2]int64{int64(g.R.Pick(0, 1, 5, 100000)), int64(g.R.Pick(0, 0, 2, 5))})
			}
		}
		emitFile(h, at, c18Data(il, 200), roff, lens, rs, fev, *flen, *stored, fmt.Sprintf("file-rand-f%d", fmode))
	}

	// ---- iohelper.TwoSections: two writers over one file, calls interleaved ----
	pairEvs := []string{"G", "X", "I", "T", "E", "L", "F", "R", "A", "S0", "S1", "S2", "B"}
	emitPair := func(h [2]*c18Hist, wcalls []string, init []byte, fev map[string]bool, stored [2]int64, switches int, class string, bucket string) {
		for _, hh := range h {
			for _, f := range []string{"T", "E", "L", "F", "R", "A", "S0", "S1", "S2", "B"} {
				if hh.ev[f] {
					fev[f] = true
				}
			}
		}
		key := ""
		// non-trivial: both writers stored bytes and the calls switched writer at least twice
		if stored[0] > 0 && stored[1] > 0 && switches >= 2 {
			key = "pair/" + class + "/" + c18EvKey(fev, pairEvs)
		}
		g.Stat(bucket)
		sc := "[" + strings.Join(h[0].script, ",") + "]"
		g.Do("iohelper.TwoSections", L(Bytes(init), I(h[0].off), I(h[0].n), I(h[1].off), I(h[1].n),
			"["+strings.Join(wcalls, ",")+"]", sc), key)
	}
	newPair := func(o1, n1, o2, n2 int64, il int) ([2]*c18Hist, map[string]bool, *[2]int64) {
		fev := map[string]bool{}
		flen := int64(il)
		var stored [2]int64
		h := [2]*c18Hist{c18New(o1, n1), c18New(o2, n2)}
		h[1].sh = h[0] // one underlying writer: one response script, consumed in call order
		for w := 0; w < 2; w++ {
			w := w
			h[w].store = func(abs, cnt int64) {
				if cnt <= 0 {
					return
				}
				stored[w] += cnt
				switch {
				case abs > flen:
					fev["G"] = true
				case abs+cnt > flen:
					fev["X"] = true
				default:
					fev["I"] = true
				}
				if abs+cnt > flen {
					flen = abs + cnt
				}
			}
		}
		return h, fev, &stored
	}
	// do: run one action on writer w and record the call it appended
	pairDo := func(h [2]*c18Hist, wcalls *[]string, w int, f func(h *c18Hist)) {
		before := len(h[w].calls)
		f(h[w])
		*wcalls = append(*wcalls, L(Int(w), h[w].calls[before]))
	}
	// exhaustive small: sections (0,2)/(2,2) adjacent, (0,3)/(1,3) overlapping, (1,2)/(1,2) identical;
	// every sequence of 3 (writer, call) pairs from a 5-call alphabet, then Write(1) on both
	palpha := []fact{
		func(h *c18Hist) { h.Write(1) }, func(h *c18Hist) { h.Write(2) },
		func(h *c18Hist) { h.WriteAt(1, 1) }, func(h *c18Hist) { h.Seek(1, 0) }, func(h *c18Hist) { h.Seek(0, 0) },
	}
	for ci, cfg := range [][4]int64{{0, 2, 2, 2}, {0, 3, 1, 3}, {1, 2, 1, 2}} {
		np := len(palpha) * 2
		for x := 0; x < np*np*np; x++ {
			h, fev, stored := newPair(cfg[0], cfg[1], cfg[2], cfg[3], 1)
			h[0].seq, h[1].seq = 0x10, 0x80
			var wcalls []string
			sw, last := 0, -1
			for _, y := range []int{x % np, (x / np) % np, x / (np * np)} {
				w := y % 2
				if last >= 0 && w != last {
					sw++
				}
				last = w
				pairDo(h, &wcalls, w, palpha[y/2])
			}
			pairDo(h, &wcalls, 0, func(h *c18Hist) { h.Write(1) })
			pairDo(h, &wcalls, 1, func(h *c18Hist) { h.Write(1) })
			emitPair(h, wcalls, c18Data(1, 200), fev, *stored, sw+1, []string{"adj", "ovl", "same"}[ci], "pair-exh")
		}
	}
	g.Exhaust = append(g.Exhaust, "TwoSections: sections (0,2)/(2,2), (0,3)/(1,3), (1,2)/(1,2) x every sequence of 3 (writer, call) pairs from a 5-call alphabet (Write 1, Write 2, WriteAt(1,1), Seek(1,start), Seek(0,start)) followed by Write(1) on each writer")

	np := g.N(3000, 50000)
	for k := 0; k < np; k++ {
		il := g.R.Pick(0, 0, 5, 64, 200)
		o1 := int64(g.R.Pick(0, 0, 1, 7, 64))
		if g.R.Intn(3) == 0 {
			o1 = int64(g.R.Range(0, 200))
		}
		n1 := int64(g.R.Pick(0, 1, 2, 8, 16, 64, 100))
		if g.R.Intn(8) == 0 {
			n1 = maxI - o1
		}
		var o2, n2 int64
		class := ""
		b1 := n1
		if b1 > 200 {
			b1 = 200
		}
		switch g.R.Intn(6) {
		case 0:
			o2, class = o1+b1, "adj" // starts where the first ends
		case 1:
			o2, class = o1+b1+int64(g.R.Range(1, 50)), "dis"
		case 2:
			o2, class = o1+int64(g.R.Intn(int(b1)+1)), "ovl"
		case 3:
			o2, class = o1, "same"
		case 4:
			o2 = o1 - int64(g.R.Range(1, 20)) // the second starts before the first
			if o2 < 0 {
				o2 = 0
			}
			class = "bef"
		default:
			o2, class = int64(g.R.Range(0, 300)), "any"
		}
		n2 = int64(g.R.Pick(0, 1, 2, 8, 16, 64, 100))
		if class == "same" && g.R.Bool() {
			n2 = n1
		}
		if g.R.Intn(10) == 0 {
			n2 = maxI - o2
		}
		h, fev, stored := newPair(o1, n1, o2, n2, il)
		h[0].seq, h[1].seq = byte(g.R.Intn(100)), byte(128+g.R.Intn(100))
		ncalls := g.R.Range(2, 24)
		fmode := g.R.Pick(0, 0, 0, 1, 2)
		for c := 0; c < ncalls; c++ {
			switch {
			case fmode == 0:
			case fmode == 1 && g.R.Intn(4) != 0:
				h[0].Resp(100000, 0)
			default:
				h[0].Resp(int64(g.R.Pick(0, 1, 2, 3, 10, 100000)), g.R.Pick(0, 0, 1, 2))
			}
		}
		var wcalls []string
		sw, last := 0, -1
		w := g.R.Intn(2)
		for c := 0; c < ncalls; c++ {
			// alternate often, sometimes stay
			if g.R.Intn(3) != 0 {
				w = 1 - w
			}
			if last >= 0 && w != last {
				sw++
			}
			last = w
			hw := h[w]
			room := hw.n
			if room > 200 {
				room = 200
			}
			pickLen := func(rem int64) int {
				var l int64
				switch g.R.Intn(7) {
				case 0:
					l = 0
				case 1:
					l = rem
				case 2:
					l = rem + 1
				case 3:
					l = rem - 1
				default:
					l = int64(g.R.Range(1, 20))
				}
				if l < 0 || l > 300 {
					l = int64(g.R.Range(0, 20))
				}
				return int(l)
			}
			switch g.R.Intn(10) {
			case 0, 1, 2, 3, 4:
				pairDo(h, &wcalls, w, func(h *c18Hist) { h.Write(pickLen(h.n - h.pos)) })
			case 5, 6:
				o := int64(g.R.Range(-1, int(room)+1))
				pairDo(h, &wcalls, w, func(h *c18Hist) { h.WriteAt(pickLen(h.n-o), o) })
			case 7, 8:
				t := int64(g.R.Range(-1, int(room)+3))
				switch g.R.Pick(0, 1, 2, 3) {
				case 0:
					pairDo(h, &wcalls, w, func(h *c18Hist) { h.Seek(t, 0) })
				case 1:
					pairDo(h, &wcalls, w, func(h *c18Hist) { h.Seek(t-h.pos, 1) })
				case 2:
					if hw.n <= 200 {
						pairDo(h, &wcalls, w, func(h *c18Hist) { h.Seek(t-h.n, 2) })
					} else {
						pairDo(h, &wcalls, w, func(h *c18Hist) { h.Seek(0, 5) })
					}
				default:
					pairDo(h, &wcalls, w, func(h *c18Hist) { h.Seek(0, 1) }) // where am I
				}
			default:
				pairDo(h, &wcalls, w, func(h *c18Hist) { h.Size() })
			}
		}
		emitPair(h, wcalls, c18Data(il, 200), fev, *stored, sw, class, fmt.Sprintf("pair-rand-f%d", fmode))
	}

	// ---- pbcmpl frames in one file through AtToWriter / AtToReader ----
	genC18Pbcmpl(g)

	// ---- sections of sections ----
	genC18Nested(g)
}
