package main

import (
	"fmt"
	"strings"

	"github.com/openacid/low/bitmap"
)

func c12Of(ps []int32, opt []V) []uint64 {
	if len(opt) == 0 {
		return bitmap.Of(ps)
	}
	return bitmap.Of(ps, opt[0].I32())
}

func init() {
	// the caller owns the returned bitmap: after rendering it, junk is written into it (a shared or cached result shows
	// up in a later case)
	Exec["bitmap.Of"] = func(a []V) string {
		r := c12Of(a[0].I32s(), a[1].L)
		out := U64s(r)
		c12Scribble(r)
		return out
	}
	Exec["bitmap.ToArray"] = func(a []V) string { return I32s(bitmap.ToArray(a[0].U64s())) }
	Exec["bitmap.Of/ToArray"] = func(a []V) string { return I32s(bitmap.ToArray(c12Of(a[0].I32s(), a[1].L))) }
	Exec["bitmap.ToArray/Of"] = func(a []V) string { return U64s(bitmap.Of(bitmap.ToArray(a[0].U64s()))) }
	Exec["bitmap.Get"] = func(a []V) string {
		ws, i := a[0].U64s(), a[1].I32()
		return L(U(bitmap.Get(ws, i)), U(bitmap.Get1(ws, i)))
	}
	Exec["bitmap.SafeGet"] = func(a []V) string {
		ws, i := a[0].U64s(), a[1].I32()
		return L(U(bitmap.SafeGet(ws, i)), U(bitmap.SafeGet1(ws, i)))
	}
	Exec["bitmap.OfMany"] = func(a []V) string {
		subs := make([][]int32, len(a[0].L))
		for i, s := range a[0].L {
			subs[i] = s.I32s()
		}
		r := bitmap.OfMany(subs, a[1].I32s())
		out := U64s(r)
		c12Scribble(r)
		return out
	}
	// sub-lists that are windows of ONE flat buffer (any order, overlapping, capacity to the end of the buffer);
	// OfMany twice on the same arguments; the buffer must be unchanged
	Exec["bitmap.OfMany/shared"] = func(a []V) string {
		flat := make([]int32, len(a[0].L))
		for i, x := range a[0].L {
			flat[i] = x.I32()
		}
		orig := append([]int32{}, flat...)
		subs := make([][]int32, len(a[1].L))
		for i, c := range a[1].L {
			subs[i] = flat[c.L[0].Int():c.L[1].Int()]
		}
		sizes := a[2].I32s()
		r1 := U64s(bitmap.OfMany(subs, sizes))
		r2 := U64s(bitmap.OfMany(subs, sizes))
		same := true
		for i := range orig {
			if orig[i] != flat[i] {
				same = false
			}
		}
		return L(r1, r2, B(same))
	}
	// [n, [op...]], op = [0, ps, size] (Extend) | [1, p, v] (Set); Words and Offset after every call
	Exec["bitmap.Builder"] = func(a []V) string {
		b := bitmap.NewBuilder(a[0].I32())
		snap := func() string { return L(U64s(b.Words), I32(b.Offset)) }
		out := []string{snap()}
		for _, op := range a[1].L {
			if op.L[0].Int() == 0 {
				b.Extend(op.L[1].I32s(), op.L[2].I32())
			} else {
				b.Set(op.L[1].I32(), op.L[2].I32())
			}
			out = append(out, snap())
		}
		return L(out...)
	}
	// widening: the exported tables of bitmap/mask.go; an index outside the array panics (P)
	Exec["bitmap.Mask"] = func(a []V) string {
		i := a[0].Int()
		return L(U(bitmap.Mask[i]), U(bitmap.RMask[i]))
	}
	Exec["bitmap.Bit"] = func(a []V) string {
		i := a[0].Int()
		return L(U(bitmap.MaskUpto[i]), U(bitmap.RMaskUpto[i]), U(bitmap.Bit[i]), U(bitmap.RBit[i]))
	}
	// widening: bitmap.Fmt on every integer kind, single value or slice; sz outside {1,2,4,8} = a non-integer type
	Exec["bitmap.Fmt/c12"] = func(a []V) string {
		return Str(bitmap.Fmt(c12FmtArg(a[0].Int(), a[1].Bool(), a[2].Bool(), a[3].L)))
	}
	// widening: OfMany(subs, sizes) against Of(shifted concatenation, sum of sizes); only the relation is observed
	Exec["bitmap.OfMany/asOf"] = func(a []V) string {
		subs := make([][]int32, len(a[0].L))
		for i, s := range a[0].L {
			subs[i] = s.I32s()
		}
		sizes := a[1].I32s()
		var all []int32
		base := int32(0)
		for i, e := range subs {
			for _, p := range e {
				all = append(all, base+p)
			}
			base += sizes[i]
		}
		x := c12Try(func() []uint64 { return bitmap.OfMany(subs, sizes) })
		y := c12Try(func() []uint64 { return bitmap.Of(all, base) })
		if x == y {
			return "[1]"
		}
		return L("0", x, y)
	}
	// widening: NewBuilder(n) + one Extend per segment against OfMany: word for word, Offset = sum of sizes
	Exec["bitmap.Builder/asOfMany"] = func(a []V) string {
		b := bitmap.NewBuilder(a[0].I32())
		subs := make([][]int32, len(a[1].L))
		for i, s := range a[1].L {
			subs[i] = s.I32s()
		}
		sizes := a[2].I32s()
		tot := int32(0)
		for i := range subs {
			b.Extend(subs[i], sizes[i])
			tot += sizes[i]
		}
		r := bitmap.OfMany(subs, sizes)
		trim := func(ws []uint64) []uint64 {
			for len(ws) > 0 && ws[len(ws)-1] == 0 {
				ws = ws[:len(ws)-1]
			}
			return ws
		}
		return L(B(U64s(r) == U64s(b.Words)), B(U64s(trim(r)) == U64s(trim(b.Words))), B(b.Offset == tot),
			U64s(r), U64s(b.Words), I32(b.Offset))
	}
	// Builder literal over a caller-supplied buffer (ws0 followed by junk in the spare capacity), Extend / Set /
	// roll-back (b.Words = b.Words[:k]; b.Offset = 64k); Words and Offset at the start and after every op.
	// The buffer is built here (not through the guarded accessors: the builder owns its spare capacity).
	Exec["bitmap.Builder/mem"] = func(a []V) string {
		n0, spare := len(a[0].L), a[1].Int()
		buf := make([]uint64, n0+spare)
		for i, x := range a[0].L {
			buf[i] = x.U64()
		}
		for i := n0; i < len(buf); i++ {
			buf[i] = 0xdeadbeefcafef00d ^ uint64(i)*0x9e3779b97f4a7c15
		}
		b := &bitmap.Builder{Words: buf[:n0], Offset: a[2].I32()}
		return L(c12MemRun(b, a[3].L)...)
	}
	// a session that mixes Of with a Builder: e := Of(nil, n); a Builder working in place on e; then Of([], n) and
	// OfMany of bit-less segments again (must be all zero), junk written into both results, Of([], n) once more
	Exec["bitmap.Of/session"] = func(a []V) string {
		n := a[0].I32()
		e := bitmap.Of(nil, n)
		e1 := U64s(e)
		b := &bitmap.Builder{Words: e}
		sts := L(c12MemRun(b, a[1].L)...)
		e2s := bitmap.Of([]int32{}, n)
		e2 := U64s(e2s)
		ms := bitmap.OfMany([][]int32{{}, {}}, []int32{n, 0})
		m := U64s(ms)
		c12Scribble(e2s)
		c12Scribble(ms)
		e3 := U64s(bitmap.Of([]int32{}, n))
		return L(e1, sts, e2, m, e3)
	}
	// widening: the constructors composed with the readers of C01 / C13
	Exec["bitmap.Of/query"] = func(a []V) string {
		return c12Query(c12Of(a[0].I32s(), a[1].L), a[2].Bool(), a[3].I32(), a[4].I32())
	}
	Exec["bitmap.Builder/query"] = func(a []V) string {
		b := bitmap.NewBuilder(a[0].I32())
		for _, op := range a[1].L {
			if op.L[0].Int() == 0 {
				b.Extend(op.L[1].I32s(), op.L[2].I32())
			} else {
				b.Set(op.L[1].I32(), op.L[2].I32())
			}
		}
		return c12Query(b.Words, a[2].Bool(), a[3].I32(), a[4].I32())
	}
	Register("C12", genC12)
}

// c12Scribble: the caller owns a returned bitmap and may write anything into it
func c12Scribble(ws []uint64) {
	for i := range ws {
		ws[i] = 0x5ca1ab1e5ca1ab1e ^ uint64(i)
	}
}

// c12MemRun runs [0,ps,size] (Extend) | [1,p,v] (Set) | [2,k] (roll back to word k) on b; snapshots before and after every op
func c12MemRun(b *bitmap.Builder, ops []V) []string {
	snap := func() string { return L(U64s(b.Words), I32(b.Offset)) }
	out := []string{snap()}
	for _, op := range ops {
		switch op.L[0].Int() {
		case 0:
			b.Extend(op.L[1].I32s(), op.L[2].I32())
		case 1:
			b.Set(op.L[1].I32(), op.L[2].I32())
		default:
			k := op.L[1].Int()
			b.Words = b.Words[:k]
			b.Offset = int32(64 * k)
		}
		out = append(out, snap())
	}
	return out
}

// c12Shape: does OfMany(subs, sizes) stay inside the words it allocates (no panic), is the shifted concatenation
// ascending, and does a later position fall back into a word that an earlier position already touched
func c12Shape(subs [][]int32, sizes []int32) (fits, asc, revisit bool) {
	var all []int
	base := 0
	for i, e := range subs {
		for _, p := range e {
			all = append(all, base+int(p))
		}
		base += int(sizes[i])
	}
	n := base
	if len(all) > 0 && all[len(all)-1]+1 > n {
		n = all[len(all)-1] + 1
	}
	if n < 0 {
		n = 0
	}
	nbits := (n + 63) / 64 * 64
	fits, asc = true, true
	maxw := -1
	for i, p := range all {
		if p < 0 || p >= nbits {
			fits = false
		}
		if i > 0 && p < all[i-1] {
			asc = false
		}
		if p>>6 < maxw {
			revisit = true
		}
		if p>>6 > maxw {
			maxw = p >> 6
		}
	}
	return
}

// c12Try renders the result of f, or P if it panics
func c12Try(f func() []uint64) (out string) {
	defer func() {
		if recover() != nil {
			out = "P"
		}
	}()
	return U64s(f())
}

func c12MaxInt(a, b int) int {
	if a > b {
		return a
	}
	return b
}

// c12Query: Rank64 and Rank128 (freshly built indexes) at i, NextOne and PrevOne on [i, e)
func c12Query(r []uint64, tr bool, i, e int32) string {
	c64, b64 := bitmap.Rank64(r, bitmap.IndexRank64(r, tr), i)
	c128, b128 := bitmap.Rank128(r, bitmap.IndexRank128(r), i)
	return L(L(I32(c64), I32(b64)), L(I32(c128), I32(b128)), I32(bitmap.NextOne(r, i, e)), I32(bitmap.PrevOne(r, i, e)))
}

// c12Range draws 0 <= i <= e <= nbits, i < nbits, 1 <= e (nbits >= 1), aimed at the positions in ps
func c12Range(g *Gen, ps []int32, shift, nbits int) (int, int, string) {
	i := g.R.Intn(nbits)
	kind := "rnd"
	if len(ps) > 0 && g.R.Intn(3) > 0 {
		p := int(ps[g.R.Intn(len(ps))]) + shift + g.R.Pick(-1, 0, 0, 1)
		if p >= 0 && p < nbits {
			i = p
			kind = "atpos"
		}
	} else if g.R.Intn(4) == 0 {
		i = (i/64)*64 + g.R.Pick(0, 63)
		if i >= nbits {
			i = nbits - 1
		}
		kind = "edge"
	}
	lo := i
	if lo < 1 {
		lo = 1
	}
	e := g.R.Range(lo, nbits)
	switch g.R.Intn(5) {
	case 0:
		e = nbits
	case 1:
		e = lo
	case 2:
		e = minInt(lo+g.R.Pick(1, 2, 63, 64, 65), nbits)
	}
	ek := "mid"
	if e == nbits {
		ek = "end"
	} else if e <= i+1 {
		ek = "tiny"
	}
	return i, e, kind + "/" + ek
}

// c12FmtArg builds the Go value described by (byte size, signedness, slice or single, values).
func c12FmtArg(sz int, signed, slice bool, xs []V) interface{} {
	s := func(i int) int64 { return xs[i].Z.Int64() }
	u := func(i int) uint64 { return xs[i].Z.Uint64() }
	n := len(xs)
	if !slice {
		switch {
		case sz == 1 && signed:
			return int8(s(0))
		case sz == 1:
			return uint8(u(0))
		case sz == 2 && signed:
			return int16(s(0))
		case sz == 2:
			return uint16(u(0))
		case sz == 4 && signed:
			return int32(s(0))
		case sz == 4:
			return uint32(u(0))
		case sz == 8 && signed:
			return int64(s(0))
		case sz == 8:
			return uint64(u(0))
		}
		return "x"
	}
	switch {
	case sz == 1 && signed:
		r := make([]int8, n)
		for i := range r {
			r[i] = int8(s(i))
		}
		return r
	case sz == 1:
		r := make([]uint8, n)
		for i := range r {
			r[i] = uint8(u(i))
		}
		return r
	case sz == 2 && signed:
		r := make([]int16, n)
		for i := range r {
			r[i] = int16(s(i))
		}
		return r
	case sz == 2:
		r := make([]uint16, n)
		for i := range r {
			r[i] = uint16(u(i))
		}
		return r
	case sz == 4 && signed:
		r := make([]int32, n)
		for i := range r {
			r[i] = int32(s(i))
		}
		return r
	case sz == 4:
		r := make([]uint32, n)
		for i := range r {
			r[i] = uint32(u(i))
		}
		return r
	case sz == 8 && signed:
		r := make([]int64, n)
		for i := range r {
			r[i] = int64(s(i))
		}
		return r
	case sz == 8:
		r := make([]uint64, n)
		for i := range r {
			r[i] = u(i)
		}
		return r
	}
	return make([]string, n)
}

// c12FmtVal draws a value of a sz-byte integer kind: boundaries, single bits, byte patterns, random.
func c12FmtVal(g *Gen, sz int, signed bool) string {
	bitsN := uint(8 * sz)
	var u uint64
	switch g.R.Intn(6) {
	case 0:
		cs := []uint64{0, 1, 0x80, 0xff, 0x0102, 0x8000, 0x01020408, 0x80000000, 1 << 63, ^uint64(0)}
		u = cs[g.R.Intn(len(cs))]
	case 1:
		u = 1 << uint(g.R.Intn(int(bitsN)))
	case 2:
		u = ^(uint64(1) << uint(g.R.Intn(int(bitsN))))
	default:
		u = g.R.Words(1)[0]
	}
	if bitsN < 64 {
		u &= 1<<bitsN - 1
	}
	if !signed {
		return U(u)
	}
	// sign-extend from bitsN
	v := int64(u<<(64-bitsN)) >> (64 - bitsN)
	return I(v)
}

// c12Positions draws an ascending list of non-negative positions below limit (limit >= 1).
// style: 0 dense run, 1 small gaps, 2 word-boundary positions, 3 gaps of more than 3 words, 4 mix with duplicates
func c12Positions(g *Gen, style, limit, maxn int) []int32 {
	var ps []int32
	p := 0
	switch g.R.Intn(4) {
	case 0:
		p = 0
	case 1:
		p = g.R.Pick(62, 63, 64, 65)
	default:
		p = g.R.Intn(limit)
	}
	n := g.R.Intn(maxn + 1)
	for len(ps) < n && p < limit {
		ps = append(ps, int32(p))
		switch style {
		case 0:
			p++
		case 1:
			p += g.R.Range(1, 9)
		case 2:
			p = (p/64+g.R.Intn(2))*64 + g.R.Pick(63, 64, 65, 127, 128)
			if len(ps) > 0 && p <= int(ps[len(ps)-1]) {
				p = int(ps[len(ps)-1]) + 1
			}
		case 3:
			p += g.R.Range(193, 400)
		default:
			p += g.R.Pick(0, 0, 1, 2, 63, 64, 65, 200)
		}
	}
	return ps
}

func c12OfKey(ps []int32, opt string) string {
	if len(ps) == 0 {
		return ""
	}
	last := int(ps[len(ps)-1])
	nc := "none"
	if opt != "[]" {
		var n int
		fmt.Sscanf(opt, "[%d]", &n)
		switch {
		case n < 0:
			nc = "neg"
		case n <= last:
			nc = "small"
		case n == last+1:
			nc = "exact"
		case (n+63)/64 == (last+64)/64:
			nc = "sameword"
		default:
			nc = "larger"
		}
	}
	gap, dup := false, false
	for i := 1; i < len(ps); i++ {
		if ps[i]-ps[i-1] > 192 {
			gap = true
		}
		if ps[i] == ps[i-1] {
			dup = true
		}
	}
	return fmt.Sprintf("Of/n-%s/last%s/nw%d/gap%v/dup%v/np%d", nc, c13Off(last), minInt(last/64+1, 5), gap, dup, minInt(len(ps), 3))
}

func c12Subs(subs [][]int32) string {
	xs := make([]string, len(subs))
	for i, s := range subs {
		xs[i] = I32s(s)
	}
	return L(xs...)
}

// c12History draws NewBuilder(n) and 1..12 Extend/Set calls; returns n, the calls, the mode, the feature string,
// and the number of bits the builder must cover (max of Offset and last set position + 1)
func c12History(g *Gen) (int, []string, int, string, int, []int32) {
	n := g.R.Pick(0, 0, 1, 63, 64, 100, 1000)
	nops := g.R.Range(1, 12)
	mode := g.R.Intn(3) // 0 extends only, 1 sets only, 2 mixed
	var ops []string
	var all []int32
	off, lim := 0, 0
	feat := map[string]bool{}
	for o := 0; o < nops; o++ {
		if mode == 0 || (mode == 2 && g.R.Intn(3) > 0) {
			size := g.R.Pick(0, 0, 1, 5, 63, 64, 65, 100, 128, 300)
			if g.R.Intn(3) == 0 {
				size = g.R.Intn(260)
			} else if g.R.Intn(10) == 0 {
				size = g.R.Pick(1024, 1100, 2100) // relative positions with more than 10 bits
			}
			ps := []int32{}
			if g.R.Intn(6) > 0 {
				l := size
				if l == 0 || g.R.Intn(5) == 0 {
					l = size + g.R.Pick(1, 2, 64, 65, 300) // positions >= size
				}
				ps = c12Positions(g, g.R.Intn(5), l, g.R.Pick(1, 3, 8))
			}
			if len(ps) > 0 && int(ps[len(ps)-1]) >= size {
				feat["over"] = true
			}
			if size == 0 {
				feat["z"] = true
			}
			if len(ps) == 0 {
				feat["e"] = true
			}
			for _, p := range ps {
				all = append(all, int32(off)+p)
				if off+int(p)+1 > lim {
					lim = off + int(p) + 1
				}
			}
			ops = append(ops, L("0", I32s(ps), Int(size)))
			off += size
		} else {
			var p int
			switch g.R.Intn(4) {
			case 0:
				p = off + g.R.Pick(-1, 0, 1, 63, 64, 65, 200)
			case 1:
				p = g.R.Intn(off + 1)
			case 2:
				p = 64*g.R.Intn(6) + g.R.Pick(0, 63)
			default:
				p = g.R.Intn(500)
			}
			if p < 0 {
				p = 0
			}
			v := g.R.Pick(0, 1, 1, 1, 2, 3, -1, -2)
			if p >= off {
				feat["adv"] = true
				off = p + 1
			} else {
				feat["below"] = true
			}
			if v&1 == 0 {
				feat["v0"] = true
			} else {
				all = append(all, int32(p))
			}
			if p+1 > lim {
				lim = p + 1
			}
			ops = append(ops, L("1", Int(p), Int(v)))
		}
		if off > lim {
			lim = off
		}
	}
	fs := []string{}
	for _, f := range []string{"over", "z", "e", "adv", "below", "v0"} {
		if feat[f] {
			fs = append(fs, f)
		}
	}
	return n, ops, mode, strings.Join(fs, "+"), lim, all
}

// c12MemHistory draws 1..10 ops on a builder whose Offset is off: Extend / Set as in c12History, plus roll-backs to a
// word-aligned checkpoint k <= off/64 (so k <= len(Words)), typically followed by another Extend
func c12MemHistory(g *Gen, off int) ([]string, string) {
	nops := g.R.Range(1, 10)
	var ops []string
	feat := map[string]bool{}
	for o := 0; o < nops; o++ {
		switch r := g.R.Intn(10); {
		case r < 5:
			size := g.R.Pick(0, 1, 5, 63, 64, 65, 100, 128, 200, 300)
			ps := []int32{}
			if g.R.Intn(5) > 0 {
				l := size
				if l == 0 || g.R.Intn(4) == 0 {
					l = size + g.R.Pick(1, 64, 65, 200)
					feat["over"] = true
				}
				ps = c12Positions(g, g.R.Intn(5), l, g.R.Pick(1, 3, 8))
			}
			ops = append(ops, L("0", I32s(ps), Int(size)))
			off += size
		case r < 7:
			p := g.R.Intn(off + 130)
			v := g.R.Pick(0, 1, 1, 1, 3, -1)
			ops = append(ops, L("1", Int(p), Int(v)))
			if p >= off {
				off = p + 1
			}
		default:
			k := off / 64
			switch g.R.Intn(4) {
			case 0:
				k = 0
			case 1:
				if k > 0 {
					k--
				}
			case 2:
				k = g.R.Intn(k + 1)
			}
			if 64*k < off {
				feat["cut"] = true
			}
			feat["rb"] = true
			ops = append(ops, L("2", Int(k)))
			off = 64 * k
		}
	}
	fs := ""
	for _, f := range []string{"over", "rb", "cut"} {
		if feat[f] {
			fs += "+" + f
		}
	}
	return ops, fs
}

func genC12(g *Gen) {
	of := func(ps []int32, opt string, bucket string) {
		g.Stat(bucket)
		key := c12OfKey(ps, opt)
		g.Do("bitmap.Of", L(I32s(ps), opt), key)
		g.Do("bitmap.Of/ToArray", L(I32s(ps), opt), key)
	}
	opts := func(ps []int32) []string {
		last := -1
		if len(ps) > 0 {
			last = int(ps[len(ps)-1])
		}
		// negative n below -63: without the "n < 0 => 0" clamp, (n+63)>>6 is negative and make panics
		return []string{"[]", "[-5]", "[-64]", "[-65]", "[-1000]", "[-2147483648]", "[0]", "[1]", L(Int(last)), L(Int(last + 1)), L(Int(last + 2)), "[63]", "[64]", "[65]", "[128]", "[129]",
			L(Int((last+64)/64*64 + 1)), L(Int(last + 300))}
	}

	// (1) Of exhaustive: every subset of {0,1,62,63,64,65,127,128} x 18 choices of n
	univ := []int32{0, 1, 62, 63, 64, 65, 127, 128}
	for m := 0; m < 1<<uint(len(univ)); m++ {
		var ps []int32
		for b, p := range univ {
			if m>>uint(b)&1 == 1 {
				ps = append(ps, p)
			}
		}
		for _, o := range opts(ps) {
			of(ps, o, "of-exh")
		}
	}
	g.Exhaust = append(g.Exhaust, "Of and ToArray(Of): every subset of {0,1,62,63,64,65,127,128} x n in {absent,-5,-64,-65,-1000,-2^31,0,1,last,last+1,last+2,63,64,65,128,129,next word+1,last+300}")

	// (2) Of random: ascending lists in 5 styles (dense, small gaps, word boundaries, gaps > 3 words, duplicates)
	no := g.N(1200, 30000)
	for k := 0; k < no; k++ {
		style := g.R.Intn(5)
		ps := c12Positions(g, style, g.R.Pick(70, 200, 700, 2500), g.R.Pick(1, 3, 10, 40))
		os := opts(ps)
		of(ps, os[g.R.Intn(len(os))], fmt.Sprintf("of-style%d", style))
	}

	// (3) ToArray, Of(ToArray), Get/Get1, SafeGet/SafeGet1
	nt := g.N(350, 12000)
	for k := 0; k < nt; k++ {
		nw := g.R.Range(0, 12)
		if g.R.Intn(4) == 0 {
			nw = g.R.Range(0, 3)
		}
		ws := g.R.Words(nw)
		for z := g.R.Intn(4) - 1; z > 0; z-- { // trailing zero words
			ws = append(ws, 0)
		}
		nw = len(ws)
		key := ""
		if popcount(ws) > 0 {
			tz := 0
			for i := nw - 1; i >= 0 && ws[i] == 0; i-- {
				tz++
			}
			key = fmt.Sprintf("TA/nw%d/tz%d", minInt(nw, 6), minInt(tz, 2))
		}
		g.Stat("toarray")
		g.Do("bitmap.ToArray", L(U64s(ws)), key)
		g.Do("bitmap.ToArray/Of", L(U64s(ws)), key)
		n := 64 * nw
		for q := 0; q < 8 && nw > 0; q++ {
			i := g.R.Intn(n)
			if g.R.Bool() {
				i = 64*g.R.Intn(nw) + g.R.Pick(0, 1, 31, 32, 62, 63)
			}
			gk := ""
			if ws[i>>6] != 0 && ws[i>>6] != ^uint64(0) {
				gk = fmt.Sprintf("Get/bit%d/off%s/w%d", ws[i>>6]>>(uint(i)&63)&1, c13Off(i), minInt(i>>6, 3))
			}
			g.Stat("get-inside")
			g.Do("bitmap.Get", L(U64s(ws), Int(i)), gk)
			g.Do("bitmap.SafeGet", L(U64s(ws), Int(i)), gk)
		}
		// outside (malformed stream): negative, just past the end, far away, int32 extremes
		outs := []int{-1, -2, -63, -64, -65, -128, n, n + 1, n + 63, n + 64, n + 65, 1<<31 - 1, -(1 << 31), -(1 << 31) + 63, 1<<31 - 64,
			-g.R.Range(1, 1<<30), n + g.R.Range(0, 1<<30)}
		for q := 0; q < 5; q++ {
			i := outs[g.R.Intn(len(outs))]
			sk := "Safe/neg"
			if i >= 0 {
				sk = "Safe/past"
			}
			if i == n || i == n+63 || i == -1 || i == -64 {
				sk += "/edge"
			}
			g.Stat("safeget-outside")
			g.Do("bitmap.SafeGet", L(U64s(ws), Int(i)), sk+fmt.Sprintf("/nw%d", minInt(nw, 2)))
		}
	}

	// (4) OfMany: segment lists with size 0, empty segments, positions up to size-1, and (last non-empty
	// segment only, so that the shifted concatenation stays ascending) positions >= size
	nm := g.N(800, 20000)
	for k := 0; k < nm; k++ {
		nseg := g.R.Range(0, 6)
		subs := make([][]int32, nseg)
		sizes := make([]int32, nseg)
		for s := 0; s < nseg; s++ {
			size := g.R.Pick(0, 0, 1, 5, 63, 64, 65, 100, 128, 300)
			if g.R.Intn(3) == 0 {
				size = g.R.Intn(260)
			}
			sizes[s] = int32(size)
			subs[s] = []int32{}
			if size > 0 && g.R.Intn(5) > 0 {
				subs[s] = c12Positions(g, g.R.Intn(5), size, g.R.Pick(1, 3, 8))
				if g.R.Intn(3) == 0 {
					subs[s] = append(subs[s], int32(size-1))
					// keep ascending
					for i := len(subs[s]) - 1; i > 0 && subs[s][i] < subs[s][i-1]; i-- {
						subs[s][i-1] = subs[s][i]
					}
				}
			}
		}
		over := false
		if nseg > 0 && g.R.Intn(4) == 0 {
			// positions >= size in the last segment (all later ones are absent): still ascending
			s := nseg - 1
			p := int(sizes[s]) + g.R.Pick(0, 1, 63, 64, 200)
			subs[s] = append(subs[s], int32(p))
			over = true
		}
		key := ""
		tot, np, zero := 0, 0, false
		for s := range subs {
			tot += int(sizes[s])
			np += len(subs[s])
			if sizes[s] == 0 {
				zero = true
			}
		}
		if np > 0 && nseg > 1 {
			key = fmt.Sprintf("OM/seg%d/z%v/over%v/tw%d", nseg, zero, over, minInt((tot+63)/64, 5))
		}
		g.Stat(fmt.Sprintf("ofmany-seg%d", nseg))
		g.Do("bitmap.OfMany", L(c12Subs(subs), I32s(sizes)), key)
		g.Do("bitmap.Builder/asOfMany", L(Int(g.R.Pick(0, 0, 64, 1000)), c12Subs(subs), I32s(sizes)), key)
	}

	// (5) Builder histories: NewBuilder(n), then 1..12 calls of Extend(ps, size) / Set(p, v)
	nb := g.N(1200, 30000)
	for k := 0; k < nb; k++ {
		n, ops, mode, fs, _, _ := c12History(g)
		key := ""
		if len(ops) > 1 {
			key = fmt.Sprintf("B/m%d/n%d/%s/ops%d", mode, minInt(n, 65), fs, (len(ops)+3)/4)
		}
		g.Stat(fmt.Sprintf("builder-mode%d", mode))
		g.Do("bitmap.Builder", L(Int(n), L(ops...)), key)
	}

	// (6) widening: every entry of the six mask tables, and the first indices outside
	for i := -2; i <= 66; i++ {
		key := fmt.Sprintf("Mask/%s", c13Off(i))
		if i < 0 || i > 64 {
			key = "Mask/outside"
		}
		g.Stat("mask-table")
		g.Do("bitmap.Mask", L(Int(i)), key)
		g.Do("bitmap.Bit", L(Int(i)), key)
	}
	g.Exhaust = append(g.Exhaust, "Mask/RMask[0..64], MaskUpto/RMaskUpto/Bit/RBit[0..63]: every entry, plus indices -2,-1 and 64/65,66 (panic)")

	// (7) widening: bitmap.Fmt. Every uint8 / int8 value; every integer kind x single / slice of 0..5 values
	// (boundaries, single bits, complements, random); []uint64 built by Of; non-integer types (panic, "" for an empty slice)
	fm := func(sz int, signed, slice bool, vals []string, bucket string) {
		key := ""
		if len(vals) > 0 && (sz == 1 || sz == 2 || sz == 4 || sz == 8) {
			key = fmt.Sprintf("Fmt/sz%d/s%v/sl%v/n%d", sz, signed, slice, minInt(len(vals), 3))
		} else if sz != 1 && sz != 2 && sz != 4 && sz != 8 {
			key = fmt.Sprintf("Fmt/notint/sl%v/n%d", slice, minInt(len(vals), 2))
		}
		g.Stat(bucket)
		g.Do("bitmap.Fmt/c12", L(Int(sz), B(signed), B(slice), L(vals...)), key)
	}
	for b := 0; b < 256; b++ {
		fm(1, false, false, []string{Int(b)}, "fmt-byte")
		fm(1, true, true, []string{Int(b - 128)}, "fmt-byte")
	}
	g.Exhaust = append(g.Exhaust, "Fmt: every uint8 value and every int8 value (the byte loop: Reverse8 + %08b on all 256 bytes)")
	nf := g.N(600, 15000)
	for k := 0; k < nf; k++ {
		sz := g.R.Pick(1, 2, 4, 8)
		signed := g.R.Bool()
		slice := g.R.Intn(3) > 0
		n := 1
		if slice {
			n = g.R.Range(0, 5)
		}
		vals := make([]string, n)
		for i := range vals {
			vals[i] = c12FmtVal(g, sz, signed)
		}
		fm(sz, signed, slice, vals, "fmt-int")
	}
	for k := 0; k < g.N(150, 4000); k++ {
		ps := c12Positions(g, g.R.Intn(5), g.R.Pick(70, 200, 400), g.R.Pick(1, 3, 10))
		ws := bitmap.Of(ps)
		vals := make([]string, len(ws))
		for i, w := range ws {
			vals[i] = U(w)
		}
		fm(8, false, true, vals, "fmt-of")
	}
	for _, sz := range []int{0, 3, 16} {
		fm(sz, false, false, []string{"1"}, "fmt-notint")
		fm(sz, false, true, []string{}, "fmt-notint")
		fm(sz, false, true, []string{"1"}, "fmt-notint")
		fm(sz, true, true, []string{"1", "2"}, "fmt-notint")
	}

	// (8) widening: queries on built bitmaps. Of(ps, n) then Rank64 / Rank128 / NextOne / PrevOne; the same on the
	// Words of a Builder history. The number of bits is computed here from the statement (not from the result).
	nq := g.N(1000, 40000)
	for k := 0; k < nq; k++ {
		style := g.R.Intn(5)
		ps := c12Positions(g, style, g.R.Pick(70, 200, 700, 2500), g.R.Pick(1, 3, 10, 40))
		os := opts(ps)
		o := os[g.R.Intn(len(os))]
		nbits := 0
		if o != "[]" {
			fmt.Sscanf(o, "[%d]", &nbits)
		}
		if len(ps) > 0 && int(ps[len(ps)-1])+1 > nbits {
			nbits = int(ps[len(ps)-1]) + 1
		}
		if nbits <= 0 {
			continue
		}
		nbits = (nbits + 63) / 64 * 64
		i, e, rk := c12Range(g, ps, 0, nbits)
		key := ""
		if len(ps) > 0 {
			key = fmt.Sprintf("OQ/%s/nw%d/np%d", rk, minInt(nbits/64, 4), minInt(len(ps), 3))
		}
		g.Stat("of-query")
		g.Do("bitmap.Of/query", L(I32s(ps), o, B(g.R.Bool()), Int(i), Int(e)), key)
	}
	for k := 0; k < g.N(500, 20000); k++ {
		n, ops, mode, fs, lim, all := c12History(g)
		if lim <= 0 {
			continue
		}
		i, e, rk := c12Range(g, all, 0, lim)
		key := ""
		if len(all) > 0 {
			key = fmt.Sprintf("BQ/m%d/%s/%s", mode, fs, rk)
		}
		g.Stat("builder-query")
		g.Do("bitmap.Builder/query", L(Int(n), L(ops...), B(g.R.Bool()), Int(i), Int(e)), key)
	}

	// (9) widening: OfMany against Of on the shifted concatenation, positions >= size in ANY segment (the
	// concatenation need not be ascending and Of may panic); sizes >= 0, every segment ascending and non-negative
	for k := 0; k < g.N(1200, 30000); k++ {
		nseg := g.R.Range(0, 5)
		subs := make([][]int32, nseg)
		sizes := make([]int32, nseg)
		over := false
		for s := 0; s < nseg; s++ {
			size := g.R.Pick(0, 1, 5, 63, 64, 65, 100, 128)
			sizes[s] = int32(size)
			subs[s] = []int32{}
			if g.R.Intn(4) > 0 {
				l := size
				if l <= 0 || g.R.Intn(3) == 0 {
					l = c12MaxInt(size, 0) + g.R.Pick(1, 2, 64, 65, 200) // positions >= size, in any segment
					over = true
				}
				subs[s] = c12Positions(g, g.R.Intn(5), l, g.R.Pick(1, 3, 6))
			}
		}
		key := ""
		if nseg > 1 {
			key = fmt.Sprintf("OMA/seg%d/over%v", nseg, over)
		}
		g.Stat("ofmany-asof")
		g.Do("bitmap.OfMany/asOf", L(c12Subs(subs), I32s(sizes)), key)
		if fits, asc, rev := c12Shape(subs, sizes); fits {
			k2 := ""
			if nseg > 1 {
				k2 = fmt.Sprintf("OMN/seg%d/asc%v/revisit%v", nseg, asc, rev)
			}
			g.Do("bitmap.OfMany", L(c12Subs(subs), I32s(sizes)), k2)
			g.Do("bitmap.Builder/asOfMany", L(Int(g.R.Pick(0, 64)), c12Subs(subs), I32s(sizes)), k2)
		}
	}
	// (9b) overhang aimed at REVISITED words: small sizes (1..40) with positions 64..200 far past the size, followed by
	// segments with small positions that fall back into words the overhang (or an earlier segment) already touched
	for k := 0; k < g.N(800, 30000); k++ {
		nseg := g.R.Range(2, 5)
		subs := make([][]int32, nseg)
		sizes := make([]int32, nseg)
		for s := 0; s < nseg; s++ {
			size := g.R.Range(1, 40)
			sizes[s] = int32(size)
			var ps []int32
			if g.R.Intn(4) > 0 {
				for _, p := range c12Positions(g, g.R.Intn(2), size, g.R.Pick(1, 2, 3)) { // small positions inside the size
					ps = append(ps, p)
				}
			}
			if s < nseg-1 && g.R.Intn(3) > 0 || g.R.Intn(4) == 0 {
				p := g.R.Range(64, 200)
				if len(ps) == 0 || int(ps[len(ps)-1]) < p {
					ps = append(ps, int32(p))
					if g.R.Bool() {
						ps = append(ps, int32(p+g.R.Pick(1, 2, 63, 64)))
					}
				}
			}
			if ps == nil {
				ps = []int32{}
			}
			subs[s] = ps
		}
		fits, asc, rev := c12Shape(subs, sizes)
		key := fmt.Sprintf("OMR/seg%d/fits%v/asc%v/revisit%v", nseg, fits, asc, rev)
		g.Stat("ofmany-revisit")
		g.Do("bitmap.OfMany/asOf", L(c12Subs(subs), I32s(sizes)), key)
		if fits {
			g.Do("bitmap.OfMany", L(c12Subs(subs), I32s(sizes)), key)
			g.Do("bitmap.Builder/asOfMany", L(Int(g.R.Pick(0, 64)), c12Subs(subs), I32s(sizes)), key)
		}
	}

	// (10) exhaustive small sub-domains
	// (a) Get/Get1 at every position inside, SafeGet/SafeGet1 at every i in [-130, 64*len+130], on six small bitmaps
	for _, ws := range [][]uint64{{}, {1}, {1 << 63}, {5, 1 << 63}, {^uint64(0), 0}, {0, 0x8000000000000001, 6}} {
		n := 64 * len(ws)
		for i := -130; i <= n+130; i++ {
			key := "SafeX/out"
			if i >= 0 && i < n {
				key = fmt.Sprintf("GetX/off%s", c13Off(i))
				g.Do("bitmap.Get", L(U64s(ws), Int(i)), key)
			}
			g.Stat("get-exh")
			g.Do("bitmap.SafeGet", L(U64s(ws), Int(i)), key)
		}
	}
	g.Exhaust = append(g.Exhaust, "Get/Get1 at every inside position and SafeGet/SafeGet1 at every i in [-130, 64*len+130] on 6 bitmaps of 0..3 words")
	// (b) Builder: every history of at most 2 (thorough: 3) calls over a 10-call alphabet, NewBuilder(0) and NewBuilder(64)
	balpha := []string{L("0", "[]", "0"), L("0", "[]", "1"), L("0", "[0]", "1"), L("0", "[63]", "64"), L("0", "[64]", "64"),
		L("0", "[0,1]", "0"), L("1", "0", "1"), L("1", "63", "1"), L("1", "64", "0"), L("1", "64", "1")}
	maxLen := 2
	if g.Thorough {
		maxLen = 3
	}
	var hist func(prefix []string)
	hist = func(prefix []string) {
		if len(prefix) > 0 {
			for _, n := range []int{0, 64} {
				g.Stat("builder-exh")
				g.Do("bitmap.Builder", L(Int(n), L(prefix...)), fmt.Sprintf("BX/len%d", len(prefix)))
			}
		}
		if len(prefix) == maxLen {
			return
		}
		for _, c := range balpha {
			hist(append(append([]string{}, prefix...), c))
		}
	}
	hist(nil)
	g.Exhaust = append(g.Exhaust, fmt.Sprintf("Builder: every history of 1..%d calls over {Extend([],0), Extend([],1), Extend([0],1), Extend([63],64), Extend([64],64), Extend([0,1],0), Set(0,1), Set(63,1), Set(64,0), Set(64,1)} from NewBuilder(0) and NewBuilder(64)", maxLen))
	// (c) OfMany: every list of at most 3 segments over a 12-segment alphabet (five of them with a position far past the
	// segment's size, so that later segments revisit words); all of them through OfMany/asOf, the ones on which the real
	// OfMany does not panic also through OfMany (set of bits) and Builder/asOfMany
	type seg struct {
		ps   []int32
		size int32
	}
	salpha := []seg{{nil, 0}, {nil, 1}, {[]int32{0}, 1}, {[]int32{0}, 64}, {[]int32{63}, 64}, {[]int32{0, 63}, 64}, {[]int32{64}, 64},
		{[]int32{0, 70}, 1}, {[]int32{1}, 100}, {[]int32{130}, 40}, {[]int32{2}, 3}, {[]int32{65, 200}, 10}}
	var segs func(prefix []seg)
	segs = func(prefix []seg) {
		subs := make([][]int32, len(prefix))
		sizes := make([]int32, len(prefix))
		for i, sg := range prefix {
			subs[i] = append([]int32{}, sg.ps...)
			sizes[i] = sg.size
		}
		fits, asc, rev := c12Shape(subs, sizes)
		key := fmt.Sprintf("OMX/seg%d/fits%v/asc%v/revisit%v", len(prefix), fits, asc, rev)
		g.Stat("ofmany-exh")
		g.Do("bitmap.OfMany/asOf", L(c12Subs(subs), I32s(sizes)), key)
		if fits {
			g.Do("bitmap.OfMany", L(c12Subs(subs), I32s(sizes)), key)
			g.Do("bitmap.Builder/asOfMany", L("0", c12Subs(subs), I32s(sizes)), key)
		}
		if len(prefix) == 3 {
			return
		}
		for _, c := range salpha {
			segs(append(append([]seg{}, prefix...), c))
		}
	}
	segs(nil)
	g.Exhaust = append(g.Exhaust, "OfMany / Builder: every list of 0..3 segments over {([],0), ([],1), ([0],1), ([0],64), ([63],64), ([0,63],64), ([64],64), ([0,70],1), ([1],100), ([130],40), ([2],3), ([65,200],10)}")

	// (11) Builder literals over a junk-filled scratch buffer, and roll-backs between calls
	for k := 0; k < g.N(900, 25000); k++ {
		nw := g.R.Pick(0, 0, 0, 1, 2, 3)
		ws0 := g.R.Words(nw)
		off0 := 64 * nw
		if nw > 0 && g.R.Intn(3) == 0 {
			off0 = g.R.Intn(64*nw + 1)
		}
		spare := g.R.Pick(0, 1, 3, 8, 40)
		ops, fs := c12MemHistory(g, off0)
		g.Stat("builder-mem")
		g.Do("bitmap.Builder/mem", L(U64s(ws0), Int(spare), Int(off0), L(ops...)), fmt.Sprintf("BM/nw%d/sp%d/%s/ops%d", nw, minInt(spare, 8), fs, (len(ops)+3)/4))
	}
	// exhaustive: every history of 1..3 (thorough 4) ops over {Extend([0,70],128), Extend([],128), Extend([5],64), Extend([1],1),
	// Set(100,1), roll back to 0, roll back to 1} (roll-backs beyond the offset skipped) on an empty builder over 4 junk words
	type mo struct {
		s         string
		kind, arg int // 0 extend by arg, 1 set at arg, 2 roll back to arg
	}
	malpha := []mo{{L("0", "[0,70]", "128"), 0, 128}, {L("0", "[]", "128"), 0, 128}, {L("0", "[5]", "64"), 0, 64}, {L("0", "[1]", "1"), 0, 1},
		{L("1", "100", "1"), 1, 100}, {L("2", "0"), 2, 0}, {L("2", "1"), 2, 1}}
	mmax := 3
	if g.Thorough {
		mmax = 4
	}
	var mh func(prefix []string, off int)
	mh = func(prefix []string, off int) {
		if len(prefix) > 0 {
			g.Stat("builder-mem-exh")
			g.Do("bitmap.Builder/mem", L("[]", "4", "0", L(prefix...)), fmt.Sprintf("BMX/len%d", len(prefix)))
		}
		if len(prefix) == mmax {
			return
		}
		for _, c := range malpha {
			o2 := off
			switch c.kind {
			case 0:
				o2 = off + c.arg
			case 1:
				if c.arg >= off {
					o2 = c.arg + 1
				}
			default:
				if 64*c.arg > off {
					continue
				}
				o2 = 64 * c.arg
			}
			mh(append(append([]string{}, prefix...), c.s), o2)
		}
	}
	mh(nil, 0)
	g.Exhaust = append(g.Exhaust, fmt.Sprintf("Builder over a scratch buffer with 4 junk words: every history of 1..%d ops over {Extend([0,70],128), Extend([],128), Extend([5],64), Extend([1],1), Set(100,1), roll back to word 0, roll back to word 1}", mmax))

	// (12) sessions: Of(nil, n), a Builder working in place on the result, then Of([], n) / OfMany of bit-less segments again
	for k := 0; k < g.N(400, 10000); k++ {
		n := g.R.Pick(0, 1, 63, 64, 65, 128, 200, 1000, 4096, 4097)
		ops, fs := c12MemHistory(g, 0)
		g.Stat("of-session")
		g.Do("bitmap.Of/session", L(Int(n), L(ops...)), fmt.Sprintf("OS/n%d/%s", n, fs))
	}

	// (13) OfMany on sub-lists that share ONE backing array: back to back in order, out of order, overlapping, the same
	// list twice with different lengths; OfMany runs twice and the buffer must stay unchanged
	for k := 0; k < g.N(600, 15000); k++ {
		flat := c12Positions(g, g.R.Intn(4), g.R.Pick(70, 200, 400), g.R.Pick(2, 4, 8, 12))
		nf := len(flat)
		var cuts [][2]int
		kind := g.R.Intn(4)
		switch kind {
		case 0, 1: // back to back
			lo := 0
			for lo < nf {
				hi := lo + g.R.Range(0, 3)
				if hi > nf {
					hi = nf
				}
				cuts = append(cuts, [2]int{lo, hi})
				if hi == lo && g.R.Bool() {
					break
				}
				lo = hi
			}
			if kind == 1 { // out of buffer order
				for i := len(cuts) - 1; i > 0; i-- {
					j := g.R.Intn(i + 1)
					cuts[i], cuts[j] = cuts[j], cuts[i]
				}
			}
		case 2: // the same list with growing lengths
			for _, h := range []int{1, 3, 2} {
				if h <= nf {
					cuts = append(cuts, [2]int{0, h})
				}
			}
		default: // arbitrary windows
			for c := g.R.Range(1, 4); c > 0; c-- {
				lo := g.R.Intn(nf + 1)
				cuts = append(cuts, [2]int{lo, lo + g.R.Intn(nf-lo+1)})
			}
		}
		subs := make([][]int32, len(cuts))
		sizes := make([]int32, len(cuts))
		cs := make([]string, len(cuts))
		big := int32(1)
		if nf > 0 {
			big = flat[nf-1] + 1
		}
		for i, c := range cuts {
			subs[i] = flat[c[0]:c[1]]
			cs[i] = L(Int(c[0]), Int(c[1]))
			sizes[i] = int32(g.R.Pick(0, 1, 5, 64, 100))
			if g.R.Bool() {
				sizes[i] = big
			}
		}
		if fits, _, _ := c12Shape(subs, sizes); !fits {
			for i := range sizes {
				sizes[i] = big
			}
		}
		fits, asc, rev := c12Shape(subs, sizes)
		if !fits {
			continue
		}
		g.Stat("ofmany-shared")
		g.Do("bitmap.OfMany/shared", L(I32s(flat), L(cs...), I32s(sizes)), fmt.Sprintf("OMS/kind%d/n%d/asc%v/revisit%v", kind, minInt(len(cuts), 3), asc, rev))
	}
}
