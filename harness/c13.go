package main

import (
	"fmt"
	"math/bits"

	"github.com/openacid/low/bitmap"
)

var c13Tick int

func init() {
	// One case in 16: after the lone call, the same query is made by three callers at once on the SAME
	// bitmap, next to three callers making other queries on it (ends / starts sweeping the whole bitmap).
	// Readers share a bitmap freely; the first answer that differs from the lone caller's is the observation.
	c13Shared := func(bm []uint64, lone int32, same func() int32, other func(g, j int)) int32 {
		c13Tick++
		if c13Tick%16 != 0 || len(bm) == 0 {
			return lone
		}
		var bad [3]struct {
			hit bool
			v   int32
		}
		lockstep(6, 120, func(g, j int) {
			if g < 3 {
				if v := same(); v != lone && !bad[g].hit {
					bad[g].hit, bad[g].v = true, v
				}
			} else {
				func() {
					defer func() { recover() }()
					other(g-3, j)
				}()
			}
		})
		for _, b := range bad {
			if b.hit {
				return b.v
			}
		}
		return lone
	}
	Exec["bitmap.NextOne"] = func(a []V) string {
		bm, i, e := a[0].U64s(), a[1].I32(), a[2].I32()
		r := bitmap.NextOne(bm, i, e)
		n := int32(64 * len(bm))
		return I32(c13Shared(bm, r, func() int32 { return bitmap.NextOne(bm, i, e) }, func(g, j int) {
			e2 := int32((j*3+g)*29)%n + 1
			if g == 2 {
				bitmap.PrevOne(bm, e2-1, e2)
			} else {
				bitmap.NextOne(bm, 0, e2)
			}
		}))
	}
	Exec["bitmap.PrevOne"] = func(a []V) string {
		bm, i, e := a[0].U64s(), a[1].I32(), a[2].I32()
		r := bitmap.PrevOne(bm, i, e)
		n := int32(64 * len(bm))
		return I32(c13Shared(bm, r, func() int32 { return bitmap.PrevOne(bm, i, e) }, func(g, j int) {
			p := int32((j*3+g)*29) % n
			if g == 2 {
				bitmap.NextOne(bm, 0, p+1)
			} else {
				bitmap.PrevOne(bm, p, n)
			}
		}))
	}
	// results for every end in [i, 64*len]
	Exec["bitmap.NextOne/ends"] = func(a []V) string {
		bm, i := a[0].U64s(), a[1].I32()
		n := int32(64 * len(bm))
		r := make([]int32, 0, n)
		for e := i; e <= n; e++ {
			r = append(r, bitmap.NextOne(bm, i, e))
		}
		return I32s(r)
	}
	// results for every i in [0, min(e, 64*len-1)]
	Exec["bitmap.PrevOne/starts"] = func(a []V) string {
		bm, e := a[0].U64s(), a[1].I32()
		n := int32(64 * len(bm))
		r := make([]int32, 0, n)
		for i := int32(0); i <= e && i < n; i++ {
			r = append(r, bitmap.PrevOne(bm, i, e))
		}
		return I32s(r)
	}
	Register("C13", genC13)
}

func c13Bit(bm []uint64, p int) bool { return bm[p>>6]>>(uint(p)&63)&1 == 1 }

func c13Off(p int) string {
	switch p & 63 {
	case 0:
		return "0"
	case 1:
		return "1"
	case 63:
		return "63"
	}
	return "m"
}

// c13Key: which path of NextOne / PrevOne a case takes.  "" (trivial) for a
// bitmap without 1-bits or an empty range.
func c13Key(next bool, bm []uint64, i, e int) string {
	if popcount(bm) == 0 || i == e {
		return ""
	}
	n := 64 * len(bm)
	var where string
	hit := -1
	if next {
		for p := i; p < n; p++ {
			if c13Bit(bm, p) {
				hit = p
				break
			}
		}
		switch {
		case hit < 0:
			where = "none"
		case hit>>6 == i>>6:
			where = "w0"
		default:
			k := hit>>6 - (i+63)>>6 // all-zero words stepped over by the loop
			if k > 4 {
				k = 4
			}
			where = fmt.Sprintf("skip%d", k)
		}
		low := bm[i>>6]&(1<<(uint(i)&63)-1) != 0
		clip := hit >= e
		return fmt.Sprintf("N/%s/clip%v/low%v/i%s/e%s/b%s", where, clip, low, c13Off(i), c13Off(e), c13Off(hit&127))
	}
	last := e - 1
	for p := last; p >= 0; p-- {
		if c13Bit(bm, p) {
			hit = p
			break
		}
	}
	switch {
	case hit < 0:
		where = "none"
	case hit>>6 == last>>6:
		where = "w0"
	default:
		k := last>>6 - 1 - hit>>6
		if k > 4 {
			k = 4
		}
		where = fmt.Sprintf("skip%d", k)
	}
	high := bits.Len64(bm[last>>6]) > last&63+1
	clip := hit < i
	return fmt.Sprintf("P/%s/clip%v/high%v/i%s/e%s/b%s", where, clip, high, c13Off(i), c13Off(e), c13Off(hit&127))
}

func genC13(g *Gen) {
	// sessions on one held slice first (c13w.go)
	genC13Sessions(g)
	// state that only big bitmaps trigger: in-place updates, re-allocation, ranges > 2^23 bits (c13w.go)
	genC13Big(g)

	one := func(bm []uint64, i, e int, bucket string) {
		n := 64 * len(bm)
		if !(0 <= i && i <= e && e <= n && i < n) {
			return
		}
		g.Stat(bucket)
		w := U64s(bm)
		g.Do("bitmap.NextOne", L(w, Int(i), Int(e)), c13Key(true, bm, i, e))
		if e >= 1 {
			g.Do("bitmap.PrevOne", L(w, Int(i), Int(e)), c13Key(false, bm, i, e))
		}
	}
	sweep := func(bm []uint64, bucket string) {
		n := 64 * len(bm)
		w := U64s(bm)
		key := ""
		if popcount(bm) > 0 {
			key = fmt.Sprintf("sweep/nw%d", len(bm))
		}
		for i := 0; i < n; i++ {
			g.Stat(bucket)
			g.Do("bitmap.NextOne/ends", L(w, Int(i)), key)
		}
		for e := 1; e <= n; e++ {
			g.Stat(bucket)
			g.Do("bitmap.PrevOne/starts", L(w, Int(e)), key)
		}
	}

	// (1) exhaustive: every single-bit bitmap of 1..3 words x ALL (i, end) of the domain
	// (quick: 1..2 words completely, 3 words for the bit offsets 0, 1, 31, 32, 62, 63 of every word)
	for n := 1; n <= 3; n++ {
		for b := 0; b < 64*n; b++ {
			if n == 3 && !g.Thorough {
				switch b & 63 {
				case 0, 1, 31, 32, 62, 63:
				default:
					continue
				}
			}
			bm := make([]uint64, n)
			bm[b>>6] = 1 << (uint(b) & 63)
			sweep(bm, "exh-1bit")
		}
	}
	if g.Thorough {
		g.Exhaust = append(g.Exhaust, "every single-bit bitmap of 1..3 words x all (i,end) with 0<=i<=end<=64n, i<64n (PrevOne: end>=1)")
	} else {
		g.Exhaust = append(g.Exhaust, "every single-bit bitmap of 1..2 words x all (i,end) of the domain; 3 words: bit offsets {0,1,31,32,62,63} of every word x all (i,end)")
	}
	// all-zero and all-one bitmaps of 1..3 words, and a two-bit bitmap with the bits 0 and 63 of every word
	for n := 1; n <= 3; n++ {
		z := make([]uint64, n)
		o := make([]uint64, n)
		e := make([]uint64, n)
		for i := range o {
			o[i] = ^uint64(0)
			e[i] = 1 | 1<<63
		}
		sweep(z, "exh-const")
		sweep(o, "exh-const")
		sweep(e, "exh-const")
	}
	g.Exhaust = append(g.Exhaust, "all-zero, all-one and {bit0,bit63}-per-word bitmaps of 1..3 words x all (i,end) of the domain")

	// (2) structured: 1-bits separated by 0..4 all-zero words, 1-bits at offsets 0 and 63,
	// ranges aimed at the 1-bits, the word boundaries and their neighbours
	nb := g.N(700, 20000)
	for k := 0; k < nb; k++ {
		var bm []uint64
		var marks []int // interesting positions
		groups := g.R.Range(1, 4)
		for gi := 0; gi < groups; gi++ {
			gap := g.R.Intn(5)
			if gi == 0 && g.R.Bool() {
				gap = 0
			}
			for z := 0; z < gap; z++ {
				bm = append(bm, 0)
			}
			var w uint64
			switch g.R.Intn(8) {
			case 0:
				w = 1
			case 1:
				w = 1 << 63
			case 2:
				w = 1 | 1<<63
			case 3:
				w = 1 << uint(g.R.Intn(64))
			case 4:
				w = 1<<uint(g.R.Intn(64)) | 1<<uint(g.R.Intn(64))
			case 5:
				w = ^uint64(0)
			default:
				w = g.R.Word()
				if w == 0 {
					w = 2
				}
			}
			base := 64 * len(bm)
			marks = append(marks, base+bits.TrailingZeros64(w), base+63-bits.LeadingZeros64(w))
			bm = append(bm, w)
		}
		for z := g.R.Intn(3); z > 0; z-- {
			bm = append(bm, 0)
		}
		n := 64 * len(bm)
		pos := func() int {
			var p int
			switch g.R.Intn(5) {
			case 0:
				p = marks[g.R.Intn(len(marks))] + g.R.Pick(-1, 0, 0, 1)
			case 1:
				p = 64*g.R.Intn(len(bm)+1) + g.R.Pick(-1, 0, 0, 1)
			case 2:
				p = g.R.Pick(0, 1, n-1, n)
			default:
				p = g.R.Intn(n + 1)
			}
			if p < 0 {
				p = 0
			}
			if p > n {
				p = n
			}
			return p
		}
		for q := 0; q < 16; q++ {
			i, e := pos(), pos()
			if i > e {
				i, e = e, i
			}
			if q == 0 {
				e = i // empty range
			}
			if q == 1 {
				i, e = 0, n // whole bitmap
			}
			if i >= n {
				i = n - 1
			}
			one(bm, i, e, fmt.Sprintf("struct-g%d", groups))
		}
	}

	// (3) random bitmaps of 1..12 words from the shared pattern mix, random ranges
	nr := g.N(300, 8000)
	for k := 0; k < nr; k++ {
		nw := g.R.Range(1, 12)
		bm := g.R.Words(nw)
		n := 64 * nw
		for q := 0; q < 10; q++ {
			i, e := g.R.Intn(n), g.R.Intn(n+1)
			if g.R.Intn(3) == 0 {
				i = 64*g.R.Intn(nw) + g.R.Pick(0, 1, 63)
			}
			if g.R.Intn(3) == 0 {
				e = 64*g.R.Intn(nw+1) + g.R.Pick(0, 1, 63)
				if e > n {
					e = n
				}
			}
			if i > e {
				i, e = e, i
			}
			if i >= n {
				i = n - 1
			}
			one(bm, i, e, "rand")
		}
	}

	// the widening: sparse / large / held bitmaps, walks, duality (c13w.go)
	genC13w(g)
}
