package main

import (
	"fmt"
	"io"
	"math"
	"strings"

	"github.com/openacid/low/iohelper"
)

// C18 widening: sections of sections.
//
//	iohelper.Nested  [init, [[off, n] ...], [[level, call] ...], [wresp ...]]
//	    writer 0 = NewSectionWriter(memfile, off0, n0); writer i = NewSectionWriter(writer i-1, offi, ni)
//	    (n = -1: AtToWriter); every call is addressed to a level (0 = innermost)
//	    obs: [[per call: return values, (offset, bytes) the FILE received], file content]
func init() {
	Exec["iohelper.Nested"] = func(a []V) string {
		m := &c18File{data: append([]byte(nil), a[0].Bytes()...), wscript: a[3].L}
		var ws []c18Section
		var under io.WriterAt = m
		for _, w := range a[1].L {
			o, n := w.L[0].I64(), w.L[1].I64()
			var s c18Section
			if n == -1 {
				s = iohelper.AtToWriter(under, o).(c18Section)
			} else {
				s = iohelper.NewSectionWriter(under, o, n)
			}
			ws = append(ws, s)
			under = s
		}
		out := make([]string, 0, len(a[2].L))
		for _, lc := range a[2].L {
			m.wcalls = m.wcalls[:0]
			rets := c18Call(ws[lc.L[0].Int()], lc.L[1])
			out = append(out, L(rets, L(m.wcalls...)))
		}
		return L(L(out...), Bytes(m.data))
	}
}

func genC18Nested(g *Gen) {
	const maxI = math.MaxInt64
	seq := byte(0)
	buf := func(l int) []byte {
		b := make([]byte, l)
		for i := range b {
			seq++
			if seq == 0 {
				seq = 1
			}
			b[i] = seq
		}
		return b
	}
	type win struct{ o, n int64 }
	emit := func(init []byte, ws []win, at []bool, lcalls []string, script []string, used map[string]bool, bucket string) {
		// class of the outermost window relative to the one under it
		class := "d1"
		if len(ws) >= 2 {
			in, out := ws[len(ws)-2], ws[len(ws)-1]
			switch {
			case in.n == 0:
				class = "in0"
			case out.n == 0:
				class = "out0"
			case out.o >= in.n:
				class = "beyond"
			case out.n > in.n-out.o:
				class = "straddle"
			case out.o+out.n == in.n:
				class = "flush"
			default:
				class = "inside"
			}
		}
		key := ""
		if len(ws) >= 2 && used["w"] { // non-trivial: nested, and a Write/WriteAt was issued on an outer level
			var us []string
			for _, f := range []string{"w", "a", "s", "i", "f"} {
				if used[f] {
					us = append(us, f)
				}
			}
			key = fmt.Sprintf("nest/d%d/%s/%s", len(ws), class, strings.Join(us, ""))
		}
		g.Stat(bucket)
		wl := make([]string, len(ws))
		for i, w := range ws {
			n := w.n
			if at[i] {
				n = -1
			}
			wl[i] = L(I(w.o), I(n))
		}
		g.Do("iohelper.Nested", L(Bytes(init), L(wl...), L(lcalls...), L(script...)), key)
	}
	// exhaustive small: inner (1, n1) n1 in 0..4, outer (o2, n2) o2 in 0..5, n2 in {0..4, AtToWriter},
	// calls on the outer: Write(3), then one of Write(2) / WriteAt(2 bytes at 0..2) / Seek(1,start)+Write(2); then inner Write(1)
	for n1 := int64(0); n1 <= 4; n1++ {
		for o2 := int64(0); o2 <= 5; o2++ {
			for n2 := int64(-1); n2 <= 4; n2++ {
				for v := 0; v < 5; v++ {
					ws := []win{{1, n1}, {o2, n2}}
					at := []bool{false, n2 == -1}
					if n2 == -1 {
						ws[1].n = maxI - o2
					}
					lc := []string{L("1", L("0", Bytes(buf(3))))}
					switch v {
					case 0:
						lc = append(lc, L("1", L("0", Bytes(buf(2)))))
					case 1, 2, 3:
						lc = append(lc, L("1", L("1", Bytes(buf(2)), I(int64(v-1)))))
					default:
						lc = append(lc, L("1", L("2", "1", "0")), L("1", L("0", Bytes(buf(2)))))
					}
					lc = append(lc, L("0", L("0", Bytes(buf(1)))), L("1", "[3]"))
					emit(c18Data(3, 200), ws, at, lc, nil, map[string]bool{"w": true}, "nest-exh")
				}
			}
		}
	}
	g.Exhaust = append(g.Exhaust, "Nested: inner (1, n1) n1 in 0..4 x outer (o2, n2) o2 in 0..5, n2 in {AtToWriter, 0..4} x outer Write(3) then Write(2) / WriteAt(2, 0..2) / Seek(1,start)+Write(2), then inner Write(1), outer Size")

	nn := g.N(3000, 50000)
	for k := 0; k < nn; k++ {
		depth := g.R.Pick(2, 2, 2, 2, 3)
		ws := make([]win, depth)
		at := make([]bool, depth)
		ws[0] = win{int64(g.R.Pick(0, 1, 7, 50)), int64(g.R.Pick(0, 1, 5, 10, 30, 100))}
		if g.R.Intn(8) == 0 {
			ws[0].n = maxI - ws[0].o
			at[0] = g.R.Bool()
		}
		for i := 1; i < depth; i++ {
			inN := ws[i-1].n
			if inN > 120 {
				inN = 120
			}
			var o, n int64
			switch g.R.Intn(7) {
			case 0: // inside
				o = int64(g.R.Intn(int(inN) + 1))
				n = int64(g.R.Intn(int(inN-o) + 1))
			case 1: // flush with the inner end
				o = int64(g.R.Intn(int(inN) + 1))
				n = inN - o
			case 2, 3: // straddling the inner end
				o = int64(g.R.Intn(int(inN) + 1))
				n = inN - o + int64(g.R.Range(1, 20))
			case 4: // beyond
				o = inN + int64(g.R.Range(0, 5))
				n = int64(g.R.Range(0, 10))
			case 5: // empty outer
				o, n = int64(g.R.Intn(int(inN)+2)), 0
			default: // no practical end
				o = int64(g.R.Intn(int(inN) + 2))
				n = maxI - o
				at[i] = g.R.Bool()
			}
			ws[i] = win{o, n}
		}
		var script []string
		fmode := g.R.Pick(0, 0, 0, 1)
		ncalls := g.R.Range(2, 14)
		used := map[string]bool{}
		var lc []string
		for c := 0; c < ncalls; c++ {
			if fmode == 1 {
				script = append(script, L(I(int64(g.R.Pick(0, 1, 2, 3, 100000))), Int(g.R.Pick(0, 0, 1, 2))))
				used["f"] = true
			}
			lvl := depth - 1
			if g.R.Intn(4) == 0 {
				lvl = g.R.Intn(depth)
				if lvl < depth-1 {
					used["i"] = true // a direct call on an inner writer
				}
			}
			room := ws[lvl].n
			if room > 60 {
				room = 60
			}
			switch g.R.Intn(8) {
			case 0, 1, 2, 3:
				lc = append(lc, L(Int(lvl), L("0", Bytes(buf(g.R.Pick(0, 1, 2, 3, 5, 8, 13, 40))))))
				if lvl > 0 {
					used["w"] = true
				}
			case 4, 5:
				lc = append(lc, L(Int(lvl), L("1", Bytes(buf(g.R.Pick(0, 1, 2, 5, 13))), I(int64(g.R.Range(-1, int(room)+1))))))
				if lvl > 0 {
					used["w"], used["a"] = true, true
				}
			case 6:
				lc = append(lc, L(Int(lvl), L("2", I(int64(g.R.Range(-1, int(room)+2))), "0")))
				used["s"] = true
			default:
				lc = append(lc, L(Int(lvl), "[3]"))
			}
		}
		emit(c18Data(g.R.Pick(0, 20, 100), 200), ws, at, lc, script, used, fmt.Sprintf("nest-rand-d%d-f%d", depth, fmode))
	}
}
