package main

// C19 - query and codec functions are pure and safe for concurrent readers.
//
// One operation, c19.Batch:
//
//	args = [T, R, words, bitmapSize, keys, calls]      calls = [[fid, p1, p2, p3, ref], ...]
//
// The executor builds ONE set of shared inputs from the arguments (the bitmap words, its rank / select
// indexes, the keys as strings and as []byte, their bitStr forms, their n-bit word forms, a *SigBits),
// starts T goroutines (8..16) that each run the whole mixed batch R times in a different order against
// the SAME shared values, and reports
//
//	[ per-goroutine result lists (in call order), words afterwards, keys afterwards,
//	  derived inputs unchanged (0/1), exported tables unchanged since program start (0/1) ]
//
// ref is the result of the same call made alone, by the generator, on a private copy of the inputs before
// the concurrent run ("its results when run alone on the initial memory", Spec/Concurrency.v).  The Coq side
// accepts the observation iff every goroutine obtained exactly the refs and nothing changed.  The same
// cases run a second time in a -race build (lib/props.d/C19.py); a race report kills the harness and is
// reported by ./check as a violation with the batch that was running.

import (
	"fmt"
	"math/bits"
	"runtime"
	"sort"
	"strings"
	"sync"

	"github.com/openacid/low/bitmap"
	"github.com/openacid/low/bitstr"
	"github.com/openacid/low/bitword"
	"github.com/openacid/low/bmtree"
	"github.com/openacid/low/sigbits"
)

// ---------------------------------------------------------------------------- shared inputs

type c19Shared struct {
	words           []uint64
	r64, r128       []int32
	s32, s32b, r64b []int32
	tsize           int32
	keys            []string
	kb              [][]byte         // keys as []byte
	bs              [][]byte         // bitStr of every key (length varies with the index)
	fs              map[int][][]byte // n-bit words of every key, n = 1,2,4,8
	sb              *sigbits.SigBits
	fdb             []int32 // FirstDiffBits(keys), what sb holds
	// a second shared bitmap (derived from the first: other contents, one word longer) with its indexes:
	// function ids 100+f run bitmap function f on it, so that the goroutines of one batch call the same
	// function with DIFFERENT arguments at the same time (hidden scratch state then shows as a wrong answer)
	alt *c19Shared
	pos []int32 // the 1-bit positions of words (shared input of the builders)
}

func c19AltWords(words []uint64) []uint64 {
	w2 := make([]uint64, len(words)+1)
	for i, w := range words {
		w2[i] = bits.Reverse64(w) ^ 0x5555555555555555>>uint(i&3)
	}
	w2[len(words)] = 0xf00000000000000f
	return w2
}

func c19BuildBitmap(sh *c19Shared) {
	sh.r64 = bitmap.IndexRank64(sh.words)
	sh.r128 = bitmap.IndexRank128(sh.words)
	sh.s32 = bitmap.IndexSelect32(sh.words)
	sh.s32b, sh.r64b = bitmap.IndexSelect32R64(sh.words)
	sh.pos = bitmap.ToArray(sh.words)
}

var c19Widths = []int{1, 2, 4, 8}

func c19BsTo(i int, s string) int32 {
	to := 8*len(s) - (i*3)%8
	if to < 0 {
		to = 0
	}
	return int32(to)
}

func c19Build(words []uint64, tsize int32, keys []string) *c19Shared {
	sh := &c19Shared{words: words, tsize: tsize, keys: keys, fs: map[int][][]byte{}}
	c19BuildBitmap(sh)
	sh.alt = &c19Shared{words: c19AltWords(words), tsize: tsize}
	c19BuildBitmap(sh.alt)
	for i, k := range keys {
		sh.kb = append(sh.kb, []byte(k))
		sh.bs = append(sh.bs, bitstr.New(k, 0, c19BsTo(i, k)))
	}
	for _, n := range c19Widths {
		sh.fs[n] = bitword.BitWord[n].FromStrs(keys)
	}
	sh.sb = sigbits.New(keys)
	sh.fdb = sigbits.FirstDiffBits(keys)
	return sh
}

// c19Derived renders everything that is derived from the primary inputs and shared between the goroutines.
func (sh *c19Shared) derived() string {
	var b strings.Builder
	b.WriteString(I32s(sh.r64) + I32s(sh.r128) + I32s(sh.s32) + I32s(sh.s32b) + I32s(sh.r64b) + I32s(sh.pos))
	if sh.alt != nil {
		a := sh.alt
		b.WriteString(U64s(a.words) + I32s(a.r64) + I32s(a.r128) + I32s(a.s32) + I32s(a.s32b) + I32s(a.r64b) + I32s(a.pos))
	}
	b.WriteString(ByteSlices(sh.kb) + ByteSlices(sh.bs))
	for _, n := range c19Widths {
		b.WriteString(ByteSlices(sh.fs[n]))
	}
	// the SigBits value is opaque: it must still answer like a fresh one
	mi, cnt := sh.sb.CountPrefixes(0, int32(len(sh.keys)), 9)
	b.WriteString(I32(mi) + I32s(cnt) + I32s(sh.fdb))
	return b.String()
}

// exported tables: snapshot at program start, compared after every batch
func c19Tables() string {
	var b strings.Builder
	b.WriteString(U64s(bitmap.Mask[:]) + U64s(bitmap.RMask[:]) + U64s(bitmap.MaskUpto[:]) + U64s(bitmap.RMaskUpto[:]))
	b.WriteString(U64s(bitmap.Bit[:]) + U64s(bitmap.RBit[:]))
	ks := []int{}
	for k := range bitword.BitWord {
		ks = append(ks, k)
	}
	sort.Ints(ks)
	for _, k := range ks {
		w := bitword.BitWord[k]
		// identity and behaviour of the entry
		b.WriteString(fmt.Sprintf("%d:%p:%s;", k, w, Bytes(w.FromStr("\x1b\xe4"))))
	}
	return b.String()
}

var c19Tables0 = c19Tables()

// ---------------------------------------------------------------------------- the calls

type c19Call struct {
	fid        int
	p1, p2, p3 uint64
	bad        bool // an out-of-range call (error path): generator-side mark only
}

var c19Names = map[int]string{
	1: "bitmap.Rank64", 2: "bitmap.Rank128", 3: "bitmap.Select32", 4: "bitmap.Select32R64", 5: "bitmap.NextOne",
	6: "bitmap.PrevOne", 7: "bitmap.Slice", 8: "bitmap.ToArray", 9: "bitmap.Getw", 10: "bitmap.FromStr32",
	11: "bitmap.Get", 12: "bitmap.Get1", 13: "bitmap.SafeGet", 14: "bitmap.SafeGet1",
	15: "bitmap.IndexRank64", 16: "bitmap.IndexRank128", 17: "bitmap.IndexSelect32", 18: "bitmap.IndexSelect32R64", 19: "bitmap.Fmt",
	20: "bmtree.PathToIndex", 21: "bmtree.PathToIndexLoose", 22: "bmtree.IndexToPath", 23: "bmtree.AllPaths", 24: "bmtree.Decode",
	25: "bmtree.PathOf", 26: "bmtree.PathsOf",
	30: "bitstr.Cmp", 31: "bitstr.CmpUpto", 32: "bitstr.StrCmpUpto", 33: "bitstr.Len", 34: "bitstr.New",
	46: "bitword.ToStr/prefix",
	40: "bitword.FromStr", 41: "bitword.ToStr", 42: "bitword.Get", 43: "bitword.FirstDiff", 44: "bitword.FromStrs", 45: "bitword.ToStrs",
	// every goroutine OWNS what it builds, the inputs are shared (widening: Spec/Ownership.v)
	60: "bitmap.Of", 61: "bitmap.Builder", 62: "bitmap.TailBitmap",
	50: "sigbits.FirstDiffBits", 51: "sigbits.ShardByPrefix", 52: "sigbits.CountPrefixes", 53: "sigbits.New",
}

// the functions C19 lists (the others are neighbours: widening)
var c19Listed = map[int]bool{1: true, 2: true, 3: true, 4: true, 5: true, 6: true, 7: true, 8: true, 9: true, 10: true,
	20: true, 21: true, 22: true, 23: true, 24: true, 30: true, 31: true, 32: true,
	40: true, 41: true, 42: true, 43: true, 44: true, 45: true, 46: true, 50: true, 51: true, 52: true}

func c19Pair(a, b int32) string { return L(I32(a), I32(b)) }

// The caller owns what a function returns.  After rendering a returned slice the executor overwrites it: if
// the result aliased an argument, a shared index or a table, that shows as a changed input / a wrong answer in
// another goroutine / a race report.
func c19U64s(r []uint64) string {
	s := U64s(r)
	for i := range r {
		r[i] = ^r[i]
	}
	return s
}
func c19I32s(r []int32) string {
	s := I32s(r)
	for i := range r {
		r[i] = ^r[i]
	}
	return s
}
func c19Bytes(r []byte) string {
	s := Bytes(r)
	for i := range r {
		r[i] = ^r[i]
	}
	return s
}
func c19ByteSlices(r [][]byte) string {
	s := ByteSlices(r)
	for i := range r {
		for j := range r[i] {
			r[i][j] = ^r[i][j]
		}
		r[i] = nil
	}
	return s
}
func c19Strs(r []string) string {
	s := Strs(r)
	for i := range r {
		r[i] = ""
	}
	return s
}

// c19Do runs one call of the REAL function on the shared inputs and renders the result.
func c19Do(sh *c19Shared, c c19Call) string {
	i1, i2, i3 := int32(c.p1), int32(c.p2), int32(c.p3)
	fid := c.fid
	if fid > 100 {
		fid, sh = fid-100, sh.alt
	}
	switch fid {
	case 1:
		return c19Pair(bitmap.Rank64(sh.words, sh.r64, i1))
	case 2:
		return c19Pair(bitmap.Rank128(sh.words, sh.r128, i1))
	case 3:
		return c19Pair(bitmap.Select32(sh.words, sh.s32, i1))
	case 4:
		return c19Pair(bitmap.Select32R64(sh.words, sh.s32b, sh.r64b, i1))
	case 5:
		return I32(bitmap.NextOne(sh.words, i1, i2))
	case 6:
		return I32(bitmap.PrevOne(sh.words, i1, i2))
	case 7:
		return c19U64s(bitmap.Slice(sh.words, i1, i2))
	case 8:
		return c19I32s(bitmap.ToArray(sh.words))
	case 9:
		return U(bitmap.Getw(sh.words, i1, i2))
	case 10:
		n, w := bitmap.FromStr32(sh.keys[c.p1], i2, i3)
		return L(I32(n), U(w))
	case 11:
		return U(bitmap.Get(sh.words, i1))
	case 12:
		return U(bitmap.Get1(sh.words, i1))
	case 13:
		return U(bitmap.SafeGet(sh.words, i1))
	case 14:
		return U(bitmap.SafeGet1(sh.words, i1))
	case 15:
		return c19I32s(bitmap.IndexRank64(sh.words))
	case 16:
		return c19I32s(bitmap.IndexRank128(sh.words))
	case 17:
		return c19I32s(bitmap.IndexSelect32(sh.words))
	case 18:
		a, b := bitmap.IndexSelect32R64(sh.words)
		return L(c19I32s(a), c19I32s(b))
	case 19:
		return Str(bitmap.Fmt(sh.words) + "|" + bitmap.Fmt(sh.r64))
	case 20:
		return I32(bmtree.PathToIndex(sh.tsize, c.p1))
	case 21:
		return c19Pair(bmtree.PathToIndexLoose(sh.tsize, c.p1))
	case 22:
		return U(bmtree.IndexToPath(i1, i2))
	case 23:
		return c19U64s(bmtree.AllPaths(sh.tsize, c.p1, c.p2))
	case 24:
		return c19U64s(bmtree.Decode(sh.tsize, sh.words))
	case 25:
		return U(bmtree.PathOf(sh.keys[c.p1], i2, i3))
	case 26:
		return c19U64s(bmtree.PathsOf(sh.keys, i1, i2, c.p3 != 0))
	case 30:
		return Int(bitstr.Cmp(sh.bs[c.p1], sh.bs[c.p2]))
	case 31:
		return Int(bitstr.CmpUpto(sh.kb[c.p1], sh.bs[c.p2]))
	case 32:
		return Int(bitstr.StrCmpUpto(sh.keys[c.p1], sh.bs[c.p2]))
	case 33:
		return I32(bitstr.Len(sh.bs[c.p1]))
	case 34:
		return c19Bytes(bitstr.New(sh.keys[c.p1], i2, i3))
	case 40:
		return c19Bytes(bitword.BitWord[int(c.p1)].FromStr(sh.keys[c.p2]))
	case 41:
		return Str(bitword.BitWord[int(c.p1)].ToStr(sh.fs[int(c.p1)][c.p2]))
	case 46:
		// ToStr of a PREFIX VIEW of the shared word array of key p2: the words behind the view are live data
		return Str(bitword.BitWord[int(c.p1)].ToStr(sh.fs[int(c.p1)][c.p2][:c.p3]))
	case 42:
		return Int(int(bitword.BitWord[int(c.p1)].Get(sh.keys[c.p2], int(c.p3))))
	case 43:
		return Int(bitword.BitWord[int(c.p1)].FirstDiff(sh.keys[c.p2], sh.keys[c.p3], 0, -1))
	case 44:
		return c19ByteSlices(bitword.BitWord[int(c.p1)].FromStrs(sh.keys))
	case 45:
		return c19Strs(bitword.BitWord[int(c.p1)].ToStrs(sh.fs[int(c.p1)]))
	case 60:
		return c19U64s(bitmap.Of(sh.pos, int32(64*len(sh.words))))
	case 61:
		// a Builder of this goroutine alone: the positions below 64*p1 in one Extend, the others by Set
		b := bitmap.NewBuilder(int32(64 * len(sh.words)))
		cut := 0
		for cut < len(sh.pos) && sh.pos[cut] < 64*i1 {
			cut++
		}
		b.Extend(sh.pos[:cut], 64*i1)
		for _, p := range sh.pos[cut:] {
			b.Set(p, 1)
		}
		return L(U64s(b.Words), I32(b.Offset))
	case 62:
		// a TailBitmap of this goroutine alone, set in an order that depends on p1, compacted as it goes
		tb := bitmap.NewTailBitmap(0)
		n := len(sh.pos)
		for k := 0; k < n; k++ {
			tb.Set(int64(sh.pos[(k+int(c.p1))%n]))
		}
		tb.Compact()
		var probe []string
		for _, p := range sh.pos {
			probe = append(probe, U(tb.Get1(int64(p))))
			if len(probe) >= 8 {
				break
			}
		}
		return L(I(tb.Offset), U64s(tb.Words), L(probe...))
	case 50:
		return c19I32s(sigbits.FirstDiffBits(sh.keys))
	case 51:
		a, b := sigbits.ShardByPrefix(sh.keys, i1)
		return L(c19I32s(a), c19I32s(b))
	case 52:
		m, cnt := sh.sb.CountPrefixes(i1, i2, i3)
		return L(I32(m), c19I32s(cnt))
	case 53:
		m, cnt := sigbits.New(sh.keys).CountPrefixes(0, int32(len(sh.keys)), 9)
		return L(I32(m), c19I32s(cnt))
	}
	panic("c19: unknown function id")
}

// c19Run runs one call; a panic is recovered and its VALUE is handed back (not formatted: the caller decides when).
func c19Run(sh *c19Shared, c c19Call) (out string, pv interface{}) {
	defer func() {
		if e := recover(); e != nil {
			out, pv = "", e
		}
	}()
	return c19Do(sh, c), nil
}

// c19PanicText renders a recovered panic value: its type and what it says.  On the error path this IS the result of
// the call; a value that is shared between callers (one reused error object) says something else later.
func c19PanicText(pv interface{}) string {
	return L(Str("panic"), Str(fmt.Sprintf("%T: %v", pv, pv)))
}

// c19Try: the call alone - a panic value is rendered at once.
func c19Try(sh *c19Shared, c c19Call) string {
	out, pv := c19Run(sh, c)
	if pv != nil {
		return c19PanicText(pv)
	}
	return out
}

func c19CallText(c c19Call, ref string) string {
	return L(Int(c.fid), U(c.p1), U(c.p2), U(c.p3), ref)
}

// ---------------------------------------------------------------------------- executor

func init() {
	Exec["c19.Batch"] = func(a []V) string {
		T, R := a[0].Int(), a[1].Int()
		if T < 1 || T > 64 || R < 1 || R > 8 {
			panic("c19: bad T/R")
		}
		sh := c19Build(a[2].U64s(), a[3].I32(), c19OneBacking(a[4].Strs()))
		calls := make([]c19Call, len(a[5].L))
		for i, c := range a[5].L {
			calls[i] = c19Call{fid: c.L[0].Int(), p1: c.L[1].U64(), p2: c.L[2].U64(), p3: c.L[3].U64()}
		}
		n := len(calls)
		derived0 := sh.derived()
		results := make([][]string, T)
		keptAll := make([][][]interface{}, T)
		start := make(chan struct{})
		var wg sync.WaitGroup
		for t := 0; t < T; t++ {
			wg.Add(1)
			go func(t int) {
				defer wg.Done()
				res := make([]string, n)
				seen := make([]bool, n)
				changed := make([]bool, n)
				kept := make([][]interface{}, n) // recovered panic values, rendered only AFTER the whole batch
				<-start
				for r := 0; r < R*c19RepFactor; r++ {
					for k := 0; k < n; k++ {
						// every goroutine walks the batch in its own order
						idx := (k + t*7 + r*3) % n
						if t&1 == 1 {
							idx = n - 1 - idx
						}
						out, pv := c19Run(sh, calls[idx])
						if pv != nil {
							if len(kept[idx]) < 4 {
								kept[idx] = append(kept[idx], pv)
							}
							continue
						}
						if !seen[idx] {
							seen[idx], res[idx] = true, out
						} else if out != res[idx] && !changed[idx] {
							changed[idx], res[idx] = true, out // show the deviating answer
						}
					}
				}
				results[t] = res
				keptAll[t] = kept
			}(t)
		}
		close(start)
		wg.Wait()
		// the error path: what the kept panic values say now that every goroutine has finished
		for t := range keptAll {
			for idx, vs := range keptAll[t] {
				for _, pv := range vs {
					out := c19PanicText(pv)
					if results[t][idx] == "" {
						results[t][idx] = out
					} else if out != results[t][idx] {
						results[t][idx] = out
						break
					}
				}
			}
		}
		ths := make([]string, T)
		for t := range results {
			ths[t] = L(results[t]...)
		}
		return L(L(ths...), U64s(sh.words), Strs(sh.keys), B(sh.derived() == derived0), B(c19Tables() == c19Tables0))
	}
	// c19.BigKeys  args = [T, n, start, stride, ref]: n counter keys (4 bytes big-endian, start + i*stride), shared by
	// T goroutines that each compute FirstDiffBits(keys) and sigbits.New(keys).CountPrefixes over all of them; the
	// observation is every goroutine's digest [len, sum, weighted sum, CountPrefixes answer] and "keys unchanged".
	// ref = the digest computed alone under GOMAXPROCS(1) (the sequential reference).  Compact arguments: the case is
	// among the slowest of the run and is re-run by the harness under GOMAXPROCS 3 / 33 / 97.
	Exec["c19.BigKeys"] = func(a []V) string {
		T, n := a[0].Int(), a[1].Int()
		if T < 1 || T > 64 || n < 2 || n > 1<<21 {
			panic("c19: bad T/n")
		}
		keys := c19CounterKeys(n, a[2].U64(), a[3].U64())
		sum0 := c19KeySum(keys)
		res := make([]string, T)
		start := make(chan struct{})
		var wg sync.WaitGroup
		for t := 0; t < T; t++ {
			wg.Add(1)
			go func(t int) {
				defer wg.Done()
				<-start
				res[t] = try(func() string { return c19KeyDigest(keys) })
			}(t)
		}
		close(start)
		wg.Wait()
		return L(L(res...), B(c19KeySum(keys) == sum0))
	}
	Register("C19", genC19)
}

func c19CounterKeys(n int, start, stride uint64) []string {
	buf := make([]byte, 4*n)
	for i := 0; i < n; i++ {
		v := uint32(start + uint64(i)*stride)
		buf[4*i], buf[4*i+1], buf[4*i+2], buf[4*i+3] = byte(v>>24), byte(v>>16), byte(v>>8), byte(v)
	}
	all := string(buf)
	keys := make([]string, n)
	for i := range keys {
		keys[i] = all[4*i : 4*i+4]
	}
	return keys
}

func c19KeySum(keys []string) uint64 {
	h := uint64(len(keys))
	for _, k := range keys {
		for i := 0; i < len(k); i++ {
			h = h*1099511628211 + uint64(k[i])
		}
	}
	return h
}

func c19KeyDigest(keys []string) string {
	ds := sigbits.FirstDiffBits(keys)
	var sum, wsum uint64
	for i, d := range ds {
		sum += uint64(d)
		wsum = (wsum + uint64(i+1)*uint64(d)) % (1<<61 - 1)
	}
	m, cnt := sigbits.New(keys).CountPrefixes(0, int32(len(keys)), 9)
	return L(Int(len(ds)), U(sum), U(wsum), I32(m), I32s(cnt))
}

// bigKeys: the digest alone under GOMAXPROCS(1) is the reference; then the case.
func (x *c19Gen) bigKeys(T, n int, start, stride uint64) {
	g := x.g
	old := runtime.GOMAXPROCS(1)
	ref := try(func() string { return c19KeyDigest(c19CounterKeys(n, start, stride)) })
	runtime.GOMAXPROCS(old)
	g.Stat("big-keys")
	g.Do("c19.BigKeys", L(Int(T), Int(n), U(start), U(stride), ref), fmt.Sprintf("big/T%d/n%s/stride%d", T, c19Bucket(n, 262143, 262144, 300000, 524288), stride))
}

// ---------------------------------------------------------------------------- generator

type c19Gen struct {
	words2 []uint64
	ones2  int
	g      *Gen
	words  []uint64
	tsize  int32
	keys   []string
	paths  []uint64 // stored paths of the tree (AllPaths over everything)
	ones   int
}

func c19Height(tsize int32) int32 { return bmtree.Height(tsize) }

// c19Keys: a sorted set of distinct keys with long shared prefixes (crossing 8 and 16 bytes), prefixes of
// one another, and bytes from the boundary alphabets.
func c19Keys(r *Rand, n int) []string {
	al := alphabets[r.Intn(len(alphabets))]
	set := map[string]bool{}
	base := r.Bytes(r.Pick(0, 1, 3, 7, 8, 9, 15, 16, 17), al)
	for tries := 0; len(set) < n && tries < 20*n; tries++ {
		var k []byte
		switch r.Intn(4) {
		case 0:
			k = r.Bytes(r.Range(1, 5), al)
		case 1:
			k = append(append([]byte{}, base...), r.Bytes(r.Range(1, 4), al)...)
		case 2:
			k = append(append([]byte{}, base[:r.Intn(len(base)+1)]...), r.Bytes(r.Range(1, 3), al)...)
		default:
			k = append(append([]byte{}, base...), r.Bytes(r.Range(1, 2), []byte{0x00, 0x01, 0x80, 0xff})...)
		}
		set[string(k)] = true
	}
	for len(set) < 2 {
		set[string(r.Bytes(r.Range(1, 6), nil))] = true
	}
	keys := make([]string, 0, len(set))
	for k := range set {
		keys = append(keys, k)
	}
	sort.Strings(keys)
	return keys
}

func (x *c19Gen) n() int { return 64 * len(x.words) }

// one random in-domain call of function fid (ok=false: no in-domain argument exists for these inputs)
// bitmap functions that can run on the second shared bitmap (function id + 100)
var c19AltOK = map[int]bool{19: true, 60: true, 61: true, 62: true, 1: true, 2: true, 3: true, 4: true, 5: true, 6: true, 7: true, 8: true, 9: true,
	11: true, 12: true, 13: true, 14: true, 15: true, 16: true, 17: true, 18: true, 24: true}

func (x *c19Gen) call(fid int) (c19Call, bool) {
	r := x.g.R
	if c19AltOK[fid] && r.Bool() {
		// the same generator on the second bitmap
		y := *x
		y.words, y.ones = x.words2, x.ones2
		c, ok := y.callOn(fid)
		c.fid += 100
		return c, ok
	}
	return x.callOn(fid)
}

// callBad: an OUT-OF-RANGE call of function fid (the error path: the call panics, or answers whatever it answers -
// deterministically).  ok=false when there is none for this function.
func (x *c19Gen) callBad(fid int) (c19Call, bool) {
	r := x.g.R
	words, alt := x.words, 0
	if c19AltOK[fid] && r.Bool() {
		words, alt = x.words2, 100
	}
	n := 64 * len(words)
	c := c19Call{fid: fid + alt, bad: true}
	neg := func() uint64 { return uint64(int64(-1 - r.Intn(5))) }
	switch fid {
	case 1, 2, 11, 12:
		c.p1 = uint64(n + r.Intn(130))
	case 3, 4:
		// beyond the select index (32 ones per entry), or negative
		if r.Intn(3) == 0 {
			c.p1 = neg()
		} else {
			c.p1 = uint64(32*(popcount(words)/32+1) + 32 + r.Intn(200))
		}
	case 5:
		c.p1, c.p2 = uint64(n+r.Intn(70)), uint64(n+70)
	case 9:
		c.p1, c.p2 = uint64(n/8+r.Intn(9)), 8
	case 42:
		k := r.Intn(len(x.keys))
		c.p1, c.p2, c.p3 = 8, uint64(k), uint64(len(x.keys[k])+r.Intn(4))
	case 52:
		s := r.Range(1, len(x.keys))
		c.p1, c.p2, c.p3 = uint64(s), uint64(r.Intn(s)), uint64(r.Range(2, 9))
	default:
		return c, false
	}
	return c, true
}

var c19BadFids = []int{1, 2, 3, 3, 3, 4, 4, 5, 9, 11, 12, 42, 52}

func (x *c19Gen) callOn(fid int) (c19Call, bool) {
	r := x.g.R
	n := x.n()
	pos := func() int { // a bit position, biased to word boundaries
		switch r.Intn(4) {
		case 0:
			w := r.Intn(len(x.words))
			return w*64 + r.Pick(0, 1, 31, 32, 63)
		default:
			return r.Intn(n)
		}
	}
	nk := len(x.keys)
	c := c19Call{fid: fid}
	switch fid {
	case 1, 2, 11, 12, 13, 14:
		c.p1 = uint64(pos())
	case 3, 4:
		if x.ones == 0 {
			return c, false
		}
		c.p1 = uint64(r.Intn(x.ones))
	case 5:
		i := pos()
		c.p1, c.p2 = uint64(i), uint64(r.Range(i, n))
	case 6:
		i := pos()
		e := r.Range(i, n)
		if e < 1 {
			e = 1
		}
		c.p1, c.p2 = uint64(i), uint64(e)
	case 7:
		f := r.Intn(n + 1)
		c.p1, c.p2 = uint64(f), uint64(r.Range(f, n))
	case 8, 15, 16, 17, 18, 19, 24, 50, 53, 60:
	case 61:
		c.p1 = uint64(r.Intn(len(x.words) + 1))
	case 62:
		if x.ones == 0 {
			return c, false
		}
		c.p1 = uint64(r.Intn(x.ones))
	case 9:
		w := r.Pick(1, 2, 4, 8, 16, 32, 64)
		c.p1, c.p2 = uint64(r.Intn(n/w)), uint64(w)
	case 10:
		k := r.Intn(nk)
		from := r.Intn(8*len(x.keys[k]) + 9)
		c.p1, c.p2, c.p3 = uint64(k), uint64(from), uint64(from+r.Intn(33))
	case 20:
		if len(x.paths) == 0 {
			return c, false
		}
		c.p1 = x.paths[r.Intn(len(x.paths))]
	case 21:
		h := c19Height(x.tsize)
		l := int32(r.Intn(int(h) + 1))
		c.p1 = bmtree.NewPath(r.U64()&(1<<uint(h)-1)>>uint(h-l)<<uint(h-l), l, h)
	case 22:
		h := r.Range(0, 12)
		c.p1, c.p2 = uint64(h), uint64(r.Intn(1<<uint(h+1)-1))
	case 23:
		a, b := uint64(0), uint64(1)<<63
		if len(x.paths) > 0 && r.Intn(3) > 0 {
			a = x.paths[r.Intn(len(x.paths))]
			b = x.paths[r.Intn(len(x.paths))]
			if a > b {
				a, b = b, a
			}
			b += uint64(r.Intn(2))
		}
		c.p1, c.p2 = a, b
	case 25:
		k := r.Intn(nk)
		c.p1, c.p2, c.p3 = uint64(k), uint64(r.Intn(8*len(x.keys[k])+2)), uint64(r.Range(0, 30))
	case 26:
		c.p1, c.p2, c.p3 = uint64(r.Intn(24)), uint64(r.Range(0, 30)), uint64(r.Intn(2))
	case 30, 31, 32:
		c.p1, c.p2 = uint64(r.Intn(nk)), uint64(r.Intn(nk))
	case 33:
		c.p1 = uint64(r.Intn(nk))
	case 34:
		k := r.Intn(nk)
		to := r.Intn(8*len(x.keys[k]) + 1)
		from := 0
		if to >= 8 {
			from = 8 * r.Intn(to/8+1)
		}
		c.p1, c.p2, c.p3 = uint64(k), uint64(from), uint64(to)
	case 40, 41:
		c.p1, c.p2 = uint64(r.Pick(1, 2, 4, 8)), uint64(r.Intn(nk))
	case 42:
		w := r.Pick(1, 2, 4, 8)
		k := r.Intn(nk)
		c.p1, c.p2, c.p3 = uint64(w), uint64(k), uint64(r.Intn(len(x.keys[k])*8/w))
	case 46:
		w := r.Pick(1, 1, 2, 4, 8)
		k := r.Intn(nk)
		c.p1, c.p2, c.p3 = uint64(w), uint64(k), uint64(r.Intn(len(x.keys[k])*8/w+1))
	case 43:
		c.p1, c.p2, c.p3 = uint64(r.Pick(1, 2, 4, 8)), uint64(r.Intn(nk)), uint64(r.Intn(nk))
	case 44, 45:
		c.p1 = uint64(r.Pick(1, 2, 4, 8))
	case 51:
		c.p1 = uint64(r.Pick(1, 2, 3, 4, 8, nk, nk+1))
	case 52:
		if nk < 2 {
			return c, false
		}
		s := r.Intn(nk - 1)
		c.p1, c.p2, c.p3 = uint64(s), uint64(r.Range(s+2, nk)), uint64(r.Range(2, 9))
	default:
		return c, false
	}
	return c, true
}

func (r *Rand) shuffleCalls(cs []c19Call) {
	for i := len(cs) - 1; i > 0; i-- {
		j := r.Intn(i + 1)
		cs[i], cs[j] = cs[j], cs[i]
	}
}

var c19Fids = func() []int {
	var l []int
	for f := range c19Names {
		l = append(l, f)
	}
	sort.Ints(l)
	return l
}()

func c19Bucket(x int, cuts ...int) string {
	for _, c := range cuts {
		if x <= c {
			return fmt.Sprintf("<=%d", c)
		}
	}
	return fmt.Sprintf(">%d", cuts[len(cuts)-1])
}

// emit: compute the refs alone on a private copy, then hand the batch to the executor.
func (x *c19Gen) emit(T, R int, calls []c19Call, bucket string) {
	g := x.g
	if len(calls) == 0 {
		return
	}
	private := c19Build(append([]uint64{}, x.words...), x.tsize, c19CopyKeys(x.keys))
	txt := make([]string, len(calls))
	fset := map[int]bool{}
	listed := 0
	for i, c := range calls {
		txt[i] = c19CallText(c, c19Try(private, c))
		fset[c.fid%100] = true
		g.Stats["call:"+c19Names[c.fid%100]]++
		if c19Listed[c.fid%100] {
			listed++
		}
	}
	var fl []string
	for _, f := range c19Fids {
		if fset[f] {
			fl = append(fl, Int(f))
		}
	}
	// non-trivial: at least 8 goroutines and at least one listed function; the key is the set of functions
	// in the batch, the number of goroutines and the size classes of the shared inputs
	key := ""
	if T >= 8 && listed > 0 {
		key = fmt.Sprintf("T%d/R%d/w%s/k%s/h%d/f%s", T, R, c19Bucket(len(x.words), 1, 2, 4, 8, 16),
			c19Bucket(len(x.keys), 2, 4, 8, 16), c19Height(x.tsize), strings.Join(fl, "."))
	}
	g.Stat(bucket)
	g.Stat(fmt.Sprintf("goroutines:%d", T))
	g.Do("c19.Batch", L(Int(T), Int(R), U64s(x.words), I32(x.tsize), Strs(x.keys), L(txt...)), key)
	x.againstModel(calls)
}

// againstModel ties the refs to the Coq MODEL: one call of the batch whose function has a finished model
// (Rank64/Rank128: C01, Select32/Select32R64: C02, NextOne/PrevOne: C13) is also emitted as an ordinary case of
// that property's operation, which the driver judges against M and S.  (c19.Batch itself says concurrent = alone;
// this says alone = M.)  Trivial key: these lines do not count as C19 cases of their own.
func (x *c19Gen) againstModel(calls []c19Call) {
	g := x.g
	start := g.R.Intn(len(calls))
	for k := range calls {
		c := calls[(start+k)%len(calls)]
		if c.bad {
			continue
		}
		ws := x.words
		if c.fid > 100 {
			ws = x.words2
		}
		var op, args string
		switch c.fid % 100 {
		case 1:
			op, args = "bitmap.Rank64", L(U64s(ws), "0", U(c.p1))
		case 2:
			op, args = "bitmap.Rank128", L(U64s(ws), U(c.p1))
		case 3:
			op, args = "bitmap.Select32", L(U64s(ws), U(c.p1))
		case 4:
			op, args = "bitmap.Select32R64", L(U64s(ws), U(c.p1))
		case 5:
			op, args = "bitmap.NextOne", L(U64s(ws), U(c.p1), U(c.p2))
		case 6:
			op, args = "bitmap.PrevOne", L(U64s(ws), U(c.p1), U(c.p2))
		default:
			continue
		}
		if _, ok := Exec[op]; !ok {
			return
		}
		g.Stat("alone-vs-model:" + op)
		g.Do(op, args, "")
		return
	}
}

// c19OneBacking re-creates the keys as substrings of ONE freshly allocated string, so that all key bytes
// the goroutines share (and that StrCmpUpto aliases as []byte) are neighbours in one writable heap object.
func c19OneBacking(keys []string) []string {
	all := string(append([]byte{}, strings.Join(keys, "")...))
	out := make([]string, len(keys))
	off := 0
	for i, k := range keys {
		out[i] = all[off : off+len(k)]
		off += len(k)
	}
	return out
}

func c19CopyKeys(keys []string) []string {
	out := make([]string, len(keys))
	for i, k := range keys {
		out[i] = string(append([]byte{}, k...)) // its own bytes
	}
	return out
}

func (x *c19Gen) setInputs(words []uint64, tsize int32, keys []string) {
	x.words, x.tsize, x.keys = words, tsize, keys
	x.ones = popcount(words)
	x.words2 = c19AltWords(words)
	x.ones2 = popcount(x.words2)
	x.paths = bmtree.AllPaths(tsize, 0, 1<<63)
}

func c19TreeSize(r *Rand) int32 {
	h := r.Range(0, 8)
	t := int32(1) << uint(h) // the leaf level is always stored
	switch r.Intn(4) {
	case 0: // full
		t = 1<<uint(h+1) - 1
	case 1: // leaves only
	default:
		t |= int32(r.U64()) & (1<<uint(h) - 1)
	}
	return t
}

func genC19(g *Gen) {
	x := &c19Gen{g: g}
	r := g.R

	// (1) every function alone, from 8 goroutines, over EVERY in-domain argument of a fixed small input set
	// (two words, a height-3 tree with levels {0,1,3}, four keys): a finite sub-domain enumerated completely.
	x.setInputs([]uint64{0x8000000000000005, 0x00000001_80000000}, 0xb, []string{"a", "ab", "ab\x80", "b\x00\xff"})
	nk := len(x.keys)
	all := map[int][]c19Call{}
	add := func(fid int, p ...uint64) {
		c := c19Call{fid: fid}
		if len(p) > 0 {
			c.p1 = p[0]
		}
		if len(p) > 1 {
			c.p2 = p[1]
		}
		if len(p) > 2 {
			c.p3 = p[2]
		}
		all[fid] = append(all[fid], c)
	}
	n := x.n()
	for i := 0; i < n; i++ {
		for _, f := range []int{1, 2, 11, 12, 13, 14} {
			add(f, uint64(i))
		}
		for _, w := range []int{1, 2, 4, 8, 16, 32, 64} {
			if i < n/w {
				add(9, uint64(i), uint64(w))
			}
		}
		for e := i; e <= n; e += 1 + (e-i)/4 {
			add(5, uint64(i), uint64(e))
			if e >= 1 {
				add(6, uint64(i), uint64(e))
			}
		}
	}
	for f := 0; f <= n; f += 7 {
		for t := f; t <= n; t += 13 {
			add(7, uint64(f), uint64(t))
		}
	}
	for k := 0; k < x.ones; k++ {
		add(3, uint64(k))
		add(4, uint64(k))
	}
	for _, f := range []int{8, 15, 16, 17, 18, 19, 24, 50, 53, 60} {
		add(f)
	}
	for k := 0; k <= len(x.words); k++ {
		add(61, uint64(k))
	}
	for k := 0; k < x.ones; k++ {
		add(62, uint64(k))
	}
	for k := 0; k < nk; k++ {
		for from := 0; from <= 8*len(x.keys[k])+8; from++ {
			for _, sz := range []int{0, 1, 7, 8, 9, 31, 32} {
				add(10, uint64(k), uint64(from), uint64(from+sz))
			}
		}
		for to := 0; to <= 8*len(x.keys[k]); to++ {
			for from := 0; from <= to; from += 8 {
				add(34, uint64(k), uint64(from), uint64(to))
			}
		}
		add(33, uint64(k))
		for j := 0; j < nk; j++ {
			add(30, uint64(k), uint64(j))
			add(31, uint64(k), uint64(j))
			add(32, uint64(k), uint64(j))
		}
		for _, w := range c19Widths {
			add(40, uint64(w), uint64(k))
			add(41, uint64(w), uint64(k))
			for ith := 0; ith < len(x.keys[k])*8/w; ith++ {
				add(42, uint64(w), uint64(k), uint64(ith))
			}
			for j := 0; j < nk; j++ {
				add(43, uint64(w), uint64(k), uint64(j))
			}
			for pre := 0; pre <= len(x.keys[k])*8/w; pre++ {
				add(46, uint64(w), uint64(k), uint64(pre))
			}
		}
	}
	for _, w := range c19Widths {
		add(44, uint64(w))
		add(45, uint64(w))
	}
	for _, p := range x.paths {
		add(20, p)
	}
	h := c19Height(x.tsize)
	for l := int32(0); l <= h; l++ {
		for b := uint64(0); b < 1<<uint(l); b++ {
			add(21, bmtree.NewPath(b<<uint(h-l), l, h))
		}
	}
	for hh := 0; hh <= 4; hh++ {
		for idx := 0; idx < 1<<uint(hh+1)-1; idx++ {
			add(22, uint64(hh), uint64(idx))
		}
	}
	add(23, 0, 1<<63)
	for _, a := range x.paths {
		for _, b := range x.paths {
			if a <= b {
				add(23, a, b)
				add(23, a, b+1)
			}
		}
	}
	for from := 0; from <= 16; from++ {
		for _, hh := range []int{0, 1, 3, 8, 30} {
			for k := 0; k < nk; k++ {
				add(25, uint64(k), uint64(from), uint64(hh))
			}
			add(26, uint64(from), uint64(hh), 0)
			add(26, uint64(from), uint64(hh), 1)
		}
	}
	for ms := 1; ms <= nk+1; ms++ {
		add(51, uint64(ms))
	}
	for s := 0; s+2 <= nk; s++ {
		for e := s + 2; e <= nk; e++ {
			for mi := 2; mi <= 9; mi++ {
				add(52, uint64(s), uint64(e), uint64(mi))
			}
		}
	}
	// the same bitmap calls on the second shared bitmap (positions 0..191), interleaved with the first
	{
		alt := func(f int, p ...uint64) {
			add(f, p...)
			all[f][len(all[f])-1].fid = f + 100
		}
		n2 := 64 * len(x.words2)
		for i := 0; i < n2; i++ {
			for _, f := range []int{1, 2, 11, 12, 13, 14} {
				alt(f, uint64(i))
			}
			alt(5, uint64(i), uint64(n2))
			alt(6, uint64(i), uint64(n2))
			alt(7, uint64(i), uint64(n2))
			alt(9, uint64(i/8), 8)
		}
		for k := 0; k < x.ones2; k++ {
			alt(3, uint64(k))
			alt(4, uint64(k))
		}
		for _, f := range []int{8, 15, 16, 17, 18, 19, 24, 60} {
			alt(f)
		}
		for k := 0; k <= len(x.words2); k++ {
			alt(61, uint64(k))
		}
		for k := 0; k < x.ones2; k += 5 {
			alt(62, uint64(k))
		}
		for _, f := range []int{1, 2, 3, 4, 5, 6, 7, 9, 11, 12, 13, 14} {
			r.shuffleCalls(all[f]) // a call on one bitmap next to a call on the other
		}
	}
	// (0) one call of every function (on both bitmaps) in ONE batch from 16 goroutines.  The same line is the
	// first line of corpus/C19.txt, which runs before anything else: there the concurrent run is the FIRST use of
	// every function in the process (a lazily initialised table races / is seen half-filled).
	{
		var cs []c19Call
		for _, f := range c19Fids {
			if l := all[f]; len(l) > 0 {
				cs = append(cs, l[len(l)/2])
				if c19AltOK[f] {
					for _, c := range l {
						if c.fid > 100 {
							cs = append(cs, c)
							break
						}
					}
				}
			}
		}
		x.emit(16, 1, cs, "every-function-once")
	}
	for _, f := range c19Fids {
		cs := all[f]
		if len(cs) <= 2 && len(cs) > 0 { // the argument-free functions: both bitmaps, several times each
			cs = append(append(append([]c19Call{}, cs...), cs...), cs...)
		}
		for len(cs) > 0 { // chunks of at most 64 calls
			k := len(cs)
			if k > 64 {
				k = 64
			}
			x.emit(8, 2, cs[:k], "alone-exhaustive")
			cs = cs[k:]
		}
	}
	g.Exhaust = append(g.Exhaust, fmt.Sprintf("c19: each of the %d function ids alone from 8 goroutines x every in-domain argument over the fixed inputs "+
		"(2 words, bitmapSize 0b1011, 4 keys; positions 0..127 and 0..191 of the second shared bitmap, every Getw width, every key pair, every stored path, every (height<=4, index))", len(c19Fids)))

	// (1b) the error paths of the fixed inputs in one batch: out-of-range calls with DIFFERENT arguments side by side
	// (the recovered panic values are kept and rendered after the batch)
	{
		var cs []c19Call
		for _, i := range []int64{-3, -2, -1, 128, 129, 130, 131, 200, 1 << 20} {
			for _, f := range []int{3, 4, 103, 104} {
				cs = append(cs, c19Call{fid: f, p1: uint64(i), bad: true})
			}
		}
		for _, i := range []uint64{128, 129, 191, 192, 193, 1000} {
			for _, f := range []int{1, 2, 11, 12, 101, 111} {
				cs = append(cs, c19Call{fid: f, p1: i, bad: true})
			}
			cs = append(cs, c19Call{fid: 5, p1: i, p2: i + 64, bad: true}, c19Call{fid: 9, p1: i, p2: 8, bad: true})
		}
		for k := 0; k < nk; k++ {
			for d := 0; d < 3; d++ {
				cs = append(cs, c19Call{fid: 42, p1: 8, p2: uint64(k), p3: uint64(len(x.keys[k]) + d), bad: true})
			}
		}
		cs = append(cs, c19Call{fid: 52, p1: 2, p2: 1, p3: 4, bad: true}, c19Call{fid: 52, p1: 3, p2: 0, p3: 4, bad: true})
		r.shuffleCalls(cs)
		for len(cs) > 0 {
			k := len(cs)
			if k > 48 {
				k = 48
			}
			x.emit(8, 2, cs[:k], "error-paths-fixed")
			cs = cs[k:]
		}
	}

	// (1c) a key set large enough for code that splits work by the number of CPUs (>= 2^18 keys): compact counter keys
	x.bigKeys(8, 1<<18, 0, 1)
	if g.Thorough {
		for _, n := range []int{1<<18 - 1, 1<<18 + 1, 300000, 1 << 19} {
			x.bigKeys(r.Range(8, 16), n, uint64(r.Intn(1000)), uint64(r.Pick(1, 3, 257)))
		}
	}

	// (1d) big trees: height 10..11 (>= 1024 candidate paths, results of hundreds of paths), Decode / AllPaths held by
	// several goroutines at once - buffers that are pooled or cached only above a size threshold
	for b := 0; b < g.N(6, 40); b++ {
		h := uint(r.Pick(10, 10, 11))
		t := int32(1)<<(h+1) - 1 // full
		if r.Intn(3) == 0 {
			t = int32(1)<<h | int32(r.U64())&(1<<h-1)
		}
		ws := make([]uint64, (1<<(h+1))/64)
		for i := range ws {
			ws[i] = r.U64() | r.U64()
		}
		x.setInputs(ws, t, c19Keys(r, 3))
		var calls []c19Call
		for _, f := range []int{24, 124, 24, 23, 124} {
			if c, ok := x.callOn(f % 100); ok {
				c.fid = f
				if f == 23 {
					c.p1, c.p2 = 0, 1<<63
				}
				calls = append(calls, c)
			}
		}
		x.emit(8, 1, calls, "big-tree")
	}

	// (2) mixed batches of all functions over random shared inputs, 8..16 goroutines.
	// First over ascending sizes (capacity boundaries of a hidden scratch buffer are crossed in order),
	// then random.
	nb := g.N(600, 8000)
	for b := 0; b < nb; b++ {
		var nw, nkeys int
		if b < 64 {
			nw, nkeys = 1+b/4, 2+b/4
		} else {
			nw, nkeys = r.Pick(1, 1, 2, 2, 3, 4, 5, 8, 9, 16, 17), r.Pick(2, 3, 4, 6, 8, 12, 16, 24)
		}
		x.setInputs(r.Words(nw), c19TreeSize(r), c19Keys(r, nkeys))
		T := r.Range(8, 16)
		R := r.Range(1, 3)
		var calls []c19Call
		bucket := "mixed-all"
		var pool []int
		switch r.Intn(5) {
		case 0: // listed functions only
			for _, f := range c19Fids {
				if c19Listed[f] {
					pool = append(pool, f)
				}
			}
			bucket = "mixed-listed"
		case 1: // one package
			lo := r.Pick(1, 20, 30, 40, 50)
			for _, f := range c19Fids {
				if f >= lo && f < lo+10 || lo == 1 && (f < 20 || f >= 60) {
					pool = append(pool, f)
				}
			}
			bucket = fmt.Sprintf("one-package-%d", lo)
		case 2: // two functions hammered
			pool = []int{c19Fids[r.Intn(len(c19Fids))], c19Fids[r.Intn(len(c19Fids))]}
			bucket = "two-functions"
		default:
			pool = c19Fids
		}
		nc := r.Range(6, 28)
		errPath := r.Intn(3) == 0 // one batch in three also takes error paths
		if errPath {
			bucket += "+error-paths"
		}
		for len(calls) < nc {
			if errPath && r.Intn(4) == 0 {
				if c, ok := x.callBad(c19BadFids[r.Intn(len(c19BadFids))]); ok {
					calls = append(calls, c)
				}
				continue
			}
			if c, ok := x.call(pool[r.Intn(len(pool))]); ok {
				calls = append(calls, c)
			} else if len(pool) <= 2 {
				pool = c19Fids
			}
		}
		x.emit(T, R, calls, bucket)
	}

	// (3) the string alias: StrCmpUpto / CmpUpto / Cmp on keys that share the bytes of ONE backing array
	// (substrings of one string), so a write through the alias would be seen by the neighbours.
	for b := 0; b < g.N(80, 1000); b++ {
		base := string(r.Bytes(r.Range(4, 40), alphabets[r.Intn(len(alphabets))]))
		set := map[string]bool{}
		for i := 0; i < 12; i++ {
			lo := r.Intn(len(base))
			hi := r.Range(lo+1, len(base))
			set[base[lo:hi]] = true
		}
		set[base] = true
		set[base[:1]] = true
		var keys []string
		for k := range set {
			keys = append(keys, k)
		}
		sort.Strings(keys)
		x.setInputs(r.Words(1), c19TreeSize(r), keys)
		var calls []c19Call
		for len(calls) < 24 {
			if c, ok := x.call(r.Pick(30, 31, 32, 32, 32, 10, 25, 42, 43)); ok {
				calls = append(calls, c)
			}
		}
		x.emit(r.Range(8, 16), 2, calls, "string-alias")
	}
}
