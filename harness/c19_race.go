//go:build race

package main

const c19RepFactor = 1
