package main

import (
	"errors"
	"fmt"
	"io"
	"math"
	"strings"

	"github.com/openacid/low/iohelper"
)

// C18: one case = one whole call sequence on a fresh section writer over a
// scripted mock io.WriterAt.
//
//	iohelper.SectionWriter  [off, n, [call...], [resp...]]   NewSectionWriter(mock, off, n)
//	iohelper.AtToWriter     [off,    [call...], [resp...]]   AtToWriter(mock, off)
//	call  [0,p] Write | [1,p,o] WriteAt | [2,o,whence] Seek | [3] Size
//	resp  [k,e]: the mock's next WriteAt returns (min(k,len(p)), error class e)
//	obs   per call [[return values...], [[absolute offset, bytes]...]]
//	error classes: 0 nil, 1 io.ErrShortWrite, 2 the mock's error, 3 errWhence, 4 errOffset
var c18ErrUnder = errors.New("c18: underlying writer failed")

type c18Mock struct {
	script []V
	i      int
	calls  []string
}

func (m *c18Mock) WriteAt(p []byte, off int64) (int, error) {
	m.calls = append(m.calls, L(I(off), Bytes(p)))
	n, e := len(p), 0
	if m.i < len(m.script) {
		r := m.script[m.i].L
		m.i++
		if k := r[0].I64(); k < int64(n) {
			n = int(k)
		}
		e = r[1].Int()
	}
	switch e {
	case 0:
		return n, nil
	case 1:
		return n, io.ErrShortWrite
	default:
		return n, c18ErrUnder
	}
}

func c18ErrClass(err error) int {
	switch {
	case err == nil:
		return 0
	case err == io.ErrShortWrite:
		return 1
	case err == c18ErrUnder:
		return 2
	case err.Error() == "Seek: invalid whence": // errWhence is unexported
		return 3
	case err.Error() == "Seek: invalid offset": // errOffset is unexported
		return 4
	case err == io.EOF:
		return 5
	}
	return 9
}

type c18Section interface {
	io.Writer
	io.WriterAt
	io.Seeker
	Size() int64
}

func c18Run(m *c18Mock, s c18Section, calls []V) string {
	out := make([]string, 0, len(calls))
	for _, c := range calls {
		m.calls = m.calls[:0]
		var rets string
		switch c.L[0].Int() {
		case 0:
			n, err := s.Write(c.L[1].Bytes())
			rets = L(Int(n), Int(c18ErrClass(err)))
		case 1:
			n, err := s.WriteAt(c.L[1].Bytes(), c.L[2].I64())
			rets = L(Int(n), Int(c18ErrClass(err)))
		case 2:
			p, err := s.Seek(c.L[1].I64(), c.L[2].Int())
			rets = L(I(p), Int(c18ErrClass(err)))
		case 3:
			rets = L(I(s.Size()))
		default:
			panic("bad call")
		}
		out = append(out, L(rets, L(m.calls...)))
	}
	return L(out...)
}

func init() {
	Exec["iohelper.SectionWriter"] = func(a []V) string {
		m := &c18Mock{script: a[3].L}
		return c18Run(m, iohelper.NewSectionWriter(m, a[0].I64(), a[1].I64()), a[2].L)
	}
	Exec["iohelper.AtToWriter"] = func(a []V) string {
		m := &c18Mock{script: a[2].L}
		// AtToWriter returns an io.Writer; Seek/WriteAt/Size are reached through the
		// interfaces its dynamic type implements (a failed assertion panics -> "P")
		w := iohelper.AtToWriter(m, a[0].I64())
		return c18Run(m, w.(c18Section), a[1].L)
	}
	Register("C18", genC18)
}

// c18Hist builds one call sequence and follows it with the PROPERTY's
// section-relative cursor machine (never the implementation) to aim buffers
// and offsets at the limit and to compute the shape key.
type c18Hist struct {
	off, n int64
	pos    int64
	calls  []string
	script []string
	resp   [][2]int64 // parsed script
	ri     int
	ev     map[string]bool
	ucalls int
	seq    byte
	store  func(abs, cnt int64) // optional: told about every (absolute offset, count accepted) the property predicts
	sh     *c18Hist             // optional: the history that owns the response script (several writers over one mock)
}

func c18New(off, n int64) *c18Hist {
	return &c18Hist{off: off, n: n, ev: map[string]bool{}}
}

// buf returns a buffer whose bytes are all distinct from their neighbours (a
// running counter), so a wrong slice or a wrong position is visible.
func (h *c18Hist) buf(l int) []byte {
	b := make([]byte, l)
	for i := range b {
		h.seq++
		b[i] = h.seq
	}
	return b
}

func (h *c18Hist) Resp(k int64, e int) {
	h.script = append(h.script, L(I(k), Int(e)))
	h.resp = append(h.resp, [2]int64{k, int64(e)})
}

// under mirrors the oracle: the count the mock will accept of m bytes
func (h *c18Hist) under(m int64) int64 {
	h.ucalls++
	cnt := m
	o := h
	if h.sh != nil {
		o = h.sh
	}
	if o.ri < len(o.resp) {
		r := o.resp[o.ri]
		o.ri++
		if r[0] < m {
			cnt = r[0]
			h.ev["F"] = true // short count from the underlying writer
		}
		if r[1] != 0 {
			h.ev["X"] = true // error from the underlying writer
		}
	}
	return cnt
}

func (h *c18Hist) Write(l int) {
	h.calls = append(h.calls, L("0", Bytes(h.buf(l))))
	if h.pos >= h.n {
		h.ev["E"] = true // refused at/after the end
		return
	}
	m := int64(l)
	if h.n-h.pos < m {
		m = h.n - h.pos
		h.ev["T"] = true // truncated by the limit
	} else if h.n-h.pos == m {
		h.ev["L"] = true // ends exactly at the limit
	}
	if h.pos != 0 {
		h.ev["C"] = true // a Write issued after the cursor moved
	}
	if l == 0 {
		h.ev["Z"] = true
	}
	cnt := h.under(m)
	if h.store != nil {
		h.store(h.off+h.pos, cnt)
	}
	h.pos += cnt
}

func (h *c18Hist) WriteAt(l int, o int64) {
	h.calls = append(h.calls, L("1", Bytes(h.buf(l)), I(o)))
	if o < 0 || o >= h.n {
		h.ev["R"] = true
		return
	}
	m := int64(l)
	if h.n-o < m {
		m = h.n - o
		h.ev["A"] = true
	} else if h.n-o == m {
		h.ev["M"] = true
	}
	cnt := h.under(m)
	if h.store != nil {
		h.store(h.off+o, cnt)
	}
}

func (h *c18Hist) Seek(d int64, wh int) {
	h.calls = append(h.calls, L("2", I(d), Int(wh)))
	var ref int64
	switch wh {
	case 0:
		ref = 0
	case 1:
		ref = h.pos
	case 2:
		ref = h.n
	default:
		h.ev["W"] = true
		return
	}
	// t = ref + d as an unbounded integer: use float-free overflow checks
	t, ok := c18Add(ref, d)
	if !ok || t < 0 {
		if !ok && d > 0 {
			h.ev["V"] = true
		} else {
			h.ev["O"] = true
		}
		return
	}
	if abs, ok := c18Add(h.off, t); !ok || abs < 0 {
		h.ev["V"] = true // o + t is not an int64 position
		return
	}
	h.pos = t
	h.ev[fmt.Sprintf("S%d", wh)] = true
	if t > h.n {
		h.ev["B"] = true // cursor beyond the end
	}
}

func (h *c18Hist) Size() { h.calls = append(h.calls, "[3]") }

func c18Add(a, b int64) (int64, bool) {
	c := a + b
	if (a >= 0) == (b >= 0) && (c >= 0) != (a >= 0) {
		return 0, false
	}
	return c, true
}

func (h *c18Hist) key() string {
	// non-trivial: at least two calls reached the underlying writer and at least
	// one Write was issued after the cursor had moved
	if h.ucalls < 2 || !h.ev["C"] {
		return ""
	}
	var sb strings.Builder
	for _, f := range []string{"E", "T", "L", "Z", "R", "A", "M", "W", "O", "V", "S0", "S1", "S2", "B", "F", "X"} {
		if h.ev[f] {
			sb.WriteString(f)
		}
	}
	nz := "n+"
	if h.n == 0 {
		nz = "n0"
	}
	return nz + "/" + sb.String()
}

func (h *c18Hist) emit(g *Gen, at bool, bucket string) {
	g.Stat(bucket)
	cs := "[" + strings.Join(h.calls, ",") + "]"
	sc := "[" + strings.Join(h.script, ",") + "]"
	if at {
		g.Do("iohelper.AtToWriter", L(I(h.off), cs, sc), h.key())
	} else {
		g.Do("iohelper.SectionWriter", L(I(h.off), I(h.n), cs, sc), h.key())
	}
}

func genC18(g *Gen) {
	const maxI = math.MaxInt64
	const minI = math.MinInt64

	// (1) exhaustive: every sequence of 1..2 calls from a 36-call alphabet on small
	// sections, the first underlying call answered by each of 4 responses
	type act func(h *c18Hist)
	var alpha []act
	for l := 0; l <= 3; l++ {
		l := l
		alpha = append(alpha, func(h *c18Hist) { h.Write(l) })
	}
	for l := 0; l <= 2; l++ {
		for o := int64(-1); o <= 3; o++ {
			l, o := l, o
			alpha = append(alpha, func(h *c18Hist) { h.WriteAt(l, o) })
		}
	}
	for d := int64(-1); d <= 2; d++ {
		for wh := 0; wh <= 3; wh++ {
			d, wh := d, wh
			alpha = append(alpha, func(h *c18Hist) { h.Seek(d, wh) })
		}
	}
	alpha = append(alpha, func(h *c18Hist) { h.Size() })
	resps := [][2]int64{{-1, 0}, {1, 2}, {0, 2}, {1, 0}}
	offs := []int64{0, 3}
	if g.Thorough {
		offs = []int64{0, 3, 1 << 40, maxI - 3}
	}
	nresp := g.N(4, 4)
	for _, off := range offs {
		for n := int64(0); n <= 3; n++ {
			if off > maxI-n {
				continue
			}
			for _, r := range resps[:nresp] {
				for a := range alpha {
					for b := -1; b < len(alpha); b++ {
						h := c18New(off, n)
						if r[0] >= 0 {
							h.Resp(r[0], int(r[1]))
						}
						alpha[a](h)
						if b >= 0 {
							alpha[b](h)
						}
						h.Write(2) // observe the cursor
						h.emit(g, false, "exh-small")
					}
				}
			}
		}
	}
	g.Exhaust = append(g.Exhaust, fmt.Sprintf("all sequences of 1..2 calls from a %d-call alphabet (Write len 0..3; WriteAt len 0..2 at -1..3; Seek -1..2 x whence 0..3; Size) followed by Write(2), on sections off in %v x n in 0..3, first underlying call answered by each of %d responses", len(alpha), offs, nresp))

	// (2) structured random call sequences of 1..60 calls
	nh := g.N(16000, 400000)
	for k := 0; k < nh; k++ {
		at := g.R.Intn(6) == 0
		var off, n int64
		switch g.R.Intn(6) {
		case 0:
			off = 0
		case 1:
			off = int64(g.R.Pick(1, 7, 100, 4096))
		case 2:
			off = int64(1)<<uint(g.R.Range(31, 62)) - int64(g.R.Intn(2))
		case 3:
			off = maxI - int64(g.R.Intn(200))
		default:
			off = int64(g.R.Intn(1000))
		}
		if at {
			n = maxI - off
		} else {
			switch g.R.Intn(8) {
			case 0:
				n = 0
			case 1:
				n = 1
			case 2:
				n = maxI - off
			case 3:
				n = maxI - off - int64(g.R.Intn(100))
				if n < 0 {
					n = 0
				}
			default:
				n = int64(g.R.Range(2, 120))
				if n > maxI-off {
					n = maxI - off
				}
			}
		}
		if n > maxI-off {
			n = maxI - off
		}
		h := c18New(off, n)
		ncalls := g.R.Range(1, 60)
		if g.R.Intn(3) == 0 {
			ncalls = g.R.Range(1, 8)
		}
		// fault stream: none / occasional / heavy
		fmode := g.R.Pick(0, 0, 1, 1, 2)
		for c := 0; c < ncalls; c++ {
			switch {
			case fmode == 0:
				// leave the script short: the mock writes everything
			case fmode == 1 && g.R.Intn(5) != 0:
				h.Resp(1000, 0)
			default:
				h.Resp(int64(g.R.Pick(0, 0, 1, 2, 3, 5, 10, 1000)), g.R.Pick(0, 0, 1, 2, 2))
			}
		}
		for c := 0; c < ncalls; c++ {
			rem := h.n - h.pos // may be negative or huge
			pickLen := func(rem int64) int {
				var l int64
				switch g.R.Intn(8) {
				case 0:
					l = 0
				case 1:
					l = rem
				case 2:
					l = rem - 1
				case 3:
					l = rem + 1
				case 4:
					l = rem + int64(g.R.Range(2, 9))
				case 5:
					l = 1
				default:
					l = int64(g.R.Range(1, 24))
				}
				if l < 0 {
					l = int64(g.R.Intn(4))
				}
				if l > 48 {
					l = int64(g.R.Range(1, 48))
				}
				return int(l)
			}
			switch g.R.Intn(10) {
			case 0, 1, 2, 3:
				h.Write(pickLen(rem))
			case 4, 5:
				var o int64
				switch g.R.Intn(10) {
				case 0:
					o = -1
				case 1:
					o = h.n
				case 2:
					o = h.n - 1
				case 3:
					o, _ = c18Add(h.n, 1)
				case 4:
					o = int64(g.R.Pick(minI, minI+1, maxI, maxI-1))
				case 5:
					o = maxI - h.off + int64(g.R.Range(-1, 1)) // absolute position around 2^63
				case 6:
					o = 0
				default:
					if h.n > 0 {
						o = int64(g.R.U64() % uint64(h.n))
						if g.R.Bool() {
							o = h.n - 1 - int64(g.R.Intn(30))
							if o < 0 {
								o = 0
							}
						}
					}
				}
				h.WriteAt(pickLen(h.n-o), o)
			case 6, 7, 8:
				wh := g.R.Pick(0, 0, 1, 1, 2, 2, 2, 3, -1, 7, math.MaxInt32)
				var ref int64
				switch wh {
				case 1:
					ref = h.pos
				case 2:
					ref = h.n
				}
				var d int64
				switch g.R.Intn(12) {
				case 0:
					d = 0
				case 1:
					d = -ref // target 0
				case 2:
					d = -ref - 1 // one before the start
				case 3:
					d, _ = c18Add(h.n-ref, int64(g.R.Range(-2, 2))) // around the end
				case 4:
					d = int64(g.R.Pick(minI, minI+1, maxI, maxI-1))
				case 5:
					// absolute target around 2^63-1: ref + d + off = maxI + {-1,0,1,2}
					d = maxI - h.off - ref
					d, _ = c18Add(d, int64(g.R.Range(-1, 2)))
				case 6:
					d = int64(g.R.Range(-5, 5))
				case 7:
					d = -h.off - ref + int64(g.R.Range(-1, 1)) // absolute target around 0
				default:
					if h.n > 0 && h.n < 1<<40 {
						d = int64(g.R.Intn(int(h.n)+3)) - ref
					} else {
						d = int64(g.R.Range(0, 50)) - ref
						if wh == 2 {
							d = -int64(g.R.Range(0, 50))
						}
					}
				}
				h.Seek(d, wh)
			default:
				h.Size()
			}
		}
		bucket := "rand-section"
		if at {
			bucket = "rand-attowriter"
		}
		h.emit(g, at, fmt.Sprintf("%s-f%d", bucket, fmode))
	}

	// (3) large buffers: lengths around powers of two up to 64 KiB (a fixed-size
	// scratch buffer or a length cut anywhere in the implementation shows here),
	// sections ending one before / exactly at / one after the buffer end, or far away
	bigSizes := []int{49, 63, 64, 65, 127, 128, 129, 255, 256, 257, 511, 512, 513, 1023, 1024, 1025, 4095, 4096, 4097}
	nb := g.N(400, 6000)
	for k := 0; k < nb; k++ {
		l := bigSizes[g.R.Intn(len(bigSizes))]
		if g.R.Intn(40) == 0 {
			l = g.R.Pick(65535, 65536, 65537)
		} else if g.R.Intn(4) == 0 {
			l = g.R.Range(49, 5000)
		}
		off := int64(g.R.Pick(0, 1, 7, 4096))
		if g.R.Intn(5) == 0 {
			off = maxI - int64(2*l) - int64(g.R.Intn(3*l+2))
		}
		at := g.R.Intn(6) == 0
		var n int64
		switch g.R.Intn(6) {
		case 0:
			n = int64(l - 1)
		case 1:
			n = int64(l)
		case 2:
			n = int64(l + 1)
		case 3:
			n = int64(2*l + g.R.Range(-1, 1))
		case 4:
			n = int64(3*l + g.R.Intn(100))
		default:
			n = maxI - off
		}
		if at || n > maxI-off {
			n = maxI - off
		}
		h := c18New(off, n)
		// the underlying writer: everything / short by one / half / short with its own error
		switch g.R.Intn(5) {
		case 0:
			h.Resp(int64(l-1), 0)
		case 1:
			h.Resp(int64(l/2), g.R.Pick(0, 2))
		case 2:
			h.Resp(int64(l), 2)
			h.Resp(int64(l-1), 0)
		}
		for c, nc := 0, g.R.Range(2, 5); c < nc; c++ {
			ll := l + g.R.Pick(-1, 0, 0, 0, 1)
			switch g.R.Intn(6) {
			case 0, 1, 2:
				h.Write(ll)
			case 3, 4:
				o := int64(g.R.Pick(0, 1, 5))
				if g.R.Bool() && h.n >= int64(ll) {
					o = h.n - int64(ll) + int64(g.R.Range(-1, 1)) // ends one before / at / one after the limit
				}
				h.WriteAt(ll, o)
			default:
				h.Seek(int64(g.R.Pick(0, 1, l-1, l)), 0)
			}
		}
		h.Write(l)
		h.emit(g, at, "big-buffers")
	}

	// (4) widening: AtToReader, and section writer + AtToReader over one in-memory file
	genC18Wide(g)
}
