//go:build !debug
// +build !debug

package main

const c03Suffix = ""
