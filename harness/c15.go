package main

import (
	"fmt"
	"strings"

	"github.com/openacid/low/bitmap"
)

// C15: one case = one whole history on a fresh NewTailBitmap(o).
//
//	args  [o, [call, ...]]
//	call  [0,idx] Set | [1] Compact | [2,j] Get | [3,j] Get1
//	      [4,from,to] for idx := from; idx < to; idx++ { Set(idx) }
//	      [5,from,to] for idx := to-1; idx >= from; idx-- { Set(idx) }
//	obs   one [Offset, Words, result] per call, taken after the call.
func init() {
	Exec["bitmap.TailBitmap"] = func(a []V) string {
		tb := bitmap.NewTailBitmap(a[0].I64())
		return L(c15Apply(tb, a[1].L)...)
	}
	Register("C15", genC15)
}

// c15Hist builds one history and tracks, from the PROPERTY's reading only (a
// plain set of indices; never the implementation), what is needed to keep the
// probes inside the domain and to compute the shape key.
type c15Hist struct {
	o     int64
	set   map[int64]bool
	end   int64 // Offset + 64*len(Words) as the property implies it
	first int64 // first position >= o that is not set
	calls []string

	adv, maxJump, below, rep, compacts, bulk int
	probeMask                                int // 1: below Offset, 2: stored 1, 4: stored 0
	maxWords                                 int64
	thr                                      bool // Offset moved >= 1024 words in total
}

func c15New(o int64) *c15Hist {
	return &c15Hist{o: o, set: map[int64]bool{}, end: o, first: o}
}

func (h *c15Hist) offset() int64 { return h.first &^ 63 }

func (h *c15Hist) note(idx int64) {
	off := h.offset()
	if idx < off {
		h.below++
		return
	}
	if h.set[idx] {
		h.rep++
		return
	}
	h.set[idx] = true
	if e := (idx&^63 + 64); e > h.end {
		h.end = e
	}
	for h.set[h.first] {
		h.first++
	}
	if n := h.offset(); n > off {
		h.adv++
		if j := int((n - off) / 64); j > h.maxJump {
			h.maxJump = j
		}
		if n-h.o >= 1024*64 {
			h.thr = true
		}
	}
	if w := (h.end - h.offset()) / 64; w > h.maxWords {
		h.maxWords = w
	}
}

func (h *c15Hist) Set(idx int64) {
	h.calls = append(h.calls, L("0", I(idx)))
	h.note(idx)
}
func (h *c15Hist) Compact() {
	h.calls = append(h.calls, "[1]")
	h.compacts++
}
func (h *c15Hist) Up(from, to int64) {
	h.calls = append(h.calls, L("4", I(from), I(to)))
	h.bulk++
	for i := from; i < to; i++ {
		h.note(i)
	}
}
func (h *c15Hist) Down(from, to int64) {
	h.calls = append(h.calls, L("5", I(from), I(to)))
	h.bulk++
	for i := to - 1; i >= from; i-- {
		h.note(i)
	}
}

// Probe emits Get (kind 2) or Get1 (kind 3) if j is inside the domain.
func (h *c15Hist) Probe(kind int, j int64) bool {
	if j < -(1<<40) || j >= h.end {
		return false
	}
	switch {
	case j < h.offset():
		h.probeMask |= 1
	case h.set[j]:
		h.probeMask |= 2
	default:
		h.probeMask |= 4
	}
	h.calls = append(h.calls, L(Int(kind), I(j)))
	return true
}

func c15Bucket(n int) string {
	switch {
	case n <= 2:
		return Int(n)
	case n <= 8:
		return "3-8"
	case n <= 64:
		return "9-64"
	default:
		return "65+"
	}
}

func (h *c15Hist) key() string {
	// non-trivial: Offset advanced at least once AND a stored 1 and a stored 0 were both probed
	if h.adv == 0 || h.probeMask&6 != 6 {
		return ""
	}
	b := func(n int) int {
		if n > 0 {
			return 1
		}
		return 0
	}
	adv := h.adv
	if adv > 3 {
		adv = 3
	}
	t := 0
	if h.thr {
		t = 1
	}
	return fmt.Sprintf("w%s/adv%d/jump%s/below%d/rep%d/cmp%d/bulk%d/pm%d/thr%d",
		c15Bucket(int(h.maxWords)), adv, c15Bucket(h.maxJump), b(h.below), b(h.rep), b(h.compacts), b(h.bulk), h.probeMask, t)
}

func (h *c15Hist) emit(g *Gen, bucket string) {
	g.Stat(bucket)
	g.Stat(fmt.Sprintf("calls-%s", c15Bucket(len(h.calls))))
	g.Do("bitmap.TailBitmap", L(I(h.o), "["+strings.Join(h.calls, ",")+"]"), h.key())
}

// interesting probe positions of the current (property-level) state
func (h *c15Hist) probePoints(last int64) []int64 {
	off := h.offset()
	return []int64{last, last - 1, last + 1, last ^ 63, last + 64, last - 64,
		off - 1, off, off + 1, off + 63, off + 64, h.first, h.first - 1, h.first + 1,
		h.end - 1, h.end - 64, h.end - 65, 0, 63, 64, h.o - 1, h.o, h.o - 64, -1, -64, -65}
}

func (h *c15Hist) randomProbes(g *Gen, last int64, n int) {
	pts := h.probePoints(last)
	for k := 0; k < n; k++ {
		var j int64
		if g.R.Intn(4) == 0 && h.end > 0 {
			j = int64(g.R.U64() % uint64(h.end))
			if g.R.Bool() && h.end > h.offset() {
				j = h.offset() + int64(g.R.U64()%uint64(h.end-h.offset()))
			}
		} else {
			j = pts[g.R.Intn(len(pts))]
		}
		h.Probe(2+g.R.Intn(2), j)
	}
}

// sweep probes Get and Get1 at every "edge" position of every stored and
// implicit word (and all positions when full is set).
func (h *c15Hist) sweep(full bool) {
	lo := h.o - 128
	for j := lo; j < h.end; j++ {
		m := j & 63
		if full || m <= 1 || m >= 62 || m == 31 || m == 32 || h.set[j] != h.set[j+1] || (j > 0 && h.set[j] != h.set[j-1]) {
			h.Probe(2, j)
			h.Probe(3, j)
		}
	}
}

func genC15(g *Gen) {
	// (1) exhaustive: every history of <= L calls over a small alphabet around
	// the first two words, probes at all edge positions after the last call
	// (and after every call for L <= 2).
	maxL := g.N(3, 4)
	exhO := []int64{0, 64, -64}
	if g.Thorough {
		exhO = []int64{0, 64, -64, -128, 640}
	}
	for _, o := range exhO {
		type act func(h *c15Hist)
		alpha := []act{
			func(h *c15Hist) { h.Set(o - 1) },
			func(h *c15Hist) { h.Set(o) },
			func(h *c15Hist) { h.Set(o + 63) },
			func(h *c15Hist) { h.Set(o + 64) },
			func(h *c15Hist) { h.Set(o + 127) },
			func(h *c15Hist) { h.Set(o + 130) },
			func(h *c15Hist) { h.Compact() },
			func(h *c15Hist) { h.Up(o, o+63) },
			func(h *c15Hist) { h.Up(o+1, o+64) },
			func(h *c15Hist) { h.Down(o+64, o+128) },
			func(h *c15Hist) { h.Up(o+128, o+192) },
		}
		for l := 1; l <= maxL; l++ {
			// only histories of exactly l calls at this level
			var lev func(prefix []int)
			lev = func(prefix []int) {
				if len(prefix) == l {
					h := c15New(o)
					for _, a := range prefix {
						alpha[a](h)
						if l <= 2 {
							h.sweep(l == 1)
						}
					}
					if l > 2 {
						h.sweep(false)
					}
					h.emit(g, "exh-small")
					return
				}
				for a := range alpha {
					lev(append(prefix[:len(prefix):len(prefix)], a))
				}
			}
			lev(nil)
		}
	}
	g.Exhaust = append(g.Exhaust, fmt.Sprintf("all histories of 1..%d calls over an 11-call alphabet (Set at o-1,o,o+63,o+64,o+127,o+130; Compact; bulk fills of word 0 minus one bit, word 1, word 2) for o in {0,64,-64} (thorough: also -128, 640), Get and Get1 probed at every word-edge and set-edge position", maxL))

	// (2) structured random histories
	nh := g.N(2500, 40000)
	for k := 0; k < nh; k++ {
		o := int64(64 * g.R.Pick(0, 0, 1, 2, 3, 10, 100, 1000, 1<<20, 1<<33, -1, -1, -2, -3, -100, -(1 << 20), -(1 << 33)))
		h := c15New(o)
		W := int64(g.R.Range(1, 6))
		if g.R.Intn(8) == 0 {
			W = int64(g.R.Range(7, 40))
		}
		nmut := g.R.Range(1, 100)
		if g.R.Intn(3) == 0 {
			nmut = g.R.Range(1, 12)
		}
		mode := g.R.Intn(5)
		useBulk := g.R.Bool()
		bucket := [...]string{"rand-scatter", "rand-front-to-back", "rand-back-to-front", "rand-bulk-words", "rand-dense-word0"}[mode]
		var skipped []int64
		cursor := o
		back := o + 64*W - 1
		for m := 0; m < nmut && len(h.calls) < 300; m++ {
			var last int64
			switch {
			case g.R.Intn(10) == 0:
				h.Compact()
				last = h.first
			case g.R.Intn(12) == 0:
				// below the current offset / repeated
				last = h.offset() - 1 - int64(g.R.Intn(130))
				if g.R.Bool() && len(h.set) > 0 {
					last = h.first - 1 - int64(g.R.Intn(3))
				}
				h.Set(last)
			default:
				switch mode {
				case 0:
					last = h.offset() - 20 + int64(g.R.U64()%uint64(64*W+20))
					if g.R.Intn(3) == 0 {
						last = h.offset() + int64(64*g.R.Intn(int(W))) + int64(g.R.Pick(0, 1, 31, 32, 62, 63))
					}
					h.Set(last)
				case 1: // front to back, skipping some, coming back later
					if len(skipped) > 0 && g.R.Intn(6) == 0 {
						i := g.R.Intn(len(skipped))
						last = skipped[i]
						skipped = append(skipped[:i], skipped[i+1:]...)
						h.Set(last)
					} else if useBulk && g.R.Intn(5) == 0 {
						// finish the current word in one go
						to := cursor&^63 + 64
						h.Up(cursor, to)
						last = to - 1
						cursor = to
					} else {
						if g.R.Intn(12) == 0 {
							skipped = append(skipped, cursor)
							cursor++
						}
						last = cursor
						h.Set(cursor)
						cursor++
					}
				case 2: // back to front
					if useBulk && g.R.Intn(4) == 0 {
						from := back &^ 63
						if from < o {
							from = o
						}
						h.Down(from, back+1)
						last = from
						back = from - 1
					} else {
						last = back
						h.Set(back)
						back--
					}
					if back < o {
						back = h.end + 64*W - 1
					}
				case 3: // whole words (or all but one bit) in random order
					w := h.offset() + 64*int64(g.R.Intn(int(W)))
					switch g.R.Intn(4) {
					case 0:
						h.Up(w, w+64)
					case 1:
						h.Down(w, w+64)
					case 2:
						h.Up(w, w+63)
					default:
						h.Up(w+1, w+64)
					}
					last = w + 63
				default: // dense on the first word: single sets until it compacts
					last = h.offset() + int64(g.R.Intn(64))
					if g.R.Intn(3) != 0 {
						last = h.first
					}
					h.Set(last)
				}
			}
			h.randomProbes(g, last, g.R.Pick(0, 1, 2, 2))
		}
		if g.R.Intn(4) == 0 && h.end-h.o <= 64*8 {
			h.sweep(false)
		}
		h.emit(g, bucket)
	}

	// (3) the 1024-word reclaim threshold, in BOTH tiers: in-order fill of 1030
	// words (65,920 Sets; every completed word is compacted away at once so
	// Words stays one word long), then out-of-order sets and probes.
	for _, o := range []int64{0, 64 * 7} {
		for variant := 0; variant < 3; variant++ {
			h := c15New(o)
			switch variant {
			case 0:
				h.Up(o, o+65920)
			case 1:
				// stop one bit short of the 1024th word, cross it with single Sets and probes
				h.Up(o, o+65535)
				h.randomProbes(g, o+65535, 2)
				h.Set(o + 65535)
				h.randomProbes(g, o+65535, 2)
				h.Compact()
				h.Up(o+65536, o+65920)
			default:
				// a far bit first: Words is 1031 long and shrinks while the fill advances
				h.Set(o + 65920 + 5)
				h.Up(o, o+65472)
				h.Up(o+65472, o+65920)
			}
			h.randomProbes(g, o+65919, 4)
			for q := 0; q < 40; q++ {
				last := h.offset() - 30 + int64(g.R.Intn(64*5))
				if q%7 == 3 {
					h.Compact()
				} else {
					h.Set(last)
				}
				h.randomProbes(g, last, 2)
			}
			// second crossing
			if variant == 0 {
				f := h.offset()
				h.Up(f, f+65536+64)
				h.randomProbes(g, f+65536, 4)
			}
			h.emit(g, "threshold-in-order-1030w")
		}
	}
	// (4) far sets: a single bit 1023..1025 (thorough: ..4096) words ahead of
	// Offset at every edge position of its word, probed around it; then the
	// first word is completed so that a compaction happens with a long tail.
	// (Kills word-index arithmetic that is only wrong far from Offset.)
	farWords := []int64{1023, 1024, 1025}
	if g.Thorough {
		farWords = append(farWords, 2047, 2048, 4096)
	}
	for _, o := range []int64{0, 64 * 3} {
		for _, k := range farWords {
			for _, e := range []int64{0, 1, 31, 32, 62, 63} {
				h := c15New(o)
				idx := o + 64*k + e
				h.Set(idx)
				for _, j := range []int64{idx, idx - 1, idx + 1, idx ^ 63, idx - 64, idx &^ 63, idx | 63, o + 63, o} {
					h.Probe(2, j)
					h.Probe(3, j)
				}
				if e == 63 || e == 0 {
					h.Up(o, o+64)
					h.Probe(3, idx)
					h.Probe(2, idx-64)
					h.Probe(3, o+64)
				}
				h.emit(g, "far-set")
			}
		}
	}

	// (5) a LONG tail at the moment the reclaim threshold is crossed (both tiers):
	// bits 1025 / 2100 / 5000 words ahead are set first, then the first 1024
	// words are filled in order (each completed word is compacted away), so
	// the reclaim branch runs while more than 1024 words are still stored.
	// Every far bit, its neighbours and the last stored position are probed
	// after the crossing (a reclaim that truncates / zeroes / re-bases the
	// tail loses them or panics), then the fill goes on over a second crossing.
	c15Far := func(h *c15Hist, fars []int64) {
		for _, f := range fars {
			for _, j := range []int64{f, f - 1, f + 1, f &^ 63, f | 63} {
				h.Probe(3, j)
			}
			h.Probe(2, f)
		}
		h.Probe(3, h.end-1)
		h.Probe(2, h.end-1)
		h.Probe(3, h.offset())
	}
	for _, o := range []int64{0, 64 * 5} {
		// A: all three far bits in one history, crossing inside a bulk fill
		{
			h := c15New(o)
			fars := []int64{o + 64*5000 + 63, o + 64*2100, o + 64*1025 + 31}
			for _, f := range fars {
				h.Set(f)
			}
			h.Up(o, o+65472) // 1023 words: one short of the threshold
			for _, f := range fars {
				h.Probe(3, f)
			}
			h.Up(o+65472, o+65536+64) // crosses it
			c15Far(h, fars)
			h.Compact()
			c15Far(h, fars)
			h.Set(h.offset() + 7)
			f := h.offset()
			h.Up(f, f+65536+128) // second crossing; passes the nearest far bit
			c15Far(h, fars[:2])
			h.emit(g, "threshold-long-tail")
		}
		// B: one far bit each; exactly 1024 words filled; crossing by a bulk fill or by a single Set
		for _, far := range []int64{1025, 2100, 5000} {
			for variant := 0; variant < 2; variant++ {
				h := c15New(o)
				f := o + 64*far + int64(g.R.Pick(0, 1, 31, 32, 62, 63))
				h.Set(f)
				if variant == 0 {
					h.Up(o, o+65536)
				} else {
					h.Up(o, o+65535)
					c15Far(h, []int64{f})
					h.Set(o + 65535)
				}
				c15Far(h, []int64{f})
				h.Set(f + 1)
				h.Set(h.offset())
				c15Far(h, []int64{f, f + 1})
				h.emit(g, "threshold-long-tail")
			}
		}
	}

	// a small back-to-front fill in quick; the 1100-word one in thorough
	// a run of MORE than 1024 complete words behind an incomplete first word, in both tiers (bulk calls
	// keep it cheap): the completing Set must drop all of them at once
	sizes := []int64{3, 40, 1100}
	for _, nw := range sizes {
		for _, o := range []int64{0, 128} {
			h := c15New(o)
			h.Down(o+64, o+64*nw)
			h.randomProbes(g, o+64, 4)
			h.Compact()
			h.Down(o+1, o+64)
			h.randomProbes(g, o, 4)
			h.Probe(3, o+64*nw-1)
			h.Probe(2, o)
			h.Set(o) // everything is compacted at once
			h.randomProbes(g, o, 4)
			h.Probe(3, o+64*nw-1)
			// a Set beyond the end right after the big compaction, probed at and around it
			far := h.end + 64*2 + 5
			h.Set(far)
			for _, j := range []int64{far, far - 1, far + 1, far - 64, h.end - 1, h.offset(), h.offset() + 63} {
				h.Probe(3, j)
				h.Probe(2, j)
			}
			for q := 0; q < 10; q++ {
				last := h.offset() - 30 + int64(g.R.Intn(64*3))
				h.Set(last)
				h.randomProbes(g, last, 2)
			}
			h.emit(g, fmt.Sprintf("back-to-front-%dw", nw))
		}
	}

	// widened operations (harness/c15lit.go)
	genC15Literal(g)
	genC15Words(g)
	genC15Int64(g)
	genC15Pair(g)
}
