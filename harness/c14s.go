package main

import (
	"fmt"

	"github.com/openacid/low/bitmap"
)

// C14 scribble sessions: a caller owns the bitmap Join / Slice return and may write into it.  One case = one
// session of Join / Slice calls; after a result has been rendered the harness overwrites every word of it with
// junk.  A result that shares memory with a later result (a package-level all-zero page handed out for all-zero
// results, a cached scratch buffer) makes the later step return the junk.
// step = [0, values, w] (Join) or [1, words, from, to] (Slice); observed = the list of results.

func init() {
	Exec["bitmap.JoinSlice/scribble"] = func(a []V) string {
		steps := a[0].L
		out := make([]string, len(steps))
		for i, st := range steps {
			var r []uint64
			if st.L[0].Int() == 0 {
				r = bitmap.Join(st.L[1].U64s(), st.L[2].I32())
			} else {
				r = bitmap.Slice(st.L[1].U64s(), st.L[2].I32(), st.L[3].I32())
			}
			out[i] = U64s(r)
			for k := range r { // the caller's own bitmap: scribble over it
				r[k] = ^uint64(0) - uint64(k)
			}
		}
		return L(out...)
	}
}

func c14StepJoin(vs []uint64, w int) string { return L("0", U64s(vs), Int(w)) }
func c14StepSlice(ws []uint64, from, to int) string {
	return L("1", U64s(ws), Int(from), Int(to))
}

func genC14Scribble(g *Gen) {
	session := func(steps []string, zero int, bucket string) {
		g.Stat(bucket)
		key := ""
		if zero >= 2 {
			key = fmt.Sprintf("Z/n%d/z%d", minInt(len(steps), 6), minInt(zero, 4))
		}
		g.Do("bitmap.JoinSlice/scribble", L(L(steps...)), key)
	}
	z := func(n int) []uint64 { return make([]uint64, n) }

	// fixed sessions: two all-zero results in a row, of every pairing Join/Slice, same and different lengths
	session([]string{c14StepJoin(z(2), 8), c14StepJoin(z(3), 8)}, 2, "scribble-fixed")
	session([]string{c14StepSlice([]uint64{0, 5}, 0, 64), c14StepSlice(z(1), 0, 64)}, 2, "scribble-fixed")
	session([]string{c14StepJoin([]uint64{0x100, 0x200}, 8), c14StepSlice([]uint64{1, 0, 1}, 64, 128)}, 2, "scribble-fixed")
	session([]string{c14StepSlice([]uint64{1 << 63, 0, 1}, 64, 128), c14StepJoin(z(70), 1), c14StepJoin(z(1), 64)}, 3, "scribble-fixed")
	session([]string{c14StepSlice(z(4), 3, 200), c14StepSlice([]uint64{1, 0, 0, 0}, 1, 256), c14StepSlice(z(4), 0, 256)}, 3, "scribble-fixed")
	// results of 512 / 513 words (a page-sized shared buffer), then small ones
	session([]string{c14StepJoin(z(512), 64), c14StepJoin(z(513), 64), c14StepJoin(z(512), 64), c14StepSlice(z(8), 0, 512)}, 4, "scribble-page")
	session([]string{c14StepSlice(z(600), 64, 64+512*64), c14StepSlice(z(600), 1, 1+513*64), c14StepSlice(z(600), 0, 600*64), c14StepJoin(z(9), 32)}, 4, "scribble-page")

	// random sessions of 3..8 steps: mostly all-zero results (Join of values with bits only above w, Slice of a range
	// inside a run of zero words or between two 1-bits), some non-zero results interleaved
	ns := g.N(300, 5000)
	for k := 0; k < ns; k++ {
		n := g.R.Range(3, 8)
		steps := make([]string, 0, n)
		zero := 0
		for i := 0; i < n; i++ {
			if g.R.Bool() {
				w := c14Widths[g.R.Intn(7)]
				m := g.R.Range(1, 3*64/w+2)
				if m > 200 {
					m = 200
				}
				vs := make([]uint64, m)
				allZero := g.R.Intn(4) != 0
				for j := range vs {
					switch {
					case !allZero:
						vs[j] = g.R.U64()
					case w < 64 && g.R.Bool():
						vs[j] = g.R.U64() << uint(w) // bits above w only
					}
				}
				if allZero {
					zero++
				} else if w < 64 { // could still be all-zero in the low bits; count conservatively
					lowAny := false
					for _, v := range vs {
						if v&(1<<uint(w)-1) != 0 {
							lowAny = true
						}
					}
					if !lowAny {
						zero++
					}
				}
				steps = append(steps, c14StepJoin(vs, w))
			} else {
				nw := g.R.Range(1, 10)
				ws := make([]uint64, nw)
				for j := range ws {
					if g.R.Intn(3) == 0 {
						ws[j] = g.R.Word()
					}
				}
				from := g.R.Intn(64 * nw)
				to := g.R.Range(from+1, 64*nw)
				if g.R.Intn(4) != 0 { // shrink the range to the zero stretch that starts at from
					for ws[from>>6]>>(uint(from)&63)&1 == 1 && from+1 < 64*nw {
						from++
					}
					if to <= from {
						to = from + 1
					}
					for p := from; p < to; p++ {
						if ws[p>>6]>>(uint(p)&63)&1 == 1 {
							to = p
							break
						}
					}
					if to == from {
						to = from + 1
					}
				}
				has := false
				for p := from; p < to; p++ {
					if ws[p>>6]>>(uint(p)&63)&1 == 1 {
						has = true
						break
					}
				}
				if !has {
					zero++
				}
				steps = append(steps, c14StepSlice(ws, from, to))
			}
		}
		session(steps, zero, "scribble-rand")
	}
}
