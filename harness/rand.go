package main

import "math/bits"

// Rand is splitmix64: every random choice of a run derives from one state.
type Rand struct{ s uint64 }

func NewRand(seed uint64) *Rand { return &Rand{seed} }

func (r *Rand) U64() uint64 {
	r.s += 0x9e3779b97f4a7c15
	z := r.s
	z = (z ^ (z >> 30)) * 0xbf58476d1ce4e5b9
	z = (z ^ (z >> 27)) * 0x94d049bb133111eb
	return z ^ (z >> 31)
}

// Intn returns a value in [0, n).
func (r *Rand) Intn(n int) int {
	if n <= 0 {
		return 0
	}
	return int(r.U64() % uint64(n))
}

// Range returns a value in [lo, hi].
func (r *Rand) Range(lo, hi int) int { return lo + r.Intn(hi-lo+1) }

func (r *Rand) Bool() bool { return r.U64()&1 == 1 }

// Pick returns one of the given ints.
func (r *Rand) Pick(xs ...int) int { return xs[r.Intn(len(xs))] }

// Word draws a 64-bit word from the pattern mix used by all bitmap generators:
// zero, all-ones, single bit, two bits, sparse, dense, random, low/high half.
func (r *Rand) Word() uint64 {
	switch r.Intn(10) {
	case 0:
		return 0
	case 1:
		return ^uint64(0)
	case 2:
		return 1 << uint(r.Intn(64))
	case 3:
		return 1<<uint(r.Intn(64)) | 1<<uint(r.Intn(64))
	case 4:
		return r.U64() & r.U64() & r.U64() // sparse
	case 5:
		return r.U64() | r.U64() | r.U64() // dense
	case 6:
		return r.U64() & 0xffffffff
	case 7:
		return r.U64() << 32
	case 8:
		return ^(uint64(1) << uint(r.Intn(64)))
	default:
		return r.U64()
	}
}

// Words draws n words.
func (r *Rand) Words(n int) []uint64 {
	ws := make([]uint64, n)
	for i := range ws {
		ws[i] = r.Word()
	}
	return ws
}

func popcount(ws []uint64) int {
	n := 0
	for _, w := range ws {
		n += bits.OnesCount64(w)
	}
	return n
}

// byte alphabets shared by the string generators
var alphabets = [][]byte{
	{'a', 'b'},
	{0x00, 0x01, 'a'},
	{0x00, 0x80, 0xff},
	{0x00, 0x01, 0x7f, 0x80, 0xff, 'a', 'b'},
	nil, // full bytes
}

// Bytes draws a byte string of length n over alphabet a (nil = all 256 values).
func (r *Rand) Bytes(n int, a []byte) []byte {
	b := make([]byte, n)
	for i := range b {
		if a == nil {
			b[i] = byte(r.U64())
		} else {
			b[i] = a[r.Intn(len(a))]
		}
	}
	return b
}
