//go:build debug
// +build debug

package main

// In the -tags debug build github.com/openacid/must is active, so the
// contracts in /repo/bmtree run; the ops carry the suffix so that the driver
// evaluates the model of the debug build (PathToIndex_debug).
const c03Suffix = "/debug"
