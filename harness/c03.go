package main

import (
	"fmt"
	"math/bits"

	"github.com/openacid/low/bmtree"
)

// A case is (T, node): the level mask and the node as a bit list; the tree
// height is the position of T's top bit.  Both sides build the path word.

func c03Height(T int32) int32 { return int32(bits.Len32(uint32(T))) - 1 }

func init() {
	loose := func(a []V) string {
		T := a[0].I32()
		w := c10Word(c03Height(T), a[1])
		i, has := bmtree.PathToIndexLoose(T, w)
		return L(I32(i), I32(has))
	}
	strict := func(a []V) string {
		T := a[0].I32()
		w := c10Word(c03Height(T), a[1])
		return I32(bmtree.PathToIndex(T, w))
	}
	// the same executors under both names: the name tells the driver which
	// build (release / debug) produced the observation
	Exec["bmtree.PathToIndexLoose"] = loose
	Exec["bmtree.PathToIndexLoose/debug"] = loose
	Exec["bmtree.PathToIndex"] = strict
	Exec["bmtree.PathToIndex/debug"] = strict
	Register("C03", genC03)
}

func c03HB(h int) string {
	switch {
	case h <= 6:
		return "h0-6"
	case h <= 12:
		return "h7-12"
	case h <= 20:
		return "h13-20"
	case h <= 29:
		return "h21-29"
	}
	return "h30"
}

func c03Kind(T int32) string {
	h := uint(c03Height(T))
	switch {
	case uint32(T) == 1<<(h+1)-1:
		return "full"
	case uint32(T) == 1<<h:
		return "leaf"
	}
	return "part"
}

func genC03(g *Gen) {
	emit := func(T int32, v uint64, l int, bucket string) {
		h := int(c03Height(T))
		g.Stat(bucket)
		has := T>>uint(l)&1 == 1
		key := ""
		// non-trivial: not the root, and something precedes the node (it is not on the all-left spine
		// of a tree whose shallower levels are all absent)
		if l >= 1 && (v != 0 || T&(1<<uint(l)-1) != 0) {
			lb := "mid"
			switch {
			case l == h:
				lb = "leaf"
			case l == 1:
				lb = "l1"
			}
			pb := "mix"
			switch {
			case v == 0:
				pb = "left"
			case v == 1<<uint(l)-1:
				pb = "right"
			}
			key = fmt.Sprintf("%s/%s/%s/%s/has%v", c03Kind(T), c03HB(h), lb, pb, has)
		}
		args := L(I32(T), c10Node(v, l))
		g.Do("bmtree.PathToIndexLoose"+c03Suffix, args, key)
		if has {
			g.Do("bmtree.PathToIndex"+c03Suffix, args, key)
		}
	}

	// (0) hidden state (memo tables / scratch keyed on part of the arguments): generated first thing in
	//     the run. (a) ONE node under a run of sibling masks of the same height (same top levels and the
	//     node's own level stored, the other levels flipped), (b) ONE mask with a run of sibling nodes
	//     (same leading bits, the trailing bits flipped), (c) one node under unrelated masks of its height.
	nh := g.N(120, 2500)
	for k := 0; k < nh; k++ {
		h := g.R.Range(2, 30)
		if k%3 != 0 {
			h = g.R.Range(20, 30)
		}
		top := uint32(1) << uint(h)
		low := top - 1
		l := g.R.Range(1, h)
		ones := uint64(1)<<uint(l) - 1
		v := g.R.U64() & ones
		if g.R.Intn(4) == 0 {
			v = ones
		}
		base := top | uint32(g.R.U64())&low | 1<<uint(l)
		for j := 0; j < 6; j++ { // (a)
			flip := uint32(g.R.U64()) & low & 0xfffff &^ (1 << uint(l))
			if j%2 == 1 {
				flip = uint32(1) << uint(g.R.Intn(h)) &^ (1 << uint(l))
			}
			emit(int32(base^flip), v, l, "held-masks-"+c03HB(h))
		}
		for j := 0; j < 6; j++ { // (b)
			w := v ^ (g.R.U64() & ones & 0xfffff)
			if j%2 == 1 {
				w = v ^ (uint64(1)<<uint(g.R.Intn(l)))&ones
			}
			emit(int32(base), w, l, "held-nodes-"+c03HB(h))
		}
		for j := 0; j < 3; j++ { // (c)
			emit(int32(top|uint32(g.R.U64())&low|1<<uint(l)), v, l, "held-any-"+c03HB(h))
		}
	}

	// (1) exhaustive: every level mask T in [1, 2^7) x every node of its tree
	for T := int32(1); T < 1<<7; T++ {
		h := int(c03Height(T))
		for l := 0; l <= h; l++ {
			for v := uint64(0); v < 1<<uint(l); v++ {
				emit(T, v, l, "exh")
			}
		}
	}
	g.Exhaust = append(g.Exhaust, "every level mask T in [1,2^7) x every node (Loose on all nodes, PathToIndex on stored levels)")

	// (2) every height 0..30 x {full, leaf-only, top two levels, alternating, all-but-root, root+leaf}
	//     x every length x {left-most, right-most, alternating, 10.., 01..} paths
	for h := 0; h <= 30; h++ {
		top := int32(1) << uint(h)
		full := int32(uint32(1)<<uint(h+1) - 1)
		masks := []int32{full, top, top | top>>1, top | int32(0x55555555)&full, top | int32(0x2aaaaaaa)&full, full &^ 1, top | 1, top | 2&full}
		for _, T := range masks {
			if T < 1 || int(c03Height(T)) != h {
				continue
			}
			for l := 0; l <= h; l++ {
				ones := uint64(1)<<uint(l) - 1
				for _, v := range []uint64{0, ones, 0xaaaaaaaaaaaaaaaa & ones, 0x5555555555555555 & ones, ones &^ (ones >> 1), ones >> 1} {
					emit(T, v, l, "edge")
				}
			}
		}
	}
	g.Exhaust = append(g.Exhaust, "heights 0..30 x 8 structured masks (full, leaf-only, ...) x every length x 6 extreme paths")

	// (3) random: heights 7..30, masks full / leaf-only / sparse / dense / random, nodes of every length
	n := g.N(2500, 120000)
	for k := 0; k < n; k++ {
		h := g.R.Range(7, 30)
		switch g.R.Intn(8) {
		case 0:
			h = 30
		case 1:
			h = g.R.Range(7, 12) // the enumerated pre-order is the checker here
		}
		top := uint32(1) << uint(h)
		low := top - 1
		var T uint32
		mk := ""
		switch g.R.Intn(8) {
		case 0:
			T, mk = top|low, "full"
		case 1:
			T, mk = top, "leaf"
		case 2:
			T, mk = top|uint32(g.R.U64()&g.R.U64()&g.R.U64())&low, "sparse"
		case 3:
			T, mk = top|uint32(g.R.U64()|g.R.U64()|g.R.U64())&low, "dense"
		case 4:
			T, mk = (top|low)&^(1<<uint(g.R.Intn(h))), "full-1" // full but one level: the general branch on an almost-full mask
		case 5:
			T, mk = top|1<<uint(g.R.Intn(h)), "leaf+1"
		default:
			T, mk = top|uint32(g.R.U64())&low, "rand"
		}
		for j := 0; j < 4; j++ {
			l := g.R.Range(0, h)
			switch g.R.Intn(6) {
			case 0:
				l = h
			case 1:
				l = g.R.Pick(0, 1, h-1)
			}
			ones := uint64(1)<<uint(l) - 1
			v := g.R.U64() & ones
			switch g.R.Intn(8) {
			case 0:
				v = 0
			case 1:
				v = ones
			case 2:
				v = 0xaaaaaaaaaaaaaaaa & ones
			case 3:
				v = uint64(1) << uint(g.R.Intn(l+1)) & ones
			}
			emit(int32(T), v, l, "rand-"+mk+"-"+c03HB(h))
		}
	}

	// (4) widening: raw arguments against the debug build (c03raw.go)
	c03GenRaw(g)
	// (5) widening: the child rule (c03child.go)
	c03GenChild(g)
	// (6) widening: from a key to its index, PathOf then PathToIndex(Loose) (c03key.go)
	c03GenKey(g)
	// (7) sessions: several lookups on one mask in one process (c03session.go)
	c03GenSession(g)
}
