package main

import (
	"fmt"

	"github.com/openacid/low/bmtree"
)

// C03 widening: RAW arguments (any int32 level mask, any uint64 word) against
// the -tags debug build only: the contracts must fire exactly outside the
// domain of PathToIndex / PathToIndexLoose and nowhere inside it.  In the
// release build these inputs are outside every claim and are not generated.

func init() {
	Exec["bmtree.PathToIndexLoose/debug-raw"] = func(a []V) string {
		i, has := bmtree.PathToIndexLoose(a[0].I32(), a[1].U64())
		return L(I32(i), I32(has))
	}
	Exec["bmtree.PathToIndex/debug-raw"] = func(a []V) string {
		return I32(bmtree.PathToIndex(a[0].I32(), a[1].U64()))
	}
}

func c03GenRaw(g *Gen) {
	if c03Suffix != "/debug" {
		return
	}
	emit := func(T int32, w uint64, bucket, key string) {
		g.Stat("raw-" + bucket)
		args := L(I32(T), U(w))
		g.Do("bmtree.PathToIndexLoose/debug-raw", args, key)
		g.Do("bmtree.PathToIndex/debug-raw", args, key)
	}

	// (R1) exhaustive: level masks -2..16 x every word with a 4-bit mask half and a 4-bit bits half
	for T := int32(-2); T <= 16; T++ {
		for m := uint64(0); m < 16; m++ {
			for b := uint64(0); b < 16; b++ {
				key := ""
				if T > 0 && (m != 0 || b != 0) {
					key = fmt.Sprintf("raw/exh/T%d/m%d", T, m)
				}
				emit(T, b<<32|m, "exh", key)
			}
		}
	}
	g.Exhaust = append(g.Exhaust, "debug build, raw arguments: every level mask in [-2,16] x every word with mask half < 16 and bits half < 16")

	// (R2) a valid (T, node) pair, then ONE mutation of the word or of the level mask
	muts := []string{"valid", "maskflip", "bitsflip", "top2", "nomask", "shorter", "taller", "lowbit", "unstored",
		"T0", "Tneg", "Tshl", "Tshr", "Tmin", "randw", "maskhole", "bitsabove"}
	n := g.N(6000, 150000)
	for k := 0; k < n; k++ {
		h := g.R.Range(0, 30)
		if g.R.Intn(4) == 0 {
			h = g.R.Pick(0, 1, 29, 30)
		}
		top := uint32(1) << uint(h)
		low := top - 1
		T := int32(top | uint32(g.R.U64())&low)
		switch g.R.Intn(6) {
		case 0:
			T = int32(top | low)
		case 1:
			T = int32(top)
		}
		l := g.R.Range(0, h)
		ones := uint64(1)<<uint(l) - 1
		v := g.R.U64() & ones
		w := bmtree.NewPath(v<<uint(h-l), int32(l), int32(h))
		mu := muts[g.R.Intn(len(muts))]
		if k < len(muts)*8 {
			mu = muts[k%len(muts)]
		}
		switch mu {
		case "maskflip":
			w ^= 1 << uint(g.R.Intn(32))
		case "bitsflip":
			w ^= 1 << uint(32+g.R.Intn(32))
		case "top2":
			w |= 1 << uint(g.R.Pick(30, 31, 62, 63))
		case "nomask": // the contract gap when the bits half is not 0
			w &^= 0xffffffff
		case "shorter":
			if h > 0 {
				w = bmtree.NewPath(v<<uint(h-l)>>1, int32(l*(h-1)/h), int32(h-1))
			}
		case "taller":
			w = bmtree.NewPath(v<<uint(h-l)<<1, int32(l), int32(h+1))
		case "lowbit": // a search bit below the mask
			if l < h {
				w |= 1 << uint(32+g.R.Intn(h-l))
			}
		case "unstored":
			T &^= 1 << uint(l)
			if T == 0 {
				T = 1
			}
		case "T0":
			T = 0
		case "Tneg":
			T = -T
			if g.R.Bool() {
				T = int32(uint32(T) | 1<<31)
			}
		case "Tshl":
			T = int32(uint32(T) << 1)
		case "Tshr":
			T >>= 1
		case "Tmin":
			T = int32(g.R.Pick(-1<<31, 1<<31-1, -1, 1))
		case "randw":
			w = g.R.U64() & g.R.U64() & 0x3fffffff3fffffff
		case "maskhole": // a 0 inside the run of 1s of the mask half
			if l >= 3 {
				w &^= 1 << uint(h-l+1+g.R.Intn(l-2))
			}
		case "bitsabove": // a search bit above the tree height
			if h < 29 {
				w |= 1 << uint(32+h+g.R.Intn(29-h)+1)
			}
		}
		emit(T, w, mu+"-"+c03HB(h), fmt.Sprintf("raw/%s/%s/l%d", mu, c03HB(h), min3(l, 1, h)))
	}
}

// min3 buckets a length: 0, 1 (some), 2 (= h)
func min3(l, _ int, h int) int {
	switch {
	case l == 0:
		return 0
	case l == h:
		return 2
	}
	return 1
}
