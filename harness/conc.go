package main

import (
	"runtime"
	"sync"
	"sync/atomic"
)

// lockstep runs fn(k, j) for j = 0..iters-1 in K goroutines (k = 0..K-1) that are released together and
// re-synchronised before every j (spin barrier, yielding so that it also terminates under GOMAXPROCS < K):
// the K callers make their j-th call at the same moment.  Used by executors to put ordinary concurrent
// callers next to an observed call: a function that only reads its arguments answers each caller as it
// answers a lone one.
func lockstep(K, iters int, fn func(k, j int)) {
	var arrived int64
	var done sync.WaitGroup
	done.Add(K)
	for k := 0; k < K; k++ {
		go func(k int) {
			defer done.Done()
			for j := 0; j < iters; j++ {
				atomic.AddInt64(&arrived, 1)
				for spin := 0; atomic.LoadInt64(&arrived) < int64(K*(j+1)); spin++ {
					if spin&63 == 63 {
						runtime.Gosched()
					}
				}
				fn(k, j)
			}
		}(k)
	}
	done.Wait()
}
