package main

import (
	"fmt"
	"math"
	"sort"
	"strings"

	"github.com/openacid/low/bitmap"
	"github.com/openacid/low/bmtree"
)

var c11Tick int

func init() {
	// [s, from, to] -> [k, value]
	Exec["bitmap.FromStr32"] = func(a []V) string {
		s, from, to := a[0].Str(), a[1].I32(), a[2].I32()
		k, v := bitmap.FromStr32(s, from, to)
		c11Tick++
		if c11Tick%16 == 0 {
			// one case in 16: the same call is then made by three callers at once, next to three callers
			// converting other keys (the complement, a shifted copy) over the same window; the first answer
			// that differs from the lone caller's is the observation
			o1, o2 := []byte(s), []byte(s+"\xff\x00\xff\x00\xff")
			for i := range o1 {
				o1[i] = ^o1[i]
			}
			others := []string{string(o1), string(o2[1:]), "\xff\xff\xff\xff\xff\xff\xff\xff"}
			var bad [3]struct {
				hit bool
				k   int32
				v   uint64
			}
			lockstep(6, 150, func(g, j int) {
				if g < 3 {
					if k2, v2 := bitmap.FromStr32(s, from, to); (k2 != k || v2 != v) && !bad[g].hit {
						bad[g].hit, bad[g].k, bad[g].v = true, k2, v2
					}
				} else {
					func() {
						defer func() { recover() }()
						bitmap.FromStr32(others[g-3], from, to)
					}()
				}
			})
			for _, b := range bad {
				if b.hit {
					return L(I32(b.k), U(b.v))
				}
			}
		}
		return L(I32(k), U(v))
	}
	// [s, from, h] -> path word
	Exec["bmtree.PathOf"] = func(a []V) string {
		return U(bmtree.PathOf(a[0].Str(), a[1].I32(), a[2].I32()))
	}
	// [s, from, h] -> PathStr(PathOf(s, from, h)) as bytes
	Exec["bmtree.PathOf/str"] = func(a []V) string {
		return Str(bmtree.PathStr(bmtree.PathOf(a[0].Str(), a[1].I32(), a[2].I32())))
	}
	// [keys, from, h, dedup] -> path words
	Exec["bmtree.PathsOf"] = func(a []V) string {
		return U64s(bmtree.PathsOf(a[0].Strs(), a[1].I32(), a[2].I32(), a[3].Bool()))
	}
	// [keys1, keys2, from, h, dedup] -> [paths1, paths2], both rendered after the second call
	Exec["bmtree.PathsOf/held"] = func(a []V) string {
		r1 := bmtree.PathsOf(a[0].Strs(), a[2].I32(), a[3].I32(), a[4].Bool())
		r2 := bmtree.PathsOf(a[1].Strs(), a[2].I32(), a[3].I32(), a[4].Bool())
		return L(U64s(r1), U64s(r2))
	}
	// [s, from, h] -> [PathLen, PathHeight, PathBits, PathMask] of PathOf(s, from, h)
	Exec["bmtree.PathOf/fields"] = func(a []V) string {
		p := bmtree.PathOf(a[0].Str(), a[1].I32(), a[2].I32())
		return L(I32(bmtree.PathLen(p)), I32(bmtree.PathHeight(p)), U(bmtree.PathBits(p)), U(bmtree.PathMask(p)))
	}
	// [sorted keys with a common from-bit prefix, from, h] -> PathsOf(keys, from, h, true)
	Exec["bmtree.PathsOf/sorted"] = func(a []V) string {
		return U64s(bmtree.PathsOf(a[0].Strs(), a[1].I32(), a[2].I32(), true))
	}
	// [s, from, w1, w2] -> FromStr32 over [from,from+w1), [from+w1,from+w1+w2), [from,from+w1+w2)
	Exec["bitmap.FromStr32/split"] = func(a []V) string {
		s, from, w1, w2 := a[0].Str(), a[1].I32(), a[2].I32(), a[3].I32()
		k1, v1 := bitmap.FromStr32(s, from, from+w1)
		k2, v2 := bitmap.FromStr32(s, from+w1, from+w1+w2)
		k, v := bitmap.FromStr32(s, from, from+w1+w2)
		return L(L(I32(k1), U(v1)), L(I32(k2), U(v2)), L(I32(k), U(v)))
	}
	// [alphabet, runs [[idx,count],...], from, h, dedup] -> run-length encoded PathsOf(expanded keys)
	Exec["bmtree.PathsOf/runs"] = func(a []V) string {
		keys := c11Expand(a[0].Strs(), a[1])
		return c11RLE(bmtree.PathsOf(keys, a[2].I32(), a[3].I32(), a[4].Bool()))
	}
	// the same, two calls, both results rendered after the second
	Exec["bmtree.PathsOf/runs/held"] = func(a []V) string {
		al := a[0].Strs()
		r1 := bmtree.PathsOf(c11Expand(al, a[1]), a[3].I32(), a[4].I32(), a[5].Bool())
		r2 := bmtree.PathsOf(c11Expand(al, a[2]), a[3].I32(), a[4].I32(), a[5].Bool())
		return L(c11RLE(r1), c11RLE(r2))
	}
	// [keys1, keys2, from, h, dedup2, junk] -> r1 := PathsOf(keys1, dedup), r2 := PathsOf(keys2, dedup2), r1 = append(r1, junk...)
	Exec["bmtree.PathsOf/append"] = func(a []V) string {
		r1 := bmtree.PathsOf(a[0].Strs(), a[2].I32(), a[3].I32(), true)
		r2 := bmtree.PathsOf(a[1].Strs(), a[2].I32(), a[3].I32(), a[4].Bool())
		r1 = append(r1, a[5].U64s()...)
		return L(U64s(r1), U64s(r2))
	}
	// [P, n, T, from, w] -> FromStr32(P^n + T, from, from+w)
	Exec["bitmap.FromStr32/big"] = func(a []V) string {
		s := strings.Repeat(a[0].Str(), a[1].Int()) + a[2].Str()
		k, v := bitmap.FromStr32(s, a[3].I32(), a[3].I32()+a[4].I32())
		return L(I32(k), U(v))
	}
	Register("C11", genC11)
}

// shape key: bytes touched by the window inside the string, alignment of the
// start, how the window is clamped by the string end, width class.
// Trivial ("") when no bit is taken (k = 0) or all taken bits are equal.
func c11Key(s []byte, from, w int) string {
	n := 8 * len(s)
	k := n - from
	if k > w {
		k = w
	}
	if k <= 0 {
		return ""
	}
	ones := 0
	for g := from; g < from+k; g++ {
		if s[g>>3]>>(7-uint(g&7))&1 == 1 {
			ones++
		}
	}
	if ones == 0 || ones == k {
		return ""
	}
	nb := (from+k-1)>>3 - from>>3 + 1
	cl := "full"
	if k < w {
		cl = "cut"
	}
	wc := "mid"
	switch {
	case w == 32:
		wc = "32"
	case w >= 25:
		wc = "25+"
	case w <= 8:
		wc = "8-"
	}
	tail := "more" // are there string bytes after the window's last byte?
	if (from+k-1)>>3 == len(s)-1 {
		tail = "last"
	}
	return fmt.Sprintf("nb%d/al%d/%s/w%s/%s", nb, from&7, cl, wc, tail)
}

func c11All(g *Gen, s []byte, from, w int, bucket string, withPath bool) {
	g.Stat(bucket)
	key := c11Key(s, from, w)
	sv := Bytes(s)
	g.Do("bitmap.FromStr32", L(sv, Int(from), Int(from+w)), key)
	if withPath {
		g.Do("bmtree.PathOf", L(sv, Int(from), Int(w)), key)
		g.Do("bmtree.PathOf/str", L(sv, Int(from), Int(w)), key)
		g.Do("bmtree.PathOf/fields", L(sv, Int(from), Int(w)), key)
	}
}

var c11Alpha = []byte{0x00, 0x80, 0xff, 0x01, 0xa5}

// all strings of length n over c11Alpha
func c11Strings(n int, f func(s []byte)) {
	s := make([]byte, n)
	var rec func(i int)
	rec = func(i int) {
		if i == n {
			f(append([]byte(nil), s...))
			return
		}
		for _, c := range c11Alpha {
			s[i] = c
			rec(i + 1)
		}
	}
	rec(0)
}

func c11PathsKey(keys [][]byte, from, h int, dedup bool) string {
	if len(keys) < 2 || h == 0 {
		return ""
	}
	ps := make([]uint64, len(keys))
	for i, k := range keys {
		ps[i] = bmtree.PathOf(string(k), int32(from), int32(h))
	}
	adj, nonadj := 0, 0
	for i := 1; i < len(ps); i++ {
		if ps[i] == ps[i-1] {
			adj++
		}
		for j := 0; j+1 < i; j++ {
			if ps[j] == ps[i] && ps[i-1] != ps[i] {
				nonadj++
				break
			}
		}
	}
	b := func(x int) int {
		if x > 2 {
			return 2
		}
		return x
	}
	first := "f"
	if ps[0] == 0 {
		first = "f0"
	} else if ps[0] == ^uint64(0) {
		first = "fff"
	}
	return fmt.Sprintf("dd%v/adj%d/non%d/%s/n%d", dedup, b(adj), b(nonadj), first, minInt(len(keys), 5))
}

func c11Paths(g *Gen, keys [][]byte, from, h int, bucket string) {
	g.Stat(bucket)
	for _, dd := range []bool{false, true} {
		g.Do("bmtree.PathsOf", L(ByteSlices(keys), Int(from), Int(h), B(dd)), c11PathsKey(keys, from, h, dd))
	}
}

// c11Held: two key lists of ascending sizes (the second shorter, equal and longer than the first) so that a
// result buffer reused between calls is overwritten while the first result is still held.
func c11Held(g *Gen) {
	mk := func(n int, al []byte) [][]byte {
		keys := make([][]byte, n)
		for i := range keys {
			keys[i] = g.R.Bytes(g.R.Range(1, 4), al)
		}
		sort.Slice(keys, func(i, j int) bool { return string(keys[i]) < string(keys[j]) })
		return keys
	}
	for n1 := 0; n1 <= 9; n1++ {
		for _, n2 := range []int{0, 1, n1 - 1, n1, n1 + 1, 2*n1 + 1} {
			if n2 < 0 {
				continue
			}
			for _, dd := range []bool{false, true} {
				al := alphabets[g.R.Intn(len(alphabets))]
				k1, k2 := mk(n1, al), mk(n2, alphabets[g.R.Intn(len(alphabets))])
				from := g.R.Pick(0, 0, 3, 8)
				h := g.R.Pick(8, 16, 32)
				key := ""
				if n1 > 0 && n2 > 0 {
					key = fmt.Sprintf("held/dd%v/n%d/%s", dd, minInt(n1, 5), map[bool]string{true: "grow", false: "fit"}[n2 > n1])
				}
				g.Stat("pathsof-held")
				g.Do("bmtree.PathsOf/held", L(ByteSlices(k1), ByteSlices(k2), Int(from), Int(h), B(dd)), key)
			}
		}
	}
}

// c11Expand: runs [[idx,count],...] over an alphabet of keys -> the key list
func c11Expand(al []string, runs V) []string {
	keys := []string{}
	for _, r := range runs.L {
		idx, cnt := r.L[0].Int(), r.L[1].Int()
		for j := 0; j < cnt; j++ {
			keys = append(keys, al[idx])
		}
	}
	return keys
}

// c11RLE: run-length encoding [[value,count],...] of a result
func c11RLE(ps []uint64) string {
	out := []string{}
	for i := 0; i < len(ps); {
		j := i
		for j < len(ps) && ps[j] == ps[i] {
			j++
		}
		out = append(out, L(U(ps[i]), Int(j-i)))
		i = j
	}
	return L(out...)
}

func c11RunsText(runs [][2]int) string {
	out := make([]string, len(runs))
	for i, r := range runs {
		out[i] = L(Int(r[0]), Int(r[1]))
	}
	return L(out...)
}

// c11Long: key lists of 1025..4100 keys in compact form (alphabet + runs), with runs of equal keys
// straddling the multiples of 256/512/1024/2048, exact pairs at b-1/b, runs starting exactly at b,
// both dedup flags, plus held pairs.  A batch implementation that converts chunks separately must
// still compare across its chunk boundaries.
func c11Long(g *Gen) {
	al := [][]byte{{0x00}, {0x01}, {0x61}, {0x61, 0x62}, {0x62}, {0x80}, {0xff}, {0xff, 0xff}}
	alText := ByteSlices(al)
	total := func(runs [][2]int) int {
		t := 0
		for _, r := range runs {
			t += r[1]
		}
		return t
	}
	// pattern builders: all return runs whose total is exactly n
	fill := func(runs [][2]int, n int, next *int, maxRun int) [][2]int { // random runs up to n
		for total(runs) < n {
			c := g.R.Range(1, maxRun)
			if t := total(runs); t+c > n {
				c = n - t
			}
			runs = append(runs, [2]int{*next % len(al), c})
			*next++
		}
		return runs
	}
	patterns := []func(n int) [][2]int{
		func(n int) [][2]int { return [][2]int{{2, n}} }, // one run of n equal keys
		func(n int) [][2]int { next := 0; return fill(nil, n, &next, 400) },
		func(n int) [][2]int { next := 0; return fill(nil, n, &next, 60) },
		func(n int) [][2]int { // singles, and exactly one equal pair at b-1/b for every multiple b of 256
			runs := [][2]int{}
			next := 0
			for t := 0; t < n; {
				c := 1
				if (t+1)%256 == 0 && t+2 <= n {
					c = 2
				}
				runs = append(runs, [2]int{next % len(al), c})
				next++
				t += c
			}
			return runs
		},
		func(n int) [][2]int { // runs that START exactly at the multiples of 512 (no pair across them)
			runs := [][2]int{}
			next := 0
			for t := 0; t < n; {
				c := 512
				if t+c > n {
					c = n - t
				}
				runs = append(runs, [2]int{next % len(al), c})
				next++
				t += c
			}
			return runs
		},
	}
	// (>= 4096 keys: also the sizes from which a batch implementation may go parallel; these are the slowest
	// cases of the run, so main.go re-runs them under GOMAXPROCS 3, 33 and 97)
	ns := []int{1025, 1026, 2047, 2048, 2049, 3073, 4096, 4100, 5000, 6000}
	if g.Thorough {
		ns = append(ns, 1024, 1030, 1500, 2050, 3000, 3072, 4095, 4097, 5555, 8192)
	}
	for _, n := range ns {
		for pi, pat := range patterns {
			runs := pat(n)
			for _, dd := range []bool{true, false} {
				from := g.R.Pick(0, 0, 3, 8)
				h := g.R.Pick(8, 16, 32)
				g.Stat("pathsof-long")
				g.Do("bmtree.PathsOf/runs", L(alText, c11RunsText(runs), Int(from), Int(h), B(dd)),
					fmt.Sprintf("long/dd%v/p%d/n%d", dd, pi, n/1024))
			}
		}
	}
	// held: a long list, then another long / short one
	for _, n := range []int{1025, 2049, 4100} {
		for _, n2 := range []int{3, 1025, n + 1} {
			next := 1
			r1 := fill(nil, n, &next, 300)
			r2 := fill(nil, n2, &next, 300)
			for _, dd := range []bool{true, false} {
				g.Stat("pathsof-long-held")
				g.Do("bmtree.PathsOf/runs/held", L(alText, c11RunsText(r1), c11RunsText(r2), Int(0), Int(16), B(dd)),
					fmt.Sprintf("longheld/dd%v/n%d", dd, n/1024))
			}
		}
	}
}

// c11Append: a dedup call that really drops duplicates (len < number of keys), another small call, then the caller
// appends to the first result; sizes up to and beyond 256 keys.
func c11Append(g *Gen) {
	n := g.N(150, 1500)
	for k := 0; k < n; k++ {
		al := alphabets[g.R.Intn(len(alphabets))]
		nd := g.R.Range(1, 6) // distinct keys
		if g.R.Intn(6) == 0 {
			nd = g.R.Range(7, 90)
		}
		keys1 := [][]byte{}
		dups := 0
		for i := 0; i < nd; i++ {
			key := g.R.Bytes(g.R.Range(0, 3), al)
			rep := g.R.Pick(1, 1, 2, 3, g.R.Range(1, 5))
			for j := 0; j < rep; j++ {
				keys1 = append(keys1, key)
			}
			dups += rep - 1
		}
		nk2 := g.R.Range(1, 5)
		keys2 := make([][]byte, nk2)
		for i := range keys2 {
			keys2[i] = g.R.Bytes(g.R.Range(1, 3), al)
		}
		nj := g.R.Range(1, dups+2)
		junk := make([]uint64, nj)
		for i := range junk {
			junk[i] = 0xdead000000000000 | uint64(g.R.Intn(1<<16))
		}
		key := ""
		if dups > 0 {
			key = fmt.Sprintf("append/n%d/dups%d/j%d/n2_%d", minInt(len(keys1)/8, 6), minInt(dups, 4), minInt(nj, 3), nk2)
		}
		g.Stat("pathsof-append")
		g.Do("bmtree.PathsOf/append", L(ByteSlices(keys1), ByteSlices(keys2), Int(g.R.Pick(0, 0, 4)), Int(g.R.Pick(8, 16, 32)), B(g.R.Bool()), U64s(junk)), key)
	}
}

// c11Big: a 40 MB (and a 32 MB + 1) string given as pattern^n + tail; windows around bit 2^28-8 (byte 2^25-1), deep
// inside, and at the very end of the string.
func c11Big(g *Gen) {
	pat := []byte{0xa5, 0x5a, 0xff, 0x00, 0x81, 0x7e, 0x01, 0x80}
	tail := []byte{0xc3}
	type bc struct{ n, from, w int }
	cases := []bc{
		{5242880, 1<<28 - 9, 7}, {5242880, 1<<28 - 8, 32}, {5242880, 1<<28 + 3, 32}, {5242880, 8*41943041 - 20, 32},
	}
	if g.Thorough {
		for _, n := range []int{5242880, 4194304} { // 40 MB + 1, 32 MB + 1
			total := 8*n + 1
			for _, from := range []int{12345*8 + 3, 1<<28 - 40, 1<<28 - 33, 1<<28 - 9, 1<<28 - 8, 1<<28 - 7, 1 << 28, 1<<28 + 5, 8*total - 33, 8*total - 8, 8*total - 3, 8 * total, 8*total + 9} {
				for _, w := range []int{1, 7, 8, 25, 32} {
					cases = append(cases, bc{n, from, w})
				}
			}
		}
	}
	for _, c := range cases {
		g.Stat("big-string")
		g.Do("bitmap.FromStr32/big", L(Bytes(pat), Int(c.n), Bytes(tail), Int(c.from), Int(c.w)), fmt.Sprintf("big/%d/w%d", c.from>>26, c.w))
	}
}

// c11Far: start bits within 40 of MaxInt32, where from + w (PathOf's own frombit+height) wraps negative:
// every from in [MaxInt32-40, MaxInt32] x every width/height 0..32; FromStr32 is called as PathOf calls it,
// with tobit = int32(from + w) (so tobit < frombit when the sum wraps).
func c11Far(g *Gen) {
	strs := [][]byte{{}, {0x61}, {0xff, 0xa5}, {0xff, 0xff, 0xff, 0xff, 0xff, 0xff}}
	for _, s := range strs {
		sv := Bytes(s)
		for from := math.MaxInt32 - 40; from <= math.MaxInt32; from++ {
			for w := 0; w <= 32; w++ {
				to := int(int32(from) + int32(w)) // wraps
				g.Stat("far-wrap")
				g.Do("bitmap.FromStr32", L(sv, Int(from), Int(to)), "")
				if len(s) <= 2 || w%4 == 0 || w >= 31 || g.Thorough {
					g.Do("bmtree.PathOf", L(sv, Int(from), Int(w)), "")
					g.Do("bmtree.PathOf/str", L(sv, Int(from), Int(w)), "")
					g.Do("bmtree.PathOf/fields", L(sv, Int(from), Int(w)), "")
				}
			}
		}
	}
	keys := ByteSlices([][]byte{{0x61}, {0x61}, {0x62}, {}, {0xff, 0xff, 0xff, 0xff}})
	for from := math.MaxInt32 - 40; from <= math.MaxInt32; from++ {
		for h := 0; h <= 32; h++ {
			if h%3 != 0 && h < 31 && !g.Thorough {
				continue
			}
			for _, dd := range []bool{true, false} {
				g.Stat("far-wrap-pathsof")
				g.Do("bmtree.PathsOf", L(keys, Int(from), Int(h), B(dd)), "")
			}
		}
	}
	g.Exhaust = append(g.Exhaust, "bitmap.FromStr32(s, from, int32(from+w)), bmtree.PathOf (+PathStr, +fields): 4 short strings x every from in [MaxInt32-40, MaxInt32] x every w in 0..32 (the sum wraps for from > MaxInt32-w)")
}

// c11Sorted: key sets sorted in Go's string order whose first `from` bits are equal (the way a trie level is
// built for the keys below one node): a common byte prefix, then a byte whose top from%8 bits are common, then
// tails that share prefixes, repeat, or are proper prefixes of one another.
func c11Sorted(g *Gen) {
	n := g.N(1200, 15000)
	for k := 0; k < n; k++ {
		from := g.R.Pick(0, 0, 0, 1, 7, 8, 9, 15, 16, g.R.Range(0, 40))
		h := g.R.Pick(1, 4, 8, 16, 31, 32, 32, g.R.Range(0, 32))
		al := alphabets[g.R.Intn(len(alphabets))]
		np, r := from/8, from%8
		pre := g.R.Bytes(np, al)
		var top byte
		if r > 0 {
			top = byte(g.R.Intn(256)) &^ (0xff >> uint(r))
		}
		nk := g.R.Range(0, 9)
		keys := make([][]byte, 0, nk+2)
		for i := 0; i < nk; i++ {
			var tail []byte
			if i > 0 && g.R.Intn(3) == 0 { // share a prefix of the previous tail / repeat it
				p := keys[i-1][np:]
				if r > 0 {
					p = p[1:]
				}
				tail = append(append([]byte(nil), p[:g.R.Intn(len(p)+1)]...), g.R.Bytes(g.R.Range(0, 2), al)...)
			} else {
				tail = g.R.Bytes(g.R.Range(0, 5), al)
			}
			key := append([]byte(nil), pre...)
			if r > 0 {
				key = append(key, top|(byte(g.R.Pick(0, 0xff, g.R.Intn(256)))&(0xff>>uint(r))))
			}
			keys = append(keys, append(key, tail...))
		}
		sort.Slice(keys, func(i, j int) bool { return string(keys[i]) < string(keys[j]) })
		ps := make(map[uint64]bool)
		for _, key := range keys {
			ps[bmtree.PathOf(string(key), int32(from), int32(h))] = true
		}
		key := ""
		if len(keys) >= 2 && h > 0 {
			key = fmt.Sprintf("sorted/al%d/n%d/distinct%d/w%s", from&7, minInt(len(keys), 5), minInt(len(ps), 4), map[bool]string{true: "32", false: "lt32"}[h == 32])
		}
		g.Stat("pathsof-sorted")
		g.Do("bmtree.PathsOf/sorted", L(ByteSlices(keys), Int(from), Int(h)), key)
	}
}

func genC11(g *Gen) {
	// (0) held results first (hidden state: reused scratch buffers), over ascending sizes
	c11Held(g)

	// (0b) long key lists (more than 1024 keys) in compact form, and the far end of int32
	c11Long(g)
	c11Far(g)
	c11Append(g)
	c11Big(g)

	// (1) exhaustive: all strings of length 0..L over {00,80,ff,01,a5} x all from in [0, min(56, 8n+9)] and 56
	//     x all w in [0,32]; FromStr32, PathOf and PathStr(PathOf)
	maxLen := g.N(2, 3)
	for n := 0; n <= maxLen; n++ {
		c11Strings(n, func(s []byte) {
			for from := 0; from <= 56; from++ {
				if from > 8*n+9 && from != 56 {
					continue
				}
				for w := 0; w <= 32; w++ {
					// quick: the path ops on every 3rd width plus the boundary widths
					withPath := g.Thorough || n <= 1 || w%3 == 0 || w >= 31 || w <= 1
					c11All(g, s, from, w, fmt.Sprintf("exh-len%d", n), withPath)
				}
			}
		})
	}
	g.Exhaust = append(g.Exhaust, fmt.Sprintf("bitmap.FromStr32: all strings of length 0..%d over {00,80,ff,01,a5} x all from in [0,8*len+9] and 56 x all widths 0..32", maxLen))
	if g.Thorough {
		g.Exhaust = append(g.Exhaust, "bmtree.PathOf, PathStr(PathOf): the same domain")
	} else {
		g.Exhaust = append(g.Exhaust, "bmtree.PathOf, PathStr(PathOf): strings of length 0..1 on the same domain (length 2: widths 0,1,3,6,..,30,31,32)")
	}

	// (1b) five-byte windows, exhaustive over the alphabet: all strings of length 5 x unaligned starts x the widths
	//      whose span reaches the fifth byte (quick: w = 32 and from in 1..7; thorough: from in 0..8, w in 24..32),
	//      thorough also all strings of length 4 x all from x all widths (FromStr32 only)
	c11Strings(5, func(s []byte) {
		if g.Thorough {
			for from := 0; from <= 8; from++ {
				for w := 24; w <= 32; w++ {
					c11All(g, s, from, w, "exh5-span", w == 32)
				}
			}
		} else {
			for from := 1; from <= 7; from++ {
				c11All(g, s, from, 32, "exh5-span", false)
			}
		}
	})
	if g.Thorough {
		g.Exhaust = append(g.Exhaust, "bitmap.FromStr32: all strings of length 5 over the alphabet x from in [0,8] x widths 24..32 (PathOf: width 32)")
		c11Strings(4, func(s []byte) {
			for from := 0; from <= 41; from++ {
				for w := 0; w <= 32; w++ {
					c11All(g, s, from, w, "exh-len4", false)
				}
			}
		})
		g.Exhaust = append(g.Exhaust, "bitmap.FromStr32: all strings of length 4 over the alphabet x from in [0,41] x all widths 0..32")
	} else {
		g.Exhaust = append(g.Exhaust, "bitmap.FromStr32: all strings of length 5 over the alphabet x from in [1,7] x width 32 (five-byte windows)")
	}

	// (2) sampled: strings of length 4..6 (quick also 3) over the same alphabet, all from in [0,56], all widths
	ns := g.N(150, 1500)
	for k := 0; k < ns; k++ {
		n := g.R.Range(maxLen+1, 6)
		s := g.R.Bytes(n, c11Alpha)
		from := g.R.Range(0, 56)
		if g.Thorough {
			for w := 0; w <= 32; w++ {
				c11All(g, s, from, w, "alpha-long", w%4 == 0 || w >= 31)
			}
		} else {
			for _, w := range []int{0, 1, 7, 8, 9, 16, 24, 25, 31, 32, g.R.Range(2, 30)} {
				c11All(g, s, from, w, "alpha-long", w >= 24)
			}
		}
	}

	// (3) random strings of every length 0..40 over the shared alphabets; starts before / at / after the end,
	//     aligned and unaligned; widths biased to byte-span boundaries
	nr := g.N(6000, 60000)
	for k := 0; k < nr; k++ {
		n := g.R.Range(0, 12)
		if g.R.Intn(5) == 0 {
			n = g.R.Range(13, 40)
		}
		s := g.R.Bytes(n, alphabets[g.R.Intn(len(alphabets))])
		var from int
		switch g.R.Intn(6) {
		case 0: // around the end of the string
			from = 8*n + g.R.Range(-34, 9)
		case 1: // aligned
			from = 8 * g.R.Intn(n+2)
		case 2: // last bit of a byte / first bit
			from = 8*g.R.Intn(n+1) + g.R.Pick(0, 1, 7)
		default:
			from = g.R.Intn(8*n + 8)
		}
		if from < 0 {
			from = 0
		}
		var w int
		switch g.R.Intn(4) {
		case 0:
			w = g.R.Pick(0, 1, 8, 16, 24, 25, 31, 32)
		case 1: // window ending exactly at / one around a byte boundary
			w = 8*g.R.Range(1, 4) - from&7 + g.R.Pick(-1, 0, 1)
		case 2: // window ending around the end of the string
			w = 8*n - from + g.R.Pick(-1, 0, 1)
		default:
			w = g.R.Range(0, 32)
		}
		if w < 0 {
			w = 0
		}
		if w > 32 {
			w = 32
		}
		c11All(g, s, from, w, fmt.Sprintf("rand-len%02d", (n+9)/10*10), true)
	}

	// (4) far starts: from up to 2^31-40 (tobit+7 must not overflow int32: domain bound)
	for _, from := range []int{1 << 16, 1<<24 + 3, 1<<30 + 7, 1<<31 - 40, 1<<31 - 47} {
		for _, w := range []int{0, 1, 8, 32} {
			if from+w+7 < 1<<31 {
				c11All(g, []byte{0xff, 0xa5}, from, w, "far-start", true)
			}
		}
	}

	// (5) PathsOf: sorted key sets with shared prefixes (adjacent duplicates after truncation), unsorted
	//     sets with non-adjacent duplicates, first path 0 and first path all-ones, both dedup flags
	np := g.N(1500, 12000)
	for k := 0; k < np; k++ {
		nk := g.R.Range(0, 8)
		al := alphabets[g.R.Intn(len(alphabets))]
		if g.R.Intn(3) == 0 {
			al = []byte{0xff, 0xfe}
		}
		keys := make([][]byte, nk)
		for i := range keys {
			keys[i] = g.R.Bytes(g.R.Range(0, 6), al)
			if i > 0 && g.R.Intn(3) == 0 { // share a prefix with the previous key
				p := keys[i-1]
				keys[i] = append(append([]byte(nil), p[:g.R.Intn(len(p)+1)]...), g.R.Bytes(g.R.Range(0, 3), al)...)
			}
		}
		mode := g.R.Intn(4)
		if mode != 0 {
			sort.Slice(keys, func(i, j int) bool { return string(keys[i]) < string(keys[j]) })
		}
		if mode == 3 && nk > 0 { // repeat a key non-adjacently
			keys = append(keys, keys[g.R.Intn(nk)])
		}
		if g.R.Intn(8) == 0 && nk > 0 {
			keys[0] = nil // first path = 0
		}
		if g.R.Intn(8) == 0 && nk > 0 {
			keys[0] = []byte{0xff, 0xff, 0xff, 0xff, 0xff}
		}
		from := g.R.Pick(0, 0, 0, 1, 7, 8, 9, 16, g.R.Range(0, 40))
		h := g.R.Pick(0, 1, 8, 16, 31, 32, 32, g.R.Range(0, 32), g.R.Range(0, 32))
		c11Paths(g, keys, from, h, "pathsof")
	}

	// (7) consecutive windows compose: random strings, the split point at / around byte boundaries and the string end
	nsp := g.N(1500, 20000)
	for k := 0; k < nsp; k++ {
		n := g.R.Range(0, 9)
		s := g.R.Bytes(n, alphabets[g.R.Intn(len(alphabets))])
		from := g.R.Intn(8*n + 10)
		w := g.R.Pick(32, 32, 31, 24, 16, g.R.Range(0, 32))
		var w1 int
		switch g.R.Intn(4) {
		case 0: // split at a byte boundary
			w1 = 8*((from+7)/8+g.R.Intn(4)) - from
		case 1: // split at / around the end of the string
			w1 = 8*n - from + g.R.Pick(-1, 0, 1)
		case 2:
			w1 = g.R.Pick(0, 1, w-1, w)
		default:
			w1 = g.R.Range(0, w)
		}
		if w1 < 0 {
			w1 = 0
		}
		if w1 > w {
			w1 = w
		}
		key := c11Key(s, from, w)
		if key != "" {
			key = fmt.Sprintf("split/%s/%s", key, map[bool]string{true: "inner", false: "edge"}[w1 > 0 && w1 < w])
		}
		g.Stat("split")
		g.Do("bitmap.FromStr32/split", L(Bytes(s), Int(from), Int(w1), Int(w-w1)), key)
	}

	// (6) PathsOf on sorted keys with a common prefix (relational checker)
	c11Sorted(g)
}
