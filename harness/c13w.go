package main

// C13 widening: sparse / large / held bitmaps, walking a range with NextOne and
// PrevOne, NextOne/PrevOne duality.  The bitmap argument of these ops is
// run-length coded (see coq/theories/Run/NextWide.v): a list of segments
// [z, w] = z all-zero words, then the word w.

import (
	"fmt"
	"math/bits"

	"github.com/openacid/low/bitmap"
)

func c13Unrle(v V) []uint64 {
	n := 0
	for _, s := range v.L {
		n += s.L[0].Int() + 1
	}
	bm := make([]uint64, 0, n)
	for _, s := range v.L {
		for z := s.L[0].Int(); z > 0; z-- {
			bm = append(bm, 0)
		}
		bm = append(bm, s.L[1].U64())
	}
	return bm
}

func c13Rle(bm []uint64) string {
	var segs []string
	z := 0
	for _, w := range bm {
		if w == 0 {
			z++
			continue
		}
		segs = append(segs, L(Int(z), U(w)))
		z = 0
	}
	if z > 0 {
		segs = append(segs, L(Int(z-1), U(0)))
	}
	return L(segs...)
}

// the loop a caller writes to visit the 1-bits of [i, end) in ascending order
// (a walk that does not finish within 64*len+1 rounds - possible only with a broken NextOne - is cut
// and marked with -2 instead of running into the watchdog)
func c13IterNext(bm []uint64, i, end int32) []int32 {
	out := []int32{}
	for i < end {
		p := bitmap.NextOne(bm, i, end)
		if p < 0 {
			break
		}
		out = append(out, p)
		if len(out) > 64*len(bm) {
			return append(out, -2)
		}
		i = p + 1
	}
	return out
}

// ... in descending order
func c13IterPrev(bm []uint64, i, end int32) []int32 {
	out := []int32{}
	for end > i {
		p := bitmap.PrevOne(bm, i, end)
		if p < 0 {
			break
		}
		out = append(out, p)
		if len(out) > 64*len(bm) {
			return append(out, -2)
		}
		end = p
	}
	return out
}

func init() {
	Exec["bitmap.NextOne/sparse"] = func(a []V) string {
		return I32(bitmap.NextOne(c13Unrle(a[0]), a[1].I32(), a[2].I32()))
	}
	Exec["bitmap.PrevOne/sparse"] = func(a []V) string {
		return I32(bitmap.PrevOne(c13Unrle(a[0]), a[1].I32(), a[2].I32()))
	}
	Exec["bitmap.Next/held"] = func(a []V) string {
		bm := c13Unrle(a[0])
		keep := append([]uint64{}, bm...)
		run := func() []int32 {
			r := make([]int32, 0, len(a[1].L))
			for _, q := range a[1].L {
				if q.L[0].Int() == 0 {
					r = append(r, bitmap.NextOne(bm, q.L[1].I32(), q.L[2].I32()))
				} else {
					r = append(r, bitmap.PrevOne(bm, q.L[1].I32(), q.L[2].I32()))
				}
			}
			return r
		}
		r1 := run()
		r2 := run()
		same := len(bm) == len(keep)
		for i := range keep {
			same = same && bm[i] == keep[i]
		}
		return L(I32s(r1), I32s(r2), B(same))
	}
	Exec["bitmap.NextOne/iter"] = func(a []V) string {
		return I32s(c13IterNext(c13Unrle(a[0]), a[1].I32(), a[2].I32()))
	}
	Exec["bitmap.PrevOne/iter"] = func(a []V) string {
		return I32s(c13IterPrev(c13Unrle(a[0]), a[1].I32(), a[2].I32()))
	}
	Exec["bitmap.Next/ToArray"] = func(a []V) string {
		bm := c13Unrle(a[0])
		n := int32(64 * len(bm))
		return L(I32s(c13IterNext(bm, 0, n)), I32s(c13IterPrev(bm, 0, n)), I32s(bitmap.ToArray(bm)))
	}
	Exec["bitmap.NextPrev/dual"] = func(a []V) string {
		bm, i, e := c13Unrle(a[0]), a[1].I32(), a[2].I32()
		n := bitmap.NextOne(bm, i, e)
		p := bitmap.PrevOne(bm, i, e)
		pn, np, bn, ap := int32(-1), int32(-1), int32(-1), int32(-1)
		if n >= 0 {
			pn = bitmap.PrevOne(bm, i, n+1)
		}
		if p >= 0 {
			np = bitmap.NextOne(bm, p, e)
		}
		if n > i {
			bn = bitmap.PrevOne(bm, i, n)
		}
		if p >= 0 && p+1 < e {
			ap = bitmap.NextOne(bm, p+1, e)
		}
		return I32s([]int32{n, p, pn, np, bn, ap})
	}
	Exec["bitmap.Next/Get1"] = func(a []V) string {
		bm, i, e := c13Unrle(a[0]), a[1].I32(), a[2].I32()
		n := bitmap.NextOne(bm, i, e)
		gn := int64(-1)
		if n >= 0 {
			gn = int64(bitmap.Get1(bm, n))
		}
		p := bitmap.PrevOne(bm, i, e)
		gp := int64(-1)
		if p >= 0 {
			gp = int64(bitmap.Get1(bm, p))
		}
		return L(I32(n), I(gn), I32(p), I(gp))
	}
	Exec["bitmap.Next/Select32"] = func(a []V) string {
		bm := c13Unrle(a[0])
		l := c13IterNext(bm, 0, int32(64*len(bm)))
		sidx := bitmap.IndexSelect32(bm)
		sidx2, ridx := bitmap.IndexSelect32R64(bm)
		s1 := make([]string, len(l))
		s2 := make([]string, len(l))
		for k := range l {
			x, y := bitmap.Select32(bm, sidx, int32(k))
			s1[k] = L(I32(x), I32(y))
			x, y = bitmap.Select32R64(bm, sidx2, ridx, int32(k))
			s2[k] = L(I32(x), I32(y))
		}
		return L(I32s(l), L(s1...), L(s2...))
	}
	// diagnostic only (generator "C13x"): any int32 i, end
	Exec["bitmap.NextOne/any"] = Exec["bitmap.NextOne/sparse"]
	Exec["bitmap.PrevOne/any"] = Exec["bitmap.PrevOne/sparse"]
	Register("C13x", genC13Any)
	Exec["bitmap.Of/walk"] = func(a []V) string {
		var bm []uint64
		if len(a[1].L) > 0 {
			bm = bitmap.Of(a[0].I32s(), a[1].L[0].I32())
		} else {
			bm = bitmap.Of(a[0].I32s())
		}
		n := int32(64 * len(bm))
		return L(I32s(c13IterNext(bm, 0, n)), I32s(c13IterPrev(bm, 0, n)))
	}
	Exec["bitmap.Slice/walk"] = func(a []V) string {
		r := bitmap.Slice(c13Unrle(a[0]), a[1].I32(), a[2].I32())
		n := int32(64 * len(r))
		return L(I32s(c13IterNext(r, 0, n)), I32s(c13IterPrev(r, 0, n)))
	}
	Exec["bitmap.Next/count"] = func(a []V) string {
		bm, tr, i, e := c13Unrle(a[0]), a[1].Bool(), a[2].I32(), a[3].I32()
		idx := bitmap.IndexRank64(bm, tr)
		ri, _ := bitmap.Rank64(bm, idx, i)
		re, _ := bitmap.Rank64(bm, idx, e)
		return L(Int(len(c13IterNext(bm, i, e))), Int(len(c13IterPrev(bm, i, e))), I32(re-ri))
	}
}

// c13wClass: how many all-zero words the scan steps over, and which power-of-two bit offsets
// (2^8, 2^15, 2^16, 2^20) lie inside [lo, hi].
func c13wSkipClass(k int) string {
	switch {
	case k <= 0:
		return "s0"
	case k <= 4:
		return "s1-4"
	case k < 100:
		return "s5-99"
	case k < 1000:
		return "s100-999"
	}
	return "s1000+"
}

func c13wCross(lo, hi int) string {
	s := ""
	for _, t := range []int{8, 15, 16, 20} {
		if lo < 1<<uint(t) && 1<<uint(t) <= hi {
			s += fmt.Sprintf("x%d", t)
		}
	}
	if s == "" {
		return "x-"
	}
	return s
}

// shape of one (kind, bm, i, e) query on a possibly large bitmap: where the hit is, how many zero
// words were stepped over, clipped or not, which 2^k offsets the scanned stretch crosses.
func c13wKey(next bool, bm []uint64, i, e int) string {
	if i == e {
		return ""
	}
	n := 64 * len(bm)
	if next {
		hit := -1
		for w := i >> 6; w < len(bm); w++ {
			x := bm[w]
			if w == i>>6 {
				x &= ^uint64(0) << (uint(i) & 63)
			}
			if x != 0 {
				hit = w<<6 + bits.TrailingZeros64(x)
				break
			}
		}
		if hit < 0 {
			stop := e
			if stop > n {
				stop = n
			}
			return fmt.Sprintf("N/none/%s/%s/i%s/e%s", c13wSkipClass((stop+63)>>6-(i+63)>>6), c13wCross(i, stop), c13Off(i), c13Off(e))
		}
		skip := 0
		if hit>>6 != i>>6 {
			skip = hit>>6 - (i+63)>>6
		}
		// the scan stops at the first non-zero word at or before the word of e-1
		return fmt.Sprintf("N/hit/%s/clip%v/%s/i%s/e%s/b%s", c13wSkipClass(skip), hit >= e, c13wCross(i, hit), c13Off(i), c13Off(e), c13Off(hit&127))
	}
	last := e - 1
	hit := -1
	for w := last >> 6; w >= 0; w-- {
		x := bm[w]
		if w == last>>6 {
			x &= ^uint64(0) >> (63 - uint(last)&63)
		}
		if x != 0 {
			hit = w<<6 + 63 - bits.LeadingZeros64(x)
			break
		}
	}
	if hit < 0 {
		return fmt.Sprintf("P/none/%s/%s/i%s/e%s", c13wSkipClass(last>>6-i>>6), c13wCross(i, last), c13Off(i), c13Off(e))
	}
	skip := 0
	if hit>>6 != last>>6 {
		skip = last>>6 - 1 - hit>>6
	}
	return fmt.Sprintf("P/hit/%s/clip%v/%s/i%s/e%s/b%s", c13wSkipClass(skip), hit < i, c13wCross(hit, last), c13Off(i), c13Off(e), c13Off(hit&127))
}

// c13wBitmap: groups of 1..3 adjacent non-zero words separated by gaps drawn by gap(); returns the
// bitmap and the interesting positions (first and last 1-bit of every non-zero word).
func c13wBitmap(g *Gen, groups int, gap func(gi int) int, tail int) ([]uint64, []int) {
	var bm []uint64
	var marks []int
	for gi := 0; gi < groups; gi++ {
		for z := gap(gi); z > 0; z-- {
			bm = append(bm, 0)
		}
		for k := g.R.Range(1, 3); k > 0; k-- {
			var w uint64
			switch g.R.Intn(7) {
			case 0:
				w = 1
			case 1:
				w = 1 << 63
			case 2:
				w = 1 | 1<<63
			case 3:
				w = 1 << uint(g.R.Intn(64))
			case 4:
				w = ^uint64(0)
			default:
				w = g.R.Word()
				if w == 0 {
					w = 1 << 62
				}
			}
			base := 64 * len(bm)
			marks = append(marks, base+bits.TrailingZeros64(w), base+63-bits.LeadingZeros64(w))
			bm = append(bm, w)
		}
	}
	for ; tail > 0; tail-- {
		bm = append(bm, 0)
	}
	return bm, marks
}

func c13wPos(g *Gen, bm []uint64, marks []int, extra []int) int {
	n := 64 * len(bm)
	var p int
	switch g.R.Intn(6) {
	case 0, 1:
		p = marks[g.R.Intn(len(marks))] + g.R.Pick(-1, 0, 0, 1)
	case 2:
		p = 64*g.R.Intn(len(bm)+1) + g.R.Pick(-1, 0, 0, 1)
	case 3:
		p = g.R.Pick(0, 1, n-1, n)
	case 4:
		if len(extra) > 0 {
			p = extra[g.R.Intn(len(extra))] + g.R.Pick(-65, -64, -2, -1, 0, 0, 1, 2, 63, 64, 65)
		} else {
			p = g.R.Intn(n + 1)
		}
	default:
		p = g.R.Intn(n + 1)
	}
	if p < 0 {
		p = 0
	}
	if p > n {
		p = n
	}
	return p
}

func c13wRange(g *Gen, bm []uint64, marks, extra []int) (int, int) {
	n := 64 * len(bm)
	i, e := c13wPos(g, bm, marks, extra), c13wPos(g, bm, marks, extra)
	if i > e {
		i, e = e, i
	}
	if i >= n {
		i = n - 1
	}
	return i, e
}

func genC13w(g *Gen) {
	sparse := func(bm []uint64, w string, i, e int, bucket string) {
		n := 64 * len(bm)
		if !(0 <= i && i <= e && e <= n && i < n) {
			return
		}
		g.Stat(bucket)
		g.Do("bitmap.NextOne/sparse", L(w, Int(i), Int(e)), c13wKey(true, bm, i, e))
		if e >= 1 {
			g.Do("bitmap.PrevOne/sparse", L(w, Int(i), Int(e)), c13wKey(false, bm, i, e))
		}
	}

	// (W1) large sparse bitmaps: gaps of 100..5000 all-zero words between the groups of 1-bits
	nb := g.N(14, 80)
	for k := 0; k < nb; k++ {
		groups := g.R.Range(1, 4)
		big := g.R.Intn(groups) // one gap of this bitmap is drawn from the large class
		bm, marks := c13wBitmap(g, groups, func(gi int) int {
			if gi == 0 && g.R.Intn(3) == 0 {
				return g.R.Intn(3)
			}
			if gi == big && k%2 == 0 {
				return g.R.Range(1000, 5000)
			}
			return g.R.Range(100, 700)
		}, g.R.Pick(0, 0, 1, 150))
		w := c13Rle(bm)
		n := 64 * len(bm)
		for q := 0; q < 10; q++ {
			i, e := c13wRange(g, bm, marks, nil)
			switch q {
			case 0:
				i, e = 0, n
			case 1: // from just after one 1-bit to the end: NextOne steps over a whole gap
				i = marks[g.R.Intn(len(marks))] + 1
				e = n
			case 2: // PrevOne from the end down to just before ...
				i, e = 0, marks[g.R.Intn(len(marks))]
			}
			if i >= n {
				i = n - 1
			}
			if i > e {
				i, e = e, i
			}
			sparse(bm, w, i, e, "sparse-gaps")
		}
	}

	// (W2) ranges crossing the bit offsets 2^8, 2^15, 2^16, 2^20: 1-bits just below / at / above the
	// offset T and far away from it, scans that start before T and hit after it (and the reverse)
	type cross struct{ t, count int }
	for _, c := range []cross{{8, g.N(12, 60)}, {15, g.N(5, 30)}, {16, g.N(5, 30)}, {20, g.N(4, 16)}} {
		T := 1 << uint(c.t)
		for k := 0; k < c.count; k++ {
			nw := T/64 + g.R.Pick(2, 3, 40)
			bm := make([]uint64, nw)
			n := 64 * nw
			var marks []int
			set := func(p int) {
				bm[p>>6] |= 1 << (uint(p) & 63)
				marks = append(marks, p)
			}
			far := g.R.Pick(1, 2, 3, 5, 100, 1000, 5000)
			lo := T - 64*far - g.R.Intn(64) // a 1-bit far below T
			if lo < 0 {
				lo = g.R.Intn(T)
			}
			hi := T + g.R.Pick(0, 0, 1, 62, 63)         // a 1-bit in the word that starts at T
			hi2 := T + 64 + g.R.Pick(0, 1, 63, n-T-65) // a 1-bit in a later word
			if k%4 != 3 {
				set(lo)
			}
			if k%4 != 2 {
				set(hi)
			}
			if k%3 != 1 {
				set(hi2)
			}
			if k%5 == 0 {
				set(T - 1)
			}
			w := c13Rle(bm)
			ext := []int{T, lo, hi, hi2}
			for q := 0; q < 10; q++ {
				i, e := c13wRange(g, bm, marks, ext)
				switch q {
				case 0: // NextOne: from far below T to whatever comes at or after it
					i, e = lo+1, n
				case 1: // PrevOne: the last word of the range starts at T
					i, e = 0, hi+1
				case 2: // NextOne: the scan starts in the word(s) just below T
					i, e = T-1-64*g.R.Range(0, 3), n
				case 3: // PrevOne: the last word of the range lies beyond T, the scan comes down across T
					i, e = g.R.Pick(0, lo, lo+1), hi2+g.R.Pick(0, 1)
				case 4:
					i, e = g.R.Intn(T), T+g.R.Pick(0, 1, 64, n-T)
				case 5:
					i, e = T+g.R.Pick(0, 1, 63, 64), n
				}
				if i < 0 {
					i = 0
				}
				if e > n {
					e = n
				}
				if i > e {
					i, e = e, i
				}
				sparse(bm, w, i, e, fmt.Sprintf("cross-2^%d", c.t))
			}
		}
	}

	// (W3) held bitmaps: 6..20 queries of both kinds on ONE slice, run twice; query lists follow the
	// patterns of the laws (same range both ways, nested ranges, a range and its two halves)
	nh := g.N(150, 2000)
	for k := 0; k < nh; k++ {
		var bm []uint64
		var marks []int
		bucket := "held-small"
		if k%10 == 0 {
			bm, marks = c13wBitmap(g, g.R.Range(1, 3), func(int) int { return g.R.Range(100, 900) }, g.R.Intn(3))
			bucket = "held-sparse"
		} else {
			bm, marks = c13wBitmap(g, g.R.Range(1, 4), func(int) int { return g.R.Intn(5) }, g.R.Intn(3))
		}
		n := 64 * len(bm)
		var qs []string
		add := func(kind, i, e int) {
			if 0 <= i && i <= e && e <= n && i < n && (kind == 0 || e >= 1) {
				qs = append(qs, L(Int(kind), Int(i), Int(e)))
			}
		}
		nq := g.R.Range(2, 6)
		for q := 0; q < nq; q++ {
			i, e := c13wRange(g, bm, marks, nil)
			switch g.R.Intn(4) {
			case 0: // the same range both ways
				add(0, i, e)
				add(1, i, e)
			case 1: // nested: shrink end, advance start
				i2, e2 := c13wRange(g, bm, marks, nil)
				if i2 < i {
					i2 = i
				}
				if e2 > e {
					e2 = e
				}
				if i2 > e2 {
					i2 = e2
				}
				add(0, i, e)
				add(0, i, e2)
				add(0, i2, e)
				add(1, i, e)
				add(1, i2, e)
				add(1, i, e2)
			case 2: // a range and its two halves
				m := i + g.R.Intn(e-i+1)
				add(0, i, e)
				add(0, i, m)
				add(0, m, e)
				add(1, i, e)
				add(1, i, m)
				add(1, m, e)
			default:
				add(g.R.Intn(2), i, e)
				add(g.R.Intn(2), i, e)
			}
		}
		if len(qs) == 0 {
			continue
		}
		g.Stat(bucket)
		key := ""
		if popcount(bm) > 0 {
			key = fmt.Sprintf("held/%s/q%d", bucket[5:], len(qs)/4)
		}
		g.Do("bitmap.Next/held", L(c13Rle(bm), L(qs...)), key)
	}

	// (W3b) siblings: the same query on a bitmap and, next, on the bitmap with the answering 1-bit
	// cleared - same length, same (i, end), mostly the same words, a different answer
	for k, ns := 0, g.N(200, 3000); k < ns; k++ {
		bm, marks := c13wBitmap(g, g.R.Range(1, 4), func(int) int { return g.R.Intn(5) }, g.R.Intn(3))
		i, e := c13wRange(g, bm, marks, nil)
		first, last := -1, -1
		for p := i; p < e; p++ {
			if c13Bit(bm, p) {
				if first < 0 {
					first = p
				}
				last = p
			}
		}
		if first < 0 {
			continue
		}
		g.Stat("siblings")
		w := c13Rle(bm)
		g.Do("bitmap.NextOne/sparse", L(w, Int(i), Int(e)), c13wKey(true, bm, i, e))
		b2 := append([]uint64{}, bm...)
		b2[first>>6] &^= 1 << (uint(first) & 63)
		g.Do("bitmap.NextOne/sparse", L(c13Rle(b2), Int(i), Int(e)), "sib/"+c13wKey(true, b2, i, e))
		g.Do("bitmap.PrevOne/sparse", L(w, Int(i), Int(e)), c13wKey(false, bm, i, e))
		b3 := append([]uint64{}, bm...)
		b3[last>>6] &^= 1 << (uint(last) & 63)
		g.Do("bitmap.PrevOne/sparse", L(c13Rle(b3), Int(i), Int(e)), "sib/"+c13wKey(false, b3, i, e))
	}

	// (W4) walking ranges / the whole bitmap, (W5) duality
	iter := func(bm []uint64, i, e int, bucket string) {
		n := 64 * len(bm)
		if !(0 <= i && i <= e && e <= n) {
			return
		}
		g.Stat(bucket)
		w := c13Rle(bm)
		cnt := 0
		for p := i; p < e; p++ {
			if c13Bit(bm, p) {
				cnt++
			}
		}
		key := ""
		if cnt > 0 {
			c := cnt
			if c > 3 {
				c = 3 + bits.Len(uint(cnt))
			}
			key = fmt.Sprintf("c%d/i%s/e%s/%s", c, c13Off(i), c13Off(e), c13wCross(i, e))
		}
		pre := func(p string) string {
			if key == "" {
				return ""
			}
			return p + key
		}
		g.Do("bitmap.NextOne/iter", L(w, Int(i), Int(e)), pre("IN/"))
		g.Do("bitmap.PrevOne/iter", L(w, Int(i), Int(e)), pre("IP/"))
		if i < e {
			g.Do("bitmap.NextPrev/dual", L(w, Int(i), Int(e)), pre("D/"))
			if i < n {
				g.Do("bitmap.Next/Get1", L(w, Int(i), Int(e)), pre("G/"))
			}
		}
		if e < n {
			g.Do("bitmap.Next/count", L(w, B(g.R.Bool()), Int(i), Int(e)), pre("C/"))
		}
		if e-i <= 64*700 { // Slice's model copies bit by bit, reading a word per bit
			g.Do("bitmap.Slice/walk", L(w, Int(i), Int(e)), pre("S/"))
		}
	}
	// one-word bitmaps x all boundary ranges
	for _, w := range []uint64{0, 1, 1 << 63, 1 | 1<<63, ^uint64(0), 0x00ff00000000ff00, 6} {
		bs := []int{0, 1, 2, 3, 8, 9, 31, 32, 33, 62, 63, 64}
		for _, i := range bs {
			for _, e := range bs {
				if i <= e {
					iter([]uint64{w}, i, e, "iter-1word")
				}
			}
		}
	}
	g.Exhaust = append(g.Exhaust, "walk/dual: 7 one-word bitmaps x all (i,end) over {0,1,2,3,8,9,31,32,33,62,63,64}")
	ni := g.N(250, 3000)
	for k := 0; k < ni; k++ {
		bm, marks := c13wBitmap(g, g.R.Range(1, 4), func(int) int { return g.R.Intn(5) }, g.R.Intn(3))
		n := 64 * len(bm)
		for q := 0; q < 4; q++ {
			i, e := c13wRange(g, bm, marks, nil)
			if q == 0 {
				i, e = 0, n
			}
			iter(bm, i, e, "iter-struct")
		}
		if k%5 == 0 {
			g.Stat("toarray")
			g.Do("bitmap.Next/ToArray", L(c13Rle(bm)), fmt.Sprintf("TA/nw%d/c%d", len(bm), bits.Len(uint(popcount(bm)))))
		}
		if k%5 == 1 {
			g.Stat("select")
			g.Do("bitmap.Next/Select32", L(c13Rle(bm)), fmt.Sprintf("SE/nw%d/c%d", len(bm), bits.Len(uint(popcount(bm)))))
		}
	}
	g.Do("bitmap.Next/ToArray", L(L()), "")
	g.Do("bitmap.Next/Select32", L(L()), "")
	for k, ns := 0, g.N(6, 60); k < ns; k++ {
		bm, marks := c13wBitmap(g, g.R.Range(1, 3), func(int) int { return g.R.Range(100, 1200) }, g.R.Intn(3))
		i, e := c13wRange(g, bm, marks, nil)
		if k%2 == 0 {
			i, e = 0, 64*len(bm)
		}
		iter(bm, i, e, "iter-sparse")
		g.Stat("select")
		g.Do("bitmap.Next/Select32", L(c13Rle(bm)), fmt.Sprintf("SE/sparse/c%d", bits.Len(uint(popcount(bm)))))
		if len(bm) <= 700 { // the model of ToArray reads a word per BIT
			g.Stat("toarray")
			g.Do("bitmap.Next/ToArray", L(c13Rle(bm)), fmt.Sprintf("TA/sparse/c%d", bits.Len(uint(popcount(bm)))))
		}
	}

	// (W6) build with Of, walk with NextOne / PrevOne: dense and sparse ascending position lists,
	// with and without the size argument (smaller / larger than last+1, negative)
	for k, no := 0, g.N(200, 2500); k < no; k++ {
		var ps []int
		p := g.R.Pick(0, 0, 1, 63, 64, 65, 5000)
		for c := g.R.Intn(12); c > 0; c-- {
			ps = append(ps, p)
			switch g.R.Intn(5) {
			case 0:
				p += 1
			case 1:
				p += g.R.Range(1, 70)
			case 2:
				p = (p/64+1)*64 + g.R.Pick(-1, 0, 63)
				if len(ps) > 0 && p <= ps[len(ps)-1] {
					p = ps[len(ps)-1] + 1
				}
			case 3:
				if p < 64*4000 { // keeps the model's quadratic walk affordable
					p += 64 * g.R.Range(100, 2000)
				} else {
					p += 64
				}
			default:
				p += g.R.Range(1, 400)
			}
		}
		opt := L()
		last := 0
		if len(ps) > 0 {
			last = ps[len(ps)-1]
		}
		switch g.R.Intn(5) {
		case 0:
			opt = L(Int(last + 1 + g.R.Pick(0, 1, 63, 64, 65, 1000)))
		case 1:
			opt = L(Int(g.R.Pick(-5, 0, 1, last, last/2)))
		}
		g.Stat("of-walk")
		key := ""
		if len(ps) > 0 {
			key = fmt.Sprintf("OW/c%d/opt%v/%s", bits.Len(uint(len(ps))), opt != "[]", c13wCross(0, last))
		}
		g.Do("bitmap.Of/walk", L(Ints(ps), opt), key)
	}
}

// genC13Any is NOT part of ./check C13: a one-off validation of the out-of-domain model theorems
// (exact panic sets, int32 corners) against the real code:
//   build/C13/harness-verif -prop C13x -out /tmp/x.txt && build/driver < /tmp/x.txt | cut -f1 | sort | uniq -c
func genC13Any(g *Gen) {
	const lo, hi = -1 << 31, 1<<31 - 1
	vals := []int{lo, lo + 1, lo + 63, lo + 64, -4097, -129, -128, -65, -64, -63, -2, -1, 0, 1, 2, 62, 63, 64, 65, 126, 127, 128, 129,
		190, 191, 192, 193, 255, 256, 257, 4096, hi - 64, hi - 63, hi - 1, hi}
	var bms [][]uint64
	for _, w := range []uint64{0, 1, 1 << 63, 1 | 1<<63, ^uint64(0), 6} {
		bms = append(bms, []uint64{w}, []uint64{w, 0}, []uint64{0, w}, []uint64{0, w, 0}, []uint64{w, 0, 0, w})
	}
	bms = append(bms, []uint64{})
	for k := 0; k < 40; k++ {
		bm, _ := c13wBitmap(g, g.R.Range(1, 3), func(int) int { return g.R.Intn(4) }, g.R.Intn(3))
		bms = append(bms, bm)
	}
	for _, bm := range bms {
		w := c13Rle(bm)
		n := 64 * len(bm)
		vs := append([]int{n - 65, n - 64, n - 1, n, n + 1, n + 63, n + 64, n + 65}, vals...)
		for _, i := range vs {
			for _, e := range vs {
				if i < lo || e < lo {
					continue
				}
				key := "in"
				if !(0 <= i && i <= e && e <= n && i < n) {
					key = "out"
				}
				g.Do("bitmap.NextOne/any", L(w, Int(i), Int(e)), "N/"+key)
				g.Do("bitmap.PrevOne/any", L(w, Int(i), Int(e)), "P/"+key)
			}
		}
	}
}

// genC13Sessions: "session" cases of bitmap.Next/held - one bitmap, a list of queries run in order on ONE
// []uint64 (twice over), so that state a call leaves behind for the next one (a scan hint or cache keyed on
// the slice, a scratch word, a write to the caller's slice) is exercised.  Called FIRST by genC13, both tiers.
//   exhaustive part: every bitmap of 4 words (thorough: also 5) over the word patterns {0, 1, 1<<63}
//   with at most two non-zero words (thorough, 4 words: also all-ones, and all 81 over {0,1,1<<63}) x every ORDERED PAIR
//   of queries (NextOne / PrevOne) whose i and end lie at a word boundary or next to one, run consecutively
//   (case for query a = the session a b a b' a ... over the queries b from a on: pairs (a,b) and (b,a)).
//   sampled part: 5..7 words (zero-word gaps of 2..6 words), random sessions over the same query set.
func genC13Sessions(g *Gen) {
	for nw := 4; nw <= 7; nw++ {
		// the bitmaps: at most two non-zero words over {1, 1<<63} (thorough, 4 words: and all-ones);
		// thorough, 4 words: also all 81 bitmaps over {0, 1, 1<<63}
		pats := []uint64{1, 1 << 63}
		if g.Thorough && nw == 4 {
			pats = append(pats, ^uint64(0))
		}
		seen := map[string]bool{}
		var bms [][]uint64
		addbm := func(bm []uint64) {
			if k := fmt.Sprint(bm); !seen[k] {
				seen[k] = true
				bms = append(bms, append([]uint64{}, bm...))
			}
		}
		addbm(make([]uint64, nw))
		for a := 0; a < nw; a++ {
			for _, pa := range pats {
				bm := make([]uint64, nw)
				bm[a] = pa
				addbm(bm)
				for b := a + 1; b < nw; b++ {
					for _, pb := range pats {
						bm[b] = pb
						addbm(bm)
						bm[b] = 0
					}
				}
			}
		}
		if g.Thorough && nw == 4 {
			three := []uint64{0, 1, 1 << 63}
			for c := 0; c < 81; c++ {
				bm := make([]uint64, nw)
				for k, x := 0, c; k < nw; k, x = k+1, x/3 {
					bm[k] = three[x%3]
				}
				addbm(bm)
			}
		}
		// the queries: i, end in {64k-1, 64k, 64k+1}
		n := 64 * nw
		var pos []int
		for k := 0; k <= nw; k++ {
			for _, d := range []int{-1, 0, 1} {
				if p := 64*k + d; 0 <= p && p <= n {
					pos = append(pos, p)
				}
			}
		}
		var qs []string
		for kind := 0; kind < 2; kind++ {
			for _, i := range pos {
				for _, e := range pos {
					if i < e && i < n {
						qs = append(qs, L(Int(kind), Int(i), Int(e)))
					}
				}
			}
		}
		exhaustive := nw == 4 || (g.Thorough && nw == 5)
		for _, bm := range bms {
			w := c13Rle(bm)
			nz := 0
			for _, x := range bm {
				if x != 0 {
					nz++
				}
			}
			key := ""
			if nz > 0 {
				key = fmt.Sprintf("sess/nw%d/nz%d/exh%v", nw, nz, exhaustive)
			}
			if exhaustive {
				for ai, a := range qs {
					// a b a b' a ... over the b from a on: the consecutive pairs (a,b) and (b,a)
					seq := make([]string, 0, 2*len(qs))
					for _, b := range qs[ai:] {
						seq = append(seq, a, b)
					}
					seq = append(seq, a)
					g.Stat("session-pairs")
					g.Do("bitmap.Next/held", L(w, L(seq...)), key)
				}
			} else {
				seq := make([]string, 0, 3000)
				for k, m := 0, g.N(600, 3000); k < m; k++ {
					q := qs[g.R.Intn(len(qs))]
					seq = append(seq, q)
					if g.R.Intn(4) == 0 { // the same query again
						seq = append(seq, q)
					}
				}
				g.Stat("session-random")
				g.Do("bitmap.Next/held", L(w, L(seq...)), key)
			}
		}
	}
	if g.Thorough {
		g.Exhaust = append(g.Exhaust, "sessions on one held slice: all 81 bitmaps of 4 words over {0,1,1<<63}, every bitmap of 4 words over {0,1,1<<63,all-ones} and of 5 words over {0,1,1<<63} with at most two non-zero words, x every ordered pair of NextOne/PrevOne queries with i, end in {64k-1,64k,64k+1}, run consecutively")
	} else {
		g.Exhaust = append(g.Exhaust, "sessions on one held slice: every bitmap of 4 words over {0,1,1<<63} with at most two non-zero words x every ordered pair of NextOne/PrevOne queries with i, end in {64k-1,64k,64k+1}, run consecutively")
	}
}
