package main

import (
	"fmt"
	"math/bits"

	"github.com/openacid/low/bitmap"
)

func init() {
	// index-building ops also check that the input words are left untouched: a build that
	// scribbles on its argument is reported as a panic-class observation ("P")
	Exec["bitmap.IndexSelect32"] = func(a []V) string {
		ws := a[0].U64s()
		keep := append([]uint64(nil), ws...)
		r := bitmap.IndexSelect32(ws)
		if !c02Same(ws, keep) {
			return Panic
		}
		return I32s(r)
	}
	Exec["bitmap.IndexSelect32R64"] = func(a []V) string {
		ws := a[0].U64s()
		keep := append([]uint64(nil), ws...)
		s, r := bitmap.IndexSelect32R64(ws)
		if !c02Same(ws, keep) {
			return Panic
		}
		return L(I32s(s), I32s(r))
	}
	// Select32 with the index built by IndexSelect32(words)
	Exec["bitmap.Select32"] = func(a []V) string {
		ws := a[0].U64s()
		sidx := bitmap.IndexSelect32(ws)
		x, y := bitmap.Select32(ws, sidx, a[1].I32())
		return L(I32(x), I32(y))
	}
	// Select32R64 with the two indexes built by IndexSelect32R64(words)
	Exec["bitmap.Select32R64"] = func(a []V) string {
		ws := a[0].U64s()
		sidx, ridx := bitmap.IndexSelect32R64(ws)
		x, y := bitmap.Select32R64(ws, sidx, ridx, a[1].I32())
		return L(I32(x), I32(y))
	}
	// "held" variants [ws, i, decoy]: the index(es) of ws are built, then the indexes of a decoy
	// bitmap of the same length are built twice, and only then is ws queried with the FIRST
	// index - an index must not alias state that a later build overwrites.  The input words
	// and the held index must also be unchanged by the query itself.
	Exec["bitmap.Select32/held"] = func(a []V) string {
		ws := a[0].U64s()
		keep := append([]uint64(nil), ws...)
		sidx := bitmap.IndexSelect32(ws)
		decoy := a[2].U64s()
		bitmap.IndexSelect32(decoy)
		bitmap.IndexSelect32R64(decoy)
		bitmap.IndexSelect32(decoy)
		x, y := bitmap.Select32(ws, sidx, a[1].I32())
		x2, y2 := bitmap.Select32(ws, sidx, a[1].I32())
		if x != x2 || y != y2 || !c02Same(ws, keep) {
			return Panic
		}
		return L(I32(x), I32(y))
	}
	Exec["bitmap.Select32R64/held"] = func(a []V) string {
		ws := a[0].U64s()
		keep := append([]uint64(nil), ws...)
		sidx, ridx := bitmap.IndexSelect32R64(ws)
		decoy := a[2].U64s()
		bitmap.IndexSelect32R64(decoy)
		bitmap.IndexSelect32(decoy)
		bitmap.IndexRank64(decoy, true)
		bitmap.IndexSelect32R64(decoy)
		x, y := bitmap.Select32R64(ws, sidx, ridx, a[1].I32())
		x2, y2 := bitmap.Select32R64(ws, sidx, ridx, a[1].I32())
		if x != x2 || y != y2 || !c02Same(ws, keep) {
			return Panic
		}
		return L(I32(x), I32(y))
	}
	// widened: the library's select composed with the library's rank, both ways
	// Rank64(ws, IndexRank64(ws), a) with (a, _) = Select32(ws, IndexSelect32(ws), i)
	Exec["bitmap.Rank64/Select32"] = func(a []V) string {
		ws := a[0].U64s()
		sidx := bitmap.IndexSelect32(ws)
		x, _ := bitmap.Select32(ws, sidx, a[1].I32())
		r, b := bitmap.Rank64(ws, bitmap.IndexRank64(ws), x)
		return L(I32(r), I32(b))
	}
	Exec["bitmap.Rank128/Select32R64"] = func(a []V) string {
		ws := a[0].U64s()
		sidx, ridx := bitmap.IndexSelect32R64(ws)
		x, _ := bitmap.Select32R64(ws, sidx, ridx, a[1].I32())
		r, b := bitmap.Rank128(ws, bitmap.IndexRank128(ws), x)
		return L(I32(r), I32(b))
	}
	// Select32(ws, idx, r) with (r, _) = Rank64(ws, IndexRank64(ws, true), p)
	Exec["bitmap.Select32/Rank64"] = func(a []V) string {
		ws := a[0].U64s()
		r, _ := bitmap.Rank64(ws, bitmap.IndexRank64(ws, true), a[1].I32())
		sidx := bitmap.IndexSelect32(ws)
		x, y := bitmap.Select32(ws, sidx, r)
		return L(I32(x), I32(y))
	}
	Exec["bitmap.Select32R64/Rank128"] = func(a []V) string {
		ws := a[0].U64s()
		r, _ := bitmap.Rank128(ws, bitmap.IndexRank128(ws), a[1].I32())
		sidx, ridx := bitmap.IndexSelect32R64(ws)
		x, y := bitmap.Select32R64(ws, sidx, ridx, r)
		return L(I32(x), I32(y))
	}
	// widened: select against NextOne
	selNext := func(ws []uint64, x, y int32) string {
		nx := int32(-1)
		if end := int32(len(ws) * 64); x+1 < end {
			nx = bitmap.NextOne(ws, x+1, end)
		}
		return L(I32(x), I32(y), I32(nx))
	}
	Exec["bitmap.Select32/NextOne"] = func(a []V) string {
		ws := a[0].U64s()
		sidx := bitmap.IndexSelect32(ws)
		x, y := bitmap.Select32(ws, sidx, a[1].I32())
		return selNext(ws, x, y)
	}
	Exec["bitmap.Select32R64/NextOne"] = func(a []V) string {
		ws := a[0].U64s()
		sidx, ridx := bitmap.IndexSelect32R64(ws)
		x, y := bitmap.Select32R64(ws, sidx, ridx, a[1].I32())
		return selNext(ws, x, y)
	}
	// [NextOne(ws, p, 64*len), Select32(ws, idx, Rank64(ws, ridx, p)) or -1 when the rank is the grand total]
	Exec["bitmap.NextOne/Rank64"] = func(a []V) string {
		ws := a[0].U64s()
		p := a[1].I32()
		nx := bitmap.NextOne(ws, p, int32(len(ws)*64))
		ridx := bitmap.IndexRank64(ws, true)
		r, _ := bitmap.Rank64(ws, ridx, p)
		x := int32(-1)
		if r < ridx[len(ws)] {
			x, _ = bitmap.Select32(ws, bitmap.IndexSelect32(ws), r)
		}
		return L(I32(nx), I32(x))
	}
	// widened: select against ToArray, the whole bitmap in one case:
	// [ToArray(ws), [Select(i) for every i < len(ToArray(ws))]]
	Exec["bitmap.Select32/ToArray"] = func(a []V) string {
		ws := a[0].U64s()
		ta := bitmap.ToArray(ws)
		sidx := bitmap.IndexSelect32(ws)
		prs := make([]string, 0, len(ta))
		for i := range ta {
			x, y := bitmap.Select32(ws, sidx, int32(i))
			prs = append(prs, L(I32(x), I32(y)))
		}
		return L(I32s(ta), L(prs...))
	}
	Exec["bitmap.Select32R64/ToArray"] = func(a []V) string {
		ws := a[0].U64s()
		ta := bitmap.ToArray(ws)
		sidx, ridx := bitmap.IndexSelect32R64(ws)
		prs := make([]string, 0, len(ta))
		for i := range ta {
			x, y := bitmap.Select32R64(ws, sidx, ridx, int32(i))
			prs = append(prs, L(I32(x), I32(y)))
		}
		return L(I32s(ta), L(prs...))
	}
	// widened: select against PrevOne: [a, PrevOne(ws, 0, a)] (PrevOne not called when a == 0)
	selPrev := func(ws []uint64, x int32) string {
		pv := int32(-1)
		if x >= 1 {
			pv = bitmap.PrevOne(ws, 0, x)
		}
		return L(I32(x), I32(pv))
	}
	Exec["bitmap.PrevOne/Select32"] = func(a []V) string {
		ws := a[0].U64s()
		x, _ := bitmap.Select32(ws, bitmap.IndexSelect32(ws), a[1].I32())
		return selPrev(ws, x)
	}
	Exec["bitmap.PrevOne/Select32R64"] = func(a []V) string {
		ws := a[0].U64s()
		sidx, ridx := bitmap.IndexSelect32R64(ws)
		x, _ := bitmap.Select32R64(ws, sidx, ridx, a[1].I32())
		return selPrev(ws, x)
	}
	// "held" index slices [ws, decoy]: the index of ws is built, then the indexes of the decoy, and only then
	// is the first index rendered - a returned index must not alias a buffer that a later build reuses
	Exec["bitmap.IndexSelect32/held"] = func(a []V) string {
		ws := a[0].U64s()
		s := bitmap.IndexSelect32(ws)
		decoy := a[1].U64s()
		bitmap.IndexSelect32(decoy)
		bitmap.IndexSelect32R64(decoy)
		return I32s(s)
	}
	Exec["bitmap.IndexSelect32R64/held"] = func(a []V) string {
		ws := a[0].U64s()
		s, r := bitmap.IndexSelect32R64(ws)
		decoy := a[1].U64s()
		bitmap.IndexSelect32R64(decoy)
		bitmap.IndexSelect32(decoy)
		bitmap.IndexRank64(decoy, true)
		return L(I32s(s), I32s(r))
	}
	// very large bitmaps, run-length encoded [[count, word], ...]; a long index is rendered as run-length
	// encoded first differences [[count, delta], ...] (the same encoding is computed on the Coq side)
	Exec["bitmap.Select32/rle"] = func(a []V) string {
		ws := c02Unrle(a[0])
		x, y := bitmap.Select32(ws, bitmap.IndexSelect32(ws), a[1].I32())
		return L(I32(x), I32(y))
	}
	Exec["bitmap.Select32R64/rle"] = func(a []V) string {
		ws := c02Unrle(a[0])
		sidx, ridx := bitmap.IndexSelect32R64(ws)
		x, y := bitmap.Select32R64(ws, sidx, ridx, a[1].I32())
		return L(I32(x), I32(y))
	}
	Exec["bitmap.IndexSelect32/rle"] = func(a []V) string {
		return c02IndexRle(bitmap.IndexSelect32(c02Unrle(a[0])))
	}
	Exec["bitmap.IndexSelect32R64/rle"] = func(a []V) string {
		s, _ := bitmap.IndexSelect32R64(c02Unrle(a[0]))
		return c02IndexRle(s)
	}
	Register("C02", genC02)
}

type c02Run struct {
	n int
	w uint64
}

// c02Unrle expands [[count, word], ...]
func c02Unrle(v V) []uint64 {
	var ws []uint64
	for _, r := range v.L {
		n, w := r.L[0].Int(), r.L[1].U64()
		for k := 0; k < n; k++ {
			ws = append(ws, w)
		}
	}
	return ws
}

func c02RunsText(runs []c02Run) string {
	parts := make([]string, 0, len(runs))
	for _, r := range runs {
		parts = append(parts, L(Int(r.n), U(r.w)))
	}
	return L(parts...)
}

// c02RunOnes: positions of the 1-bits of a run-length encoded bitmap are not materialised; this returns the
// number of words, the number of 1-bits and a function giving the word that holds the i-th 1-bit
func c02RunStats(runs []c02Run) (nw int, ones int) {
	for _, r := range runs {
		nw += r.n
		ones += r.n * bits.OnesCount64(r.w)
	}
	return
}

// c02IndexRle renders an index as run-length encoded first differences (from 0): [[count, delta], ...]
func c02IndexRle(idx []int32) string {
	var parts []string
	prev := int64(0)
	cnt, cur := 0, int64(0)
	for _, x := range idx {
		d := int64(x) - prev
		prev = int64(x)
		if cnt > 0 && d == cur {
			cnt++
			continue
		}
		if cnt > 0 {
			parts = append(parts, L(Int(cnt), fmt.Sprint(cur)))
		}
		cnt, cur = 1, d
	}
	if cnt > 0 {
		parts = append(parts, L(Int(cnt), fmt.Sprint(cur)))
	}
	return L(parts...)
}

// c02Strided: a bitmap with exactly n 1-bits at positions start, start+stride, ...
func c02Strided(n, start, stride int) []uint64 {
	last := start + stride*(n-1)
	ws := make([]uint64, last/64+1)
	for j := 0; j < n; j++ {
		p := start + stride*j
		ws[p>>6] |= 1 << uint(p&63)
	}
	return ws
}

// c02FromKey: shape key of a "select(rank(p))" case = (bit p set or not, how far the answer is:
// p itself / same word / next word / later word, p at a word boundary or inside, where the
// 1-bit after the answer is).  Trivial (""): p is itself the first 1-bit of the bitmap.
func c02FromKey(os []int, p int) string {
	j := 0
	for j < len(os) && os[j] < p {
		j++
	}
	a := os[j]
	if j == 0 && a == p {
		return ""
	}
	dist := "hit"
	switch d := a>>6 - p>>6; {
	case a == p:
	case d == 0:
		dist = "same"
	case d == 1:
		dist = "next"
	default:
		dist = "later"
	}
	at := "in"
	switch p & 63 {
	case 0:
		at = "w0"
	case 63:
		at = "w63"
	}
	next := "none"
	if j+1 < len(os) {
		switch d := os[j+1]>>6 - a>>6; {
		case d == 0:
			next = "same"
		case d == 1:
			next = "next"
		default:
			next = "later"
		}
	}
	ic := "m"
	switch j & 31 {
	case 0:
		ic = "0"
	case 31:
		ic = "31"
	}
	return fmt.Sprintf("from/%s/%s/%s/i%s", dist, at, next, ic)
}

func c02Same(a, b []uint64) bool {
	if len(a) != len(b) {
		return false
	}
	for i := range a {
		if a[i] != b[i] {
			return false
		}
	}
	return true
}

// c02Ones lists the positions of the 1-bits (naive scan; used only for shape
// keys and for choosing in-domain i, never as an oracle).
func c02Ones(ws []uint64) []int {
	var os []int
	for k, w := range ws {
		for w != 0 {
			os = append(os, k*64+bits.TrailingZeros64(w))
			w &= w - 1
		}
	}
	return os
}

func c02Cap(x, m int) int {
	if x > m {
		return m
	}
	return x
}

// c02Key: shape key of a select query = (words skipped from the checkpoint,
// byte of the word that holds the answer = which half/quarter/byte the halving
// takes, index inside the byte, where the next 1 is).  Trivial (""): i == 0.
func c02Key(os []int, nw int, i int) string {
	if i == 0 {
		return ""
	}
	p := os[i]
	cp := os[i&^31]
	skipped := c02Cap(p>>6-cp>>6, 4)
	byteI := (p & 63) >> 3
	// rank of the answer inside its byte
	inByte := 0
	for j := i - 1; j >= 0 && os[j]>>3 == p>>3; j-- {
		inByte++
	}
	next := "none"
	if i+1 < len(os) {
		q := os[i+1]
		switch d := q>>6 - p>>6; {
		case d == 0:
			next = "same"
		case d == 1:
			next = "next"
		default:
			next = "later"
		}
	}
	cpoff := "w0"
	if cp&63 != 0 {
		cpoff = "mid"
	}
	ic := "m"
	switch i & 31 {
	case 0:
		ic = "0"
	case 1:
		ic = "1"
	case 31:
		ic = "31"
	}
	return fmt.Sprintf("sk%d/cp%s/b%d/k%d/%s/i%s", skipped, cpoff, byteI, inByte, next, ic)
}

func genC02(g *Gen) {
	sel := func(ws []uint64, os []int, i int, bucket string) {
		g.Stat(bucket)
		key := c02Key(os, len(ws), i)
		w := U64s(ws)
		g.Do("bitmap.Select32", L(w, Int(i)), key)
		g.Do("bitmap.Select32R64", L(w, Int(i)), key)
		c02uSel(g, w, i, key) // the unexported single-result variant on the same case (harness/c02u.go)
	}
	selAll := func(ws []uint64, bucket string) {
		os := c02Ones(ws)
		for i := range os {
			sel(ws, os, i, bucket)
		}
	}
	index := func(ws []uint64) {
		w := U64s(ws)
		n := popcount(ws)
		key := ""
		if n > 32 {
			key = fmt.Sprintf("idx/cp%d/nw%d", c02Cap((n+31)/32, 6), c02Cap(len(ws), 8))
		}
		g.Do("bitmap.IndexSelect32", L(w), key)
		g.Do("bitmap.IndexSelect32R64", L(w), key)
		if len(ws) <= 70 {
			c02uSentinels(g, ws) // select32single outside [0, n): -1 / 64*len (harness/c02u.go)
		}
	}

	// widened ops: rank(select(i)) and select(rank(p))
	rs := func(ws []uint64, os []int, i int) {
		key := c02Key(os, len(ws), i)
		if key != "" {
			key = "rs/" + key
		}
		w := U64s(ws)
		g.Do("bitmap.Rank64/Select32", L(w, Int(i)), key)
		g.Do("bitmap.Rank128/Select32R64", L(w, Int(i)), key)
		g.Do("bitmap.Select32/NextOne", L(w, Int(i)), key)
		g.Do("bitmap.Select32R64/NextOne", L(w, Int(i)), key)
		// PrevOne from the selected bit: the previous 1-bit in the same word / an earlier word / none
		pkey := ""
		if i > 0 {
			d := os[i]>>6 - os[i-1]>>6
			pkey = fmt.Sprintf("prev/d%d/b%d", c02Cap(d, 3), (os[i]&63)>>3)
		} else if os[0] > 0 {
			pkey = fmt.Sprintf("prev/none/w%d", c02Cap(os[0]>>6, 3))
		}
		g.Do("bitmap.PrevOne/Select32", L(w, Int(i)), pkey)
		g.Do("bitmap.PrevOne/Select32R64", L(w, Int(i)), pkey)
	}
	// NextOne(p) against select(rank(p)); any p inside the bitmap, also past the last 1-bit
	nfrom := func(ws []uint64, os []int, p int) {
		if p < 0 || p >= 64*len(ws) {
			return
		}
		key := "nfrom/none"
		if len(os) > 0 && p <= os[len(os)-1] {
			key = c02FromKey(os, p)
			if key != "" {
				key = "n" + key
			}
		}
		g.Do("bitmap.NextOne/Rank64", L(U64s(ws), Int(p)), key)
	}
	from := func(ws []uint64, os []int, p int) {
		if p < 0 || len(os) == 0 || p > os[len(os)-1] {
			return
		}
		key := c02FromKey(os, p)
		w := U64s(ws)
		g.Do("bitmap.Select32/Rank64", L(w, Int(p)), key)
		g.Do("bitmap.Select32R64/Rank128", L(w, Int(p)), key)
		nfrom(ws, os, p)
	}
	// a spread of start positions for one bitmap
	fromSpread := func(ws []uint64, os []int, nrand int) {
		cnt := len(os)
		if cnt == 0 {
			return
		}
		last := os[cnt-1]
		from(ws, os, 0)
		from(ws, os, last)
		from(ws, os, last-1)
		for q := 0; q < nrand; q++ {
			j := g.R.Intn(cnt)
			from(ws, os, os[j])
			from(ws, os, os[j]+1)
			from(ws, os, os[j]-1)
			p := g.R.Intn(last + 1)
			from(ws, os, p)
			from(ws, os, p&^63)
			from(ws, os, p|63)
			rs(ws, os, j)
		}
		rs(ws, os, 0)
		rs(ws, os, cnt-1)
		rs(ws, os, (cnt-1)&^31)
		nfrom(ws, os, last+1)
		nfrom(ws, os, 64*len(ws)-1)
		nfrom(ws, os, (last+64)&^63)
	}

	// whole-bitmap sweep against ToArray (non-trivial when there are at least 2 words and 33 1-bits)
	sweep := func(ws []uint64) {
		n := popcount(ws)
		key := ""
		if n > 32 && len(ws) > 1 {
			key = fmt.Sprintf("sweep/cp%d/nw%d", c02Cap((n+31)/32, 8), c02Cap(len(ws), 12))
		}
		g.Do("bitmap.Select32/ToArray", L(U64s(ws)), key)
		g.Do("bitmap.Select32R64/ToArray", L(U64s(ws)), key)
	}

	held := func(ws []uint64, os []int, i int, bucket string) {
		g.Stat(bucket)
		decoy := make([]uint64, len(ws))
		for k := range decoy {
			decoy[k] = ^uint64(0)
		}
		key := c02Key(os, len(ws), i)
		g.Do("bitmap.Select32/held", L(U64s(ws), Int(i), U64s(decoy)), key)
		g.Do("bitmap.Select32R64/held", L(U64s(ws), Int(i), U64s(decoy)), key)
	}

	// (H0) exact-fit checkpoint counts, FIRST thing in the run, ascending: index A of a bitmap with exactly n
	// 1-bits where ceil(n/32) is (around) 1,2,3,4,8,...,256, then the indexes of a decoy with the SAME number of
	// checkpoints at different positions (all-ones from bit 0; A's 1-bits start at bit 3 or 7), then A is queried
	// at 0, middle, n-1 and its index slices are read out.  An index that is returned uncopied when it fills a
	// reused (pooled, doubling) scratch buffer exactly is overwritten by the decoy build.  Ascending order and a
	// decoy that never needs more room than A keep such a buffer at the smallest capacity A itself forced.
	for _, cp := range []int{1, 2, 3, 4, 5, 7, 8, 9, 15, 16, 17, 31, 32, 33, 63, 64, 65, 127, 128, 129, 255, 256, 257} {
		counts := []int{32 * cp, 32*(cp-1) + 1}
		if cp >= 127 {
			counts = counts[:1]
		}
		for _, n := range counts {
			for layout := 0; layout < 2; layout++ {
				var ws []uint64
				if layout == 0 {
					ws = c02Strided(n, 3, 1) // dense
				} else if cp < 64 {
					ws = c02Strided(n, 7, 5) // sparse
				} else {
					ws = c02Strided(n, 7, 2)
				}
				decoy := c02Strided(32*cp, 0, 1)
				os := c02Ones(ws)
				w, d := U64s(ws), U64s(decoy)
				key := fmt.Sprintf("exact/cp%d/l%d/full%v", cp, layout, n == 32*cp)
				g.Stat("held-index-exact-fit")
				g.Do("bitmap.IndexSelect32/held", L(w, d), key)
				g.Do("bitmap.IndexSelect32R64/held", L(w, d), key)
				for _, i := range []int{0, n / 2, n - 1} {
					k := key + "/" + c02Key(os, len(ws), i)
					g.Do("bitmap.Select32/held", L(w, Int(i), d), k)
					g.Do("bitmap.Select32R64/held", L(w, Int(i), d), k)
				}
			}
		}
	}

	// (R) very large bitmaps (run-length encoded): 2^15 and 2^16 words and one either side, 40000, and 140000 in the
	// thorough tier; dense, one bit per word, 1-bits only behind a long run of empty words, islands between long
	// empty runs.  Word indexes >= 2^15, bit positions >= 2^21, checkpoint counts >= 2^16, 1-bit counts crossing
	// 2^15, 2^16, 2^20.  Judged by the linear-time evaluator proved equal to the model (C02_rle_run_is_model_*).
	{
		sizes := []int{32767, 32768, 32769, 40000, 65535, 65536, 65537}
		if g.Thorough {
			sizes = append(sizes, 140000)
		}
		const full = ^uint64(0)
		for _, n := range sizes {
			fams := []struct {
				name string
				runs []c02Run
			}{
				{"dense", []c02Run{{n, full}}},
				{"bitperword", []c02Run{{n, 1 << 63}}},
				{"behindzeros", []c02Run{{n - 40, 0}, {37, 0x8001000000010001}, {2, 0}, {1, 1 << 62}}},
				{"islands", []c02Run{{3, 0xffff0000ffff0000}, {n/2 - 10, 0}, {9, full}, {n/2 - 300, 0}, {290, 0x0101010101010101}, {n - 3 - (n/2 - 10) - 9 - (n/2 - 300) - 290, 0x8000000000000001}}},
			}
			for _, f := range fams {
				nw, cnt := c02RunStats(f.runs)
				if nw != n || cnt == 0 {
					panic("c02: bad rle family")
				}
				txt := c02RunsText(f.runs)
				key := fmt.Sprintf("rle/%s/nw%d", f.name, n)
				g.Stat("rle-" + f.name)
				g.Do("bitmap.IndexSelect32/rle", L(txt), key)
				g.Do("bitmap.IndexSelect32R64/rle", L(txt), key)
				seen := map[int]bool{}
				try := func(i int) {
					if i >= 0 && i < cnt && !seen[i] {
						seen[i] = true
						g.Do("bitmap.Select32/rle", L(txt, Int(i)), key)
						g.Do("bitmap.Select32R64/rle", L(txt, Int(i)), key)
						c02uRle(g, txt, i, key)
					}
				}
				try(0)
				try(cnt - 1)
				try(cnt - 2)
				try((cnt - 1) &^ 31)
				// 1-bit counts crossing 2^15, 2^16, 2^20
				for _, c := range []int{1 << 15, 1 << 16, 1 << 20} {
					try(c - 1)
					try(c)
				}
				// the 1-bits whose word index is next to 2^15 and 2^16: i = (1-bits per word) * word index
				per := cnt / n
				if per > 0 && f.name != "islands" && f.name != "behindzeros" {
					for _, wi := range []int{1 << 15, 1 << 16} {
						for _, dw := range []int{-1, 0, 1} {
							try(per*(wi+dw) - 1)
							try(per * (wi + dw))
							if dw == 0 {
								try(per*wi + 33)
							}
						}
					}
				}
				if f.name == "behindzeros" {
					for i := 0; i < cnt; i += 17 {
						try(i)
					}
				}
				if f.name == "islands" {
					for _, i := range []int{95, 96, 97, 96 + 575, 96 + 576, 96 + 576 + 31, 96 + 576 + 2319, 96 + 576 + 2320, 96 + 576 + 2321} {
						try(i)
					}
				}
				try(g.R.Intn(cnt))
				try(g.R.Intn(cnt))
			}
		}
	}

	// (R2) ONE bitmap of 2^17+3 words in BOTH tiers (seeded change C02-c02c-m2: a rank index that is counted in
	// parallel from 2^17 words on and leaves the last len%parts entries without the preceding chunks' totals): one
	// 1-bit per word and two in each of the last three words, queries in the last three words.  These are also the
	// slowest cases of the run, so ./check re-runs them under GOMAXPROCS 3/33/97.
	{
		n := 1<<17 + 3
		runs := []c02Run{{n - 3, 1 << 63}, {3, 0x8000000000000001}}
		txt := c02RunsText(runs)
		cnt := n + 3
		key := fmt.Sprintf("rle/lastwords/nw%d", n)
		g.Stat("rle-lastwords")
		g.Do("bitmap.IndexSelect32R64/rle", L(txt), key)
		for _, i := range []int{cnt - 1, cnt - 4, cnt - 6} {
			g.Do("bitmap.Select32R64/rle", L(txt, Int(i)), key)
		}
		g.Do("bitmap.Select32/rle", L(txt, Int(cnt-2)), key)
	}

	// (H) held indexes over ASCENDING bitmap lengths 1..70, first thing in the run: an index that
	// aliases a reused buffer shows when the buffer's capacity boundary is crossed, which depends
	// on the order of sizes.  The decoy (all-ones) has more checkpoints than any ws of that length.
	for n := 1; n <= 70; n++ {
		ws := g.R.Words(n)
		if n%3 == 0 {
			for k := range ws {
				ws[k] = g.R.U64() | g.R.U64()
			}
		}
		ws[g.R.Intn(n)] |= 1 << uint(g.R.Intn(64))
		os := c02Ones(ws)
		cnt := len(os)
		for q := 0; q < 5; q++ {
			i := g.R.Intn(cnt)
			switch q {
			case 0:
				i = cnt - 1
			case 1:
				i = 0
			case 2:
				i = (cnt - 1) &^ 31 // the last checkpoint
			}
			held(ws, os, i, "held-index-ascending")
		}
	}

	// (0) empty and all-zero bitmaps: index only (no valid i)
	for n := 0; n <= 3; n++ {
		index(make([]uint64, n))
		sweep(make([]uint64, n))
	}

	// (1) the byte table through the API: every byte value at every byte position of a
	// one-word bitmap x all i  (second table-index expression for even byte positions,
	// first one -- with ones = 0 -- for odd byte positions)
	for b := 1; b < 256; b++ {
		for pos := 0; pos < 8; pos++ {
			if !g.Thorough && pos >= 2 && pos != 7 && (b+pos)%3 != 0 {
				continue
			}
			ws := []uint64{uint64(b) << uint(8*pos)}
			selAll(ws, "exh-byte")
		}
	}
	// every byte value as the UPPER byte of a 16-bit quarter, below it a byte with
	// 1, 2, 3, 8 ones: first table-index expression with ones > 0, in every quarter
	for b := 1; b < 256; b++ {
		for _, low := range []uint64{0x01, 0x81, 0x92, 0xff} {
			for q := 0; q < 4; q++ {
				if !g.Thorough && (b+q+int(low))%8 != 0 {
					continue
				}
				ws := []uint64{(uint64(b)<<8 | low) << uint(16*q)}
				selAll(ws, "exh-byte-upper")
			}
		}
	}
	if g.Thorough {
		g.Exhaust = append(g.Exhaust, "all 255 non-zero bytes at all 8 byte positions of a one-word bitmap x all i (select8Lookup through both table-index expressions)",
			"all 255 non-zero bytes as upper byte of each of the 4 quarters over low bytes {01,81,92,ff} x all i")
	} else {
		g.Exhaust = append(g.Exhaust, "all 255 non-zero bytes at byte positions 0,1 of a one-word bitmap x all i (every select8Lookup entry through both table-index expressions)")
	}

	// (2) all words with 1 or 2 bits x all i; alone, and behind an all-ones word (so the
	// checkpoint is in another word and one word is skipped or not)
	for b1 := 0; b1 < 64; b1++ {
		for b2 := b1; b2 < 64; b2++ {
			w := uint64(1)<<uint(b1) | uint64(1)<<uint(b2)
			selAll([]uint64{w}, "exh-1or2bit")
			if b1 == b2 || (g.Thorough && (b1+b2)%3 == 0) || (b1+b2)%32 == 0 {
				os := c02Ones([]uint64{w})
				for i := range os {
					rs([]uint64{w}, os, i)
				}
				for p := 0; p <= b2; p++ {
					from([]uint64{w}, os, p)
				}
				nfrom([]uint64{w}, os, b2+1)
				nfrom([]uint64{w}, os, 63)
			}
			if g.Thorough || (b1+b2)%5 == 0 {
				ws := []uint64{^uint64(0), w, 0}
				os := c02Ones(ws)
				for i := 62; i < len(os); i++ {
					sel(ws, os, i, "exh-1or2bit-after-full")
				}
			}
		}
	}
	g.Exhaust = append(g.Exhaust, "all one-word bitmaps with 1 or 2 bits x all i")
	g.Exhaust = append(g.Exhaust, "select(rank(p)) and rank(select(i)): all one-word bitmaps with exactly 1 bit x all p up to that bit")

	// (3) 1-bits straddling every 8/16/32/64 boundary: all non-empty subsets of the
	// four positions {B-2,B-1,B,B+1} around every multiple of 8 in a 3-word bitmap
	for B := 8; B <= 184; B += 8 {
		for m := 1; m < 16; m++ {
			for _, fill := range []uint64{0, 0x0101010101010101} {
				ws := []uint64{fill, fill, fill}
				for j := 0; j < 4; j++ {
					p := B - 2 + j
					if m>>uint(j)&1 == 1 {
						ws[p>>6] |= 1 << uint(p&63)
					} else {
						ws[p>>6] &^= 1 << uint(p&63)
					}
				}
				if fill != 0 && !g.Thorough && B%16 != 0 {
					continue
				}
				selAll(ws, "exh-straddle")
				if fill == 0 || g.Thorough {
					os := c02Ones(ws)
					for p := B - 3; p <= B+1; p++ {
						if !g.Thorough && (p+m)%2 == 0 {
							continue
						}
						from(ws, os, p)
					}
					from(ws, os, 0)
					for i := range os {
						if fill == 0 {
							rs(ws, os, i)
						}
					}
				}
			}
		}
	}
	g.Exhaust = append(g.Exhaust, "all non-empty subsets of {B-2,B-1,B,B+1} for every multiple B of 8 in a 3-word bitmap x all i")

	// (4) all-ones runs: checkpoints at 0 and 32 of each word, every i
	for n := 1; n <= g.N(3, 6); n++ {
		ws := make([]uint64, n)
		for i := range ws {
			ws[i] = ^uint64(0)
		}
		index(ws)
		sweep(ws)
		selAll(ws, "exh-full")
	}
	g.Exhaust = append(g.Exhaust, fmt.Sprintf("all-ones bitmaps of 1..%d words x all i", g.N(3, 6)))

	// (5) random bitmaps of 1..40 words of every density incl. runs of empty words
	nb := g.N(260, 7000)
	for k := 0; k < nb; k++ {
		n := g.R.Range(1, 40)
		if g.R.Intn(3) == 0 {
			n = g.R.Range(1, 6)
		}
		var ws []uint64
		density := g.R.Intn(6)
		switch density {
		case 0: // pattern mix
			ws = g.R.Words(n)
		case 1: // very sparse: 0..2 bits per word, many empty words: several words skipped
			ws = make([]uint64, n)
			for i := range ws {
				switch g.R.Intn(4) {
				case 0:
					ws[i] = 1 << uint(g.R.Intn(64))
				case 1:
					ws[i] = 1<<uint(g.R.Intn(64)) | 1<<uint(g.R.Intn(64))
				}
			}
		case 2: // sparse
			ws = make([]uint64, n)
			for i := range ws {
				ws[i] = g.R.U64() & g.R.U64() & g.R.U64()
			}
		case 3: // dense
			ws = make([]uint64, n)
			for i := range ws {
				ws[i] = g.R.U64() | g.R.U64()
			}
		case 4: // uniform
			ws = make([]uint64, n)
			for i := range ws {
				ws[i] = g.R.U64()
			}
		default: // byte-structured: each byte from {00, ff, single bit, random}
			ws = make([]uint64, n)
			for i := range ws {
				for b := 0; b < 8; b++ {
					var x uint64
					switch g.R.Intn(5) {
					case 0:
						x = 0xff
					case 1:
						x = 1 << uint(g.R.Intn(8))
					case 2:
						x = g.R.U64() & 0xff
					}
					ws[i] |= x << uint(8*b)
				}
			}
		}
		// runs of empty words
		if g.R.Intn(3) == 0 && n > 2 {
			from := g.R.Intn(n)
			to := from + g.R.Range(1, 5)
			for i := from; i < to && i < n; i++ {
				ws[i] = 0
			}
		}
		if g.R.Intn(4) == 0 { // trailing empty words: the "no next 1" tail scans to the end
			for i := n - g.R.Range(1, 3); i < n; i++ {
				if i > 0 {
					ws[i] = 0
				}
			}
		}
		index(ws)
		os := c02Ones(ws)
		cnt := len(os)
		if cnt == 0 {
			continue
		}
		bucket := fmt.Sprintf("rand-d%d-nw%02d", density, (n+9)/10*10)
		if g.Thorough && n <= 4 {
			selAll(ws, bucket)
			continue
		}
		seen := map[int]bool{}
		try := func(i int) {
			if i >= 0 && i < cnt && !seen[i] {
				seen[i] = true
				sel(ws, os, i, bucket)
			}
		}
		try(0)
		try(cnt - 1)
		try(cnt - 2)
		for q := 0; q < 2; q++ {
			c := 32 * g.R.Intn(cnt/32+1)
			try(c - 1)
			try(c)
			try(c + 1)
			try(c + 31)
		}
		for q := 0; q < 6; q++ {
			try(g.R.Intn(cnt))
		}
		if n <= 6 || (k%8 == 0 && cnt <= 900) {
			sweep(ws)
		}
		if !g.Thorough {
			fromSpread(ws, os, 1)
		} else if k%4 == 0 {
			fromSpread(ws, os, 2)
		}
		if k%4 == 0 {
			held(ws, os, g.R.Intn(cnt), "held-index-random")
			held(ws, os, cnt-1, "held-index-random")
		}
	}

	// (6) large bitmaps: positions beyond 2^12 (and 2^15 in the thorough tier), many checkpoints,
	// long runs of skipped words.  (Added after the self-test: a checkpoint that is wrong only for
	// bit positions >= 4096 survived the 1..70-word generators.)
	sizes := []int{64, 65, 96, 129, 200, 257}
	if g.Thorough {
		sizes = append(sizes, 300, 400, 513, 600)
	}
	for _, n := range sizes {
		for variant := 0; variant < 3; variant++ {
			ws := make([]uint64, n)
			switch variant {
			case 0: // uniform
				for i := range ws {
					ws[i] = g.R.U64()
				}
			case 1: // sparse with long empty runs: 1 word in 8 carries 1..3 bits
				for i := range ws {
					if g.R.Intn(8) == 0 {
						for q := g.R.Range(1, 3); q > 0; q-- {
							ws[i] |= 1 << uint(g.R.Intn(64))
						}
					}
				}
				ws[n-1-g.R.Intn(3)] |= 1 << uint(g.R.Intn(64))
			default: // dense head, empty tail
				for i := 0; i < n; i++ {
					if i < n-n/4 {
						ws[i] = g.R.U64() | g.R.U64()
					}
				}
			}
			index(ws)
			os := c02Ones(ws)
			cnt := len(os)
			if cnt == 0 {
				continue
			}
			bucket := fmt.Sprintf("large-v%d-nw%03d", variant, n)
			seen := map[int]bool{}
			try := func(i int) {
				if i >= 0 && i < cnt && !seen[i] {
					seen[i] = true
					sel(ws, os, i, bucket)
				}
			}
			try(0)
			try(cnt - 1)
			// the 1-bits around bit positions 4096 and 32768 and around the last checkpoint
			for j, p := range os {
				if (p >= 4096 && j > 0 && os[j-1] < 4096) || (p >= 32768 && j > 0 && os[j-1] < 32768) {
					try(j - 1)
					try(j)
					try(j | 31)
				}
			}
			c := (cnt - 1) &^ 31
			try(c - 1)
			try(c)
			try(c + 1)
			for q := 0; q < 4; q++ {
				try(g.R.Intn(cnt))
			}
			fromSpread(ws, os, 1)
			if variant == 1 {
				sweep(ws)
			}
			held(ws, os, g.R.Intn(cnt), "held-index-large")
		}
	}

	// (U) the unexported helpers: indexSelectU64 / selectU64Indexed / select8Lookup / select32single (harness/c02u.go)
	genC02u(g)
}
