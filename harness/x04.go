package main

// X04 (extra check) — mathext/util: Min<K>, Max<K>, Clap<K> for the ten integer kinds.
//
// Values travel as int64 (signed kinds) / uint64 (unsigned kinds); the tables below convert to the Go type of
// the kind and call the REAL function.  Generators only emit values inside the type of the kind.

import (
	"strconv"

	"github.com/openacid/low/mathext/util"
)

type x04Kind struct {
	name   string
	signed bool
	bits   uint
	sMin   func(a, b int64) int64
	sMax   func(a, b int64) int64
	sClap  func(n, lo, hi int64) int64
	uMin   func(a, b uint64) uint64
	uMax   func(a, b uint64) uint64
	uClap  func(n, lo, hi uint64) uint64
}

var x04Kinds = []x04Kind{
	{name: "I", signed: true, bits: 64,
		sMin:  func(a, b int64) int64 { return int64(util.MinI(int(a), int(b))) },
		sMax:  func(a, b int64) int64 { return int64(util.MaxI(int(a), int(b))) },
		sClap: func(n, lo, hi int64) int64 { return int64(util.ClapI(int(n), int(lo), int(hi))) }},
	{name: "I8", signed: true, bits: 8,
		sMin:  func(a, b int64) int64 { return int64(util.MinI8(int8(a), int8(b))) },
		sMax:  func(a, b int64) int64 { return int64(util.MaxI8(int8(a), int8(b))) },
		sClap: func(n, lo, hi int64) int64 { return int64(util.ClapI8(int8(n), int8(lo), int8(hi))) }},
	{name: "I16", signed: true, bits: 16,
		sMin:  func(a, b int64) int64 { return int64(util.MinI16(int16(a), int16(b))) },
		sMax:  func(a, b int64) int64 { return int64(util.MaxI16(int16(a), int16(b))) },
		sClap: func(n, lo, hi int64) int64 { return int64(util.ClapI16(int16(n), int16(lo), int16(hi))) }},
	{name: "I32", signed: true, bits: 32,
		sMin:  func(a, b int64) int64 { return int64(util.MinI32(int32(a), int32(b))) },
		sMax:  func(a, b int64) int64 { return int64(util.MaxI32(int32(a), int32(b))) },
		sClap: func(n, lo, hi int64) int64 { return int64(util.ClapI32(int32(n), int32(lo), int32(hi))) }},
	{name: "I64", signed: true, bits: 64,
		sMin:  func(a, b int64) int64 { return int64(util.MinI64(int64(a), int64(b))) },
		sMax:  func(a, b int64) int64 { return int64(util.MaxI64(int64(a), int64(b))) },
		sClap: func(n, lo, hi int64) int64 { return int64(util.ClapI64(int64(n), int64(lo), int64(hi))) }},
	{name: "U", signed: false, bits: 64,
		uMin:  func(a, b uint64) uint64 { return uint64(util.MinU(uint(a), uint(b))) },
		uMax:  func(a, b uint64) uint64 { return uint64(util.MaxU(uint(a), uint(b))) },
		uClap: func(n, lo, hi uint64) uint64 { return uint64(util.ClapU(uint(n), uint(lo), uint(hi))) }},
	{name: "U8", signed: false, bits: 8,
		uMin:  func(a, b uint64) uint64 { return uint64(util.MinU8(uint8(a), uint8(b))) },
		uMax:  func(a, b uint64) uint64 { return uint64(util.MaxU8(uint8(a), uint8(b))) },
		uClap: func(n, lo, hi uint64) uint64 { return uint64(util.ClapU8(uint8(n), uint8(lo), uint8(hi))) }},
	{name: "U16", signed: false, bits: 16,
		uMin:  func(a, b uint64) uint64 { return uint64(util.MinU16(uint16(a), uint16(b))) },
		uMax:  func(a, b uint64) uint64 { return uint64(util.MaxU16(uint16(a), uint16(b))) },
		uClap: func(n, lo, hi uint64) uint64 { return uint64(util.ClapU16(uint16(n), uint16(lo), uint16(hi))) }},
	{name: "U32", signed: false, bits: 32,
		uMin:  func(a, b uint64) uint64 { return uint64(util.MinU32(uint32(a), uint32(b))) },
		uMax:  func(a, b uint64) uint64 { return uint64(util.MaxU32(uint32(a), uint32(b))) },
		uClap: func(n, lo, hi uint64) uint64 { return uint64(util.ClapU32(uint32(n), uint32(lo), uint32(hi))) }},
	{name: "U64", signed: false, bits: 64,
		uMin:  func(a, b uint64) uint64 { return uint64(util.MinU64(uint64(a), uint64(b))) },
		uMax:  func(a, b uint64) uint64 { return uint64(util.MaxU64(uint64(a), uint64(b))) },
		uClap: func(n, lo, hi uint64) uint64 { return uint64(util.ClapU64(uint64(n), uint64(lo), uint64(hi))) }},
}

// a value of a kind as (bit pattern in a uint64); rendering depends on the signedness
func (k *x04Kind) show(x uint64) string {
	if k.signed {
		return strconv.FormatInt(int64(x), 10)
	}
	return strconv.FormatUint(x, 10)
}
func (k *x04Kind) get(v V) uint64 {
	if k.signed {
		return uint64(v.I64())
	}
	return v.U64()
}
func (k *x04Kind) gets(v V) []uint64 {
	r := make([]uint64, len(v.L))
	for i, x := range v.L {
		r[i] = k.get(x)
	}
	return r
}
func (k *x04Kind) min(a, b uint64) uint64 {
	if k.signed {
		return uint64(k.sMin(int64(a), int64(b)))
	}
	return k.uMin(a, b)
}
func (k *x04Kind) max(a, b uint64) uint64 {
	if k.signed {
		return uint64(k.sMax(int64(a), int64(b)))
	}
	return k.uMax(a, b)
}
func (k *x04Kind) clap(n, lo, hi uint64) uint64 {
	if k.signed {
		return uint64(k.sClap(int64(n), int64(lo), int64(hi)))
	}
	return k.uClap(n, lo, hi)
}
func (k *x04Kind) shows(xs []uint64) string {
	r := make([]string, len(xs))
	for i, x := range xs {
		r[i] = k.show(x)
	}
	return L(r...)
}

// order of two values of the kind: -1, 0, 1 (for shape keys only)
func (k *x04Kind) cmp(a, b uint64) int {
	if k.signed {
		switch {
		case int64(a) < int64(b):
			return -1
		case int64(a) > int64(b):
			return 1
		}
		return 0
	}
	switch {
	case a < b:
		return -1
	case a > b:
		return 1
	}
	return 0
}

func init() {
	for i := range x04Kinds {
		k := &x04Kinds[i]
		Exec["util.Min"+k.name] = func(a []V) string { return k.show(k.min(k.get(a[0]), k.get(a[1]))) }
		Exec["util.Max"+k.name] = func(a []V) string { return k.show(k.max(k.get(a[0]), k.get(a[1]))) }
		Exec["util.Clap"+k.name] = func(a []V) string { return k.show(k.clap(k.get(a[0]), k.get(a[1]), k.get(a[2]))) }
		Exec["util.MinMax"+k.name+"/grid"] = func(a []V) string {
			xs, ys := k.gets(a[0]), k.gets(a[1])
			mins, maxs := make([]string, len(xs)), make([]string, len(xs))
			for i, x := range xs {
				mi, ma := make([]uint64, len(ys)), make([]uint64, len(ys))
				for j, y := range ys {
					mi[j], ma[j] = k.min(x, y), k.max(x, y)
				}
				mins[i], maxs[i] = k.shows(mi), k.shows(ma)
			}
			return L(L(mins...), L(maxs...))
		}
		Exec["util.Clap"+k.name+"/grid"] = func(a []V) string {
			ns, lo, hi := k.gets(a[0]), k.get(a[1]), k.get(a[2])
			r := make([]uint64, len(ns))
			for i, n := range ns {
				r[i] = k.clap(n, lo, hi)
			}
			return k.shows(r)
		}
	}
	Register("X04", genX04)
}

// x04Norm brings an arbitrary 64-bit pattern into the kind (sign-extending / truncating).
func (k *x04Kind) norm(x uint64) uint64 {
	if k.bits == 64 {
		return x
	}
	if k.signed {
		sh := 64 - k.bits
		return uint64(int64(x<<sh) >> sh)
	}
	return x & (1<<k.bits - 1)
}

// boundary values of a kind: the ends of the type, -1/0/1, and the ends of every NARROWER signed and unsigned type
// (a comparison carried out in a narrower or differently signed type goes wrong exactly there)
func (k *x04Kind) boundaries() []uint64 {
	set := map[uint64]bool{}
	add := func(x int64, neg bool) {
		// candidates are given as signed 64-bit values; keep those that fit the kind
		if k.signed {
			lo, hi := -(int64(1) << (k.bits - 1)), int64(1)<<(k.bits-1)-1
			if k.bits == 64 || (x >= lo && x <= hi) {
				set[uint64(x)] = true
			}
		} else if !neg {
			if k.bits == 64 || uint64(x) <= 1<<k.bits-1 {
				set[uint64(x)] = true
			}
		}
	}
	for _, d := range []int64{-2, -1, 0, 1, 2} {
		add(d, d < 0)
	}
	for _, b := range []uint{7, 8, 15, 16, 31, 32, 63} {
		p := int64(1) << b
		for _, d := range []int64{-1, 0, 1} {
			add(p+d, false)
			add(-p+d, true)
		}
	}
	if !k.signed {
		// unsigned values with the top bit set (negative when misread as signed)
		top := uint64(1) << (k.bits - 1)
		for _, x := range []uint64{top - 1, top, top + 1, top<<1 - 2, top<<1 - 1} {
			set[k.norm(x)] = true
		}
	} else {
		lo := uint64(1) << (k.bits - 1)
		set[k.norm(lo)] = true   // MinT
		set[k.norm(lo+1)] = true // MinT+1
		set[k.norm(lo-1)] = true // MaxT
		set[k.norm(lo-2)] = true // MaxT-1
	}
	r := make([]uint64, 0, len(set))
	for x := range set {
		r = append(r, x)
	}
	// deterministic order
	for i := 1; i < len(r); i++ {
		for j := i; j > 0 && k.cmp(r[j-1], r[j]) > 0; j-- {
			r[j-1], r[j] = r[j], r[j-1]
		}
	}
	return r
}

// a random value of the kind: boundary, near a boundary, small, or uniform over the bit patterns of a random width
func (k *x04Kind) rnd(g *Gen, bnd []uint64) uint64 {
	switch g.R.Intn(6) {
	case 0:
		return bnd[g.R.Intn(len(bnd))]
	case 1:
		return k.norm(bnd[g.R.Intn(len(bnd))] + uint64(g.R.Intn(7)) - 3)
	case 2:
		return k.norm(uint64(int64(g.R.Intn(17) - 8)))
	case 3:
		w := uint(g.R.Range(1, 64))
		x := g.R.U64() >> (64 - w)
		if g.R.Bool() {
			x = -x
		}
		return k.norm(x)
	default:
		return k.norm(g.R.U64())
	}
}

func x04Region(k *x04Kind, n, lo, hi uint64) string {
	if k.cmp(lo, hi) > 0 {
		// inverted interval: where n lies relative to both ends
		return "inv" + strconv.Itoa(k.cmp(n, lo)) + strconv.Itoa(k.cmp(n, hi))
	}
	s := "pt"
	if k.cmp(lo, hi) < 0 {
		s = "iv"
	}
	return s + strconv.Itoa(k.cmp(n, lo)) + strconv.Itoa(k.cmp(n, hi))
}

// width class of a value (which narrower types it fits): part of the shape key
func x04Width(k *x04Kind, x uint64) string {
	if k.signed {
		v := int64(x)
		s := "+"
		if v < 0 {
			s = "-"
			v = ^v
		}
		switch {
		case v < 1<<7:
			return s + "8"
		case v < 1<<15:
			return s + "16"
		case v < 1<<31:
			return s + "32"
		}
		return s + "64"
	}
	switch {
	case x < 1<<7:
		return "7"
	case x < 1<<8:
		return "8"
	case x < 1<<15:
		return "15"
	case x < 1<<16:
		return "16"
	case x < 1<<31:
		return "31"
	case x < 1<<32:
		return "32"
	case x < 1<<63:
		return "63"
	}
	return "64"
}

func genX04(g *Gen) {
	for i := range x04Kinds {
		k := &x04Kinds[i]
		bnd := k.boundaries()
		// (1) exhaustive for the 8-bit kinds: every pair for Min/Max (one line per a), every (min,max) over a subset
		// (quick) or all of them (thorough) x every n for Clap
		if k.bits == 8 {
			all := make([]uint64, 256)
			for v := 0; v < 256; v++ {
				if k.signed {
					all[v] = uint64(int64(v - 128))
				} else {
					all[v] = uint64(v)
				}
			}
			for _, a := range all {
				g.Do("util.MinMax"+k.name+"/grid", L(k.shows([]uint64{a}), k.shows(all)), "grid8")
			}
			g.Exhaust = append(g.Exhaust, "util.Min"+k.name+"/Max"+k.name+": all 65536 argument pairs")
			step := 1
			if !g.Thorough {
				step = 5
			}
			cnt := 0
			for li := 0; li < 256; li += step {
				for hi := 0; hi < 256; hi += step {
					g.Do("util.Clap"+k.name+"/grid", L(k.shows(all), k.show(all[li]), k.show(all[hi])), "grid8")
					cnt++
				}
			}
			if step == 1 {
				g.Exhaust = append(g.Exhaust, "util.Clap"+k.name+": all 2^24 argument triples")
			} else {
				g.Exhaust = append(g.Exhaust, "util.Clap"+k.name+": every n x (min,max) in a 52x52 sub-grid of the type (ends included)")
				// the last values of the type are not hit by the stride: add the ends explicitly
				for _, li := range []int{0, 1, 127, 128, 254, 255} {
					for _, hi := range []int{0, 1, 127, 128, 254, 255} {
						g.Do("util.Clap"+k.name+"/grid", L(k.shows(all), k.show(all[li]), k.show(all[hi])), "grid8")
					}
				}
			}
		}
		// (2) every pair / triple of boundary values of the kind
		g.Do("util.MinMax"+k.name+"/grid", L(k.shows(bnd), k.shows(bnd)), "bnd")
		for _, lo := range bnd {
			for _, hi := range bnd {
				g.Do("util.Clap"+k.name+"/grid", L(k.shows(bnd), k.show(lo), k.show(hi)), "bnd")
			}
		}
		g.Exhaust = append(g.Exhaust, "util.*"+k.name+": all pairs / triples of the "+strconv.Itoa(len(bnd))+" boundary values of the kind (type ends, -2..2, 2^b-1, 2^b, 2^b+1 for the narrower widths b, top-bit patterns)")
		// (3) structured random single calls
		n := g.N(1500, 30000)
		for c := 0; c < n; c++ {
			a, b := k.rnd(g, bnd), k.rnd(g, bnd)
			switch g.R.Intn(8) {
			case 0:
				b = a
			case 1:
				b = k.norm(a + 1)
			case 2:
				// same low half, different high half (and the reverse): narrowing comparisons go wrong here
				if k.bits > 8 {
					h := k.bits / 2
					b = k.norm(a&(1<<h-1) | g.R.U64()<<h)
				}
			case 3:
				if k.bits > 8 {
					h := k.bits / 2
					b = k.norm(a&^(1<<h-1) | g.R.U64()&(1<<h-1))
				}
			}
			key := k.name + ":" + strconv.Itoa(k.cmp(a, b)) + ":" + x04Width(k, a) + ":" + x04Width(k, b)
			g.Stat("minmax-cmp" + strconv.Itoa(k.cmp(a, b)))
			g.Do("util.Min"+k.name, L(k.show(a), k.show(b)), "min:"+key)
			g.Do("util.Max"+k.name, L(k.show(a), k.show(b)), "max:"+key)
			// Clap: interval from two draws (ordered 7 times out of 8), n anywhere / at an end / next to an end
			lo, hi := a, b
			if k.cmp(lo, hi) > 0 && g.R.Intn(8) != 0 {
				lo, hi = hi, lo
			}
			var x uint64
			switch g.R.Intn(8) {
			case 0:
				x = lo
			case 1:
				x = hi
			case 2:
				x = k.norm(lo - 1)
			case 3:
				x = k.norm(hi + 1)
			case 4:
				x = k.norm(lo + 1)
			case 5:
				x = k.norm(hi - 1)
			default:
				x = k.rnd(g, bnd)
			}
			reg := x04Region(k, x, lo, hi)
			g.Stat("clap-" + reg)
			g.Do("util.Clap"+k.name, L(k.show(x), k.show(lo), k.show(hi)), "clap:"+k.name+":"+reg+":"+x04Width(k, x)+":"+x04Width(k, lo)+":"+x04Width(k, hi))
		}
	}
}
