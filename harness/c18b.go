package main

import (
	"io"
	"sync"

	"github.com/openacid/low/iohelper"
)

// C18: large buffers over a writer that fails BY POSITION, and two concurrent callers.
//
//	iohelper.BigWrite   [off, n, [bcall ...], F, e]
//	    bcall  [0,[start,count]] Write | [1,[start,count],o] WriteAt | [2,o,whence] Seek | [3] Size
//	    the buffer is count bytes (start+i) mod 251; the mock accepts bytes below absolute offset F
//	    (F = -1: everything) and returns error class e for a call that reaches F
//	    obs per call: [[return values], [[offset, length, checksum] of what the mock ACCEPTED during the
//	    call, contiguous pieces merged]]
//	iohelper.Concurrent [off, n, pos0, pA, oA, callB]
//	    Seek(pos0, SeekStart); caller A: WriteAt(pA, oA); caller B's call runs while A is blocked inside
//	    the mock's WriteAt (or after A returned, when A never reaches the mock)
//	    obs: [[A's return values, A's underlying calls], [B's return values, B's underlying calls]]
type c18Seg struct {
	off, n int64
	ck     int64
}

type c18PF struct {
	f    int64
	e    int
	segs []c18Seg
}

func (m *c18PF) WriteAt(p []byte, off int64) (int, error) {
	n, err := len(p), error(nil)
	if m.f >= 0 && off+int64(len(p)) > m.f {
		n = 0
		if m.f > off {
			n = int(m.f - off)
		}
		err = c18Err(m.e)
		if m.e == 0 {
			err = nil
		}
	}
	if n > 0 {
		k := len(m.segs)
		if k == 0 || m.segs[k-1].off+m.segs[k-1].n != off {
			m.segs = append(m.segs, c18Seg{off: off})
			k++
		}
		s := &m.segs[k-1]
		for _, b := range p[:n] {
			s.n++
			s.ck += s.n * int64(b)
		}
	}
	return n, err
}

func c18Expand(v V) []byte {
	st, cnt := v.L[0].I64(), v.L[1].Int()
	b := make([]byte, cnt)
	for i := range b {
		b[i] = byte((st + int64(i)) % 251)
	}
	return b
}

// c18Gate: caller A's first WriteAt announces itself and waits until it is released; calls made
// while phaseB is set belong to caller B.
type c18Gate struct {
	mu       sync.Mutex
	phaseB   bool
	gateUsed bool
	entered  chan struct{}
	release  chan struct{}
	callsA   []string
	callsB   []string
}

func (m *c18Gate) WriteAt(p []byte, off int64) (int, error) {
	m.mu.Lock()
	rec := L(I(off), Bytes(p))
	block := false
	if m.phaseB {
		m.callsB = append(m.callsB, rec)
	} else {
		m.callsA = append(m.callsA, rec)
		if !m.gateUsed {
			m.gateUsed = true
			block = true
		}
	}
	m.mu.Unlock()
	if block {
		close(m.entered)
		<-m.release
	}
	return len(p), nil
}

func init() {
	Exec["iohelper.BigWrite"] = func(a []V) string {
		m := &c18PF{f: a[3].I64(), e: a[4].Int()}
		s := iohelper.NewSectionWriter(m, a[0].I64(), a[1].I64())
		out := make([]string, 0, len(a[2].L))
		for _, c := range a[2].L {
			m.segs = m.segs[:0]
			var rets string
			switch c.L[0].Int() {
			case 0:
				n, err := s.Write(c18Expand(c.L[1]))
				rets = L(Int(n), Int(c18ErrClass(err)))
			case 1:
				n, err := s.WriteAt(c18Expand(c.L[1]), c.L[2].I64())
				rets = L(Int(n), Int(c18ErrClass(err)))
			case 2:
				p, err := s.Seek(c.L[1].I64(), c.L[2].Int())
				rets = L(I(p), Int(c18ErrClass(err)))
			default:
				rets = L(I(s.Size()))
			}
			segs := make([]string, len(m.segs))
			for i, g := range m.segs {
				segs[i] = L(I(g.off), I(g.n), I(g.ck))
			}
			out = append(out, L(rets, L(segs...)))
		}
		return L(out...)
	}
	Exec["iohelper.Concurrent"] = func(a []V) string {
		m := &c18Gate{entered: make(chan struct{}), release: make(chan struct{})}
		s := iohelper.NewSectionWriter(m, a[0].I64(), a[1].I64())
		if _, err := s.Seek(a[2].I64(), io.SeekStart); err != nil {
			panic("c18: pos0 rejected")
		}
		pA, oA := a[3].Bytes(), a[4].I64()
		type res struct {
			n   int
			err error
		}
		doneA := make(chan res, 1)
		go func() {
			n, err := s.WriteAt(pA, oA)
			doneA <- res{n, err}
		}()
		var rA res
		aDone := false
		select {
		case <-m.entered: // A is inside the underlying writer
		case rA = <-doneA: // A never reached it
			aDone = true
		}
		m.mu.Lock()
		m.phaseB = true
		m.mu.Unlock()
		retsB := c18Call(s, a[5]) // B runs to completion while A is held
		m.mu.Lock()
		m.phaseB = false
		m.mu.Unlock()
		close(m.release)
		if !aDone {
			rA = <-doneA
		}
		return L(L(L(Int(rA.n), Int(c18ErrClass(rA.err))), L(m.callsA...)), L(retsB, L(m.callsB...)))
	}
}

func genC18Big(g *Gen) {
	const maxI = int64(^uint64(0) >> 1)
	const MiB = 1 << 20
	bw := func(off, n int64, calls []string, f int64, e int, key, bucket string) {
		g.Stat(bucket)
		g.Do("iohelper.BigWrite", L(I(off), I(n), L(calls...), I(f), Int(e)), key)
	}
	wr := func(start, count int64) string { return L("0", L(I(start), I(count))) }
	wat := func(start, count, o int64) string { return L("1", L(I(start), I(count)), I(o)) }
	here := L("2", "0", "1") // Seek(0, SeekCurrent): where is the cursor
	// large buffers: ONE Write of 1 MiB + k bytes (2.5 MiB in the thorough tier too) after a small one,
	// the writer failing nowhere / in the first MiB / shortly after the first MiB / near the end;
	// then the cursor is asked for and a further Write is issued
	type big struct {
		off, n, pre, l, f int64
		cls             string
	}
	var bigs []big
	for i, k := range []int64{1, 7, 4096} {
		l := int64(MiB) + k
		off := int64([]int64{0, 16, 5}[i])
		pre := int64([]int64{7, 0, 3}[i])
		if i == 0 || g.Thorough {
			bigs = append(bigs,
				big{off, maxI - off, pre, l, off + pre + MiB + k/2, "f2/open"}, // fails in the part beyond 1 MiB
				big{off, pre + l - 5, pre, l, off + pre + MiB + 1, "f2/trunc"},
			)
		}
		if g.Thorough {
			bigs = append(bigs, big{off, maxI - off, pre, l, -1, "ok/open"}, big{off, pre + l, pre, l, off + pre + 1000, "f1/exact"})
		}
	}
	if g.Thorough {
		l := int64(2*MiB + MiB/2)
		bigs = append(bigs, big{16, maxI - 16, 0, l, 16 + 2*MiB + 7, "f3/open"}, big{16, 3 * MiB, 9, l, 16 + 9 + MiB + MiB/2, "f2/room"})
	}
	for _, b := range bigs {
		var calls []string
		if b.pre > 0 {
			calls = append(calls, wr(1, b.pre))
		}
		calls = append(calls, wr(100, b.l), here, wr(7, 1000), here, "[3]", wat(9, 5, 2))
		bw(b.off, b.n, calls, b.f, 2, "big/"+b.cls, "bigwrite-1MiB")
	}
	g.Exhaust = append(g.Exhaust, "BigWrite: one Write of 1 MiB + {1, 7, 4096} bytes after a small one, underlying writer failing at an absolute offset shortly after the first MiB (also: nowhere / inside the first MiB / with the section end 5 bytes short), followed by Seek(0,SeekCurrent), Write(1000), Seek(0,SeekCurrent), Size, WriteAt")
	// the same operation with small buffers, many shapes (cheap)
	ns := g.N(400, 8000)
	for k := 0; k < ns; k++ {
		off := int64(g.R.Pick(0, 3, 100))
		n := int64(g.R.Pick(0, 1, 10, 40, 200))
		if g.R.Intn(5) == 0 {
			n = maxI - off
		}
		f := int64(-1)
		if g.R.Intn(3) != 0 {
			f = off + int64(g.R.Range(-2, 60))
			if f < 0 {
				f = 0
			}
		}
		var calls []string
		for c, nc := 0, g.R.Range(1, 8); c < nc; c++ {
			switch g.R.Intn(6) {
			case 0, 1, 2:
				calls = append(calls, wr(int64(g.R.Intn(251)), int64(g.R.Pick(0, 1, 2, 5, 9, 30, 300))))
			case 3:
				calls = append(calls, wat(int64(g.R.Intn(251)), int64(g.R.Pick(0, 1, 4, 20)), int64(g.R.Range(-1, 45))))
			case 4:
				calls = append(calls, L("2", I(int64(g.R.Range(-1, 50))), Int(g.R.Pick(0, 0, 1, 2, 3))))
			default:
				calls = append(calls, here)
			}
		}
		key := ""
		if f >= 0 && len(calls) >= 3 {
			key = "pf-small"
		}
		bw(off, n, calls, f, g.R.Pick(1, 2, 2), key, "bigwrite-small")
	}

	// two callers: A's WriteAt held inside the underlying writer while B's call runs
	cc := func(off, n, pos0 int64, la int, oa int64, callB string, key string) {
		pa := make([]byte, la)
		for i := range pa {
			pa[i] = byte('A' + i)
		}
		g.Stat("concurrent-exh")
		g.Do("iohelper.Concurrent", L(I(off), I(n), I(pos0), Bytes(pa), I(oa), callB), key)
	}
	cls := func(n, o int64, l int) string {
		switch {
		case o < 0 || o >= n:
			return "ref"
		case int64(l) > n-o:
			return "cut"
		}
		return "fit"
	}
	for _, n := range []int64{0, 1, 4} {
		for _, pos0 := range []int64{0, 2} {
			for _, la := range []int{0, 1, 3, 6} {
				for _, oa := range []int64{-1, 0, 2, 3, 4} {
					ka := cls(n, oa, la)
					for _, lb := range []int{0, 1, 2} {
						pb := []byte("xyz")[:lb]
						for _, ob := range []int64{0, 1, 3, 4} {
							cc(5, n, pos0, la, oa, L("1", Bytes(pb), I(ob)), "conc/A"+ka+"/Bat"+cls(n, ob, lb))
						}
						cc(5, n, pos0, la, oa, L("0", Bytes(pb)), "conc/A"+ka+"/Bw"+cls(n, pos0, lb))
					}
				}
			}
		}
	}
	g.Exhaust = append(g.Exhaust, "Concurrent: section (5, n) n in {0,1,4} x cursor 0/2 x A = WriteAt(0/1/3/6 bytes at -1/0/2/3/4) held inside the underlying writer x B = WriteAt(0..2 bytes at 0/1/3/4) or Write(0..2 bytes)")
}
