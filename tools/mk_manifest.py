#!/usr/bin/env python3
"""Regenerates MANIFEST.json from properties.jsonl, lib/props.d/*.py (key 'manifest') and the files that exist."""
import json, os, sys
ROOT = os.path.dirname(os.path.dirname(os.path.abspath(__file__)))
sys.path.insert(0, os.path.join(ROOT, "lib"))
from props import PROPS
props = [json.loads(l) for l in open(os.path.join(ROOT, "properties.jsonl"))]
CORE = {
 "C01": "C01_IndexRank64/128 (index entries = prefix counts), C01_Rank64/Rank128 (= bit-by-bit count and the bit, every position, both flavours), int32-faithful model equal to it under 64*len < 2^31, rank laws, histories with in-place edits",
 "C02": "C02_Select32 / C02_Select32R64 (= i-th 1-bit and the next one or 64*len), C02_IndexSelect32(R64), C02_select8Lookup (all 2048 table entries), rank(select i) = i and select(rank p) = next 1 >= p",
 "C03": "C03_loose / C03_strict (PathToIndex(Loose) = pre-order rank among stored nodes, all three branches), C03_count, C03_bijection, C03_monotone, C03_debug (no contract fires on valid input), C03_shiftMulti",
 "C04": "C04_allpaths (= stored path words filtered by [from,to), strictly ascending), C04_decode, C04_roundtrip, C04_index_all, C04_subtree",
 "C05": "C05_inverse and C05_inverse' (IndexToPath inverts the full-tree PathToIndex, heights 0..30, both directions), C05_shortcut (the common-prefix shortcut = pure descent steps), C05_table, C05_preorder",
 "C06": "C06_marshal, C06_readheader, C06_unmarshal (any chunking, any trailing bytes), C06_stream (any number of frames), C06_codec_roundtrip (raw and BytesValue codecs close the codec premise)",
 "C07": "C07_cut / C07_cut_eof (every cut point), C07_hsize / C07_bsize, C07_writer_every_point, C07_total (never panics; success implies a complete well-formed frame), C07_stream_exact",
 "C08": "C08_FromStr / C08_Get (= MSB-first n-bit chunks, widths 1,2,4,8), C08_ToStr, C08_ToStr_FromStr and C08_FromStr_ToStr (round trips), C08_FirstDiff_min",
 "C09": "C09_new (= canonical encoding of the bit string), C09_len, C09_cmp (= lexicographic bit order for arbitrary bit lists: total order, 0 iff equal, proper prefix first), C09_cmpupto, C09_strcmpupto, C09_wf_iff (decode), int32 model",
 "C10": "C10_len/height/bits/mask/str (fields of enc h q), C10_order (numeric order = pre-order), C10_injective, C10_image (exactly the path words decode), C10_subtree_interval, C10_newpath_raw (any arguments)",
 "C11": "C11_FromStr32 (k = clamp, value = the w-bit window), C11_PathOf, C11_PathsOf (= map PathOf + adjacent dedup), C11_FromStr32_wrap (whole int32 range of from), C11_PathsOf_sorted",
 "C12": "C12_Of, C12_ToArray, round trips, C12_Get/SafeGet (total), C12_OfMany_nonpanic, C12_Builder_history (invariant over any Extend/Set history), int32 model",
 "C13": "C13_NextOne / C13_PrevOne (= first / last 1-bit of the range or -1), C13_IterNext / C13_Iter_ToArray, C13_NextPrevDual, C13_NextOne_any (exact behaviour and panic set outside the domain), int32 model",
 "C14": "C14_Join (length, flat = packed values ++ zeros), C14_Getw_Join, C14_Slice (length ceil((to-from)/64) and the bit sub-range), C14_Slice_bitwise, C14_mask_tables",
 "C15": "C15_invariant (over every Set/Compact history from NewTailBitmap(o)), C15_Get_is_membership, C15_offset_monotone, C15_Compact_changes_no_Get, C15_checker_decides_property, struct-literal and int64 variants",
 "C16": "C16_FirstDiffBits (= bit-LCP of neighbours), C16_CountPrefixes (= number of distinct truncated prefixes, min first-difference), C16_queries (any repeated/overlapping queries on one SigBits), int32 model",
 "C17": "C17_ShardByPrefix (bounded contiguous shards, exact LCP lengths, strictly ascending prefixes; fuel suffices), C17_checker_sound/complete, C17_exact (= naive recursive split), C17_route_lookup",
 "C18": "refinement of the concrete int64 SectionWriter to a cursor/length machine for every call sequence and every faulty underlying writer, containment, accounting, ErrShortWrite iff, Seek incl. the int64 wrap, AtToReader, two and nested writers, pbcmpl through sections",
 "C19": "schedule independence of read-only operations (every schedule, any number of threads: memory unchanged, results = sequential), and - against an effect model REGENERATED from the Go source (SSA) on every run - shared_writes = [], results_shared = [], unclassified = [], every table written only from init; PARTIAL BY NATURE: the step from 'no shared write in SSA form' to the runtime is trusted (translator, compiler, runtime), monitored by -race batches from 8-16 goroutines",
 "C20": "C20_sizeof_structural (= sum of leaf widths + container headers, by an independent fold), C20_Of, C20_Stat_first_line_text, C20_Stat_report (whole report), C20_graph_tree_sum / shared pointers counted twice, C20_ToSlice",
}
TECH = {
 "C19": "Coq proof (generic schedule-independence theorem) + effect model regenerated from the Go source by an SSA translator and re-checked by coqc on every run + -race differential batches",
 "C15": "Coq proof: invariant by induction over operation histories (fold_left) + refinement to an abstract set; differential correspondence check on whole histories",
 "C18": "Coq proof: refinement of the int64 state machine to an abstract cursor/length spec over any call sequence and any faulty writer + differential correspondence check on histories with fault scripts",
 "C12": "Coq proof: algebraic laws / round trips + history invariant for Builder + differential correspondence check",
 "C17": "Coq proof: relational spec with a boolean checker proved sound and complete + induction on fuel for the recursive split; the extracted checker judges the implementation's output",
}
checks, na, claimed = [], [], []
for p in props:
    pid = p["id"]
    need = ["coq/theories/Properties/%s.v" % pid, "coq/theories/Run/%s.v" % pid, "harness/%s.go" % pid.lower(), "lib/props.d/%s.py" % pid]
    if pid in PROPS and all(os.path.exists(os.path.join(ROOT, f)) for f in need):
        m = dict(PROPS[pid].get("manifest", {}))
        claimed.append(pid)
        # per-property wording generated from the tree: theorem names (core ones first), ops, what is proved / trusted
        import re as _re
        _src = open(os.path.join(ROOT, "coq/theories/Properties/%s.v" % pid)).read()
        _thms = _re.findall(r"^Theorem\s+(\w+)", _src, _re.M)
        _part = [x for x in _thms if x.endswith("_partial")]
        _core = CORE.get(pid, "")
        if "text" not in m:
            m["text"] = ("Machine-checked proof (Coq 8.16, no axioms: every Print Assumptions is 'Closed under the global context') of %d theorems "
                         "about an executable Gallina model of the anchored Go functions, unbounded in sizes/positions/histories: %s. "
                         "%s"
                         "The model is tied to /repo on every run by the correspondence check: the extracted model and the extracted "
                         "specification checker judge the real functions' outputs on exhaustive small sub-domains, structured random and large inputs, "
                         "held-object / pair re-run / fresh-process cases; a disagreement is reported with the failing input as replay. "
                         "This is the right level because the property quantifies over all inputs (resp. histories), which only a theorem settles, "
                         "while a theorem about a model needs a checked tie to the code.") % (
                             len(_thms), _core or ", ".join(_thms[:6]),
                             ("Partial theorems: %s. " % ", ".join(_part)) if _part else "No theorem is partial. ")
        if "technique" not in m:
            m["technique"] = TECH.get(pid, "Coq proof (induction / invariants / refinement) about a hand-written executable model + differential correspondence check of the extracted model and spec checker against the real code")
        checks.append({
            "property_id": pid,
            "quick_cmd": "./check %s --tier quick" % pid,
            "thorough_cmd": "./check %s --tier thorough" % pid,
            "evidence_file": "evidence/%s.json" % pid,
            "replay_cmd_template": "./check %s --replay {path}" % pid,
            "engine": "coq-model+correspondence",
            "level_claimed": {"category": "proof",
                              "text": m.get("text", "Coq theorems about an executable Gallina model of the anchored functions (unbounded in sizes, positions and histories), tied to /repo on every run by differential execution of the extracted model and specification checker against the real functions."),
                              "design_ref": "DESIGN.md §6 %s, §12" % pid},
            "level_note": m.get("note", "Trusted: Coq kernel, extraction (ExtrOcamlBasic only), OCaml driver, Go harness, model of Go integers and math/bits; the tie model<->code is sampled (differential), not proved."),
            "technique": m.get("technique", "Coq proof about a hand-written model + extracted-model differential check"),
        })
    else:
        na.append({"property_id": pid, "reason": "not yet built in this commit (in progress; every property is intended to be claimed)"})
man = {"version": 1, "setup_cmd": "./setup.sh",
       "hooks": {"guard": "verif", "enable": "go build -tags verif (the harness module replaces github.com/openacid/low with /repo); no hook file was needed: every observable is exported API",
                 "baseline_off_cmd": "cd /repo && GOFLAGS=-mod=mod go test -vet=off -count=1 ./...", "source_commits": [], "add_only": True},
       "engines": [{"name": "coq-model+correspondence", "path": "check", "serves_properties": claimed,
                    "kind_free_text": "Coq 8.16 theorems about a hand-written executable Gallina model (coq/theories); Run.All.judge (model + spec checker) extracted to OCaml and run against the Go implementation, rebuilt from /repo's working tree on every run; C19 additionally regenerates an effect model from the Go source (go/ssa translator)"}],
       "checks": checks, "not_applicable": na,
       "notes": "See DESIGN.md. ./check <ID> --tier quick|thorough [--seed N]; VERIF_SEED / VERIF_TIER honoured. Exit 0 ok, 1 VIOLATION, 2 tool error."}
json.dump(man, open(os.path.join(ROOT, "MANIFEST.json"), "w"), indent=1)
print("claimed:", claimed)
# keep baseline/anchors.json (used by ./check's escalation pass) in step with props.d 'files' — only when /repo is clean
import subprocess
if subprocess.run(["git", "-C", "/repo", "status", "--porcelain"], stdout=subprocess.PIPE, text=True).stdout.strip() == "":
    subprocess.run([os.path.join(ROOT, "check"), "--write-baseline"])
else:
    print("WARNING: /repo has uncommitted changes; baseline/anchors.json not rewritten")
