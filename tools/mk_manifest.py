#!/usr/bin/env python3
"""Regenerates MANIFEST.json from properties.jsonl, lib/props.d/*.py (key 'manifest') and the files that exist."""
import json, os, sys
ROOT = os.path.dirname(os.path.dirname(os.path.abspath(__file__)))
sys.path.insert(0, os.path.join(ROOT, "lib"))
from props import PROPS
props = [json.loads(l) for l in open(os.path.join(ROOT, "properties.jsonl"))]
checks, na, claimed = [], [], []
for p in props:
    pid = p["id"]
    need = ["coq/theories/Properties/%s.v" % pid, "coq/theories/Run/%s.v" % pid, "harness/%s.go" % pid.lower(), "lib/props.d/%s.py" % pid]
    if pid in PROPS and all(os.path.exists(os.path.join(ROOT, f)) for f in need):
        m = PROPS[pid].get("manifest", {})
        claimed.append(pid)
        checks.append({
            "property_id": pid,
            "quick_cmd": "./check %s --tier quick" % pid,
            "thorough_cmd": "./check %s --tier thorough" % pid,
            "evidence_file": "evidence/%s.json" % pid,
            "replay_cmd_template": "./check %s --replay {path}" % pid,
            "engine": "coq-model+correspondence",
            "level_claimed": {"category": "proof",
                              "text": m.get("text", "Coq theorems about an executable Gallina model of the anchored functions (unbounded in sizes, positions and histories), tied to /repo on every run by differential execution of the extracted model and specification checker against the real functions."),
                              "design_ref": "DESIGN.md §6 %s, §12" % pid},
            "level_note": m.get("note", "Trusted: Coq kernel, extraction (ExtrOcamlBasic only), OCaml driver, Go harness, model of Go integers and math/bits; the tie model<->code is sampled (differential), not proved."),
            "technique": m.get("technique", "Coq proof about a hand-written model + extracted-model differential check"),
        })
    else:
        na.append({"property_id": pid, "reason": "not yet built in this commit (in progress; every property is intended to be claimed)"})
man = {"version": 1, "setup_cmd": "./setup.sh",
       "hooks": {"guard": "verif", "enable": "go build -tags verif (the harness module replaces github.com/openacid/low with /repo); no hook file was needed: every observable is exported API",
                 "baseline_off_cmd": "cd /repo && GOFLAGS=-mod=mod go test -vet=off -count=1 ./...", "source_commits": [], "add_only": True},
       "engines": [{"name": "coq-model+correspondence", "path": "check", "serves_properties": claimed,
                    "kind_free_text": "Coq 8.16 theorems about a hand-written executable Gallina model (coq/theories); Run.All.judge (model + spec checker) extracted to OCaml and run against the Go implementation, rebuilt from /repo's working tree on every run; C19 additionally regenerates an effect model from the Go source (go/ssa translator)"}],
       "checks": checks, "not_applicable": na,
       "notes": "See DESIGN.md. ./check <ID> --tier quick|thorough [--seed N]; VERIF_SEED / VERIF_TIER honoured. Exit 0 ok, 1 VIOLATION, 2 tool error."}
json.dump(man, open(os.path.join(ROOT, "MANIFEST.json"), "w"), indent=1)
print("claimed:", claimed)
# keep baseline/anchors.json (used by ./check's escalation pass) in step with props.d 'files' — only when /repo is clean
import subprocess
if subprocess.run(["git", "-C", "/repo", "status", "--porcelain"], stdout=subprocess.PIPE, text=True).stdout.strip() == "":
    subprocess.run([os.path.join(ROOT, "check"), "--write-baseline"])
else:
    print("WARNING: /repo has uncommitted changes; baseline/anchors.json not rewritten")
