#!/usr/bin/env python3
"""tools/mutant.py <mutant-dir> <PID> [--tier quick|thorough] [--no-confirm]

Confirms a seeded change (patch.diff + demo_test.go + demo_path.txt) in a scratch worktree of /repo
outside /repo and /verif, then runs ./check <PID> against that scratch tree (VERIF_REPO) and reports
whether the check detects it. The scratch worktree is removed afterwards. Not a registered check."""
import sys, os, subprocess, json, shutil, tempfile, time

ROOT = os.path.dirname(os.path.dirname(os.path.abspath(__file__)))
ENV = dict(os.environ, GOFLAGS="-mod=mod", GOPROXY="off", GOSUMDB="off", GOTOOLCHAIN="local")


def run(cmd, cwd=None, env=None, timeout=1800):
    p = subprocess.run(cmd, cwd=cwd, env=env or ENV, stdout=subprocess.PIPE, stderr=subprocess.STDOUT, text=True, timeout=timeout)
    return p.returncode, p.stdout


def main():
    d, pid = sys.argv[1], sys.argv[2]
    tier = "quick"
    if "--tier" in sys.argv:
        tier = sys.argv[sys.argv.index("--tier") + 1]
    confirm = "--no-confirm" not in sys.argv
    wt = tempfile.mkdtemp(prefix="mt-", dir="/tmp")
    os.rmdir(wt)
    res = {"mutant": d, "property": pid, "tier": tier}
    try:
        rc, out = run(["git", "-C", "/repo", "worktree", "add", "-q", "--detach", wt, "HEAD"])
        assert rc == 0, out
        patch = os.path.abspath(os.path.join(d, "patch.diff"))
        demo = os.path.join(d, "demo_test.go")
        demo_path = open(os.path.join(d, "demo_path.txt")).read().strip() if os.path.exists(os.path.join(d, "demo_path.txt")) else None
        pkgs = sorted(set("./" + os.path.dirname(l[6:].strip()) + "/..." for l in open(patch) if l.startswith("+++ b/")))
        if confirm and demo_path:
            # demo passes on the unchanged tree
            shutil.copy(demo, os.path.join(wt, demo_path))
            dpkg = "./" + os.path.dirname(demo_path)
            rc, out = run(["go", "test", "-vet=off", "-count=1", dpkg], cwd=wt)
            res["demo_passes_unpatched"] = (rc == 0)
            if rc != 0: res["demo_unpatched_out"] = out[-800:]
            os.remove(os.path.join(wt, demo_path))
        rc, out = run(["git", "apply", patch], cwd=wt)
        assert rc == 0, "patch does not apply: " + out
        if confirm:
            rc, out = run(["go", "build", "./..."], cwd=wt)
            res["builds"] = (rc == 0)
            rc, out = run(["go", "test", "-vet=off", "-count=1"] + pkgs, cwd=wt)
            res["suite_passes_patched"] = (rc == 0)
            if rc != 0: res["suite_out"] = out[-800:]
            if demo_path:
                shutil.copy(demo, os.path.join(wt, demo_path))
                rc, out = run(["go", "test", "-vet=off", "-count=1", "./" + os.path.dirname(demo_path)], cwd=wt)
                res["demo_fails_patched"] = (rc != 0)
                os.remove(os.path.join(wt, demo_path))
        t0 = time.time()
        rc, out = run([os.path.join(ROOT, "check"), pid, "--tier", tier], cwd=ROOT, env=dict(ENV, VERIF_REPO=wt), timeout=7200)
        res["check_exit"] = rc
        res["check_wall_s"] = round(time.time() - t0, 1)
        res["check_out"] = [l for l in out.splitlines() if l.startswith(("VIOLATION", "ERROR", "KNOWN", pid))][:6]
        # detected = a VIOLATION whose replay is about the CODE (failing input, crash, hang, race, broken correspondence,
        # harness no longer builds, regenerated obligation fails) - not the "no theorem file yet" state of an unclaimed property
        res["detected"] = False
        kinds = []
        for l in out.splitlines():
            if l.startswith("VIOLATION"):
                rp = l.split("replay=")[1].split()[0]
                try:
                    j = json.load(open(os.path.join(ROOT, rp)))
                    kinds.append(j.get("kind"))
                    if "replay" not in res and not (j.get("kind") == "proof-obligation" and ("obligations not discharged" in str(j.get("broken")) or "no Properties/" in str(j.get("broken")))):
                        res["replay"] = {k: (str(j.get(k))[:300]) for k in ("kind", "op", "args", "impl_output", "model_output", "broken")}
                        res["detected"] = (rc == 1)
                    os.remove(os.path.join(ROOT, rp))
                except Exception as e:
                    res.setdefault("replay_errors", []).append(str(e))
        res["violation_kinds"] = kinds
    finally:
        subprocess.run(["git", "-C", "/repo", "worktree", "remove", "--force", wt], stdout=subprocess.DEVNULL, stderr=subprocess.DEVNULL)
        shutil.rmtree(wt, ignore_errors=True)
    print(json.dumps(res, indent=1))
    return 0


if __name__ == "__main__":
    sys.exit(main())
