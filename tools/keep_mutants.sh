#!/bin/sh
# usage: tools/keep_mutants.sh <PID> <tag>   copies /work/mut/<tag>/m*/ to seeded/<PID>-<tag>-mK and removes the agent's worktree
pid=$1; tag=$2
for d in /work/mut/$tag/m*/; do k=$(basename $d); mkdir -p seeded/$pid-$tag-$k; cp $d/patch.diff $d/demo_test.go $d/demo_path.txt $d/meta.json seeded/$pid-$tag-$k/ 2>/dev/null; done
git -C /repo worktree remove --force /tmp/mw-$tag 2>/dev/null; rm -rf /tmp/mw-$tag; true
