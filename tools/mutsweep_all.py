#!/usr/bin/env python3
"""tools/mutsweep_all.py [--budget 6] TASK...

Runs a list of mutation-sweep tasks under a total worker budget (the machine is shared: at most 6 workers).
A task is  PID:K[:J]   = tools/mutsweep.py PID --max-survivors K --jobs J   (J defaults to 2)
       or  retest:PID  = tools/mutsweep.py PID --retest gaps   (one worker; only survivors triaged GAP are re-run)
       or  recheck:PID[:J] = tools/mutsweep.py PID --recheck --jobs J   (all survivors + a sample of the detected, after ./check changed)
Tasks start in the given order as soon as the budget allows; two tasks of the same property never run at the same time
(they would share the /tmp paths), and sweeps already running outside this scheduler (started by hand) are counted too.
Logs: build/mutsweep/logs/<task>.log
"""
import sys, os, subprocess, time, re

ROOT = os.path.dirname(os.path.dirname(os.path.abspath(__file__)))


def running():
    """(workers in use, set of property ids) of all mutsweep.py processes on this machine."""
    out = subprocess.run(["ps", "-eo", "args"], stdout=subprocess.PIPE, text=True).stdout
    used, pids = 0, set()
    for l in out.splitlines():
        m = re.match(r"\S*python3? \S*tools/mutsweep\.py (C\d\d)(.*)", l.strip())   # the interpreter itself, not a shell wrapper
        if not m:
            continue
        pids.add(m.group(1))
        j = re.search(r"--jobs (\d+)", m.group(2))
        used += 1 if "--retest" in m.group(2) else (int(j.group(1)) if j else 4)
    return used, pids


def main():
    args = sys.argv[1:]
    budget = 6
    if args and args[0] == "--budget":
        budget = int(args[1]); args = args[2:]
    os.makedirs(os.path.join(ROOT, "build", "mutsweep", "logs"), exist_ok=True)
    procs = []
    for t in args:
        f = t.split(":")
        if f[0] == "retest":
            pid, need = f[1], 1
            cmd = [os.path.join(ROOT, "tools", "mutsweep.py"), pid, "--retest", "gaps"]
        elif f[0] == "recheck":      # recheck:PID[:J]
            pid, need = f[1], int(f[2]) if len(f) > 2 else 2
            cmd = [os.path.join(ROOT, "tools", "mutsweep.py"), pid, "--recheck", "--jobs", str(need)]
        else:
            pid, need = f[0], int(f[2]) if len(f) > 2 else 2
            cmd = [os.path.join(ROOT, "tools", "mutsweep.py"), pid, "--max-survivors", f[1], "--jobs", str(need)]
        while True:
            used, pids = running()
            if used + need <= budget and pid not in pids:
                break
            time.sleep(20)
        log = open(os.path.join(ROOT, "build", "mutsweep", "logs", t.replace(":", "-") + ".log"), "w")
        print(time.strftime("%H:%M:%S"), "start", t, flush=True)
        procs.append(subprocess.Popen(["python3"] + cmd, cwd=ROOT, stdout=log, stderr=subprocess.STDOUT))
        time.sleep(5)
    for p in procs:
        p.wait()
    print(time.strftime("%H:%M:%S"), "all done", flush=True)


if __name__ == "__main__":
    main()
