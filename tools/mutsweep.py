#!/usr/bin/env python3
"""tools/mutsweep.py PID [--jobs N] [--max-survivors K] [--seed S] [--timeout SEC] [--fresh] [--only-file F]
   tools/mutsweep.py --report

Automatic first-order mutation sweep for one property (not a registered check).

For the non-test .go files the property is anchored in (properties.jsonl: anchors.files) the Go helper tools/mutgen
(go/parser based, one text edit per mutant) lists the mutation sites. Mutants are taken in a deterministic order
(seeded shuffle inside each operator class, classes interleaved round-robin) and each one is
  (a) written into a scratch worktree of /repo under /tmp and compiled (`go build ./...`; failure = "stillborn"),
  (b) run through the existing tests of the mutated file's package (`go test -vet=off -count=1 ./<pkg>/`, for bmtree also
      with `-tags debug`; failure = "killed by the suite"),
  (c) otherwise judged by `VERIF_REPO=<worktree> ./check PID --tier quick` with a per-mutant timeout.
The sweep stops handing out mutants once --max-survivors of them have survived the suite (or when none are left).
Re-running with a larger --max-survivors continues where the previous run stopped (results are appended and already
tested mutants are skipped), so a sweep can be deepened.

Parallelism: --jobs workers, each with its own scratch worktree /tmp/ms-<PID>-<k> of /repo AND its own private copy
/tmp/msroot-<PID>-<k> of this checkout (sources + built .vo files + driver): ./check keeps the harness build, the case
file and (for C19) the regenerated coq/gen/Effects.v per property id under its own root, so two checks of the same
property cannot share a root. Everything under /tmp is removed at the end.

Results: build/mutsweep/<PID>.jsonl (one record per tested mutant, git-ignored). --report rebuilds docs/mutation-sweep.md
from all build/mutsweep/*.jsonl plus the hand-written triage in tools/mutsweep_triage.json.
"""
import sys, os, json, subprocess, random, shutil, time, threading, signal, argparse, hashlib, collections, re

ROOT = os.path.dirname(os.path.dirname(os.path.abspath(__file__)))
REPO = "/repo"
OUT = os.path.join(ROOT, "build", "mutsweep")
ENV = dict(os.environ, GOFLAGS="-mod=mod", GOPROXY="off", GOSUMDB="off", GOTOOLCHAIN="local")
CLASSES = ["arith", "cmp", "lit", "negcond", "ifbody", "retdel", "logic", "stmtdel", "argswap", "narrow"]


def run(cmd, cwd=None, env=None, timeout=600, memlimit_kb=None):
    """Run in its own process group; kill the whole group on timeout. Returns (rc, output, timed_out)."""
    if memlimit_kb:
        cmd = ["bash", "-c", "ulimit -v %d; exec \"$@\"" % memlimit_kb, "x"] + list(cmd)
    p = subprocess.Popen(cmd, cwd=cwd, env=env or ENV, stdout=subprocess.PIPE, stderr=subprocess.STDOUT, text=True,
                         errors="replace", start_new_session=True)
    try:
        out, _ = p.communicate(timeout=timeout)
        return p.returncode, out, False
    except subprocess.TimeoutExpired:
        try:
            os.killpg(p.pid, signal.SIGKILL)
        except ProcessLookupError:
            pass
        try:
            out, _ = p.communicate(timeout=30)
        except Exception:
            out = ""
        return 124, out or "", True


def anchors(pid):
    for l in open(os.path.join(ROOT, "properties.jsonl")):
        j = json.loads(l)
        if j["id"] == pid:
            return [f for f in j["anchors"]["files"] if f.endswith(".go") and not f.endswith("_test.go")]
    raise SystemExit("unknown property " + pid)


def build_mutgen():
    os.makedirs(OUT, exist_ok=True)
    exe = os.path.join(OUT, "mutgen")
    rc, out, _ = run(["go", "build", "-o", exe, "."], cwd=os.path.join(ROOT, "tools", "mutgen"))
    if rc != 0:
        raise SystemExit("mutgen does not build:\n" + out)
    return exe


def list_mutants(exe, pid, files, seed):
    per_class = collections.defaultdict(list)
    nsites = {}
    for f in files:
        rc, out, _ = run([exe, "-file", os.path.join(REPO, f), "-list"])
        if rc != 0:
            raise SystemExit("mutgen failed on %s: %s" % (f, out))
        ss = json.loads(out)
        nsites[f] = len(set((s["start"], s["end"]) for s in ss))
        for s in ss:
            s["file"] = f
            per_class[s["op"]].append(s)
    order = []
    for c in CLASSES:
        lst = per_class.get(c, [])
        lst.sort(key=lambda s: (s["file"], s["id"]))
        random.Random("%s/%s/%s" % (seed, pid, c)).shuffle(lst)
    k = 0
    while any(per_class.get(c) for c in CLASSES):
        for c in CLASSES:
            if per_class.get(c):
                order.append(per_class[c].pop(0))
        k += 1
    return order, nsites


def mkey(m):
    return "%s#%d#%s#%s" % (m["file"], m["id"], m["op"], m["desc"])


class Worker:
    def __init__(self, pid, k):
        self.pid, self.k = pid, k
        self.wt = "/tmp/ms-%s-%d" % (pid, k)
        self.root = "/tmp/msroot-%s-%d" % (pid, k)

    def setup(self):
        self.teardown()
        rc, out, _ = run(["git", "-C", REPO, "worktree", "add", "-q", "--detach", self.wt, "HEAD"])
        if rc != 0:
            raise SystemExit("cannot create worktree: " + out)
        os.makedirs(self.root)
        for name in ("check", "lib", "coq", "harness", "corpus", "driver", "baseline", "known_findings.txt", "properties.jsonl"):
            s = os.path.join(ROOT, name)
            if not os.path.exists(s):
                continue
            # cp -a keeps the mtimes, so `make` in the copy sees an up-to-date build
            subprocess.run(["cp", "-a", s, os.path.join(self.root, name)], check=True)
        os.makedirs(os.path.join(self.root, "build"))
        for name in ("driver", "driver.d", "effects"):
            s = os.path.join(ROOT, "build", name)
            if os.path.exists(s):
                subprocess.run(["cp", "-a", s, os.path.join(self.root, "build", name)], check=True)

    def teardown(self):
        subprocess.run(["git", "-C", REPO, "worktree", "remove", "--force", self.wt], stdout=subprocess.DEVNULL, stderr=subprocess.DEVNULL)
        shutil.rmtree(self.wt, ignore_errors=True)
        subprocess.run(["git", "-C", REPO, "worktree", "prune"], stdout=subprocess.DEVNULL, stderr=subprocess.DEVNULL)
        shutil.rmtree(self.root, ignore_errors=True)

    def reset(self):
        run(["git", "checkout", "-q", "--", "."], cwd=self.wt)
        run(["git", "clean", "-fdq"], cwd=self.wt)

    def suite(self, pkg, timeout):
        """The package's existing tests. Returns (passed, seconds, tail of the output when failed)."""
        t0 = time.time()
        variants = [[]]
        if pkg == "bmtree":
            variants.append(["-tags", "debug"])
        for v in variants:
            rc, out, to = run(["go", "test", "-vet=off", "-count=1", "-timeout", "%ds" % timeout] + v + ["./" + pkg + "/"],
                              cwd=self.wt, timeout=timeout + 60, memlimit_kb=24000000)
            if rc != 0:
                return False, time.time() - t0, ("TIMEOUT " if to else "") + out[-600:]
        return True, time.time() - t0, ""

    def check(self, timeout, _retry=False):
        t0 = time.time()
        # VERIF_NO_ESCALATE: without it ./check answers a clean quick pass on a changed anchored file with a thorough-size
        # generation run (4 minutes); the sweep measures the plain quick pass
        env = dict(ENV, VERIF_REPO=self.wt, VERIF_NO_ESCALATE="1")
        env.pop("VERIF_SEED", None); env.pop("VERIF_TIER", None)
        rc, out, to = run([os.path.join(self.root, "check"), self.pid, "--tier", "quick"], cwd=self.root, env=env, timeout=timeout)
        res = {"check_exit": rc, "check_wall_s": round(time.time() - t0, 1), "timed_out": to}
        lines = out.splitlines()
        vio = [l for l in lines if l.startswith("VIOLATION")]
        res["violation"] = vio[0] if vio else ""
        res["n_violations"] = len(vio)
        res["summary"] = next((l for l in lines if l.startswith(self.pid + " ")), "")
        err = [l for l in lines if l.startswith("ERROR")]
        if err:
            res["error"] = err[0][:600]
        elif rc not in (0, 1) and not to:
            res["error"] = out[-600:]
        kinds = []
        for l in vio:
            try:
                rp = l.split("replay=")[1].split()[0]
                j = json.load(open(os.path.join(self.root, rp)))
                kinds.append(j.get("kind"))
                if "replay" not in res:
                    res["replay"] = {k: str(j.get(k))[:300] for k in ("kind", "op", "args", "impl_output", "model_output", "broken")}
                os.remove(os.path.join(self.root, rp))
            except Exception as e:
                res.setdefault("replay_errors", []).append(str(e)[:200])
        res["replay_kinds"] = kinds
        # a mutant that passed `go build ./...` cannot break the harness's use of the exported API: a harness-build "violation"
        # is then a failure of the environment (seen: the shared Go build cache being cleaned by another job while linking)
        if kinds and all(k == "harness-build" for k in kinds) and not _retry:
            return self.check(timeout, _retry=True)
        if kinds and all(k == "harness-build" for k in kinds):
            res["check_exit"] = 2; res["error"] = "harness build failed twice on a tree that builds: " + (res.get("replay") or {}).get("impl_output", "")[:300]
            res["violation"] = ""
        return res


def sweep(a):
    pid = a.pid
    files = anchors(pid)
    if a.only_file:
        files = [f for f in files if f == a.only_file]
    exe = build_mutgen()
    order, nsites = list_mutants(exe, pid, files, a.seed)
    os.makedirs(OUT, exist_ok=True)
    resf = os.path.join(OUT, pid + ".jsonl")
    if a.fresh and os.path.exists(resf):
        os.remove(resf)
    done = {}
    meta = None
    if os.path.exists(resf):
        for l in open(resf):
            j = json.loads(l)
            if j.get("meta"):
                meta = j
            elif j.get("outcome") != "sweep-error":   # a mutant the sweep itself failed on is tried again
                done[j["key"]] = j
    head = subprocess.run(["git", "-C", REPO, "rev-parse", "HEAD"], stdout=subprocess.PIPE, text=True).stdout.strip()
    # build / suite outcomes do not depend on the property: reuse those already established for the same mutant of the same
    # file by the sweep of another property (same /repo HEAD); only ./check is property specific
    shared = {}
    for opid, (ometa, orecs) in load_results().items():
        if opid != pid and ometa and ometa.get("repo_head") == head:
            for r in orecs:
                if r["outcome"] in ("stillborn", "suite-killed"):
                    shared.setdefault(r["key"], (opid, r))
    survivors_so_far = sum(1 for j in done.values() if j["outcome"] not in ("stillborn", "suite-killed"))
    todo = [m for m in order if mkey(m) not in done]
    print("%s: files=%s sites=%d mutants=%d already tested=%d (suite-survivors %d) todo=%d" % (
        pid, files, sum(nsites.values()), len(order), len(done), survivors_so_far, len(todo)), flush=True)
    if survivors_so_far >= a.max_survivors or not todo:
        print("nothing to do"); return 0

    workers = [Worker(pid, k) for k in range(a.jobs)]
    out_lock = threading.Lock()
    state = {"surv": survivors_so_far, "next": 0, "stop": False}
    fout = open(resf, "a")

    def emit(rec):
        with out_lock:
            fout.write(json.dumps(rec) + "\n"); fout.flush()

    try:
        ths = [threading.Thread(target=w.setup) for w in workers]
        [t.start() for t in ths]; [t.join() for t in ths]
        # baseline on the unchanged tree: suite time per package and the check itself
        w0 = workers[0]
        pkgs = sorted(set(os.path.dirname(f) for f in files))
        suite_s = {}
        for p in pkgs:
            ok, s, tail = w0.suite(p, 600)
            if not ok:
                raise SystemExit("the suite of %s fails on the unchanged tree:\n%s" % (p, tail))
            suite_s[p] = s
        b = w0.check(max(a.timeout, 1200))
        print("baseline: suite %s check exit=%s wall=%ss %s" % ({p: round(s, 1) for p, s in suite_s.items()}, b["check_exit"], b["check_wall_s"], b["summary"]), flush=True)
        if b["check_exit"] != 0:
            raise SystemExit("the check does not pass on the unchanged tree: %s" % json.dumps(b)[:1500])
        base_wall = b["check_wall_s"]
        # the machine is shared: a mutant only counts as hanging when it needs more than 3x the time of the unchanged tree
        a.timeout = int(max(a.timeout, 3 * base_wall))
        baseline_in_time = base_wall < a.timeout
        if meta is None or meta.get("repo_head") != head:
            emit({"meta": True, "pid": pid, "repo_head": head, "files": files, "sites": nsites, "mutants": len(order), "seed": a.seed,
                  "baseline_check_wall_s": base_wall, "baseline_suite_s": suite_s, "timeout_s": a.timeout,
                  "by_class": dict(collections.Counter(m["op"] for m in order))})

        def take():
            with out_lock:
                if state["stop"] or state["surv"] >= a.max_survivors or state["next"] >= len(todo):
                    return None
                m = todo[state["next"]]; state["next"] += 1
                return m

        def work(w):
            while True:
                m = take()
                if m is None:
                    return
                rec = {"key": mkey(m), "pid": pid}
                rec.update({k: m[k] for k in ("file", "id", "op", "desc", "line", "col", "func", "orig_line", "mut_line")})
                if rec["key"] in shared:
                    opid, r = shared[rec["key"]]
                    rec["outcome"] = r["outcome"]; rec["reused_from"] = opid
                    for k in ("build_err", "suite_tail", "suite_s"):
                        if k in r:
                            rec[k] = r[k]
                    emit(rec); continue
                try:
                    w.reset()
                    rc, txt, _ = run([exe, "-file", os.path.join(REPO, m["file"]), "-apply", str(m["id"])])
                    assert rc == 0, txt
                    open(os.path.join(w.wt, m["file"]), "w").write(txt)
                    rc, out, to = run(["go", "build", "./..."], cwd=w.wt, timeout=600)
                    if rc != 0:
                        rec["outcome"] = "stillborn"; rec["build_err"] = out.strip().splitlines()[-1][:200] if out.strip() else ""
                        emit(rec); continue
                    pkg = os.path.dirname(m["file"])
                    ok, s, tail = w.suite(pkg, int(max(120, 6 * suite_s.get(pkg, 10))))
                    rec["suite_s"] = round(s, 1)
                    if not ok:
                        rec["outcome"] = "suite-killed"; rec["suite_tail"] = tail[-300:]
                        emit(rec); continue
                    with out_lock:
                        state["surv"] += 1
                    r = w.check(a.timeout)
                    rec.update(r)
                    if r["timed_out"]:
                        rec["outcome"] = "detected-by-hang" if baseline_in_time else "timeout-inconclusive"
                    elif r["check_exit"] == 1 and r["violation"]:
                        rec["outcome"] = "detected"
                    elif r["check_exit"] == 0:
                        rec["outcome"] = "survived"
                    else:
                        rec["outcome"] = "tool-error"
                    emit(rec)
                    print("[%s w%d] %s:%d %s %s -> %s (%ss) %s" % (pid, w.k, m["file"], m["line"], m["op"], m["desc"], rec["outcome"],
                                                                   r["check_wall_s"], (r.get("replay") or {}).get("kind", "")), flush=True)
                except Exception as e:
                    rec["outcome"] = "sweep-error"; rec["exception"] = repr(e)[:400]
                    emit(rec)
        ths = [threading.Thread(target=work, args=(w,)) for w in workers]
        [t.start() for t in ths]
        try:
            [t.join() for t in ths]
        except KeyboardInterrupt:
            state["stop"] = True
            [t.join() for t in ths]
    finally:
        for w in workers:
            w.teardown()
        fout.close()
    return 0


# ----------------------------------------------------------------------------------------------------------- report

def load_results():
    res = {}
    if not os.path.isdir(OUT):
        return res
    for fn in sorted(os.listdir(OUT)):
        if not fn.endswith(".jsonl") or fn.endswith(".retest.jsonl"):
            continue
        pid = fn[:-6]
        meta, recs = None, {}
        for l in open(os.path.join(OUT, fn)):
            try:
                j = json.loads(l)
            except ValueError:
                continue   # a line being written by a running sweep
            if j.get("meta"):
                meta = j
            else:
                recs[j["key"]] = j
        res[pid] = (meta, list(recs.values()))
    return res



# ----------------------------------------------------------------------------------------------------- probe / retest

def find_record(pid, sel):
    """Tested mutants of PID by full key, or by a substring of 'file:line:desc @col' (the '@col' part makes a selector unique)."""
    meta, recs = load_results()[pid]
    hits = []
    for r in recs:
        tag = "%s:%d:%s @%d" % (r["file"], r["line"], r["desc"], r["col"])
        if sel == r["key"] or sel in tag:
            hits.append(r)
    return hits


def probe(a):
    """--probe SEL --case 'op<TAB>args' [--tags 'verif debug']: run ONE harness case on the unchanged tree and on the mutant
    (harness -replay, no model involved) and print both observations."""
    pid = a.pid
    hits = find_record(pid, a.probe)
    if len(hits) != 1:
        print("selector matches %d mutants:" % len(hits)); [print("  %s:%d:%s @%d" % (r["file"], r["line"], r["desc"], r["col"])) for r in hits]; return 2
    r = hits[0]
    exe = build_mutgen()
    wt = "/tmp/ms-%s-probe%d" % (pid, os.getpid())
    try:
        rc, out, _ = run(["git", "-C", REPO, "worktree", "add", "-q", "--detach", wt, "HEAD"]); assert rc == 0, out
        obs = []
        for mutated in (False, True):
            if mutated:
                rc, txt, _ = run([exe, "-file", os.path.join(REPO, r["file"]), "-apply", str(r["id"])]); assert rc == 0
                open(os.path.join(wt, r["file"]), "w").write(txt)
            hdir = os.path.join(wt + "-h")
            shutil.rmtree(hdir, ignore_errors=True); os.makedirs(hdir)
            for f in os.listdir(os.path.join(ROOT, "harness")):
                if f.endswith(".go") or f == "go.mod":
                    t = open(os.path.join(ROOT, "harness", f)).read()
                    if f == "go.mod":
                        t = t.replace("=> /repo", "=> " + wt)
                    open(os.path.join(hdir, f), "w").write(t)
            shutil.copyfile(os.path.join(wt, "go.sum"), os.path.join(hdir, "go.sum"))
            rc, out, _ = run(["go", "build", "-tags", a.tags, "-o", "h", "."], cwd=hdir, env=dict(ENV, CGO_ENABLED="0"))
            if rc != 0:
                print("harness build failed:", out[-800:]); return 2
            for c in a.case:
                rc, out, _ = run([os.path.join(hdir, "h"), "-replay", c.replace("\\t", "\t")], timeout=120)
                obs.append((mutated, c, out.strip().split("\t")[2] if out.count("\t") >= 2 else "rc=%d %s" % (rc, out[-300:])))
            if a.case_file:
                # cases too long for an argv entry: run them as a corpus (the corpus lines are executed first, in -sync mode every
                # line is flushed before the next case starts) and read their observations back
                cl = [l.rstrip("\n") for l in open(a.case_file) if l.strip() and not l.startswith("#")]
                outf = os.path.join(hdir, "out.txt")
                rc, out, _ = run([os.path.join(hdir, "h"), "-prop", pid, "-tier", "quick", "-sync", "-corpus", a.case_file, "-out", outf], timeout=600)
                got = [l.rstrip("\n").split("\t") for l in open(outf)][:len(cl)] if os.path.exists(outf) else []
                for i, c in enumerate(cl):
                    short = c if len(c) < 200 else c[:80] + "..." + c[-60:]
                    obs.append((mutated, short, got[i][2] if i < len(got) and len(got[i]) > 2 else "no observation: harness exit %d %s" % (rc, " | ".join(x for x in out.splitlines() if not x.startswith(("PENDING", "STAT", "EXHAUSTIVE", "CASES")))[-300:])))
        n = len(obs) // 2
        for i in range(n):
            o, m = obs[i][2], obs[n + i][2]
            print("%s\n  original: %s\n  mutant  : %s\n  %s" % (obs[i][1], o[:400], m[:400], "DIFFERENT" if o != m else "same"))
    finally:
        subprocess.run(["git", "-C", REPO, "worktree", "remove", "--force", wt], stdout=subprocess.DEVNULL, stderr=subprocess.DEVNULL)
        shutil.rmtree(wt, ignore_errors=True); shutil.rmtree(wt + "-h", ignore_errors=True)
    return 0


def retest(a):
    """--retest [SEL ...]: run ./check (with the CURRENT corpus) again on survivors (all, or the selected ones) and record the
    outcome in build/mutsweep/<PID>.retest.jsonl; the report marks those now detected as closed."""
    pid = a.pid
    meta, recs = load_results()[pid]
    todo = [r for r in recs if r["outcome"] == "survived"]
    if a.retest == ["gaps"]:
        tp = os.path.join(ROOT, "tools", "mutsweep_triage.json")
        tri = json.load(open(tp)) if os.path.exists(tp) else {}
        todo = [r for r in todo if tri.get(pid + ":" + r["key"], {}).get("class") == "GAP"]
    elif a.retest != ["all"]:
        todo = [r for r in todo if any(sel == r["key"] or sel in "%s:%d:%s @%d" % (r["file"], r["line"], r["desc"], r["col"]) for sel in a.retest)]
    exe = build_mutgen()
    w = Worker(pid, 90 + (os.getpid() % 9))
    outp = open(os.path.join(OUT, pid + ".retest.jsonl"), "a")
    try:
        w.setup()
        for r in todo:
            w.reset()
            rc, txt, _ = run([exe, "-file", os.path.join(REPO, r["file"]), "-apply", str(r["id"])]); assert rc == 0
            open(os.path.join(w.wt, r["file"]), "w").write(txt)
            res = w.check(a.timeout)
            oc = "detected" if (res["check_exit"] == 1 and res["violation"]) else ("detected-by-hang" if res["timed_out"] else ("survived" if res["check_exit"] == 0 else "tool-error"))
            rec = {"key": r["key"], "outcome": oc}; rec.update(res)
            outp.write(json.dumps(rec) + "\n"); outp.flush()
            print("%s:%d %s -> %s %s" % (r["file"], r["line"], r["desc"], oc, json.dumps(res.get("replay", {}))[:300]), flush=True)
    finally:
        w.teardown(); outp.close()
    return 0


def recheck(a):
    """--recheck [--jobs N] [--detected-sample K]: run ./check again (current check, current corpus) on every mutant recorded as
    survived and on a deterministic sample of K mutants recorded as detected; the new record replaces the old one
    (previous_outcome is kept). Used after ./check itself changed."""
    pid = a.pid
    meta, recs = load_results()[pid]
    surv = [r for r in recs if r["outcome"] in ("survived", "tool-error", "timeout-inconclusive") and r.get("check_version") != a.check_version]
    det = sorted((r for r in recs if r["outcome"] in ("detected", "detected-by-hang") and r.get("check_version") != a.check_version
                  and not r.get("previous_outcome")), key=lambda r: r["key"])
    random.Random("recheck/%s/%s" % (a.seed, pid)).shuffle(det)
    already = sum(1 for r in recs if r.get("check_version") == a.check_version and r.get("previous_outcome") in ("detected", "detected-by-hang"))
    det = det[:max(0, a.detected_sample - already)]
    # survivors whose triage says the property cannot observe them at all (other property's function) go last: when time runs
    # out (--deadline) they keep their earlier outcome and are counted as "not re-run"
    tp = os.path.join(ROOT, "tools", "mutsweep_triage.json")
    tri = json.load(open(tp)) if os.path.exists(tp) else {}
    surv.sort(key=lambda r: 1 if tri.get(pid + ":" + r["key"], {}).get("class") == "OUT-OF-DOMAIN" else 0)
    inscope = [r for r in surv if tri.get(pid + ":" + r["key"], {}).get("class") != "OUT-OF-DOMAIN"]
    todo = inscope + det + surv[len(inscope):]
    print("%s: recheck %d survivors + %d of the detected" % (pid, len(surv), len(det)), flush=True)
    if not todo:
        return 0
    exe = build_mutgen()
    if a.reverse:      # a second process working the same list from the other end (use a different --worker-base)
        todo.reverse()
    workers = [Worker(pid, a.worker_base + k) for k in range(a.jobs)]
    lock = threading.Lock()
    state = {"next": 0}
    fout = open(os.path.join(OUT, pid + ".jsonl"), "a")
    try:
        ths = [threading.Thread(target=w.setup) for w in workers]
        [t.start() for t in ths]; [t.join() for t in ths]
        b = workers[0].check(max(a.timeout, 1800))
        print("baseline: check exit=%s wall=%ss %s" % (b["check_exit"], b["check_wall_s"], b["summary"]), flush=True)
        if b["check_exit"] != 0:
            raise SystemExit("the check does not pass on the unchanged tree: %s" % json.dumps(b)[:1500])
        tmo = int(max(a.timeout, 600, 4 * b["check_wall_s"]))
        with lock:
            fout.write(json.dumps({"meta": True, "recheck": True, "pid": pid, "check_version": a.check_version, "repo_head": meta["repo_head"], "files": meta["files"],
                                   "sites": meta["sites"], "mutants": meta["mutants"], "seed": meta.get("seed"), "by_class": meta.get("by_class"),
                                   "baseline_check_wall_s": b["check_wall_s"], "timeout_s": tmo, "detected_sample": a.detected_sample}) + "\n"); fout.flush()

        def work(w):
            while True:
                with lock:
                    if state["next"] >= len(todo) or (a.deadline and time.strftime("%H:%M", time.gmtime()) >= a.deadline):
                        return
                    r = todo[state["next"]]; state["next"] += 1
                if a.reverse:   # skip what the other process has finished meanwhile
                    try:
                        if any(json.loads(l).get("key") == r["key"] and json.loads(l).get("check_version") == a.check_version
                               for l in open(os.path.join(OUT, pid + ".jsonl")) if r["key"] in l):
                            continue
                    except ValueError:
                        pass
                rec = {k: r[k] for k in ("key", "pid", "file", "id", "op", "desc", "line", "col", "func", "orig_line", "mut_line") if k in r}
                rec["previous_outcome"] = r["outcome"]; rec["check_version"] = a.check_version
                if "suite_s" in r:
                    rec["suite_s"] = r["suite_s"]
                try:
                    w.reset()
                    rc, txt, _ = run([exe, "-file", os.path.join(REPO, r["file"]), "-apply", str(r["id"])]); assert rc == 0, txt
                    open(os.path.join(w.wt, r["file"]), "w").write(txt)
                    res = w.check(tmo)
                    if res["timed_out"]:
                        # the machine is shared and at times heavily loaded: a timeout is only believed after a second run
                        # with three times the budget also runs out
                        res = w.check(3 * tmo)
                        res["retried_after_timeout_s"] = tmo
                    rec.update(res)
                    if res["timed_out"]:
                        rec["outcome"] = "detected-by-hang"
                    elif res["check_exit"] == 1 and res["violation"]:
                        rec["outcome"] = "detected"
                    elif res["check_exit"] == 0:
                        rec["outcome"] = "survived"
                    else:
                        rec["outcome"] = "tool-error"
                except Exception as e:
                    rec["outcome"] = "sweep-error"; rec["exception"] = repr(e)[:400]
                with lock:
                    fout.write(json.dumps(rec) + "\n"); fout.flush()
                print("[%s w%d] %s:%d %s %s: %s -> %s (%ss)" % (pid, w.k, r["file"], r["line"], r["op"], r["desc"], r["outcome"], rec["outcome"],
                                                              rec.get("check_wall_s")), flush=True)
        ths = [threading.Thread(target=work, args=(w,)) for w in workers]
        [t.start() for t in ths]; [t.join() for t in ths]
    finally:
        for w in workers:
            w.teardown()
        fout.close()
    return 0


def esc(s):
    return (s or "").replace("|", "\\|").replace("\n", " ")


def load_retests():
    rt = {}
    if os.path.isdir(OUT):
        for fn in os.listdir(OUT):
            if fn.endswith(".retest.jsonl"):
                for l in open(os.path.join(OUT, fn)):
                    j = json.loads(l)
                    rt[fn[:-13] + ":" + j["key"]] = j["outcome"]
    return rt


def report():
    res = load_results()
    retests = load_retests()
    tri_path = os.path.join(ROOT, "tools", "mutsweep_triage.json")
    triage = json.load(open(tri_path)) if os.path.exists(tri_path) else {}
    notes_path = os.path.join(ROOT, "docs", "mutation-sweep-notes.md")
    L = []
    L.append("# Automatic first-order mutation sweep\n")
    L.append("Generated by `tools/mutsweep.py --report` from `build/mutsweep/<PID>.jsonl` (one record per tested mutant) and the hand-written "
             "triage in `tools/mutsweep_triage.json`. Do not edit by hand; the triage notes at the end come from `docs/mutation-sweep-notes.md`.\n")
    L.append("Method: `tools/mutgen` (go/parser, one text edit per mutant) lists the sites in the non-test files the property is anchored in "
             "(`properties.jsonl: anchors.files`). Operators: `arith` (+ <-> -, | <-> ^, & <-> |, << <-> >>, * <-> +, the same for `op=`, ++ <-> --), "
             "`cmp` (< <-> <=, > <-> >=, == <-> !=), `lit` (integer literal c -> c+1, c-1, 0; array sizes skipped), `negcond` (if/for condition negated), "
             "`ifbody` (if body emptied), `retdel` (early return removed), `logic` (&& <-> ||), `stmtdel` (assignment / ++ / -- deleted), "
             "`argswap` (two call arguments whose declared parameter types are spelled the same), `narrow` (int32(x) -> int32(int16(x)), uint64(x) -> uint64(uint32(x)), ...). "
             "Each mutant is applied to a scratch worktree of /repo under /tmp; `go build ./...` must pass (else *stillborn*); the mutated file's "
             "package tests (`go test -vet=off -count=1 ./<pkg>/`, bmtree also with `-tags debug`) are run (*killed by the suite* when they fail); "
             "the others are judged by `VERIF_REPO=<worktree> VERIF_NO_ESCALATE=1 ./check PID --tier quick` (timeout per mutant: 300 s or 3x the time of the "
             "check on the unchanged tree). `VERIF_NO_ESCALATE=1` switches off the escalation of `./check` (a clean quick pass on a tree whose anchored "
             "files differ from the baseline is otherwise followed by a thorough-size generation run of up to 4 minutes): the sweep measures the plain "
             "quick pass, so a SURVIVOR here may still be caught by the escalated pass of a real run. Mutants are taken in a seeded "
             "deterministic order, operator classes interleaved, until the stated number has survived the suite; in the final state every mutant of "
             "every property was tested (tested = mutants generated).\n")
    L.append("## Summary\n")
    L.append("| property | files | sites | mutants generated | tested | stillborn | killed by the suite | survived the suite | detected by ./check | by hang | tool error / inconclusive | SURVIVORS | of those: equivalent / out-of-domain / GAP (closed by corpus) / untriaged |")
    L.append("|---|---|---|---|---|---|---|---|---|---|---|---|---|")
    all_surv = []

    def tclass(pid, r):
        return triage.get(pid + ":" + r["key"], {}).get("class", "untriaged")

    def is_closed(pid, r):
        return r["outcome"].startswith("detected") or retests.get(pid + ":" + r["key"], "").startswith("detected")
    for pid in sorted(res):
        meta, recs = res[pid]
        c = collections.Counter(r["outcome"] for r in recs)
        # a survivor of the sweep: survived the check, or was triaged as a GAP (it survived until its corpus line was added)
        surv = [r for r in recs if r["outcome"] == "survived" or (tclass(pid, r) == "GAP" and r["outcome"] not in ("stillborn", "suite-killed"))]
        gapdet = sum(1 for r in surv if r["outcome"] == "detected")
        gaphang = sum(1 for r in surv if r["outcome"] == "detected-by-hang")
        ss = len(recs) - c["stillborn"] - c["suite-killed"]
        tc = collections.Counter(tclass(pid, r) for r in surv)
        closed = sum(1 for r in surv if tclass(pid, r) == "GAP" and is_closed(pid, r))
        L.append("| %s | %d | %d | %d | %d | %d | %d | %d | %d | %d | %d | **%d** | %d / %d / %d (%d) / %d |" % (
            pid, len(meta["files"]) if meta else 0, sum(meta["sites"].values()) if meta else 0, meta["mutants"] if meta else 0, len(recs),
            c["stillborn"], c["suite-killed"], ss, c["detected"] - gapdet, c["detected-by-hang"] - gaphang,
            c["tool-error"] + c["timeout-inconclusive"] + c["sweep-error"], len(surv),
            tc["EQUIVALENT"], tc["OUT-OF-DOMAIN"], tc["GAP"], closed, tc["untriaged"]))
        all_surv.append((pid, surv))
    L.append("")
    L.append("Detection rate per operator class (detected by ./check incl. hang / survived the suite), all properties:\n")
    oc = collections.defaultdict(lambda: [0, 0])
    for pid in res:
        for r in res[pid][1]:
            if r["outcome"] in ("detected", "detected-by-hang", "survived"):
                oc[r["op"]][1] += 1
                if r["outcome"] != "survived" and tclass(pid, r) != "GAP":
                    oc[r["op"]][0] += 1
    L.append("| " + " | ".join(c for c in CLASSES if c in oc) + " |")
    L.append("|" + "---|" * len([c for c in CLASSES if c in oc]))
    L.append("| " + " | ".join("%d/%d" % tuple(oc[c]) for c in CLASSES if c in oc) + " |\n")
    # ---- the re-run with the changed check
    rr = []
    for pid in sorted(res):
        for r in res[pid][1]:
            if r.get("previous_outcome"):
                rr.append((pid, r))
    if rr:
        L.append("## Re-run with the changed ./check\n")
        L.append("The first complete pass used the check as of b-sweep's first merge of main; main's 7491ec0 then changed `./check` (per-tree work "
                 "directories, corpus replayed in a process of its own, fresh-process sample, pair re-run, escalation). Every mutant recorded as a "
                 "survivor and a deterministic sample of those recorded as detected were run again with the new check (`--recheck`, "
                 "`VERIF_NO_ESCALATE=1`, current corpus); the tables above show the NEW outcome. (The first pass already ran every worker from a private "
                 "copy of the checkout, so its verdicts were not affected by the shared build/<PID>/ directory; the re-run confirms that.)\n")
        L.append("| property | survivors re-run | still survive | now detected (GAP closed by its corpus line) | now detected (other) | detected re-run (sample) | still detected | now survive | survivors NOT re-run (pass-1 verdict kept) |")
        L.append("|---|---|---|---|---|---|---|---|---|")
        flips = []
        for pid in sorted(res):
            mine = [r for p_, r in rr if p_ == pid]
            if not mine:
                continue
            ps = [r for r in mine if r["previous_outcome"] in ("survived", "tool-error", "timeout-inconclusive")]
            pd = [r for r in mine if r["previous_outcome"] in ("detected", "detected-by-hang")]
            still = sum(1 for r in ps if r["outcome"] == "survived")
            gapc = sum(1 for r in ps if r["outcome"].startswith("detected") and tclass(pid, r) == "GAP")
            oth = [r for r in ps if r["outcome"] != "survived" and not (r["outcome"].startswith("detected") and tclass(pid, r) == "GAP")]
            lost = [r for r in pd if not r["outcome"].startswith("detected")]
            notrerun = sum(1 for r in res[pid][1] if r["outcome"] == "survived" and not r.get("previous_outcome"))
            L.append("| %s | %d | %d | %d | %d | %d | %d | %d | %d |" % (pid, len(ps), still, gapc, len(oth), len(pd), len(pd) - len(lost), len(lost), notrerun))
            flips += [(pid, r) for r in oth + lost]
        L.append("")
        if flips:
            L.append("Mutants whose verdict changed (other than GAPs closed by their corpus line):\n")
            L.append("| property | file:line | operator | mutated line | before | now | replay kind | earlier triage |")
            L.append("|---|---|---|---|---|---|---|---|")
            for pid, r in flips:
                L.append("| %s | %s:%d | %s: %s | `%s` | %s | %s | %s | %s |" % (pid, r["file"], r["line"], r["op"], esc(r["desc"]), esc(r["mut_line"]), r["previous_outcome"],
                                                                          r["outcome"], (r.get("replay") or {}).get("kind", ""), tclass(pid, r)))
            L.append("")
    L.append("## Survivors (passed the package's tests AND `./check PID --tier quick`)\n")
    for pid, surv in all_surv:
        if not surv:
            continue
        L.append("### %s\n" % pid)
        L.append("| file:line | func | operator | original line | mutated line | triage | why / distinguishing input |")
        L.append("|---|---|---|---|---|---|---|")
        for r in sorted(surv, key=lambda r: (r["file"], r["line"], r["col"], r["desc"])):
            t = triage.get(pid + ":" + r["key"], {})
            cls = t.get("class", "untriaged") + (" (closed by corpus: now detected)" if t.get("class") == "GAP" and is_closed(pid, r) else "")
            L.append("| %s:%d | %s | %s: %s | `%s` | `%s` | %s | %s |" % (r["file"], r["line"], esc(r["func"]), r["op"], esc(r["desc"]),
                                                                      esc(r["orig_line"]), esc(r["mut_line"]), cls, esc(t.get("why", ""))))
        L.append("")
    other = []
    for pid in sorted(res):
        for r in res[pid][1]:
            if r["outcome"] in ("tool-error", "timeout-inconclusive", "sweep-error"):
                other.append((pid, r))
    if other:
        L.append("## Tool errors / inconclusive runs\n")
        L.append("| property | file:line | operator | mutated line | outcome | detail |")
        L.append("|---|---|---|---|---|---|")
        for pid, r in other:
            L.append("| %s | %s:%d | %s: %s | `%s` | %s | %s |" % (pid, r["file"], r["line"], r["op"], esc(r["desc"]), esc(r["mut_line"]), r["outcome"],
                                                                esc((r.get("error") or r.get("exception") or "")[:300])))
        L.append("")
    if os.path.exists(notes_path):
        L.append(open(notes_path).read())
    open(os.path.join(ROOT, "docs", "mutation-sweep.md"), "w").write("\n".join(L) + "\n")
    print("wrote docs/mutation-sweep.md")
    return 0


def main():
    ap = argparse.ArgumentParser()
    ap.add_argument("pid", nargs="?")
    ap.add_argument("--jobs", type=int, default=4)
    ap.add_argument("--max-survivors", type=int, default=40)
    ap.add_argument("--seed", type=int, default=1)
    ap.add_argument("--timeout", type=int, default=300)
    ap.add_argument("--fresh", action="store_true")
    ap.add_argument("--only-file")
    ap.add_argument("--report", action="store_true")
    ap.add_argument("--recheck", action="store_true", help="re-run ./check on all survivors and a sample of the detected mutants")
    ap.add_argument("--detected-sample", type=int, default=12)
    ap.add_argument("--check-version", default="v2")
    ap.add_argument("--reverse", action="store_true")
    ap.add_argument("--worker-base", type=int, default=60)
    ap.add_argument("--deadline", help="HH:MM (UTC, same day): stop handing out mutants at that time")
    ap.add_argument("--baseline", action="store_true", help="run ./check PID on an unchanged scratch tree with the current corpus")
    ap.add_argument("--probe", help="mutant selector 'file:line:desc-substring'")
    ap.add_argument("--case", action="append", default=[], help="op<TAB>args (literal \\t accepted)")
    ap.add_argument("--case-file", help="file of op<TAB>args lines (for cases too long for the command line)")
    ap.add_argument("--tags", default="verif")
    ap.add_argument("--triage", nargs=3, metavar=("SEL", "CLASS", "WHY"))
    ap.add_argument("--retest", nargs="*", help="'all', 'gaps' (survivors triaged GAP) or mutant selectors")
    a = ap.parse_args()
    if a.report:
        return report()
    if not a.pid:
        ap.error("PID or --report")
    if a.triage:
        # --triage SEL CLASS WHY : record a hand-made decision about one survivor in tools/mutsweep_triage.json
        sel, cls, why = a.triage
        assert cls in ("EQUIVALENT", "OUT-OF-DOMAIN", "GAP"), cls
        hits = [r for r in find_record(a.pid, sel) if r["outcome"] == "survived"]
        if len(hits) != 1:
            print("selector matches %d survivors:" % len(hits)); [print("  %s:%d:%s @%d" % (r["file"], r["line"], r["desc"], r["col"])) for r in hits]; return 2
        tp = os.path.join(ROOT, "tools", "mutsweep_triage.json")
        t = json.load(open(tp)) if os.path.exists(tp) else {}
        r = hits[0]
        t[a.pid + ":" + r["key"]] = {"class": cls, "why": why, "at": "%s:%d" % (r["file"], r["line"]), "mut_line": r["mut_line"]}
        json.dump(t, open(tp, "w"), indent=1, sort_keys=True)
        print("ok", a.pid, r["key"], cls)
        return 0
    if a.recheck:
        a.jobs = max(1, min(a.jobs, 6))
        return recheck(a)
    if a.baseline:
        # ./check PID on an UNCHANGED scratch tree with the current corpus (must exit 0): run after corpus lines were added
        w = Worker(a.pid, 80 + (os.getpid() % 9))
        try:
            w.setup()
            b = w.check(max(a.timeout, 1800))
            print("baseline %s: exit=%s wall=%ss %s %s" % (a.pid, b["check_exit"], b["check_wall_s"], b["summary"], b.get("violation") or b.get("error") or ""))
        finally:
            w.teardown()
        return 0 if b["check_exit"] == 0 else 1
    if a.probe:
        return probe(a)
    if a.retest is not None:
        a.retest = a.retest or ["all"]
        return retest(a)
    a.jobs = max(1, min(a.jobs, 6))
    return sweep(a)


if __name__ == "__main__":
    sys.exit(main())
