#!/usr/bin/env python3
"""Self-test of the translator tie T01 (docs/translator.md): apply small mutations and behaviour-preserving rewrites
to translated functions in scratch copies of /repo under /tmp, run `VERIF_REPO=<copy> ./check T01` on each and
tabulate what is reported.  Writes docs/selftest-T01.md.   usage: tools/trans_selftest.py [name ...]"""
import os, sys, shutil, subprocess, json, re, time

ROOT = os.path.dirname(os.path.dirname(os.path.abspath(__file__)))
SCR = "/tmp/trans-st"

# (name, kind, file, old, new, what, would a test input plausibly hit it)
CASES = [
 ("m1", "mutation", "bmtree/pathlen.go", "bits.OnesCount32(uint32(p))", "bits.OnesCount32(uint32(p) & 0x7fffffff)",
  "PathLen ignores mask bit 31", "no: a path mask has at most 31 bits (height <= 30), bit 31 is never set"),
 ("m2", "mutation", "bitmap/get.go", "func SafeGet(bm []uint64, i int32) uint64 {\n\twordI := i >> 6\n\tbitI := i & 63\n\tif wordI < 0 || wordI >= int32(len(bm)) {",
  "func SafeGet(bm []uint64, i int32) uint64 {\n\twordI := i >> 6\n\tbitI := i & 63\n\tif wordI < 0 || wordI > int32(len(bm)) {",
  "SafeGet: >= became > (panics instead of returning 0 for the first word past the end)", "yes (boundary case)"),
 ("m3", "mutation", "bmtree/index.go", "\t\treturn int32(path >> 32)\n\n\t} else {\n\n\t\tidx := shiftMulti(sz, path>>32, uint64(height))",
  "\t\treturn int32(path>>32) & 0x3fffffff\n\n\t} else {\n\n\t\tidx := shiftMulti(sz, path>>32, uint64(height))",
  "PathToIndex, leaf-only branch: result masked to 30 bits", "no: searching bits >= 2^30 need height >= 31, outside the domain"),
 ("m4", "mutation", "iohelper/iohelper.go", "\tcase io.SeekCurrent:\n\t\toffset += s.off\n",
  "\tcase io.SeekCurrent:\n\t\toffset += s.off\n\t\tif offset == 0x7ffffffffffffff0 {\n\t\t\toffset++\n\t\t}\n",
  "Seek(SeekCurrent): one magic target offset is bumped by 1 (changed constant behind a rare guard)", "no: one value out of 2^64"),
 ("m5", "mutation", "bitstr/bitstr.go", "return int32(l)<<3 - 16 + int32(bits.OnesCount8(bs[l-1]))", "return int32(l&0xfffffff)<<3 - 16 + int32(bits.OnesCount8(bs[l-1]))",
  "bitstr.Len: the length is cut to 28 bits before the shift", "no: differs only for strings of >= 2^28 bytes"),
 ("m6", "mutation", "bitmap/get.go", "return (bm[i>>6] >> uint(i&63)) & Mask[w]", "return (bm[i>>6] >> uint(i&63)) & Mask[w&127]",
  "Getw: table index masked (a width > 127 or < 0 no longer panics)", "no: widths are 1..64 on the domain"),
 ("m7", "mutation", "bitmap/rank.go", "\tn := rindex[(i+64)>>7]\n", "\tn := rindex[(i+63)>>7]\n",
  "Rank128: rounding constant 64 -> 63 (wrong index entry for i = 64 mod 128)", "yes"),
 ("m8", "mutation", "bmtree/newpath.go", "return (searchingBits << 32) |", "return ((searchingBits & 0x7fffffff) << 32) |",
  "NewPath: searching bit 31 is dropped", "no: bit 31 of the searching bits needs height 32, outside the domain"),
 ("m9", "mutation", "bmtree/partial_tree.go", "\t\trst += (a >> shift)\n", "\t\trst += (a >> shift) &^ (1 << 63)\n",
  "shiftMulti (loop body): bit 63 of the shifted word is dropped", "no: needs shift = 0 and a negative bitmapSize"),
 ("m10", "mutation", "bmtree/index.go", "\t\t\tindex--\n", "\t\t\tindex -= 1 + index>>30\n",
  "IndexToPath (loop body): left descent subtracts 2 for an index >= 2^30", "hardly: only in trees of height 30"),
 ("m11", "mutation", "bitmap/next.go", "\t\tfor ; i < end; i += 64 {\n", "\t\tfor ; i < end; i += 64 + (i>>30)<<6 {\n",
  "NextOne (loop step): the stride doubles for positions >= 2^30", "no: needs a bitmap of more than 2^30 bits"),
 ("m12", "mutation", "bitmap/select.go", "\tfor wordI := a>>6 + 1; wordI < l; wordI++ {\n", "\tfor wordI := a>>6 + 1 + a>>30; wordI < l; wordI++ {\n",
  "Select32 (second loop): the scan for the next 1-bit starts one word late for positions >= 2^30", "no: needs a bitmap of more than 2^30 bits"),
 ("r8", "rewrite", "bmtree/partial_tree.go", "\tfor b != 0 {\n", "\tfor {\n\t\tif b == 0 {\n\t\t\tbreak\n\t\t}\n",
  "shiftMulti: loop condition moved into the body as if/break", "-"),
 ("x1", "structural", "bmtree/pathlen.go", "\treturn int32(bits.OnesCount32(uint32(p)))\n", "\tn := int32(0)\n\tfor q := uint32(p); q != 0; q &= q - 1 {\n\t\tn++\n\t}\n\treturn n + int32(bits.OnesCount32(0))\n",
  "PathLen rewritten as a loop (same value): translated as a fuel loop now, the proof expects straight-line code", "-"),
 ("x2", "structural", "bitmap/get.go", "func Get1(bm []uint64, i int32) uint64 {", "func Get1(bm []uint64, i int32) uint64 {\n\tvar undefinedType notAType\n",
  "bitmap/get.go no longer type-checks", "-"),
 ("x3", "structural", "bitmap/get.go", "func Get1(bm []uint64, i int32) uint64 {", "func Get1Renamed(bm []uint64, i int32) uint64 {",
  "bitmap.Get1 renamed (the listed function does not exist any more)", "-"),
 ("r1", "rewrite", "bmtree/newpath.go", "return (searchingBits << 32) | (bitmap.Mask[length] << uint(height-length))",
  "return (bitmap.Mask[length] << uint(height-length)) | (searchingBits << 32)",
  "NewPath: operands of the commutative | reordered", "-"),
 ("r2", "rewrite", "bitmap/get.go", "func SafeGet(bm []uint64, i int32) uint64 {\n\twordI := i >> 6\n\tbitI := i & 63\n\tif wordI < 0 || wordI >= int32(len(bm)) {\n\t\treturn 0\n\t}\n\treturn (bm[wordI] & Bit[bitI])",
  "func SafeGet(bm []uint64, i int32) uint64 {\n\twi := i >> 6\n\tbitI := i & 63\n\tif wi < 0 || wi >= int32(len(bm)) {\n\t\treturn 0\n\t}\n\treturn (bm[wi] & Bit[bitI])",
  "SafeGet: local wordI renamed to wi", "-"),
 ("r3", "rewrite", "bitmap/rank.go", "\tc1 := n + int32(bits.OnesCount64(w&Mask[j]))\n\treturn c1, int32(w>>uint(j)) & 1\n}",
  "\tmasked := w & Mask[j]\n\tcnt := bits.OnesCount64(masked)\n\tc1 := n + int32(cnt)\n\treturn c1, int32(w>>uint(j)) & 1\n}",
  "Rank64: two temporaries extracted", "-"),
 ("r6", "rewrite", "bitstr/bitstr.go", "return int32(l)<<3 - 16 + int32(bits.OnesCount8(bs[l-1]))", "return int32(l<<3) - 16 + int32(bits.OnesCount8(bs[l-1]))",
  "bitstr.Len: shift in int, then convert (int32(l<<3) = int32(l)<<3 for every l: the wrap commutes with the shift)", "-"),
 ("r7", "rewrite", "bmtree/newpath.go", "(bitmap.Mask[length] << uint(height-length))", "(bitmap.Mask[length] << (uint(height) - uint(length)))",
  "NewPath: shift count subtracted in uint instead of int32 (same result whenever Mask[length] does not panic: both counts are >= 64 when they differ)", "-"),
 ("r4", "rewrite", "bmtree/pathlen.go", "func PathLen(p uint64) int32 {\n\treturn int32(bits.OnesCount32(uint32(p)))",
  "func PathLen(path uint64) int32 {\n\treturn int32(bits.OnesCount32(uint32(path)))",
  "PathLen: parameter renamed", "-"),
 ("r5", "rewrite", "bmtree/height.go", "return int32(31 - bits.LeadingZeros32(uint32(bitmapSize)))", "return int32(bits.Len32(uint32(bitmapSize)) - 1)",
  "Height: 31-LeadingZeros32 rewritten as Len32-1 (another library function, same value)", "-"),
]


def run(case):
    name, kind, f, old, new, what, hit = case
    d = os.path.join(SCR, name)
    shutil.rmtree(d, ignore_errors=True)
    os.makedirs(SCR, exist_ok=True)
    shutil.copytree("/repo", d, symlinks=True)
    p = os.path.join(d, f)
    s = open(p).read()
    if s.count(old) != 1:
        return {"name": name, "error": "pattern found %d times in %s" % (s.count(old), f)}
    open(p, "w").write(s.replace(old, new))
    # the mutant must still build and pass `go vet`-level type checking
    env = dict(os.environ, GOFLAGS="-mod=mod", GOPROXY="off", GOSUMDB="off", GOTOOLCHAIN="local", VERIF_REPO=d)
    b = subprocess.run(["go", "build", "./..."], cwd=d, env=env, stdout=subprocess.PIPE, stderr=subprocess.STDOUT, text=True)
    t0 = time.time()
    c = subprocess.run([os.path.join(ROOT, "check"), "T01"], cwd=ROOT, env=env, stdout=subprocess.PIPE, stderr=subprocess.STDOUT, text=True)
    out = c.stdout
    res = {"name": name, "kind": kind, "file": f, "what": what, "hit": hit, "go_build": b.returncode, "rc": c.returncode,
           "wall": round(time.time() - t0, 1), "line": "", "functions": [], "blocked": [], "still": "", "out": out[-800:]}
    m = re.search(r"^VIOLATION .*$", out, re.M)
    if m:
        res["line"] = m.group(0)
        rp = re.search(r"replay=(\S+)", m.group(0)).group(1)
        try:
            broken = json.load(open(os.path.join(ROOT, rp)))["broken"]
        except Exception:
            broken = ""
        res["functions"] = re.findall(r"EQUALITY NO LONGER CHECKS: (\S+)", broken) + \
            ["%s (no longer translatable)" % x for x in re.findall(r"NO LONGER TRANSLATABLE: (\S+?):", broken)]
        res["blocked"] = re.findall(r"NOT ATTEMPTED \(uses a failed equality\): ([\w.]+)", broken)
        res["has_diff"] = "+++ generated" in broken
        res["broken"] = broken
    rep = os.path.join(ROOT, "build", "trans", "report-scratch.txt")
    if os.path.exists(rep):
        r = open(rep).read()
        m2 = re.search(r"differs from the baseline for: (.*)", r)
        res["changed"] = m2.group(1) if m2 else ""
        m3 = re.search(r"changed but still proved equal[^:]*: (.*)", r)
        res["still"] = m3.group(1) if m3 else ""
    shutil.rmtree(d, ignore_errors=True)
    return res


def main():
    want = set(sys.argv[1:])
    rows = []
    for c in CASES:
        if want and c[0] not in want:
            continue
        r = run(c)
        rows.append(r)
        print(json.dumps({k: v for k, v in r.items() if k not in ("out", "broken")}), flush=True)
    if want:
        for r in rows:
            print(r.get("broken", r.get("out", "")))
        return
    with open(os.path.join(ROOT, "docs", "selftest-T01.md"), "w") as f:
        f.write("# Self-test of T01 (generated definition = model)\n\n")
        f.write("Produced by `tools/trans_selftest.py`: each row is a scratch copy of /repo under /tmp with one edit, checked with "
                "`VERIF_REPO=<copy> ./check T01`.\n`changed` = functions whose generated definition differs from "
                "`coq/trans_baseline.json`; `reported` = functions named in the replay as `EQUALITY NO LONGER CHECKS`.\n\n")
        f.write("| id | kind | edit | would a test input hit it | exit | generated definition changed for | reported (equality fails) | not attempted | changed but still proved |\n")
        f.write("|---|---|---|---|---|---|---|---|---|\n")
        for r in rows:
            if "error" in r:
                f.write("| %s | ERROR %s |\n" % (r["name"], r["error"])); continue
            f.write("| %s | %s | `%s`: %s | %s | %d%s | %s | %s | %s | %s |\n" % (
                r["name"], r["kind"], r["file"], r["what"].replace("|", "\\|"), r["hit"], r["rc"],
                " `no-failing-input-found`" if "no-failing-input-found" in r["line"] else "",
                r.get("changed", ""), ", ".join(r["functions"]) or "-", ", ".join(r["blocked"]) or "-", r.get("still") or "-"))
        mut = [r for r in rows if r.get("kind") == "mutation"]
        rew = [r for r in rows if r.get("kind") == "rewrite"]
        stc = [r for r in rows if r.get("kind") == "structural"]
        f.write("\n## Summary\n\n")
        f.write("* mutations: %d of %d reported (exit 1, `VIOLATION property=T01 ... no-failing-input-found`, the replay names the function and "
                "shows the diff of the generated definition); %d of them are changes no test input would plausibly hit.\n" % (
                    sum(1 for r in mut if r["rc"] == 1 and r["functions"]), len(mut), sum(1 for r in mut if r["hit"].startswith(("no", "hardly")))))
        f.write("* structural changes (loop introduced where the proof expects none, tree that does not type-check, listed function removed): "
                "%d of %d reported.\n" % (sum(1 for r in stc if r["rc"] == 1), len(stc)))
        f.write("* behaviour-preserving rewrites: %d of %d leave the generated definition unchanged (SSA normalises them away: %s); "
                "%d change it but the equality proof still goes through (%s); %d break the equality proof although every property still "
                "holds (%s) - the false alarms of this tie, reported by `./check T01` only.\n" % (
                    sum(1 for r in rew if r["rc"] == 0 and r.get("changed") == "none"), len(rew),
                    ", ".join(r["name"] for r in rew if r["rc"] == 0 and r.get("changed") == "none"),
                    sum(1 for r in rew if r["rc"] == 0 and r.get("changed") != "none"),
                    ", ".join(r["name"] for r in rew if r["rc"] == 0 and r.get("changed") != "none"),
                    sum(1 for r in rew if r["rc"] == 1), ", ".join(r["name"] for r in rew if r["rc"] == 1)))
        f.write("\n## Replay texts (the `broken` field of the replay file: function, Coq error, diff of the generated definition)\n\n")
        for r in rows:
            if r.get("broken"):
                f.write("### %s\n\n```\n%s\n```\n\n" % (r["name"], r["broken"][:2200]))


if __name__ == "__main__":
    main()
