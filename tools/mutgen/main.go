// mutgen lists first-order mutation sites of one Go source file and emits mutated file texts.
//
//	mutgen -file path/to/x.go -list            JSON array of sites (id, op, line, col, func, orig/mutated source line ...)
//	mutgen -file path/to/x.go -apply ID        the mutated file text on stdout
//
// Sites are found on the syntax tree produced by go/parser (no regexes on source); every mutant is ONE text edit
// (byte range -> replacement) derived from token positions, so line numbers are preserved and the mutated line
// can be shown next to the original one. Types are not checked here: mutants that do not compile are discarded by
// the caller ("stillborn"). The operator set is documented in docs/mutation-sweep.md.
package main

import (
	"bytes"
	"encoding/json"
	"flag"
	"fmt"
	"go/ast"
	"go/parser"
	"go/printer"
	"go/token"
	"os"
	"path/filepath"
	"strconv"
	"strings"
)

type Site struct {
	ID       int    `json:"id"`
	Op       string `json:"op"`   // operator class, e.g. "arith", "cmp", "lit", "negcond", "ifbody", "retdel", "logic", "stmtdel", "argswap", "narrow"
	Desc     string `json:"desc"` // e.g. "+ -> -"
	Line     int    `json:"line"`
	Col      int    `json:"col"`
	Func     string `json:"func"`
	Start    int    `json:"start"`
	End      int    `json:"end"`
	Repl     string `json:"repl"`
	OrigLine string `json:"orig_line"`
	MutLine  string `json:"mut_line"`
}

var (
	fset  = token.NewFileSet()
	src   []byte
	tfile *token.File
	sites []Site
	funcs []funcRange
)

type funcRange struct {
	name     string
	from, to int
}

func off(p token.Pos) int { return tfile.Offset(p) }

func text(n ast.Node) string { return string(src[off(n.Pos()):off(n.End())]) }

func funcAt(o int) string {
	name := ""
	for _, f := range funcs {
		if f.from <= o && o < f.to {
			name = f.name
		}
	}
	return name
}

func add(op, desc string, start, end int, repl string) {
	if string(src[start:end]) == repl {
		return
	}
	p := tfile.Position(tfile.Pos(start))
	sites = append(sites, Site{Op: op, Desc: desc, Line: p.Line, Col: p.Column, Func: funcAt(start), Start: start, End: end, Repl: repl})
}

// blank keeps the newlines of a deleted region so that line numbers do not move.
func blank(s string) string {
	var b strings.Builder
	for _, c := range s {
		if c == '\n' {
			b.WriteByte('\n')
		}
	}
	if b.Len() == 0 {
		return ""
	}
	return b.String()
}

var binSwap = map[token.Token][]token.Token{
	token.ADD: {token.SUB, token.MUL},
	token.SUB: {token.ADD},
	token.MUL: {token.ADD},
	token.OR:  {token.XOR, token.AND},
	token.XOR: {token.OR},
	token.AND: {token.OR},
	token.SHL: {token.SHR},
	token.SHR: {token.SHL},
}
var asgSwap = map[token.Token][]token.Token{
	token.ADD_ASSIGN: {token.SUB_ASSIGN, token.MUL_ASSIGN},
	token.SUB_ASSIGN: {token.ADD_ASSIGN},
	token.MUL_ASSIGN: {token.ADD_ASSIGN},
	token.OR_ASSIGN:  {token.XOR_ASSIGN, token.AND_ASSIGN},
	token.XOR_ASSIGN: {token.OR_ASSIGN},
	token.AND_ASSIGN: {token.OR_ASSIGN},
	token.SHL_ASSIGN: {token.SHR_ASSIGN},
	token.SHR_ASSIGN: {token.SHL_ASSIGN},
}
var cmpSwap = map[token.Token]token.Token{
	token.LSS: token.LEQ, token.LEQ: token.LSS,
	token.GTR: token.GEQ, token.GEQ: token.GTR,
	token.EQL: token.NEQ, token.NEQ: token.EQL,
}
var logicSwap = map[token.Token]token.Token{token.LAND: token.LOR, token.LOR: token.LAND}

var narrow = map[string]string{
	"int64": "int32", "uint64": "uint32", "int32": "int16", "uint32": "uint16",
	"int": "int32", "uint": "uint32", "int16": "int8", "uint16": "uint8",
}

func isStringLit(e ast.Expr) bool {
	b, ok := e.(*ast.BasicLit)
	return ok && (b.Kind == token.STRING || b.Kind == token.CHAR && false)
}

// ---------------------------------------------------------------- signatures for the argument swap

type sigTable map[string][]string // name -> flat parameter type strings; nil value = ambiguous / variadic

func typeStr(e ast.Expr) string {
	var b bytes.Buffer
	printer.Fprint(&b, token.NewFileSet(), e)
	return b.String()
}

func addSigs(tab sigTable, f *ast.File) {
	for _, d := range f.Decls {
		fd, ok := d.(*ast.FuncDecl)
		if !ok {
			continue
		}
		var ps []string
		variadic := false
		for _, fl := range fd.Type.Params.List {
			if _, ok := fl.Type.(*ast.Ellipsis); ok {
				variadic = true
			}
			n := len(fl.Names)
			if n == 0 {
				n = 1
			}
			for i := 0; i < n; i++ {
				ps = append(ps, typeStr(fl.Type))
			}
		}
		if variadic {
			ps = nil
		}
		if ps == nil {
			ps = []string{}
		}
		if old, dup := tab[fd.Name.Name]; dup {
			if strings.Join(old, ",") != strings.Join(ps, ",") {
				tab[fd.Name.Name] = []string{}
			}
			continue
		}
		tab[fd.Name.Name] = ps
	}
}

func dirSigs(dir string) sigTable {
	tab := sigTable{}
	fs2 := token.NewFileSet()
	pkgs, err := parser.ParseDir(fs2, dir, func(fi os.FileInfo) bool { return !strings.HasSuffix(fi.Name(), "_test.go") }, 0)
	if err != nil {
		return tab
	}
	for _, p := range pkgs {
		// deterministic order is irrelevant: duplicates with different signatures become ambiguous either way
		for _, f := range p.Files {
			addSigs(tab, f)
		}
	}
	return tab
}

// a few standard functions whose two arguments have the same type
var stdSigs = map[string][]string{
	"copy":              {"[]T", "[]T"},
	"bytes.Compare":     {"[]byte", "[]byte"},
	"bytes.Equal":       {"[]byte", "[]byte"},
	"bytes.HasPrefix":   {"[]byte", "[]byte"},
	"strings.Compare":   {"string", "string"},
	"strings.HasPrefix": {"string", "string"},
}

func moduleRoot(dir string) (root, modpath string) {
	d := dir
	for {
		b, err := os.ReadFile(filepath.Join(d, "go.mod"))
		if err == nil {
			for _, l := range strings.Split(string(b), "\n") {
				l = strings.TrimSpace(l)
				if strings.HasPrefix(l, "module ") {
					return d, strings.TrimSpace(l[7:])
				}
			}
			return d, ""
		}
		nd := filepath.Dir(d)
		if nd == d {
			return "", ""
		}
		d = nd
	}
}

// ---------------------------------------------------------------- site collection

func collect(f *ast.File, path string) {
	dir := filepath.Dir(path)
	local := dirSigs(dir)
	root, modpath := moduleRoot(dir)
	imported := map[string]sigTable{} // import name -> signatures (in-module packages only)
	for _, im := range f.Imports {
		p, _ := strconv.Unquote(im.Path.Value)
		if modpath == "" || !strings.HasPrefix(p, modpath+"/") {
			continue
		}
		name := filepath.Base(p)
		if im.Name != nil {
			name = im.Name.Name
		}
		imported[name] = dirSigs(filepath.Join(root, strings.TrimPrefix(p, modpath+"/")))
	}

	for _, d := range f.Decls {
		if fd, ok := d.(*ast.FuncDecl); ok && fd.Body != nil {
			name := fd.Name.Name
			if fd.Recv != nil && len(fd.Recv.List) > 0 {
				name = "(" + typeStr(fd.Recv.List[0].Type) + ")." + name
			}
			funcs = append(funcs, funcRange{name, off(fd.Pos()), off(fd.End())})
		}
	}

	skipLit := map[*ast.BasicLit]bool{}    // array sizes, import paths
	shiftCount := map[*ast.BasicLit]bool{} // right operand of a shift: must stay >= 0
	lastStmt := map[ast.Stmt]bool{}        // final statement of a function body (its return cannot be removed)
	soleRet := map[ast.Stmt]bool{}         // a return that is the only statement of an if body (covered by "ifbody")

	ast.Inspect(f, func(n ast.Node) bool {
		switch x := n.(type) {
		case *ast.ArrayType:
			if l, ok := x.Len.(*ast.BasicLit); ok {
				skipLit[l] = true
			}
		case *ast.BinaryExpr:
			if x.Op == token.SHL || x.Op == token.SHR {
				if l, ok := x.Y.(*ast.BasicLit); ok {
					shiftCount[l] = true
				}
			}
		case *ast.AssignStmt:
			if (x.Tok == token.SHL_ASSIGN || x.Tok == token.SHR_ASSIGN) && len(x.Rhs) == 1 {
				if l, ok := x.Rhs[0].(*ast.BasicLit); ok {
					shiftCount[l] = true
				}
			}
		case *ast.FuncDecl:
			if x.Body != nil && len(x.Body.List) > 0 {
				lastStmt[x.Body.List[len(x.Body.List)-1]] = true
			}
		case *ast.FuncLit:
			if len(x.Body.List) > 0 {
				lastStmt[x.Body.List[len(x.Body.List)-1]] = true
			}
		case *ast.IfStmt:
			if len(x.Body.List) == 1 {
				if r, ok := x.Body.List[0].(*ast.ReturnStmt); ok {
					soleRet[r] = true
				}
			}
		}
		return true
	})

	ast.Inspect(f, func(n ast.Node) bool {
		switch x := n.(type) {
		case *ast.ImportSpec:
			return false
		case *ast.BinaryExpr:
			if isStringLit(x.X) || isStringLit(x.Y) {
				break
			}
			o := off(x.OpPos)
			e := o + len(x.Op.String())
			for _, t := range binSwap[x.Op] {
				add("arith", x.Op.String()+" -> "+t.String(), o, e, t.String())
			}
			if t, ok := cmpSwap[x.Op]; ok {
				add("cmp", x.Op.String()+" -> "+t.String(), o, e, t.String())
			}
			if t, ok := logicSwap[x.Op]; ok {
				add("logic", x.Op.String()+" -> "+t.String(), o, e, t.String())
			}
		case *ast.AssignStmt:
			o := off(x.TokPos)
			e := o + len(x.Tok.String())
			for _, t := range asgSwap[x.Tok] {
				add("arith", x.Tok.String()+" -> "+t.String(), o, e, t.String())
			}
			if x.Tok != token.DEFINE {
				add("stmtdel", "delete assignment", off(x.Pos()), off(x.End()), blank(text(x)))
			}
		case *ast.IncDecStmt:
			add("stmtdel", "delete "+x.Tok.String(), off(x.Pos()), off(x.End()), blank(text(x)))
			if x.Tok == token.INC {
				add("arith", "++ -> --", off(x.TokPos), off(x.TokPos)+2, "--")
			} else {
				add("arith", "-- -> ++", off(x.TokPos), off(x.TokPos)+2, "++")
			}
		case *ast.BasicLit:
			if x.Kind != token.INT || skipLit[x] {
				break
			}
			lit := strings.ReplaceAll(x.Value, "_", "")
			v, err := strconv.ParseUint(lit, 0, 64)
			if err != nil {
				break
			}
			hex := strings.HasPrefix(lit, "0x") || strings.HasPrefix(lit, "0X")
			fm := func(u uint64) string {
				if hex {
					return fmt.Sprintf("0x%x", u)
				}
				return strconv.FormatUint(u, 10)
			}
			o, e := off(x.Pos()), off(x.End())
			if v != ^uint64(0) {
				add("lit", x.Value+" -> "+fm(v+1), o, e, fm(v+1))
			}
			if v > 0 {
				add("lit", x.Value+" -> "+fm(v-1), o, e, fm(v-1))
				if v > 1 {
					add("lit", x.Value+" -> 0", o, e, "0")
				}
			} else if !shiftCount[x] {
				add("lit", x.Value+" -> -1", o, e, "(-1)")
			}
		case *ast.IfStmt:
			add("negcond", "negate if condition", off(x.Cond.Pos()), off(x.Cond.End()), "!("+text(x.Cond)+")")
			if len(x.Body.List) > 0 {
				o, e := off(x.Body.Lbrace)+1, off(x.Body.Rbrace)
				add("ifbody", "remove if body", o, e, blank(string(src[o:e])))
			}
		case *ast.ForStmt:
			if x.Cond != nil {
				add("negcond", "negate for condition", off(x.Cond.Pos()), off(x.Cond.End()), "!("+text(x.Cond)+")")
			}
		case *ast.ReturnStmt:
			if !lastStmt[x] && !soleRet[x] {
				add("retdel", "remove early return", off(x.Pos()), off(x.End()), blank(text(x)))
			}
		case *ast.CallExpr:
			if x.Ellipsis != token.NoPos {
				break
			}
			// narrowing conversion
			if id, ok := x.Fun.(*ast.Ident); ok && len(x.Args) == 1 {
				if nt, ok := narrow[id.Name]; ok {
					if _, lit := x.Args[0].(*ast.BasicLit); !lit {
						a := x.Args[0]
						add("narrow", id.Name+"(x) -> "+id.Name+"("+nt+"(x))", off(a.Pos()), off(a.End()), nt+"("+text(a)+")")
					}
				}
			}
			// argument swap
			var ps []string
			switch fn := x.Fun.(type) {
			case *ast.Ident:
				if s, ok := local[fn.Name]; ok {
					ps = s
				} else if s, ok := stdSigs[fn.Name]; ok {
					ps = s
				}
			case *ast.SelectorExpr:
				if pk, ok := fn.X.(*ast.Ident); ok {
					if tab, ok := imported[pk.Name]; ok {
						ps = tab[fn.Sel.Name]
						break
					}
					if s, ok := stdSigs[pk.Name+"."+fn.Sel.Name]; ok {
						ps = s
						break
					}
				}
				ps = local[fn.Sel.Name] // method of a type of this package (by name; ambiguous names are dropped)
			}
			if len(ps) == len(x.Args) && len(ps) >= 2 {
				for i := 0; i < len(ps); i++ {
					for j := i + 1; j < len(ps); j++ {
						if ps[i] != ps[j] || text(x.Args[i]) == text(x.Args[j]) {
							continue
						}
						a, b := x.Args[i], x.Args[j]
						mid := string(src[off(a.End()):off(b.Pos())])
						add("argswap", fmt.Sprintf("swap arguments %d and %d (%s)", i+1, j+1, ps[i]), off(a.Pos()), off(b.End()), text(b)+mid+text(a))
					}
				}
			}
		}
		return true
	})
}

func apply(s Site) []byte {
	var b bytes.Buffer
	b.Write(src[:s.Start])
	b.WriteString(s.Repl)
	b.Write(src[s.End:])
	return b.Bytes()
}

func lineOf(buf []byte, line int) string {
	ls := bytes.Split(buf, []byte("\n"))
	if line-1 < len(ls) {
		return strings.TrimSpace(string(ls[line-1]))
	}
	return ""
}

func main() {
	file := flag.String("file", "", "Go source file")
	list := flag.Bool("list", false, "list the mutation sites as JSON")
	app := flag.Int("apply", -1, "emit the file text with mutation ID applied")
	flag.Parse()
	var err error
	src, err = os.ReadFile(*file)
	if err != nil {
		fmt.Fprintln(os.Stderr, err)
		os.Exit(2)
	}
	f, err := parser.ParseFile(fset, *file, src, parser.ParseComments)
	if err != nil {
		fmt.Fprintln(os.Stderr, err)
		os.Exit(2)
	}
	tfile = fset.File(f.Pos())
	collect(f, *file)
	// keep only mutants that still parse; number them in source order of collection (deterministic)
	kept := make([]Site, 0, len(sites))
	for _, s := range sites {
		m := apply(s)
		if _, err := parser.ParseFile(token.NewFileSet(), *file, m, 0); err != nil {
			continue
		}
		s.OrigLine = lineOf(src, s.Line)
		s.MutLine = lineOf(m, s.Line)
		if s.MutLine == "" {
			s.MutLine = "(deleted)"
		}
		s.ID = len(kept)
		kept = append(kept, s)
	}
	sites = kept
	if *list {
		enc := json.NewEncoder(os.Stdout)
		enc.SetEscapeHTML(false)
		enc.Encode(sites)
		return
	}
	if *app >= 0 && *app < len(sites) {
		os.Stdout.Write(apply(sites[*app]))
		return
	}
	fmt.Fprintln(os.Stderr, "usage: mutgen -file F (-list | -apply ID)")
	os.Exit(2)
}
