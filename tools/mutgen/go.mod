module verif/mutgen

go 1.21
