#!/usr/bin/env python3
"""Which translated functions changed?  (docs/translator.md)

harness/trans regenerates a Gallina definition from the SSA form of each configured Go function.  The committed
baseline coq/trans_baseline.json holds, per function, the hash and the text of the definition generated from the
tree the equality proofs (Proofs/TransEq_*.v, Properties/T01.v) were written against, and the ids of the registered
properties that own the function.

    changed_functions(repo) -> list of function names whose generated definition differs from the baseline
                               (a function that became untranslatable, appeared or disappeared counts as changed)
    changed_owners(repo)    -> sorted list of property ids (C01..C20) owning a changed function

Coverage: EVERY function of every package of the module (translator mode -hashall).  For a function the translator has a
Gallina definition for, the hash is that of the definition; for every other function (loops over fresh slices,
interfaces, reflection, ...) it is the hash of the SSA form (insensitive to comments, layout, renamed locals).  Owners of
a function outside the curated list OWNERS are the properties that anchor its source file in properties.jsonl.

The tie is AUXILIARY: a registered property check does not fail because of it.  ./check may call
changed_owners(REPO) to ESCALATE the search budget of an owning property (e.g. run the thorough tier) when the code
its model was proved equal to is no longer the code in the tree.

    python3 lib/trans_changed.py [--repo DIR]            names of the changed functions (exit 1 if any)
    python3 lib/trans_changed.py --diff [--repo DIR]     ... with a diff of each definition against the baseline
    python3 lib/trans_changed.py --owners [--repo DIR]   ids of the owning properties
    python3 lib/trans_changed.py --update-baseline       rewrite coq/trans_baseline.json from /repo (after the proofs
                                                         have been brought up to date with a deliberate change)
"""
import os, sys, json, subprocess, fcntl, difflib

ROOT = os.path.dirname(os.path.dirname(os.path.abspath(__file__)))
BASELINE = os.path.join(ROOT, "coq", "trans_baseline.json")
REGEN = os.path.join(ROOT, "harness", "trans", "regen.sh")

# registered properties whose model functions the translated code is proved equal to
OWNERS = {
    "bmtree.PathLen": ["C10", "C03"], "bmtree.PathHeight": ["C10"], "bmtree.PathBits": ["C10"], "bmtree.PathMask": ["C10"],
    "bmtree.NewPath": ["C10", "C11"], "bmtree.Height": ["C03"],
    "bmtree.PathToIndex": ["C03"], "bmtree.PathToIndexLoose": ["C03"],
    "bitmap.Get": ["C12"], "bitmap.Get1": ["C12"], "bitmap.SafeGet": ["C12"], "bitmap.SafeGet1": ["C12"],
    "bitmap.Getw": ["C14"], "bitmap.Rank64": ["C01"], "bitmap.Rank128": ["C01"],
    "bitstr.Len": ["C09"],
    "bitmap.FromStr32": ["C11"], "bmtree.PathOf": ["C11"],
    "bitmap.TailBitmap.Get": ["C15"], "bitmap.TailBitmap.Get1": ["C15"], "bitword.bitWord.Get": ["C08"], "bitword.bitWord.FirstDiff": ["C08"], "bitword.newBW": ["C08"],
    "bitmap.Select32": ["C02"], "bitmap.Select32R64": ["C02"], "bitmap.select32single": ["C02"], "bitmap.selectU64Indexed": ["C02"], "bitmap.indexSelectU64": ["C02"],
    "iohelper.NewSectionWriter": ["C18"], "iohelper.AtToWriter": ["C18"],
    "iohelper.SectionWriter.Seek": ["C18"], "iohelper.SectionWriter.Size": ["C18"],
    # listed to document the bail-out (loops): unsupported in the baseline as well
    "bmtree.shiftMulti": ["C03"], "bmtree.IndexToPath": ["C05"], "bitmap.NextOne": ["C13"], "bitmap.PrevOne": ["C13"],
    "bitmap.IndexRank64": ["C01"],
}


class TransError(Exception):
    pass


def load_baseline():
    if not os.path.exists(BASELINE):
        return {}
    return json.load(open(BASELINE)).get("functions", {})


def owners_by_file():
    """source file -> ids of the registered properties that anchor it (properties.jsonl)"""
    m = {}
    try:
        for line in open(os.path.join(ROOT, "properties.jsonl")):
            if line.strip():
                d = json.loads(line)
                for f in (d.get("anchors") or {}).get("files", []):
                    m.setdefault(f, []).append(d["id"])
    except Exception:
        pass
    return m


def generate(repo=None, sfx="-changed", out=None, timeout=600):
    """Run the translator in -hashall mode on `repo` in its own work directory; returns {name: result dict} for EVERY
    function of the module (hash of the generated definition where one exists, of the SSA form otherwise).
    Does not touch coq/gen/Trans.v unless `out` says so."""
    repo = repo or os.environ.get("VERIF_REPO", "/repo")
    bdir = os.path.join(ROOT, "build", "trans")
    os.makedirs(bdir, exist_ok=True)
    env = dict(os.environ, VERIF_REPO=repo, TRANS_SFX=sfx, TRANS_OUT=out or os.path.join(bdir, "Trans%s.v" % sfx),
               TRANS_FLAGS="-hashall")
    with open(os.path.join(bdir, "lock%s" % sfx), "w") as lk:
        fcntl.flock(lk, fcntl.LOCK_EX)
        p = subprocess.run([REGEN, repo], env=env, timeout=timeout, stdout=subprocess.PIPE, stderr=subprocess.PIPE, text=True)
        if p.returncode != 0:
            raise TransError("harness/trans failed on %s (rc %d): %s" % (repo, p.returncode, (p.stderr or p.stdout)[-1500:]))
        rs = json.load(open(os.path.join(bdir, "defs%s.json" % sfx)))
    return {r["name"]: r for r in rs}


def compare(cur, base=None, only_cur=False):
    """names whose hash differs (or that exist on one side only), in the translator's order;
    only_cur: `cur` is the curated list of ./check T01, not the whole module"""
    base = load_baseline() if base is None else base
    out = [n for n in cur if cur[n]["hash"] != base.get(n, {}).get("hash")]
    if not only_cur:
        out += [n for n in base if n not in cur]
    return out


def changed_functions(repo=None):
    try:
        cur = generate(repo)
    except TransError:
        # the tree does not load: every translated function counts as changed
        return sorted(load_baseline())
    return compare(cur)


def changed_owners(repo=None):
    base = load_baseline()
    byfile = owners_by_file()
    try:
        cur = generate(repo)
    except TransError:
        cur = {}
    ids = set()
    for n in (compare(cur, base) if cur else sorted(base)):
        ids.update(base.get(n, {}).get("owners") or OWNERS.get(n) or byfile.get(cur.get(n, {}).get("file", ""), []))
    return sorted(ids)


def text_of(r):
    if not r:
        return "(not present)\n"
    if r.get("status") != "translated":
        return "UNSUPPORTED: %s\n" % r.get("reason", "")
    return r.get("def", "") + "\n"


def diff_function(name, cur, base=None, context=1):
    base = load_baseline() if base is None else base
    a = text_of(base.get(name)).splitlines()
    b = text_of(cur.get(name)).splitlines()
    return "\n".join(difflib.unified_diff(a, b, "baseline %s" % name, "generated %s" % name, n=context, lineterm=""))


def update_baseline(repo="/repo"):
    cur = generate(repo)
    head = ""
    try:
        head = subprocess.run(["git", "-C", repo, "rev-parse", "HEAD"], stdout=subprocess.PIPE, text=True).stdout.strip()
    except Exception:
        pass
    fns = {}
    byfile = owners_by_file()
    for n, r in cur.items():
        own = sorted(set(OWNERS.get(n, [])) | set(byfile.get(r.get("file", ""), [])))
        fns[n] = {"hash": r["hash"], "status": r["status"], "owners": own, "coq": r["coq"], "file": r.get("file", ""),
                  # an equality proof exists (otherwise the function is translated for change detection only)
                  "proved": os.path.exists(os.path.join(ROOT, "coq", "theories", "Proofs", "TransEq_%s.v" % r["coq"]))}
        if r["status"] == "translated" and (n in OWNERS or fns[n]["proved"]):
            fns[n]["def"] = r["def"]          # the text is kept for the curated functions (diff in the report of T01)
            fns[n]["calls"] = r.get("calls") or []
        elif r["status"] != "translated":
            fns[n]["reason"] = r.get("reason", "")[:160]
    json.dump({"comment": "baseline of harness/trans: the definitions the proofs Proofs/TransEq_*.v were written against; "
                          "rewrite with `python3 lib/trans_changed.py --update-baseline`",
               "repo_head": head, "functions": fns}, open(BASELINE, "w"), indent=1)
    open(BASELINE, "a").write("\n")
    return fns


def main(argv):
    import argparse
    ap = argparse.ArgumentParser()
    ap.add_argument("--repo", default=os.environ.get("VERIF_REPO", "/repo"))
    ap.add_argument("--update-baseline", action="store_true")
    ap.add_argument("--diff", action="store_true")
    ap.add_argument("--owners", action="store_true")
    a = ap.parse_args(argv)
    if a.update_baseline:
        fns = update_baseline(a.repo)
        print("baseline written: %d functions (%d translated) from %s" % (
            len(fns), sum(1 for f in fns.values() if f["status"] == "translated"), a.repo))
        return 0
    try:
        cur = generate(a.repo)
    except TransError as e:
        print("ERROR", e)
        return 2
    ch = compare(cur)
    if a.owners:
        base = load_baseline()
        byfile = owners_by_file()
        ids = set()
        for n in ch:
            ids.update(base.get(n, {}).get("owners") or OWNERS.get(n) or byfile.get(cur.get(n, {}).get("file", ""), []))
        print(" ".join(sorted(ids)))
    else:
        for n in ch:
            print(n)
            if a.diff:
                print(diff_function(n, cur))
    return 1 if ch else 0


if __name__ == "__main__":
    sys.exit(main(sys.argv[1:]))
