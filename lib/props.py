"""Per-property configuration of ./check: lib/props.d/<ID>.py each define CFG = {...}.

Keys: files (anchored Go files, for the coverage report), go (op -> Go function, for replay files),
rule (how cases are generated and what makes one non-trivial), assumptions (list), trusted (extra
trusted-base entries), runs (list of harness builds: {"tags": "verif debug"}, {"race": True}, ...),
explanation, shrink_s."""
import os, glob

PROPS = {}
for _f in sorted(glob.glob(os.path.join(os.path.dirname(os.path.abspath(__file__)), "props.d", "[CTX]*.py"))):
    _ns = {}
    exec(open(_f).read(), _ns)
    PROPS[os.path.basename(_f)[:-3]] = _ns["CFG"]
