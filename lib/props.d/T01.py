# T01 - the definitions generated from the Go source equal the model (AUXILIARY tie, docs/translator.md; not a
# registered property: no entry in properties.jsonl, no protocol operations, no harness run).
#  * regen: before the obligations are checked, harness/trans (go/packages + go/ssa) regenerates coq/gen/Trans.v
#    from the source of the tree under test (VERIF_REPO honoured); Proofs/TransEq_*.v and Properties/T01.v are
#    compiled against it (make -k, so that every function whose equality no longer checks is named).
#  * obligation_report: when an equality no longer checks, the function, the Coq error and a diff of the generated
#    definition (committed baseline coq/trans_baseline.json vs now) are put first into the replay.
def _t01_root():
    import os, sys
    return os.path.dirname(os.path.dirname(os.path.abspath(sys.modules["props"].__file__)))


_T01_STUB = '''(** GENERATED stub: the translator FAILED on this tree; the obligations of Properties/T01.v must fail. *)
From Coq Require Import List String.
Import ListNotations.
Open Scope string_scope.
Definition translated : list string := [].
Definition unsupported : list (string * string) := [("*", "the translator failed on this tree: %s")].
'''

_t01_state = {"report": "", "restore": False}


def _t01_regen(repo=None):
    """Regenerate coq/gen/Trans.v from the Go source of the tree under test and try every equality proof
    (called under coq.lock)."""
    import os, sys, subprocess, json, re, atexit, glob
    root = _t01_root()
    if os.path.join(root, "lib") not in sys.path:
        sys.path.insert(0, os.path.join(root, "lib"))
    import trans_changed as tc
    repo = repo or os.environ.get("VERIF_REPO", "/repo")
    sfx = "" if repo == "/repo" else "-scratch"
    env = dict(os.environ, VERIF_REPO=repo)
    env.pop("TRANS_SFX", None); env.pop("TRANS_OUT", None)
    out = os.path.join(root, "coq", "gen", "Trans.v")
    regen = os.path.join(root, "harness", "trans", "regen.sh")
    p = subprocess.run([regen, repo], env=env, timeout=600, stdout=subprocess.PIPE, stderr=subprocess.PIPE, text=True)
    if p.returncode == 3:
        err = getattr(sys.modules.get("__main__"), "ToolError", RuntimeError)
        raise err("harness/trans does not build: " + (p.stderr or p.stdout)[-1500:])
    lines = []
    cur = {}
    if p.returncode != 0:
        # the tree does not load / type-check: the equalities must not be discharged against a stale file
        msg = (p.stderr or p.stdout)[-600:].replace('"', "'").replace("\n", " | ")
        os.makedirs(os.path.dirname(out), exist_ok=True)
        open(out, "w").write(_T01_STUB % msg)
        lines.append("the translator failed on %s: %s" % (repo, (p.stderr or p.stdout)[-1200:]))
    else:
        cur = {r["name"]: r for r in json.load(open(os.path.join(root, "build", "trans", "defs%s.json" % sfx)))}
    base = tc.load_baseline()
    changed = tc.compare(cur, base, only_cur=True) if cur else sorted(n for n in base if base[n].get("proved"))
    # try every equality proof (make -k names all that fail, not only the first)
    coq = os.path.join(root, "coq")
    subprocess.run([os.path.join(coq, "gen_project.sh")], stdout=subprocess.PIPE, stderr=subprocess.PIPE)
    srcs = sorted(glob.glob(os.path.join(coq, "theories", "Proofs", "TransEq_*.v")))
    targets = [os.path.relpath(s, coq)[:-2] + ".vo" for s in srcs]
    mk = subprocess.run("timeout 3000 make -k -j%d %s" % (os.cpu_count() or 4, " ".join(targets)), cwd=coq, shell=True,
                        stdout=subprocess.PIPE, stderr=subprocess.STDOUT, text=True)
    failed = {}
    gen_broken = ""
    if mk.returncode != 0:
        for m in re.finditer(r'File "\./(theories/Proofs/TransEq_(\w+)|gen/Trans)\.v", line (\d+), characters [^\n]*\n((?:[^\n]*\n){1,6})', mk.stdout):
            msg = " ".join(l.strip() for l in m.group(4).splitlines() if not l.startswith(("make", "COQC", "COQDEP")))[:300]
            if m.group(1) == "gen/Trans":
                gen_broken = "coq/gen/Trans.v line %s: %s" % (m.group(3), msg)
            else:
                failed.setdefault(m.group(2), "line %s: %s" % (m.group(3), msg))
        if not failed and not gen_broken:
            gen_broken = mk.stdout[-600:]
    # equalities that were not attempted because they use a failed one
    req = {}
    for s in srcs:
        k = os.path.basename(s)[len("TransEq_"):-2]
        req[k] = set(re.findall(r"Proofs\.TransEq_(\w+)", open(s).read()))
    blocked = set()
    grew = True
    while grew:
        grew = False
        for k, deps in req.items():
            if k not in failed and k not in blocked and (deps & (set(failed) | blocked)):
                blocked.add(k); grew = True
    by_coq = {r["coq"]: n for n, r in cur.items()}
    for n, b in base.items():
        by_coq.setdefault(b.get("coq", n.replace(".", "_")), n)
    ntr = sum(1 for r in cur.values() if r["status"] == "translated")
    head = "T01 (generated definition = model), tree %s: %d functions translated, %d unsupported; generated definition " \
           "differs from the baseline for: %s" % (repo, ntr, len(cur) - ntr, ", ".join(changed) or "none")
    if gen_broken:
        lines.append("the generated file does not compile (a defect of harness/trans, not of the tree): " + gen_broken)
    if not cur and failed:
        lines.append("no equality can be checked against this tree (%d proofs fail for lack of the generated definitions)" % len(failed))
        failed_listed = {}
    else:
        failed_listed = failed
    for k, msg in failed_listed.items():
        n = by_coq.get(k, k)
        own = ",".join(base.get(n, {}).get("owners", []))
        lines.append("EQUALITY NO LONGER CHECKS: %s [owner %s] (Proofs/TransEq_%s.v %s)" % (n, own or "-", k, msg))
        d = tc.diff_function(n, cur, base) if cur else ""
        lines.append(d[:900] if d else "(the generated definition is the baseline's: a callee or the model changed)")
    for k in sorted(blocked if cur else []):
        lines.append("NOT ATTEMPTED (uses a failed equality): %s" % by_coq.get(k, k))
    hash_only = [n for n in changed if n in cur and cur[n].get("status") == "translated"
                 and not os.path.exists(os.path.join(coq, "theories", "Proofs", "TransEq_%s.v" % cur[n]["coq"]))]
    if hash_only:
        lines.append("changed, no equality proof exists (translated for change detection only): " + ", ".join(hash_only))
    still = [n for n in changed if n not in hash_only and cur.get(n, {}).get("coq") not in failed and cur.get(n, {}).get("coq") not in blocked
             and cur.get(n, {}).get("status") == "translated" and n in base]
    if still:
        lines.append("changed but still proved equal to the model (SSA or the proof absorbed the rewrite): " + ", ".join(still))
    for n in changed:
        if cur and cur.get(n, {}).get("status") != "translated" and base.get(n, {}).get("status") == "translated":
            lines.append("NO LONGER TRANSLATABLE: %s: %s" % (n, cur.get(n, {}).get("reason", "not present")))
    rep = head + "\n" + "\n".join(lines)
    try:
        open(os.path.join(root, "build", "trans", "report%s.txt" % sfx), "w").write(rep + "\n\n" + mk.stdout[-6000:])
    except Exception:
        pass
    _t01_state["report"] = rep[:2600]
    _t01_state["failed"] = sorted(by_coq.get(k, k) for k in failed)
    if repo != "/repo" and not _t01_state["restore"]:
        # a scratch tree was translated: put the file for /repo back when ./check exits, so that a later plain
        # `make` in coq/ is not confronted with the definitions of a mutant
        _t01_state["restore"] = True

        def _back():
            try:
                import fcntl
                _lk = open(os.path.join(root, "build", "regen-T01.lock"), "w")
                fcntl.flock(_lk, fcntl.LOCK_EX)   # not while another run is between regeneration and coqc
                e = dict(os.environ, VERIF_REPO="/repo"); e.pop("TRANS_SFX", None); e.pop("TRANS_OUT", None)
                subprocess.run([regen, "/repo"], timeout=600, env=e, stdout=subprocess.DEVNULL, stderr=subprocess.DEVNULL)
            except Exception:
                pass
        atexit.register(_back)


def _t01_report():
    return _t01_state["report"]


CFG = {
 'files': ['bmtree/pathlen.go', 'bmtree/pathheight.go', 'bmtree/pathbits.go', 'bmtree/newpath.go', 'bmtree/height.go', 'bmtree/index.go',
           'bitmap/get.go', 'bitmap/rank.go', 'bitstr/bitstr.go', 'iohelper/iohelper.go'],
 'go': {},
 'regen': _t01_regen,
 'obligation_report': _t01_report,
 'runs': [],      # no harness run: the tie is the regenerated definition, not an execution
 'rule': 'no cases: for every listed loop-free integer function the Gallina definition regenerated from the SSA form of the Go '
         'source is proved EQUAL to the model function, for all arguments in the ranges of the Go types',
 'assumptions': ['AUXILIARY tie: the registered properties C01..C20 do not depend on it; a behaviour-preserving rewrite of the Go code '
                 'may break an equality proof (reported here, and only here) while every property still holds',
                 'the generated definition is as good as the translator (harness/trans: SSA -> Gallina, Go integer semantics of '
                 'Lib/MachInt.v + Lib/TransLib.v, math/bits as Lib/Bits.v, package tables as the model constants pinned by DESIGN 4.2, '
                 'bmtree.shiftMulti mapped to the model function, must.Be.OK accepted as a no-op only when the SSA body of the callee is empty)',
                 'hypotheses of individual theorems: len(bm) < 2^31 (SafeGet*), i+64 fits int32 (Rank128), len(bs) fits int (bitstr.Len)'],
 'trusted': ['harness/trans (go/packages + go/ssa v0.29.0 translator to Gallina) and its mapping tables'],
 'explanation': 'One theorem per translated function: LowGen.Trans.f args = Model.f args. The file coq/gen/Trans.v is regenerated from the '
                'source on every run, so a change to a translated function changes the statement being proved and the proof fails '
                'unless the change is one that SSA construction or the proof script absorbs.',
 'shrink_s': 0,
}
