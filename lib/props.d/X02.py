CFG = {
 'assumptions': ['the Tree implementation is pure (Labels, Child, NodeID, NodeInfo, LabelInfo, LeafVal are functions of their arguments) and '
                 'presents a FINITE tree (Spec/TreeSpec.v: rep); an implementation describing a cyclic graph makes both walks diverge '
                 '(the model runs out of fuel) and is outside the statement',
                 'leaf values are nil, int, string, bool or []int (fmt "%v" is modelled on these only)',
                 'a node has at most one edge with a nil label and the root has none (Child(node, nil) could not tell two apart; Child(nil, nil) is the root)'],
 'files': ['tree/tree.go'],
 'go': {'tree.String': 'tree.String (toStrings, nodeStr)', 'tree.DepthFirst': 'tree.DepthFirst (depthFirst)'},
 'rule': 'EXTRA check (not in properties.jsonl). A case is a finite tree (ids, infos, label texts, leaf values) from which the harness builds an '
         'implementation of tree.Tree; every tree runs through both operations, with the root presented as nil and as a node. '
         'cases = every ordered tree shape of 1..6 nodes (thorough 1..8) x 4 decoration schemes + structured random trees of 1..60 nodes '
         '(deep / wide mix, empty ids 1 in 5, empty infos 1 in 4, empty label texts 1 in 8, nil labels below the root 1 in 7, leaf values nil / small / '
         'extreme ints / bools / strings / []int slices, leaf values on inner nodes, texts containing "#", "-", ">", "*", "=", spaces and newlines) + a chain of 120 (400) nodes, stars with '
         'fan-out 9, 10, 11, 99, 100, 101, 300 (1000), a comb, ids and label texts of 55..250 bytes (indents beyond 64, 128 and 256 columns; 1 random text in 40 is 50..140 bytes long). A case is non-trivial when the tree has more than one node (String: always); '
         'shape key = (operation, size class, depth class, fan-out class, nil label / empty id / empty label / inner leaf present, set of leaf value kinds, root as nil); '
         'distinct = distinct (op,args)',
 'explanation': 'tree is covered by no record of properties.jsonl; the statement checked is docs/extra-packages.md X02',
 'trusted': ['harness/x02.go: the Go implementation of tree.Tree built from the case text (Spec/TreeSpec.v rose_tree mirrors it)',
             'fmt "%v" / "%d" and strings.Repeat / Join are Go\'s library: modelled definitionally (Lib/Decimal_xpk.v, Model/Tree.v fmt_v)'],
}
