CFG = {
 'files': ['bitword/bitword.go'],
 'go': {'bitword.FromStr': 'bitword.BitWord[n].FromStr',
        'bitword.Get': 'bitword.BitWord[n].Get',
        'bitword.ToStr': 'bitword.BitWord[n].ToStr',
        'bitword.ToStr/FromStr': 'bitword.BitWord[n].ToStr(bitword.BitWord[n].FromStr(s))',
        'bitword.FirstDiff': 'bitword.BitWord[n].FirstDiff',
        'bitword.FromStrs': 'bitword.BitWord[n].FromStrs',
        'bitword.ToStrs': 'bitword.BitWord[n].ToStrs',
        'bitword.Get/large': '[bitword.BitWord[n].Get(s,i), bitword.BitWord[n].FromStr(s)[i]]',
        'bitword.FirstDiff/large': 'bitword.BitWord[n].FirstDiff',
        'bitword.FromStr/large': 'bitword.BitWord[n].FromStr',
        'bitword.ToStr/large': 'bitword.BitWord[n].ToStr',
        'bitword.FromStr/cmp': 'bytes.Compare(bitword.BitWord[n].FromStr(a), bitword.BitWord[n].FromStr(b))',
        'bitword.FromStr/ToStr': 'bitword.BitWord[n].FromStr(bitword.BitWord[n].ToStr(ws))',
        'bitword.Session/scribble': 'FromStr of each string, the caller overwrites the returned slices; then FromStr / Get(all i) / ToStr(FromStr) of each probe',
        'bitword.FromStrs/batch': 'bitword.BitWord[n].FromStrs (batch in compact form)',
        'bitword.ToStrs/batch': 'bitword.BitWord[n].ToStrs (batch in compact form)',
        'bitword.ToStrs/flat': '[bitword.BitWord[n].ToStrs(windows of one flat buffer), the buffer afterwards]',
        'bitword.FirstDiff/alias': '[FirstDiff(a, a[:k], from, end), FirstDiff(a[:k], a, from, end)] with a[:k] in the same memory as a',
        'bitword.Session/reuse': 'ToStr out of one buffer the caller re-fills, ToStrs out of buffers the caller clears; strings rendered at the end',
        'bitword.Get/any': 'bitword.BitWord[n].Get',
        'bitword.FirstDiff/any': 'bitword.BitWord[n].FirstDiff',
        'bitword.ToStr/any': 'bitword.BitWord[n].ToStr'},
 'rule': 'every op takes the width n in {1,2,4,8} first. cases = corpus + exhaustive sweeps (all 256 one-byte strings and all '
         'strings of length <= 2 over {00,01,7f,80,ff,a,b} x 4 widths: FromStr, ToStr(FromStr), Get at every index; FirstDiff on '
         'all pairs of strings of length <= 1 x all windows; ToStr on all in-range word lists up to lengths with a partial last '
         'byte) + random strings of 0..40 bytes over 5 alphabets, random in-range word lists, FromStrs/ToStrs of 0..4 elements, '
         'and FirstDiff on pairs sharing a prefix (one flipped bit / prefix / equal / unrelated tails) with from and end drawn '
         'around lim, both lengths, -1, 0 and beyond; + inputs whose byte/bit/word offsets cross 2^8 and 2^16 (narrowing conversions): '
         'strings of 31..33 and 255..258 bytes and word lists of ~256/~2048 words through the ordinary ops, and the /large ops '
         '(judged by the linear-time word-by-word reading of Spec/BitwordSpecDirect.v, proved equal to the chunk reading) on a '
         '~8.2 KB and a ~66 KB random string: FromStr of the whole string, Get and FromStr[i] at word indexes just below/at/above '
         'bit offsets 2^11, 2^16, 2^19 (= byte 2^16) and word index 2^16, FirstDiff with one flipped bit just beyond those '
         'boundaries and runs to the end (result = word count > 2^16), ToStr of ~8200 words (2^16 words once, thorough tier); '
         '+ FromStrs/ToStrs on all lists of length <= 3 over four elements (equal neighbours, empty elements); '
         '+ widened: FromStr/cmp (sign of bytes.Compare of the word slices = sign of comparing the strings) on all pairs of '
         'strings of length <= 1 over the 7-byte alphabet, a sample (thorough: all) of the pairs of length <= 2, random pairs '
         'sharing a prefix; FromStr/ToStr (= ws plus the zero words completing the last byte) on every ToStr case of up to 4096 words.  + histories: Session/scribble (the caller overwrites every slice FromStr returned - all 256 one-byte strings x 4 widths and '
         'mixed longer strings - then FromStr / Get at every index / ToStr(FromStr) of strings containing those bytes); FromStrs/ToStrs '
         'batches of 4097..5000 elements in compact form (alphabet + run lengths; sizes not divisible by 3, 16, 33, 97; among the slowest '
         'cases, so re-run under GOMAXPROCS 3/33/97); ToStrs over adjacent / overlapping / prefix-then-whole windows of ONE flat buffer '
         '(result and the buffer afterwards), exhaustive over the split points of a 2*(8/n)+1-word buffer.  + aliasing: FirstDiff/alias (b = a[:k] sharing the memory of a, every k in 0..len, both argument orders, end in {-1, beyond a, '
         'words(a), words(b), words(b)+1, inside}); Session/reuse (ToStr out of ONE word buffer that the caller overwrites after every '
         'call, ToStrs out of buffers cleared afterwards, the returned strings rendered only at the end; 4 widths).  Only with VERIF_C08_WIDE=1 (behaviour OUTSIDE the statement, proved for the model as C08_Get_any / '
         'C08_FirstDiff_any / C08_ToStr_any and confirmed on the real code with that flag, but not part of the default run so that a '
         'rewrite that keeps the in-domain behaviour stays silent): Get at every index from below 0 to beyond the end, FirstDiff '
         'with negative from and end < -1, ToStr on arbitrary bytes. A case is non-trivial when its string/word list is non-empty (FirstDiff: '
         'both strings non-empty); the shape key is (op, width, length class, high-bit presence | word-in-byte, byte class | '
         'partial-last-byte count | end class, from vs lim, where the first difference is, la vs lb); distinct = distinct (op,args)',
 'assumptions': ['strings are byte lists (every element in [0,256)); ToStr only on words < 2^n (out-of-range words are outside the property)',
                 'FirstDiff: from >= 0 and end >= -1 (negative from with a non-empty window panics in Get; outside the property)',
                 '8*len(s) fits in int (Go int is 64-bit on this platform; index arithmetic is unbounded Z in the model)'],
 'trusted': ['modelled not verified: Go byte shifts (shr8/shl8 in Model/Bitword.v: a count >= 8 gives 0) and the byte-typed constant (1<<n)-1'],
 'explanation': 'Model/Bitword.v restates FromStr/ToStr/Get/FirstDiff with the same loops, index and shift arithmetic (u8 on the '
                'ToStr accumulator and on wordMask); Spec/BitwordSpec.v defines the words of s as the values of the consecutive n-bit '
                'chunks of msb_bits s; Properties/C08.v proves model = spec for all strings and the four widths (FromStr, Get, ToStr incl. '
                'the uint8 accumulator, ToStr(FromStr s) = s, FirstDiff as first hit and as minimum, FromStrs/ToStrs), and that the '
                'word-by-word reading used for large inputs is the same specification; widened: FromStr keeps the byte order and is '
                'injective, Get / FirstDiff on every index / window (panic domains), ToStr on arbitrary bytes (carries of the accumulator).',
}
