CFG = {
 'files': ['bitword/bitword.go'],
 'go': {'bitword.FromStr': 'bitword.BitWord[n].FromStr',
        'bitword.Get': 'bitword.BitWord[n].Get',
        'bitword.ToStr': 'bitword.BitWord[n].ToStr',
        'bitword.ToStr/FromStr': 'bitword.BitWord[n].ToStr(bitword.BitWord[n].FromStr(s))',
        'bitword.FirstDiff': 'bitword.BitWord[n].FirstDiff',
        'bitword.FromStrs': 'bitword.BitWord[n].FromStrs',
        'bitword.ToStrs': 'bitword.BitWord[n].ToStrs'},
 'rule': 'every op takes the width n in {1,2,4,8} first. cases = corpus + exhaustive sweeps (all 256 one-byte strings and all '
         'strings of length <= 2 over {00,01,7f,80,ff,a,b} x 4 widths: FromStr, ToStr(FromStr), Get at every index; FirstDiff on '
         'all pairs of strings of length <= 1 x all windows; ToStr on all in-range word lists up to lengths with a partial last '
         'byte) + random strings of 0..40 bytes over 5 alphabets, random in-range word lists, FromStrs/ToStrs of 0..4 elements, '
         'and FirstDiff on pairs sharing a prefix (one flipped bit / prefix / equal / unrelated tails) with from and end drawn '
         'around lim, both lengths, -1, 0 and beyond. A case is non-trivial when its string/word list is non-empty (FirstDiff: '
         'both strings non-empty); the shape key is (op, width, length class, high-bit presence | word-in-byte, byte class | '
         'partial-last-byte count | end class, from vs lim, where the first difference is, la vs lb); distinct = distinct (op,args)',
 'assumptions': ['strings are byte lists (every element in [0,256)); ToStr only on words < 2^n (out-of-range words are outside the property)',
                 'FirstDiff: from >= 0 and end >= -1 (negative from with a non-empty window panics in Get; outside the property)',
                 '8*len(s) fits in int (Go int is 64-bit on this platform; index arithmetic is unbounded Z in the model)'],
 'trusted': ['modelled not verified: Go byte shifts (shr8/shl8 in Model/Bitword.v: a count >= 8 gives 0) and the byte-typed constant (1<<n)-1'],
 'explanation': 'Model/Bitword.v restates FromStr/ToStr/Get/FirstDiff with the same loops, index and shift arithmetic (u8 on the '
                'ToStr accumulator and on wordMask); Spec/BitwordSpec.v defines the words of s as the values of the consecutive n-bit '
                'chunks of msb_bits s; Properties/C08.v proves model = spec for all strings and the four widths.',
}
