CFG = {
 'assumptions': ['strings are ASCII (bytes < 128): on ASCII the rune-based helpers of the semver library agree with the byte-wise model',
                 'the parsers of github.com/blang/semver v3.5.1 (which strings are versions / ranges, and what they denote) are THIRD-PARTY code: '
                 'modelled function by function (Model/Semver.v), exercised by correspondence on every run, NOT verified; the theorems are about '
                 'the comparison logic (Compare = the precedence order of the standard) and about the meaning of the closures built from the parsed groups',
                 'Check in a release build (must disabled) is specified only inside its contract: a valid version and a valid, well-formed range; '
                 'outside it only model = implementation is compared',
                 'the /ast operations do not put the letter x into identifiers of range versions (the wildcard of the library\'s range syntax, see docs/extra-packages.md)'],
 'files': ['vers/vers.go'],
 'go': {'vers.IsCompatible': 'vers.IsCompatible', 'vers.Check': 'vers.Check (release build, must disabled)',
        'vers.Check/debug': 'vers.Check (-tags debug build, must enabled)',
        'vers.IsCompatible/malformed': 'vers.IsCompatible on the recorded malformed ranges, strict specification',
        'vers.Check/debug/malformed': 'vers.Check (-tags debug) on the recorded malformed ranges, strict specification',
        'vers.IsCompatible/ast': 'vers.IsCompatible on the canonical strings of a structured version and range',
        'vers.Check/ast': 'vers.Check on the canonical strings of a structured version and range'},
 'runs': [{'tags': 'verif'}, {'tags': 'verif debug'}],
 'rule': 'EXTRA check (not in properties.jsonl). cases = (1) a fixed family of 30 versions exercising every decision of the precedence order, '
         'pairwise under all 6 operators through the parser-independent /ast operation, and along a diagonal through every operator spelling as strings; '
         '(2) structured random strings: a version near a base version (half of the cases are clean: valid version, well-formed comparators and wildcards only; in the other half the version is damaged 1 time in 4 in one of 16 ways and the elements mix everything) against 0..4 spec elements of 1..3 '
         'comparators built around the base (operators in all spellings, a space after the operator, bad operators, wildcards 1.x / 1.2.x / 1.x.x and odd ones, '
         'damaged versions, inner "||", empty and odd elements, doubled / leading / trailing spaces); (3) structured random versions and ranges (1..3 groups of 1..3 comparators, '
         'versions differing from the base in one place) through the /ast operations. The release build runs IsCompatible, Check and the /ast operations, the -tags debug build runs Check/debug '
         'on the string cases. A case is non-trivial always; shape key = (operation, kind of the version, kinds of the comparators of every element) or (group shape, pre-release length); '
         'distinct = distinct (op,args)',
 'explanation': 'vers is covered by no record of properties.jsonl; the statement checked is docs/extra-packages.md X01',
 'trusted': ['github.com/blang/semver v3.5.1 parsers: modelled, not verified (Model/Semver.v)',
             'harness/x01.go prints the canonical strings of the /ast operations (Run/X01.v prints the same way)'],
}
