CFG = {'assumptions': ['the initial offset o is a multiple of 64 (the property statement); theorems are over unbounded Z: '
                 "Go's int64 index arithmetic (idx - Offset, Offset += 64) is assumed not to overflow, i.e. |o|, |idx| "
                 'far below 2^63 (the harness stays within 2^40)',
                 'probes are inside the domain of Get/Get1: 0 <= j < Offset + 64*len(Words)'],
 'files': ['bitmap/tailbitmap.go'],
 'go': {'bitmap.TailBitmap': 'bitmap.NewTailBitmap + (*TailBitmap).Set/Compact/Get/Get1 (one whole history per case)'},
 'rule': 'one case = one whole history on a fresh NewTailBitmap(o); exported Offset and Words and the result are '
         'observed after EVERY call. Cases = all histories of <= 3 (quick) / 4 (thorough) calls over an 11-call '
         'alphabet around the first words for o in {0,64,640} with edge-position probe sweeps + structured random '
         'histories of up to 300 calls (scattered, front-to-back with skipped bits revisited, back-to-front, whole '
         'words in random order, dense first word; sets below the offset, repeated sets, explicit Compact, Get/Get1 '
         'probes after every mutation at offset/word/end boundaries) + in-order fills of 1030 words crossing the '
         '1024-word reclaim threshold (both tiers) + back-to-front fills (40 words quick, 1100 words thorough). '
         'A history is non-trivial when Offset advanced at least once and both a stored 1 and a stored 0 were '
         'probed; shape key = (max stored words, #advances, max compaction jump, sets below offset, repeated sets, '
         'explicit Compact, bulk fill, probe classes hit, threshold crossed)',
 'shrink_s': 40}
