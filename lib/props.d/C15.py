CFG = {'assumptions': ['the initial offset o is a multiple of 64 (the property statement); theorems are over unbounded Z: '
                 "Go's int64 index arithmetic (idx - Offset, Offset += 64) is assumed not to overflow, i.e. |o|, |idx| "
                 'far below 2^63 (the harness stays within 2^40)',
                 'probes are inside the domain of Get/Get1: 0 <= j < Offset + 64*len(Words)',
                 'literal histories: Offset a multiple of 64, Words are uint64, at most 2^16 words (protocol bound '
                 'only; the theorems have no bound)',
                 'words reads: j >= Offset and j - Offset < 2^31 (the int32 index of the bitmap functions)',
                 'int64: the last word [2^63-64, 2^63) of the range is never stored (completing it wraps Offset: '
                 'theorem C15_int64_top_word_refuted, docs/selftest-C15.md); elsewhere the int64 model equals the '
                 'unbounded one (C15_int64_agrees)'],
 'files': ['bitmap/tailbitmap.go'],
 'go': {'bitmap.TailBitmap': 'bitmap.NewTailBitmap + (*TailBitmap).Set/Compact/Get/Get1 (one whole history per case)',
        'bitmap.TailBitmap/int64': 'bitmap.NewTailBitmap + Set/Compact/Get/Get1 with offsets and indices near MinInt64 '
                                   '/ MaxInt64, against the int64 model [widened]',
        'bitmap.TailBitmap/literal': '&bitmap.TailBitmap{Offset, Words} struct literal + Set/Compact/Get/Get1 (one '
                                     'whole history per case) [widened]',
        'bitmap.TailBitmap/pair': 'two bitmap.NewTailBitmap objects alive in one process, Set/Compact/Get/Get1 '
                                  'interleaved between them (shared package-level state) [two-object histories]',
        'bitmap.TailBitmap/words': 'history on NewTailBitmap, then TailBitmap.Get/Get1 vs '
                                   'bitmap.Get/Get1/SafeGet/SafeGet1 on the exported Words [widened]'},
 'rule': 'one case = one whole history on a fresh NewTailBitmap(o); exported Offset and Words and the result are '
         'observed after EVERY call. Cases = all histories of <= 3 (quick) / 4 (thorough) calls over an 11-call '
         'alphabet around the first words for o in {0,64,-64} (thorough: also -128, 640; negative offsets and indices '
         'are in the domain) with edge-position probe sweeps + structured random histories of up to 300 calls '
         '(scattered, front-to-back with skipped bits revisited, back-to-front, whole words in random order, dense '
         'first word; sets below the offset, repeated sets, explicit Compact, Get/Get1 probes after every mutation at '
         'offset/word/end boundaries) + in-order fills of 1030 words crossing the 1024-word reclaim threshold (both '
         'tiers) + back-to-front fills (40 words quick, 1100 words thorough). + far sets 1023..1025 words ahead of '
         'Offset at every word-edge bit + long tails (bits 1025/2100/5000 words ahead) at the moment the reclaim '
         'threshold is crossed, twice. WIDENED: (literal) all struct literals of 0..3 words over a 5-word alphabet x '
         'every call (thorough: every pair of calls) with full edge sweeps, random literals with leading all-ones '
         'words, reclaim from a literal (reclaimed = 0) at Offsets 1023/1024/1025/5000 words incl. a 1300-word tail; '
         '(words) random histories then 6 reads of positions from Offset to past the end. A history is non-trivial '
         'when Offset advanced at least once and both a stored 1 and a stored 0 were probed; shape key = (max stored '
         'words, #advances, max compaction jump, sets below offset, repeated sets, explicit Compact, bulk fill, probe '
         'classes hit, threshold crossed); literal: key lit/(words, leading all-ones words, advanced, Compact, bulk, '
         'below, probe classes) when a stored 1 and a stored 0 were probed; words: non-trivial when a stored 1 and a '
         'stored 0 were read; int64: random and deterministic histories 1..6 words below the last word of the int64 '
         'range and at MinInt64 (sets below Offset down to MinInt64, probes at MinInt64/-1/0/MaxInt64-64, fills up to '
         'the last word), key i64/(top|bottom, words, Compact, bulk); pair: two live objects, both filled in order '
         'across the 1024-word reclaim threshold with an EMPTY tail at reclaim time (3 fill variants x 3 offset '
         'pairs), then Sets and probes alternating between the objects, + random interleavings of two ordinary '
         'histories; key pair/(bucket, words A, words B, both crossed the threshold) when each object had a stored 1 '
         'and a stored 0 probed; the back-to-front fill of 1100 words (a run of more than 1024 complete words behind '
         'an incomplete first word, then the completing Set, then a Set beyond the end) now runs in BOTH tiers',
 'shrink_s': 40}
