CFG = {
 'files': ['bmtree/index.go', 'bmtree/pathlen.go', 'bmtree/pathheight.go', 'bmtree/pathbits.go', 'bmtree/pathstr.go', 'bmtree/height.go', 'bmtree/allpaths.go'],
 'go': {'bmtree.IndexToPath': 'bmtree.IndexToPath, then bmtree.PathToIndex(2^(h+1)-1, .) on its result',
        'bmtree.IndexToPath/fields': 'bmtree.IndexToPath, then PathLen/PathHeight/PathBits/PathMask/PathStr on its result',
        'bmtree.IndexToPath/order': 'bmtree.IndexToPath on two indices of one height, numeric comparison of the results',
        'bmtree.AllPaths/full': 'bmtree.AllPaths(2^(h+1)-1, 0, 1<<63) and [bmtree.IndexToPath(h, i)] for every index',
        'bmtree.AllPaths/scribble': 'bmtree.AllPaths(2^(hs+1)-1, 0, 1<<63), the caller overwrites the returned slice, then bmtree.IndexToPath(h, i) for every index',
        'bmtree.IndexToPath/session': 'consecutive bmtree.IndexToPath calls on one height; a session of >= 64 calls is then issued again by 6 goroutines at once (4 rounds, lockstep and free-running) and the first walk that differs from the lone one is the observation',
        'bmtree.PathToIndex/then-IndexToPath': 'bmtree.PathToIndexLoose / PathToIndex on any level mask, then bmtree.IndexToPath at the returned positions and their neighbours',
        'bmtree.Height/full': 'bmtree.Height(2^(h+1)-1)',
        'bmtree.PathToIndexLoose/full': 'bmtree.PathToIndexLoose(2^(h+1)-1, NewPath(node)), then bmtree.IndexToPath on its result',
        'bmtree.PathToIndex/inverse': 'bmtree.PathToIndex(2^(h+1)-1, NewPath(node)), then bmtree.IndexToPath on its result'},
 'rule': 'cases = every index of the full trees of heights 0..12 (this reads the whole idxToPath table through the API) and every node '
         'of heights 0..8 through the inverse direction; heights 13..30: first/last h+3 indices, 2^k+d for every k (d around 0, +-h, '
         '+-(h+1); thorough every |d| <= h+1), 6 extreme nodes of every length; random heights 13..30 (30 forced in 1/4, 5..12 in 1/8): '
         'uniform indices, indices of random nodes of every length, indices with a long common prefix of index-h and index, nodes ending '
         'in 0..3 left turns, sparse/dense paths, random nodes through the inverse direction; plus a Go-side sweep of the real round trip '
         '(quick: every index of heights 13..21, thorough: all 2^32-33 pairs) whose failures become cases. '
         'Widened ops on the same inputs: the five accessors on the result (every index of heights 0..8, a third of the boundary and a '
         'quarter of the random cases), the order of two results (every ordered pair of heights 0..4; previous/same/next index otherwise), '
         'PathToIndexLoose on the full tree for every node the inverse direction uses. '
         'History ops (generated first): the AllPaths listing of the full bitmap of height 0..8 overwritten in place by the caller, then '
         'IndexToPath listed for every index of heights 0..7; sessions of consecutive IndexToPath calls whose indices differ by multiples of '
         '2^k (k = 20..30, heights 21..30, both orders) and i j i j sessions; scans of 64..3000 consecutive indices at heights 5..24 (first, last, random start), repeated by 6 concurrent callers; PathToIndexLoose/PathToIndex on every level mask in [1,2^7) x '
         'every node and on random full / leaf-only / partial masks of heights 5..30, then IndexToPath at pos-1, pos, pos+1. '
         'A case is non-trivial when the node is not the root; shape key = (height bucket, shortcut not applicable/not taken/levels fixed, '
         'levels walked by the loop, loop exit: index 0 or table with 1..3 levels, all-left/all-right/mixed path); distinct = distinct (op,args)',
 'assumptions': ['0 <= treeheight <= 30 (bitmapSize 2^(h+1)-1 is an int32)', '0 <= index < 2^(treeheight+1)-1',
                 'inverse direction: a node of length <= treeheight'],
 'trusted': ['checker: the observed word is decoded into a node, must be exactly that node\'s word (enc) and the node\'s pre-order index in '
             'the full tree must be the index: position in the enumerated pre-order (pre_rank over all_nodes) for h <= 10, the recursive '
             'index (full_rank) above; full_rank = enumerated rank is a theorem (Proofs/IndexToPathProofs.v)'],
 'explanation': 'Theorems over the model (IndexToPath with its int32/uint64 wraps: common-prefix shortcut, descent loop, idxToPath table; '
                'PathToIndex full-tree closed form): for 0<=h<=30 and every index of the full tree IndexToPath h idx is the word of the '
                'idx-th node in pre-order, PathToIndex maps it back to idx, and IndexToPath inverts PathToIndex on every node. '
                'Route lemmas as theorems: table rows = pure descent (h<=3), loop+table = pure descent, shortcut = fixed descent steps, '
                'descent <-> pre-order index, checker exactness. Widened: order of results = order of indices (injectivity), '
                'PathLen/PathHeight/PathBits/PathMask/PathStr of the result describe the idx-th node, PathToIndexLoose on a full tree '
                '= (index, 1), Height(2^(h+1)-1) = h, IndexToPath h 0..T-1 = the words of the stored nodes of the full mask in pre-order '
                '(the list AllPaths returns by C04_allpaths).',
}
