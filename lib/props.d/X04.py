CFG = {
 'assumptions': ['int and uint are 64 bits wide (amd64, the platform of the harness)',
                 'arguments are values of the Go type of the function (the type system guarantees it); the theorems are '
                 'stated over all of Z and X04_closed shows that results of typed arguments stay in the type'],
 'files': ['mathext/util/util.go'],
 'go': dict([('util.%s%s' % (f, k), 'util.%s%s' % (f, k)) for f in ('Min', 'Max', 'Clap')
             for k in ('I', 'I8', 'I16', 'I32', 'I64', 'U', 'U8', 'U16', 'U32', 'U64')] +
            [('util.MinMax%s/grid' % k, 'util.Min%s and util.Max%s on every pair of two value lists' % (k, k))
             for k in ('I', 'I8', 'I16', 'I32', 'I64', 'U', 'U8', 'U16', 'U32', 'U64')] +
            [('util.Clap%s/grid' % k, 'util.Clap%s for every n of a value list and one (min,max)' % k)
             for k in ('I', 'I8', 'I16', 'I32', 'I64', 'U', 'U8', 'U16', 'U32', 'U64')]),
 'rule': 'EXTRA check (not in properties.jsonl). For each of the ten kinds: exhaustive for the 8-bit kinds (all 65536 pairs '
         'for Min/Max; every n x a 52x52 grid of (min,max) plus the type ends in the quick tier, all 2^24 triples in the '
         'thorough tier); all pairs and triples of the boundary values of the kind (type ends, -2..2, 2^b-1/2^b/2^b+1 for '
         'every narrower width b, unsigned values with the top bit set); structured random calls (equal arguments, '
         'neighbours, same low half / same high half, intervals ordered 7 times in 8, n at / next to an interval end). '
         'A case is non-trivial always (every call compares); shape key = (function, kind, order of the arguments or region of n '
         '(below / at / inside / at / above, inverted interval), width class of each argument); distinct = distinct (op,args)',
 'explanation': 'mathext/util is covered by no record of properties.jsonl; the statement checked is docs/extra-packages.md X04',
 'trusted': ['harness/x04.go converts between int64/uint64 carriers and the Go type of each kind'],
}
