CFG = {'assumptions': ['all bytes in [0,256)',
                 'the reader is a finite list of chunks; (0, nil) Reads (empty chunks) are exercised by pbcmpl.Unmarshal/chunks and covered by the theorems, except an empty LAST chunk; '
                 'its terminal condition is io.EOF or one injected error, delivered alone or together with the last bytes',
                 'the writer is well behaved: a Write that accepts fewer bytes than offered returns an error',
                 'BytesValue bodies are fed only as valid encodings (protobuf\'s general wire parser is not modelled); decode '
                 'failures are exercised with a legacy message whose Unmarshal rejects a marker byte'],
 'files': ['pbcmpl/pbcmpl.go', 'pbcmpl/header.go', 'pbcmpl/errors.go'],
 'go': {'pbcmpl.Unmarshal/stream': 'pbcmpl.Unmarshal called until the first error on one reader',
        'pbcmpl.ReadHeader/bytes': 'pbcmpl.ReadHeader',
        'pbcmpl.Marshal/faulty': 'pbcmpl.Marshal into a writer that follows a script of (bytes accepted, fail?) responses',
        'pbcmpl.Marshal/encerr': 'widening: pbcmpl.Marshal of a message whose own Marshal method returns an error, into a scripted writer',
        'pbcmpl.Unmarshal/chunks': 'widening: pbcmpl.Unmarshal until the first error on a reader that delivers an explicit chunk list, empty chunks = Read returning (0, nil) included',
        'pbcmpl.Unmarshal/bufio': 'pbcmpl.Unmarshal until the first error with the reader wrapped in bufio.NewReaderSize(reader, size)',
        'pbcmpl.Marshal/session': 'several pbcmpl.Marshal calls one after the other in ONE process, each into its own scripted writer (fail = 2: an error with Temporary() == true)',
        'pbcmpl.Walk/bytes': 'widening: a user loop of pbcmpl.ReadHeader + io.ReadFull(GetBodySize) on arbitrary bytes (refuses hsize != 32, bsize < 0 or > 64 KiB)'},
 'rule': 'cases = EVERY cut point 0..len of frames (body lengths 0,1,2,31,32,33,100 [+127..700 thorough]) x terminal {EOF, injected '
         'error} x {alone, with the last chunk} x chunking {whole, 1 byte, random}, also behind a complete frame; writer failing '
         'after EVERY k (header write, body write, partial, error with full write); header fields hsize x bsize over '
         '{0,1,31,32,33,2^31,2^32,2^62,2^63-1,2^63,2^64-1}^2 x available bytes, plus random fields; arbitrary byte strings; '
         'multi-frame streams with read errors injected at every offset and bodies rejected by the decoder. The specification '
         'accepts io.EOF or io.ErrUnexpectedEOF for a cut exactly after the header; everything else is exact. Every case is '
         'non-trivial (key = cut class / field class / chunking); distinct = distinct (op,args)',
 'trusted': ['modelled not verified: io.ReadFull / io.LimitReader / io.ReadAll loops (Model/Pbcmpl.v), encoding/binary little-endian',
             'harness test doubles: c06Reader (chunks + terminal), c06Writer (script) mirror cread / swrite of the model',
             'huge declared body sizes run under ulimit -v; the case is named on stderr (ABOUT) before it runs']}
